#!/usr/bin/env python3
"""Coordinator tool: validate an adversary's seeded change and run our check
against it.

  tools/seedtest.py <PROP> <k> [--props C01,C06]    (reads /tmp/seeds/<PROP>/<k>/)

Steps (all in a scratch worktree, removed afterwards): (1) demo passes on the
unmodified tree; (2) patch applies, builds, shipped suite passes; (3) demo
fails with the patch; (4) ./check <prop> --tier quick with VERIF_REPO=worktree.
Kept as /verif/seeded/<PROP>-<k>/ {patch.diff, demo_test.go, meta.json}.
"""
import argparse, json, os, re, shutil, subprocess, sys, time
ROOT = os.path.dirname(os.path.dirname(os.path.abspath(__file__)))
ENV = dict(os.environ, GOFLAGS="-mod=mod", GOPROXY="off", GOSUMDB="off", GOTOOLCHAIN="local")
def sh(cmd, cwd=None, env=ENV, timeout=3600):
    return subprocess.run(cmd, cwd=cwd, env=env, capture_output=True, text=True, timeout=timeout)
ap = argparse.ArgumentParser()
ap.add_argument("prop"); ap.add_argument("k"); ap.add_argument("--props"); ap.add_argument("--tier", default="quick")
ap.add_argument("--round", type=int, default=1); ap.add_argument("--race", action="store_true", help="run the demonstration under the race detector")
a = ap.parse_args()
src = "/tmp/seeds%s/%s/%s" % ("" if a.round == 1 else str(a.round), a.prop, a.k)
dst = os.path.join(ROOT, "seeded", "%s-%s%s" % (a.prop, "" if a.round == 1 else "r%d-" % a.round, a.k))
if not os.path.isdir(src) and os.path.isdir(dst):
    src = dst
meta = json.load(open(os.path.join(src, "meta.json")))
wt = "/tmp/wt/seedtest-%d" % os.getpid()
sh(["git", "-C", "/repo", "worktree", "add", "--detach", wt, "HEAD"])
res = {"ran_at_repo_head": sh(["git", "-C", "/repo", "rev-parse", "--short", "HEAD"]).stdout.strip()}
try:
    demo_dir = os.path.join(wt, meta.get("demo_pkg_dir", "seeddemo").strip("/").replace(wt.strip("/") + "/", ""))
    if meta.get("demo_pkg_dir", "").startswith("/"):
        # absolute path inside the adversary's worktree: keep only the relative part
        rel = re.sub(r"^/tmp/wt/[^/]+/?", "", meta["demo_pkg_dir"])
        demo_dir = os.path.join(wt, rel or "seeddemo")
    os.makedirs(demo_dir, exist_ok=True)
    shutil.copy(os.path.join(src, "demo_test.go"), os.path.join(demo_dir, "demo_test.go"))
    rel = os.path.relpath(demo_dir, wt)
    racef = ["-race"] if a.race else []
    d0 = sh(["go", "test"] + racef + ["-vet=off", "-count=1", "./" + rel + "/"], cwd=wt)
    res["demo_passes_unmodified"] = d0.returncode == 0
    ap_ = sh(["git", "apply", os.path.join(src, "patch.diff")], cwd=wt)
    if ap_.returncode != 0:
        # the tree has moved on since the change was written (later fix: commits): fall back to a 3-way merge
        ap_ = sh(["git", "apply", "-3", os.path.join(src, "patch.diff")], cwd=wt)
        sh(["git", "reset", "-q"], cwd=wt)
        res["patch_applied_3way"] = True
    res["patch_applies"] = ap_.returncode == 0
    b = sh(["go", "build", "./..."], cwd=wt)
    res["builds"] = b.returncode == 0
    d1 = sh(["go", "test"] + racef + ["-vet=off", "-count=1", "./" + rel + "/"], cwd=wt)
    res["demo_fails_with_patch"] = d1.returncode != 0
    shutil.rmtree(demo_dir)
    t = sh(["go", "test", "-vet=off", "-count=1", "./..."], cwd=wt)
    sh(["git", "checkout", "go.sum"], cwd=wt)
    res["shipped_suite_passes_with_patch"] = t.returncode == 0
    res["valid"] = all(res[k] for k in ("demo_passes_unmodified", "patch_applies", "builds", "demo_fails_with_patch", "shipped_suite_passes_with_patch"))
    res["checks"] = {}
    for pid in (a.props.split(",") if a.props else [a.prop]):
        t0 = time.time()
        r = sh([os.path.join(ROOT, "check"), pid, "--tier", a.tier], cwd=ROOT, env=dict(ENV, VERIF_REPO=wt))
        facets = sorted(set(re.findall(r"^  facet ([^:]+): ", r.stdout, re.M))) + sorted(set(re.findall(r"^  (extra stage: [^\n]{0,80})", r.stdout, re.M)))
        res["checks"][pid] = {"tier": a.tier, "exit": r.returncode, "caught": r.returncode == 1, "facets": facets, "wall_s": round(time.time() - t0, 1)}
        if r.returncode == 2:
            res["checks"][pid]["infra"] = r.stdout[-600:]
finally:
    sh(["git", "-C", "/repo", "worktree", "remove", "--force", wt])
    # the check binaries and module files built against the scratch worktree
    import glob, hashlib
    tag = hashlib.sha256(os.path.abspath(wt).encode()).hexdigest()[:10]
    for f in glob.glob(os.path.join(ROOT, ".run", "bin", "*-" + tag + "*")) + glob.glob(os.path.join(ROOT, ".run", "alt-" + tag + ".*")):
        try:
            os.remove(f)
        except OSError:
            pass
print(json.dumps(res, indent=1))
if res.get("valid"):
    os.makedirs(dst, exist_ok=True)
    if src != dst:
        for f in ("patch.diff", "demo_test.go"):
            shutil.copy(os.path.join(src, f), os.path.join(dst, f))
    old = {}
    if os.path.exists(os.path.join(dst, "meta.json")) and src != dst:
        old = {}
    meta_out = dict(meta)
    prev = json.load(open(os.path.join(dst, "meta.json"))).get("coordinator", {}) if os.path.exists(os.path.join(dst, "meta.json")) else {}
    prev_checks = prev.get("checks", {})
    prev_checks.update(res["checks"])
    res["checks"] = prev_checks
    meta_out["breaks_property"] = a.prop
    meta_out["coordinator"] = res
    meta_out["coordinator"]["what_was_run"] = "tools/seedtest.py: demo on unmodified tree, git apply, go build, demo with patch, shipped suite with patch, ./check <prop> --tier %s with VERIF_REPO=<scratch worktree>" % a.tier
    json.dump(meta_out, open(os.path.join(dst, "meta.json"), "w"), indent=1)
