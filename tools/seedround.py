#!/usr/bin/env python3
"""Coordinator tool: validate and test the three changes of one adversary round.

  tools/seedround.py <PROP> <round> [--props C01,C06] [--tier quick]

Removes the adversary's worktree, runs tools/seedtest.py for k = 1..3 and
prints one line per change."""
import json, os, subprocess, sys
ROOT = os.path.dirname(os.path.dirname(os.path.abspath(__file__)))
prop, rnd = sys.argv[1], sys.argv[2]
extra = sys.argv[3:]
subprocess.run(["git", "-C", "/repo", "worktree", "remove", "--force", "/tmp/wt/adv%s-%s" % (rnd, prop)], capture_output=True)
base = "/tmp/seeds%s/%s" % ("" if rnd == "1" else rnd, prop)
for k in sorted(os.listdir(base)):
    if not os.path.exists(os.path.join(base, k, "meta.json")):
        continue
    meta = json.load(open(os.path.join(base, k, "meta.json")))
    cmd = [sys.executable, os.path.join(ROOT, "tools", "seedtest.py"), prop, k, "--round", rnd] + extra
    if meta.get("race"):
        cmd.append("--race")
    r = subprocess.run(cmd, capture_output=True, text=True)
    try:
        res = json.loads(r.stdout[r.stdout.index("{"):])
    except Exception:
        print("%s-r%s-%s ERROR %s" % (prop, rnd, k, (r.stdout + r.stderr)[-400:]))
        continue
    inv = [x for x in ("demo_passes_unmodified", "patch_applies", "builds", "demo_fails_with_patch", "shipped_suite_passes_with_patch") if not res.get(x)]
    print("%s-r%s-%s %s %s" % (prop, rnd, k, "valid" if res.get("valid") else "INVALID(%s)" % ",".join(inv),
          {p: ("caught" if c["caught"] else "MISSED exit=%s" % c["exit"], c["facets"][:5]) for p, c in res.get("checks", {}).items()}), flush=True)
