#!/usr/bin/env python3
"""Hand-editing helper for /verif/known_findings.json (never called by a check).

  tools/kf.py add  --id C05-open-interval --property C05 --facet builder/history \
                   --witness replay/known/C05-open-interval.json --predicate c05OpenInterval \
                   --what "an empty open interval (x, x) is accepted by the refinement builder"
  tools/kf.py fix  --id C05-open-interval --commit <hash>
  tools/kf.py reopen --id ...      (a withdrawn repair)
  tools/kf.py rm   --id ...
  tools/kf.py list

Entries are kept sorted by id. A file lock makes concurrent edits safe.
"""
import argparse, fcntl, json, os, sys
ROOT = os.path.dirname(os.path.dirname(os.path.abspath(__file__)))
PATH = os.path.join(ROOT, "known_findings.json")

def main():
    ap = argparse.ArgumentParser()
    ap.add_argument("cmd", choices=["add", "fix", "reopen", "rm", "list"])
    for k in ("id", "property", "facet", "witness", "predicate", "what", "commit"):
        ap.add_argument("--" + k)
    a = ap.parse_args()
    with open(PATH + ".lock", "w") as lk:
        fcntl.flock(lk, fcntl.LOCK_EX)
        doc = json.load(open(PATH))
        fs = doc["findings"]
        if a.cmd == "list":
            for f in fs:
                print(f["status"], f["id"], f["property"], f["facet"], "::", f["what"])
            return
        if not a.id:
            sys.exit("--id required")
        cur = [f for f in fs if f["id"] == a.id]
        if a.cmd == "add":
            for k in ("property", "facet", "witness", "predicate", "what"):
                if not getattr(a, k):
                    sys.exit("--%s required" % k)
            if not os.path.exists(os.path.join(ROOT, a.witness)):
                sys.exit("witness file %s does not exist (path is relative to /verif)" % a.witness)
            e = {"id": a.id, "property": a.property, "status": "open", "facet": a.facet, "witness": a.witness,
                 "what": a.what, "predicate": a.predicate}
            fs[:] = [f for f in fs if f["id"] != a.id] + [e]
        elif a.cmd == "fix":
            if not cur or not a.commit:
                sys.exit("unknown id or missing --commit")
            cur[0]["status"] = "fixed"
            cur[0]["commit"] = a.commit
            cur[0]["record"] = "fixed: property=%s %s %s" % (cur[0]["property"], a.commit, cur[0]["what"])
        elif a.cmd == "reopen":
            # a repair that was withdrawn (the commit no longer exists in /repo)
            if not cur:
                sys.exit("unknown id")
            cur[0]["status"] = "open"
            cur[0].pop("commit", None)
            cur[0].pop("record", None)
        elif a.cmd == "rm":
            fs[:] = [f for f in fs if f["id"] != a.id]
        fs.sort(key=lambda f: f["id"])
        tmp = PATH + ".tmp"
        json.dump(doc, open(tmp, "w"), indent=1, ensure_ascii=False)
        os.replace(tmp, PATH)

if __name__ == "__main__":
    main()
