#!/usr/bin/env python3
"""Coordinator tool: re-validate every recorded seeded change against the
current /repo head and the current checks (regression run of seedtest.py).

  tools/reseed_all.py [-j N] [PATTERN]

Prints one line per (seeded change): valid / caught per property. A change
whose demonstration no longer fails at the current head (a later fix: commit
covers it) is reported as 'stale' and its meta.json is left as it is.
"""
import concurrent.futures as cf, glob, json, os, re, subprocess, sys
ROOT = os.path.dirname(os.path.dirname(os.path.abspath(__file__)))
j = 3
args = sys.argv[1:]
if args and args[0] == "-j":
    j = int(args[1]); args = args[2:]
pat = args[0] if args else ""
def one(d):
    name = os.path.basename(d)
    m = re.match(r"(C\d\d)-(?:r(\d+)-)?(\d+)$", name)
    prop, rnd, k = m.group(1), m.group(2) or "1", m.group(3)
    meta = json.load(open(os.path.join(d, "meta.json")))
    props = ",".join(sorted(meta.get("coordinator", {}).get("checks", {prop: 0}).keys()))
    cmd = [sys.executable, os.path.join(ROOT, "tools", "seedtest.py"), prop, k, "--round", rnd, "--props", props]
    if meta.get("race"):
        cmd.append("--race")
    r = subprocess.run(cmd, capture_output=True, text=True)
    try:
        res = json.loads(r.stdout[r.stdout.index("{"):])
    except Exception:
        return name, "ERROR " + (r.stdout + r.stderr)[-300:]
    ch = {p: ("caught" if c["caught"] else "MISSED(exit %s)" % c["exit"]) for p, c in res.get("checks", {}).items()}
    st = "valid" if res.get("valid") else "stale(%s)" % ",".join(k for k in ("demo_passes_unmodified", "patch_applies", "builds", "demo_fails_with_patch", "shipped_suite_passes_with_patch") if not res.get(k))
    return name, "%s %s%s" % (st, ch, " 3way" if res.get("patch_applied_3way") else "")
dirs = [d for d in sorted(glob.glob(os.path.join(ROOT, "seeded", "*"))) if pat in d]
with cf.ThreadPoolExecutor(j) as ex:
    for name, line in ex.map(one, dirs):
        print(name, line, flush=True)
