claim("C17",
      "mutation-based property testing of the decoders in disposable worker processes (rapid) plus native coverage-guided fuzzing (go test -fuzz), with a crash / panic / conformance / allocation oracle",
      "Inputs: the library's own JSON and MessagePack encodings of generated values (all kinds, nulls, dynamic wrappers, refined unknowns for MessagePack) and JSON type descriptors (incl. optional lists), "
      "subjected to 1..4 mutations (bit/byte flip, insert, delete, truncate, length-field edits of array/map/str/bin/ext headers to 2^16..2^32-1, JSON token edits: delimiter swap, key duplication, "
      "type-descriptor and optional-list edits, dynamic-wrapper edits, synthesized refinement maps, splices from other encodings), against the original, an edited or an unrelated target type "
      "(never with optional attributes); hand-written documents that never pass through the library's encoders: MessagePack unknown-value extensions whose refinement map is well-typed for the requested type but has hostile magnitudes, "
      "coinciding bounds and repeated keys (refine/), and dynamic-value wrappers in both formats whose type description is dense in optional-attribute lists at any depth with null / unknown / empty / minimal value parts (wrapper/); "
      "strings re-spelled in canonically equivalent non-NFC forms; random bytes / token soup; and hostile shapes pre+open^n+leaf+close^n up to the 64 KiB input bound (deep nesting, wide collections, huge headers, long scalars). "
      "Decoders: ctyjson.Unmarshal, ctyjson.UnmarshalType and cty.Type.UnmarshalJSON, ctyjson.ImpliedType, msgpack.Unmarshal, msgpack.ImpliedType. Every call of the facets runs in a re-exec'd worker "
      "process with RLIMIT_AS = 16 GiB, strictly request/response, so a fatal error (out of memory, stack overflow) is attributed to the input in flight. Oracle: error, or a value passing wf.Check whose "
      "type conforms to the requested type by the harness's structural model and by Type.TestConformance (type decoders: a type on which the public accessors and constructors do not panic); never a "
      "recovered panic, never a worker death; runtime.MemStats.TotalAlloc delta of the call <= 16 MiB + 16 KiB per input byte (8x the maximum measured on 200k valid encodings per decoder, frozen). "
      "Thorough tier adds five native fuzz targets (bytes + byte-selected target type from a 52-entry table, in-process, same oracle) seeded from /verif/corpus. "
      "Exploration level: held on the generated and fuzzed inputs only, with the open known findings excluded by narrow predicates; no absence claim.",
      "Trusted: the Go runtime's TotalAlloc accounting and fatal-error reporting, the process isolation of the worker protocol, spec.Conforms / wf.Check, the library's encoders (used only to obtain valid starting encodings). "
      "The memory clause is checked against one stated constant pair on inputs <= 64 KiB: it detects header-driven and super-linear allocation, it does not prove a bound. Running time is not asserted.")
