claim("C07",
      "property-based differential testing against a structural type model (rapid), plus bounded-exhaustive depth-1 pairs",
      "Generated type specs (depth <= 3, all kinds, dynamic placeholders, optional attributes, capsules) as pairs/triples that are clones, one-position mutants or independent; Type.Equals / TestConformance / HasDynamicTypes / JSON round trip / WithoutOptionalAttributesDeep are compared with the harness's own structural model. All ordered pairs of depth<=1 types are enumerated exhaustively. Exploration level: no absence claim beyond the generated space.",
      "Trusted: the structural model in harness/spec (Equal, Conforms, HasDynamic, StripOptional), cty constructors for types, encoding/json.")
