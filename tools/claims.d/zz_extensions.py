# Extensions of the claim texts (appended to the level text of each property):
# what was added after the fourth to sixth rounds of independent seeded changes.
def extend(pid, more):
    tech, text, note = CLAIMED[pid]
    CLAIMED[pid] = (tech, text + " " + more, note)

_LONG = "Generated collections, tuple/object types, strings and argument lists also come in LONG variants (5..40 members, 5..17 elements, 63..1025-byte strings sharing a prefix, 9..17 variadic arguments) so that size-gated code is reached."

extend("C01", "Added: operand pairs whose numbers are respelled through the other construction route (text-equal, numerically different); DynamicVal at one position of every struct member of a collection; upper length bounds far above the true length and tight bounds for sets whose distinct-member count is certain; before half of the calls, tighter refinements are derived from the unknown operands and discarded (the operands must be unaffected). " + _LONG)
extend("C02", "Added: arith/chain - two operations (add, sub, mul) in a row on three numbers, the final result checked against a forward error bound computed in exact rationals from the operands' precisions (every step delivers the precision of its more precise operand; exact when every intermediate value fits); one whole number held at two precisions must compare equal under <= and >=. " + _LONG)
extend("C03", _LONG)
extend("C04", "Added: convert/reuse (one looked-up conversion applied to marked and unmarked values in turn must behave like a fresh conversion of each), member-wise no-invention and no-loss of nested marks for conversions that keep every member, stdlib arguments weakened with the type-unknown DynamicVal allowed. " + _LONG)
extend("C05", "Added: long final strings and prefixes (beyond 64, 256 and 1024 bytes); Value.RefineWith that skips its callbacks is compared with the documented equivalent builder chain.")
extend("C06", "Added: out/gocty-typed (a Go value built by construction for a drawn target type through every representation gocty documents: integer widths, floats, big.Int/big.Float, named types, typed and interface{} slices/arrays/maps, set.Set, reflect.StructOf structs, pointer layers with nil at any layer, cty.Value passed through); out/stdlib-chain (every live value, the original pool included, re-validated while other values are derived from it through chains of standard-library calls and placeholders sharing its type object); marking APIs fed empty mark sets of every origin; a set and its permuted twin in one set (duplicates also judged by the checker's own structural equality). " + _LONG)
extend("C07", "Added: long tuple/object types (conformance, equality, JSON); the bytes returned by type serialisation are overwritten by their owner before the next serialisation.")
extend("C08", "Added: long tuple/object types and long collections, numbers with exponents of 20000.")
extend("C09", "Added: long tuple/object types and long collections, numbers with exponents of 20000 fed to the returned conversions.")
extend("C10", "Added: non-conforming arguments whose type is the parameter type with a placeholder below the top; variadic tails of 9..17 arguments.")
extend("C11", "Added: the float64-edge numbers (finite and positive but rounding to 0 or to an infinity, different from 1 but rounding to 1) among the argument-level extremes; long variadic argument lists; setproduct with 7..17 singleton arguments; the empty set of placeholder element type among set-function arguments.")
extend("C12", "Added: a weakening mode that turns every collection argument into an unknown collection with one shared upper length bound far above the true lengths (sums and products of such bounds overflow); set pairs naming a member twice for equal / notequal; the empty set of placeholder element type, which weakens to the unknown set(dynamic); long variadic argument lists.")
extend("C13", "Added: after every call each argument value is used again (keys / values / length must still return what the reference says about the argument as specified); short ranges far from zero and across spans float64 cannot hold, the range reference being exact whenever every partial sum fits the operands' mantissa; chunklist of an empty list with size 0.")
extend("C14", "Added: pow whose float64 reference overflows, underflows or has an infinite operand is asserted against the float64 reference.")
extend("C15", "Added: insignificant whitespace around the whole document, scalars included.")
extend("C17", "Added: mutation respell-over (both canonically equivalent spellings of one name present) and number-like text (NaN, Inf, 0x10, ...) in string tokens / items at number positions.")
extend("C19", "Added: PathSet histories over families of 6..10 sibling paths that share one hash bucket. " + _LONG)
extend("C20", "Added: history/stdlib (chains of standard-library calls that assemble result types from their arguments' type internals, and placeholders sharing a live value's type object, fingerprints of all live values checked after every step); purity/repeat over sets whose members tie in the iteration order without being equal (one real number at two precisions).")

# after the sixth/seventh round
extend("C02", "Sets whose members hold an empty collection of placeholder element type.")
extend("C05", "Set candidates holding unknown members (final length anywhere in 1..n).")
extend("C06", "ValueSet builders and their copies go on being used (removals in the middle of buckets) after they were wrapped as set values.")
extend("C07", "Attribute names ending in backslashes; 'no optional attributes' said with an empty non-nil list.")
extend("C09", "Half of the tuple inputs are library-made types (the type of slice(unknown longer tuple, 0, n)) sharing storage with a longer live type that is re-read after unification.")
extend("C10", "Every parameter description returned by Params() / VarParam() is overwritten with the most permissive one before the call.")
extend("C14", "parseint of integers far beyond 512 bits.")
extend("C15", "Every decoded document is round-tripped again under the dynamic placeholder (library-made types).")
extend("C16", "roundtrip/large: unknown lists / sets / maps refined to exactly n members, not-null or nullable.")
for _p in ("C01", "C04", "C06", "C11", "C12"):
    extend(_p, "Strings may hold the ASCII signs that compose with a following U+0338 (= < >); safe prefixes are also cut from the string as written, before normalisation.")

# after the seventh/eighth (coverage-guided) round
extend("C06", "Number sets holding one value at two precisions.")
extend("C09", "Capsule types, one with conversion operations of its own, among the inputs of the safe-mode facets.")
extend("C15", "Objects that look like the dynamic-value wrapper through SimpleJSONValue; strings containing U+FFFD.")
extend("C17", "Several independently described members (bare nulls and untyped unknowns first) in placeholder collections; a sibling-key-respell construction; refinement bound entries of hostile shape.")
extend("C18", "nopanic/named-big: targets whose Go type is defined over big.Int / big.Float.")
extend("C19", "Membership probes through one path buffer rewritten between probes.")
extend("C20", "PathSet.List repeated on the unchanged set.")
