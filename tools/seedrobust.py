#!/usr/bin/env python3
"""Coordinator tool: how robustly is each recorded seeded change caught?

  tools/seedrobust.py [-j N] [--seeds 2,3] [PATTERN]

For every /verif/seeded/<id>/ the patch is applied to a scratch worktree of
/repo HEAD (3-way fallback) and the quick tier of the property's check is run
at each of the given VERIF_SEED values (the recorded validation used seed 1).
Prints one line per change: which seeds caught it. Changes whose patch no
longer applies or builds are reported as such. Nothing is written to seeded/.
"""
import concurrent.futures as cf, glob, json, os, re, subprocess, sys
ROOT = os.path.dirname(os.path.dirname(os.path.abspath(__file__)))
ENV = dict(os.environ, GOFLAGS="-mod=mod", GOPROXY="off", GOSUMDB="off", GOTOOLCHAIN="local")
args = sys.argv[1:]
j, seeds = 3, [2, 3]
while args and args[0].startswith("-"):
    if args[0] == "-j":
        j = int(args[1]); args = args[2:]
    elif args[0] == "--seeds":
        seeds = [int(x) for x in args[1].split(",")]; args = args[2:]
pat = args[0] if args else ""
def sh(cmd, cwd=None, env=ENV):
    return subprocess.run(cmd, cwd=cwd, env=env, capture_output=True, text=True)
def one(d):
    name = os.path.basename(d)
    meta = json.load(open(os.path.join(d, "meta.json")))
    props = [p for p, c in meta.get("coordinator", {}).get("checks", {}).items() if c.get("caught")] or [meta["property"]]
    wt = "/tmp/wt/robust-%s" % name
    sh(["git", "-C", "/repo", "worktree", "add", "--detach", wt, "HEAD"])
    try:
        a = sh(["git", "apply", os.path.join(d, "patch.diff")], cwd=wt)
        if a.returncode != 0:
            a = sh(["git", "apply", "-3", os.path.join(d, "patch.diff")], cwd=wt)
            sh(["git", "reset", "-q"], cwd=wt)
        if a.returncode != 0 or sh(["go", "build", "./..."], cwd=wt).returncode != 0:
            return name, "patch does not apply/build at this head"
        res = {}
        for p in props[:1]:
            for s in seeds:
                r = sh([os.path.join(ROOT, "check"), p, "--tier", "quick", "--seed", str(s)], cwd=ROOT, env=dict(ENV, VERIF_REPO=wt))
                res["%s@%d" % (p, s)] = {0: "MISSED", 1: "caught", 2: "infra"}.get(r.returncode, str(r.returncode))
        return name, " ".join("%s=%s" % kv for kv in sorted(res.items()))
    finally:
        sh(["git", "-C", "/repo", "worktree", "remove", "--force", wt])
dirs = [d for d in sorted(glob.glob(os.path.join(ROOT, "seeded", "*"))) if pat in d]
with cf.ThreadPoolExecutor(j) as ex:
    for name, line in ex.map(one, dirs):
        print(name, line, flush=True)
