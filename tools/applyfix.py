#!/usr/bin/env python3
"""Coordinator tool: apply /verif/proposed_fixes/<ID>.diff to /repo as one
'fix:' commit (after the shipped suite passes), and flip the known-finding
entries it repairs to 'fixed'.

  tools/applyfix.py <diff-id> -m "<commit message starting with fix:>" [--ids ID1,ID2]
"""
import argparse, os, subprocess, sys
ROOT = os.path.dirname(os.path.dirname(os.path.abspath(__file__)))
ap = argparse.ArgumentParser()
ap.add_argument("diff_id"); ap.add_argument("-m", required=True); ap.add_argument("--ids", default=None)
a = ap.parse_args()
if not a.m.startswith("fix:"):
    sys.exit("message must start with fix:")
diff = os.path.join(ROOT, "proposed_fixes", a.diff_id + ".diff")
env = dict(os.environ, GOFLAGS="-mod=mod", GOPROXY="off", GOSUMDB="off", GOTOOLCHAIN="local")
def run(cmd, **kw):
    return subprocess.run(cmd, cwd="/repo", capture_output=True, text=True, env=env, **kw)
if run(["git", "status", "--porcelain"]).stdout.strip():
    sys.exit("/repo is not clean")
r = run(["git", "apply", "--recount", diff])
if r.returncode != 0:
    sys.exit("git apply failed: " + r.stderr)
t = run(["go", "test", "-vet=off", "-count=1", "./..."])
run(["git", "checkout", "go.sum"])
if t.returncode != 0:
    run(["git", "checkout", "--", "."])
    sys.exit("shipped suite fails with this fix:\n" + t.stdout[-3000:])
run(["git", "commit", "-qam", a.m])
h = run(["git", "rev-parse", "HEAD"]).stdout.strip()
print("committed", h[:7], run(["git", "show", "--stat", "--format=%s", "HEAD"]).stdout.strip().replace("\n", " | "))
for kid in (a.ids.split(",") if a.ids else [a.diff_id]):
    k = subprocess.run([sys.executable, os.path.join(ROOT, "tools", "kf.py"), "fix", "--id", kid, "--commit", h], capture_output=True, text=True)
    print(" entry", kid, "->", "fixed" if k.returncode == 0 else "NOT FOUND: " + k.stderr.strip())
