#!/usr/bin/env python3
"""Sensitivity campaign (DESIGN.md section 4): applies hand-made breaking
changes to a scratch worktree of /repo, one at a time, checks that each still
compiles, whether the shipped suite kills it, and whether the quick tier of the
named property's check catches it. Results are merged into
/verif/sensitivity.json (hand-run tool; not a registered check).

  tools/mutate.py [--only REGEX] [--props C01,C04]
Mutant definitions: tools/mutants/*.py, each defining MUTANTS = [dict(id=, props=[...], file=, old=, new=, note=)]
"""
import argparse, glob, json, os, re, subprocess, sys, time
ROOT = os.path.dirname(os.path.dirname(os.path.abspath(__file__)))
WT = "/tmp/wt/mutate-%d" % os.getpid()
ENV = dict(os.environ, GOFLAGS="-mod=mod", GOPROXY="off", GOSUMDB="off", GOTOOLCHAIN="local")

def sh(cmd, cwd=None, env=ENV, timeout=3600):
    return subprocess.run(cmd, cwd=cwd, env=env, capture_output=True, text=True, timeout=timeout)

def main():
    ap = argparse.ArgumentParser()
    ap.add_argument("--only"); ap.add_argument("--props")
    a = ap.parse_args()
    muts = []
    for f in sorted(glob.glob(os.path.join(ROOT, "tools", "mutants", "*.py"))):
        ns = {}
        exec(open(f).read(), ns)
        muts += ns["MUTANTS"]
    if a.only:
        muts = [m for m in muts if re.search(a.only, m["id"])]
    if a.props:
        want = set(a.props.split(","))
        muts = [m for m in muts if want & set(m["props"])]
    out_path = os.path.join(ROOT, "sensitivity.json")
    results = json.load(open(out_path)) if os.path.exists(out_path) else {}
    sh(["git", "-C", "/repo", "worktree", "add", "--detach", WT, "HEAD"])
    try:
        for m in muts:
            sh(["git", "checkout", "--", "."], cwd=WT)
            p = os.path.join(WT, m["file"])
            src = open(p).read()
            if src.count(m["old"]) != 1:
                print("SKIP %s: pattern occurs %d times" % (m["id"], src.count(m["old"])))
                results[m["id"]] = {"error": "pattern occurs %d times" % src.count(m["old"])}
                continue
            open(p, "w").write(src.replace(m["old"], m["new"]))
            b = sh(["go", "build", "./..."], cwd=WT)
            if b.returncode != 0:
                print("SKIP %s: does not compile: %s" % (m["id"], b.stderr[-300:]))
                results[m["id"]] = {"error": "does not compile"}
                continue
            t = sh(["go", "test", "-vet=off", "-count=1", "./..."], cwd=WT)
            sh(["git", "checkout", "go.sum"], cwd=WT)
            rec = {"file": m["file"], "note": m.get("note", ""), "killed_by_shipped_suite": t.returncode != 0, "checks": {},
                   "repo_head": sh(["git", "-C", "/repo", "rev-parse", "--short", "HEAD"]).stdout.strip()}
            for pid in m["props"]:
                t0 = time.time()
                r = sh([os.path.join(ROOT, "check"), pid, "--tier", "quick"], cwd=ROOT, env=dict(ENV, VERIF_REPO=WT))
                facets = sorted(set(re.findall(r"^  facet ([^:]+): ", r.stdout, re.M)))
                rec["checks"][pid] = {"exit": r.returncode, "caught": r.returncode == 1, "facets": facets, "wall_s": round(time.time() - t0, 1)}
                print("%-40s %s suite_kills=%-5s exit=%d facets=%s" % (m["id"], pid, rec["killed_by_shipped_suite"], r.returncode, ",".join(facets)[:120]))
                if r.returncode == 2:
                    print(r.stdout[-800:])
            results[m["id"]] = rec
            json.dump(results, open(out_path, "w"), indent=1, sort_keys=True)
    finally:
        sh(["git", "-C", "/repo", "worktree", "remove", "--force", WT])

if __name__ == "__main__":
    main()
