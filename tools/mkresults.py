#!/usr/bin/env python3
"""Regenerates the generated sections of DESIGN.md (section 10: findings on the
unchanged tree; section 11: seeded changes and hand-made mutants) from
known_findings.json, seeded/*/meta.json and sensitivity.json."""
import glob, json, os, re, subprocess
ROOT = os.path.dirname(os.path.dirname(os.path.abspath(__file__)))
kf = json.load(open(os.path.join(ROOT, "known_findings.json")))["findings"]

def short(h):
    return h[:7] if h else ""

out = []
out.append("## 10. What the checks found on the unchanged tree\n")
fixed = [f for f in kf if f["status"] == "fixed"]
opened = [f for f in kf if f["status"] == "open"]
commits = sorted(set(f.get("commit", "") for f in fixed))
out.append("Every failure of a check on the unchanged tree was replayed outside rapid and triaged as §6 describes. "
           "%d recorded findings were repaired by %d separate `fix:` commits in `/repo` (each a minimal patch; the shipped suite passes unedited after every one); "
           "%d remain open because the repair would change documented or test-pinned behaviour, is not small, or lies in a dependency. "
           "Fixed entries suppress nothing: their witnesses (under `replay/known/`) are re-run by every check as regression replays, and the driver reports `FIXED-REGRESSED` as a violation. "
           "Open entries are matched by narrow predicates (in `props/cNN/known.go`); a matching failure is counted under `excluded_known` and the search goes on.\n" % (len(fixed), len(commits), len(opened)))
out.append("### 10.1 Repaired defects (`fixed: property=<id> <commit> <what failed>`)\n")
out.append("| finding | property / facet | fix commit | what failed |\n|---|---|---|---|")
for f in sorted(fixed, key=lambda f: f["id"]):
    out.append("| `%s` | %s `%s` | `%s` | %s |" % (f["id"], f["property"], f["facet"], short(f.get("commit", "")), f["what"].replace("|", "\\|")))
out.append("\n### 10.2 Open findings (reported as `KNOWN-FINDING:` lines, exit 0)\n")
out.append("| finding | property / facet | predicate | what fails |\n|---|---|---|---|")
for f in sorted(opened, key=lambda f: f["id"]):
    out.append("| `%s` | %s `%s` | `%s` | %s |" % (f["id"], f["property"], f["facet"], f["predicate"], f["what"].replace("|", "\\|")))
why = os.path.join(ROOT, "tools", "open_findings_why.json")
if os.path.exists(why):
    w = json.load(open(why))
    out.append("\nWhy each open finding is recorded rather than repaired:\n")
    for f in sorted(opened, key=lambda f: f["id"]):
        out.append("* `%s`: %s" % (f["id"], w.get(f["id"], "(no small, safe repair identified)")))
findings_text = "\n".join(out) + "\n"

out = ["## 11. Which checks catch which changes\n"]
out.append("### 11.1 Seeded changes written by independent sub-agents\n")
out.append("Each change was produced by a fresh sub-agent that saw only the property text and its own scratch worktree (nothing from `/verif`). "
           "It was kept only after the coordinator confirmed, in a scratch worktree, that the demonstration passes on the unmodified tree, the patch applies and builds, "
           "the shipped suite still passes with it, and the demonstration fails with it (`tools/seedtest.py`; artefacts in `seeded/<id>/`). "
           "'caught' = the quick tier of the property's check exits 1 with a VIOLATION line when run against the patched tree.\n")
out.append("| seeded change | what it does | needs | quick tier | facets that fired |\n|---|---|---|---|---|")
n_c = n_t = 0
for mf in sorted(glob.glob(os.path.join(ROOT, "seeded", "*", "meta.json"))):
    m = json.load(open(mf))
    sid = os.path.basename(os.path.dirname(mf))
    co = m.get("coordinator", {})
    for pid, c in sorted(co.get("checks", {}).items()):
        n_t += 1
        n_c += 1 if c.get("caught") else 0
        note = m.get("coordinator_note", "")
        out.append("| `%s` (%s) | %s | %s | %s | %s |" % (sid, pid, m.get("summary", "").replace("|", "\\|")[:260], m.get("needs", "").replace("|", "\\|")[:220],
                   ("caught" if c.get("caught") else "**missed**") + (" (%s tier)" % c["tier"] if c.get("tier") != "quick" else "") + ((" - " + note) if note else ""),
                   ", ".join("`%s`" % x for x in c.get("facets", [])[:5])))
out.append("\n%d of %d (seeded change, check) pairs caught.\n" % (n_c, n_t))
sp = os.path.join(ROOT, "sensitivity.json")
if os.path.exists(sp):
    s = json.load(open(sp))
    out.append("### 11.2 Hand-made mutants (`tools/mutate.py`, definitions in `tools/mutants/`)\n")
    out.append("| mutant | change | shipped suite kills it | check | caught | facets |\n|---|---|---|---|---|---|")
    for k in sorted(s):
        v = s[k]
        if "error" in v:
            continue
        for pid, c in sorted(v["checks"].items()):
            out.append("| `%s` | %s | %s | %s | %s | %s |" % (k, v.get("note", ""), "yes" if v["killed_by_shipped_suite"] else "no", pid,
                       "yes" if c["caught"] else "**no**", ", ".join("`%s`" % x for x in c["facets"][:4])))
    out.append("\nEvery hand-made mutant is defined in `tools/mutants/*.py` and measured by `tools/mutate.py` (results in `sensitivity.json`); the independent seeded changes of 11.1 are the larger sample.\n")
seeded_text = "\n".join(out) + "\n"

p = os.path.join(ROOT, "DESIGN.md")
d = open(p).read()
def put(d, tag, text):
    b, e = "<!-- BEGIN GENERATED:%s -->" % tag, "<!-- END GENERATED:%s -->" % tag
    block = b + "\n" + text + e
    if b in d:
        return re.sub(re.escape(b) + r".*?" + re.escape(e), lambda m: block, d, flags=re.S)
    marker = "--------------------------------------------------------------------------\n\n## Appendix A"
    return d.replace(marker, block + "\n\n" + marker, 1)
d = put(d, "findings", findings_text)
d = put(d, "seeded", seeded_text)
open(p, "w").write(d)
print("DESIGN.md: %d fixed, %d open, %d seeded pairs (%d caught)" % (len(fixed), len(opened), n_t, n_c))
