#!/usr/bin/env python3
"""Coordinator tool: prepare a scratch worktree for an independent adversary
sub-agent and print the prompt it is given (property text only, nothing from
/verif).

  tools/advprompt.py <PROP> <round> [--avoid "<one line per earlier change>"]

Creates /tmp/wt/adv<round>-<PROP> (git worktree of /repo HEAD) and
/tmp/seeds<round>/<PROP>/ (round 1: /tmp/seeds/<PROP>/).
"""
import json, os, subprocess, sys
ROOT = os.path.dirname(os.path.dirname(os.path.abspath(__file__)))
prop, rnd = sys.argv[1], int(sys.argv[2])
avoid = ""
if "--avoid" in sys.argv:
    avoid = sys.argv[sys.argv.index("--avoid") + 1]
p = None
for l in open(os.path.join(ROOT, "properties.jsonl")):
    q = json.loads(l)
    if q["id"] == prop:
        p = q
wt = "/tmp/wt/adv%d-%s" % (rnd, prop)
out = "/tmp/seeds%s/%s" % ("" if rnd == 1 else str(rnd), prop)
os.makedirs("/tmp/wt", exist_ok=True)
os.makedirs(out, exist_ok=True)
if not os.path.isdir(wt):
    subprocess.run(["git", "-C", "/repo", "worktree", "add", "--detach", wt, "HEAD"], check=True, capture_output=True)
files = ", ".join(p.get("anchors", {}).get("files", []))
print(f"""You are testing how good a (hidden) verification suite for the Go library zclconf/go-cty is. Your job: write 3 different, realistic, subtle source changes ("seeded defects") to the library, each of which BREAKS the semantic property quoted below while the library STILL COMPILES and its EXISTING test suite STILL PASSES. You will never see the verification suite; work only from the property text and the library source.

Property {p['id']} - {p['title']}:
\"\"\"{p['statement']}\"\"\"
(Code the property is anchored in: {files})

Your private scratch git worktree of the library is: {wt}
Work ONLY inside that directory and inside your output directory {out}. Never touch /repo or /verif (do not read /verif either). Do not commit anything.

Environment: there is no network. Before every go command: export GOFLAGS=-mod=mod GOPROXY=off GOSUMDB=off GOTOOLCHAIN=local
The existing suite is run with: (cd {wt} && go test -vet=off -count=1 ./...)   (takes a minute or two; if go.sum gets modified, `git checkout go.sum`).

What makes a good seeded change:
* It is a plausible maintainer edit (a refactor, an "optimisation", a tidy-up, an off-by-one, a dropped defensive copy, a wrong variable, a guard narrowed or widened, two cooperating edits that each look fine alone), NOT sabotage that an ordinary use of the library would expose at once.
* It needs something SPECIFIC to manifest: an unusual input class, a boundary coincidence, a multi-step sequence of API calls, a particular nesting, a particular combination of flags/types, a particular interleaving. State precisely what it needs.
* It really violates the property as written (not merely some other expectation), on inputs inside the documented domain of the API.
* It touches only non-test library source files (no _test.go, no testdata, no go.mod/go.sum).
* The 3 changes must differ from one another in the code site AND in the kind of input needed.{(' Earlier rounds already used the following ideas; do NOT repeat them or close variants: ' + avoid) if avoid else ''}

For each change k = 1, 2, 3 (start each from a clean tree: `git -C {wt} checkout -- . && git -C {wt} clean -fdq`):
1. Make the edit in {wt}.
2. Write a demonstration: a Go test file {wt}/seeddemo/demo_test.go (package seeddemo_test or seeddemo, importing github.com/zclconf/go-cty/... public packages only) with one or more Test functions that PASS on the unmodified library and FAIL with your change. It must be deterministic (for concurrency defects it may be run with -race; say so in meta.json with "race": true).
3. Verify all of: `go build ./...` succeeds; the existing suite passes WITH your change (the seeddemo directory moved away or excluded while you run it: run `go test -vet=off -count=1 $(go list ./... | grep -v seeddemo)`); the demo FAILS with the change; after reverting the library edit (keeping the demo) the demo PASSES. NEVER use `git stash` (the stash is shared between all worktrees of this repository and other agents are working concurrently): to revert use `git diff -- . ":(exclude)seeddemo" > ../tmp.diff && git apply -R ../tmp.diff`, and `git apply ../tmp.diff` to restore.
4. Save into {out}/<k>/ :
   - patch.diff : output of `git -C {wt} diff -- . ':(exclude)seeddemo'` (library edit only, must apply with `git apply` to a clean checkout of the same commit)
   - demo_test.go : a copy of your demonstration file
   - meta.json : {{"property": "{p['id']}", "summary": "<what the edit does and where>", "needs": "<exactly what is needed for the defect to manifest>", "demo_pkg_dir": "seeddemo", "demo_run": "<command>", "race": false, "verified": "<what you ran and saw, with and without the change>"}}

If an idea turns out to be killed by the existing suite or does not really break the property, discard it and try another one; only deliver changes you verified. When finished, leave the worktree clean (`git checkout -- . && git clean -fdq`) and reply with a short list: for each k one line saying the code site and what is needed to trigger it.""")
