#!/usr/bin/env python3
"""Regenerates MANIFEST.json from the table below (kept in one place so that
the manifest is always schema-valid)."""
import json, os, subprocess
ROOT = os.path.dirname(os.path.dirname(os.path.abspath(__file__)))
hook_commit = subprocess.run(["git", "-C", "/repo", "log", "--format=%H", "-1", "--", "cty/verif_hooks.go"], capture_output=True, text=True).stdout.strip()

# id -> (technique, level text, level note, design ref)
CLAIMED = {}
def claim(pid, technique, text, note):
    CLAIMED[pid] = (technique, text, note)

NOT_CLAIMED = {}
def not_claimed(pid, reason):
    NOT_CLAIMED[pid] = reason

import glob
for f in sorted(glob.glob(os.path.join(ROOT, "tools", "claims.d", "*.py"))):
    exec(open(f).read())

props = [json.loads(l) for l in open(os.path.join(ROOT, "properties.jsonl"))]
checks, na = [], []
for p in props:
    pid = p["id"]
    if pid in CLAIMED:
        tech, text, note = CLAIMED[pid]
        checks.append({
            "property_id": pid,
            "quick_cmd": "./check %s --tier quick" % pid,
            "thorough_cmd": "./check %s --tier thorough" % pid,
            "evidence_file": "/verif/evidence/%s.json" % pid,
            "replay_cmd_template": "./check %s --replay {path}" % pid,
            "engine": "harness",
            "level_claimed": {"category": "exploration", "text": text, "design_ref": "DESIGN.md section 5, %s" % pid},
            "level_note": note,
            "technique": tech,
        })
    else:
        na.append({"property_id": pid, "reason": NOT_CLAIMED.get(pid, "check not built yet in this session; see DESIGN.md section 5 for the planned facets")})

m = {
    "version": 1,
    "setup_cmd": "cd harness && GOFLAGS=-mod=mod GOPROXY=off GOSUMDB=off GOTOOLCHAIN=local go build -tags verif ./... && GOFLAGS=-mod=mod GOPROXY=off GOSUMDB=off GOTOOLCHAIN=local go vet -tags verif ./facet ./spec",
    "hooks": {
        "guard": "verif",
        "enable": "go build tag: every check builds the harness with `go test -c -tags verif` against /repo (replace directive)",
        "baseline_off_cmd": "cd /repo && GOFLAGS=-mod=mod GOPROXY=off GOSUMDB=off go test -vet=off -count=1 -timeout 25m ./...",
        "source_commits": [hook_commit],
        "add_only": True,
    },
    "engines": [{
        "name": "harness",
        "path": "/verif/harness",
        "serves_properties": sorted(CLAIMED),
        "kind_free_text": "Go module using pgregory.net/rapid v1.3.0: spec-first generators, facet runner with per-facet counters and JSON replay files, python3 driver ./check",
    }],
    "checks": checks,
    "notes": "Every check is property-based testing against an explicit oracle (see DESIGN.md). Known findings: known_findings.json.",
    "not_applicable": na,
}
json.dump(m, open(os.path.join(ROOT, "MANIFEST.json"), "w"), indent=1)
print("claimed:", sorted(CLAIMED), "not claimed:", [x["property_id"] for x in na])
