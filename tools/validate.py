#!/usr/bin/env python3
"""Validates MANIFEST.json and evidence/*.json against the task's schemas (run with python3-vt, which has jsonschema)."""
import glob, json, os, sys
import jsonschema
ROOT = os.path.dirname(os.path.dirname(os.path.abspath(__file__)))
ms = json.load(open("/root/.vp/MANIFEST.schema.json")); es = json.load(open("/root/.vp/EVIDENCE.schema.json"))
m = json.load(open(os.path.join(ROOT, "MANIFEST.json")))
jsonschema.validate(m, ms)
bad = 0
for c in m["checks"]:
    p = c["evidence_file"]
    if not os.path.exists(p):
        print("MISSING", p); bad += 1; continue
    e = json.load(open(p))
    try:
        jsonschema.validate(e, es)
    except jsonschema.ValidationError as x:
        print("INVALID", p, x.message[:200]); bad += 1; continue
    cov = e["coverage"]
    print("%s ok tier=%s eval=%d distinct_nt=%d viol=%s wall=%.0fs known=%d" % (e["property_id"], e["tier"], cov["evaluations"], cov["distinct_nontrivial"], e.get("violations"), e["wall_s"], len(e.get("known_findings", []))))
props = [json.loads(l)["id"] for l in open(os.path.join(ROOT, "properties.jsonl"))]
claimed = {c["property_id"] for c in m["checks"]}
na = {x["property_id"] for x in m.get("not_applicable", [])}
assert claimed | na == set(props) and not (claimed & na), (claimed, na)
sys.exit(1 if bad else 0)
