package codecgen

import (
	"fmt"
	"math/big"
	"sort"
	"strings"

	"github.com/zclconf/go-cty/cty"

	"verif/harness/model"
	"verif/harness/spec"
)

// Diff is one difference between an original value and the value a codec
// round trip returned for it.
type Diff struct {
	Path string
	Kind string // nullness, knownness, kind, bool, number, string, length, keys, set, range/...
	Msg  string
	// LowPrecWhole: the difference is exactly the one the codecs' decimal-text
	// path produces for a whole number whose big.Float precision is too low for
	// its shortest decimal text to denote it (Text('f',-1) re-parsed at 512 bits
	// is a different integer), and nothing else.
	LowPrecWhole bool
}

func (d Diff) String() string { return fmt.Sprintf("%s at %q: %s", d.Kind, d.Path, d.Msg) }

// CmpOpts selects the relations Compare demands.
type CmpOpts struct {
	// Identical, when non-nil, says which original numbers must come back
	// numerically identical (Cmp == 0). All other numbers must come back equal
	// under cty's documented number equality (NumEqCty).
	Identical func(orig *big.Float) bool
	// Loose ignores the difference between sequence kinds (list/set/tuple) and
	// between mapping kinds (map/object): the type-lossy SimpleJSONValue path.
	Loose bool
}

// NumEqCty is cty's documented number equality (CHANGELOG 1.10.0 and 1.14.3):
// whole numbers compare as integers; otherwise two numbers are equal when
// their JSON (shortest decimal) texts are equal.
func NumEqCty(a, b *big.Float) bool {
	if a.IsInf() || b.IsInf() {
		return a.Cmp(b) == 0
	}
	ai, bi := a.IsInt(), b.IsInt()
	if ai != bi {
		return false
	}
	if ai {
		return a.Cmp(b) == 0
	}
	return model.NumEqDoc(a, b)
}

// CmpCty orders two numbers exactly, except that numbers cty's documented
// equality identifies compare as equal. (model.CmpTol is more generous: it
// also identifies whole numbers whose shortest decimal texts coincide, which
// cty itself compares exactly.)
func CmpCty(a, b *big.Float) int {
	if NumEqCty(a, b) {
		return 0
	}
	return a.Cmp(b)
}

// ViaDecimalText is what the decimal-text path of both codecs turns x into:
// the shortest decimal text identifying x at x's own precision, parsed at the
// 512 bits cty.ParseNumberVal uses.
func ViaDecimalText(x *big.Float) *big.Float {
	if x.IsInf() {
		return x
	}
	f, _, err := big.ParseFloat(x.Text('f', -1), 10, 512, big.ToNearestEven)
	if err != nil {
		return x
	}
	return f
}

// IsLowPrecWhole reports whether x is a whole number that its shortest
// decimal text does not denote.
func IsLowPrecWhole(x *big.Float) bool {
	return !x.IsInf() && x.IsInt() && ViaDecimalText(x).Cmp(x) != 0
}

// HasLowPrecWhole reports whether a value spec contains such a number, as a
// known value or as a bound of a refinement.
func HasLowPrecWhole(v spec.V) bool {
	if v.N != nil && IsLowPrecWhole(v.N.Float()) {
		return true
	}
	if v.Ref != nil {
		if v.Ref.Lo != nil && IsLowPrecWhole(v.Ref.Lo.Float()) {
			return true
		}
		if v.Ref.Hi != nil && IsLowPrecWhole(v.Ref.Hi.Float()) {
			return true
		}
	}
	for _, e := range v.Elems {
		if HasLowPrecWhole(e) {
			return true
		}
	}
	return false
}

func isLowPrecPair(orig, got *big.Float) bool {
	return IsLowPrecWhole(orig) && got.Cmp(ViaDecimalText(orig)) == 0
}

// Compare walks the original and the returned value together and lists the
// differences. Types are not compared here (only the kind structure that the
// data needs); nulls must stay nulls, unknowns must stay unknown with a range
// that is a superset of the original range, known parts must be equal.
func Compare(orig, got cty.Value, o CmpOpts) []Diff {
	orig, _ = orig.UnmarkDeep()
	got, _ = got.UnmarkDeep()
	var out []Diff
	compare(orig, got, "", o, &out)
	return out
}

func seqKind(t cty.Type) bool { return t.IsListType() || t.IsSetType() || t.IsTupleType() }
func mapKind(t cty.Type) bool { return t.IsMapType() || t.IsObjectType() }

func compare(a, g cty.Value, path string, o CmpOpts, out *[]Diff) {
	add := func(kind, f string, args ...any) {
		*out = append(*out, Diff{Path: path, Kind: kind, Msg: fmt.Sprintf(f, args...)})
	}
	if !a.IsKnown() {
		if g.IsKnown() {
			add("knownness", "original is unknown (%#v) but the result is known (%#v)", a, g)
			return
		}
		rangeDiffs(a, g, path, out)
		return
	}
	if !g.IsKnown() {
		add("knownness", "original is known but the result is unknown (%#v)", g)
		return
	}
	if a.IsNull() != g.IsNull() {
		add("nullness", "original null=%t, result null=%t", a.IsNull(), g.IsNull())
		return
	}
	if a.IsNull() {
		return
	}
	at, gt := a.Type(), g.Type()
	switch {
	case at == cty.Bool:
		if gt != cty.Bool || a.True() != g.True() {
			add("bool", "%#v came back as %#v", a, g)
		}
	case at == cty.Number:
		if gt != cty.Number {
			add("kind", "number came back as %#v", g)
			return
		}
		x, y := a.AsBigFloat(), g.AsBigFloat()
		ok := NumEqCty(x, y)
		rel := "equal"
		if o.Identical != nil && o.Identical(x) {
			ok = x.Cmp(y) == 0
			rel = "numerically identical"
		}
		if !ok {
			*out = append(*out, Diff{Path: path, Kind: "number", LowPrecWhole: isLowPrecPair(x, y),
				Msg: fmt.Sprintf("%s (prec %d) came back as %s (prec %d), not %s", exact(x), x.Prec(), exact(y), y.Prec(), rel)})
		}
	case at == cty.String:
		if gt != cty.String || a.AsString() != g.AsString() {
			add("string", "%#v came back as %#v", a, g)
		}
	case at.IsSetType() && (gt.IsSetType() || o.Loose && seqKind(gt)):
		compareSet(a, g, path, o, out)
	case at.IsListType() || at.IsTupleType() || at.IsSetType():
		same := at.IsListType() == gt.IsListType() && at.IsTupleType() == gt.IsTupleType() && at.IsSetType() == gt.IsSetType()
		if !(same || o.Loose && seqKind(gt)) {
			add("kind", "%s came back as %s", at.FriendlyName(), gt.FriendlyName())
			return
		}
		_, av := model.Members(a)
		_, gv := model.Members(g)
		if len(av) != len(gv) {
			add("length", "%d members came back as %d", len(av), len(gv))
			return
		}
		for i := range av {
			compare(av[i], gv[i], fmt.Sprintf("%s[%d]", path, i), o, out)
		}
	case at.IsMapType() || at.IsObjectType():
		same := at.IsMapType() == gt.IsMapType() && at.IsObjectType() == gt.IsObjectType()
		if !(same || o.Loose && mapKind(gt)) {
			add("kind", "%s came back as %s", at.FriendlyName(), gt.FriendlyName())
			return
		}
		ak, av := model.Members(a)
		gk, gv := model.Members(g)
		if len(av) != len(gv) {
			add("length", "%d members came back as %d", len(av), len(gv))
			return
		}
		am := map[string]cty.Value{}
		var names []string
		for i := range ak {
			am[ak[i].AsString()] = av[i]
			names = append(names, ak[i].AsString())
		}
		gm := map[string]cty.Value{}
		for i := range gk {
			gm[gk[i].AsString()] = gv[i]
		}
		sort.Strings(names)
		for _, n := range names {
			ge, ok := gm[n]
			if !ok {
				add("keys", "key %q is missing from the result", n)
				continue
			}
			compare(am[n], ge, fmt.Sprintf("%s[%q]", path, n), o, out)
		}
	default:
		add("kind", "unsupported original type %#v", at)
	}
}

func exact(x *big.Float) string {
	if x.IsInf() {
		return x.String()
	}
	s := x.Text('f', -1)
	if x.IsInt() {
		s = x.Text('f', 0)
	}
	if len(s) > 80 {
		s = x.Text('g', 40)
	}
	return s
}

// compareSet matches the members of two sets (at most 6 members) so that the
// number of unexplained differences is minimal.
func compareSet(a, g cty.Value, path string, o CmpOpts, out *[]Diff) {
	_, av := model.Members(a)
	_, gv := model.Members(g)
	if len(av) != len(gv) {
		*out = append(*out, Diff{Path: path, Kind: "length", Msg: fmt.Sprintf("set of %d members came back with %d", len(av), len(gv))})
		return
	}
	n := len(av)
	if n > 6 {
		return
	}
	cost := make([][][]Diff, n)
	for i := range av {
		cost[i] = make([][]Diff, n)
		for j := range gv {
			var ds []Diff
			compare(av[i], gv[j], fmt.Sprintf("%s{%d}", path, i), o, &ds)
			cost[i][j] = ds
		}
	}
	score := func(ds []Diff) int {
		s := 0
		for _, d := range ds {
			if d.LowPrecWhole {
				s++
			} else {
				s += 1000
			}
		}
		return s
	}
	best := -1
	var bestDiffs []Diff
	used := make([]bool, n)
	var cur []Diff
	var rec func(i, s int)
	rec = func(i, s int) {
		if best >= 0 && s >= best {
			return
		}
		if i == n {
			best = s
			bestDiffs = append([]Diff(nil), cur...)
			return
		}
		for j := 0; j < n; j++ {
			if used[j] {
				continue
			}
			used[j] = true
			l := len(cur)
			cur = append(cur, cost[i][j]...)
			rec(i+1, s+score(cost[i][j]))
			cur = cur[:l]
			used[j] = false
		}
	}
	rec(0, 0)
	*out = append(*out, bestDiffs...)
}

// rangeDiffs compares the ranges of two unknown values structurally: the
// result must not be narrower than the original in any respect and must not
// state anything the original did not state.
func rangeDiffs(a, g cty.Value, path string, out *[]Diff) {
	add := func(kind, f string, args ...any) {
		*out = append(*out, Diff{Path: path, Kind: "range/" + kind, Msg: fmt.Sprintf(f, args...)})
	}
	at, gt := a.Type(), g.Type()
	if at == cty.DynamicPseudoType {
		if gt != cty.DynamicPseudoType {
			add("type", "an unknown value of unknown type came back typed %s", gt.FriendlyName())
		}
		return
	}
	if gt == cty.DynamicPseudoType {
		return // wider in every respect (the type checks report the type)
	}
	ar, gr := a.Range(), g.Range()
	if gr.DefinitelyNotNull() && !ar.DefinitelyNotNull() {
		add("notnull-invented", "result is refined not-null, the original was not")
	}
	switch {
	case at == cty.Number:
		if gt != cty.Number {
			add("type", "unknown number came back as unknown %s", gt.FriendlyName())
			return
		}
		alo, aloInc := ar.NumberLowerBound()
		ahi, ahiInc := ar.NumberUpperBound()
		glo, gloInc := gr.NumberLowerBound()
		ghi, ghiInc := gr.NumberUpperBound()
		boundDiff(alo, aloInc, glo, gloInc, -1, path, out)
		boundDiff(ahi, ahiInc, ghi, ghiInc, +1, path, out)
	case at == cty.String:
		if gt != cty.String {
			add("type", "unknown string came back as unknown %s", gt.FriendlyName())
			return
		}
		ap, gp := ar.StringPrefix(), gr.StringPrefix()
		if !strings.HasPrefix(ap, gp) {
			add("prefix", "result prefix %q is not a prefix of the original prefix %q", gp, ap)
		}
	case at.IsCollectionType():
		if !gt.IsCollectionType() {
			add("type", "unknown collection came back as unknown %s", gt.FriendlyName())
			return
		}
		if gr.LengthLowerBound() > ar.LengthLowerBound() {
			add("minlen", "result length lower bound %d is tighter than the original %d", gr.LengthLowerBound(), ar.LengthLowerBound())
		}
		if gr.LengthUpperBound() < ar.LengthUpperBound() {
			add("maxlen", "result length upper bound %d is tighter than the original %d", gr.LengthUpperBound(), ar.LengthUpperBound())
		}
	}
}

func absentBound(b cty.Value, side int) bool {
	if !b.IsKnown() || b.IsNull() {
		return true
	}
	f := b.AsBigFloat()
	return f.IsInf() && (f.Sign() < 0) == (side < 0)
}

// boundDiff checks one numeric bound (side -1 lower, +1 upper). A bound at
// the infinity of its own side counts as absent (docs/refinements.md).
func boundDiff(ab cty.Value, aInc bool, gb cty.Value, gInc bool, side int, path string, out *[]Diff) {
	name := "lower"
	if side > 0 {
		name = "upper"
	}
	if absentBound(gb, side) {
		return
	}
	g := gb.AsBigFloat()
	if absentBound(ab, side) {
		*out = append(*out, Diff{Path: path, Kind: "range/" + name + "-invented", Msg: fmt.Sprintf("result has %s bound %s, the original had none", name, exact(g))})
		return
	}
	a := ab.AsBigFloat()
	c := CmpCty(g, a) * side // > 0: result bound lies outside the original (wider); < 0: inside (tighter)
	if c > 0 || (c == 0 && (gInc || !aInc)) {
		return
	}
	*out = append(*out, Diff{Path: path, Kind: "range/" + name, LowPrecWhole: isLowPrecPair(a, g),
		Msg: fmt.Sprintf("result %s bound %s (inclusive=%t) is tighter than the original %s (inclusive=%t)", name, exact(g), gInc, exact(a), aInc)})
}

// SplitDiffs separates the differences explained by the low-precision whole
// number class from the rest.
func SplitDiffs(ds []Diff) (lowprec, other []Diff) {
	for _, d := range ds {
		if d.LowPrecWhole {
			lowprec = append(lowprec, d)
		} else {
			other = append(other, d)
		}
	}
	return
}
