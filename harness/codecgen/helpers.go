package codecgen

import (
	"verif/harness/spec"
)

// LossPositions counts the positions of the class "null or empty collection
// whose constraint is not a placeholder but contains one".
func LossPositions(v spec.V, c spec.T) int {
	if c.K == spec.KDynamic {
		if v.T.K == spec.KDynamic {
			return 0
		}
		return LossPositions(v, v.T)
	}
	n := 0
	if c.HasDynamic() && (v.St != spec.Known || (v.T.IsColl() && len(v.Elems) == 0)) {
		n++
	}
	if v.St != spec.Known {
		return n
	}
	switch c.K {
	case spec.KList, spec.KSet, spec.KMap:
		for _, e := range v.Elems {
			n += LossPositions(e, *c.E)
		}
	case spec.KTuple:
		for i, e := range v.Elems {
			if i < len(c.Elems) {
				n += LossPositions(e, c.Elems[i])
			}
		}
	case spec.KObject:
		for i, e := range v.Elems {
			for _, a := range c.Attrs {
				if spec.NFC(a.Name) == spec.NFC(v.Keys[i]) {
					n += LossPositions(e, a.T)
				}
			}
		}
	}
	return n
}

// NodePath addresses a node of a value spec.
type NodePath struct {
	Path []int
	Dyn  bool // a DynamicVal may sit here (root, tuple/object member outside collections)
}

// NodePaths lists every node of v (preorder); known containers are descended.
func NodePaths(v spec.V, prefix []int, dyn bool) []NodePath {
	out := []NodePath{{Path: append([]int(nil), prefix...), Dyn: dyn}}
	if v.St != spec.Known {
		return out
	}
	childDyn := dyn && (v.T.K == spec.KTuple || v.T.K == spec.KObject)
	for i, e := range v.Elems {
		out = append(out, NodePaths(e, append(append([]int(nil), prefix...), i), childDyn)...)
	}
	return out
}

// Edit applies f to the node at path.
func Edit(v *spec.V, path []int, f func(*spec.V)) {
	if len(path) == 0 {
		f(v)
		return
	}
	Edit(&v.Elems[path[0]], path[1:], f)
}
