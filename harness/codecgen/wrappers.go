package codecgen

import (
	"encoding/json"
	"fmt"
	"sort"
	"strings"

	"pgregory.net/rapid"

	"verif/harness/spec"
)

// Hand-written dynamic-value wrappers: documents in which a value travels
// together with a description of its type ({"type":..,"value":..} in JSON, a
// two-element array [type-as-JSON-bytes, value] in MessagePack), for a target
// type that has the placeholder where the wrapper sits. Nothing here calls the
// library: the type description and the value are written by this package, so
// descriptions can say what the library's own encoder never writes - above all
// object types WITH an optional-attribute list, at any depth of the description
// - and the value part can be exactly the cases in which a decoder has to take
// the type of (part of) its result from the description instead of from the
// content: null, empty collections, unknown values (MessagePack), collections
// and structures with null members.

// WrapperDoc is one generated document in both formats.
type WrapperDoc struct {
	Target  spec.T // requested type (the placeholder, or a structure holding it)
	Desc    spec.T // the described type (optional markers included)
	JSON    []byte
	Msgpack []byte
	Labels  []string
}

// TypeJSON writes the JSON description of a type specification, including
// optional-attribute lists (own writer, not cty's).
func TypeJSON(t spec.T) string {
	q := func(s string) string { b, _ := json.Marshal(s); return string(b) }
	switch t.K {
	case spec.KBool, spec.KNumber, spec.KString, spec.KDynamic:
		return q(t.K)
	case spec.KList, spec.KSet, spec.KMap:
		return "[" + q(t.K) + "," + TypeJSON(*t.E) + "]"
	case spec.KTuple:
		parts := make([]string, len(t.Elems))
		for i, e := range t.Elems {
			parts[i] = TypeJSON(e)
		}
		return `["tuple",[` + strings.Join(parts, ",") + "]]"
	case spec.KObject:
		as := append([]spec.Attr(nil), t.Attrs...)
		sort.Slice(as, func(i, j int) bool { return as[i].Name < as[j].Name })
		var parts, opts []string
		for _, a := range as {
			parts = append(parts, q(a.Name)+":"+TypeJSON(a.T))
			if a.Opt {
				opts = append(opts, q(a.Name))
			}
		}
		s := `["object",{` + strings.Join(parts, ",") + "}"
		if len(opts) > 0 {
			s += ",[" + strings.Join(opts, ",") + "]"
		}
		return s + "]"
	}
	return `"string"`
}

// descType draws a described type dense in optional attributes.
func descType(t *rapid.T, depth int) spec.T {
	leaf := func() spec.T {
		return rapid.SampledFrom([]spec.T{spec.String, spec.Number, spec.Bool, spec.Dynamic}).Draw(t, "dleaf")
	}
	if depth <= 0 {
		return leaf()
	}
	switch rapid.IntRange(0, 7).Draw(t, "dkind") {
	case 0:
		return leaf()
	case 1:
		e := descType(t, depth-1)
		return spec.List(e)
	case 2:
		e := descType(t, depth-1)
		if e.HasDynamic() {
			e = spec.String
		}
		return spec.Set(e)
	case 3:
		e := descType(t, depth-1)
		return spec.Map(e)
	case 4:
		n := rapid.IntRange(0, 2).Draw(t, "dtuple")
		es := make([]spec.T, n)
		for i := range es {
			es[i] = descType(t, depth-1)
		}
		return spec.Tuple(es...)
	default:
		n := rapid.IntRange(1, 3).Draw(t, "dattrs")
		names := []string{"a", "b", "o"}
		var as []spec.Attr
		for i := 0; i < n; i++ {
			as = append(as, spec.Attr{Name: names[i], T: descType(t, depth-1), Opt: rapid.IntRange(0, 2).Draw(t, "dopt") != 0})
		}
		return spec.Object(as...)
	}
}

// wrapVal is a value plan for a described type, written by hand in both formats.
type wrapVal struct {
	json    string
	msgpack []byte
}

func mpStr(s string) []byte {
	switch n := len(s); {
	case n < 32:
		return append([]byte{0xa0 | byte(n)}, s...)
	case n < 256:
		return append([]byte{0xd9, byte(n)}, s...)
	default:
		return append([]byte{0xda, byte(n >> 8), byte(n)}, s...)
	}
}

func mpBin(b []byte) []byte {
	switch n := len(b); {
	case n < 256:
		return append([]byte{0xc4, byte(n)}, b...)
	default:
		return append([]byte{0xc5, byte(n >> 8), byte(n)}, b...)
	}
}

func mpArr(n int) []byte {
	if n < 16 {
		return []byte{0x90 | byte(n)}
	}
	return []byte{0xdc, byte(n >> 8), byte(n)}
}

func mpMap(n int) []byte {
	if n < 16 {
		return []byte{0x80 | byte(n)}
	}
	return []byte{0xde, byte(n >> 8), byte(n)}
}

// planValue writes a value for the described type ty. Each node is, by a
// draw: null, (MessagePack only) unknown, or the minimal known value - empty
// for collections, one member per position for structures.
func planValue(t *rapid.T, ty spec.T, allowUnknown bool, labels *[]string) wrapVal {
	null := wrapVal{"null", []byte{0xc0}}
	k := rapid.IntRange(0, 5).Draw(t, "vkind")
	if k == 0 {
		*labels = append(*labels, "null@"+ty.K)
		return null
	}
	if k == 1 && allowUnknown {
		*labels = append(*labels, "unknown@"+ty.K)
		// JSON has no unknown values: the JSON document carries a null there
		return wrapVal{"null", []byte{0xd4, 0x00, 0x00}}
	}
	switch ty.K {
	case spec.KBool:
		return wrapVal{"true", []byte{0xc3}}
	case spec.KNumber:
		return wrapVal{"7", []byte{0x07}}
	case spec.KString:
		return wrapVal{`"s"`, mpStr("s")}
	case spec.KDynamic:
		// a nested wrapper
		inner := descType(t, 1)
		v := planValue(t, inner, allowUnknown, labels)
		*labels = append(*labels, "nested-wrapper")
		return wrapperOf(t, inner, v)
	case spec.KList, spec.KSet:
		if rapid.Bool().Draw(t, "emptycoll") {
			*labels = append(*labels, "empty@"+ty.K)
			return wrapVal{"[]", mpArr(0)}
		}
		m := planValue(t, *ty.E, allowUnknown, labels)
		return wrapVal{"[" + m.json + "]", append(mpArr(1), m.msgpack...)}
	case spec.KMap:
		if rapid.Bool().Draw(t, "emptycoll") {
			*labels = append(*labels, "empty@map")
			return wrapVal{"{}", mpMap(0)}
		}
		m := planValue(t, *ty.E, allowUnknown, labels)
		return wrapVal{`{"k":` + m.json + "}", append(append(mpMap(1), mpStr("k")...), m.msgpack...)}
	case spec.KTuple:
		var js []string
		mp := mpArr(len(ty.Elems))
		for _, e := range ty.Elems {
			m := planValue(t, e, allowUnknown, labels)
			js = append(js, m.json)
			mp = append(mp, m.msgpack...)
		}
		return wrapVal{"[" + strings.Join(js, ",") + "]", mp}
	case spec.KObject:
		as := append([]spec.Attr(nil), ty.Attrs...)
		sort.Slice(as, func(i, j int) bool { return as[i].Name < as[j].Name })
		var js []string
		var body []byte
		n := 0
		for _, a := range as {
			if a.Opt && rapid.IntRange(0, 3).Draw(t, "omit") == 0 {
				*labels = append(*labels, "optional-attribute-omitted")
				continue
			}
			m := planValue(t, a.T, allowUnknown, labels)
			kb, _ := json.Marshal(a.Name)
			js = append(js, string(kb)+":"+m.json)
			body = append(append(body, mpStr(a.Name)...), m.msgpack...)
			n++
		}
		return wrapVal{"{" + strings.Join(js, ",") + "}", append(mpMap(n), body...)}
	}
	return null
}

// wrapperOf wraps a planned value with the description of its type.
func wrapperOf(t *rapid.T, desc spec.T, v wrapVal) wrapVal {
	d := TypeJSON(desc)
	js := `{"value":` + v.json + `,"type":` + d + `}`
	if rapid.Bool().Draw(t, "typefirst") {
		js = `{"type":` + d + `,"value":` + v.json + `}`
	}
	mp := append(append(mpArr(2), mpBin([]byte(d))...), v.msgpack...)
	return wrapVal{js, mp}
}

// DrawWrapperDoc draws a wrapper document. withUnknown allows unknown values
// in the MessagePack form (the JSON form then has nulls in those places).
func DrawWrapperDoc(t *rapid.T, withUnknown bool) WrapperDoc {
	var labels []string
	desc := descType(t, rapid.IntRange(1, 3).Draw(t, "ddepth"))
	if !desc.HasOptional() && rapid.IntRange(0, 3).Draw(t, "forceopt") != 0 {
		inner := desc
		desc = spec.Object(spec.Attr{Name: "o", T: inner, Opt: true})
		if rapid.Bool().Draw(t, "wrapcoll") {
			desc = spec.List(desc)
		}
	}
	v := planValue(t, desc, withUnknown, &labels)
	w := wrapperOf(t, desc, v)
	doc := WrapperDoc{Target: spec.Dynamic, Desc: desc}
	switch rapid.IntRange(0, 4).Draw(t, "where") {
	case 0: // inside a list of placeholders
		doc.Target = spec.List(spec.Dynamic)
		w = wrapVal{"[" + w.json + "]", append(mpArr(1), w.msgpack...)}
		labels = append(labels, "in-list")
	case 1: // as an attribute
		doc.Target = spec.Object(spec.Attr{Name: "w", T: spec.Dynamic})
		w = wrapVal{`{"w":` + w.json + "}", append(append(mpMap(1), mpStr("w")...), w.msgpack...)}
		labels = append(labels, "in-object")
	case 2: // as a map element
		doc.Target = spec.Map(spec.Dynamic)
		w = wrapVal{`{"k":` + w.json + "}", append(append(mpMap(1), mpStr("k")...), w.msgpack...)}
		labels = append(labels, "in-map")
	case 3:
		// SEVERAL members in a list / set / map of placeholders, each described
		// on its own (so their types differ), some of them a bare null or an
		// untyped unknown - in the first position too
		n := rapid.IntRange(2, 4).Draw(t, "nmembers")
		var js []string
		var mp []byte
		for i := 0; i < n; i++ {
			m := w
			switch rapid.IntRange(0, 3).Draw(t, "memberkind") {
			case 0:
				m = wrapVal{"null", []byte{0xc0}}
			case 1:
				if withUnknown {
					m = wrapVal{"null", []byte{0xd4, 0x00, 0x00}}
				} else {
					m = wrapVal{"null", []byte{0xc0}}
				}
			case 2:
				d2 := descType(t, 1)
				m = wrapperOf(t, d2, planValue(t, d2, withUnknown, &labels))
			}
			js = append(js, m.json)
			mp = append(mp, m.msgpack...)
		}
		switch rapid.IntRange(0, 2).Draw(t, "collkind") {
		case 0:
			doc.Target = spec.List(spec.Dynamic)
		case 1:
			doc.Target = spec.Set(spec.Dynamic)
		default:
			doc.Target = spec.Tuple(spec.String, spec.Set(spec.Dynamic))
		}
		w = wrapVal{"[" + strings.Join(js, ",") + "]", append(mpArr(n), mp...)}
		if doc.Target.K == spec.KTuple {
			w = wrapVal{`["s",` + w.json + "]", append(append(mpArr(2), mpStr("s")...), w.msgpack...)}
		}
		labels = append(labels, "several-members")
	default:
		labels = append(labels, "at-root")
	}
	if desc.HasOptional() {
		labels = append(labels, "description-has-optional-attributes")
		if desc.K != spec.KObject {
			labels = append(labels, "optional-below-"+desc.K)
		}
	}
	doc.JSON, doc.Msgpack, doc.Labels = []byte(w.json), w.msgpack, labels
	return doc
}

func (d WrapperDoc) String() string {
	return fmt.Sprintf("target %s, described %s, json %s", d.Target, d.Desc, d.JSON)
}
