// Package codecgen holds the generators and the type-flow model shared by the
// codec properties (C15 JSON, C16 MessagePack; reusable by C17 and C06):
//
//   - ValueAndConstraint draws a capsule-free value spec together with a type
//     constraint the value conforms to: the value's own type with arbitrary
//     sub-types replaced by the dynamic placeholder. With Opts.Unknown the value
//     carries unknowns at any depth, refined in every way consistently with a
//     wholly-known witness that is kept in the case.
//   - ExpectedType is the harness's model of where type information can and
//     cannot travel through the codecs (DESIGN.md section 5, C15).
//   - JSONDoc (jsondoc.go) draws JSON documents from a grammar.
//
// Everything drawn is a JSON-serialisable spec; nothing here calls the codecs.
package codecgen

import (
	"math"
	"math/big"
	"sort"
	"strings"

	"github.com/zclconf/go-cty/cty"
	"pgregory.net/rapid"

	"verif/harness/gen"
	"verif/harness/model"
	"verif/harness/spec"
)

// Case is a value with a type constraint it conforms to. W, when present, is
// the wholly-known witness V was weakened from (same tree shape wherever V is
// known); it is absent when V itself is wholly known.
type Case struct {
	V spec.V  `json:"v"`
	C spec.T  `json:"c"`
	W *spec.V `json:"w,omitempty"`
}

// Opts controls ValueAndConstraint.
type Opts struct {
	Depth       int  // maximum type depth (default 3)
	Unknown     bool // weaken sub-values to (refined) unknowns; the witness is kept in Case.W
	Inf         bool // allow infinite known numbers
	LongStrings bool // include strings of about 256 bytes (the msgpack encoder's prefix limit)
	NoNull      bool // no null values
	MaxElems    int  // collection size bound (default 3)
	Simple      bool // friendly numbers and strings only
}

// ValueAndConstraint draws a Case.
func ValueAndConstraint(o Opts) *rapid.Generator[Case] {
	return rapid.Custom(func(t *rapid.T) Case { return Draw(t, o) })
}

// Draw draws a Case from t.
func Draw(t *rapid.T, o Opts) Case {
	if o.Depth == 0 {
		o.Depth = 3
	}
	if o.MaxElems == 0 {
		o.MaxElems = 3
	}
	ty := gen.Type(gen.TypeOpts{Depth: o.Depth, Dynamic: true}).Draw(t, "type")
	if ty.Depth() == 0 && o.Depth > 0 && rapid.IntRange(0, 4).Draw(t, "nest") != 0 {
		// most of the codecs' decisions concern nested positions: a bare
		// primitive at the root is kept for one case in five only
		other := gen.Type(gen.TypeOpts{Depth: o.Depth - 1, Dynamic: true}).Draw(t, "type2")
		switch rapid.IntRange(0, 5).Draw(t, "wrap") {
		case 0:
			ty = spec.List(ty)
		case 1:
			ty = spec.Set(ty)
		case 2:
			ty = spec.Map(ty)
		case 3:
			ty = spec.Tuple(ty, other)
		case 4:
			ty = spec.Object(spec.Attr{Name: "a", T: other}, spec.Attr{Name: "b", T: ty})
		default:
			ty = spec.List(spec.Tuple(other, ty))
		}
	}
	w := drawVal(t, ty, o, true, true).Retype()
	c := Case{V: w}
	if o.Unknown {
		v := WeakenRich(t, w, o)
		if !v.WhollyKnown() {
			c.V = v
			ww := w
			c.W = &ww
		}
	}
	c.C = Constraint(t, c.V.T)
	return c
}

// ---------------------------------------------------------------- values

var dynInst = []spec.T{spec.String, spec.Number, spec.Bool, spec.List(spec.String), spec.List(spec.Number), spec.Set(spec.String),
	spec.Tuple(spec.Number, spec.String), spec.Object(spec.Attr{Name: "a", T: spec.String}), spec.Tuple(), spec.Object(),
	spec.Map(spec.Number), spec.List(spec.List(spec.String)), spec.Map(spec.List(spec.Number)),
	spec.Object(spec.Attr{Name: "a", T: spec.List(spec.String)}, spec.Attr{Name: "b", T: spec.Number})}

// drawVal draws a wholly-known (possibly null) value of declared type ty.
// dynPos says whether this position may hold a value typed with the dynamic
// placeholder (root and tuple/object members outside any collection).
func drawVal(t *rapid.T, ty spec.T, o Opts, root, dynPos bool) spec.V {
	if ty.K == spec.KDynamic {
		if dynPos && !o.NoNull && rapid.IntRange(0, 5).Draw(t, "dynnull") == 0 {
			return spec.NullOf(spec.Dynamic)
		}
		ty = rapid.SampledFrom(dynInst).Draw(t, "dyninst")
	}
	if !o.NoNull && rapid.IntRange(0, 7).Draw(t, "null") == 0 {
		return spec.NullOf(instDyn(t, ty, dynPos))
	}
	switch ty.K {
	case spec.KBool:
		return spec.KnownBool(rapid.Bool().Draw(t, "b"))
	case spec.KNumber:
		if o.Simple {
			return spec.KnownNum(gen.SmallInt(-3, 12).Draw(t, "n"))
		}
		return spec.KnownNum(gen.Num(gen.NumOpts{NoInf: !o.Inf}).Draw(t, "n"))
	case spec.KString:
		if o.Simple {
			return spec.KnownStr(gen.SimpleString().Draw(t, "s"))
		}
		if o.LongStrings && rapid.IntRange(0, 3).Draw(t, "long") == 0 {
			return spec.KnownStr(LongString(t))
		}
		return spec.KnownStr(gen.String().Draw(t, "s"))
	case spec.KList, spec.KSet:
		n := rapid.IntRange(0, o.MaxElems).Draw(t, "n")
		et := instDyn(t, *ty.E, false)
		v := spec.V{T: spec.T{K: ty.K, E: &et}, St: spec.Known}
		for i := 0; i < n; i++ {
			v.Elems = append(v.Elems, drawVal(t, et, o, false, false))
		}
		return v
	case spec.KMap:
		n := rapid.IntRange(0, o.MaxElems).Draw(t, "n")
		et := instDyn(t, *ty.E, false)
		v := spec.V{T: spec.T{K: ty.K, E: &et}, St: spec.Known}
		v.Keys = distinctKeys(t, mapKeys, n)
		for range v.Keys {
			v.Elems = append(v.Elems, drawVal(t, et, o, false, false))
		}
		return v
	case spec.KTuple:
		v := spec.V{T: ty, St: spec.Known}
		for _, et := range ty.Elems {
			v.Elems = append(v.Elems, drawVal(t, et, o, false, dynPos))
		}
		return v
	case spec.KObject:
		v := spec.V{T: ty, St: spec.Known}
		for _, a := range ty.Attrs {
			v.Keys = append(v.Keys, a.Name)
			v.Elems = append(v.Elems, drawVal(t, a.T, o, false, dynPos))
		}
		return v
	}
	panic("codecgen: bad kind " + ty.K)
}

// instDyn replaces dynamic placeholders by concrete types; where keep is set
// (a position outside any collection) placeholders under tuple/object stay,
// since a null of such a type is a legitimate value.
func instDyn(t *rapid.T, ty spec.T, keep bool) spec.T {
	switch ty.K {
	case spec.KDynamic:
		if keep {
			return ty
		}
		return rapid.SampledFrom(dynInst).Draw(t, "dyninst")
	case spec.KList, spec.KSet, spec.KMap:
		e := instDyn(t, *ty.E, false)
		return spec.T{K: ty.K, E: &e}
	case spec.KTuple:
		es := make([]spec.T, len(ty.Elems))
		for i, e := range ty.Elems {
			es[i] = instDyn(t, e, false)
		}
		return spec.T{K: spec.KTuple, Elems: es}
	case spec.KObject:
		as := make([]spec.Attr, len(ty.Attrs))
		for i, a := range ty.Attrs {
			as[i] = spec.Attr{Name: a.Name, T: instDyn(t, a.T, false)}
		}
		return spec.T{K: spec.KObject, Attrs: as}
	}
	return ty
}

var mapKeys = []string{"a", "b", "c", "k1", "k2", "é", "é", "", "z", "foo", "日", "value", "type", "a\"b", "\U0001F600"}

func distinctKeys(t *rapid.T, pool []string, n int) []string {
	if n <= 0 {
		return nil
	}
	perm := rapid.Permutation(pool).Draw(t, "keys")
	out := make([]string, 0, n)
	seen := map[string]bool{}
	for _, k := range perm {
		nk := spec.NFC(k)
		if seen[nk] {
			continue
		}
		seen[nk] = true
		out = append(out, k)
		if len(out) == n {
			break
		}
	}
	sort.Strings(out)
	return out
}

// multi-byte pieces used to straddle the encoder's 256-byte prefix cut
var straddle = []string{"é", "é", "日", "\U0001F600", "\U0001F469‍\U0001F4BB", "\U0001F1E9\U0001F1EA", "각", "각",
	"ạ́", "\U0001F44D\U0001F3FD", "\r\n", "z"}

// LongString draws a string whose byte length is close to 256 (one time in
// ten: close to 1024): an ASCII run
// followed by multi-byte clusters, so that byte offsets 250..262 fall inside
// multi-byte characters and grapheme clusters.
func LongString(t *rapid.T) string {
	var b strings.Builder
	n := rapid.IntRange(240, 258).Draw(t, "fill")
	if rapid.IntRange(0, 9).Draw(t, "verylong") == 0 {
		// around the decoder's 1024-byte limit on a whole refinement blob
		n = rapid.IntRange(990, 1040).Draw(t, "fill4")
	}
	fill := rapid.SampledFrom([]string{"a", "x", "0", "-"}).Draw(t, "fillch")
	b.WriteString(strings.Repeat(fill, n))
	k := rapid.IntRange(1, 8).Draw(t, "clusters")
	for i := 0; i < k; i++ {
		b.WriteString(rapid.SampledFrom(straddle).Draw(t, "cluster"))
	}
	if rapid.Bool().Draw(t, "tail") {
		b.WriteString(strings.Repeat("b", rapid.IntRange(1, 12).Draw(t, "tailn")))
	}
	return b.String()
}

// ---------------------------------------------------------------- constraints

// Constraint draws a constraint for a value of type ty: ty with arbitrary
// sub-types replaced by the dynamic placeholder. Positions where ty itself is
// dynamic stay dynamic (conformance demands it).
func Constraint(t *rapid.T, ty spec.T) spec.T {
	switch rapid.IntRange(0, 9).Draw(t, "cmode") {
	case 0:
		return ty // exact
	case 1:
		return spec.Dynamic
	case 2, 3, 4:
		// placeholders only at the leaves: every container position keeps its
		// kind but "contains a placeholder further down"
		return atLeastOne(t, ty, weakenBelow(t, ty, 2, true))
	default:
		return atLeastOne(t, ty, weakenBelow(t, ty, 3, false))
	}
}

// atLeastOne makes sure the weakened constraint c differs from ty when ty has
// a sub-type below its root that is not already a placeholder.
func atLeastOne(t *rapid.T, ty, c spec.T) spec.T {
	if !c.Equal(ty) {
		return c
	}
	n := countBelow(ty)
	if n == 0 {
		return c
	}
	k := rapid.IntRange(0, n-1).Draw(t, "forcedyn")
	return replaceBelow(ty, &k)
}

func children(ty spec.T) []spec.T {
	switch ty.K {
	case spec.KList, spec.KSet, spec.KMap:
		return []spec.T{*ty.E}
	case spec.KTuple:
		return ty.Elems
	case spec.KObject:
		out := make([]spec.T, len(ty.Attrs))
		for i, a := range ty.Attrs {
			out[i] = a.T
		}
		return out
	}
	return nil
}

// countBelow counts the non-placeholder nodes strictly below the root.
func countBelow(ty spec.T) int {
	n := 0
	for _, c := range children(ty) {
		if c.K != spec.KDynamic {
			n += 1 + countBelow(c)
		}
	}
	return n
}

// replaceBelow replaces the k-th such node (preorder) by the placeholder.
func replaceBelow(ty spec.T, k *int) spec.T {
	sub := func(c spec.T) spec.T {
		if c.K == spec.KDynamic || *k < 0 {
			return c
		}
		if *k == 0 {
			*k = -1
			return spec.Dynamic
		}
		*k--
		return replaceBelow(c, k)
	}
	switch ty.K {
	case spec.KList, spec.KSet, spec.KMap:
		e := sub(*ty.E)
		return spec.T{K: ty.K, E: &e}
	case spec.KTuple:
		es := make([]spec.T, len(ty.Elems))
		for i, e := range ty.Elems {
			es[i] = sub(e)
		}
		return spec.T{K: spec.KTuple, Elems: es}
	case spec.KObject:
		as := make([]spec.Attr, len(ty.Attrs))
		for i, a := range ty.Attrs {
			as[i] = spec.Attr{Name: a.Name, T: sub(a.T)}
		}
		return spec.T{K: spec.KObject, Attrs: as}
	}
	return ty
}

// weakenBelow keeps the root kind and weakens the sub-types.
func weakenBelow(t *rapid.T, ty spec.T, prob int, leavesOnly bool) spec.T {
	switch ty.K {
	case spec.KList, spec.KSet, spec.KMap:
		e := weakenType(t, *ty.E, prob, leavesOnly)
		return spec.T{K: ty.K, E: &e}
	case spec.KTuple:
		es := make([]spec.T, len(ty.Elems))
		for i, e := range ty.Elems {
			es[i] = weakenType(t, e, prob, leavesOnly)
		}
		return spec.T{K: spec.KTuple, Elems: es}
	case spec.KObject:
		as := make([]spec.Attr, len(ty.Attrs))
		for i, a := range ty.Attrs {
			as[i] = spec.Attr{Name: a.Name, T: weakenType(t, a.T, prob, leavesOnly)}
		}
		return spec.T{K: spec.KObject, Attrs: as}
	}
	return weakenType(t, ty, prob, leavesOnly)
}

func weakenType(t *rapid.T, ty spec.T, prob int, leavesOnly bool) spec.T {
	if ty.K == spec.KDynamic {
		return ty
	}
	isLeaf := ty.IsPrim() || (ty.K == spec.KTuple && len(ty.Elems) == 0) || (ty.K == spec.KObject && len(ty.Attrs) == 0)
	if (!leavesOnly || isLeaf) && rapid.IntRange(0, prob-1).Draw(t, "todyn") == 0 {
		return spec.Dynamic
	}
	switch ty.K {
	case spec.KList, spec.KSet, spec.KMap:
		e := weakenType(t, *ty.E, prob, leavesOnly)
		return spec.T{K: ty.K, E: &e}
	case spec.KTuple:
		es := make([]spec.T, len(ty.Elems))
		for i, e := range ty.Elems {
			es[i] = weakenType(t, e, prob, leavesOnly)
		}
		return spec.T{K: spec.KTuple, Elems: es}
	case spec.KObject:
		as := make([]spec.Attr, len(ty.Attrs))
		for i, a := range ty.Attrs {
			as[i] = spec.Attr{Name: a.Name, T: weakenType(t, a.T, prob, leavesOnly)}
		}
		return spec.T{K: spec.KObject, Attrs: as}
	}
	return ty
}

// DynBelowRoot reports whether c has a placeholder strictly below its root.
func DynBelowRoot(c spec.T) bool { return c.K != spec.KDynamic && c.HasDynamic() }

// ---------------------------------------------------------------- weakening with rich refinements

// WeakenRich replaces a subset of the sub-values of the wholly-known value w
// by unknowns whose refinements admit the replaced part, drawing refinements
// of every kind (see refine).
func WeakenRich(t *rapid.T, w spec.V, o Opts) spec.V {
	v := weakenRich(t, w, o, true)
	if v.WhollyKnown() {
		// nothing was chosen: weaken one node, preferring a refinable leaf
		paths := NodePaths(w, nil, true)
		var leaves []NodePath
		for _, p := range paths {
			x := nodeAt(w, p.Path)
			if x.St == spec.Known && (x.T.K == spec.KNumber || x.T.K == spec.KString || x.T.IsColl()) {
				leaves = append(leaves, p)
			}
		}
		if len(leaves) > 0 && rapid.IntRange(0, 3).Draw(t, "preferleaf") != 0 {
			paths = leaves
		}
		p := rapid.SampledFrom(paths).Draw(t, "forceunknown")
		Edit(&v, p.Path, func(x *spec.V) { *x = Refine(t, *x, p.Dyn) })
	}
	return v.Retype()
}

func nodeAt(v spec.V, path []int) spec.V {
	for _, i := range path {
		v = v.Elems[i]
	}
	return v
}

func weakenRich(t *rapid.T, v spec.V, o Opts, dynPos bool) spec.V {
	prob := 7 // containers and the root
	if v.T.K == spec.KNumber || v.T.K == spec.KString {
		prob = 3
	} else if v.T.K == spec.KBool || v.St == spec.Null {
		prob = 5
	}
	if rapid.IntRange(0, prob-1).Draw(t, "weakenhere") == 0 {
		return Refine(t, v, dynPos)
	}
	if v.St != spec.Known || len(v.Elems) == 0 {
		return v
	}
	out := v
	out.Elems = make([]spec.V, len(v.Elems))
	childDyn := dynPos && (v.T.K == spec.KTuple || v.T.K == spec.KObject)
	for i, e := range v.Elems {
		out.Elems[i] = weakenRich(t, e, o, childDyn)
	}
	return out
}

// Refine draws an unknown value admitting the wholly-known value v.
func Refine(t *rapid.T, v spec.V, dynPos bool) spec.V {
	if v.T.K == spec.KDynamic {
		return spec.DynamicVal()
	}
	if dynPos && rapid.IntRange(0, 7).Draw(t, "todyn") == 0 {
		return spec.DynamicVal()
	}
	u := spec.UnknownOf(v.T)
	if v.St == spec.Null && rapid.Bool().Draw(t, "nullbounds") {
		// A null witness is admitted by ANY type-specific refinement that does
		// not say not-null (bounds constrain the value only if it turns out
		// not to be null), so the bounds are free: among them exact and huge
		// collection lengths, which no non-null witness of the generator has.
		r := &spec.Ref{}
		switch {
		case v.T.K == spec.KNumber:
			lo, hi := spec.NInt(int64(rapid.IntRange(-5, 5).Draw(t, "nlo"))), spec.NInt(int64(rapid.IntRange(6, 12).Draw(t, "nhi")))
			r.Lo, r.LoInc, r.Hi, r.HiInc = &lo, rapid.Bool().Draw(t, "nloinc"), &hi, rapid.Bool().Draw(t, "nhiinc")
		case v.T.K == spec.KString:
			p := rapid.SampledFrom([]string{"a", "https://", "e\u0301"}).Draw(t, "npfx")
			r.Prefix, r.PrefixFull = &p, true
		case v.T.IsColl():
			lo := rapid.SampledFrom([]int{0, 1, 2, 1024, 1025, 4096, 1 << 16, math.MaxInt32, math.MaxInt64 - 1}).Draw(t, "nminlen")
			hi := lo
			if rapid.Bool().Draw(t, "nexact") == false {
				hi = lo + rapid.SampledFrom([]int{1, 2, 1 << 16}).Draw(t, "nspan")
				if hi < lo {
					hi = math.MaxInt64
				}
			}
			r.MinLen, r.MaxLen = &lo, &hi
		}
		if *r != (spec.Ref{}) {
			u.Ref = r
		}
		return u
	}
	if rapid.IntRange(0, 5).Draw(t, "unrefined") == 0 || v.St == spec.Null {
		return u
	}
	r := &spec.Ref{}
	if rapid.Bool().Draw(t, "notnull") {
		r.Null = "notnull"
	}
	switch {
	case v.T.K == spec.KNumber:
		x := v.N.Float()
		if !x.IsInf() && rapid.IntRange(0, 11).Draw(t, "longbounds") == 0 {
			// Two bounds whose decimal text is long (a many-digit number with a
			// large negative exponent on the side next to zero, a huge one on
			// the far side): together they make a refinement description of
			// more than a kilobyte. The witness lies between them.
			digits := strings.Repeat("123456789", rapid.IntRange(9, 16).Draw(t, "ndigits"))
			tiny := spec.NParse("1." + digits + "e-390")
			negTiny := spec.NParse("-1." + digits + "e-390")
			huge := spec.NParse("9." + digits + "e520")
			negHuge := spec.NParse("-9." + digits + "e520")
			if x.Sign() >= 0 && x.Cmp(huge.Float()) < 0 {
				r.Lo, r.LoInc, r.Hi, r.HiInc = &negTiny, rapid.Bool().Draw(t, "loinc"), &huge, rapid.Bool().Draw(t, "hiinc")
				break
			}
			if x.Sign() < 0 && x.Cmp(negHuge.Float()) > 0 {
				r.Lo, r.LoInc, r.Hi, r.HiInc = &negHuge, rapid.Bool().Draw(t, "loinc"), &tiny, rapid.Bool().Draw(t, "hiinc")
				break
			}
		}
		sides := rapid.IntRange(1, 3).Draw(t, "sides")
		if sides&1 != 0 {
			if b, inc, ok := numBound(t, *v.N, x, -1); ok {
				r.Lo, r.LoInc = &b, inc
			}
		}
		if sides&2 != 0 {
			if b, inc, ok := numBound(t, *v.N, x, +1); ok {
				r.Hi, r.HiInc = &b, inc
			}
		}
	case v.T.K == spec.KString:
		if rapid.IntRange(0, 3).Draw(t, "prefix") != 0 {
			s := spec.NFC(v.S)
			cuts := []int{0}
			for i := range s {
				if i > 0 {
					cuts = append(cuts, i)
				}
			}
			cuts = append(cuts, len(s))
			var c int
			if len(s) > 200 && rapid.IntRange(0, 3).Draw(t, "nearlimit") != 0 {
				// a cut near the encoder's limit
				var near []int
				for _, x := range cuts {
					if x >= 240 {
						near = append(near, x)
					}
				}
				if len(near) == 0 {
					near = cuts
				}
				c = rapid.SampledFrom(near).Draw(t, "cut")
			} else {
				c = rapid.SampledFrom(cuts).Draw(t, "cut")
			}
			p := s[:c]
			r.Prefix = &p
			r.PrefixFull = rapid.Bool().Draw(t, "full")
		}
	case v.T.IsColl():
		n := len(v.Elems)
		lens := rapid.IntRange(1, 3).Draw(t, "lens")
		if lens&1 != 0 {
			max := n
			if v.T.K == spec.KSet && n > 1 {
				max = 1 // members of a set spec may coalesce
			}
			lo := rapid.IntRange(0, max).Draw(t, "lo")
			r.MinLen = &lo
		}
		if lens&2 != 0 {
			hi := n + rapid.SampledFrom([]int{0, 0, 1, 2, 1 << 16, math.MaxInt32, math.MaxInt64 - 1 - n, math.MaxInt64 - n}).Draw(t, "hi")
			r.MaxLen = &hi
		}
	}
	if *r != (spec.Ref{}) {
		u.Ref = r
	}
	return u
}

// numBound draws a bound on the given side (-1 lower, +1 upper) that the
// witness x satisfies under the tolerant number order.
func numBound(t *rapid.T, n spec.Num, x *big.Float, side int) (spec.Num, bool, bool) {
	if x.IsInf() {
		if (x.Sign() < 0) == (side < 0) {
			// -inf witness, lower side (or +inf, upper side): only the same infinity, inclusive
			return n, true, true
		}
		// the far side: any finite number or the opposite infinity
		b := gen.Num(gen.NumOpts{}).Draw(t, "bound")
		if b.Float().IsInf() && b.Float().Sign() == x.Sign() {
			return n, true, true
		}
		return b, rapid.Bool().Draw(t, "inc"), true
	}
	switch rapid.IntRange(0, 5).Draw(t, "boundkind") {
	case 0:
		return n, true, true // the value itself, inclusive
	case 1:
		if side < 0 {
			return spec.Num{Route: "-inf"}, rapid.Bool().Draw(t, "inc"), true
		}
		return spec.Num{Route: "+inf"}, rapid.Bool().Draw(t, "inc"), true
	case 2, 3:
		// another drawn number of any class, if it lies on the right side
		b := gen.Num(gen.NumOpts{NoInf: true}).Draw(t, "bound")
		cmp := model.CmpTol(b.Float(), x)
		switch {
		case cmp == 0:
			return n, true, true
		case (cmp < 0) == (side < 0):
			return b, rapid.Bool().Draw(t, "inc"), true
		}
		return spec.Num{}, false, false
	default:
		// x -/+ delta with delta >= max(|x|/1024, 1/1024): fractional, exact decimal at 512 bits
		d := new(big.Float).SetPrec(512).Abs(x)
		d.Quo(d, big.NewFloat(1024))
		min := big.NewFloat(1.0 / 1024)
		if d.Cmp(min) < 0 {
			d = min
		}
		d.Mul(d, big.NewFloat(float64(rapid.IntRange(1, 4).Draw(t, "k"))))
		b := new(big.Float).SetPrec(512)
		if side < 0 {
			b.Sub(x, d)
		} else {
			b.Add(x, d)
		}
		bn := spec.Num{Route: "big", Text: b.Text('g', 160), Prec: 512}
		if cmp := model.CmpTol(bn.Float(), x); cmp == 0 || (cmp < 0) != (side < 0) {
			return spec.Num{}, false, false
		}
		return bn, rapid.Bool().Draw(t, "inc"), true
	}
}

// ---------------------------------------------------------------- the type-flow model

// ExpectedType is the model of the type a codec round trip can return for the
// value v encoded and decoded under constraint c (DESIGN.md section 5, C15
// "Where type information can and cannot travel"): a placeholder is
// serialised as a wrapper around the value found at that position, so the
// value's own type travels; a null, an unknown, or an empty collection
// sitting at a position whose constraint is not itself a placeholder has no
// member to carry a wrapper, so the decoder can only return the constraint
// there. mixed reports that some non-empty collection has members whose
// expected types differ (the decoder cannot build such a collection).
//
// v is only read through IsNull / IsKnown / Type / LengthInt / ElementIterator.
func ExpectedType(v cty.Value, c spec.T) (t spec.T, mixed bool) {
	v, _ = v.Unmark()
	if c.K == spec.KDynamic {
		vt := spec.FromCty(v.Type())
		if vt.K == spec.KDynamic {
			return spec.Dynamic, false
		}
		return ExpectedType(v, vt)
	}
	if v.IsNull() || !v.IsKnown() {
		return c, false
	}
	switch c.K {
	case spec.KList, spec.KSet, spec.KMap:
		if v.LengthInt() == 0 {
			return c, false
		}
		var et *spec.T
		for it := v.ElementIterator(); it.Next(); {
			_, e := it.Element()
			x, m := ExpectedType(e, *c.E)
			mixed = mixed || m
			if et == nil {
				et = &x
			} else if !et.Equal(x) {
				mixed = true
			}
		}
		return spec.T{K: c.K, E: et}, mixed
	case spec.KTuple:
		es := make([]spec.T, len(c.Elems))
		i := 0
		for it := v.ElementIterator(); it.Next(); i++ {
			_, e := it.Element()
			x, m := ExpectedType(e, c.Elems[i])
			mixed = mixed || m
			es[i] = x
		}
		return spec.T{K: spec.KTuple, Elems: es}, mixed
	case spec.KObject:
		as := make([]spec.Attr, len(c.Attrs))
		for i, a := range c.Attrs {
			x, m := ExpectedType(v.GetAttr(spec.NFC(a.Name)), a.T)
			mixed = mixed || m
			as[i] = spec.Attr{Name: a.Name, T: x}
		}
		return spec.T{K: spec.KObject, Attrs: as}, mixed
	}
	return c, false
}
