package codecgen

import (
	"fmt"
	"strconv"
	"strings"
	"unicode/utf8"

	"pgregory.net/rapid"

	"verif/harness/gen"
	"verif/harness/spec"
)

// Doc is a JSON document tree drawn from a grammar, together with the
// rendering choices (number spelling, escape style, whitespace), so that
// Render is a pure function of the tree.
type Doc struct {
	K     string   `json:"k"`               // "null", "bool", "num", "str", "arr", "obj"
	B     bool     `json:"b,omitempty"`     // bool value
	Num   string   `json:"num,omitempty"`   // number literal exactly as it appears in the document
	S     string   `json:"s,omitempty"`     // string content (decoded)
	Esc   int      `json:"esc,omitempty"`   // escape style for S (and seed for the keys' styles)
	Elems []Doc    `json:"elems,omitempty"` // array members / object member values
	Keys  []string `json:"keys,omitempty"`  // object member names (decoded), aligned with Elems; may repeat
	WS    int      `json:"ws,omitempty"`    // whitespace style
}

// DocOpts controls JSONDoc.
type DocOpts struct {
	Depth   int  // nesting depth (default 3)
	NoDup   bool // no duplicate keys
	NFCKeys bool // only keys that are already normalized
}

var docKeys = []string{"a", "b", "c", "id", "name", "é", "é", "", "value", "type", "x y", "日", "q\"uote", "\\", "\U0001F600", "Å", "Å"}
var docKeysNFC = []string{"a", "b", "c", "id", "name", "é", "", "value", "type", "x y", "日", "q\"uote", "\\", "\U0001F600", "Å"}

var otherSpelling = map[string]string{"é": "é", "é": "é", "Å": "Å", "Å": "Å"}

// number literals by class; every literal is a valid JSON number with at most
// 40 significant digits and |exponent| <= 400
var numLits = []string{"0", "-0", "1", "-1", "10", "1.0", "1.50", "0.1", "-0.1", "0.5", "1e2", "1E2", "1e+2", "1E-2", "100e-2", "0.001e3",
	"12345678901234567890", "18446744073709551615", "18446744073709551616", "9223372036854775807", "9223372036854775808", "-9223372036854775808",
	"-9223372036854775809", "1e40", "1e400", "1e-400", "-1e400", "0e0", "0.0", "0e400", "3.14159265358979323846264338327950288419",
	"9007199254740993", "0.30000000000000004", "1.7976931348623157e308", "5e-324", "1e308", "123456789.125", "1.00000000005", "2.5e-1", "25e-1", "1000000000000000000000.25"}

// JSONDoc draws a JSON document tree.
func JSONDoc(o DocOpts) *rapid.Generator[Doc] {
	return rapid.Custom(func(t *rapid.T) Doc {
		if o.Depth == 0 {
			o.Depth = 3
		}
		return drawDoc(t, o, o.Depth)
	})
}

func drawDoc(t *rapid.T, o DocOpts, depth int) Doc {
	kinds := []string{"null", "bool", "num", "num", "str", "str"}
	if depth > 0 {
		kinds = append(kinds, "arr", "obj", "arr", "obj", "obj")
	}
	if depth == o.Depth && depth > 0 {
		// a bare scalar document only one time in six
		kinds = []string{"arr", "obj", "arr", "obj", "obj", rapid.SampledFrom(kinds[:6]).Draw(t, "scalar")}
	}
	k := rapid.SampledFrom(kinds).Draw(t, "kind")
	d := Doc{K: k, WS: rapid.IntRange(0, 3).Draw(t, "ws")}
	switch k {
	case "bool":
		d.B = rapid.Bool().Draw(t, "b")
	case "num":
		d.Num = drawNumLit(t)
	case "str":
		d.S = gen.String().Draw(t, "s")
		d.Esc = rapid.IntRange(0, 4).Draw(t, "esc")
	case "arr":
		n := rapid.IntRange(0, 3).Draw(t, "n")
		for i := 0; i < n; i++ {
			d.Elems = append(d.Elems, drawDoc(t, o, depth-1))
		}
	case "obj":
		d.Esc = rapid.IntRange(0, 4).Draw(t, "esc")
		n := rapid.IntRange(0, 3).Draw(t, "n")
		pool := docKeys
		if o.NFCKeys {
			pool = docKeysNFC
		}
		keys := distinctKeys(t, pool, n)
		for _, key := range keys {
			d.Keys = append(d.Keys, key)
			d.Elems = append(d.Elems, drawDoc(t, o, depth-1))
		}
		// same-typed duplicate keys: a later member repeats an earlier name
		// (byte-identical, or a differently-composed spelling of it) with a
		// value of the same structural type
		if !o.NoDup && len(keys) > 0 && rapid.IntRange(0, 3).Draw(t, "dup") == 0 {
			i := rapid.IntRange(0, len(keys)-1).Draw(t, "dupof")
			name := d.Keys[i]
			if !o.NFCKeys && rapid.IntRange(0, 3).Draw(t, "dupspelling") == 0 {
				if alt, ok := otherSpelling[name]; ok {
					name = alt
				}
			}
			val := sameTyped(t, d.Elems[i])
			pos := rapid.IntRange(i+1, len(d.Keys)).Draw(t, "duppos")
			d.Keys = append(d.Keys[:pos], append([]string{name}, d.Keys[pos:]...)...)
			d.Elems = append(d.Elems[:pos], append([]Doc{val}, d.Elems[pos:]...)...)
		}
	}
	return d
}

func drawNumLit(t *rapid.T) string {
	switch rapid.IntRange(0, 3).Draw(t, "numclass") {
	case 0:
		return strconv.Itoa(rapid.IntRange(-20, 1000).Draw(t, "small"))
	case 1, 2:
		return rapid.SampledFrom(numLits).Draw(t, "lit")
	default:
		s := rapid.StringMatching(`-?(0|[1-9][0-9]{0,20})(\.[0-9]{1,15})?`).Draw(t, "mant")
		if rapid.Bool().Draw(t, "hasexp") {
			s += rapid.SampledFrom([]string{"e", "E", "e+", "E+", "e-", "E-"}).Draw(t, "e")
			s += rapid.SampledFrom([]string{"0", "1", "2", "02", "7", "19", "40", "308", "360"}).Draw(t, "exp")
		}
		return s
	}
}

// sameTyped draws a document with the same structural type as d: the same
// tree shape, nulls where d has nulls, other scalars redrawn within their kind.
func sameTyped(t *rapid.T, d Doc) Doc {
	out := d
	switch d.K {
	case "bool":
		out.B = rapid.Bool().Draw(t, "b")
	case "num":
		out.Num = drawNumLit(t)
	case "str":
		out.S = gen.String().Draw(t, "s")
	case "arr", "obj":
		out.Elems = make([]Doc, len(d.Elems))
		for i, e := range d.Elems {
			out.Elems[i] = sameTyped(t, e)
		}
		out.Keys = append([]string(nil), d.Keys...)
	}
	return out
}

// Type is the document's structural type per docs/json.md: strings, numbers
// and bools map to the primitive types, arrays to tuple types, objects to
// object types (attribute names are normalized), null to the dynamic
// placeholder. ok is false when two members of one object whose names are
// equal after normalization have different structural types (a conflicting
// duplicate: such documents are outside the property's domain).
func (d Doc) Type() (ty spec.T, ok bool) {
	switch d.K {
	case "null":
		return spec.Dynamic, true
	case "bool":
		return spec.Bool, true
	case "num":
		return spec.Number, true
	case "str":
		return spec.String, true
	case "arr":
		es := make([]spec.T, len(d.Elems))
		for i, e := range d.Elems {
			x, ok := e.Type()
			if !ok {
				return spec.T{}, false
			}
			es[i] = x
		}
		return spec.T{K: spec.KTuple, Elems: es}, true
	case "obj":
		var as []spec.Attr
		idx := map[string]int{}
		for i, e := range d.Elems {
			x, ok := e.Type()
			if !ok {
				return spec.T{}, false
			}
			name := spec.NFC(d.Keys[i])
			if j, dup := idx[name]; dup {
				if !as[j].T.Equal(x) {
					return spec.T{}, false
				}
				continue
			}
			idx[name] = len(as)
			as = append(as, spec.Attr{Name: name, T: x})
		}
		return spec.T{K: spec.KObject, Attrs: as}, true
	}
	panic("codecgen: bad doc kind " + d.K)
}

// HasDup reports whether some object has two members whose names are equal
// after normalization; HasNonNFCKey whether some member name is not normalized.
func (d Doc) HasDup() bool {
	seen := map[string]bool{}
	for _, k := range d.Keys {
		n := spec.NFC(k)
		if seen[n] {
			return true
		}
		seen[n] = true
	}
	for _, e := range d.Elems {
		if e.HasDup() {
			return true
		}
	}
	return false
}

func (d Doc) HasNonNFCKey() bool {
	for _, k := range d.Keys {
		if spec.NFC(k) != k {
			return true
		}
	}
	for _, e := range d.Elems {
		if e.HasNonNFCKey() {
			return true
		}
	}
	return false
}

// HasNull reports whether the document contains a null below the root.
func (d Doc) HasNull() bool {
	for _, e := range d.Elems {
		if e.K == "null" || e.HasNull() {
			return true
		}
	}
	return false
}

// Render produces the document text.
func (d Doc) Render() []byte {
	var b strings.Builder
	// insignificant whitespace around the whole document (RFC 8259: ws value ws)
	switch d.WS {
	case 1:
		b.WriteByte(' ')
	case 3:
		b.WriteString("\r\n\t ")
	}
	d.render(&b)
	switch d.WS {
	case 2:
		b.WriteByte('\n')
	case 3:
		b.WriteString(" \n")
	}
	return []byte(b.String())
}

func (d Doc) ws(b *strings.Builder, slot int) {
	switch d.WS {
	case 1:
		b.WriteByte(' ')
	case 2:
		if slot%2 == 0 {
			b.WriteString("\n\t")
		}
	case 3:
		if slot%3 == 1 {
			b.WriteString(" \r\n ")
		}
	}
}

func (d Doc) render(b *strings.Builder) {
	switch d.K {
	case "null":
		b.WriteString("null")
	case "bool":
		if d.B {
			b.WriteString("true")
		} else {
			b.WriteString("false")
		}
	case "num":
		b.WriteString(d.Num)
	case "str":
		b.WriteString(QuoteJSON(d.S, d.Esc))
	case "arr":
		b.WriteByte('[')
		for i, e := range d.Elems {
			if i > 0 {
				b.WriteByte(',')
			}
			d.ws(b, i)
			e.render(b)
			d.ws(b, i+1)
		}
		if len(d.Elems) == 0 {
			d.ws(b, 0)
		}
		b.WriteByte(']')
	case "obj":
		b.WriteByte('{')
		for i, e := range d.Elems {
			if i > 0 {
				b.WriteByte(',')
			}
			d.ws(b, i)
			b.WriteString(QuoteJSON(d.Keys[i], d.Esc+i))
			d.ws(b, i+1)
			b.WriteByte(':')
			d.ws(b, i)
			e.render(b)
			d.ws(b, i+2)
		}
		if len(d.Elems) == 0 {
			d.ws(b, 1)
		}
		b.WriteByte('}')
	}
}

// QuoteJSON renders s as a JSON string literal. style selects how much is
// escaped: 0 only what JSON requires; 1 every non-ASCII rune as \uXXXX (with
// surrogate pairs); 2 alternate runes as \uXXXX (upper-case hex); 3 the short
// escapes plus "\/"; 4 everything as \uXXXX.
func QuoteJSON(s string, style int) string {
	var b strings.Builder
	b.WriteByte('"')
	i := 0
	for _, r := range s {
		i++
		esc := false
		switch style % 5 {
		case 1:
			esc = r >= 0x80
		case 2:
			esc = i%2 == 0
		case 4:
			esc = true
		}
		switch {
		case esc:
			writeU(&b, r, style%5 == 2)
		case r == '"':
			b.WriteString(`\"`)
		case r == '\\':
			b.WriteString(`\\`)
		case r == '/' && style%5 == 3:
			b.WriteString(`\/`)
		case r == '\n':
			b.WriteString(`\n`)
		case r == '\r':
			b.WriteString(`\r`)
		case r == '\t':
			b.WriteString(`\t`)
		case r == '\b' && style%5 == 3:
			b.WriteString(`\b`)
		case r == '\f' && style%5 == 3:
			b.WriteString(`\f`)
		case r < 0x20:
			writeU(&b, r, false)
		default:
			var buf [utf8.UTFMax]byte
			n := utf8.EncodeRune(buf[:], r)
			b.Write(buf[:n])
		}
	}
	b.WriteByte('"')
	return b.String()
}

func writeU(b *strings.Builder, r rune, upper bool) {
	f := `\u%04x`
	if upper {
		f = `\u%04X`
	}
	if r >= 0x10000 {
		r -= 0x10000
		fmt.Fprintf(b, f, 0xd800+(r>>10))
		fmt.Fprintf(b, f, 0xdc00+(r&0x3ff))
		return
	}
	fmt.Fprintf(b, f, r)
}
