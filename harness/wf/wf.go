// Package wf is the well-formedness validator (property C06): a deep walk
// over a value using public accessors only, plus the tag-guarded hook inside
// package cty that inspects payload kinds directly.
package wf

import (
	"fmt"
	"math/big"

	"github.com/zclconf/go-cty/cty"

	"verif/harness/facet"
	"verif/harness/model"
	"verif/harness/spec"
)

// Check validates v. It returns nil or a Failure whose Kind starts with "wf/".
func Check(v cty.Value) (ret *facet.Failure) {
	defer func() {
		if r := recover(); r != nil {
			ret = facet.Failf("wf/accessor-panic", "an accessor applicable to the value's type panicked: %v", r)
		}
	}()
	if err := cty.VerifWellFormed(v); err != nil {
		return facet.Failf("wf/hook", "%v (type %#v)", err, v.Type())
	}
	if err := public(v, ""); err != nil {
		return err
	}
	return nil
}

// CheckAll validates several values.
func CheckAll(vs ...cty.Value) *facet.Failure {
	for _, v := range vs {
		if f := Check(v); f != nil {
			return f
		}
	}
	return nil
}

func strictNumEq(x, y *big.Float) bool {
	return x.Cmp(y) == 0 && x.Text('f', -1) == y.Text('f', -1)
}

func public(v cty.Value, path string) *facet.Failure {
	fail := func(kind, f string, a ...any) *facet.Failure {
		return facet.Failf("wf/"+kind, "at %q: %s", path, fmt.Sprintf(f, a...))
	}
	if v == cty.NilVal {
		return fail("nil", "NilVal")
	}
	ty := v.Type()
	if spec.FromCty(ty).HasOptional() {
		return fail("optional", "value type carries optional-attribute annotations: %#v", ty)
	}
	if v.IsMarked() {
		u, marks := v.Unmark()
		if len(marks) == 0 {
			return fail("marks", "marked value with empty mark set")
		}
		if u.IsMarked() {
			return fail("marks", "more than one layer of marks")
		}
		v = u
	}
	if v.IsNull() {
		return nil
	}
	if !v.IsKnown() {
		// Range accessors applicable to the type must work
		rng := v.Range()
		_ = rng.TypeConstraint()
		_ = rng.DefinitelyNotNull()
		switch {
		case ty == cty.Number:
			rng.NumberLowerBound()
			rng.NumberUpperBound()
		case ty == cty.String:
			if p := rng.StringPrefix(); p != spec.NFC(p) {
				return fail("nfc", "unknown string prefix %q is not normalized", p)
			}
		case ty.IsCollectionType():
			if rng.LengthLowerBound() > rng.LengthUpperBound() || rng.LengthLowerBound() < 0 {
				return fail("range", "length bounds %d..%d", rng.LengthLowerBound(), rng.LengthUpperBound())
			}
		}
		return nil
	}
	switch {
	case ty == cty.DynamicPseudoType:
		return fail("dynamic", "known non-null value typed with the dynamic placeholder")
	case ty == cty.Bool:
		_ = v.True()
	case ty == cty.Number:
		if v.AsBigFloat() == nil {
			return fail("payload", "nil number")
		}
	case ty == cty.String:
		if s := v.AsString(); s != spec.NFC(s) {
			return fail("nfc", "string %q is not normalized", s)
		}
	case ty.IsCapsuleType():
		_ = v.EncapsulatedValue()
	case ty.IsListType(), ty.IsSetType(), ty.IsMapType(), ty.IsTupleType(), ty.IsObjectType():
		n := v.LengthInt()
		var members []cty.Value
		i := 0
		for it := v.ElementIterator(); it.Next(); i++ {
			k, e := it.Element()
			var want cty.Type
			switch {
			case ty.IsCollectionType():
				want = ty.ElementType()
			case ty.IsTupleType():
				want = ty.TupleElementType(i)
			case ty.IsObjectType():
				want = ty.AttributeType(k.AsString())
			}
			if !e.Type().Equals(want) {
				return fail("elemtype", "member %d has type %#v, declared %#v", i, e.Type(), want)
			}
			if (ty.IsMapType() || ty.IsObjectType()) && k.AsString() != spec.NFC(k.AsString()) {
				return fail("nfc", "key %q is not normalized", k.AsString())
			}
			if ty.IsSetType() && e.ContainsMarked() {
				return fail("setmarks", "set member %d contains marks", i)
			}
			sub := fmt.Sprintf("%s/%d", path, i)
			if f := public(e, sub); f != nil {
				return f
			}
			members = append(members, e)
		}
		if i != n {
			return fail("length", "LengthInt %d but iterated %d members", n, i)
		}
		if ty.IsTupleType() && n != len(ty.TupleElementTypes()) {
			return fail("length", "tuple length mismatch")
		}
		if ty.IsObjectType() && n != len(ty.AttributeTypes()) {
			return fail("length", "object attribute count mismatch")
		}
		if ty.IsSetType() {
			for a := 0; a < len(members); a++ {
				for b := a + 1; b < len(members); b++ {
					eq := members[a].Equals(members[b])
					if eq.IsKnown() && eq.True() {
						return fail("setdup", "set holds two equal members %#v and %#v", members[a], members[b])
					}
					// the same question put to the checker's own structural equality
					// (numbers: identical value and identical text only), so that the
					// answer does not rest on the library's Equals alone
					if members[a].IsWhollyKnown() && members[b].IsWhollyKnown() && model.RefEq(members[a], members[b], strictNumEq) {
						return fail("setdup", "set holds two members that are structurally the same value: %#v and %#v", members[a], members[b])
					}
				}
			}
		}
	default:
		return fail("type", "unsupported type %#v", ty)
	}
	return nil
}
