// Package ops describes the operation methods of cty.Value as data: names,
// a generator of well-typed concrete operand tuples per operation, and Apply,
// which runs one call with panic capture. It is shared by the properties that
// quantify over "all operation methods" (C01 soundness, C04 marks, C06
// well-formedness, C20 purity).
package ops

import (
	"fmt"
	"strconv"

	"github.com/zclconf/go-cty/cty"
	"pgregory.net/rapid"

	"verif/harness/gen"
	"verif/harness/spec"
)

// Case is one call: Op(Args[0], Args[1:]...) or, for GetAttr, Args[0].GetAttr(Attr).
type Case struct {
	Op   string   `json:"op"`
	Args []spec.V `json:"args"`
	Attr string   `json:"attr,omitempty"`
}

// Names of all operation methods covered.
var (
	Arith2  = []string{"Add", "Subtract", "Multiply", "Divide", "Modulo"}
	Arith1  = []string{"Negate", "Absolute"}
	Cmp     = []string{"LessThan", "GreaterThan", "LessThanOrEqualTo", "GreaterThanOrEqualTo"}
	Logic2  = []string{"And", "Or"}
	Logic1  = []string{"Not"}
	Eq      = []string{"Equals", "NotEqual"}
	Indexy  = []string{"Index", "HasIndex"}
	Other   = []string{"HasElement", "Length", "GetAttr"}
	AllOps  = concat(Eq, Arith2, Arith1, Cmp, Logic2, Logic1, Indexy, Other)
	NonNull = map[string]bool{} // ops whose result is never null when operands are wholly known
)

func init() {
	for _, o := range concat(Eq, Arith2, Arith1, Cmp, Logic2, Logic1, []string{"HasIndex", "HasElement", "Length"}) {
		NonNull[o] = true
	}
}

func concat(ss ...[]string) []string {
	var out []string
	for _, s := range ss {
		out = append(out, s...)
	}
	return out
}

// Arity is the number of value operands (including the receiver).
func Arity(op string) int {
	switch op {
	case "Negate", "Absolute", "Not", "Length", "GetAttr":
		return 1
	}
	return 2
}

// Outcome of one call.
type Outcome struct {
	Val      cty.Value
	Panicked bool
	Panic    string
}

// Apply runs the operation on already-built values.
func Apply(op string, args []cty.Value, attr string) (out Outcome) {
	defer func() {
		if r := recover(); r != nil {
			out = Outcome{Panicked: true, Panic: fmt.Sprint(r)}
		}
	}()
	a := args[0]
	var b cty.Value
	if len(args) > 1 {
		b = args[1]
	}
	switch op {
	case "Equals":
		return Outcome{Val: a.Equals(b)}
	case "NotEqual":
		return Outcome{Val: a.NotEqual(b)}
	case "Add":
		return Outcome{Val: a.Add(b)}
	case "Subtract":
		return Outcome{Val: a.Subtract(b)}
	case "Multiply":
		return Outcome{Val: a.Multiply(b)}
	case "Divide":
		return Outcome{Val: a.Divide(b)}
	case "Modulo":
		return Outcome{Val: a.Modulo(b)}
	case "Negate":
		return Outcome{Val: a.Negate()}
	case "Absolute":
		return Outcome{Val: a.Absolute()}
	case "LessThan":
		return Outcome{Val: a.LessThan(b)}
	case "GreaterThan":
		return Outcome{Val: a.GreaterThan(b)}
	case "LessThanOrEqualTo":
		return Outcome{Val: a.LessThanOrEqualTo(b)}
	case "GreaterThanOrEqualTo":
		return Outcome{Val: a.GreaterThanOrEqualTo(b)}
	case "And":
		return Outcome{Val: a.And(b)}
	case "Or":
		return Outcome{Val: a.Or(b)}
	case "Not":
		return Outcome{Val: a.Not()}
	case "Index":
		return Outcome{Val: a.Index(b)}
	case "HasIndex":
		return Outcome{Val: a.HasIndex(b)}
	case "HasElement":
		return Outcome{Val: a.HasElement(b)}
	case "Length":
		return Outcome{Val: a.Length()}
	case "GetAttr":
		return Outcome{Val: a.GetAttr(attr)}
	}
	panic("ops: unknown operation " + op)
}

// Run builds the operands of c and applies the operation. A spec that cannot
// be built (constructor panic) is reported through err.
func Run(c Case) (Outcome, []cty.Value, error) {
	args := make([]cty.Value, len(c.Args))
	for i, a := range c.Args {
		v, err := spec.Build(a)
		if err != nil {
			return Outcome{}, nil, err
		}
		args[i] = v
	}
	return Apply(c.Op, args, c.Attr), args, nil
}

// ---------------------------------------------------------------- generators

var (
	valTypes  = gen.TypeOpts{Depth: 2, Dynamic: true}
	collTypes = gen.TypeOpts{Depth: 1, Dynamic: false}
	concrete  = gen.ValOpts{Null: true, MaxElems: 3, Long: 20}
)

// Concrete draws a well-typed, wholly-known, unmarked operand tuple for op
// (nulls included where they are legal values; whether the operation accepts
// them is for the caller to observe).
func Concrete(op string) *rapid.Generator[Case] {
	return rapid.Custom(func(t *rapid.T) Case { return drawConcrete(t, op) })
}

// AnyConcrete draws an operation uniformly, then operands for it.
func AnyConcrete() *rapid.Generator[Case] {
	return rapid.Custom(func(t *rapid.T) Case {
		return drawConcrete(t, rapid.SampledFrom(AllOps).Draw(t, "op"))
	})
}

func numV(t *rapid.T, label string, allowNull bool) spec.V {
	if allowNull && rapid.IntRange(0, 24).Draw(t, label+"null") == 0 {
		return spec.NullOf(spec.Number)
	}
	return spec.KnownNum(gen.Num(gen.NumOpts{}).Draw(t, label))
}

func boolV(t *rapid.T, label string) spec.V {
	if rapid.IntRange(0, 24).Draw(t, label+"null") == 0 {
		return spec.NullOf(spec.Bool)
	}
	return spec.KnownBool(rapid.Bool().Draw(t, label))
}

func drawConcrete(t *rapid.T, op string) Case {
	c := Case{Op: op}
	switch op {
	case "Add", "Subtract", "Multiply", "Divide", "Modulo", "LessThan", "GreaterThan", "LessThanOrEqualTo", "GreaterThanOrEqualTo":
		a := numV(t, "a", true)
		var b spec.V
		if a.St == spec.Known && rapid.IntRange(0, 5).Draw(t, "samenum") == 0 {
			b = a.Clone() // ties matter for comparisons and bounds
		} else {
			b = numV(t, "b", true)
		}
		c.Args = []spec.V{a, b}
	case "Negate", "Absolute":
		c.Args = []spec.V{numV(t, "a", true)}
	case "And", "Or":
		c.Args = []spec.V{boolV(t, "a"), boolV(t, "b")}
	case "Not":
		c.Args = []spec.V{boolV(t, "a")}
	case "Equals", "NotEqual":
		a := gen.AnyValue(valTypes, concrete).Draw(t, "a")
		var b spec.V
		switch rapid.IntRange(0, 6).Draw(t, "rel") {
		case 0:
			b = gen.AnyValue(valTypes, concrete).Draw(t, "b")
		case 1, 2:
			b = a.Clone()
		case 3:
			b = gen.Value(a.T, concrete).Draw(t, "b") // same type, other content
		case 5:
			// the same numbers spelled through another route: a non-integral
			// float64 and the parse of its shortest decimal text are equal
			// (text-based number equality) but numerically different, which is
			// where a bound placed AT one of them and an order-based test part
			if rapid.Bool().Draw(t, "plainnum") {
				i := rapid.IntRange(-40, 40).Draw(t, "tenths")
				txt := strconv.FormatFloat(float64(i)/10, 'f', 1, 64)
				f, _ := strconv.ParseFloat(txt, 64)
				a = spec.KnownNum(spec.NFloat(f))
			}
			var changed bool
			b, changed = RespellNumbers(a)
			if !changed {
				b = Perturb(t, a)
			}
			if rapid.Bool().Draw(t, "swap") {
				a, b = b, a
			}
		default:
			b = Perturb(t, a)
		}
		c.Args = []spec.V{a, b}
	case "Index", "HasIndex":
		coll := drawIndexable(t)
		c.Args = []spec.V{coll, drawKey(t, coll)}
	case "HasElement":
		et := gen.Type(collTypes).Draw(t, "elemtype")
		set := gen.Value(spec.Set(et), concrete).Draw(t, "set")
		var e spec.V
		switch {
		case set.St == spec.Known && len(set.Elems) > 0 && rapid.IntRange(0, 2).Draw(t, "member") > 0:
			e = set.Elems[rapid.IntRange(0, len(set.Elems)-1).Draw(t, "which")].Clone()
			if rapid.IntRange(0, 3).Draw(t, "perturb") == 0 {
				e = Perturb(t, e)
			}
		case rapid.IntRange(0, 5).Draw(t, "othertype") == 0:
			e = gen.AnyValue(collTypes, concrete).Draw(t, "elem")
		default:
			e = gen.Value(et, concrete).Draw(t, "elem")
		}
		c.Args = []spec.V{set, e}
	case "Length":
		k := rapid.SampledFrom([]string{spec.KList, spec.KMap, spec.KSet, spec.KTuple}).Draw(t, "kind")
		var ty spec.T
		if k == spec.KTuple {
			n := tupleLen(t)
			es := make([]spec.T, n)
			for i := range es {
				es[i] = gen.Type(collTypes).Draw(t, "et")
			}
			ty = spec.Tuple(es...)
		} else {
			e := gen.Type(collTypes).Draw(t, "et")
			ty = spec.T{K: k, E: &e}
		}
		c.Args = []spec.V{gen.Value(ty, concrete).Draw(t, "coll")}
	case "GetAttr":
		names := rapid.Permutation([]string{"a", "b", "id", "\u00e9"}).Draw(t, "attrnames")[:rapid.IntRange(1, 3).Draw(t, "nattrs")]
		ot := spec.T{K: spec.KObject}
		for _, nm := range names {
			ot.Attrs = append(ot.Attrs, spec.Attr{Name: nm, T: gen.Type(gen.TypeOpts{Depth: 1, Dynamic: true}).Draw(t, "attrtype")})
		}
		obj := gen.Value(ot, concrete).Draw(t, "obj")
		c.Args = []spec.V{obj}
		c.Attr = rapid.SampledFrom(ot.Attrs).Draw(t, "attr").Name
	default:
		panic("ops: no generator for " + op)
	}
	return c
}

// tupleLen draws a tuple length: 0..3, one time in twelve a long one.
func tupleLen(t *rapid.T) int {
	if rapid.IntRange(0, 11).Draw(t, "longtuple") == 6 {
		return rapid.SampledFrom(gen.LongSizes[:10]).Draw(t, "longn")
	}
	return rapid.IntRange(0, 3).Draw(t, "n")
}

func drawIndexable(t *rapid.T) spec.V {
	k := rapid.SampledFrom([]string{spec.KList, spec.KMap, spec.KTuple, spec.KList}).Draw(t, "kind")
	var ty spec.T
	switch k {
	case spec.KTuple:
		n := tupleLen(t)
		es := make([]spec.T, n)
		for i := range es {
			es[i] = gen.Type(gen.TypeOpts{Depth: 1, Dynamic: true}).Draw(t, "et")
		}
		ty = spec.Tuple(es...)
	default:
		e := gen.Type(collTypes).Draw(t, "et")
		ty = spec.T{K: k, E: &e}
	}
	return gen.Value(ty, concrete).Draw(t, "coll")
}

func drawKey(t *rapid.T, coll spec.V) spec.V {
	n := len(coll.Elems)
	roll := rapid.IntRange(0, 11).Draw(t, "keyclass")
	if coll.T.K == spec.KMap {
		switch {
		case roll <= 5 && n > 0:
			return spec.KnownStr(coll.Keys[rapid.IntRange(0, n-1).Draw(t, "whichkey")])
		case roll <= 8:
			return spec.KnownStr(rapid.SampledFrom([]string{"a", "b", "zz", "", "é", "é", "missing"}).Draw(t, "key"))
		case roll == 9:
			return spec.NullOf(spec.String)
		default:
			return spec.KnownNum(gen.SmallInt(0, 3).Draw(t, "numkey")) // wrong type
		}
	}
	switch {
	case roll <= 3 && n > 0:
		return spec.KnownNum(gen.SmallInt(0, n-1).Draw(t, "idx"))
	case roll <= 5:
		return spec.KnownNum(gen.SmallInt(-1, n+1).Draw(t, "idx"))
	case roll == 6:
		return spec.KnownNum(spec.NParse(strconv.Itoa(rapid.IntRange(0, n).Draw(t, "idx")) + ".5"))
	case roll == 7:
		return spec.KnownNum(gen.Num(gen.NumOpts{}).Draw(t, "anynum"))
	case roll == 8:
		return spec.NullOf(spec.Number)
	case roll == 9:
		return spec.KnownStr(rapid.SampledFrom([]string{"0", "a", ""}).Draw(t, "strkey")) // wrong type
	default:
		if n > 0 {
			return spec.KnownNum(gen.SmallInt(0, n-1).Draw(t, "idx"))
		}
		return spec.KnownNum(spec.NInt(0))
	}
}

// RespellNumbers returns a copy of v in which every known non-integral number
// is held through the other route with the same shortest decimal text
// (float64 <-> parsed at 512 bits); changed is false when there is none.
func RespellNumbers(v spec.V) (out spec.V, changed bool) {
	out = v.Clone()
	var rec func(x *spec.V)
	rec = func(x *spec.V) {
		if x.St == spec.Known && x.T.K == spec.KNumber && x.N != nil && !x.N.IsInf() {
			f := x.N.Float()
			if !f.IsInf() && !f.IsInt() {
				txt := f.Text('f', -1)
				switch x.N.Route {
				case "float":
					n := spec.NParse(txt)
					x.N = &n
					changed = true
				default:
					if f64, err := strconv.ParseFloat(txt, 64); err == nil && strconv.FormatFloat(f64, 'f', -1, 64) == txt {
						n := spec.NFloat(f64)
						x.N = &n
						changed = true
					}
				}
			}
		}
		for i := range x.Elems {
			rec(&x.Elems[i])
		}
	}
	rec(&out)
	return out, changed
}

// Perturb returns v with exactly one position changed (a leaf altered, a
// member dropped or duplicated, or a null toggled), keeping the type where the
// kind allows it.
func Perturb(t *rapid.T, v spec.V) spec.V {
	out := v.Clone()
	n := countNodes(out)
	target := rapid.IntRange(0, n-1).Draw(t, "perturbpos")
	idx := 0
	var rec func(x *spec.V)
	rec = func(x *spec.V) {
		me := idx
		idx++
		if me == target {
			perturbNode(t, x)
			idx += countNodes(*x) // skip (approximately) the subtree
			return
		}
		for i := range x.Elems {
			rec(&x.Elems[i])
		}
	}
	rec(&out)
	return out.Retype()
}

func countNodes(v spec.V) int {
	n := 1
	for _, e := range v.Elems {
		n += countNodes(e)
	}
	return n
}

func perturbNode(t *rapid.T, x *spec.V) {
	if x.St == spec.Null {
		if x.T.K != spec.KDynamic {
			*x = gen.Value(x.T, gen.ValOpts{RootKnown: true}).Draw(t, "unnull")
		}
		return
	}
	if rapid.IntRange(0, 7).Draw(t, "tonull") == 0 {
		*x = spec.NullOf(x.T)
		return
	}
	switch x.T.K {
	case spec.KBool:
		x.B = !x.B
	case spec.KNumber:
		nn := gen.Num(gen.NumOpts{}).Draw(t, "othernum")
		x.N = &nn
	case spec.KString:
		x.S = x.S + rapid.SampledFrom([]string{"x", "́", " ", "a"}).Draw(t, "suffix")
	case spec.KList, spec.KSet:
		if len(x.Elems) > 0 && rapid.Bool().Draw(t, "drop") {
			x.Elems = x.Elems[:len(x.Elems)-1]
		} else if len(x.Elems) > 0 {
			x.Elems = append(x.Elems, x.Elems[0].Clone())
		} else {
			x.Elems = append(x.Elems, gen.Value(*x.T.E, gen.ValOpts{RootKnown: true}).Draw(t, "newelem"))
		}
	case spec.KMap:
		if len(x.Elems) > 0 {
			x.Elems = x.Elems[:len(x.Elems)-1]
			x.Keys = x.Keys[:len(x.Keys)-1]
		} else {
			x.Keys = []string{"k"}
			x.Elems = []spec.V{gen.Value(*x.T.E, gen.ValOpts{RootKnown: true}).Draw(t, "newelem")}
		}
	case spec.KTuple, spec.KObject:
		if len(x.Elems) > 0 {
			i := rapid.IntRange(0, len(x.Elems)-1).Draw(t, "member")
			perturbNode(t, &x.Elems[i])
		}
	}
}
