// Package spec holds plain, JSON-serialisable specifications of cty types and
// values, and Build functions that turn them into cty values through the
// public constructors only. A spec is the harness's independent model of the
// value it builds (DESIGN.md §2.1).
package spec

import (
	"fmt"
	"math"
	"math/big"
	"reflect"
	"sort"
	"strconv"
	"strings"

	"github.com/zclconf/go-cty/cty"
	"golang.org/x/text/unicode/norm"
)

// ---------------------------------------------------------------- types

// Kinds.
const (
	KBool    = "bool"
	KNumber  = "number"
	KString  = "string"
	KDynamic = "dynamic"
	KList    = "list"
	KSet     = "set"
	KMap     = "map"
	KTuple   = "tuple"
	KObject  = "object"
	KCapsule = "capsule"
)

// T is a type specification.
type T struct {
	K     string `json:"k"`
	E     *T     `json:"e,omitempty"`     // list/set/map element type
	Elems []T    `json:"elems,omitempty"` // tuple element types
	Attrs []Attr `json:"attrs,omitempty"` // object attributes
	Cap   string `json:"cap,omitempty"`   // capsule name: "A" (no ops) or "B" (ops)
}

// Attr is one attribute of an object type specification.
type Attr struct {
	Name string `json:"name"`
	T    T      `json:"t"`
	Opt  bool   `json:"opt,omitempty"`
}

var (
	Bool    = T{K: KBool}
	Number  = T{K: KNumber}
	String  = T{K: KString}
	Dynamic = T{K: KDynamic}
)

func List(e T) T        { return T{K: KList, E: &e} }
func Set(e T) T         { return T{K: KSet, E: &e} }
func Map(e T) T         { return T{K: KMap, E: &e} }
func Tuple(es ...T) T   { return T{K: KTuple, Elems: es} }
func Object(as ...Attr) T { return T{K: KObject, Attrs: as} }
func CapsuleT(name string) T { return T{K: KCapsule, Cap: name} }

// NFC normalises a string independently of cty.
func NFC(s string) string { return norm.NFC.String(s) }

// capsule types used by the harness: A has no ops (identity equality, no hash
// key), B has Equals/RawEquals/HashKey based on the encapsulated int.
type CapPayload struct{ N int }

var (
	CapA = cty.Capsule("capA", reflect.TypeOf(CapPayload{}))
	// CapA2 is a distinct capsule type that has the same name, native type and
	// (absent) operations as CapA: capsule types are equal by identity only.
	CapA2 = cty.Capsule("capA", reflect.TypeOf(CapPayload{}))
	CapB = cty.CapsuleWithOps("capB", reflect.TypeOf(CapPayload{}), &cty.CapsuleOps{
		RawEquals: func(a, b interface{}) bool { return a.(*CapPayload).N == b.(*CapPayload).N },
		HashKey:   func(v interface{}) string { return strconv.Itoa(v.(*CapPayload).N) },
		GoString:  func(v interface{}) string { return fmt.Sprintf("capB(%d)", v.(*CapPayload).N) },
	})
	// CapC converts: to string (fails for odd payloads) and to number (total),
	// and from number (fails outside 0..7). Conversions involving a capsule
	// type's own operations are offered in unsafe mode only.
	CapC = cty.CapsuleWithOps("capC", reflect.TypeOf(CapPayload{}), &cty.CapsuleOps{
		RawEquals: func(a, b interface{}) bool { return a.(*CapPayload).N == b.(*CapPayload).N },
		HashKey:   func(v interface{}) string { return strconv.Itoa(v.(*CapPayload).N) },
		GoString:  func(v interface{}) string { return fmt.Sprintf("capC(%d)", v.(*CapPayload).N) },
		ConversionFrom: func(dst cty.Type) func(interface{}, cty.Path) (cty.Value, error) {
			switch {
			case dst == cty.String:
				return func(raw interface{}, path cty.Path) (cty.Value, error) {
					n := raw.(*CapPayload).N
					if n%2 != 0 {
						return cty.NilVal, path.NewErrorf("capC(%d) has no string form", n)
					}
					return cty.StringVal("c" + strconv.Itoa(n)), nil
				}
			case dst == cty.Number:
				return func(raw interface{}, path cty.Path) (cty.Value, error) {
					return cty.NumberIntVal(int64(raw.(*CapPayload).N)), nil
				}
			}
			return nil
		},
		ConversionTo: func(src cty.Type) func(cty.Value, cty.Path) (interface{}, error) {
			if src != cty.Number {
				return nil
			}
			return func(v cty.Value, path cty.Path) (interface{}, error) {
				f := v.AsBigFloat()
				i, acc := f.Int64()
				if acc != big.Exact || i < 0 || i > 3 {
					return nil, path.NewErrorf("no capC for that number")
				}
				return capPool[i], nil
			}
		},
	})
	capPool [8]*CapPayload
)

func init() {
	for i := range capPool {
		capPool[i] = &CapPayload{N: i % 4} // payloads 0..3 appear twice: equal by ops, distinct by identity
	}
}

// IsColl reports whether t is a list, set or map type.
func (t T) IsColl() bool { return t.K == KList || t.K == KSet || t.K == KMap }

// IsPrim reports whether t is a primitive type.
func (t T) IsPrim() bool { return t.K == KBool || t.K == KNumber || t.K == KString }

// Cty builds the cty type.
func (t T) Cty() cty.Type {
	switch t.K {
	case KBool:
		return cty.Bool
	case KNumber:
		return cty.Number
	case KString:
		return cty.String
	case KDynamic:
		return cty.DynamicPseudoType
	case KList:
		return cty.List(t.E.Cty())
	case KSet:
		return cty.Set(t.E.Cty())
	case KMap:
		return cty.Map(t.E.Cty())
	case KTuple:
		ets := make([]cty.Type, len(t.Elems))
		for i, e := range t.Elems {
			ets[i] = e.Cty()
		}
		return cty.Tuple(ets)
	case KObject:
		m := make(map[string]cty.Type, len(t.Attrs))
		var opt []string
		for _, a := range t.Attrs {
			m[a.Name] = a.T.Cty()
			if a.Opt {
				opt = append(opt, a.Name)
			}
		}
		if len(opt) > 0 {
			return cty.ObjectWithOptionalAttrs(m, opt)
		}
		return cty.Object(m)
	case KCapsule:
		switch t.Cap {
		case "B":
			return CapB
		case "A2":
			return CapA2
		case "C":
			return CapC
		}
		return CapA
	}
	panic("spec: bad type kind " + t.K)
}

// SortedAttrs returns the attributes sorted by normalised name.
func (t T) SortedAttrs() []Attr {
	as := make([]Attr, len(t.Attrs))
	copy(as, t.Attrs)
	for i := range as {
		as[i].Name = NFC(as[i].Name)
	}
	sort.Slice(as, func(i, j int) bool { return as[i].Name < as[j].Name })
	return as
}

// Equal is the model's structural type equality (optional markers count).
func (t T) Equal(o T) bool { return t.equal(o, true) }

// EqualIgnoringOptional is structural equality disregarding optional markers.
func (t T) EqualIgnoringOptional(o T) bool { return t.equal(o, false) }

func (t T) equal(o T, opt bool) bool {
	if t.K != o.K {
		return false
	}
	switch t.K {
	case KList, KSet, KMap:
		return t.E.equal(*o.E, opt)
	case KTuple:
		if len(t.Elems) != len(o.Elems) {
			return false
		}
		for i := range t.Elems {
			if !t.Elems[i].equal(o.Elems[i], opt) {
				return false
			}
		}
		return true
	case KObject:
		if len(t.Attrs) != len(o.Attrs) {
			return false
		}
		a, b := t.SortedAttrs(), o.SortedAttrs()
		for i := range a {
			if a[i].Name != b[i].Name || (opt && a[i].Opt != b[i].Opt) || !a[i].T.equal(b[i].T, opt) {
				return false
			}
		}
		return true
	case KCapsule:
		return t.Cap == o.Cap
	}
	return true
}

// Conforms is the model of Type.TestConformance: t conforms to constraint c
// when they are equal, disregarding optional markers, after each dynamic
// placeholder in c is replaced by the corresponding part of t.
func (t T) Conforms(c T) bool {
	if c.K == KDynamic {
		return true
	}
	if t.K != c.K {
		return false
	}
	switch t.K {
	case KList, KSet, KMap:
		return t.E.Conforms(*c.E)
	case KTuple:
		if len(t.Elems) != len(c.Elems) {
			return false
		}
		for i := range t.Elems {
			if !t.Elems[i].Conforms(c.Elems[i]) {
				return false
			}
		}
		return true
	case KObject:
		if len(t.Attrs) != len(c.Attrs) {
			return false
		}
		a, b := t.SortedAttrs(), c.SortedAttrs()
		for i := range a {
			if a[i].Name != b[i].Name || !a[i].T.Conforms(b[i].T) {
				return false
			}
		}
		return true
	case KCapsule:
		return t.Cap == c.Cap
	}
	return true
}

// HasDynamic reports whether a dynamic placeholder occurs anywhere in t.
func (t T) HasDynamic() bool {
	switch t.K {
	case KDynamic:
		return true
	case KList, KSet, KMap:
		return t.E.HasDynamic()
	case KTuple:
		for _, e := range t.Elems {
			if e.HasDynamic() {
				return true
			}
		}
	case KObject:
		for _, a := range t.Attrs {
			if a.T.HasDynamic() {
				return true
			}
		}
	}
	return false
}

// HasOptional reports whether any object type inside t has an optional attribute.
func (t T) HasOptional() bool {
	switch t.K {
	case KList, KSet, KMap:
		return t.E.HasOptional()
	case KTuple:
		for _, e := range t.Elems {
			if e.HasOptional() {
				return true
			}
		}
	case KObject:
		for _, a := range t.Attrs {
			if a.Opt || a.T.HasOptional() {
				return true
			}
		}
	}
	return false
}

// HasCapsule reports whether a capsule type occurs anywhere in t.
func (t T) HasCapsule() bool {
	switch t.K {
	case KCapsule:
		return true
	case KList, KSet, KMap:
		return t.E.HasCapsule()
	case KTuple:
		for _, e := range t.Elems {
			if e.HasCapsule() {
				return true
			}
		}
	case KObject:
		for _, a := range t.Attrs {
			if a.T.HasCapsule() {
				return true
			}
		}
	}
	return false
}

// StripOptional returns t with every optional marker removed.
func (t T) StripOptional() T {
	switch t.K {
	case KList, KSet, KMap:
		e := t.E.StripOptional()
		return T{K: t.K, E: &e}
	case KTuple:
		es := make([]T, len(t.Elems))
		for i, e := range t.Elems {
			es[i] = e.StripOptional()
		}
		return T{K: KTuple, Elems: es}
	case KObject:
		as := make([]Attr, len(t.Attrs))
		for i, a := range t.Attrs {
			as[i] = Attr{Name: a.Name, T: a.T.StripOptional()}
		}
		return T{K: KObject, Attrs: as}
	}
	return t
}

// Depth is the nesting depth of the type (primitives = 0).
func (t T) Depth() int {
	d := 0
	switch t.K {
	case KList, KSet, KMap:
		d = 1 + t.E.Depth()
	case KTuple:
		for _, e := range t.Elems {
			if x := 1 + e.Depth(); x > d {
				d = x
			}
		}
		if d == 0 {
			d = 1
		}
	case KObject:
		for _, a := range t.Attrs {
			if x := 1 + a.T.Depth(); x > d {
				d = x
			}
		}
		if d == 0 {
			d = 1
		}
	}
	return d
}

func (t T) String() string {
	switch t.K {
	case KList, KSet, KMap:
		return t.K + "(" + t.E.String() + ")"
	case KTuple:
		ss := make([]string, len(t.Elems))
		for i, e := range t.Elems {
			ss[i] = e.String()
		}
		return "tuple[" + strings.Join(ss, ",") + "]"
	case KObject:
		ss := make([]string, len(t.Attrs))
		for i, a := range t.Attrs {
			o := ""
			if a.Opt {
				o = "?"
			}
			ss[i] = fmt.Sprintf("%q%s:%s", a.Name, o, a.T.String())
		}
		return "object{" + strings.Join(ss, ",") + "}"
	case KCapsule:
		return "capsule" + t.Cap
	}
	return t.K
}

// FromCty converts a cty type back to a spec (capsules map to A/B by identity).
func FromCty(ty cty.Type) T {
	switch {
	case ty == cty.Bool:
		return Bool
	case ty == cty.Number:
		return Number
	case ty == cty.String:
		return String
	case ty == cty.DynamicPseudoType:
		return Dynamic
	case ty.IsListType():
		return List(FromCty(ty.ElementType()))
	case ty.IsSetType():
		return Set(FromCty(ty.ElementType()))
	case ty.IsMapType():
		return Map(FromCty(ty.ElementType()))
	case ty.IsTupleType():
		ets := ty.TupleElementTypes()
		es := make([]T, len(ets))
		for i, e := range ets {
			es[i] = FromCty(e)
		}
		return T{K: KTuple, Elems: es}
	case ty.IsObjectType():
		atys := ty.AttributeTypes()
		names := make([]string, 0, len(atys))
		for n := range atys {
			names = append(names, n)
		}
		sort.Strings(names)
		as := make([]Attr, len(names))
		for i, n := range names {
			as[i] = Attr{Name: n, T: FromCty(atys[n]), Opt: ty.AttributeOptional(n)}
		}
		return T{K: KObject, Attrs: as}
	case ty.IsCapsuleType():
		// identity, not Type.Equals: the model must not depend on the
		// equality under test
		if ty == CapB {
			return CapsuleT("B")
		}
		if ty == CapA {
			return CapsuleT("A")
		}
		if ty == CapA2 {
			return CapsuleT("A2")
		}
		if ty == CapC {
			return CapsuleT("C")
		}
		return CapsuleT("?" + ty.FriendlyName())
	}
	panic(fmt.Sprintf("spec.FromCty: unsupported type %#v", ty))
}

// ---------------------------------------------------------------- numbers

// Num is a number specification: how the number is constructed.
type Num struct {
	// Route: "parse" (cty.ParseNumberVal(Text)), "int" (NumberIntVal),
	// "uint" (NumberUIntVal), "float" (NumberFloatVal(strconv.ParseFloat(Text))),
	// "big" (NumberVal(big.Float of precision Prec parsed from Text)),
	// "pow2" (NumberVal of m * 2^e exactly, Text "m:e", precision Prec or 53),
	// "+inf", "-inf", "zero" (cty.Zero), "negzero" (NumberFloatVal(-0.0)).
	Route string `json:"route"`
	Text  string `json:"text,omitempty"`
	Prec  uint   `json:"prec,omitempty"`
}

func NInt(i int64) Num     { return Num{Route: "int", Text: strconv.FormatInt(i, 10)} }
func NParse(s string) Num  { return Num{Route: "parse", Text: s} }
func NFloat(f float64) Num { return Num{Route: "float", Text: strconv.FormatFloat(f, 'g', -1, 64)} }

// Float builds the big.Float the harness expects the cty number to hold,
// without going through cty.
func (n Num) Float() *big.Float {
	switch n.Route {
	case "parse":
		f, _, err := big.ParseFloat(n.Text, 10, 512, big.ToNearestEven)
		if err != nil {
			panic("spec: bad parse number " + n.Text)
		}
		return f
	case "int":
		i, err := strconv.ParseInt(n.Text, 10, 64)
		if err != nil {
			panic("spec: bad int number " + n.Text)
		}
		return new(big.Float).SetInt64(i)
	case "uint":
		i, err := strconv.ParseUint(n.Text, 10, 64)
		if err != nil {
			panic("spec: bad uint number " + n.Text)
		}
		return new(big.Float).SetUint64(i)
	case "float":
		f, err := strconv.ParseFloat(n.Text, 64)
		if err != nil || math.IsNaN(f) {
			panic("spec: bad float number " + n.Text)
		}
		return new(big.Float).SetFloat64(f)
	case "big":
		f, _, err := big.ParseFloat(n.Text, 10, n.Prec, big.ToNearestEven)
		if err != nil {
			panic("spec: bad big number " + n.Text)
		}
		return f
	case "pow2":
		// Text "m:e" = m * 2^e exactly, held at precision Prec (default 53):
		// numbers of few significant bits at exponents a float64 cannot hold
		var m int64
		var e int
		if _, err := fmt.Sscanf(n.Text, "%d:%d", &m, &e); err != nil {
			panic("spec: bad pow2 number " + n.Text)
		}
		p := n.Prec
		if p == 0 {
			p = 53
		}
		return new(big.Float).SetPrec(p).SetMantExp(new(big.Float).SetPrec(p).SetInt64(m), e)
	case "+inf":
		return new(big.Float).SetInf(false)
	case "-inf":
		return new(big.Float).SetInf(true)
	case "zero":
		return big.NewFloat(0)
	case "negzero":
		return new(big.Float).SetFloat64(math.Copysign(0, -1))
	}
	panic("spec: bad number route " + n.Route)
}

// Cty builds the number through the corresponding public constructor.
func (n Num) Cty() cty.Value {
	switch n.Route {
	case "parse":
		return cty.MustParseNumberVal(n.Text)
	case "int":
		i, _ := strconv.ParseInt(n.Text, 10, 64)
		return cty.NumberIntVal(i)
	case "uint":
		i, _ := strconv.ParseUint(n.Text, 10, 64)
		return cty.NumberUIntVal(i)
	case "float":
		f, _ := strconv.ParseFloat(n.Text, 64)
		return cty.NumberFloatVal(f)
	case "big", "pow2":
		return cty.NumberVal(n.Float())
	case "+inf":
		return cty.PositiveInfinity
	case "-inf":
		return cty.NegativeInfinity
	case "zero":
		return cty.Zero
	case "negzero":
		return cty.NumberFloatVal(math.Copysign(0, -1))
	}
	panic("spec: bad number route " + n.Route)
}

func (n Num) IsInf() bool { return n.Route == "+inf" || n.Route == "-inf" }

func (n Num) String() string {
	if n.Text == "" {
		return n.Route
	}
	if n.Route == "big" {
		return fmt.Sprintf("big%d:%s", n.Prec, n.Text)
	}
	return n.Route + ":" + n.Text
}

// ---------------------------------------------------------------- values

// States.
const (
	Known   = "known"
	Null    = "null"
	Unknown = "unknown"
)

// Mark is the Go type of the marks the harness puts on values.
type Mark string

// Ref is a refinement specification for an unknown value.
type Ref struct {
	Null       string  `json:"null,omitempty"` // "", "notnull", "null"
	Lo         *Num    `json:"lo,omitempty"`
	LoInc      bool    `json:"loinc,omitempty"`
	Hi         *Num    `json:"hi,omitempty"`
	HiInc      bool    `json:"hiinc,omitempty"`
	Prefix     *string `json:"prefix,omitempty"`
	PrefixFull bool    `json:"prefixfull,omitempty"`
	MinLen     *int    `json:"minlen,omitempty"`
	MaxLen     *int    `json:"maxlen,omitempty"`
}

// V is a value specification.
type V struct {
	T     T        `json:"t"`
	St    string   `json:"st"`
	B     bool     `json:"b,omitempty"`
	N     *Num     `json:"n,omitempty"`
	S     string   `json:"s,omitempty"`
	Elems []V      `json:"elems,omitempty"` // list/set/tuple members; map/object values (aligned with Keys)
	Keys  []string `json:"keys,omitempty"`  // map keys / object attribute names
	Cap   int      `json:"cap,omitempty"`   // capsule payload index
	Ref   *Ref     `json:"ref,omitempty"`
	Marks []string `json:"marks,omitempty"`
}

func KnownBool(b bool) V     { return V{T: Bool, St: Known, B: b} }
func KnownNum(n Num) V       { return V{T: Number, St: Known, N: &n} }
func KnownStr(s string) V    { return V{T: String, St: Known, S: s} }
func NullOf(t T) V           { return V{T: t, St: Null} }
func UnknownOf(t T) V        { return V{T: t, St: Unknown} }
func DynamicVal() V          { return V{T: Dynamic, St: Unknown} }

// Retype recomputes the T of known tuples and objects (whose type follows
// from their members) bottom-up, and returns the corrected value. Collection
// element types are kept.
func (v V) Retype() V {
	if v.St != Known {
		return v
	}
	switch v.T.K {
	case KTuple:
		es := make([]V, len(v.Elems))
		ts := make([]T, len(v.Elems))
		for i, e := range v.Elems {
			es[i] = e.Retype()
			ts[i] = es[i].T
		}
		v.Elems = es
		v.T = T{K: KTuple, Elems: ts}
	case KObject:
		es := make([]V, len(v.Elems))
		as := make([]Attr, len(v.Elems))
		for i, e := range v.Elems {
			es[i] = e.Retype()
			as[i] = Attr{Name: v.Keys[i], T: es[i].T}
		}
		v.Elems = es
		v.T = T{K: KObject, Attrs: as}
	case KList, KSet, KMap:
		es := make([]V, len(v.Elems))
		for i, e := range v.Elems {
			es[i] = e.Retype()
		}
		v.Elems = es
		if len(es) > 0 {
			// element type follows the first member with a non-dynamic type
			for _, e := range es {
				if e.T.K != KDynamic {
					et := e.T
					v.T = T{K: v.T.K, E: &et}
					break
				}
			}
		}
	}
	return v
}

// Build turns a value specification into a cty value via public constructors.
// Inconsistent specs make the constructors panic; Build recovers and returns
// the panic as an error.
func Build(v V) (ret cty.Value, err error) {
	defer func() {
		if r := recover(); r != nil {
			err = fmt.Errorf("spec.Build panic: %v", r)
		}
	}()
	return build(v), nil
}

// MustBuild is Build that panics on error.
func MustBuild(v V) cty.Value {
	r, err := Build(v)
	if err != nil {
		panic(err)
	}
	return r
}

func build(v V) cty.Value {
	var ret cty.Value
	switch v.St {
	case Null:
		ret = cty.NullVal(v.T.Cty())
	case Unknown:
		ret = buildUnknown(v)
	case Known:
		switch v.T.K {
		case KBool:
			ret = cty.BoolVal(v.B)
		case KNumber:
			ret = v.N.Cty()
		case KString:
			ret = cty.StringVal(v.S)
		case KList:
			if len(v.Elems) == 0 {
				ret = cty.ListValEmpty(v.T.E.Cty())
			} else {
				ret = cty.ListVal(buildAll(v.Elems))
			}
		case KSet:
			if len(v.Elems) == 0 {
				ret = cty.SetValEmpty(v.T.E.Cty())
			} else {
				ret = cty.SetVal(buildAll(v.Elems))
			}
		case KMap:
			if len(v.Elems) == 0 {
				ret = cty.MapValEmpty(v.T.E.Cty())
			} else {
				ret = cty.MapVal(buildMap(v))
			}
		case KTuple:
			ret = cty.TupleVal(buildAll(v.Elems))
		case KObject:
			ret = cty.ObjectVal(buildMap(v))
		case KCapsule:
			ret = cty.CapsuleVal(v.T.Cty(), capPool[v.Cap%len(capPool)])
		default:
			panic("spec: cannot build known value of kind " + v.T.K)
		}
	default:
		panic("spec: bad state " + v.St)
	}
	for _, m := range v.Marks {
		ret = ret.Mark(Mark(m))
	}
	return ret
}

func buildAll(vs []V) []cty.Value {
	out := make([]cty.Value, len(vs))
	for i, e := range vs {
		out[i] = build(e)
	}
	return out
}

func buildMap(v V) map[string]cty.Value {
	m := make(map[string]cty.Value, len(v.Elems))
	for i, e := range v.Elems {
		m[v.Keys[i]] = build(e)
	}
	return m
}

func buildUnknown(v V) cty.Value {
	ret := cty.UnknownVal(v.T.Cty())
	r := v.Ref
	if r == nil || v.T.K == KDynamic {
		return ret
	}
	b := ret.Refine()
	ApplyRef(b, r)
	return b.NewValue()
}

// ApplyRef replays a refinement spec on a builder.
func ApplyRef(b *cty.RefinementBuilder, r *Ref) {
	switch r.Null {
	case "notnull":
		b.NotNull()
	case "null":
		b.Null()
	}
	if r.Lo != nil {
		b.NumberRangeLowerBound(r.Lo.Cty(), r.LoInc)
	}
	if r.Hi != nil {
		b.NumberRangeUpperBound(r.Hi.Cty(), r.HiInc)
	}
	if r.Prefix != nil {
		if r.PrefixFull {
			b.StringPrefixFull(*r.Prefix)
		} else {
			b.StringPrefix(*r.Prefix)
		}
	}
	if r.MinLen != nil {
		b.CollectionLengthLowerBound(*r.MinLen)
	}
	if r.MaxLen != nil {
		b.CollectionLengthUpperBound(*r.MaxLen)
	}
}

// ---------------------------------------------------------------- queries on value specs

// WhollyKnown reports whether the spec has no unknown part.
func (v V) WhollyKnown() bool {
	if v.St == Unknown {
		return false
	}
	for _, e := range v.Elems {
		if !e.WhollyKnown() {
			return false
		}
	}
	return true
}

// HasMarks reports whether any mark occurs anywhere in the spec.
func (v V) HasMarks() bool {
	if len(v.Marks) > 0 {
		return true
	}
	for _, e := range v.Elems {
		if e.HasMarks() {
			return true
		}
	}
	return false
}

// DeepMarks returns the set of all marks anywhere in the spec.
func (v V) DeepMarks() map[string]bool {
	m := map[string]bool{}
	v.collectMarks(m)
	return m
}

func (v V) collectMarks(m map[string]bool) {
	for _, k := range v.Marks {
		m[k] = true
	}
	for _, e := range v.Elems {
		e.collectMarks(m)
	}
}

// StripMarks returns a copy of the spec with every mark removed.
func (v V) StripMarks() V {
	v.Marks = nil
	if len(v.Elems) > 0 {
		es := make([]V, len(v.Elems))
		for i, e := range v.Elems {
			es[i] = e.StripMarks()
		}
		v.Elems = es
	}
	return v
}

// HasNullInside reports whether any null occurs anywhere (including the root).
func (v V) HasNullInside() bool {
	if v.St == Null {
		return true
	}
	for _, e := range v.Elems {
		if e.HasNullInside() {
			return true
		}
	}
	return false
}

// Depth is the nesting depth of the value spec.
func (v V) Depth() int {
	d := 0
	for _, e := range v.Elems {
		if x := 1 + e.Depth(); x > d {
			d = x
		}
	}
	return d
}

// Clone deep-copies the value spec.
func (v V) Clone() V {
	if v.N != nil {
		n := *v.N
		v.N = &n
	}
	if v.Ref != nil {
		r := *v.Ref
		v.Ref = &r
	}
	if v.Elems != nil {
		es := make([]V, len(v.Elems))
		for i, e := range v.Elems {
			es[i] = e.Clone()
		}
		v.Elems = es
	}
	if v.Keys != nil {
		v.Keys = append([]string(nil), v.Keys...)
	}
	if v.Marks != nil {
		v.Marks = append([]string(nil), v.Marks...)
	}
	return v
}
