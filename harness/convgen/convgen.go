// Package convgen generates (value, target type) pairs for the conversion
// family of properties (C08, C09; reusable by C04 marks and C06
// well-formedness). The target is either unrelated to the value's type, equal
// to it, or the value's type after 1..3 edits: list<->set<->tuple,
// map<->object, primitive element conversions, dropped attributes, added
// (nested) optional attributes, optional markers on existing attributes,
// dynamic placeholders inserted anywhere, tuple length changes.
//
// Everything is drawn as specs (package spec), so a Case is JSON-serialisable
// and replays without rapid.
package convgen

import (
	"fmt"
	"sort"

	"github.com/zclconf/go-cty/cty"
	"pgregory.net/rapid"

	"verif/harness/gen"
	"verif/harness/spec"
)

// Case is one conversion request: the value specification, the target type
// specification and the labels of the edits that derived the target from the
// value's type ("unrelated" / "same" for the two non-edit modes).
type Case struct {
	V      spec.V   `json:"v"`
	Target spec.T   `json:"target"`
	Edits  []string `json:"edits"`
}

// Opts controls Pair.
type Opts struct {
	// Type controls the source type generator; the zero value means depth 2
	// with dynamic placeholders allowed. Optional is always forced off for the
	// source (optional-attribute types are conversion targets only).
	Type gen.TypeOpts
	// Val controls the value generator.
	Val gen.ValOpts
	// MaxEdits bounds the number of edits (default 3).
	MaxEdits int
	// NoOptional forbids edits that introduce optional attributes.
	NoOptional bool
	// NoDynamic forbids edits that introduce dynamic placeholders.
	NoDynamic bool
	// NoUnrelated forbids the "unrelated target" mode and the "replace" edit.
	NoUnrelated bool
	// SafeBias prefers edits for which a safe conversion is expected to exist
	// (tuple->list/set, object->map, set->list, number/bool->string, dropped
	// attributes, added optional attributes).
	SafeBias bool
	// Only, when non-empty, restricts the edit operations to the named ones
	// (e.g. {"dyn"}); a node to which none of them applies is left unchanged
	// (label "noop").
	Only []string
	// SameShare is the percentage of cases whose target is the value's own
	// type (possibly with optional markers on existing attributes); default 5.
	SameShare int
}

func (o Opts) norm() Opts {
	if o.Type.Depth == 0 && !o.Type.Dynamic && !o.Type.Capsule {
		o.Type = gen.TypeOpts{Depth: 2, Dynamic: true, Long: 12}
	}
	o.Type.Optional = false
	if o.MaxEdits == 0 {
		o.MaxEdits = 3
	}
	if o.SameShare == 0 {
		o.SameShare = 5
	}
	return o
}

// Pair draws a Case.
func Pair(o Opts) *rapid.Generator[Case] {
	o = o.norm()
	return rapid.Custom(func(t *rapid.T) Case {
		if !o.NoDynamic && len(o.Only) == 0 && o.SameShare < 100 && rapid.IntRange(0, 15).Draw(t, "composedshape") == 0 {
			return Composed(t)
		}
		ty := gen.Type(o.Type).Draw(t, "srctype")
		v := gen.Value(ty, o.Val).Draw(t, "value")
		return Derive(t, v, o)
	})
}

// Derive draws a target for an existing value specification.
func Derive(t *rapid.T, v spec.V, o Opts) Case {
	o = o.norm()
	// rapid's integer ranges are biased towards small values, so the mode is
	// drawn from an explicit pool of 20 slots with "edit" first.
	sameSlots := o.SameShare / 5
	if sameSlots < 1 {
		sameSlots = 1
	}
	var pool []string
	if o.SameShare >= 100 {
		pool = []string{"same"}
	} else {
		unrelatedSlots := 2
		if o.NoUnrelated {
			unrelatedSlots = 0
		}
		for i := 0; i < 20-sameSlots-unrelatedSlots; i++ {
			pool = append(pool, "edit")
		}
		for i := 0; i < unrelatedSlots; i++ {
			pool = append(pool, "unrelated")
		}
		for i := 0; i < sameSlots; i++ {
			pool = append(pool, "same")
		}
	}
	switch rapid.SampledFrom(pool).Draw(t, "targetmode") {
	case "same":
		tgt := v.T
		labels := []string{"same"}
		if !o.NoOptional && rapid.Bool().Draw(t, "optmarkers") {
			tgt = markOptional(t, tgt)
			if tgt.HasOptional() {
				labels = append(labels, "optexisting")
			}
		}
		return Case{V: v, Target: tgt, Edits: labels}
	case "unrelated":
		to := gen.TypeOpts{Depth: 2, Dynamic: !o.NoDynamic, Optional: !o.NoOptional, Capsule: o.Type.Capsule}
		return Case{V: v, Target: gen.Type(to).Draw(t, "unrelated"), Edits: []string{"unrelated"}}
	}
	tgt, labels := EditType(t, v.T, []spec.V{v}, o)
	return Case{V: v, Target: tgt, Edits: labels}
}

// Apply builds the cty value and target type of a case. It panics when the
// value specification is inconsistent (use spec.Build to probe first).
func Apply(c Case) (in cty.Value, target cty.Type) {
	return spec.MustBuild(c.V), c.Target.Cty()
}

// EditType applies 1..MaxEdits random edits to ty. vals are value specs of
// type ty (may be nil); they are used to pick attribute names that really
// occur as map keys and tuple lengths that match list lengths.
func EditType(t *rapid.T, ty spec.T, vals []spec.V, o Opts) (spec.T, []string) {
	o = o.norm()
	n := rapid.IntRange(1, o.MaxEdits).Draw(t, "nedits")
	cur := ty
	var labels []string
	for i := 0; i < n; i++ {
		next, l := editOnce(t, cur, vals, o)
		cur = next
		labels = append(labels, l)
	}
	return cur, labels
}

// ---------------------------------------------------------------- one edit

type step struct {
	kind string // "e" (collection element), "i" (tuple index), "a" (attribute)
	idx  int
	name string
}

type node struct {
	path []step
	t    spec.T
}

func nodes(ty spec.T) []node {
	var out []node
	var rec func(x spec.T, p []step)
	rec = func(x spec.T, p []step) {
		out = append(out, node{path: append([]step(nil), p...), t: x})
		switch x.K {
		case spec.KList, spec.KSet, spec.KMap:
			rec(*x.E, append(p, step{kind: "e"}))
		case spec.KTuple:
			for i, e := range x.Elems {
				rec(e, append(p, step{kind: "i", idx: i}))
			}
		case spec.KObject:
			for _, a := range x.Attrs {
				rec(a.T, append(p, step{kind: "a", name: a.Name}))
			}
		}
	}
	rec(ty, nil)
	return out
}

// valuesAt collects the value specs found at the given type path inside vals
// (descending through every member of collections). Nodes whose shape does not
// match the path (after earlier edits) are dropped.
func valuesAt(vals []spec.V, path []step) []spec.V {
	cur := vals
	for _, s := range path {
		var next []spec.V
		for _, v := range cur {
			if v.St != spec.Known {
				continue
			}
			switch s.kind {
			case "e":
				if v.T.IsColl() {
					next = append(next, v.Elems...)
				}
			case "i":
				if v.T.K == spec.KTuple && s.idx < len(v.Elems) {
					next = append(next, v.Elems[s.idx])
				}
			case "a":
				if v.T.K == spec.KObject {
					for i, k := range v.Keys {
						if spec.NFC(k) == spec.NFC(s.name) && i < len(v.Elems) {
							next = append(next, v.Elems[i])
						}
					}
				}
			}
		}
		cur = next
	}
	return cur
}

func replaceAt(ty spec.T, path []step, repl spec.T) spec.T {
	if len(path) == 0 {
		return repl
	}
	s := path[0]
	switch s.kind {
	case "e":
		e := replaceAt(*ty.E, path[1:], repl)
		return spec.T{K: ty.K, E: &e}
	case "i":
		es := append([]spec.T(nil), ty.Elems...)
		es[s.idx] = replaceAt(es[s.idx], path[1:], repl)
		return spec.T{K: spec.KTuple, Elems: es}
	case "a":
		as := append([]spec.Attr(nil), ty.Attrs...)
		for i := range as {
			if as[i].Name == s.name {
				as[i].T = replaceAt(as[i].T, path[1:], repl)
			}
		}
		return spec.T{K: spec.KObject, Attrs: as}
	}
	panic("convgen: bad path step")
}

type op struct {
	name string
	w    int
}

func pickOp(t *rapid.T, ops []op) string {
	var pool []string
	for _, o := range ops {
		for i := 0; i < o.w; i++ {
			pool = append(pool, o.name)
		}
	}
	return rapid.SampledFrom(pool).Draw(t, "editop")
}

func editOnce(t *rapid.T, ty spec.T, vals []spec.V, o Opts) (spec.T, string) {
	ns := nodes(ty)
	// bias towards container nodes: most nodes are leaves
	var conts []int
	for i, n := range ns {
		if !n.t.IsPrim() && n.t.K != spec.KDynamic && n.t.K != spec.KCapsule {
			conts = append(conts, i)
		}
	}
	idx := rapid.IntRange(0, len(ns)-1).Draw(t, "editpos")
	if len(conts) > 0 && rapid.IntRange(0, 2).Draw(t, "editcontainer") > 0 {
		idx = rapid.SampledFrom(conts).Draw(t, "editcpos")
	}
	n := ns[idx]
	here := valuesAt(vals, n.path)
	repl, label := editNode(t, n.t, here, o)
	return replaceAt(ty, n.path, repl), label
}

// generalise returns an element type that every given type is likely to
// convert to safely: the common type if all are equal, string if all are
// primitive, otherwise the first.
func generalise(ts []spec.T) spec.T {
	if len(ts) == 0 {
		return spec.String
	}
	same, prim := true, true
	for _, x := range ts {
		if !x.Equal(ts[0]) {
			same = false
		}
		if !x.IsPrim() {
			prim = false
		}
	}
	switch {
	case same:
		return ts[0]
	case prim:
		return spec.String
	}
	return ts[0]
}

func elemChoice(t *rapid.T, ts []spec.T, o Opts) spec.T {
	if o.SafeBias {
		if rapid.IntRange(0, 4).Draw(t, "elemgeneral") > 0 {
			return generalise(ts)
		}
	}
	cands := []spec.T{generalise(ts), spec.String}
	if len(ts) > 0 {
		cands = append(cands, ts[0], ts[len(ts)-1])
	}
	if !o.NoDynamic {
		cands = append(cands, spec.Dynamic, spec.Dynamic)
	}
	return rapid.SampledFrom(cands).Draw(t, "elemtype")
}

func attrTypes(x spec.T) []spec.T {
	ts := make([]spec.T, len(x.Attrs))
	for i, a := range x.Attrs {
		ts[i] = a.T
	}
	return ts
}

var extraAttrNames = []string{"q", "zz", "opt", "a", "b"}

func freshAttrName(t *rapid.T, x spec.T) string {
	have := map[string]bool{}
	for _, a := range x.Attrs {
		have[spec.NFC(a.Name)] = true
	}
	var free []string
	for _, n := range extraAttrNames {
		if !have[n] {
			free = append(free, n)
		}
	}
	if len(free) == 0 {
		return fmt.Sprintf("n%d", len(x.Attrs))
	}
	return rapid.SampledFrom(free).Draw(t, "newattr")
}

func markOptional(t *rapid.T, ty spec.T) spec.T {
	switch ty.K {
	case spec.KList, spec.KSet, spec.KMap:
		e := markOptional(t, *ty.E)
		return spec.T{K: ty.K, E: &e}
	case spec.KTuple:
		es := make([]spec.T, len(ty.Elems))
		for i, e := range ty.Elems {
			es[i] = markOptional(t, e)
		}
		return spec.T{K: spec.KTuple, Elems: es}
	case spec.KObject:
		as := make([]spec.Attr, len(ty.Attrs))
		for i, a := range ty.Attrs {
			as[i] = spec.Attr{Name: a.Name, T: markOptional(t, a.T), Opt: a.Opt || rapid.IntRange(0, 2).Draw(t, "markopt") == 0}
		}
		return spec.T{K: spec.KObject, Attrs: as}
	}
	return ty
}

func editNode(t *rapid.T, x spec.T, here []spec.V, o Opts) (spec.T, string) {
	var ops []op
	add := func(name string, w int) { ops = append(ops, op{name, w}) }
	safeW := func(safe bool, w int) int {
		// under SafeBias, edits without an expected safe conversion get weight 1
		if o.SafeBias && !safe {
			return 1
		}
		if o.SafeBias {
			return w * 4
		}
		return w
	}
	switch x.K {
	case spec.KList:
		add("list>set", safeW(false, 3))
		add("list>tuple", safeW(false, 2))
	case spec.KSet:
		add("set>list", safeW(true, 3))
		add("set>tuple", safeW(false, 1))
	case spec.KMap:
		add("map>object", safeW(false, 4))
	case spec.KTuple:
		add("tuple>list", safeW(true, 4))
		add("tuple>set", safeW(true, 3))
		add("tuplelen", safeW(false, 1))
	case spec.KObject:
		add("object>map", safeW(true, 4))
		if len(x.Attrs) > 0 {
			add("dropattr", safeW(true, 3))
			if !o.NoOptional {
				add("optexisting", safeW(true, 2))
			}
		}
		if !o.NoOptional {
			add("addopt", safeW(true, 4))
		}
		add("addreq", safeW(false, 1))
	case spec.KBool:
		add("bool>string", safeW(true, 4))
	case spec.KNumber:
		add("number>string", safeW(true, 4))
		add("number>bool", safeW(false, 1))
	case spec.KString:
		add("string>number", safeW(false, 3))
		add("string>bool", safeW(false, 3))
	}
	if !o.NoDynamic && x.K != spec.KDynamic {
		add("dyn", safeW(false, 2))
	}
	if !o.NoUnrelated || len(ops) == 0 {
		add("replace", 1)
	}
	if len(o.Only) > 0 {
		var kept []op
		for _, p := range ops {
			for _, n := range o.Only {
				if p.name == n {
					kept = append(kept, p)
				}
			}
		}
		if len(kept) == 0 {
			return x, "noop"
		}
		ops = kept
	}
	switch name := pickOp(t, ops); name {
	case "list>set":
		return spec.T{K: spec.KSet, E: x.E}, name
	case "set>list":
		return spec.T{K: spec.KList, E: x.E}, name
	case "list>tuple", "set>tuple":
		n := rapid.IntRange(0, 3).Draw(t, "tuplen")
		// prefer the length of a value that really sits here
		var lens []int
		for _, v := range here {
			if v.St == spec.Known && (v.T.K == spec.KList || v.T.K == spec.KSet) {
				lens = append(lens, len(v.Elems))
			}
		}
		if len(lens) > 0 && rapid.IntRange(0, 3).Draw(t, "usevallen") > 0 {
			n = rapid.SampledFrom(lens).Draw(t, "vallen")
		}
		es := make([]spec.T, n)
		for i := range es {
			es[i] = *x.E
		}
		return spec.T{K: spec.KTuple, Elems: es}, name
	case "tuple>list":
		e := elemChoice(t, x.Elems, o)
		return spec.T{K: spec.KList, E: &e}, name
	case "tuple>set":
		e := elemChoice(t, x.Elems, o)
		return spec.T{K: spec.KSet, E: &e}, name
	case "tuplelen":
		if len(x.Elems) > 0 && rapid.Bool().Draw(t, "shrink") {
			return spec.T{K: spec.KTuple, Elems: append([]spec.T(nil), x.Elems[:len(x.Elems)-1]...)}, name
		}
		return spec.T{K: spec.KTuple, Elems: append(append([]spec.T(nil), x.Elems...), spec.String)}, name
	case "object>map":
		e := elemChoice(t, attrTypes(x), o)
		return spec.T{K: spec.KMap, E: &e}, name
	case "map>object":
		// attribute names: keys that occur in the values at this position, plus
		// possibly one that does not (optional or required)
		seen := map[string]bool{}
		var keys []string
		for _, v := range here {
			if v.St == spec.Known && v.T.K == spec.KMap {
				for _, k := range v.Keys {
					if nk := spec.NFC(k); !seen[nk] {
						seen[nk] = true
						keys = append(keys, k)
					}
				}
			}
		}
		sort.Strings(keys)
		var as []spec.Attr
		for _, k := range keys {
			if rapid.IntRange(0, 4).Draw(t, "keepkey") > 0 {
				as = append(as, spec.Attr{Name: k, T: *x.E, Opt: !o.NoOptional && rapid.IntRange(0, 3).Draw(t, "keyopt") == 0})
			}
		}
		tmp := spec.T{K: spec.KObject, Attrs: as}
		if rapid.IntRange(0, 2).Draw(t, "absentkey") == 0 {
			nm := freshAttrName(t, tmp)
			if !seen[nm] {
				at := *x.E
				if rapid.IntRange(0, 2).Draw(t, "absenttype") == 0 {
					at = gen.Type(gen.TypeOpts{Depth: 1, Dynamic: !o.NoDynamic, Optional: !o.NoOptional}).Draw(t, "absentattrtype")
				}
				opt := !o.NoOptional && rapid.IntRange(0, 3).Draw(t, "absentopt") > 0
				tmp.Attrs = append(tmp.Attrs, spec.Attr{Name: nm, T: at, Opt: opt})
			}
		}
		return tmp, name
	case "dropattr":
		i := rapid.IntRange(0, len(x.Attrs)-1).Draw(t, "dropi")
		as := append([]spec.Attr(nil), x.Attrs[:i]...)
		as = append(as, x.Attrs[i+1:]...)
		return spec.T{K: spec.KObject, Attrs: as}, name
	case "optexisting":
		i := rapid.IntRange(0, len(x.Attrs)-1).Draw(t, "opti")
		as := append([]spec.Attr(nil), x.Attrs...)
		as[i].Opt = true
		return spec.T{K: spec.KObject, Attrs: as}, name
	case "addopt":
		nm := freshAttrName(t, x)
		at := gen.Type(gen.TypeOpts{Depth: 2, Dynamic: !o.NoDynamic, Optional: true}).Draw(t, "optattrtype")
		as := append(append([]spec.Attr(nil), x.Attrs...), spec.Attr{Name: nm, T: at, Opt: true})
		return spec.T{K: spec.KObject, Attrs: as}, name
	case "addreq":
		nm := freshAttrName(t, x)
		as := append(append([]spec.Attr(nil), x.Attrs...), spec.Attr{Name: nm, T: spec.String})
		return spec.T{K: spec.KObject, Attrs: as}, name
	case "bool>string", "number>string":
		return spec.String, name
	case "number>bool", "string>bool":
		return spec.Bool, name
	case "string>number":
		return spec.Number, name
	case "dyn":
		return spec.Dynamic, name
	default:
		to := gen.TypeOpts{Depth: 1, Dynamic: !o.NoDynamic, Optional: !o.NoOptional, Capsule: o.Type.Capsule}
		for i := 0; i < 8; i++ {
			y := gen.Type(to).Draw(t, "replacement")
			if !y.Equal(x) {
				return y, "replace"
			}
		}
		if x.K == spec.KBool {
			return spec.String, "replace"
		}
		return spec.Bool, "replace"
	}
}

// ---------------------------------------------------------------- values of exactly a type

// ExactValue draws a value specification whose built cty value has exactly
// the type ty (gen.Value instantiates dynamic placeholders with concrete
// types; ExactValue keeps them: a dynamic position holds DynamicVal or a null
// of dynamic type). Optional markers in ty are ignored.
func ExactValue(ty spec.T, o gen.ValOpts) *rapid.Generator[spec.V] {
	ty = ty.StripOptional()
	if !ty.HasDynamic() {
		return gen.Value(ty, o)
	}
	return rapid.Custom(func(t *rapid.T) spec.V { return exact(t, ty, o, true) })
}

func exact(t *rapid.T, ty spec.T, o gen.ValOpts, root bool) spec.V {
	if !ty.HasDynamic() {
		vo := o
		vo.RootKnown = vo.RootKnown && root
		return gen.Value(ty, vo).Draw(t, "plain")
	}
	if ty.K == spec.KDynamic {
		if o.Null && rapid.Bool().Draw(t, "dynnull") {
			return spec.NullOf(spec.Dynamic)
		}
		return spec.DynamicVal()
	}
	max := o.MaxElems
	if max == 0 {
		max = 3
	}
	roll := rapid.IntRange(0, 9).Draw(t, "state")
	forceKnown := root && o.RootKnown
	switch {
	case !forceKnown && o.Null && roll == 0:
		return spec.NullOf(ty)
	case !forceKnown && o.Unknown && roll == 1:
		return spec.UnknownOf(ty)
	}
	v := spec.V{T: ty, St: spec.Known}
	switch ty.K {
	case spec.KList, spec.KSet:
		n := rapid.IntRange(0, max).Draw(t, "n")
		for i := 0; i < n; i++ {
			v.Elems = append(v.Elems, exact(t, *ty.E, o, false))
		}
	case spec.KMap:
		n := rapid.IntRange(0, max).Draw(t, "n")
		pool := []string{"a", "b", "c", "k1"}
		for i := 0; i < n && i < len(pool); i++ {
			v.Keys = append(v.Keys, pool[i])
			v.Elems = append(v.Elems, exact(t, *ty.E, o, false))
		}
	case spec.KTuple:
		for _, e := range ty.Elems {
			v.Elems = append(v.Elems, exact(t, e, o, false))
		}
	case spec.KObject:
		for _, a := range ty.Attrs {
			v.Keys = append(v.Keys, a.Name)
			v.Elems = append(v.Elems, exact(t, a.T, o, false))
		}
	}
	return v
}

// Composed draws a tuple whose members mix lists and tuples (or an
// object whose attributes mix maps and objects) of convertible element types,
// to be converted to a collection of the placeholder element type: the
// converter must unify the member types, which goes through the two-step
// "structural type as collection" paths of the unifier, working on the member
// types of the INPUT value's own type.
func Composed(t *rapid.T) Case {
	pairs := [][2]spec.T{{spec.String, spec.Number}, {spec.Number, spec.Number}, {spec.String, spec.Bool}, {spec.String, spec.String}, {spec.List(spec.String), spec.Tuple(spec.Number)}}
	pr := rapid.SampledFrom(pairs).Draw(t, "elempair")
	leaf := func(ty spec.T) spec.V {
		return gen.Value(ty, gen.ValOpts{Simple: true, RootKnown: true, MaxElems: 2}).Draw(t, "leaf")
	}
	state := func(v spec.V) spec.V {
		switch rapid.IntRange(0, 5).Draw(t, "state") {
		case 0:
			return spec.NullOf(v.T)
		case 1:
			return spec.UnknownOf(v.T)
		}
		return v
	}
	var members []spec.V
	var keys []string
	objectForm := rapid.IntRange(0, 2).Draw(t, "objectform") == 0
	n := rapid.IntRange(2, 3).Draw(t, "members")
	for i := 0; i < n; i++ {
		var m spec.V
		coll := i%2 == 0
		if rapid.IntRange(0, 3).Draw(t, "flip") == 0 {
			coll = !coll
		}
		k := rapid.IntRange(0, 2).Draw(t, "len")
		switch {
		case objectForm && coll:
			m = spec.V{T: spec.Map(pr[0]), St: spec.Known}
			for j := 0; j < k; j++ {
				m.Keys = append(m.Keys, []string{"p", "q"}[j])
				m.Elems = append(m.Elems, leaf(pr[0]))
			}
		case objectForm:
			m = spec.V{T: spec.Object(), St: spec.Known}
			for j := 0; j < k+1; j++ {
				m.Keys = append(m.Keys, []string{"p", "r", "s"}[j])
				m.Elems = append(m.Elems, leaf(pr[1]))
			}
			m = m.Retype()
		case coll:
			m = spec.V{T: spec.List(pr[0]), St: spec.Known}
			for j := 0; j < k; j++ {
				m.Elems = append(m.Elems, leaf(pr[0]))
			}
		default:
			m = spec.V{T: spec.Tuple(), St: spec.Known}
			for j := 0; j < k+1; j++ {
				m.Elems = append(m.Elems, leaf(pr[1]))
			}
			m = m.Retype()
		}
		members = append(members, state(m))
		keys = append(keys, []string{"a", "b", "c"}[i])
	}
	var root spec.V
	var target spec.T
	if objectForm {
		root = spec.V{T: spec.Object(), St: spec.Known, Keys: keys, Elems: members}.Retype()
		target = spec.Map(spec.Dynamic)
	} else {
		root = spec.V{T: spec.Tuple(), St: spec.Known, Elems: members}.Retype()
		target = rapid.SampledFrom([]spec.T{spec.List(spec.Dynamic), spec.Set(spec.Dynamic)}).Draw(t, "target")
	}
	root = state(root)
	return Case{V: root, Target: target, Edits: []string{"composed"}}
}
