// Package cause holds root-cause analyses shared by the conversion-family
// property packages (C08, C09): parallel walks over the input type, the input
// values found at each position, and the target type. Their verdicts are
// attached to failures as Data["cause"] and matched by known-finding
// predicates; they never decide whether something is a violation.
package cause

import (
	"github.com/zclconf/go-cty/cty"
	"github.com/zclconf/go-cty/cty/convert"

	"verif/harness/spec"
)

// UnifiedOf asks the library for the unsafe unification of the given types,
// the way the conversion code does when a tuple/object is converted to a
// collection of placeholder element type (classification only: the answer
// decides which known root cause a failure is attributed to, never whether a
// case passes). It returns nil when there is none.
func UnifiedOf(ts []spec.T) (ret *spec.T) {
	defer func() {
		if recover() != nil {
			ret = nil
		}
	}()
	if len(ts) == 0 {
		return nil
	}
	cts := make([]cty.Type, len(ts))
	for i, t := range ts {
		cts[i] = t.Cty()
	}
	u, _ := convert.UnifyUnsafe(cts)
	if u == cty.NilType {
		return nil
	}
	r := spec.FromCty(u)
	return &r
}

// UnknownSetToList names the root cause recognised by SetToListElemChange.
const UnknownSetToList = "set of unknown length to list: result typed with the input element type"

// ValsAt steps from the values at one position to the values at a child
// position. kind: "e" (all members of collections), "i" (tuple index), "a"
// (object attribute or map key). Values that are null, unknown or of another
// shape are dropped. absent reports whether some known map lacks the key.
func ValsAt(vals []cty.Value, kind string, idx int, name string) (out []cty.Value, absent bool) {
	for _, v := range vals {
		v, _ = v.Unmark()
		if v.IsNull() || !v.IsKnown() {
			continue
		}
		ty := v.Type()
		switch kind {
		case "e":
			if ty.IsCollectionType() || ty.IsTupleType() {
				for it := v.ElementIterator(); it.Next(); {
					_, e := it.Element()
					out = append(out, e)
				}
			}
			if ty.IsObjectType() {
				for it := v.ElementIterator(); it.Next(); {
					_, e := it.Element()
					out = append(out, e)
				}
			}
		case "i":
			if ty.IsTupleType() && idx < ty.Length() {
				out = append(out, v.Index(cty.NumberIntVal(int64(idx))))
			}
		case "a":
			switch {
			case ty.IsObjectType():
				if ty.HasAttribute(name) {
					out = append(out, v.GetAttr(name))
				}
			case ty.IsMapType():
				found := false
				for it := v.ElementIterator(); it.Next(); {
					k, e := it.Element()
					if k.AsString() == spec.NFC(name) {
						out = append(out, e)
						found = true
					}
				}
				if !found {
					absent = true
				}
			}
		}
	}
	return
}

func AttrOf(t *spec.T, name string) *spec.Attr {
	if t == nil || t.K != spec.KObject {
		return nil
	}
	for i := range t.Attrs {
		if spec.NFC(t.Attrs[i].Name) == spec.NFC(name) {
			return &t.Attrs[i]
		}
	}
	return nil
}

// ChildIn returns the input type below inT for a step of the result type.
func ChildIn(inT *spec.T, kind string, idx int, name string) *spec.T {
	if inT == nil {
		return nil
	}
	switch kind {
	case "e":
		if inT.IsColl() {
			return inT.E
		}
	case "i":
		if inT.K == spec.KTuple && idx < len(inT.Elems) {
			return &inT.Elems[idx]
		}
	case "a":
		if a := AttrOf(inT, name); a != nil {
			return &a.T
		}
		if inT.K == spec.KMap {
			return inT.E
		}
	}
	return nil
}

func ChildTgt(tgt *spec.T, kind string, idx int, name string) *spec.T {
	if tgt == nil {
		return nil
	}
	switch kind {
	case "e":
		if tgt.IsColl() {
			return tgt.E
		}
	case "i":
		if tgt.K == spec.KTuple && idx < len(tgt.Elems) {
			return &tgt.Elems[idx]
		}
	case "a":
		if a := AttrOf(tgt, name); a != nil {
			return &a.T
		}
	}
	return nil
}

func AnyUnknownLengthSet(vals []cty.Value) bool {
	for _, v := range vals {
		v, _ = v.Unmark()
		if v.IsKnown() && !v.IsNull() && v.Type().IsSetType() && !v.Length().IsKnown() {
			return true
		}
	}
	return false
}

// SetToListElemChange: somewhere a set that holds unknown members (so its
// length is unknown) is converted to a list with a different element type:
// the library then returns an unknown list typed with the set's element type,
// which either surfaces as a non-conforming result or makes an enclosing
// collection fail with "element types must all match".
func SetToListElemChange(vals []cty.Value, inT *spec.T, tgt spec.T) bool {
	if inT == nil {
		return false
	}
	// a tuple/object converted to a collection of placeholder element type is
	// converted to the unification of its member types
	if tgt.IsColl() && tgt.E.K == spec.KDynamic {
		var members []spec.T
		switch {
		case inT.K == spec.KTuple && tgt.K != spec.KMap:
			members = inT.Elems
		case inT.K == spec.KObject && tgt.K == spec.KMap:
			for _, a := range inT.Attrs {
				members = append(members, a.T)
			}
		}
		if u := UnifiedOf(members); u != nil && u.K != spec.KDynamic {
			tgt = spec.T{K: tgt.K, E: u}
		}
	}
	if inT.K == spec.KSet && tgt.K == spec.KList && !inT.E.Equal(tgt.E.StripOptional()) && tgt.E.K != spec.KDynamic && AnyUnknownLengthSet(vals) {
		return true
	}
	switch tgt.K {
	case spec.KList, spec.KSet, spec.KMap:
		cv, _ := ValsAt(vals, "e", 0, "")
		switch inT.K {
		case spec.KList, spec.KSet, spec.KMap:
			return SetToListElemChange(cv, inT.E, *tgt.E)
		case spec.KTuple:
			for i := range inT.Elems {
				if SetToListElemChange(cv, &inT.Elems[i], *tgt.E) {
					return true
				}
			}
		case spec.KObject:
			for i := range inT.Attrs {
				if SetToListElemChange(cv, &inT.Attrs[i].T, *tgt.E) {
					return true
				}
			}
		}
	case spec.KTuple:
		for i := range tgt.Elems {
			cv, _ := ValsAt(vals, "i", i, "")
			if SetToListElemChange(cv, ChildIn(inT, "i", i, ""), tgt.Elems[i]) {
				return true
			}
		}
	case spec.KObject:
		for _, ta := range tgt.Attrs {
			cv, _ := ValsAt(vals, "a", 0, ta.Name)
			if SetToListElemChange(cv, ChildIn(inT, "a", 0, ta.Name), ta.T) {
				return true
			}
		}
	}
	return false
}
