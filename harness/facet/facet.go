// Package facet is the runner shared by all property packages: a facet is one
// executable check (generator + oracle) with its own rapid.Check, its own
// counters, and JSON-serialisable inputs that replay without the library.
package facet

import (
	"encoding/binary"
	"encoding/json"
	"fmt"
	"hash/fnv"
	"os"
	"path/filepath"
	"regexp"
	"runtime/debug"
	"sort"
	"strings"
	"testing"

	"pgregory.net/rapid"
)

// Ctx collects the classification of one case while it is being checked.
type Ctx struct {
	labels     []string
	nontrivial bool
	skipped    bool
	key        string
}

// Label records a classification label for the current case.
func (c *Ctx) Label(l string) { c.labels = append(c.labels, l) }

// Labelf is Label with formatting.
func (c *Ctx) Labelf(f string, a ...any) { c.labels = append(c.labels, fmt.Sprintf(f, a...)) }

// NonTrivial marks the current case as non-trivial by the facet's stated rule.
func (c *Ctx) NonTrivial() { c.nontrivial = true }

// Skip marks the case as vacuous (nothing was asserted); it is counted under
// "skipped" and not as an evaluation.
func (c *Ctx) Skip() { c.skipped = true }

// Key overrides the string hashed for distinctness (default: JSON of the input).
func (c *Ctx) Key(k string) { c.key = k }

// Failure is a property violation reported by a check.
type Failure struct {
	Kind   string  `json:"kind"`             // short machine-readable class, used by known-finding predicates
	Msg    string  `json:"msg"`              // human-readable description
	Margin float64 `json:"margin,omitempty"` // for numeric exceedances: relative distance to the violated bound
	Data   map[string]string `json:"data,omitempty"` // extra facts for known-finding predicates
}

func (f *Failure) Error() string { return f.Kind + ": " + f.Msg }

// Failf builds a Failure.
func Failf(kind, format string, a ...any) *Failure {
	return &Failure{Kind: kind, Msg: fmt.Sprintf(format, a...)}
}

// With attaches a data item.
func (f *Failure) With(k, v string) *Failure {
	if f.Data == nil {
		f.Data = map[string]string{}
	}
	f.Data[k] = v
	return f
}

// AsFailure converts any error to a Failure.
func AsFailure(err error) *Failure {
	if err == nil {
		return nil
	}
	if f, ok := err.(*Failure); ok {
		return f
	}
	return &Failure{Kind: "error", Msg: err.Error()}
}

// F is a facet over inputs of type I (I must round-trip through encoding/json).
type F[I any] struct {
	Prop     string // property id, e.g. "C07"
	Name     string // facet name, e.g. "equals/model"
	Rule     string // non-triviality rule, in words (goes into the evidence)
	Quick    int    // rapid checks in the quick tier
	Thorough int    // rapid checks per shard in the thorough tier
	Shards   int    // shards in the thorough tier (default 8)
	Gen      func(t *rapid.T) I
	Check    func(c *Ctx, in I) error
	// Exhaustive, when set, enumerates a finite input space instead of
	// drawing; Gen may then be nil.
	Exhaustive func() []I
}

type facetI interface {
	prop() string
	name() string
	info() Info
	search(t *testing.T, st *stats)
	replay(raw json.RawMessage) (*Ctx, error)
}

// Info is what the driver needs to know about a facet.
type Info struct {
	Prop       string `json:"prop"`
	Name       string `json:"name"`
	Rule       string `json:"rule"`
	Quick      int    `json:"quick"`
	Thorough   int    `json:"thorough"`
	Shards     int    `json:"shards"`
	Exhaustive bool   `json:"exhaustive"`
}

var registry []facetI

// Register adds a facet to the registry of the current test binary.
func Register[I any](f F[I]) {
	if f.Shards == 0 {
		f.Shards = 8
	}
	if f.Quick == 0 {
		f.Quick = 2000
	}
	if f.Thorough == 0 {
		f.Thorough = f.Quick * 10
	}
	registry = append(registry, &f)
}

func (f *F[I]) prop() string { return f.Prop }
func (f *F[I]) name() string { return f.Name }
func (f *F[I]) info() Info {
	return Info{f.Prop, f.Name, f.Rule, f.Quick, f.Thorough, f.Shards, f.Exhaustive != nil}
}

// run executes Check with panic capture.
func (f *F[I]) run(c *Ctx, in I) (err error) {
	defer func() {
		if r := recover(); r != nil {
			err = &Failure{Kind: "harness-panic", Msg: fmt.Sprintf("unexpected panic in check: %v\n%s", r, debug.Stack())}
		}
	}()
	return f.Check(c, in)
}

func (f *F[I]) replay(raw json.RawMessage) (*Ctx, error) {
	var in I
	if err := json.Unmarshal(raw, &in); err != nil {
		return nil, fmt.Errorf("cannot decode replay input: %w", err)
	}
	c := &Ctx{}
	return c, f.run(c, in)
}

func (f *F[I]) search(t *testing.T, st *stats) {
	one := func(in I, fatal func(string)) {
		c := &Ctx{}
		err := f.run(c, in)
		if st.failed {
			// shrinking phase: only the outcome matters
			if err != nil && matchKnown(f.Prop, f.Name, mustJSON(in), AsFailure(err)) == "" {
				st.writeFail(f, in, AsFailure(err))
				fatal(err.Error())
			}
			return
		}
		if err != nil {
			raw := mustJSON(in)
			if id := matchKnown(f.Prop, f.Name, raw, AsFailure(err)); id != "" {
				st.Excluded[id]++
				st.Evaluations++
				return
			}
			st.failed = true
			st.writeFail(f, in, AsFailure(err))
			fatal(err.Error())
			return
		}
		st.add(c, in)
	}
	if f.Exhaustive != nil {
		for _, in := range f.Exhaustive() {
			failedMsg := ""
			one(in, func(m string) { failedMsg = m })
			if failedMsg != "" {
				t.Errorf("exhaustive case failed: %s", failedMsg)
				return
			}
		}
		st.Exhaustive = true
		return
	}
	rapid.Check(t, func(rt *rapid.T) {
		in := f.Gen(rt)
		one(in, func(m string) { rt.Fatalf("%s", m) })
	})
}

func mustJSON(v any) json.RawMessage {
	b, err := json.Marshal(v)
	if err != nil {
		panic(fmt.Sprintf("facet input is not JSON-serialisable: %v", err))
	}
	return b
}

// ------------------------------------------------------------------ stats

type stats struct {
	Prop        string            `json:"prop"`
	Facet       string            `json:"facet"`
	Rule        string            `json:"rule"`
	Evaluations int               `json:"evaluations"`
	Skipped     int               `json:"skipped"`
	NonTrivial  int               `json:"nontrivial"`
	Labels      map[string]int    `json:"labels"`
	Excluded    map[string]int    `json:"excluded_known"`
	Samples     []json.RawMessage `json:"samples"`
	Exhaustive  bool              `json:"exhaustive"`
	Failed      bool              `json:"failed"`
	FailFile    string            `json:"fail_file,omitempty"`
	Requested   int               `json:"requested"`

	hashes  map[uint64]struct{}
	failed  bool
	outDir  string
	shard   string
	maxHash int
}

func newStats(prop, name, rule, outDir, shard string) *stats {
	return &stats{Prop: prop, Facet: name, Rule: rule, Labels: map[string]int{}, Excluded: map[string]int{},
		hashes: map[uint64]struct{}{}, outDir: outDir, shard: shard, maxHash: 4_000_000}
}

func (st *stats) add(c *Ctx, in any) {
	if c.skipped {
		st.Skipped++
		return
	}
	st.Evaluations++
	for _, l := range c.labels {
		st.Labels[l]++
	}
	if c.nontrivial {
		st.NonTrivial++
		var key []byte
		var raw json.RawMessage
		if c.key != "" {
			key = []byte(c.key)
		} else {
			raw = mustJSON(in)
			key = raw
		}
		if len(st.hashes) < st.maxHash {
			h := fnv.New64a()
			h.Write(key)
			st.hashes[h.Sum64()] = struct{}{}
		}
		if len(st.Samples) < 3 {
			if raw == nil {
				raw = mustJSON(in)
			}
			if len(raw) < 4000 {
				st.Samples = append(st.Samples, raw)
			}
		}
	}
}

// FailRecord is the replay file format.
type FailRecord struct {
	Property string          `json:"property"`
	Facet    string          `json:"facet"`
	Failure  *Failure        `json:"failure"`
	Input    json.RawMessage `json:"input"`
}

func (st *stats) writeFail(f interface{ prop() string; name() string }, in any, fl *Failure) {
	if st.outDir == "" {
		return
	}
	rec := FailRecord{Property: f.prop(), Facet: f.name(), Failure: fl, Input: mustJSON(in)}
	b, _ := json.MarshalIndent(rec, "", " ")
	p := filepath.Join(st.outDir, sanitize(f.name())+"."+st.shard+".fail.json")
	_ = os.WriteFile(p, b, 0o644)
	st.Failed = true
	st.FailFile = p
}

func (st *stats) flush() {
	if st.outDir == "" {
		return
	}
	base := filepath.Join(st.outDir, sanitize(st.Facet)+"."+st.shard)
	b, _ := json.Marshal(st)
	_ = os.WriteFile(base+".stats.json", b, 0o644)
	hs := make([]uint64, 0, len(st.hashes))
	for h := range st.hashes {
		hs = append(hs, h)
	}
	sort.Slice(hs, func(i, j int) bool { return hs[i] < hs[j] })
	buf := make([]byte, 8*len(hs))
	for i, h := range hs {
		binary.LittleEndian.PutUint64(buf[8*i:], h)
	}
	_ = os.WriteFile(base+".hashes", buf, 0o644)
}

var sanitizeRe = regexp.MustCompile(`[^A-Za-z0-9_.-]+`)

func sanitize(s string) string { return sanitizeRe.ReplaceAllString(s, "_") }

// ------------------------------------------------------------------ known findings

// KnownPredicate recognises violations that share the root cause of one
// recorded finding. raw is the JSON of the facet input.
type KnownPredicate func(facetName string, raw json.RawMessage, f *Failure) bool

type knownEntry struct {
	ID        string `json:"id"`
	Property  string `json:"property"`
	Status    string `json:"status"` // "open" or "fixed"
	Facet     string `json:"facet"`
	Witness   string `json:"witness"` // path relative to /verif
	What      string `json:"what"`
	Predicate string `json:"predicate"`
	Commit    string `json:"commit,omitempty"`
}

var (
	// "never" is for fixed entries: a fixed finding suppresses nothing.
	predicates  = map[string]KnownPredicate{"never": func(string, json.RawMessage, *Failure) bool { return false }}
	knownLoaded bool
	knownOpen   []knownEntry
	knownAll    []knownEntry
)

// RegisterKnown registers a predicate under a name that known_findings.json refers to.
func RegisterKnown(name string, p KnownPredicate) { predicates[name] = p }

func verifRoot() string {
	if r := os.Getenv("VERIF_ROOT"); r != "" {
		return r
	}
	return "/verif"
}

func loadKnown() {
	if knownLoaded {
		return
	}
	knownLoaded = true
	b, err := os.ReadFile(filepath.Join(verifRoot(), "known_findings.json"))
	if err != nil {
		return
	}
	var doc struct {
		Findings []knownEntry `json:"findings"`
	}
	if err := json.Unmarshal(b, &doc); err != nil {
		panic("known_findings.json does not parse: " + err.Error())
	}
	knownAll = doc.Findings
	for _, e := range doc.Findings {
		if e.Status == "open" {
			knownOpen = append(knownOpen, e)
		}
	}
}

func matchKnown(prop, facetName string, raw json.RawMessage, f *Failure) string {
	loadKnown()
	for _, e := range knownOpen {
		if e.Property != prop {
			continue
		}
		p := predicates[e.Predicate]
		if p == nil {
			continue
		}
		if p(facetName, raw, f) {
			return e.ID
		}
	}
	return ""
}

// ------------------------------------------------------------------ entry point

// Main is called from the single Test function of every property package.
// Behaviour is selected by environment variables set by the driver:
//
//	VERIF_MODE=list                      print one JSON line per facet
//	VERIF_MODE=search VERIF_FACET=name   run rapid search for one facet (default mode)
//	VERIF_MODE=replay VERIF_REPLAY=file  run one saved input
//	VERIF_MODE=replaydir VERIF_REPLAY=dir  run every *.json in dir
//	VERIF_MODE=known                     re-check witnesses of known findings
//	VERIF_OUT=dir VERIF_SHARD=s          where stats / fail files go
func Main(t *testing.T) {
	mode := os.Getenv("VERIF_MODE")
	switch mode {
	case "list":
		for _, f := range registry {
			b, _ := json.Marshal(f.info())
			fmt.Printf("FACET %s\n", b)
		}
	case "replay":
		replayFile(t, os.Getenv("VERIF_REPLAY"), true)
	case "replaydir":
		dir := os.Getenv("VERIF_REPLAY")
		files, _ := filepath.Glob(filepath.Join(dir, "*.json"))
		sort.Strings(files)
		for _, p := range files {
			replayFile(t, p, false)
		}
		fmt.Printf("REPLAYED %d\n", len(files))
	case "known":
		knownMode(t)
	case "union":
		unionMode(t)
	case "", "search":
		name := os.Getenv("VERIF_FACET")
		found := false
		for _, f := range registry {
			if name != "" && f.name() != name {
				continue
			}
			found = true
			inf := f.info()
			st := newStats(inf.Prop, inf.Name, inf.Rule, os.Getenv("VERIF_OUT"), envOr("VERIF_SHARD", "0"))
			func() {
				defer st.flush()
				t.Run(sanitize(f.name()), func(t *testing.T) {
					defer func() {
						if t.Failed() {
							st.Failed = true
						}
					}()
					f.search(t, st)
				})
			}()
		}
		if !found {
			t.Fatalf("no facet named %q", name)
		}
	default:
		t.Fatalf("unknown VERIF_MODE %q", mode)
	}
}

func envOr(k, d string) string {
	if v := os.Getenv(k); v != "" {
		return v
	}
	return d
}

func findFacet(prop, name string) facetI {
	for _, f := range registry {
		if f.name() == name && (prop == "" || f.prop() == prop) {
			return f
		}
	}
	return nil
}

// replayFile runs one saved input. Output protocol (one line):
//
//	REPLAY-OK <file>
//	REPLAY-KNOWN <id> <file>
//	REPLAY-FAIL <file> :: <failure>
//	REPLAY-SKIP <file> (facet not in this binary)
func replayFile(t *testing.T, path string, mustExist bool) {
	b, err := os.ReadFile(path)
	if err != nil {
		t.Fatalf("cannot read replay file: %v", err)
	}
	var rec FailRecord
	if err := json.Unmarshal(b, &rec); err != nil {
		t.Fatalf("cannot parse replay file %s: %v", path, err)
	}
	f := findFacet(rec.Property, rec.Facet)
	if f == nil {
		if mustExist {
			t.Fatalf("facet %q not found in this binary", rec.Facet)
		}
		fmt.Printf("REPLAY-SKIP %s\n", path)
		return
	}
	_, cerr := f.replay(rec.Input)
	if cerr == nil {
		fmt.Printf("REPLAY-OK %s\n", path)
		return
	}
	fl := AsFailure(cerr)
	if id := matchKnown(rec.Property, rec.Facet, rec.Input, fl); id != "" {
		fmt.Printf("REPLAY-KNOWN %s %s\n", id, path)
		return
	}
	fmt.Printf("REPLAY-FAIL %s :: %s\n", path, oneLine(fl.Error()))
}

func oneLine(s string) string {
	s = strings.ReplaceAll(s, "\n", " | ")
	if len(s) > 600 {
		s = s[:600] + "..."
	}
	return s
}

// knownMode re-checks the witnesses of the known findings of this binary's
// property. Output protocol:
//
//	KNOWN-OPEN <id> :: <what>          witness still fails and matches its predicate
//	KNOWN-GONE <id>                    witness of an open finding no longer fails
//	KNOWN-MISMATCH <id> :: <failure>   witness fails but the predicate does not match (treated as violation)
//	FIXED-OK <id>                      witness of a fixed finding passes
//	FIXED-REGRESSED <id> <witness> :: <failure>
func knownMode(t *testing.T) {
	loadKnown()
	prop := ""
	if len(registry) > 0 {
		prop = registry[0].prop()
	}
	for _, e := range knownAll {
		if e.Property != prop {
			continue
		}
		path := filepath.Join(verifRoot(), e.Witness)
		b, err := os.ReadFile(path)
		if err != nil {
			t.Fatalf("known finding %s: cannot read witness: %v", e.ID, err)
		}
		var rec FailRecord
		if err := json.Unmarshal(b, &rec); err != nil {
			t.Fatalf("known finding %s: cannot parse witness: %v", e.ID, err)
		}
		f := findFacet(rec.Property, rec.Facet)
		if f == nil {
			t.Fatalf("known finding %s: facet %q not found", e.ID, rec.Facet)
		}
		_, cerr := f.replay(rec.Input)
		switch e.Status {
		case "open":
			if cerr == nil {
				fmt.Printf("KNOWN-GONE %s\n", e.ID)
				continue
			}
			fl := AsFailure(cerr)
			p := predicates[e.Predicate]
			if p != nil && p(rec.Facet, rec.Input, fl) {
				fmt.Printf("KNOWN-OPEN %s :: %s\n", e.ID, oneLine(e.What))
			} else {
				fmt.Printf("KNOWN-MISMATCH %s %s :: %s\n", e.ID, path, oneLine(fl.Error()))
			}
		case "fixed":
			if cerr == nil {
				fmt.Printf("FIXED-OK %s\n", e.ID)
			} else {
				fmt.Printf("FIXED-REGRESSED %s %s :: %s\n", e.ID, path, oneLine(cerr.Error()))
			}
		}
	}
}

// unionMode merges the per-shard hash files in VERIF_OUT and prints, per
// facet, the number of distinct non-trivial cases: "UNION <facet-file-stem> <n>".
func unionMode(t *testing.T) {
	dir := os.Getenv("VERIF_OUT")
	files, _ := filepath.Glob(filepath.Join(dir, "*.hashes"))
	groups := map[string][]string{}
	for _, p := range files {
		base := filepath.Base(p)
		base = strings.TrimSuffix(base, ".hashes")
		if i := strings.LastIndex(base, "."); i >= 0 {
			base = base[:i]
		}
		groups[base] = append(groups[base], p)
	}
	names := make([]string, 0, len(groups))
	for n := range groups {
		names = append(names, n)
	}
	sort.Strings(names)
	for _, n := range names {
		var all []uint64
		for _, p := range groups[n] {
			b, err := os.ReadFile(p)
			if err != nil {
				t.Fatalf("read %s: %v", p, err)
			}
			for i := 0; i+8 <= len(b); i += 8 {
				all = append(all, binary.LittleEndian.Uint64(b[i:]))
			}
		}
		sort.Slice(all, func(i, j int) bool { return all[i] < all[j] })
		cnt := 0
		for i, h := range all {
			if i == 0 || h != all[i-1] {
				cnt++
			}
		}
		fmt.Printf("UNION %s %d\n", n, cnt)
	}
}
