package gen

import (
	"sort"

	"pgregory.net/rapid"

	"verif/harness/spec"
)

// PlaceMarks returns v with 1..3 mark placements added at random nodes (the
// root and/or nested members at any depth), each placement carrying 1..2 of
// the three mark names. It also returns labels describing the placement depth.
func PlaceMarks(t *rapid.T, v spec.V, forceRoot bool) (spec.V, []string) {
	out := v.Clone()
	n := countValNodes(out)
	k := rapid.IntRange(1, 3).Draw(t, "nplacements")
	var labels []string
	for p := 0; p < k; p++ {
		target := 0
		switch {
		case p == 0 && forceRoot:
		case n > 1 && rapid.IntRange(0, 9).Draw(t, "marknested") < 7:
			target = rapid.IntRange(1, n-1).Draw(t, "markpos")
		}
		nm := rapid.IntRange(1, 2).Draw(t, "nmarks")
		ms := rapid.Permutation(markNames).Draw(t, "marknames")[:nm]
		idx := 0
		var rec func(x *spec.V, depth int)
		rec = func(x *spec.V, depth int) {
			me := idx
			idx++
			if me == target {
				set := map[string]bool{}
				for _, m := range x.Marks {
					set[m] = true
				}
				for _, m := range ms {
					set[m] = true
				}
				x.Marks = x.Marks[:0:0]
				for m := range set {
					x.Marks = append(x.Marks, m)
				}
				sort.Strings(x.Marks)
				if depth == 0 {
					labels = append(labels, "mark@root")
				} else if depth == 1 {
					labels = append(labels, "mark@depth1")
				} else {
					labels = append(labels, "mark@depth2+")
				}
			}
			for i := range x.Elems {
				rec(&x.Elems[i], depth+1)
			}
		}
		rec(&out, 0)
	}
	return out, labels
}

func countValNodes(v spec.V) int {
	n := 1
	for _, e := range v.Elems {
		n += countValNodes(e)
	}
	return n
}
