package gen

import (
	"testing"

	"github.com/zclconf/go-cty/cty"
)

// The colliding families must collide in the library's own hash, in every context.
func TestCollidingFamilies(t *testing.T) {
	s0 := cty.StringVal(CollidingStrings[0])
	n0 := cty.MustParseNumberVal(CollidingInts[0])
	for i := 1; i < 16; i++ {
		s := cty.StringVal(CollidingStrings[i])
		n := cty.MustParseNumberVal(CollidingInts[i])
		if s.Hash() != s0.Hash() {
			t.Errorf("string %d does not collide", i)
		}
		if n.Hash() != n0.Hash() {
			t.Errorf("number %d does not collide", i)
		}
		if cty.TupleVal([]cty.Value{s, n, cty.True}).Hash() != cty.TupleVal([]cty.Value{s0, n0, cty.True}).Hash() {
			t.Errorf("tuple %d does not collide", i)
		}
		if cty.ObjectVal(map[string]cty.Value{"a": n}).Hash() != cty.ObjectVal(map[string]cty.Value{"a": n0}).Hash() {
			t.Errorf("object %d does not collide", i)
		}
	}
}
