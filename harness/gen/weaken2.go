package gen

import (
	"pgregory.net/rapid"

	"verif/harness/spec"
)

// AbstractOf draws an unknown value spec that admits the wholly-known value v
// (exported form of the step Weaken applies at each chosen node).
func AbstractOf(t *rapid.T, v spec.V, allowDyn bool, kinds *[]string) spec.V {
	return abstractOf(t, v, allowDyn, kinds).Retype()
}

// WeakenMore weakens an already weakened spec a further. conc is the concrete
// value a was derived from by Weaken (same tree shape wherever a is known).
// Known nodes may be replaced by an unknown admitting the concrete part;
// refined unknowns may lose their refinements.
func WeakenMore(t *rapid.T, a, conc spec.V) spec.V {
	return weakenMore(t, a, conc, true).Retype()
}

func weakenMore(t *rapid.T, a, conc spec.V, dynPos bool) spec.V {
	switch a.St {
	case spec.Unknown:
		if a.Ref != nil && rapid.IntRange(0, 2).Draw(t, "droprefs") == 0 {
			out := a
			out.Ref = nil
			return out
		}
		if dynPos && a.T.K != spec.KDynamic && rapid.IntRange(0, 5).Draw(t, "todyn") == 0 {
			d := spec.DynamicVal()
			d.Marks = a.Marks
			return d
		}
		return a
	case spec.Null:
		if rapid.IntRange(0, 3).Draw(t, "nulltounknown") == 0 {
			u := spec.UnknownOf(a.T)
			u.Marks = a.Marks
			return u
		}
		return a
	}
	if rapid.IntRange(0, 3).Draw(t, "weakenhere") == 0 && conc.St == spec.Known && conc.WhollyKnown() {
		var kinds []string
		return abstractOf(t, conc, dynPos, &kinds)
	}
	if len(a.Elems) == 0 || len(a.Elems) != len(conc.Elems) {
		return a
	}
	if a.T.IsColl() {
		for _, m := range a.Elems {
			if m.Retype().T.HasDynamic() {
				// members that share a type with a placeholder in it (Weaken's
				// uniform DynamicVal positions): replacing one of them by an
				// unknown of its concrete type would break the common type
				return a
			}
		}
	}
	out := a
	out.Elems = make([]spec.V, len(a.Elems))
	childDyn := dynPos && (a.T.K == spec.KTuple || a.T.K == spec.KObject)
	for i := range a.Elems {
		out.Elems[i] = weakenMore(t, a.Elems[i], conc.Elems[i], childDyn)
	}
	return out
}
