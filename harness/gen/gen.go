// Package gen holds the rapid generators. They draw specifications (package
// spec), never cty values, so every random choice is a rapid draw and every
// generated input is JSON-serialisable.
package gen

import (
	"fmt"
	"math"
	"math/big"
	"sort"
	"strconv"
	"strings"

	"pgregory.net/rapid"

	"verif/harness/spec"
)

// ---------------------------------------------------------------- numbers

var intBoundaries = func() []string {
	var out []string
	add := func(b *big.Int) {
		for d := int64(-1); d <= 1; d++ {
			out = append(out, new(big.Int).Add(b, big.NewInt(d)).String())
		}
	}
	for _, bits := range []uint{7, 8, 15, 16, 31, 32, 53, 63, 64, 70} {
		p := new(big.Int).Lsh(big.NewInt(1), bits)
		add(p)
		add(new(big.Int).Neg(p))
	}
	return out
}()

var floatSpecials = []float64{0.1, 0.2, 0.3, 0.5, 1.5, 2.5, -0.1, -1.5, 1e-7, 1e300, -1e300, 5e-324, 1.7976931348623157e308,
	9007199254740992, 9007199254740994, 9223372036854775808, 18446744073709551616, 1e40, 3.4028234663852886e38, 3.5e38, 1e-45,
	123456789.125, 0.30000000000000004}

var decimalSpecials = []string{"0.1", "0.2", "0.3", "0.5", "1.5", "-0.1", "1.00000000005", "1.00000000015", "12345678905", "12345678915",
	"0.12345678905", "1e40", "1e-40", "340282346638528859811704183484516925440", "0.30000000000000004", "3.14159265358979323846264338327950288419716939937510582097494459",
	"1e400", "-1e400", "1e-400", "9223372036854775807.5", "18446744073709551615.5", "0.000000000000000000000000000001", "100000000000000000000.25"}

// NumOpts controls the number generator.
type NumOpts struct {
	NoInf bool
	// Extreme adds numbers with exponents of tens of thousands (1e30000,
	// -7e45000, 1e-30000, 2^70000): beyond every fixed-width format and every
	// sanity limit a piece of code may have put on exponents; their decimal
	// text has tens of thousands of digits. Off by default.
	Extreme bool
}

var extremeNums = []string{"1e20000", "-7e20000", "1e-20000"}

// Num draws a number by class (DESIGN.md §2.3).
func Num(o NumOpts) *rapid.Generator[spec.Num] {
	return rapid.Custom(func(t *rapid.T) spec.Num {
		// (the middle of a rapid range of 400 comes up about once in 700 draws)
		if o.Extreme && rapid.IntRange(0, 399).Draw(t, "extreme") == 200 {
			return spec.NParse(rapid.SampledFrom(extremeNums).Draw(t, "xnum"))
		}
		cls := rapid.IntRange(0, 14).Draw(t, "numclass")
		switch cls {
		case 14:
			if rapid.Bool().Draw(t, "collide") {
				return CollidingNum(t, "colliding")
			}
			return spec.NInt(int64(rapid.IntRange(-5, 12).Draw(t, "small")))
		case 0, 1, 2:
			return spec.NInt(int64(rapid.IntRange(-5, 12).Draw(t, "small")))
		case 3:
			return spec.NInt(rapid.Int64().Draw(t, "i64"))
		case 4:
			s := rapid.SampledFrom(intBoundaries).Draw(t, "boundary")
			// boundaries that fit go through int/uint routes half of the time
			if rapid.Bool().Draw(t, "native") {
				if _, err := strconv.ParseInt(s, 10, 64); err == nil {
					return spec.Num{Route: "int", Text: s}
				}
				if _, err := strconv.ParseUint(s, 10, 64); err == nil {
					return spec.Num{Route: "uint", Text: s}
				}
			}
			return spec.NParse(s)
		case 5:
			return spec.NFloat(rapid.SampledFrom(floatSpecials).Draw(t, "fspecial"))
		case 6:
			f := rapid.Float64().Draw(t, "f64")
			if math.IsNaN(f) || math.IsInf(f, 0) {
				f = 1.25
			}
			return spec.NFloat(f)
		case 7:
			return spec.NParse(rapid.SampledFrom(decimalSpecials).Draw(t, "dspecial"))
		case 8:
			// random decimal with bounded exponent
			mant := rapid.StringMatching(`-?[1-9][0-9]{0,24}`).Draw(t, "mant")
			frac := rapid.StringMatching(`[0-9]{0,12}`).Draw(t, "frac")
			s := mant
			if frac != "" {
				s += "." + frac
			}
			if rapid.IntRange(0, 3).Draw(t, "hasexp") == 0 {
				s += "e" + strconv.Itoa(rapid.IntRange(-60, 60).Draw(t, "exp"))
			}
			return spec.NParse(s)
		case 9:
			// the same small real through another route
			i := rapid.IntRange(-5, 12).Draw(t, "small")
			switch rapid.IntRange(0, 2).Draw(t, "route") {
			case 0:
				return spec.NParse(strconv.Itoa(i))
			case 1:
				return spec.NFloat(float64(i))
			default:
				return spec.Num{Route: "big", Text: strconv.Itoa(i), Prec: uint(rapid.SampledFrom([]int{24, 53, 64, 100, 512}).Draw(t, "prec"))}
			}
		case 10:
			// halves and tenths through two routes
			i := rapid.IntRange(-40, 40).Draw(t, "tenths")
			txt := strconv.FormatFloat(float64(i)/10, 'f', 1, 64)
			if rapid.Bool().Draw(t, "viafloat") {
				f, _ := strconv.ParseFloat(txt, 64)
				return spec.NFloat(f)
			}
			return spec.NParse(txt)
		case 11:
			if o.NoInf {
				return spec.Num{Route: "zero"}
			}
			return spec.Num{Route: rapid.SampledFrom([]string{"+inf", "-inf"}).Draw(t, "inf")}
		case 12:
			return spec.Num{Route: rapid.SampledFrom([]string{"zero", "negzero", "zero"}).Draw(t, "zero")}
		default:
			// low precision big.Float
			return spec.Num{Route: "big", Text: rapid.StringMatching(`-?[1-9][0-9]{0,30}(\.[0-9]{1,8})?`).Draw(t, "bigtxt"),
				Prec: uint(rapid.SampledFrom([]int{8, 24, 53, 64, 128, 512}).Draw(t, "prec"))}
		}
	})
}

// SmallInt draws a small integer number via a random route.
func SmallInt(lo, hi int) *rapid.Generator[spec.Num] {
	return rapid.Custom(func(t *rapid.T) spec.Num {
		i := rapid.IntRange(lo, hi).Draw(t, "i")
		switch rapid.IntRange(0, 3).Draw(t, "route") {
		case 0:
			return spec.NParse(strconv.Itoa(i))
		case 1:
			return spec.NFloat(float64(i))
		default:
			return spec.NInt(int64(i))
		}
	})
}

// ---------------------------------------------------------------- strings

// Alphabet chosen for the Unicode risks the code handles.
var alphabet = []string{
	"a", "b", "A", "z", "0", "9", " ", "-", "_", ":", "/", ".", ",", "(", "{", "%", "\"", "'", "\t",
	"\ufffd", // the replacement character itself is an ordinary, valid code point
	"=", "<", ">", "\u0338", // the three ASCII signs that compose with a following mark (U+0338: = becomes U+2260 ...)
	"\u0301", "\u0308", "\u0323", "\u0327", // combining acute, diaeresis, dot below, cedilla
	"\u00e9", "e", "\u00f6", "o", "\u00e7", "c", "\u00c5", "\u212b", "A\u030a", // precomposed, compatibility (angstrom), decomposed
	"\u1100", "\u1161", "\u11a8", "\uac00", "\uac01", // hangul jamo L V T, syllables LV, LVT
	"\U0001F600", "\U0001F44D", "\U0001F3FD", "\u200d", "\ufe0f", "\U0001F469", "\U0001F4BB", // emoji, skin tone, ZWJ, VS16
	"\U0001F1E9", "\U0001F1EA", "\U0001F1FA", // regional indicators
	"\r", "\n", "\u00df", "\u01c6", "\ufb01", "\u0130", "\u0131", "\u65e5", "\u672c",
	"\u0f71", "\u0f72", "\u0344", "\u1e9b\u0323", // tibetan vowel signs (reordering), deprecated combining, long s with dots
}

var words = []string{"", "a", "b", "foo", "bar", "hello", "true", "false", "1", "10", "null", "\u00e9", "e\u0301", "baz", "\u0338v", "k=\u0338v"}

// String draws a valid UTF-8 string over the hostile alphabet.
func String() *rapid.Generator[string] {
	return rapid.Custom(func(t *rapid.T) string {
		switch rapid.IntRange(0, 7).Draw(t, "strclass") {
		case 0, 1:
			return rapid.SampledFrom(words).Draw(t, "word")
		case 7:
			// LONG strings: one of a few long bodies (so that two draws often
			// share it) cut at a length around 64 / 256 / 1024 bytes, plus a
			// short tail: strings that agree on a long prefix and differ only
			// after it, which anything that looks at a bounded prefix of a
			// string (hash bytes, prefix refinements, buffers) conflates
			return LongString(t, "long")
		case 6:
			if rapid.Bool().Draw(t, "collide") {
				return CollidingString(t, "colliding")
			}
			return rapid.SampledFrom(words).Draw(t, "word")
		default:
			n := rapid.IntRange(0, 6).Draw(t, "len")
			var b strings.Builder
			for i := 0; i < n; i++ {
				b.WriteString(rapid.SampledFrom(alphabet).Draw(t, "ch"))
			}
			return b.String()
		}
	})
}

// LongLengths are the byte lengths of long string bodies.
var LongLengths = []int{63, 64, 65, 80, 255, 256, 257, 300, 1023, 1025}

var longUnits = []string{"x", "ab", "\u00e9", "k-", "0123456789"}

// LongString draws a long string: a body of a drawn length built from a
// repeated unit, and a tail of 0..2 alphabet units.
func LongString(t *rapid.T, label string) string {
	unit := rapid.SampledFrom(longUnits).Draw(t, label+"/unit")
	n := rapid.SampledFrom(LongLengths).Draw(t, label+"/len")
	var b strings.Builder
	for b.Len()+len(unit) <= n {
		b.WriteString(unit)
	}
	for k := rapid.IntRange(0, 2).Draw(t, label+"/tail"); k > 0; k-- {
		b.WriteString(rapid.SampledFrom(alphabet).Draw(t, label+"/ch"))
	}
	return b.String()
}

// SimpleString draws from a small pool of plain words (for keys etc.).
func SimpleString() *rapid.Generator[string] {
	return rapid.SampledFrom(words)
}

var attrNames = []string{"a", "b", "c", "id", "\u00e9", "e\u0301", "name", "x", "k\x01", "d\x7f", "t\U000E0001", "q\"uote", "back\\slash", "nl\n", "tail\\", "\\\\"}
var mapKeys = []string{"a", "b", "c", "k1", "k2", "\u00e9", "e\u0301", "", "z", "foo", "\u65e5", "k\x01", "d\x7f", "t\U000E0001", "q\"uote", "back\\slash", "\t"}

// distinctKeys draws n keys distinct after NFC from the pool.
func distinctKeys(t *rapid.T, pool []string, n int, label string) []string {
	if n <= 0 {
		return nil
	}
	if n > len(pool) {
		n = len(pool)
	}
	perm := rapid.Permutation(pool).Draw(t, label)
	out := make([]string, 0, n)
	seen := map[string]bool{}
	for _, k := range perm {
		nk := spec.NFC(k)
		if seen[nk] {
			continue
		}
		seen[nk] = true
		out = append(out, k)
		if len(out) == n {
			break
		}
	}
	sort.Strings(out)
	return out
}

// ---------------------------------------------------------------- types

// TypeOpts controls the type generator.
type TypeOpts struct {
	Depth    int  // maximum nesting depth
	Dynamic  bool // allow dynamic placeholders
	Optional bool // allow optional attributes
	Capsule  bool // allow capsule types
	NoSet    bool
	NoMap    bool
	// CapsuleOps: capsule types include the one with conversion operations.
	CapsuleOps bool
	// Long > 0: a tuple or object type is, with probability about 0.55/Long,
	// a LONG one (5..17 elements / 5..12 attributes of leaf types). 0 = off.
	Long int
}

// longTypeLen rolls for a long structural type.
func longTypeLen(t *rapid.T, o TypeOpts, max int) (int, bool) {
	if o.Long > 0 && rapid.IntRange(0, o.Long-1).Draw(t, "longtype") == o.Long/2 {
		n := rapid.SampledFrom(LongSizes[:10]).Draw(t, "longn")
		if n > max {
			n = max
		}
		return n, true
	}
	return 0, false
}

// Type draws a type specification.
func Type(o TypeOpts) *rapid.Generator[spec.T] {
	return rapid.Custom(func(t *rapid.T) spec.T { return drawType(t, o, o.Depth) })
}

func drawType(t *rapid.T, o TypeOpts, depth int) spec.T {
	kinds := []string{spec.KBool, spec.KNumber, spec.KString, spec.KString, spec.KNumber}
	if o.Dynamic {
		kinds = append(kinds, spec.KDynamic)
	}
	if o.Capsule {
		kinds = append(kinds, spec.KCapsule)
	}
	if depth > 0 {
		kinds = append(kinds, spec.KList, spec.KTuple, spec.KObject, spec.KList, spec.KObject)
		if !o.NoSet {
			kinds = append(kinds, spec.KSet)
		}
		if !o.NoMap {
			kinds = append(kinds, spec.KMap)
		}
	}
	k := rapid.SampledFrom(kinds).Draw(t, "kind")
	switch k {
	case spec.KList, spec.KSet, spec.KMap:
		e := drawType(t, o, depth-1)
		return spec.T{K: k, E: &e}
	case spec.KTuple:
		if n, long := longTypeLen(t, o, 17); long {
			es := make([]spec.T, n)
			ed := depth - 1
			if ed > 1 {
				ed = 1
			}
			eo := o
			eo.Long = 0
			for i := range es {
				es[i] = drawType(t, eo, ed)
			}
			return spec.T{K: spec.KTuple, Elems: es}
		}
		n := rapid.IntRange(0, 3).Draw(t, "tuplelen")
		es := make([]spec.T, n)
		for i := range es {
			es[i] = drawType(t, o, depth-1)
		}
		return spec.T{K: spec.KTuple, Elems: es}
	case spec.KObject:
		n := rapid.IntRange(0, 3).Draw(t, "nattrs")
		if ln, long := longTypeLen(t, o, len(attrNames)-2); long {
			n = ln
			if depth > 2 {
				depth = 2 // attributes of a long object type are shallow
			}
			o.Long = 0
		}
		names := distinctKeys(t, attrNames, n, "attrnames")
		as := make([]spec.Attr, len(names))
		for i, nm := range names {
			as[i] = spec.Attr{Name: nm, T: drawType(t, o, depth-1)}
			if o.Optional && rapid.IntRange(0, 3).Draw(t, "opt") == 0 {
				as[i].Opt = true
			}
		}
		return spec.T{K: spec.KObject, Attrs: as}
	case spec.KCapsule:
		if o.CapsuleOps {
			// "C" has conversion operations of its own (to string: fails for odd
			// payloads; to number; from number: fails outside 0..3)
			return spec.CapsuleT(rapid.SampledFrom([]string{"A", "B", "A2", "C", "C"}).Draw(t, "cap"))
		}
		return spec.CapsuleT(rapid.SampledFrom([]string{"A", "B", "A2"}).Draw(t, "cap"))
	}
	return spec.T{K: k}
}

// ---------------------------------------------------------------- values

// ValOpts controls the value generator.
type ValOpts struct {
	Null     bool // allow nulls (any depth)
	Unknown  bool // allow unknowns (any depth), possibly refined
	Marks    bool // allow marks (any depth)
	NoInf    bool
	MaxElems int // default 3
	// RootKnown forces the root to be known and non-null.
	RootKnown bool
	// Simple restricts strings and numbers to small friendly pools.
	Simple bool
	// Long > 0: one collection in Long (per value: the first that rolls it) is
	// a LONG one, 5..40 members of simple shape, beyond MaxElems. Code that is
	// gated by size (a fast path for short inputs, another algorithm beyond a
	// threshold, a second hash bucket, a header that grows) is only reached
	// this way. 0 = off: generators that do not ask draw exactly as before.
	Long int
	// inLong is set while the members of a long collection are drawn.
	inLong bool
	// ExtremeNums: see NumOpts.Extreme.
	ExtremeNums bool
}

// LongSizes are the member counts of long collections: just past the usual
// bound, around powers of two, and a few dozen.
var LongSizes = []int{5, 6, 7, 8, 9, 10, 12, 15, 16, 17, 24, 31, 32, 33, 40}

// drawLen draws a member count: 0..MaxElems, or - when o.Long is set - once
// in o.Long a long count. It reports whether the collection is long.
func drawLen(t *rapid.T, o ValOpts) (int, bool) {
	// rapid's integer ranges favour their ends (0 comes up about one time in
	// ten whatever the range): the middle of the range is drawn with a
	// probability of about 0.55/Long, which is what is wanted here
	if o.Long > 0 && !o.inLong && rapid.IntRange(0, o.Long-1).Draw(t, "long") == o.Long/2 {
		return rapid.SampledFrom(LongSizes).Draw(t, "longn"), true
	}
	return rapid.IntRange(0, o.MaxElems).Draw(t, "n"), false
}

// longMemberOpts are the options for the members of a long collection: nested
// collections stay tiny so that a long collection stays cheap; simple numbers
// and strings come from wider pools so that long sets keep their length.
func longMemberOpts(o ValOpts) ValOpts {
	o.inLong = true
	o.MaxElems = 1
	return o
}

// longKeys are distinct, NFC-stable map keys for long maps, on top of mapKeys.
func longKeys(n int) []string {
	out := make([]string, 0, n)
	for i := 0; len(out) < n; i++ {
		out = append(out, "key"+string(rune('a'+i%26))+string(rune('0'+i/26)))
	}
	sort.Strings(out)
	return out
}

var markNames = []string{"m1", "m2", "m3"}

// Value draws a value specification of the given type. Dynamic positions in
// the type are instantiated with a concrete primitive-or-small type (or null /
// DynamicVal when allowed). Optional markers in ty are ignored.
func Value(ty spec.T, o ValOpts) *rapid.Generator[spec.V] {
	return rapid.Custom(func(t *rapid.T) spec.V {
		v := drawValue(t, ty.StripOptional(), o, true)
		return v.Retype()
	})
}

func drawValue(t *rapid.T, ty spec.T, o ValOpts, root bool) spec.V {
	if o.MaxElems == 0 {
		o.MaxElems = 3
	}
	forceKnown := root && o.RootKnown
	var v spec.V
	roll := rapid.IntRange(0, 19).Draw(t, "state")
	switch {
	case !forceKnown && o.Null && roll == 0:
		v = spec.NullOf(ty)
	case !forceKnown && o.Unknown && (roll == 1 || roll == 2):
		v = drawUnknown(t, ty, o)
	default:
		v = drawKnown(t, ty, o)
	}
	if o.Marks && rapid.IntRange(0, 5).Draw(t, "marked") == 0 {
		n := rapid.IntRange(1, 2).Draw(t, "nmarks")
		v.Marks = append([]string(nil), rapid.Permutation(markNames).Draw(t, "marks")[:n]...)
		sort.Strings(v.Marks)
	}
	return v
}

func drawUnknown(t *rapid.T, ty spec.T, o ValOpts) spec.V {
	v := spec.UnknownOf(ty)
	if ty.K == spec.KDynamic || rapid.Bool().Draw(t, "unrefined") {
		return v
	}
	r := &spec.Ref{}
	if rapid.Bool().Draw(t, "notnull") {
		r.Null = "notnull"
	}
	switch {
	case ty.K == spec.KNumber:
		a := SmallInt(-5, 10).Draw(t, "lo")
		b := SmallInt(-5, 10).Draw(t, "hi")
		af, bf := a.Float(), b.Float()
		if af.Cmp(bf) > 0 {
			a, b = b, a
		}
		if rapid.Bool().Draw(t, "haslo") {
			r.Lo, r.LoInc = &a, true
		}
		if rapid.Bool().Draw(t, "hashi") {
			r.Hi, r.HiInc = &b, true
		}
	case ty.K == spec.KString:
		if rapid.Bool().Draw(t, "hasprefix") {
			p := rapid.SampledFrom([]string{"a", "foo", "ba", "\u00e9", "x-", "e\u0301", "cafe\u0301-", "A\u030a", "\u1100\u1161"}).Draw(t, "prefix")
			r.Prefix, r.PrefixFull = &p, true
		}
	case ty.IsColl():
		lo := rapid.IntRange(0, 2).Draw(t, "minlen")
		hi := lo + rapid.IntRange(0, 3).Draw(t, "lenspan")
		if rapid.Bool().Draw(t, "hasmin") {
			r.MinLen = &lo
		}
		if rapid.Bool().Draw(t, "hasmax") {
			r.MaxLen = &hi
		}
	}
	if *r == (spec.Ref{}) {
		return v
	}
	v.Ref = r
	return v
}

// dynamic positions are instantiated with one of these types
var dynInst = []spec.T{spec.String, spec.Number, spec.Bool, spec.List(spec.String), spec.Tuple(spec.Number, spec.String),
	spec.Object(spec.Attr{Name: "a", T: spec.String}), spec.Tuple(), spec.Object(), spec.Map(spec.Number)}

func drawKnown(t *rapid.T, ty spec.T, o ValOpts) spec.V {
	switch ty.K {
	case spec.KBool:
		return spec.KnownBool(rapid.Bool().Draw(t, "b"))
	case spec.KNumber:
		if o.Simple && o.inLong && rapid.Bool().Draw(t, "wide") {
			// half of the members of a long collection come from a wider pool
			// (long sets keep their length), half from the narrow one (long
			// lists hold duplicates)
			return spec.KnownNum(SmallInt(-40, 80).Draw(t, "n"))
		}
		if o.Simple {
			return spec.KnownNum(SmallInt(-3, 12).Draw(t, "n"))
		}
		return spec.KnownNum(Num(NumOpts{NoInf: o.NoInf, Extreme: o.ExtremeNums}).Draw(t, "n"))
	case spec.KString:
		if o.Simple && o.inLong && rapid.Bool().Draw(t, "wide") {
			return spec.KnownStr(SimpleString().Draw(t, "s") + strconv.Itoa(rapid.IntRange(0, 60).Draw(t, "sfx")))
		}
		if o.Simple {
			return spec.KnownStr(SimpleString().Draw(t, "s"))
		}
		return spec.KnownStr(String().Draw(t, "s"))
	case spec.KDynamic:
		// a known value at a dynamic position has some concrete type
		it := rapid.SampledFrom(dynInst).Draw(t, "dyninst")
		return drawKnown(t, it, o)
	case spec.KList, spec.KSet:
		n, long := drawLen(t, o)
		if long {
			o = longMemberOpts(o)
		}
		et := instDyn(t, *ty.E)
		v := spec.V{T: spec.T{K: ty.K, E: &et}, St: spec.Known}
		for i := 0; i < n; i++ {
			v.Elems = append(v.Elems, drawValue(t, et, o, false))
		}
		return v
	case spec.KMap:
		n, long := drawLen(t, o)
		et := instDyn(t, *ty.E)
		v := spec.V{T: spec.T{K: ty.K, E: &et}, St: spec.Known}
		if long {
			o = longMemberOpts(o)
			v.Keys = longKeys(n)
		} else {
			v.Keys = distinctKeys(t, mapKeys, n, "keys")
		}
		for range v.Keys {
			v.Elems = append(v.Elems, drawValue(t, et, o, false))
		}
		return v
	case spec.KTuple:
		v := spec.V{T: ty, St: spec.Known}
		for _, et := range ty.Elems {
			v.Elems = append(v.Elems, drawValue(t, et, o, false))
		}
		return v
	case spec.KObject:
		v := spec.V{T: ty, St: spec.Known}
		for _, a := range ty.Attrs {
			v.Keys = append(v.Keys, a.Name)
			v.Elems = append(v.Elems, drawValue(t, a.T, o, false))
		}
		return v
	case spec.KCapsule:
		return spec.V{T: ty, St: spec.Known, Cap: rapid.IntRange(0, 7).Draw(t, "cap")}
	}
	panic("gen: bad kind " + ty.K)
}

// instDyn replaces every dynamic placeholder inside a collection element type
// by a concrete type (all members of a collection share one element type).
func instDyn(t *rapid.T, ty spec.T) spec.T {
	switch ty.K {
	case spec.KDynamic:
		return rapid.SampledFrom(dynInst).Draw(t, "dyninst")
	case spec.KList, spec.KSet, spec.KMap:
		e := instDyn(t, *ty.E)
		return spec.T{K: ty.K, E: &e}
	case spec.KTuple:
		es := make([]spec.T, len(ty.Elems))
		for i, e := range ty.Elems {
			es[i] = instDyn(t, e)
		}
		return spec.T{K: spec.KTuple, Elems: es}
	case spec.KObject:
		as := make([]spec.Attr, len(ty.Attrs))
		for i, a := range ty.Attrs {
			as[i] = spec.Attr{Name: a.Name, T: instDyn(t, a.T)}
		}
		return spec.T{K: spec.KObject, Attrs: as}
	}
	return ty
}

// farLens are upper length bounds far above the true length: powers of two
// whose products overflow 64 bits, and the limits of the narrower integers.
var farLens = []int{16, 255, 256, 1024, 65535, 65536, 1 << 31, 1 << 32, 1<<62 + 1}

// distinctSimple counts the distinct members of a set spec when every member
// is a known, unmarked string, bool or Go-integer number (no doubt about
// their equality); ok is false otherwise.
func distinctSimple(elems []spec.V) (n int, ok bool) {
	seen := map[string]bool{}
	for _, e := range elems {
		if e.St != spec.Known || len(e.Marks) > 0 {
			return 0, false
		}
		switch {
		case e.T.K == spec.KString:
			seen["s"+spec.NFC(e.S)] = true
		case e.T.K == spec.KBool:
			seen[fmt.Sprint("b", e.B)] = true
		case e.T.K == spec.KNumber && e.N != nil && e.N.Route == "int":
			seen["n"+e.N.Text] = true
		default:
			return 0, false
		}
	}
	return len(seen), true
}

// FarLen draws one of the far upper length bounds.
func FarLen(t *rapid.T) int { return rapid.SampledFrom(farLens).Draw(t, "farlen") }

// upperLen draws an upper length bound for a collection of n members: at or
// just above n, or (about one time in twenty) far above it.
func upperLen(t *rapid.T, n int) int {
	if rapid.IntRange(0, 9).Draw(t, "farhi") == 5 {
		if far := rapid.SampledFrom(farLens).Draw(t, "far"); far >= n {
			return far
		}
		return n
	}
	return n + rapid.IntRange(0, 2).Draw(t, "hi")
}

// AnyValue draws a type and then a value of it.
func AnyValue(to TypeOpts, vo ValOpts) *rapid.Generator[spec.V] {
	return rapid.Custom(func(t *rapid.T) spec.V {
		ty := Type(to).Draw(t, "type")
		return Value(ty, vo).Draw(t, "value")
	})
}

// ---------------------------------------------------------------- weakening

// Weaken replaces a subset of sub-values of the wholly-known value v by unknown
// values that admit the replaced part (DESIGN.md §2.3). It returns the
// weakened spec and the list of weakening kinds used. allowDyn permits
// DynamicVal at the root and in tuple/object member positions.
func Weaken(t *rapid.T, v spec.V, allowDyn bool) (spec.V, []string) {
	var kinds []string
	w := weaken(t, v, allowDyn, true, &kinds, 3)
	return w.Retype(), kinds
}

func weaken(t *rapid.T, v spec.V, allowDyn, dynPos bool, kinds *[]string, prob int) spec.V {
	// prob: replace this node with probability 1/prob
	if rapid.IntRange(0, prob-1).Draw(t, "weakenhere") == 0 {
		return abstractOf(t, v, allowDyn && dynPos, kinds)
	}
	if v.St != spec.Known || len(v.Elems) == 0 {
		return v
	}
	out := v
	out.Elems = make([]spec.V, len(v.Elems))
	// a member may become DynamicVal only in a tuple/object position that is
	// not itself (transitively) a member of a collection: collection members
	// must keep one common element type.
	childDyn := dynPos && (v.T.K == spec.KTuple || v.T.K == spec.KObject)
	for i, e := range v.Elems {
		out.Elems[i] = weaken(t, e, allowDyn, childDyn, kinds, prob+1)
	}
	// The members of a collection may hold DynamicVal after all when they are
	// tuples / objects and EVERY member holds it at the same position: the
	// members then still share one type (with a placeholder in it).
	if allowDyn && dynPos && v.T.IsColl() && uniformStructs(out.Elems) && rapid.IntRange(0, 7).Draw(t, "dynhole") == 4 {
		k := rapid.IntRange(0, len(out.Elems[0].Elems)-1).Draw(t, "dynholeat")
		for i := range out.Elems {
			m := out.Elems[i]
			m.Elems = append([]spec.V(nil), m.Elems...)
			d := spec.DynamicVal()
			d.Marks = m.Elems[k].Marks
			m.Elems[k] = d
			out.Elems[i] = m
		}
		*kinds = append(*kinds, "dynamic-in-collection-member")
	}
	return out
}

// uniformStructs: every member is a known, unmarked tuple or object with at
// least one member, all of the same length (and, for objects, the same names).
func uniformStructs(ms []spec.V) bool {
	if len(ms) == 0 {
		return false
	}
	for _, m := range ms {
		if m.St != spec.Known || len(m.Marks) > 0 || (m.T.K != spec.KTuple && m.T.K != spec.KObject) || len(m.Elems) == 0 ||
			m.T.K != ms[0].T.K || len(m.Elems) != len(ms[0].Elems) {
			return false
		}
		for i := range m.Keys {
			if m.Keys[i] != ms[0].Keys[i] {
				return false
			}
		}
	}
	return true
}

// abstractOf draws an unknown value that admits the wholly-known value v.
func abstractOf(t *rapid.T, v spec.V, allowDyn bool, kinds *[]string) spec.V {
	add := func(k string) { *kinds = append(*kinds, k) }
	marks := v.Marks
	ty := lubType(v)
	u := spec.UnknownOf(ty)
	u.Marks = marks
	if allowDyn && rapid.IntRange(0, 5).Draw(t, "todyn") == 0 {
		add("dynamic")
		d := spec.DynamicVal()
		d.Marks = marks
		return d
	}
	if ty.K == spec.KDynamic {
		add("dynamic")
		return u
	}
	if rapid.IntRange(0, 2).Draw(t, "unrefined") == 0 {
		add("unrefined")
		return u
	}
	r := &spec.Ref{}
	if v.St == spec.Null {
		// A null is admitted by "is null" and by ANY type-specific refinement
		// that does not also say not-null: bounds, prefixes and lengths
		// constrain the value only "if it turns out not to be null"
		// (docs/refinements.md), so they may be arbitrary here.
		switch rapid.IntRange(0, 3).Draw(t, "nullkind") {
		case 0:
			r.Null = "null"
			add("ref-null")
			u.Ref = r
		case 1:
			add("unrefined")
		default:
			switch {
			case ty.K == spec.KNumber:
				lo := rapid.IntRange(-3, 8).Draw(t, "nlo")
				hi := lo + rapid.IntRange(0, 3).Draw(t, "nspan")
				if rapid.IntRange(0, 3).Draw(t, "haslo") != 0 {
					n := spec.NInt(int64(lo))
					r.Lo, r.LoInc = &n, true
				}
				if rapid.IntRange(0, 3).Draw(t, "hashi") != 0 {
					n := spec.NInt(int64(hi))
					r.Hi, r.HiInc = &n, true
				}
			case ty.K == spec.KString:
				p := rapid.SampledFrom([]string{"a", "b", "foo", "https://"}).Draw(t, "npfx")
				r.Prefix, r.PrefixFull = &p, true
			case ty.IsColl():
				lo := rapid.IntRange(0, 4).Draw(t, "nminlen")
				hi := lo + rapid.IntRange(0, 2).Draw(t, "nlenspan")
				if rapid.IntRange(0, 3).Draw(t, "hasminlen") != 0 {
					r.MinLen = &lo
				}
				if rapid.IntRange(0, 3).Draw(t, "hasmaxlen") != 0 {
					r.MaxLen = &hi
				}
			}
			if *r != (spec.Ref{}) {
				u.Ref = r
				add("null-under-bounds")
			} else {
				add("unrefined")
			}
		}
		return u
	}
	if rapid.Bool().Draw(t, "notnull") {
		r.Null = "notnull"
		add("notnull")
	}
	switch {
	case ty.K == spec.KNumber:
		x := v.N.Float()
		if rapid.Bool().Draw(t, "lo") {
			lo, inc := boundFor(t, v.N, x, -1)
			r.Lo, r.LoInc = &lo, inc
			add(fmt.Sprintf("lo-%s", incl(inc, lo, v.N)))
		}
		if rapid.Bool().Draw(t, "hi") {
			hi, inc := boundFor(t, v.N, x, +1)
			r.Hi, r.HiInc = &hi, inc
			add(fmt.Sprintf("hi-%s", incl(inc, hi, v.N)))
		}
	case ty.K == spec.KString:
		if rapid.Bool().Draw(t, "prefix") {
			s := spec.NFC(v.S)
			// cut at a rune boundary of the normalised string
			cuts := []int{0}
			for i := range s {
				if i > 0 {
					cuts = append(cuts, i)
				}
			}
			cuts = append(cuts, len(s))
			c := rapid.SampledFrom(cuts).Draw(t, "cut")
			p := s[:c]
			r.Prefix = &p
			// the full-prefix constructor is only sound for a prefix that
			// really is a byte prefix of the normalised string: s[:c] is.
			r.PrefixFull = rapid.Bool().Draw(t, "full")
			if !r.PrefixFull && v.S != s && rapid.Bool().Draw(t, "rawprefix") {
				// the safe constructor takes any prefix of the string AS WRITTEN
				// (before normalisation): what follows the cut may fuse with its
				// last character, which is what the constructor must allow for
				var rcuts []int
				for i := range v.S {
					rcuts = append(rcuts, i)
				}
				rcuts = append(rcuts, len(v.S))
				rp := v.S[:rapid.SampledFrom(rcuts).Draw(t, "rawcut")]
				r.Prefix = &rp
				add("prefix-raw")
			}
			if r.PrefixFull {
				add("prefix-full")
			} else {
				add("prefix-safe")
			}
		}
	case ty.IsColl():
		n := len(v.Elems)
		if v.T.K == spec.KSet {
			// the true length of a set spec is the number of distinct members,
			// which the spec does not know without an equality model: only
			// state bounds that hold for every possible coalescing.
			// For members whose equality is beyond doubt (known strings, bools,
			// numbers built from Go integers) the number of distinct members
			// is known, and the bounds can be as tight as for a list: a set
			// spec may list one member twice.
			d, exact := distinctSimple(v.Elems)
			if rapid.Bool().Draw(t, "minlen") && n > 0 {
				lo := rapid.IntRange(0, 1).Draw(t, "lo")
				if exact {
					lo = rapid.IntRange(0, d).Draw(t, "loexact")
				}
				r.MinLen = &lo
				add("minlen")
			}
			if rapid.Bool().Draw(t, "maxlen") {
				hi := upperLen(t, n)
				if exact {
					hi = upperLen(t, d)
					add("maxlen-exact-set")
				}
				r.MaxLen = &hi
				add("maxlen")
			}
		} else {
			if rapid.Bool().Draw(t, "minlen") {
				lo := rapid.IntRange(0, n).Draw(t, "lo")
				r.MinLen = &lo
				add("minlen")
			}
			if rapid.Bool().Draw(t, "maxlen") {
				hi := upperLen(t, n)
				r.MaxLen = &hi
				add("maxlen")
			}
		}
	}
	if *r != (spec.Ref{}) {
		u.Ref = r
	} else {
		add("unrefined")
	}
	return u
}

func incl(inc bool, b spec.Num, v *spec.Num) string {
	s := "excl"
	if inc {
		s = "incl"
	}
	if b.Float().Cmp(v.Float()) == 0 {
		s += "-tie"
	}
	return s
}

// boundFor draws a bound on the given side (-1 lower, +1 upper) of x that x
// satisfies. Inclusive bounds may equal x; exclusive bounds are strictly
// beyond it, by a margin that is not a rounding artefact (at least 1/1024
// relative or absolute), so that cty's text-based number equality cannot
// identify the bound with the value.
func boundFor(t *rapid.T, n *spec.Num, x *big.Float, side int) (spec.Num, bool) {
	if x.IsInf() {
		// only an inclusive bound at the same infinity, or nothing tighter
		if (x.Sign() < 0) == (side < 0) {
			return *n, true
		}
		// bound beyond +inf on the lower side does not exist: use -inf/+inf inclusive
		if side < 0 {
			return spec.Num{Route: "-inf"}, true
		}
		return spec.Num{Route: "+inf"}, true
	}
	switch rapid.IntRange(0, 4).Draw(t, "boundkind") {
	case 0:
		return *n, true // the value itself, inclusive
	case 1:
		if side < 0 {
			return spec.Num{Route: "-inf"}, rapid.Bool().Draw(t, "inc")
		}
		return spec.Num{Route: "+inf"}, rapid.Bool().Draw(t, "inc")
	default:
		// x ± delta with delta ≥ max(|x|/1024, 1/1024), as an exact decimal at 512 bits
		d := new(big.Float).SetPrec(512).Abs(x)
		d.Quo(d, big.NewFloat(1024))
		min := big.NewFloat(1.0 / 1024)
		if d.Cmp(min) < 0 {
			d = min
		}
		k := rapid.IntRange(1, 4).Draw(t, "k")
		d.Mul(d, big.NewFloat(float64(k)))
		b := new(big.Float).SetPrec(512)
		if side < 0 {
			b.Sub(x, d)
		} else {
			b.Add(x, d)
		}
		// round outward to an integer half of the time (friendlier bounds)
		if rapid.Bool().Draw(t, "intbound") {
			i, _ := b.Int(nil)
			bi := new(big.Float).SetPrec(512).SetInt(i)
			if (side < 0 && bi.Cmp(x) < 0 || side > 0 && bi.Cmp(x) > 0) && shortText(bi) != shortText(x) {
				return spec.NParse(i.String()), rapid.Bool().Draw(t, "inc")
			}
		}
		if shortText(b) == shortText(x) {
			// the bound would be "equal" to the value under cty's text-based
			// number equality (possible for low-precision values): use the
			// value itself, inclusive.
			return *n, true
		}
		return spec.Num{Route: "big", Text: b.Text('g', 160), Prec: 512}, rapid.Bool().Draw(t, "inc")
	}
}

// shortText is the shortest decimal text identifying f at its precision (the
// text cty's number equality compares).
func shortText(f *big.Float) string { return f.Text('f', -1) }

// lubType is the type constraint used for an unknown replacing v.
func lubType(v spec.V) spec.T {
	return v.T
}

// ---------------------------------------------------------------- type mutation

// MutateType returns a type that differs from ty at exactly one position
// (kind change, attribute rename / add / drop, optional toggle, tuple swap or
// length change, other capsule, dynamic inserted), and a label for the edit.
func MutateType(t *rapid.T, ty spec.T, o TypeOpts) (spec.T, string) {
	// collect positions
	n := countNodes(ty)
	target := rapid.IntRange(0, n-1).Draw(t, "mutpos")
	// bias towards container nodes (most nodes are leaves)
	if conts := containerNodes(ty); len(conts) > 0 && rapid.Bool().Draw(t, "mutcontainer") {
		target = rapid.SampledFrom(conts).Draw(t, "mutcpos")
	}
	label := ""
	idx := 0
	var rec func(x spec.T) spec.T
	rec = func(x spec.T) spec.T {
		me := idx
		idx++
		if me == target {
			y, l := mutateNode(t, x, o)
			label = l
			// skip numbering of the subtree
			idx += countNodes(x) - 1
			return y
		}
		switch x.K {
		case spec.KList, spec.KSet, spec.KMap:
			e := rec(*x.E)
			return spec.T{K: x.K, E: &e}
		case spec.KTuple:
			es := make([]spec.T, len(x.Elems))
			for i, e := range x.Elems {
				es[i] = rec(e)
			}
			return spec.T{K: spec.KTuple, Elems: es}
		case spec.KObject:
			as := make([]spec.Attr, len(x.Attrs))
			for i, a := range x.Attrs {
				as[i] = spec.Attr{Name: a.Name, Opt: a.Opt, T: rec(a.T)}
			}
			return spec.T{K: spec.KObject, Attrs: as}
		}
		return x
	}
	out := rec(ty)
	return out, label
}

func countNodes(x spec.T) int {
	n := 1
	switch x.K {
	case spec.KList, spec.KSet, spec.KMap:
		n += countNodes(*x.E)
	case spec.KTuple:
		for _, e := range x.Elems {
			n += countNodes(e)
		}
	case spec.KObject:
		for _, a := range x.Attrs {
			n += countNodes(a.T)
		}
	}
	return n
}

func mutateNode(t *rapid.T, x spec.T, o TypeOpts) (spec.T, string) {
	var opts []string
	opts = append(opts, "replace")
	switch x.K {
	case spec.KList, spec.KSet, spec.KMap:
		opts = append(opts, "collkind")
	case spec.KTuple:
		opts = append(opts, "tuplelen")
		if len(x.Elems) >= 2 {
			opts = append(opts, "tupleswap")
		}
		if len(x.Elems) >= 1 {
			opts = append(opts, "tolist")
		}
	case spec.KObject:
		opts = append(opts, "attradd")
		if len(x.Attrs) >= 1 {
			opts = append(opts, "attrdrop", "attrrename", "tomap")
			if o.Optional {
				opts = append(opts, "opttoggle", "opttoggle")
			}
		}
	case spec.KCapsule:
		opts = append(opts, "othercapsule")
	}
	if o.Dynamic && x.K != spec.KDynamic {
		opts = append(opts, "todynamic")
	}
	switch op := rapid.SampledFrom(opts).Draw(t, "mutop"); op {
	case "collkind":
		ks := []string{spec.KList, spec.KSet, spec.KMap}
		k := rapid.SampledFrom(ks).Draw(t, "newkind")
		return spec.T{K: k, E: x.E}, op
	case "tuplelen":
		if len(x.Elems) > 0 && rapid.Bool().Draw(t, "shrink") {
			return spec.T{K: spec.KTuple, Elems: append([]spec.T(nil), x.Elems[:len(x.Elems)-1]...)}, op
		}
		return spec.T{K: spec.KTuple, Elems: append(append([]spec.T(nil), x.Elems...), drawType(t, o, 0))}, op
	case "tupleswap":
		es := append([]spec.T(nil), x.Elems...)
		i := rapid.IntRange(0, len(es)-2).Draw(t, "swapi")
		es[i], es[i+1] = es[i+1], es[i]
		return spec.T{K: spec.KTuple, Elems: es}, op
	case "tolist":
		e := x.Elems[0]
		return spec.T{K: spec.KList, E: &e}, op
	case "tomap":
		e := x.Attrs[0].T
		return spec.T{K: spec.KMap, E: &e}, op
	case "attradd":
		have := map[string]bool{}
		for _, a := range x.Attrs {
			have[spec.NFC(a.Name)] = true
		}
		for _, nm := range []string{"q", "zz", "a", "b"} {
			if !have[nm] {
				as := append(append([]spec.Attr(nil), x.Attrs...), spec.Attr{Name: nm, T: drawType(t, o, 0)})
				return spec.T{K: spec.KObject, Attrs: as}, op
			}
		}
		return spec.T{K: spec.KObject, Attrs: x.Attrs[:0]}, "attrdrop"
	case "attrdrop":
		i := rapid.IntRange(0, len(x.Attrs)-1).Draw(t, "dropi")
		as := append([]spec.Attr(nil), x.Attrs[:i]...)
		as = append(as, x.Attrs[i+1:]...)
		return spec.T{K: spec.KObject, Attrs: as}, op
	case "attrrename":
		i := rapid.IntRange(0, len(x.Attrs)-1).Draw(t, "reni")
		as := append([]spec.Attr(nil), x.Attrs...)
		as[i].Name = as[i].Name + "_r"
		return spec.T{K: spec.KObject, Attrs: as}, op
	case "opttoggle":
		i := rapid.IntRange(0, len(x.Attrs)-1).Draw(t, "opti")
		as := append([]spec.Attr(nil), x.Attrs...)
		as[i].Opt = !as[i].Opt
		return spec.T{K: spec.KObject, Attrs: as}, op
	case "othercapsule":
		others := map[string][]string{"A": {"A2", "B"}, "A2": {"A", "B"}, "B": {"A", "A2"}, "C": {"A", "B"}}[x.Cap]
		if len(others) == 0 {
			others = []string{"A"}
		}
		return spec.CapsuleT(rapid.SampledFrom(others).Draw(t, "othercap")), op
	case "todynamic":
		return spec.Dynamic, op
	default:
		for i := 0; i < 10; i++ {
			y := drawType(t, o, 1)
			if !y.Equal(x) {
				return y, "replace"
			}
		}
		if x.K == spec.KBool {
			return spec.String, "replace"
		}
		return spec.Bool, "replace"
	}
}

func containerNodes(ty spec.T) []int {
	var out []int
	idx := 0
	var rec func(x spec.T)
	rec = func(x spec.T) {
		me := idx
		idx++
		switch x.K {
		case spec.KList, spec.KSet, spec.KMap:
			out = append(out, me)
			rec(*x.E)
		case spec.KTuple:
			out = append(out, me)
			for _, e := range x.Elems {
				rec(e)
			}
		case spec.KObject:
			out = append(out, me)
			for _, a := range x.Attrs {
				rec(a.T)
			}
		}
	}
	rec(ty)
	return out
}
