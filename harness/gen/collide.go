package gen

import (
	"hash/crc32"

	"pgregory.net/rapid"

	"verif/harness/spec"
)

// Families of values that collide under CRC-32 (IEEE), the checksum cty uses
// to turn a value's hash bytes into Value.Hash() and into the bucket key of
// its sets. CRC-32 is affine, so messages of equal length whose differences
// lie in the kernel of the checksum collide in ANY common context (inside the
// quotes of a string's hash bytes, as a tuple member, as an attribute value):
// all 16 strings collide with each other, all 16 numbers (whole, below 2^53,
// so exact through every construction route) collide with each other, and so
// do same-shaped tuples/lists/objects built from them position by position.
// The families were computed offline by Gaussian elimination over GF(2); the
// init below re-verifies them.
var CollidingStrings = []string{"pppppppppppp", "psuwuuuwqtsq", "puwutuuqpqtt", "pvrrqppvquwu", "spppqprptrut", "ssuwtuwwuvvu", "suwuuuwqtsqp", "svrrpprvuwrq",
	"uqwvtuqvpqsu", "urrqqptqqupt", "utpspptwppwq", "uwutuuqpqttp", "vqwvuusvtsvq", "vrrqppvquwup", "vtpsqpvwtrru", "vwuttuspuvqt"}

var CollidingInts = []string{"1000000000000", "1035755571431", "1057545510144", "1062210061575", "1300010204254", "1335745775665", "1357555714310", "1362200265721",
	"1517645160135", "1522110411504", "1540300470071", "1575455101440", "1617655364361", "1622100615750", "1640310674225", "1675445305614"}

func init() {
	for _, fam := range [][]string{CollidingStrings, CollidingInts} {
		want := crc32.ChecksumIEEE([]byte(fam[0]))
		for _, s := range fam {
			if crc32.ChecksumIEEE([]byte(s)) != want || len(s) != len(fam[0]) {
				panic("gen: colliding family is broken at " + s)
			}
		}
	}
}

// CollidingString draws one of the mutually colliding strings (biased to the
// first four so that repeats and pairs are frequent).
func CollidingString(t *rapid.T, label string) string {
	if rapid.Bool().Draw(t, label+"/few") {
		return CollidingStrings[rapid.IntRange(0, 3).Draw(t, label)]
	}
	return rapid.SampledFrom(CollidingStrings).Draw(t, label)
}

// CollidingNum draws one of the mutually colliding whole numbers through a
// random construction route.
func CollidingNum(t *rapid.T, label string) spec.Num {
	var s string
	if rapid.Bool().Draw(t, label+"/few") {
		s = CollidingInts[rapid.IntRange(0, 3).Draw(t, label)]
	} else {
		s = rapid.SampledFrom(CollidingInts).Draw(t, label)
	}
	switch rapid.IntRange(0, 3).Draw(t, label+"/route") {
	case 0:
		return spec.Num{Route: "int", Text: s}
	case 1:
		return spec.Num{Route: "big", Text: s, Prec: 64}
	default:
		return spec.NParse(s)
	}
}
