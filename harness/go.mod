module verif/harness

go 1.23

toolchain go1.23.5

require (
	github.com/apparentlymart/go-textseg/v15 v15.0.0
	github.com/zclconf/go-cty v0.0.0
	golang.org/x/text v0.11.0
	pgregory.net/rapid v1.3.0
)

require (
	github.com/vmihailenco/msgpack/v5 v5.3.5 // indirect
	github.com/vmihailenco/tagparser/v2 v2.0.0 // indirect
)

replace github.com/zclconf/go-cty => /repo
