package model

// ratarith: exact reference arithmetic for cty numbers (DESIGN.md §2.4).
//
// A cty number is a big.Float (finite, of some precision, or a signed
// infinity). Its exact value is a dyadic rational, so every finite operand
// converts to a big.Rat without loss and the reference result of an
// arithmetic operation is computed exactly. The tolerance rule "within the
// precision of the operands" (property C02 / C14) is:
//
//	p = max operand precision, capped at 512 bits;
//	the result must be EXACT whenever the exact result's mantissa fits in p
//	bits (this covers "results on integers that fit are exact");
//	otherwise |got - exact| <= |exact| * 2^-(p-1).
//
// Nothing in this file looks at the library under test.

import (
	"fmt"
	"math/big"
)

// X is an extended rational: a finite rational or a signed infinity.
type X struct {
	Inf int      // -1, 0, +1; when non-zero R is nil
	R   *big.Rat // finite value (never nil when Inf == 0)
}

// XInf returns the infinity of the given sign (sign < 0: -Inf, otherwise +Inf).
func XInf(sign int) X {
	if sign < 0 {
		return X{Inf: -1}
	}
	return X{Inf: 1}
}

// XRat wraps a finite rational (the value is copied).
func XRat(r *big.Rat) X { return X{R: new(big.Rat).Set(r)} }

// XInt is the extended rational of a small integer.
func XInt(i int64) X { return X{R: new(big.Rat).SetInt64(i)} }

// XOf is the exact value of a big.Float (negative zero is zero).
func XOf(f *big.Float) X {
	if f.IsInf() {
		return XInf(f.Sign())
	}
	r, _ := f.Rat(nil)
	if r == nil {
		r = new(big.Rat)
	}
	return X{R: r}
}

func (x X) IsInf() bool { return x.Inf != 0 }

// Sign is -1, 0 or +1.
func (x X) Sign() int {
	if x.Inf != 0 {
		return x.Inf
	}
	return x.R.Sign()
}

// IsZero reports whether x is (finite) zero.
func (x X) IsZero() bool { return x.Inf == 0 && x.R.Sign() == 0 }

// IsInt reports whether x is a finite integer.
func (x X) IsInt() bool { return x.Inf == 0 && x.R.IsInt() }

func (x X) String() string {
	switch {
	case x.Inf > 0:
		return "+Inf"
	case x.Inf < 0:
		return "-Inf"
	}
	s := x.R.RatString()
	if len(s) > 120 {
		f := new(big.Float).SetPrec(600).SetRat(x.R)
		return f.Text('g', 40) + "(approx)"
	}
	return s
}

// XCmp compares two extended rationals exactly (-Inf < finite < +Inf; equal
// infinities compare equal).
func XCmp(a, b X) int {
	switch {
	case a.Inf != 0 || b.Inf != 0:
		switch {
		case a.Inf == b.Inf:
			return 0
		case a.Inf < b.Inf:
			return -1
		default:
			return 1
		}
	}
	return a.R.Cmp(b.R)
}

// XNeg is -a.
func XNeg(a X) X {
	if a.Inf != 0 {
		return X{Inf: -a.Inf}
	}
	return X{R: new(big.Rat).Neg(a.R)}
}

// XAbs is |a|.
func XAbs(a X) X {
	if a.Inf != 0 {
		return X{Inf: 1}
	}
	return X{R: new(big.Rat).Abs(a.R)}
}

// XAdd is a+b; ok is false when the sum is undefined (infinities of opposite sign).
func XAdd(a, b X) (X, bool) {
	switch {
	case a.Inf != 0 && b.Inf != 0:
		if a.Inf != b.Inf {
			return X{}, false
		}
		return a, true
	case a.Inf != 0:
		return a, true
	case b.Inf != 0:
		return b, true
	}
	return X{R: new(big.Rat).Add(a.R, b.R)}, true
}

// XSub is a-b; ok is false when undefined (Inf - Inf of the same sign).
func XSub(a, b X) (X, bool) { return XAdd(a, XNeg(b)) }

// XMul is a*b; ok is false when undefined (zero times infinity).
func XMul(a, b X) (X, bool) {
	if a.Inf != 0 || b.Inf != 0 {
		s := a.Sign() * b.Sign()
		if s == 0 {
			return X{}, false
		}
		return XInf(s), true
	}
	return X{R: new(big.Rat).Mul(a.R, b.R)}, true
}

// XQuo is a/b with the documented treatment of zero divisors: a non-zero
// dividend divided by zero is the infinity with the sign of the dividend;
// 0/0 and Inf/Inf are undefined (ok false). finite/Inf is zero; Inf/finite is
// the infinity whose sign is the product of the signs (Inf/0: sign of the
// dividend).
func XQuo(a, b X) (X, bool) {
	switch {
	case a.Inf != 0 && b.Inf != 0:
		return X{}, false
	case a.Inf != 0:
		if b.Sign() < 0 {
			return XInf(-a.Inf), true
		}
		return a, true
	case b.Inf != 0:
		return X{R: new(big.Rat)}, true
	case b.R.Sign() == 0:
		if a.R.Sign() == 0 {
			return X{}, false
		}
		return XInf(a.R.Sign()), true
	}
	return X{R: new(big.Rat).Quo(a.R, b.R)}, true
}

// TruncQuo is the integer quotient of a/b rounded toward zero (b non-zero).
func TruncQuo(a, b *big.Rat) *big.Int {
	// a/b = (an*bd)/(ad*bn)
	n := new(big.Int).Mul(a.Num(), b.Denom())
	d := new(big.Int).Mul(a.Denom(), b.Num())
	return new(big.Int).Quo(n, d) // big.Int.Quo truncates toward zero
}

// XTruncRem is the remainder of truncated division, a - b*trunc(a/b), defined
// (ok true) for finite a and finite non-zero b. The result has the sign of a
// (or is zero) and |result| < |b|.
func XTruncRem(a, b X) (X, bool) {
	if a.Inf != 0 || b.Inf != 0 || b.R.Sign() == 0 {
		return X{}, false
	}
	q := new(big.Rat).SetInt(TruncQuo(a.R, b.R))
	q.Mul(q, b.R)
	return X{R: q.Sub(a.R, q)}, true
}

// ---------------------------------------------------------------- tolerance

// MaxPrec is the documented precision range of cty numbers.
const MaxPrec = 512

// OperandPrec is the precision "of the operands": the largest precision among
// them, capped at MaxPrec (and at least 1).
func OperandPrec(fs ...*big.Float) uint {
	var p uint = 1
	for _, f := range fs {
		if f.Prec() > p {
			p = f.Prec()
		}
	}
	if p > MaxPrec {
		p = MaxPrec
	}
	return p
}

// MinOperandPrec is the smallest precision among the operands (capped like OperandPrec).
func MinOperandPrec(fs ...*big.Float) uint {
	var p uint = MaxPrec
	for _, f := range fs {
		if q := f.Prec(); q < p {
			p = q
		}
	}
	if p < 1 {
		p = 1
	}
	return p
}

// MantBits is the number of significant bits of the finite rational r when it
// is a dyadic rational (m * 2^e with odd m: the bit length of m), and -1 when
// r is not dyadic (no binary floating-point number of any precision holds it).
// Zero has 0 bits.
func MantBits(r *big.Rat) int {
	if r.Sign() == 0 {
		return 0
	}
	d := r.Denom()
	// power of two <=> exactly one bit set
	if d.TrailingZeroBits() != uint(d.BitLen()-1) {
		return -1
	}
	n := new(big.Int).Abs(r.Num())
	return n.BitLen() - int(n.TrailingZeroBits())
}

// FitsPrec reports whether r is exactly representable with a p-bit mantissa.
func FitsPrec(r *big.Rat, p uint) bool {
	b := MantBits(r)
	return b >= 0 && uint(b) <= p
}

// PrecVerdict is the outcome of WithinPrec.
type PrecVerdict struct {
	OK     bool
	Exact  bool    // exactness was demanded (the exact result fits in p bits, or is 0 / infinite)
	RelErr float64 // |got-want| / |want| (0 when equal; +Inf-safe)
	Why    string  // reason when !OK
}

// WithinPrec decides whether got agrees with the exact reference value want
// "within precision p": infinities and zero must match exactly; a want whose
// mantissa fits in p bits must be reproduced exactly; otherwise the relative
// error must not exceed 2^-(p-1).
func WithinPrec(got *big.Float, want X, p uint) PrecVerdict {
	g := XOf(got)
	if want.Inf != 0 || g.Inf != 0 {
		if g.Inf == want.Inf {
			return PrecVerdict{OK: true, Exact: true}
		}
		return PrecVerdict{Exact: true, RelErr: 1, Why: fmt.Sprintf("got %s, exact result is %s", g, want)}
	}
	if g.R.Cmp(want.R) == 0 {
		return PrecVerdict{OK: true, Exact: want.R.Sign() == 0 || FitsPrec(want.R, p)}
	}
	if want.R.Sign() == 0 {
		return PrecVerdict{Exact: true, RelErr: 1, Why: fmt.Sprintf("got %s, exact result is 0", g)}
	}
	diff := new(big.Rat).Sub(g.R, want.R)
	diff.Abs(diff)
	rel := new(big.Rat).Quo(diff, new(big.Rat).Abs(want.R))
	relF, _ := rel.Float64()
	if FitsPrec(want.R, p) {
		return PrecVerdict{Exact: true, RelErr: relF,
			Why: fmt.Sprintf("exact result %s fits in %d bits but got %s (relative error %.3g)", want, p, g, relF)}
	}
	// bound = 2^-(p-1)
	bound := new(big.Rat).SetFrac(big.NewInt(1), new(big.Int).Lsh(big.NewInt(1), p-1))
	if rel.Cmp(bound) <= 0 {
		return PrecVerdict{OK: true, RelErr: relF}
	}
	return PrecVerdict{RelErr: relF,
		Why: fmt.Sprintf("relative error %.3g exceeds 2^-%d (exact %s, got %s)", relF, p-1, want, g)}
}

// AbsWithin reports whether |got - want| <= tol (all exact).
func AbsWithin(got, want, tol *big.Rat) bool {
	d := new(big.Rat).Sub(got, want)
	d.Abs(d)
	return d.Cmp(tol) <= 0
}

// Pow2Neg returns 2^-k as a rational.
func Pow2Neg(k uint) *big.Rat {
	return new(big.Rat).SetFrac(big.NewInt(1), new(big.Int).Lsh(big.NewInt(1), k))
}

// RoundToPrec rounds the finite rational r to a big.Float of precision p
// (nearest, ties to even): the correctly rounded result at that precision.
func RoundToPrec(r *big.Rat, p uint) *big.Float {
	return new(big.Float).SetPrec(p).SetMode(big.ToNearestEven).SetRat(r)
}

// ExactDecimal returns the exact decimal expansion of a dyadic rational
// (finite big.Float value) and true, or "", false when the expansion would
// need more than maxFracDigits fractional digits.
func ExactDecimal(f *big.Float, maxFracDigits int) (string, bool) {
	if f.IsInf() {
		return "", false
	}
	r, _ := f.Rat(nil)
	if r == nil {
		return "0", true
	}
	k := r.Denom().BitLen() - 1 // denominator is 2^k
	if k > maxFracDigits {
		return "", false
	}
	return r.FloatString(k), true
}
