// Package model holds the oracles shared by several properties: the number
// relations, reference equality, and the abstract-domain relation Admits.
// Everything here is written from the documentation, not from the code under
// test, and reads cty values through public accessors only.
package model

import (
	"fmt"
	"math/big"
	"strings"

	"github.com/zclconf/go-cty/cty"

	"verif/harness/facet"
	"verif/harness/spec"
)

// ---------------------------------------------------------------- numbers

// NumText is the documented canonical decimal text of a number (the JSON
// representation: shortest decimal that identifies the value at its precision).
func NumText(f *big.Float) string {
	if f.IsInf() {
		if f.Sign() < 0 {
			return "-Inf"
		}
		return "+Inf"
	}
	s := f.Text('f', -1)
	if s == "-0" {
		s = "0"
	}
	return s
}

// NumEqExact: numerically identical.
func NumEqExact(a, b *big.Float) bool { return a.Cmp(b) == 0 }

// NumEqDoc: equal under the most generous documented reading (numerically
// identical, or identical canonical decimal text — CHANGELOG 1.10.0).
func NumEqDoc(a, b *big.Float) bool {
	return a.Cmp(b) == 0 || NumText(a) == NumText(b)
}

// CmpTol is the tolerant number order (DESIGN.md §2.4): exact Cmp, except
// that doc-equal numbers compare as equal.
func CmpTol(a, b *big.Float) int {
	if NumEqDoc(a, b) {
		return 0
	}
	return a.Cmp(b)
}

// RelDist is |a-b| / max(|a|,|b|,tiny) as a float64 (Inf-safe).
func RelDist(a, b *big.Float) float64 {
	if a.IsInf() || b.IsInf() {
		if a.Cmp(b) == 0 {
			return 0
		}
		return 1
	}
	d := new(big.Float).SetPrec(600).Sub(a, b)
	d.Abs(d)
	m := new(big.Float).SetPrec(600).Abs(a)
	if bb := new(big.Float).Abs(b); bb.Cmp(m) > 0 {
		m.Set(bb)
	}
	if m.Sign() == 0 {
		return 0
	}
	q, _ := new(big.Float).Quo(d, m).Float64()
	return q
}

// ---------------------------------------------------------------- helpers over cty values

// Strip removes all marks, deeply.
func Strip(v cty.Value) cty.Value {
	u, _ := v.UnmarkDeep()
	return u
}

// Members returns the members of a known, non-null, unmarked collection or
// structural value in iteration order, with their keys.
func Members(v cty.Value) (keys []cty.Value, vals []cty.Value) {
	for it := v.ElementIterator(); it.Next(); {
		k, e := it.Element()
		keys = append(keys, k)
		vals = append(vals, e)
	}
	return
}

// RefEq is reference equality over wholly-known, unmarked values, written
// from the documentation: same type and structurally equal members; numbers by
// the given number relation; strings compared after normalisation (cty strings
// are already NFC); nulls equal only to nulls of the same type.
func RefEq(a, b cty.Value, numEq func(x, y *big.Float) bool) bool {
	if !spec.FromCty(a.Type()).Equal(spec.FromCty(b.Type())) {
		return false
	}
	if a.IsNull() || b.IsNull() {
		return a.IsNull() && b.IsNull()
	}
	ty := a.Type()
	switch {
	case ty == cty.Bool:
		return a.True() == b.True()
	case ty == cty.Number:
		return numEq(a.AsBigFloat(), b.AsBigFloat())
	case ty == cty.String:
		return a.AsString() == b.AsString()
	case ty.IsListType() || ty.IsTupleType():
		_, av := Members(a)
		_, bv := Members(b)
		if len(av) != len(bv) {
			return false
		}
		for i := range av {
			if !RefEq(av[i], bv[i], numEq) {
				return false
			}
		}
		return true
	case ty.IsMapType() || ty.IsObjectType():
		ak, av := Members(a)
		bk, bv := Members(b)
		if len(av) != len(bv) {
			return false
		}
		for i := range av {
			if ak[i].AsString() != bk[i].AsString() || !RefEq(av[i], bv[i], numEq) {
				return false
			}
		}
		return true
	case ty.IsSetType():
		_, av := Members(a)
		_, bv := Members(b)
		// mutual inclusion
		for _, x := range av {
			if !refIn(x, bv, numEq) {
				return false
			}
		}
		for _, y := range bv {
			if !refIn(y, av, numEq) {
				return false
			}
		}
		return true
	case ty.IsCapsuleType():
		return a.RawEquals(b)
	}
	panic(fmt.Sprintf("RefEq: unsupported type %#v", ty))
}

func refIn(x cty.Value, ys []cty.Value, numEq func(x, y *big.Float) bool) bool {
	for _, y := range ys {
		if RefEq(x, y, numEq) {
			return true
		}
	}
	return false
}

// ---------------------------------------------------------------- Admits

// Admits reports whether the abstract value a admits the wholly-known
// concrete value c: c conforms to a's type constraint, is not excluded by
// nullness, numeric bounds, string prefix or length bounds, and equals a
// wherever a is known. Marks are ignored. It returns nil or a Failure whose
// Kind starts with "admits/".
func Admits(a, c cty.Value) *facet.Failure {
	return admits(Strip(a), Strip(c), "")
}

func admits(a, c cty.Value, path string) *facet.Failure {
	fail := func(kind, f string, args ...any) *facet.Failure {
		return facet.Failf("admits/"+kind, "at %q: %s (abstract %#v, concrete %#v)", path, fmt.Sprintf(f, args...), a, c).With("path", path)
	}
	at, ct := spec.FromCty(a.Type()), spec.FromCty(c.Type())
	if !a.IsKnown() {
		if !ct.Conforms(at) {
			return fail("type", "concrete type %s does not conform to abstract type constraint %s", ct, at)
		}
		if at.K == spec.KDynamic {
			return nil
		}
		rng := a.Range()
		if c.IsNull() {
			if rng.DefinitelyNotNull() {
				return fail("null", "abstract is refined not-null but concrete is null")
			}
			return nil
		}
		switch {
		case a.Type() == cty.Number:
			x := c.AsBigFloat()
			lo, loInc := rng.NumberLowerBound()
			hi, hiInc := rng.NumberUpperBound()
			if lo.IsKnown() && !lo.IsNull() {
				l := lo.AsBigFloat()
				if !(l.IsInf() && l.Sign() < 0) { // a bound at -inf is "no bound" (docs/refinements.md)
					cmp := CmpTol(x, l)
					if cmp < 0 || (cmp == 0 && !loInc) {
						f := fail("lower", "concrete %s violates lower bound %s (inclusive=%t)", NumText(x), NumText(l), loInc)
						f.Margin = RelDist(x, l)
						return f
					}
				}
			}
			if hi.IsKnown() && !hi.IsNull() {
				h := hi.AsBigFloat()
				if !(h.IsInf() && h.Sign() > 0) {
					cmp := CmpTol(x, h)
					if cmp > 0 || (cmp == 0 && !hiInc) {
						f := fail("upper", "concrete %s violates upper bound %s (inclusive=%t)", NumText(x), NumText(h), hiInc)
						f.Margin = RelDist(x, h)
						return f
					}
				}
			}
		case a.Type() == cty.String:
			p := rng.StringPrefix()
			if !strings.HasPrefix(c.AsString(), p) {
				return fail("prefix", "concrete %q lacks prefix %q", c.AsString(), p)
			}
		case a.Type().IsCollectionType():
			n := c.LengthInt()
			if n < rng.LengthLowerBound() || n > rng.LengthUpperBound() {
				return fail("length", "concrete length %d outside [%d,%d]", n, rng.LengthLowerBound(), rng.LengthUpperBound())
			}
		}
		return nil
	}
	// a is known
	if a.IsNull() {
		if !c.IsNull() {
			return fail("known-null", "abstract is a known null but concrete is not null")
		}
		if !ct.Conforms(at) {
			return fail("type", "null of type %s does not conform to %s", ct, at)
		}
		return nil
	}
	if c.IsNull() {
		return fail("known-notnull", "abstract is known and not null but concrete is null")
	}
	ty := a.Type()
	switch {
	case ty == cty.Bool:
		if c.Type() != cty.Bool || a.True() != c.True() {
			return fail("known-differs", "known bool differs")
		}
	case ty == cty.Number:
		if c.Type() != cty.Number {
			return fail("type", "concrete is not a number")
		}
		if !NumEqDoc(a.AsBigFloat(), c.AsBigFloat()) {
			f := fail("known-differs", "known number %s differs from concrete %s", NumText(a.AsBigFloat()), NumText(c.AsBigFloat()))
			f.Margin = RelDist(a.AsBigFloat(), c.AsBigFloat())
			return f
		}
	case ty == cty.String:
		if c.Type() != cty.String || a.AsString() != c.AsString() {
			return fail("known-differs", "known string differs")
		}
	case ty.IsListType() || ty.IsTupleType():
		if ty.IsListType() != c.Type().IsListType() || ty.IsTupleType() != c.Type().IsTupleType() {
			return fail("type", "kind differs")
		}
		_, av := Members(a)
		_, cv := Members(c)
		if len(av) != len(cv) {
			return fail("known-differs", "sequence length %d vs %d", len(av), len(cv))
		}
		for i := range av {
			if f := admits(av[i], cv[i], fmt.Sprintf("%s[%d]", path, i)); f != nil {
				return f
			}
		}
	case ty.IsMapType() || ty.IsObjectType():
		if ty.IsMapType() != c.Type().IsMapType() || ty.IsObjectType() != c.Type().IsObjectType() {
			return fail("type", "kind differs")
		}
		ak, av := Members(a)
		ck, cv := Members(c)
		if len(av) != len(cv) {
			return fail("known-differs", "mapping size %d vs %d", len(av), len(cv))
		}
		for i := range av {
			if ak[i].AsString() != ck[i].AsString() {
				return fail("known-differs", "key %q vs %q", ak[i].AsString(), ck[i].AsString())
			}
			if f := admits(av[i], cv[i], fmt.Sprintf("%s[%q]", path, ak[i].AsString())); f != nil {
				return f
			}
		}
	case ty.IsSetType():
		if !c.Type().IsSetType() {
			return fail("type", "kind differs")
		}
		if !spec.FromCty(c.Type().ElementType()).Conforms(spec.FromCty(ty.ElementType())) {
			return fail("type", "set element type differs")
		}
		_, av := Members(a)
		_, cv := Members(c)
		if len(av) > 7 || len(cv) > 7 {
			return nil // too large for the matching; never generated
		}
		// every abstract member stands for exactly one concrete member, and
		// every concrete member must be covered: a surjection a -> c.
		if !surject(av, cv, path) {
			return fail("known-differs", "no assignment of abstract set members onto concrete members")
		}
	case ty.IsCapsuleType():
		if !a.RawEquals(c) {
			return fail("known-differs", "capsule differs")
		}
	default:
		panic(fmt.Sprintf("admits: unsupported type %#v", ty))
	}
	return nil
}

func surject(av, cv []cty.Value, path string) bool {
	if len(cv) > len(av) {
		return false
	}
	ok := make([][]bool, len(av))
	for i := range av {
		ok[i] = make([]bool, len(cv))
		for j := range cv {
			ok[i][j] = admits(av[i], cv[j], path+"{}") == nil
		}
	}
	covered := make([]int, len(cv))
	var rec func(i int) bool
	rec = func(i int) bool {
		if i == len(av) {
			for _, n := range covered {
				if n == 0 {
					return false
				}
			}
			return true
		}
		for j := range cv {
			if ok[i][j] {
				covered[j]++
				if rec(i + 1) {
					return true
				}
				covered[j]--
			}
		}
		return false
	}
	return rec(0)
}
