package c19

import (
	"math/big"

	"github.com/zclconf/go-cty/cty"
	"pgregory.net/rapid"

	"verif/harness/facet"
	"verif/harness/spec"
	"verif/harness/wf"
)

// ApplyIn is the input of apply/iff-exists.
type ApplyIn struct {
	V   spec.V  `json:"v"`
	P   []PStep `json:"p"`
	How string  `json:"how"` // how the path was derived (label only)
	// Style selects the path constructors (see ctyPathVia).
	Style int `json:"style,omitempty"`
}

// prepare builds the value and its normalized model; ok=false means the case
// was skipped (unbuildable spec or collapsed refinement).
func prepare(c *facet.Ctx, v spec.V) (root cty.Value, model spec.V, ok bool) {
	if collapsed(v) {
		c.Label("skip:refinement-collapsed")
		c.Skip()
		return cty.NilVal, v, false
	}
	root, err := spec.Build(v)
	if err != nil {
		c.Label("skip:unbuildable")
		c.Skip()
		return cty.NilVal, v, false
	}
	return root, normalize(v), true
}

// ---------------------------------------------------------------- the model of Path.Apply

const (
	oExists = iota
	oNotExists
	oAbstain
)

type applyModel struct {
	outcome   int
	at        int    // step at which the path stops existing / the model abstains
	reason    string // label
	result    spec.V // member reached (oExists)
	marks     []string
	typeLevel bool // the result is "an unknown value of type result.T" (a step went through an unknown container or used an unknown key)
	// soft != "": an earlier step was one the documentation does not decide
	// (the model went on as the library most plausibly does, only so that a
	// later panic is attributed to the right step); the outcome is oAbstain.
	soft string
}

func attrIndex(names []string, name string) (idx int, variant bool) {
	for i, n := range names {
		if spec.NFC(n) == name {
			return i, false
		}
	}
	for _, n := range names {
		if spec.NFC(n) == spec.NFC(name) {
			return -1, true
		}
	}
	return -1, false
}

// modelApply decides, from the normalized spec alone, whether every step of p
// names an existing member.
func modelApply(root spec.V, p []PStep) applyModel {
	cur := root
	var acc []string
	typeLevel := false
	soft := ""
	softly := func(why string) {
		if soft == "" {
			soft = why
		}
	}
	for i, st := range p {
		stop := func(o int, why string) applyModel {
			if soft != "" {
				o = oAbstain
			}
			return applyModel{outcome: o, at: i, reason: why, soft: soft}
		}
		if cur.St == spec.Null {
			return stop(oNotExists, "through-null")
		}
		if cur.T.K == spec.KDynamic {
			if st.Attr != nil {
				// GetAttrStep.Apply: the value "must be of an object type that
				// has a value of that name"; a value whose type is not known
				// is not of an object type, so the step names no member
				return stop(oNotExists, "attr-of-dynamic")
			}
			// an index step into an unknown value of unknown type: nothing documented
			return stop(oAbstain, "through-dynamic")
		}
		if st.Attr != nil {
			if cur.T.K != spec.KObject {
				return stop(oNotExists, "attr-of-non-object")
			}
			var names []string
			if cur.St == spec.Known {
				names = cur.Keys
			} else {
				for _, a := range cur.T.Attrs {
					names = append(names, a.Name)
				}
			}
			idx, variant := attrIndex(names, *st.Attr)
			if variant {
				// lookups normalize the name (Type.HasAttribute), but no document says so
				softly("attr-name-not-normalized")
				idx, _ = attrIndex(names, spec.NFC(*st.Attr))
			}
			if idx < 0 {
				return stop(oNotExists, "missing-attr")
			}
			acc = unionMarks(acc, cur.Marks...)
			if cur.St == spec.Known {
				cur = cur.Elems[idx]
			} else {
				typeLevel = true
				cur = spec.UnknownOf(cur.T.Attrs[idx].T)
			}
			continue
		}
		if st.Key == nil {
			return stop(oAbstain, "bad-step")
		}
		k := *st.Key
		switch k.T.K {
		case spec.KNumber, spec.KString:
		case spec.KDynamic:
			if k.St == spec.Unknown {
				return stop(oAbstain, "dynamic-key")
			}
			return stop(oNotExists, "key-wrong-type")
		default:
			return stop(oNotExists, "key-wrong-type")
		}
		if cur.T.K == spec.KSet {
			// paths cannot address set members; the property excepts them
			return stop(oAbstain, "through-set")
		}
		if k.T.K == spec.KNumber && cur.T.K != spec.KList && cur.T.K != spec.KTuple {
			return stop(oNotExists, "number-key-on-"+cur.T.K)
		}
		if k.T.K == spec.KString && cur.T.K != spec.KMap {
			return stop(oNotExists, "string-key-on-"+cur.T.K)
		}
		if k.St == spec.Null {
			if cur.St == spec.Unknown && cur.T.K != spec.KTuple {
				// nothing documented for keys applied to unknown collections
				softly("null-key-on-unknown")
				typeLevel = true
				cur = spec.UnknownOf(*cur.T.E)
				continue
			}
			return stop(oNotExists, "null-key")
		}
		acc = unionMarks(acc, cur.Marks...)
		acc = unionMarks(acc, k.Marks...)
		if k.St == spec.Unknown {
			if cur.T.K == spec.KTuple {
				// the member type is not determined: error or a dynamic unknown are both defensible
				return stop(oAbstain, "unknown-key-on-tuple")
			}
			if cur.St == spec.Known && len(cur.Elems) == 0 {
				softly("unknown-key-on-empty")
			}
			typeLevel = true
			cur = spec.UnknownOf(*cur.T.E)
			continue
		}
		switch cur.T.K {
		case spec.KList, spec.KTuple:
			f := k.N.Float()
			idx := -1
			if !f.IsInf() && f.IsInt() && f.Sign() >= 0 {
				if i64, acc := f.Int64(); acc == big.Exact && i64 < 1<<30 {
					idx = int(i64)
				}
			}
			if cur.T.K == spec.KTuple {
				if idx < 0 || idx >= len(cur.T.Elems) {
					return stop(oNotExists, "tuple-index-out-of-range")
				}
				if cur.St == spec.Known {
					cur = cur.Elems[idx]
				} else {
					typeLevel = true
					cur = spec.UnknownOf(cur.T.Elems[idx])
				}
				continue
			}
			if cur.St == spec.Known {
				if idx < 0 || idx >= len(cur.Elems) {
					return stop(oNotExists, "list-index-out-of-range")
				}
				cur = cur.Elems[idx]
				continue
			}
			// unknown list
			if idx < 0 {
				softly("impossible-index-on-unknown-list")
			} else if cur.Ref != nil && cur.Ref.MaxLen != nil && idx >= *cur.Ref.MaxLen {
				softly("index-beyond-length-bound")
			}
			typeLevel = true
			cur = spec.UnknownOf(*cur.T.E)
		case spec.KMap:
			if cur.St == spec.Known {
				idx := -1
				for j, mk := range cur.Keys {
					if spec.NFC(mk) == spec.NFC(k.S) {
						idx = j
					}
				}
				if idx < 0 {
					return stop(oNotExists, "missing-map-key")
				}
				cur = cur.Elems[idx]
				continue
			}
			if cur.Ref != nil && cur.Ref.MaxLen != nil && *cur.Ref.MaxLen == 0 {
				softly("index-beyond-length-bound")
			}
			typeLevel = true
			cur = spec.UnknownOf(*cur.T.E)
		}
	}
	if soft != "" {
		return applyModel{outcome: oAbstain, at: len(p), reason: "end", soft: soft}
	}
	return applyModel{outcome: oExists, at: len(p), result: cur, marks: acc, typeLevel: typeLevel}
}

// ---------------------------------------------------------------- generator

var numKeyPool = []spec.Num{
	spec.NInt(0), spec.NInt(1), spec.NInt(2), spec.NInt(3), spec.NInt(-1), spec.NInt(4),
	spec.NFloat(0), spec.NFloat(1), spec.NFloat(2), spec.NParse("1.0"), spec.NParse("2"), spec.NParse("0"),
	{Route: "big", Text: "1", Prec: 24}, {Route: "negzero"}, {Route: "zero"},
	spec.NFloat(1.5), spec.NParse("0.5"), spec.NParse("-0.5"), spec.NParse("1e40"), spec.NParse("18446744073709551616"),
	spec.NParse("4294967296"), spec.NParse("9223372036854775808"), spec.NFloat(1e300), {Route: "+inf"}, {Route: "-inf"},
}

var strKeyPool = []string{"a", "b", "c", "k1", "k2", "\u00e9", "e\u0301", "", "z", "foo", "\u65e5", "nokey", "#", "0", "1"}
var attrNamePool = []string{"a", "b", "c", "id", "\u00e9", "e\u0301", "name", "x", "zz", "#", "", "0"}

// genStep draws an arbitrary step: any attribute name, number keys by several
// construction routes (also negative, fractional, huge, infinite), string keys
// (also NFC variants), unknown / null / marked keys, keys of wrong types.
func genStep(t *rapid.T) PStep {
	switch rapid.IntRange(0, 15).Draw(t, "stepkind") {
	case 0, 1, 2, 3:
		return attrStep(rapid.SampledFrom(attrNamePool).Draw(t, "attr"))
	case 4, 5, 6, 7:
		return keyStep(spec.KnownNum(rapid.SampledFrom(numKeyPool).Draw(t, "numkey")))
	case 8, 9, 10:
		return keyStep(spec.KnownStr(rapid.SampledFrom(strKeyPool).Draw(t, "strkey")))
	case 11:
		return keyStep(spec.UnknownOf(rapid.SampledFrom([]spec.T{spec.Number, spec.String, spec.Number, spec.String, spec.Dynamic}).Draw(t, "unkkey")))
	case 12:
		return keyStep(spec.NullOf(rapid.SampledFrom([]spec.T{spec.Number, spec.String, spec.Dynamic}).Draw(t, "nullkey")))
	case 13:
		var k spec.V
		if rapid.Bool().Draw(t, "mnum") {
			k = spec.KnownNum(rapid.SampledFrom(numKeyPool[:12]).Draw(t, "numkey"))
		} else {
			k = spec.KnownStr(rapid.SampledFrom(strKeyPool).Draw(t, "strkey"))
		}
		k.Marks = []string{rapid.SampledFrom([]string{"m1", "k"}).Draw(t, "keymark")}
		return keyStep(k)
	case 14:
		return keyStep(rapid.SampledFrom([]spec.V{
			spec.KnownBool(true),
			{T: spec.List(spec.String), St: spec.Known, Elems: []spec.V{spec.KnownStr("a")}},
			{T: spec.Tuple(), St: spec.Known},
			spec.UnknownOf(spec.Bool),
			{T: spec.Object(), St: spec.Known},
		}).Draw(t, "oddkey"))
	default:
		// refined unknown number key
		k := spec.UnknownOf(spec.Number)
		k.Ref = &spec.Ref{Null: "notnull"}
		return keyStep(k)
	}
}

func genApplyIn(t *rapid.T) ApplyIn {
	v := genValue(t)
	ms := members(normalize(v))
	idx := rapid.IntRange(0, len(ms)-1).Draw(t, "member")
	if len(ms) > 2 && rapid.IntRange(0, 3).Draw(t, "deep") != 0 {
		// prefer the deepest of three draws
		for _, l := range []string{"member2", "member3"} {
			j := rapid.IntRange(0, len(ms)-1).Draw(t, l)
			if len(ms[j].Path) > len(ms[idx].Path) {
				idx = j
			}
		}
	}
	var p []PStep
	for _, s := range ms[idx].Path {
		s.Elem = false
		p = append(p, s)
	}
	how := "valid"
	switch rapid.IntRange(0, 12).Draw(t, "mutation") {
	case 0, 1:
	case 10, 11:
		// type-level continuation: go to an unknown container (if the value
		// has one) and step into it by keys its type admits
		var unk []int
		for i, m := range ms {
			if m.V.St == spec.Unknown && isContainerKind(m.V.T.K) && m.V.T.K != spec.KSet && !m.UnderSet {
				unk = append(unk, i)
			}
		}
		if len(unk) > 0 {
			m := ms[rapid.SampledFrom(unk).Draw(t, "unkmember")]
			p = append([]PStep(nil), m.Path...)
			ty := m.V.T
			for d := 0; d < 3 && isContainerKind(ty.K) && ty.K != spec.KSet; d++ {
				switch ty.K {
				case spec.KList:
					p = append(p, keyStep(spec.KnownNum(rapid.SampledFrom(numKeyPool[:12]).Draw(t, "tlidx"))))
					ty = *ty.E
				case spec.KMap:
					p = append(p, keyStep(spec.KnownStr(rapid.SampledFrom(strKeyPool).Draw(t, "tlkey"))))
					ty = *ty.E
				case spec.KTuple:
					if len(ty.Elems) == 0 {
						p = append(p, keyStep(intKey(0)))
						ty = spec.Bool
						break
					}
					i := rapid.IntRange(0, len(ty.Elems)).Draw(t, "tltuple")
					p = append(p, keyStep(intKey(i)))
					if i < len(ty.Elems) {
						ty = ty.Elems[i]
					} else {
						ty = spec.Bool
					}
				case spec.KObject:
					if len(ty.Attrs) == 0 {
						p = append(p, attrStep("a"))
						ty = spec.Bool
						break
					}
					a := rapid.SampledFrom(ty.Attrs).Draw(t, "tlattr")
					p = append(p, attrStep(spec.NFC(a.Name)))
					ty = a.T
				}
				if rapid.IntRange(0, 2).Draw(t, "tlstop") == 0 {
					break
				}
			}
			how = "type-level"
		}
	case 12:
		// an unknown key of the right type in place of a known one
		var idxs []int
		for i, st := range p {
			if st.Key != nil && st.Key.St == spec.Known && (st.Key.T.K == spec.KNumber || st.Key.T.K == spec.KString) {
				idxs = append(idxs, i)
			}
		}
		if len(idxs) > 0 {
			i := rapid.SampledFrom(idxs).Draw(t, "unkat")
			k := spec.UnknownOf(p[i].Key.T)
			if rapid.IntRange(0, 3).Draw(t, "unkmarked") == 0 {
				k.Marks = []string{"k"}
			}
			p[i] = keyStep(k)
			how = "unknown-key"
		}
	case 2, 3:
		if len(p) > 0 {
			i := rapid.IntRange(0, len(p)-1).Draw(t, "swapat")
			p[i] = genStep(t)
			how = "swap-step"
		}
	case 4, 5:
		n := rapid.IntRange(1, 2).Draw(t, "nappend")
		for i := 0; i < n; i++ {
			p = append(p, genStep(t))
		}
		how = "append"
	case 6:
		// same key, other construction route / NFC variant
		if len(p) > 0 {
			i := rapid.IntRange(0, len(p)-1).Draw(t, "rerouteat")
			if k := p[i].Key; k != nil && k.St == spec.Known && k.T.K == spec.KNumber && k.N.Route == "int" && k.N.Float().Sign() >= 0 {
				txt := k.N.Text
				nk := spec.KnownNum(rapid.SampledFrom([]spec.Num{spec.NParse(txt + ".0"), spec.NParse(txt), {Route: "big", Text: txt, Prec: 53}, {Route: "uint", Text: txt}}).Draw(t, "route"))
				p[i] = keyStep(nk)
				how = "reroute-key"
			} else if k != nil && k.St == spec.Known && k.T.K == spec.KString && spec.NFC(k.S) == "\u00e9" {
				p[i] = keyStep(spec.KnownStr(rapid.SampledFrom([]string{"\u00e9", "e\u0301"}).Draw(t, "nfc")))
				how = "reroute-key"
			}
		}
	case 7:
		if len(p) > 0 {
			p = p[:rapid.IntRange(0, len(p)-1).Draw(t, "trunc")]
			how = "truncate"
		}
	case 8:
		// off-by-one index
		if len(p) > 0 {
			i := rapid.IntRange(0, len(p)-1).Draw(t, "offat")
			if k := p[i].Key; k != nil && k.St == spec.Known && k.T.K == spec.KNumber {
				d := rapid.SampledFrom([]int64{-1, 1, 2}).Draw(t, "delta")
				cur, _ := k.N.Float().Int64()
				p[i] = keyStep(spec.KnownNum(spec.NInt(cur + d)))
				how = "off-by-n"
			}
		}
	default:
		p = nil
		n := rapid.IntRange(1, 3).Draw(t, "nrandom")
		for i := 0; i < n; i++ {
			p = append(p, genStep(t))
		}
		how = "random"
	}
	return ApplyIn{V: v, P: p, How: how, Style: rapid.IntRange(0, 2).Draw(t, "style")}
}

func init() {
	facet.Register(facet.F[ApplyIn]{
		Prop: "C19", Name: "apply/iff-exists",
		Rule:  "path of >= 2 steps whose first step exists, over a value of nesting depth >= 2, with a decided model outcome; paths are members' paths, unchanged or mutated (step swapped, appended, truncated, key re-routed / off by one), or random; keys include unknown, null, marked, wrong-typed, negative, fractional, huge; Apply must succeed exactly when the model says every step names an existing member (type-level for unknown containers), return that member plus inherited marks, and never panic; distinct = hash of the input JSON",
		Quick: 60000, Thorough: 140000,
		Gen: genApplyIn,
		Check: func(c *facet.Ctx, in ApplyIn) error {
			root, model, ok := prepare(c, in.V)
			if !ok {
				return nil
			}
			for _, s := range in.P {
				if s.Key != nil {
					if collapsed(*s.Key) || !keySpecOK(*s.Key) {
						c.Skip()
						return nil
					}
				} else if s.Attr == nil {
					c.Skip()
					return nil
				}
			}
			path, pok := ctyPathVia(in.P, in.Style)
			if !pok {
				return facet.Failf("path-builders", "building %s step by step (style %d) disturbed an earlier path or gave a different path than the step literals", pathText(in.P), in.Style)
			}
			c.Labelf("style=%d", in.Style%3)
			m := modelApply(model, in.P)
			c.Label("how=" + in.How)
			got, err, pan := safeApply(path, root)
			fail := func(kind, format string, a ...any) *facet.Failure {
				f := facet.Failf(kind, format, a...)
				f.With("reason", m.reason).With("path", pathText(in.P))
				if m.at < len(in.P) {
					st := in.P[m.at]
					if st.Key != nil {
						f.With("key-state", st.Key.St).With("key-type", st.Key.T.K)
					}
				}
				return f
			}
			if pan != nil {
				return fail("apply-panic", "Path.Apply(%s) panicked: %v (model: outcome %d at step %d, %s)", pathText(in.P), pan, m.outcome, m.at, m.reason).With("panic", "1")
			}
			if err == nil {
				if f := wf.Check(got); f != nil {
					return f
				}
			}
			switch m.outcome {
			case oAbstain:
				why := m.reason
				if m.soft != "" {
					why = m.soft
				}
				c.Label("abstain:" + why)
				if err == nil {
					c.Label("abstain-accepted:" + why)
				}
				if m.at >= 1 && len(in.P) >= 2 {
					c.NonTrivial()
				}
				return nil
			case oNotExists:
				c.Label("not-exists:" + m.reason)
				if m.at >= 1 && len(in.P) >= 2 && in.V.Depth() >= 2 {
					c.NonTrivial()
				}
				if err == nil {
					return fail("apply-accepts-missing", "Path.Apply(%s) succeeded with %#v but step %d names no member (%s)", pathText(in.P), got, m.at, m.reason)
				}
				return nil
			}
			if m.typeLevel {
				c.Label("exists-type-level")
			} else {
				c.Label("exists")
			}
			if len(in.P) >= 2 && in.V.Depth() >= 2 {
				c.NonTrivial()
			}
			if err != nil {
				return fail("apply-refuses-existing", "Path.Apply(%s) failed (%v) but every step names an existing member", pathText(in.P), err)
			}
			if m.typeLevel {
				raw, _ := got.Unmark()
				if raw.IsKnown() && m.result.St == spec.Unknown {
					return fail("apply-type-level-value", "Path.Apply(%s) through an unknown container / key returned the known value %#v", pathText(in.P), got)
				}
				if wantTy := m.result.T.Cty(); !raw.Type().Equals(wantTy) {
					return fail("apply-type-level-type", "Path.Apply(%s) returned a value of type %#v, the member type is %#v", pathText(in.P), raw.Type(), wantTy)
				}
				return nil
			}
			want := withMarks(spec.MustBuild(m.result), m.marks)
			if d := diff(got, want); d != "" {
				return fail("apply-value", "Path.Apply(%s) returned %#v, the member (with inherited marks %v) is %#v (%s)", pathText(in.P), got, m.marks, want, d)
			}
			// LastStep agrees
			if len(path) > 0 {
				pv, ls, lerr, lpan := safeLastStep(path, root)
				if lpan != nil {
					return fail("apply-panic", "Path.LastStep(%s) panicked: %v", pathText(in.P), lpan)
				}
				if lerr != nil {
					return fail("laststep", "LastStep refuses %s although Apply accepts it: %v", pathText(in.P), lerr)
				}
				res, serr := ls.Apply(pv)
				if serr != nil || !same(res, got) {
					return fail("laststep", "LastStep of %s followed by the final step gives %#v / %v, Apply gave %#v", pathText(in.P), res, serr, got)
				}
			}
			return nil
		},
	})
}

// keySpecOK reports whether a key spec is self-consistent: it builds, and a
// number key's text denotes the number its route builds.
func keySpecOK(k spec.V) (ok bool) {
	defer func() {
		if r := recover(); r != nil {
			ok = false
		}
	}()
	v, err := spec.Build(k)
	if err != nil {
		return false
	}
	if k.St == spec.Known && k.T.K == spec.KNumber {
		if k.N == nil {
			return false
		}
		raw, _ := v.Unmark()
		if raw.AsBigFloat().Cmp(k.N.Float()) != 0 {
			return false
		}
	}
	return true
}
