package c19

import (
	"errors"

	"github.com/zclconf/go-cty/cty"
	"pgregory.net/rapid"

	"verif/harness/facet"
	"verif/harness/gen"
	"verif/harness/spec"
	"verif/harness/wf"
)

// TransIn is the input of transform/identity.
type TransIn struct {
	V    spec.V `json:"v"`
	Stop int    `json:"stop"` // >= 0: the callback with this ordinal returns an error
}

type event struct {
	enter bool
	node  *onode
}

// recorder is an identity Transformer that records Enter and Exit calls.
type recorder struct {
	events []event
	n      int
	stop   int
	stopAt string // "enter" or "exit"
	err    error
}

func (r *recorder) Enter(p cty.Path, v cty.Value) (cty.Value, error) {
	r.events = append(r.events, event{true, &onode{path: p.Copy(), val: v}})
	if r.stopAt == "enter" {
		ord := r.n
		r.n++
		if ord == r.stop {
			return v, r.err
		}
	}
	return v, nil
}

func (r *recorder) Exit(p cty.Path, v cty.Value) (cty.Value, error) {
	r.events = append(r.events, event{false, &onode{path: p.Copy(), val: v}})
	if r.stopAt == "exit" {
		ord := r.n
		r.n++
		if ord == r.stop {
			return v, r.err
		}
	}
	return v, nil
}

func safeTransform(root cty.Value, cb func(cty.Path, cty.Value) (cty.Value, error)) (v cty.Value, err error, panicked any) {
	defer func() {
		if r := recover(); r != nil {
			panicked = r
		}
	}()
	v, err = cty.Transform(root, cb)
	return
}

func safeTransformWith(root cty.Value, t cty.Transformer) (v cty.Value, err error, panicked any) {
	defer func() {
		if r := recover(); r != nil {
			panicked = r
		}
	}()
	v, err = cty.TransformWithTransformer(root, t)
	return
}

// ReplIn is the input of transform/replace-one.
type ReplIn struct {
	V    spec.V  `json:"v"`
	At   []PStep `json:"at"`   // model path of the member to replace
	R    spec.V  `json:"r"`    // replacement, of exactly the member's type
	Mode string  `json:"mode"` // "exit" (Transform callback), "enter" (Transformer.Enter), "exit-t" (Transformer.Exit)
}

// drawReplacement draws a value of exactly type ty.
func drawReplacement(t *rapid.T, ty spec.T, old spec.V) spec.V {
	mark := func(v spec.V) spec.V {
		if rapid.IntRange(0, 3).Draw(t, "rmarked") == 0 {
			v.Marks = []string{rapid.SampledFrom([]string{"m1", "m2", "r"}).Draw(t, "rmark")}
		}
		return v
	}
	switch rapid.IntRange(0, 5).Draw(t, "rkind") {
	case 0:
		return mark(spec.NullOf(ty))
	case 1:
		return mark(spec.UnknownOf(ty))
	case 2:
		// the same value with other marks
		r := old.Clone()
		r.Marks = []string{"r"}
		return r
	default:
		if !ty.HasDynamic() {
			o := vopts
			r := sanitize(gen.Value(ty, o).Draw(t, "rvalue"))
			if r.T.Equal(ty) {
				return r
			}
		}
		return mark(spec.NullOf(ty))
	}
}

func init() {
	facet.Register(facet.F[TransIn]{
		Prop: "C19", Name: "transform/identity",
		Rule:  valueRule + "; identity Transform and identity TransformWithTransformer must return the same value, call back every model member exactly once (children before parents), pair Enter/Exit, and stop at a callback error",
		Quick: 30000, Thorough: 60000,
		Gen: func(t *rapid.T) TransIn {
			in := TransIn{V: genValue(t), Stop: -1}
			if rapid.IntRange(0, 7).Draw(t, "stopmode") == 0 {
				in.Stop = rapid.IntRange(0, 10).Draw(t, "stop")
			}
			return in
		},
		Check: func(c *facet.Ctx, in TransIn) error {
			classifyValue(c, in.V)
			root, model, ok := prepare(c, in.V)
			if !ok {
				return nil
			}
			sentinel := errors.New("stop here")

			// --- Transform with an identity callback
			var seq []*onode
			n := 0
			got, terr, pan := safeTransform(root, func(p cty.Path, v cty.Value) (cty.Value, error) {
				ord := n
				n++
				seq = append(seq, &onode{path: p.Copy(), val: v})
				if ord == in.Stop {
					return v, sentinel
				}
				return v, nil
			})
			if pan != nil {
				return facet.Failf("transform-panic", "identity Transform panicked: %v", pan)
			}
			if in.Stop >= 0 && in.Stop < len(seq) {
				c.Label("mode=stop")
				if terr != sentinel {
					return facet.Failf("transform-error", "callback #%d returned an error but Transform returned %v", in.Stop, terr)
				}
				if len(seq) != in.Stop+1 {
					return facet.Failf("transform-error-continues", "callback #%d returned an error but %d callbacks were made", in.Stop, len(seq))
				}
				// the same through a Transformer, stopping in Enter and in Exit
				for _, at := range []string{"enter", "exit"} {
					r := &recorder{stop: in.Stop, stopAt: at, err: sentinel}
					_, rerr, rpan := safeTransformWith(root, r)
					if rpan != nil {
						return facet.Failf("transform-panic", "TransformWithTransformer panicked: %v", rpan)
					}
					if rerr != sentinel {
						return facet.Failf("transform-error", "%s #%d returned an error but TransformWithTransformer returned %v", at, in.Stop, rerr)
					}
					if r.n != in.Stop+1 {
						return facet.Failf("transform-error-continues", "%s #%d returned an error but %d %s calls were made", at, in.Stop, r.n, at)
					}
				}
				return nil
			}
			c.Label("mode=full")
			if terr != nil {
				return facet.Failf("transform-error", "identity Transform returned an error nobody raised: %v", terr)
			}
			if d := diff(got, root); d != "" {
				return facet.Failf("transform-identity", "identity Transform changed the value: got %#v, input %#v (%s)", got, root, d)
			}
			if f := wf.Check(got); f != nil {
				return f
			}
			tree, f := postorderTree(seq)
			if f != nil {
				return f
			}
			if f := compareTree(tree, Member{V: model}, "transform", nil); f != nil {
				return abstain(c, f)
			}

			// --- TransformWithTransformer with a recording identity transformer
			r := &recorder{stop: -1}
			got2, rerr, rpan := safeTransformWith(root, r)
			if rpan != nil {
				return facet.Failf("transform-panic", "identity TransformWithTransformer panicked: %v", rpan)
			}
			if rerr != nil {
				return facet.Failf("transform-error", "identity TransformWithTransformer returned an error nobody raised: %v", rerr)
			}
			if d := diff(got2, root); d != "" {
				return facet.Failf("transform-identity", "identity TransformWithTransformer changed the value: got %#v, input %#v (%s)", got2, root, d)
			}
			// Enter/Exit pairing: well nested, Exit closes the most recent open Enter of the same path
			var open []*onode
			var enters, exits []*onode
			for i, ev := range r.events {
				if ev.enter {
					if len(ev.node.path) != len(open) {
						return facet.Failf("transformer-nesting", "event #%d: Enter(%#v) at depth %d while %d paths are open", i, ev.node.path, len(ev.node.path), len(open))
					}
					open = append(open, ev.node)
					enters = append(enters, ev.node)
					continue
				}
				if len(open) == 0 {
					return facet.Failf("transformer-nesting", "event #%d: Exit(%#v) without an open Enter", i, ev.node.path)
				}
				top := open[len(open)-1]
				if !pathEqualOwn(top.path, ev.node.path) {
					return facet.Failf("transformer-nesting", "event #%d: Exit(%#v) while the innermost open Enter is %#v", i, ev.node.path, top.path)
				}
				open = open[:len(open)-1]
				exits = append(exits, ev.node)
			}
			if len(open) != 0 {
				return facet.Failf("transformer-nesting", "%d Enter calls were never closed by Exit, first %#v", len(open), open[0].path)
			}
			etree, f := preorderTree(enters)
			if f != nil {
				return f
			}
			if f := compareTree(etree, Member{V: model}, "enter", nil); f != nil {
				return abstain(c, f)
			}
			xtree, f := postorderTree(exits)
			if f != nil {
				return f
			}
			if f := compareTree(xtree, Member{V: model}, "exit", nil); f != nil {
				return abstain(c, f)
			}
			return nil
		},
	})

	facet.Register(facet.F[ReplIn]{
		Prop: "C19", Name: "transform/replace-one",
		Rule:  valueRule + "; one model member (any depth, also set members) is replaced by a different value of exactly its type from the Transform callback / Transformer.Enter / Transformer.Exit: the result must be the spec with that member replaced, all other members unchanged",
		Quick: 30000, Thorough: 70000,
		Gen: func(t *rapid.T) ReplIn {
			v := genValue(t)
			ms := members(normalize(v))
			// prefer nested members
			idx := rapid.IntRange(0, len(ms)-1).Draw(t, "member")
			if len(ms) > 1 && rapid.IntRange(0, 3).Draw(t, "nonroot") != 0 && idx == 0 {
				idx = rapid.IntRange(1, len(ms)-1).Draw(t, "member2")
			}
			m := ms[idx]
			return ReplIn{V: v, At: m.Path, R: drawReplacement(t, m.V.T, m.V),
				Mode: rapid.SampledFrom([]string{"exit", "exit", "enter", "exit-t"}).Draw(t, "mode")}
		},
		Check: func(c *facet.Ctx, in ReplIn) error {
			root, model, ok := prepare(c, in.V)
			if !ok {
				return nil
			}
			// locate the member in the model
			var target *Member
			for _, m := range members(model) {
				if modelPathEqual(m.Path, in.At) {
					mm := m
					target = &mm
					break
				}
			}
			if target == nil || collapsed(in.R) || !in.R.Retype().T.Equal(target.V.T) {
				c.Skip()
				return nil
			}
			rv, err := spec.Build(in.R)
			if err != nil {
				c.Skip()
				return nil
			}
			classifyValue(c, in.V)
			c.Label("mode=" + in.Mode)
			c.Labelf("target-depth=%d", len(in.At))
			if target.UnderSet {
				c.Label("target-under-set")
			}
			if same(rv, spec.MustBuild(target.V)) {
				c.Label("replacement-same")
			}
			hits := 0
			var got cty.Value
			var terr error
			var pan any
			repl := func(p cty.Path, v cty.Value) (cty.Value, error) {
				if pathMatches(p, in.At) {
					hits++
					return rv, nil
				}
				return v, nil
			}
			ident := func(p cty.Path, v cty.Value) (cty.Value, error) { return v, nil }
			switch in.Mode {
			case "enter":
				got, terr, pan = safeTransformWith(root, fnTransformer{repl, ident})
			case "exit-t":
				got, terr, pan = safeTransformWith(root, fnTransformer{ident, repl})
			default:
				got, terr, pan = safeTransform(root, repl)
			}
			if pan != nil {
				return facet.Failf("transform-panic", "Transform (%s) replacing %s by %#v panicked: %v", in.Mode, pathText(in.At), rv, pan)
			}
			if terr != nil {
				return facet.Failf("transform-error", "Transform returned an error nobody raised: %v", terr)
			}
			if hits == 0 {
				return facet.Failf("replace-not-offered", "the member at %s was never offered to the callback", pathText(in.At))
			}
			want, err := spec.Build(replaceAt(model, in.At, in.R))
			if err != nil {
				c.Label("abstain:expected-unbuildable")
				c.Skip()
				return nil
			}
			if d := diff(got, want); d != "" {
				return facet.Failf("replace-one", "replacing %s by %#v (%s): got %#v, want %#v (%s)", pathText(in.At), rv, in.Mode, got, want, d)
			}
			if f := wf.Check(got); f != nil {
				return f
			}
			return nil
		},
	})
}

type fnTransformer struct {
	enter, exit func(cty.Path, cty.Value) (cty.Value, error)
}

func (t fnTransformer) Enter(p cty.Path, v cty.Value) (cty.Value, error) { return t.enter(p, v) }
func (t fnTransformer) Exit(p cty.Path, v cty.Value) (cty.Value, error)  { return t.exit(p, v) }
