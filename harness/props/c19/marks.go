package c19

import (
	"fmt"

	"github.com/zclconf/go-cty/cty"
	"pgregory.net/rapid"

	"verif/harness/facet"
	"verif/harness/spec"
	"verif/harness/wf"
)

// MarksIn is the input of the marks facets.
type MarksIn struct {
	V spec.V `json:"v"`
	// Order permutes the PathValueMarks before they are re-applied
	// (entry i moves to position Order[i] mod n, stable on ties).
	Order []int `json:"order,omitempty"`
	// Subset selects (bit i = entry i of the model's list) the entries
	// re-applied in the partial re-marking check.
	Subset uint32 `json:"subset"`
}

const marksRule = "value of nesting depth >= 2 with a marked member below the root; distinct = hash of the input JSON"

func classifyMarks(c *facet.Ctx, v spec.V) {
	d, mk, nu, st := hasNested(v)
	c.Labelf("depth=%d", d)
	if mk {
		c.Label("nested-marked")
	}
	if nu {
		c.Label("nested-null-or-unknown")
	}
	if st {
		c.Label("has-nonempty-set")
	}
	if !v.HasMarks() {
		c.Label("no-marks")
	}
	if d >= 2 && mk {
		c.NonTrivial()
	}
}

// anyMarked walks a value with accessors only and reports the first marked position.
func anyMarked(v cty.Value, at string) string {
	if v.IsMarked() {
		return at
	}
	if v.IsNull() || !v.IsKnown() {
		return ""
	}
	ty := v.Type()
	if ty.IsListType() || ty.IsSetType() || ty.IsMapType() || ty.IsTupleType() || ty.IsObjectType() {
		i := 0
		for it := v.ElementIterator(); it.Next(); i++ {
			_, e := it.Element()
			if s := anyMarked(e, fmt.Sprintf("%s/%d", at, i)); s != "" {
				return s
			}
		}
	}
	return ""
}

// setMarksAt returns v with the marks of the member at model path p set to marks.
func setMarksAt(v spec.V, p []PStep, marks []string) spec.V {
	r := func(m spec.V) spec.V { m.Marks = marks; return m }
	if len(p) == 0 {
		return r(v)
	}
	// find the member spec, then use replaceAt
	for _, m := range members(v) {
		if modelPathEqual(m.Path, p) {
			return replaceAt(v, p, r(m.V))
		}
	}
	return v
}

func safeUnmarkPaths(v cty.Value) (u cty.Value, pvm []cty.PathValueMarks, panicked any) {
	defer func() {
		if r := recover(); r != nil {
			panicked = r
		}
	}()
	u, pvm = v.UnmarkDeepWithPaths()
	return
}

func safeMarkPaths(v cty.Value, pvm []cty.PathValueMarks) (u cty.Value, panicked any) {
	defer func() {
		if r := recover(); r != nil {
			panicked = r
		}
	}()
	u = v.MarkWithPaths(pvm)
	return
}

// genTwins draws a value with two DIFFERENT members whose paths read the same
// when written out as text without escaping (.a.b / ["a.b"], .a["k"] / ["a[\"k\"]"],
// .l[1] / ["l[1]"] ...), with marks on one of them, on both (different marks),
// or on their parents. Anything that identifies a path by such a rendering
// confuses the two.
func genTwins(t *rapid.T) spec.V {
	leaf := func(label string, marks ...string) spec.V {
		v := spec.KnownStr(rapid.SampledFrom([]string{"x", "y", "z"}).Draw(t, label))
		v.Marks = marks
		return v
	}
	var mk [2][]string
	switch rapid.IntRange(0, 3).Draw(t, "which") {
	case 0:
		mk[0] = []string{"m1"}
	case 1:
		mk[1] = []string{"m2"}
	default:
		mk[0], mk[1] = []string{"m1"}, []string{"m2"}
	}
	obj := func(keys []string, elems []spec.V) spec.V {
		return spec.V{T: spec.Object(), St: spec.Known, Keys: keys, Elems: elems}.Retype()
	}
	mp := func(keys []string, elems []spec.V) spec.V {
		et := elems[0].T
		return spec.V{T: spec.Map(et), St: spec.Known, Keys: keys, Elems: elems}
	}
	var v spec.V
	switch rapid.IntRange(0, 5).Draw(t, "twinshape") {
	case 0: // .a.b  vs  ["a.b"]
		v = obj([]string{"a", "a.b"}, []spec.V{obj([]string{"b"}, []spec.V{leaf("l1", mk[0]...)}), leaf("l2", mk[1]...)})
	case 1: // .a["k"] vs .["a[\"k\"]"] and the unquoted spelling
		name := rapid.SampledFrom([]string{`a["k"]`, `a[k]`}).Draw(t, "twinname")
		v = obj([]string{"a", name}, []spec.V{mp([]string{"k"}, []spec.V{leaf("l1", mk[0]...)}), leaf("l2", mk[1]...)})
	case 2: // .l[1] vs ["l[1]"]
		li := spec.V{T: spec.List(spec.String), St: spec.Known, Elems: []spec.V{leaf("l0"), leaf("l1", mk[0]...)}}
		v = obj([]string{"l", "l[1]"}, []spec.V{li, leaf("l2", mk[1]...)})
	case 3: // map keys: ["x"]["y"] vs ["x\"][\"y"]
		inner := mp([]string{"y"}, []spec.V{leaf("l1", mk[0]...)})
		v = obj([]string{"m", "n"}, []spec.V{mp([]string{"x"}, []spec.V{inner}), mp([]string{`x"]["y`}, []spec.V{leaf("l2", mk[1]...)})})
		v = spec.V{T: spec.Tuple(), St: spec.Known, Elems: []spec.V{v.Elems[0], v.Elems[1]}}.Retype()
	case 4: // tuple index vs attribute named like an index: [0].a vs ["[0].a"] below one object
		tu := spec.V{T: spec.Tuple(), St: spec.Known, Elems: []spec.V{obj([]string{"a"}, []spec.V{leaf("l1", mk[0]...)})}}.Retype()
		v = obj([]string{"t", "t[0].a", "t.0.a"}, []spec.V{tu, leaf("l2", mk[1]...), leaf("l3")})
	default: // sibling attributes one of which is the other plus a suffix that looks like a step
		v = obj([]string{"a", "a.b", "a.b.c"}, []spec.V{obj([]string{"b"}, []spec.V{obj([]string{"c"}, []spec.V{leaf("l1", mk[0]...)})}), obj([]string{"c"}, []spec.V{leaf("l2", mk[1]...)}), leaf("l3")})
	}
	if rapid.IntRange(0, 3).Draw(t, "wrap") == 0 {
		v = spec.V{T: spec.List(v.T), St: spec.Known, Elems: []spec.V{v}}
	}
	return v
}

func genMarksIn(t *rapid.T) MarksIn {
	in := MarksIn{V: genValue(t)}
	if rapid.IntRange(0, 7).Draw(t, "twins") == 0 {
		in.V = genTwins(t)
	}
	n := rapid.IntRange(0, 6).Draw(t, "norder")
	for i := 0; i < n; i++ {
		in.Order = append(in.Order, rapid.IntRange(0, 7).Draw(t, "ord"))
	}
	in.Subset = rapid.Uint32().Draw(t, "subset")
	return in
}

func init() {
	facet.Register(facet.F[MarksIn]{
		Prop: "C19", Name: "marks/paths-roundtrip",
		Rule:  marksRule + "; UnmarkDeepWithPaths must report exactly the model's marked members (path, marks), each path valid for Apply, and MarkWithPaths (any order, any subset) must restore exactly those marks",
		Quick: 30000, Thorough: 60000,
		Gen: genMarksIn,
		Check: func(c *facet.Ctx, in MarksIn) error {
			classifyMarks(c, in.V)
			root, model, ok := prepare(c, in.V)
			if !ok {
				return nil
			}
			bare := model.StripMarks()
			bareVal := spec.MustBuild(bare)

			un, pvm, pan := safeUnmarkPaths(root)
			if pan != nil {
				return facet.Failf("unmark-panic", "UnmarkDeepWithPaths panicked: %v", pan)
			}
			if at := anyMarked(un, "$"); at != "" {
				return facet.Failf("unmark-left", "UnmarkDeepWithPaths left a mark at %s in %#v", at, un)
			}
			if d := diff(un, bareVal); d != "" {
				return facet.Failf("unmark-value", "UnmarkDeepWithPaths changed more than marks: got %#v, want %#v (%s)", un, bareVal, d)
			}
			if f := wf.Check(un); f != nil {
				return f
			}
			// expected entries from the model
			var want []Member
			for _, m := range members(model) {
				if len(m.V.Marks) > 0 {
					want = append(want, m)
				}
			}
			used := make([]bool, len(want))
			for i, e := range pvm {
				found := false
				for j, m := range want {
					if !used[j] && pathMatches(e.Path, m.Path) {
						if got := marksList(e.Marks); !sameStrings(got, sortedCopy(m.V.Marks)) {
							return facet.Failf("pvm-marks", "entry #%d at %#v carries marks %v, model member %s has %v", i, e.Path, got, pathText(m.Path), m.V.Marks)
						}
						used[j] = true
						found = true
						break
					}
				}
				if !found {
					return facet.Failf("pvm-extra", "entry #%d (%#v, %v) is no marked member of the model (or a repeat); model has %d marked members", i, e.Path, marksList(e.Marks), len(want))
				}
			}
			for j, m := range want {
				if !used[j] {
					return facet.Failf("pvm-missing", "marked member %s (marks %v) is not reported; got %d entries", pathText(m.Path), m.V.Marks, len(pvm))
				}
			}
			// every reported path is valid for Apply, on the unmarked and on the marked value
			for i, e := range pvm {
				var m Member
				for _, w := range want {
					if pathMatches(e.Path, w.Path) {
						m = w
					}
				}
				got, aerr, apan := safeApply(e.Path, un)
				if apan != nil {
					return facet.Failf("apply-panic", "Apply of reported path %#v panicked: %v", e.Path, apan)
				}
				if aerr != nil {
					return facet.Failf("pvm-path-invalid", "entry #%d: path %#v is refused by Apply on the unmarked value: %v", i, e.Path, aerr)
				}
				if d := diff(got, spec.MustBuild(m.V.StripMarks())); d != "" {
					return facet.Failf("pvm-path-value", "entry #%d: path %#v leads to %#v in the unmarked value, model member is %#v (%s)", i, e.Path, got, spec.MustBuild(m.V.StripMarks()), d)
				}
				got2, aerr2, apan2 := safeApply(e.Path, root)
				if apan2 != nil {
					return facet.Failf("apply-panic", "Apply of reported path %#v panicked: %v", e.Path, apan2)
				}
				if aerr2 != nil {
					return facet.Failf("pvm-path-invalid", "entry #%d: path %#v is refused by Apply on the marked value: %v", i, e.Path, aerr2)
				}
				if d := diff(got2, withMarks(spec.MustBuild(m.V), m.Inherited)); d != "" {
					return facet.Failf("pvm-path-value", "entry #%d: path %#v applied to the marked value gives %#v (%s)", i, e.Path, got2, d)
				}
			}
			// re-applying restores the value
			re, mpan := safeMarkPaths(un, pvm)
			if mpan != nil {
				return facet.Failf("mark-panic", "MarkWithPaths panicked: %v", mpan)
			}
			if d := diff(re, root); d != "" {
				return facet.Failf("marks-roundtrip", "UnmarkDeepWithPaths -> MarkWithPaths does not restore the value: got %#v, want %#v (%s)", re, root, d)
			}
			if f := wf.Check(re); f != nil {
				return f
			}
			// ... in any order
			if len(pvm) > 1 && len(in.Order) > 0 {
				perm := permute(pvm, in.Order)
				re2, mpan := safeMarkPaths(un, perm)
				if mpan != nil {
					return facet.Failf("mark-panic", "MarkWithPaths panicked: %v", mpan)
				}
				if d := diff(re2, root); d != "" {
					return facet.Failf("marks-roundtrip-order", "MarkWithPaths with permuted entries does not restore the value (%s)", d)
				}
				c.Label("permuted")
			}
			// ... and a subset marks exactly the chosen members
			if len(want) > 0 {
				var sub []cty.PathValueMarks
				expect := bare
				chosen := 0
				for j, m := range want {
					if in.Subset&(1<<uint(j%32)) == 0 {
						continue
					}
					chosen++
					expect = setMarksAt(expect, m.Path, m.V.Marks)
					for _, e := range pvm {
						if pathMatches(e.Path, m.Path) {
							sub = append(sub, e)
						}
					}
				}
				if chosen < len(want) {
					c.Label("proper-subset")
				}
				re3, mpan := safeMarkPaths(un, sub)
				if mpan != nil {
					return facet.Failf("mark-panic", "MarkWithPaths panicked: %v", mpan)
				}
				ev, err := spec.Build(expect)
				if err != nil {
					return facet.Failf("harness-model", "cannot build the partially marked model: %v", err)
				}
				if d := diff(re3, ev); d != "" {
					return facet.Failf("marks-subset", "MarkWithPaths with %d of %d entries: got %#v, want %#v (%s)", chosen, len(want), re3, ev, d)
				}
			}
			// no entries: nothing changes
			re4, mpan := safeMarkPaths(un, nil)
			if mpan != nil {
				return facet.Failf("mark-panic", "MarkWithPaths(nil) panicked: %v", mpan)
			}
			if d := diff(re4, un); d != "" {
				return facet.Failf("marks-empty", "MarkWithPaths(nil) changed the value (%s)", d)
			}
			return nil
		},
	})

	facet.Register(facet.F[MarksIn]{
		Prop: "C19", Name: "marks/unmarkdeep",
		Rule:  marksRule + "; UnmarkDeep must leave no mark at any depth, change nothing else, and return exactly the union of the marks in the spec; ContainsMarked must agree with the spec",
		Quick: 30000, Thorough: 60000,
		Gen: func(t *rapid.T) MarksIn { return MarksIn{V: genValue(t)} },
		Check: func(c *facet.Ctx, in MarksIn) error {
			classifyMarks(c, in.V)
			root, model, ok := prepare(c, in.V)
			if !ok {
				return nil
			}
			var un cty.Value
			var marks cty.ValueMarks
			var contains bool
			pan := func() (p any) {
				defer func() { p = recover() }()
				un, marks = root.UnmarkDeep()
				contains = root.ContainsMarked()
				return nil
			}()
			if pan != nil {
				return facet.Failf("unmark-panic", "UnmarkDeep / ContainsMarked panicked: %v", pan)
			}
			if contains != in.V.HasMarks() {
				return facet.Failf("containsmarked", "ContainsMarked() = %t, spec has marks: %t", contains, in.V.HasMarks())
			}
			if at := anyMarked(un, "$"); at != "" {
				return facet.Failf("unmark-left", "UnmarkDeep left a mark at %s in %#v", at, un)
			}
			if un.ContainsMarked() {
				return facet.Failf("unmark-left", "ContainsMarked is true after UnmarkDeep: %#v", un)
			}
			bareVal := spec.MustBuild(model.StripMarks())
			if d := diff(un, bareVal); d != "" {
				return facet.Failf("unmark-value", "UnmarkDeep changed more than marks: got %#v, want %#v (%s)", un, bareVal, d)
			}
			got := marksList(marks)
			want := sortedKeys(in.V.DeepMarks())
			if !sameStrings(got, want) {
				return facet.Failf("unmark-union", "UnmarkDeep returned marks %v, the union of all marks in the value is %v", got, want)
			}
			if f := wf.Check(un); f != nil {
				return f
			}
			return nil
		},
	})
}

func marksList(m cty.ValueMarks) []string {
	out := make([]string, 0, len(m))
	for k := range m {
		out = append(out, fmt.Sprintf("%v", k))
	}
	if len(out) == 0 {
		return nil
	}
	return sortStrings(out)
}

func sortStrings(s []string) []string {
	for i := 1; i < len(s); i++ {
		for j := i; j > 0 && s[j] < s[j-1]; j-- {
			s[j], s[j-1] = s[j-1], s[j]
		}
	}
	return s
}

// permute reorders pvm: entry i gets sort key order[i mod len(order)], ties keep input order.
func permute(pvm []cty.PathValueMarks, order []int) []cty.PathValueMarks {
	type kv struct {
		k, i int
	}
	ks := make([]kv, len(pvm))
	for i := range pvm {
		ks[i] = kv{order[i%len(order)], i}
	}
	for i := 1; i < len(ks); i++ {
		for j := i; j > 0 && (ks[j].k < ks[j-1].k); j-- {
			ks[j], ks[j-1] = ks[j-1], ks[j]
		}
	}
	out := make([]cty.PathValueMarks, len(pvm))
	for i, k := range ks {
		out[i] = pvm[k.i]
	}
	return out
}
