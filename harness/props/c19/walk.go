package c19

import (
	"errors"
	"fmt"

	"github.com/zclconf/go-cty/cty"
	"pgregory.net/rapid"

	"verif/harness/facet"
	"verif/harness/spec"
	"verif/harness/wf"
)

// WalkIn is the input of the walk facets.
type WalkIn struct {
	V spec.V `json:"v"`
	// Prune lists callback ordinals (0 = first invocation) at which the
	// callback answers "do not descend".
	Prune []int `json:"prune,omitempty"`
	// Stop >= 0: the callback with this ordinal returns an error.
	Stop int `json:"stop"`
}

// abstain converts the harness's own "the set constructor did not keep my
// member" signal into a skipped case (set membership is C03's subject).
func abstain(c *facet.Ctx, f *facet.Failure) error {
	if f == nil {
		return nil
	}
	if f.Kind == "model-set" {
		c.Label("abstain:set-model")
		c.Skip()
		return nil
	}
	return f
}

// collectWalk runs cty.Walk and records every callback invocation.
func collectWalk(root cty.Value, prune map[int]bool, stop int, sentinel error) (seq []*onode, err error, panicked any) {
	defer func() {
		if r := recover(); r != nil {
			panicked = r
		}
	}()
	n := 0
	err = cty.Walk(root, func(p cty.Path, v cty.Value) (bool, error) {
		ord := n
		n++
		node := &onode{path: p.Copy(), val: v}
		seq = append(seq, node)
		if ord == stop {
			return true, sentinel
		}
		if prune[ord] {
			node.pruned = true
			return false, nil
		}
		return true, nil
	})
	return
}

func init() {
	facet.Register(facet.F[WalkIn]{
		Prop: "C19", Name: "walk/once-preorder",
		Rule:  valueRule + "; Walk must visit the root first, every model member exactly once, parents before children, nothing below null/unknown/pruned members, and stop at a callback error",
		Quick: 40000, Thorough: 90000,
		Gen: func(t *rapid.T) WalkIn {
			in := WalkIn{V: genValue(t), Stop: -1}
			switch rapid.IntRange(0, 5).Draw(t, "mode") {
			case 0:
				n := rapid.IntRange(1, 3).Draw(t, "nprune")
				for i := 0; i < n; i++ {
					in.Prune = append(in.Prune, rapid.IntRange(0, 12).Draw(t, "prune"))
				}
			case 1:
				in.Stop = rapid.IntRange(0, 10).Draw(t, "stop")
			}
			return in
		},
		Check: func(c *facet.Ctx, in WalkIn) error {
			classifyValue(c, in.V)
			root, model, ok := prepare(c, in.V)
			if !ok {
				return nil
			}
			prune := map[int]bool{}
			for _, p := range in.Prune {
				prune[p] = true
			}
			sentinel := errors.New("stop here")
			seq, werr, pan := collectWalk(root, prune, in.Stop, sentinel)
			if pan != nil {
				return facet.Failf("walk-panic", "Walk panicked: %v", pan)
			}
			total := len(members(model))
			if in.Stop >= 0 && in.Stop < len(seq) {
				c.Label("mode=stop")
				if werr != sentinel {
					return facet.Failf("walk-error", "callback #%d returned an error but Walk returned %v", in.Stop, werr)
				}
				if len(seq) != in.Stop+1 {
					return facet.Failf("walk-error-continues", "callback #%d returned an error but %d callbacks were made", in.Stop, len(seq))
				}
				return nil
			}
			if werr != nil {
				return facet.Failf("walk-error", "Walk returned an error nobody raised: %v", werr)
			}
			tree, f := preorderTree(seq)
			if f != nil {
				return f
			}
			if f := compareTree(tree, Member{V: model}, "walk", nil); f != nil {
				return abstain(c, f)
			}
			pruned := 0
			for _, n := range seq {
				if n.pruned {
					pruned++
				}
			}
			if pruned > 0 {
				c.Label("mode=prune")
				if len(seq) < total {
					c.Label("prune-cut-members")
				}
			} else {
				c.Label("mode=full")
			}
			return nil
		},
	})

	facet.Register(facet.F[WalkIn]{
		Prop: "C19", Name: "walk/apply-roundtrip",
		Rule:  valueRule + "; every path reported by Walk, applied to the root, must return the visited member plus the marks of its ancestors; paths through a set (excepted by the property) must not make Apply panic",
		Quick: 40000, Thorough: 60000,
		Gen: func(t *rapid.T) WalkIn { return WalkIn{V: genValue(t), Stop: -1} },
		Check: func(c *facet.Ctx, in WalkIn) error {
			classifyValue(c, in.V)
			root, model, ok := prepare(c, in.V)
			if !ok {
				return nil
			}
			seq, werr, pan := collectWalk(root, nil, -1, nil)
			if pan != nil {
				return facet.Failf("walk-panic", "Walk panicked: %v", pan)
			}
			if werr != nil {
				return facet.Failf("walk-error", "Walk returned an error nobody raised: %v", werr)
			}
			tree, f := preorderTree(seq)
			if f != nil {
				return f
			}
			applied, refused, accepted, inherited := 0, 0, 0, 0
			f = compareTree(tree, Member{V: model}, "walk", func(o *onode, m Member) *facet.Failure {
				got, aerr, pan := safeApply(o.path, root)
				if pan != nil {
					return facet.Failf("apply-panic", "Path.Apply(%#v) panicked: %v", o.path, pan)
				}
				if m.UnderSet {
					// the property excepts members of sets (paths cannot
					// address them): only "no panic" is demanded here
					if aerr == nil {
						accepted++
					} else {
						refused++
					}
					return nil
				}
				if aerr != nil {
					return facet.Failf("apply-walk-path", "path %#v reported by Walk is refused by Apply: %v", o.path, aerr)
				}
				want := withMarks(o.val, m.Inherited)
				if d := diff(got, want); d != "" {
					return facet.Failf("apply-walk-value", "path %#v: Apply returned %#v, Walk visited %#v, ancestors' marks %v (%s)", o.path, got, o.val, m.Inherited, d)
				}
				if f := wf.Check(got); f != nil {
					return f
				}
				applied++
				if len(m.Inherited) > 0 {
					inherited++
				}
				// the path equals its own copy and has every prefix of itself
				cp := o.path.Copy()
				if !o.path.Equals(cp) || !cp.Equals(o.path) {
					return facet.Failf("path-equals", "path %#v is not Equal to its own copy", o.path)
				}
				for k := 0; k <= len(cp); k++ {
					if !cp.HasPrefix(cp[:k]) {
						return facet.Failf("path-hasprefix", "path %#v lacks its own prefix of length %d", cp, k)
					}
				}
				if len(cp) > 0 && cp[:len(cp)-1].HasPrefix(cp) {
					return facet.Failf("path-hasprefix", "the parent of %#v claims the longer path as prefix", cp)
				}
				// LastStep = Apply of the parent path + the final step
				if len(cp) > 0 {
					pv, ls, lerr, lpan := safeLastStep(cp, root)
					if lpan != nil {
						return facet.Failf("apply-panic", "Path.LastStep(%#v) panicked: %v", cp, lpan)
					}
					if lerr != nil {
						return facet.Failf("laststep", "LastStep refuses the valid path %#v: %v", cp, lerr)
					}
					res, serr := ls.Apply(pv)
					if serr != nil || !same(res, got) {
						return facet.Failf("laststep", "LastStep of %#v followed by the final step gives %#v / %v, Apply gave %#v", cp, res, serr, got)
					}
				}
				return nil
			})
			if f != nil {
				return abstain(c, f)
			}
			if refused > 0 {
				c.Label("paths-through-set-refused")
			}
			if accepted > 0 {
				c.Label("paths-through-set-accepted")
			}
			if inherited > 0 {
				c.Label("inherited-marks")
			}
			_ = fmt.Sprint
			return nil
		},
	})
}

func safeApply(p cty.Path, root cty.Value) (v cty.Value, err error, panicked any) {
	defer func() {
		if r := recover(); r != nil {
			panicked = r
		}
	}()
	v, err = p.Apply(root)
	return
}

func safeLastStep(p cty.Path, root cty.Value) (v cty.Value, st cty.PathStep, err error, panicked any) {
	defer func() {
		if r := recover(); r != nil {
			panicked = r
		}
	}()
	v, st, err = p.LastStep(root)
	return
}
