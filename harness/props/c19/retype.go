package c19

import (
	"github.com/zclconf/go-cty/cty"
	"pgregory.net/rapid"

	"verif/harness/facet"
	"verif/harness/gen"
	"verif/harness/spec"
	"verif/harness/wf"
)

// transform/enter-retype: Transformer.Enter replaces one member - the root, a
// tuple element or an object attribute, i.e. a position whose type is free -
// by a value of ANOTHER type. The documentation of Transformer says Enter
// transforms a value "before traversal": what is traversed, and rebuilt, is
// the replacement with its own structure.

// parentKind returns the kind of the container that holds the member at p
// ("" for the root).
func parentKind(v spec.V, p []PStep) string {
	if len(p) == 0 {
		return ""
	}
	cur := v
	for depth, st := range p {
		if depth == len(p)-1 {
			return cur.T.K
		}
		found := false
		for i, e := range cur.Elems {
			var match bool
			switch cur.T.K {
			case spec.KList, spec.KTuple:
				match = st.Key != nil && !st.Elem && keyText(*st.Key) == keyText(intKey(i))
			case spec.KMap:
				match = st.Key != nil && !st.Elem && st.Key.T.K == spec.KString && spec.NFC(st.Key.S) == spec.NFC(cur.Keys[i])
			case spec.KObject:
				match = st.Attr != nil && *st.Attr == spec.NFC(cur.Keys[i])
			}
			if match {
				cur, found = e, true
				break
			}
		}
		if !found {
			return "?"
		}
	}
	return "?"
}

func retypeAll(v spec.V) spec.V {
	out := v
	if len(v.Elems) > 0 {
		out.Elems = make([]spec.V, len(v.Elems))
		for i, e := range v.Elems {
			out.Elems[i] = retypeAll(e)
		}
	}
	if v.St == spec.Known && (v.T.K == spec.KTuple || v.T.K == spec.KObject) {
		out = out.Retype()
	}
	return out
}

func init() {
	facet.Register(facet.F[ReplIn]{
		Prop: "C19", Name: "transform/enter-retype",
		Rule:  valueRule + "; the root, a tuple element or an object attribute (not below a set or collection) is replaced from Transformer.Enter by a generated value of a DIFFERENT type (containers with members in 3 of 4 draws): the result must be the spec with that member replaced, and the Exit calls must be exactly the members of the new value, children before parents (the replacement's own members are traversed, the old ones are not); non-trivial when the replacement is a known container",
		Quick: 30000, Thorough: 70000,
		Gen: func(t *rapid.T) ReplIn {
			v := genValue(t)
			nv := normalize(v)
			var cands []Member
			for _, m := range members(nv) {
				if m.UnderSet {
					continue
				}
				free := true
				for i := range m.Path {
					k := parentKind(nv, m.Path[:i+1])
					if k != spec.KTuple && k != spec.KObject {
						free = false
					}
				}
				if free {
					cands = append(cands, m)
				}
			}
			m := cands[rapid.IntRange(0, len(cands)-1).Draw(t, "member")] // the root always qualifies
			if len(cands) > 1 && len(m.Path) == 0 && rapid.IntRange(0, 3).Draw(t, "nonroot") != 0 {
				m = cands[rapid.IntRange(1, len(cands)-1).Draw(t, "member2")]
			}
			var ty spec.T
			if rapid.IntRange(0, 3).Draw(t, "leafrepl") == 0 {
				ty = gen.Type(gen.TypeOpts{Depth: 0}).Draw(t, "rtype")
			} else {
				ty = genType(t, 2, true)
			}
			o := vopts
			o.RootKnown = rapid.IntRange(0, 4).Draw(t, "rknown") != 0
			r := sanitize(gen.Value(ty, o).Draw(t, "rvalue"))
			return ReplIn{V: v, At: m.Path, R: r, Mode: "enter"}
		},
		Check: func(c *facet.Ctx, in ReplIn) error {
			root, model, ok := prepare(c, in.V)
			if !ok {
				return nil
			}
			var target *Member
			for _, m := range members(model) {
				if modelPathEqual(m.Path, in.At) {
					mm := m
					target = &mm
					break
				}
			}
			if target == nil || collapsed(in.R) {
				c.Skip()
				return nil
			}
			rv, err := spec.Build(in.R)
			if err != nil {
				c.Skip()
				return nil
			}
			rn := normalize(in.R)
			classifyValue(c, in.V)
			c.Labelf("target-depth=%d", len(in.At))
			if rn.T.Equal(target.V.T) {
				c.Label("same-type")
			} else {
				c.Label("other-type")
				if descended(rn) && len(rn.Elems) > 0 {
					c.NonTrivial()
					c.Label("replacement=container-with-members")
				}
			}
			hits := 0
			var exits []*onode
			tr := fnTransformer{
				enter: func(p cty.Path, v cty.Value) (cty.Value, error) {
					if pathMatches(p, in.At) && len(p) == len(in.At) {
						hits++
						return rv, nil
					}
					return v, nil
				},
				exit: func(p cty.Path, v cty.Value) (cty.Value, error) {
					exits = append(exits, &onode{path: p.Copy(), val: v})
					return v, nil
				},
			}
			got, terr, pan := safeTransformWith(root, tr)
			if pan != nil {
				return facet.Failf("transform-panic", "TransformWithTransformer panicked when Enter replaced %s (type %s) by %#v: %v", pathText(in.At), target.V.T, rv, pan)
			}
			if terr != nil {
				return facet.Failf("transform-error", "TransformWithTransformer returned an error nobody raised: %v", terr)
			}
			if hits != 1 {
				return facet.Failf("replace-not-offered", "the member at %s was offered to Enter %d times", pathText(in.At), hits)
			}
			wantSpec := retypeAll(replaceAt(model, in.At, rn))
			want, err := spec.Build(wantSpec)
			if err != nil {
				c.Label("abstain:expected-unbuildable")
				c.Skip()
				return nil
			}
			if d := diff(got, want); d != "" {
				return facet.Failf("enter-retype", "Enter replaced %s (type %s) by %#v: got %#v, want %#v (%s)", pathText(in.At), target.V.T, rv, got, want, d)
			}
			if f := wf.Check(got); f != nil {
				return f
			}
			xtree, f := postorderTree(exits)
			if f != nil {
				return f
			}
			if f := compareTree(xtree, Member{V: normalize(wantSpec)}, "exit", nil); f != nil {
				return abstain(c, f)
			}
			return nil
		},
	})
}
