package c19

import (
	"pgregory.net/rapid"

	"verif/harness/gen"
	"verif/harness/spec"
)

var vopts = gen.ValOpts{Null: true, Unknown: true, Marks: true, NoInf: true, Simple: true, MaxElems: 3, Long: 28}

var attrPool = []string{"a", "b", "c", "id", "\u00e9", "e\u0301", "name", "x"}

// genType draws a type biased towards nesting: at every level with depth
// budget left a container is chosen with probability 3/4, so that most values
// reach depth >= 2 (the shared generator picks a leaf type about half of the
// time, which makes the root a primitive in ~45 % of its draws).
func genType(t *rapid.T, depth int, root bool) spec.T {
	leafOpts := gen.TypeOpts{Depth: 0, Dynamic: true}
	if depth <= 0 {
		return gen.Type(leafOpts).Draw(t, "leaf")
	}
	if !root && rapid.IntRange(0, 3).Draw(t, "leafhere") == 0 {
		return gen.Type(leafOpts).Draw(t, "leaf")
	}
	switch k := rapid.SampledFrom([]string{spec.KList, spec.KList, spec.KSet, spec.KMap, spec.KMap, spec.KTuple, spec.KTuple, spec.KObject, spec.KObject, spec.KObject}).Draw(t, "ckind"); k {
	case spec.KList, spec.KSet, spec.KMap:
		e := genType(t, depth-1, false)
		return spec.T{K: k, E: &e}
	case spec.KTuple:
		n := rapid.IntRange(0, 3).Draw(t, "tuplelen")
		es := make([]spec.T, n)
		for i := range es {
			es[i] = genType(t, depth-1, false)
		}
		return spec.T{K: spec.KTuple, Elems: es}
	default:
		n := rapid.IntRange(0, 3).Draw(t, "nattrs")
		perm := rapid.Permutation(attrPool).Draw(t, "attrnames")
		seen := map[string]bool{}
		var as []spec.Attr
		for _, nm := range perm {
			if len(as) == n {
				break
			}
			if seen[spec.NFC(nm)] {
				continue
			}
			seen[spec.NFC(nm)] = true
			as = append(as, spec.Attr{Name: nm, T: genType(t, depth-1, false)})
		}
		return spec.T{K: spec.KObject, Attrs: as}
	}
}

// genValue draws a value spec nested up to depth 3 (sometimes 4) with null,
// unknown (refined or not, DynamicVal at dynamic positions) and marked members
// at every depth, sets, maps whose keys differ only before NFC, and empty
// collections. The root is a known container in 7 of 8 draws.
func genValue(t *rapid.T) spec.V {
	// a third of the raw draws have an empty root (depth 0): redraw (each
	// attempt is made of rapid draws) until the value nests at least twice
	var v spec.V
	for attempt := 0; attempt < 4; attempt++ {
		v = genValue1(t)
		if v.Depth() >= 2 || (attempt >= 1 && rapid.IntRange(0, 3).Draw(t, "keepshallow") == 0) {
			break
		}
	}
	return v
}

func genValue1(t *rapid.T) spec.V {
	depth := rapid.SampledFrom([]int{2, 3, 3, 3, 4}).Draw(t, "tdepth")
	o := vopts
	if depth == 4 {
		o.MaxElems = 2
	}
	if rapid.IntRange(0, 7).Draw(t, "anyroot") == 0 {
		ty := gen.Type(gen.TypeOpts{Depth: 2, Dynamic: true}).Draw(t, "type")
		return sanitize(gen.Value(ty, o).Draw(t, "value"))
	}
	ty := genType(t, depth, true)
	o.RootKnown = true
	return sanitize(gen.Value(ty, o).Draw(t, "value"))
}
