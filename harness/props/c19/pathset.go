package c19

import (
	"fmt"
	"sort"
	"strconv"
	"strings"

	"github.com/zclconf/go-cty/cty"
	"pgregory.net/rapid"

	"verif/harness/facet"
	"verif/harness/spec"
)

// PSStep is one step of a path-set history.
type PSStep struct {
	// Op: add, remove, has, addall, empty, list, new (D = NewPathSet(Ps...)),
	// union / intersection / subtract / symdiff (D = A op B), equal (A, B),
	// patheq (Path.Equals / HasPrefix of P and Q).
	Op string    `json:"op"`
	A  int       `json:"a"`
	B  int       `json:"b,omitempty"`
	D  int       `json:"d,omitempty"`
	P  []PStep   `json:"p,omitempty"`
	Q  []PStep   `json:"q,omitempty"`
	Ps [][]PStep `json:"ps,omitempty"`
	// Style selects the path constructors for P (see ctyPathVia).
	Style int `json:"style,omitempty"`
}

// PSIn is a history over three path-set registers.
type PSIn struct {
	Steps []PSStep `json:"steps"`
}

const nRegs = 3

// canonStep is the model's identity of a step: attribute names are compared
// as given; string keys after NFC (cty strings are normalized); number keys
// by exact value whatever the construction route; unknown keys by type and
// refinement (Path.Equals documents "exact equality" and uses RawEquals).
func canonStep(s PStep) (string, bool) {
	if s.Attr != nil {
		return "A:" + *s.Attr, true
	}
	if s.Key == nil || len(s.Key.Marks) > 0 {
		return "", false
	}
	k := *s.Key
	switch {
	case k.St == spec.Unknown && (k.T.K == spec.KNumber || k.T.K == spec.KString):
		r := ""
		if k.Ref != nil {
			if k.Ref.Null != "notnull" || k.Ref.Lo != nil || k.Ref.Hi != nil || k.Ref.Prefix != nil {
				return "", false
			}
			r = ":notnull"
		}
		return "U:" + k.T.K + r, true
	case k.St == spec.Known && k.T.K == spec.KNumber:
		f := k.N.Float()
		if f.IsInf() {
			return "", false
		}
		r, _ := f.Rat(nil)
		return "N:" + r.RatString(), true
	case k.St == spec.Known && k.T.K == spec.KString:
		return "S:" + spec.NFC(k.S), true
	}
	return "", false
}

func canonPath(p []PStep) (string, bool) {
	parts := make([]string, len(p))
	for i, s := range p {
		c, ok := canonStep(s)
		if !ok {
			return "", false
		}
		parts[i] = c
	}
	return fmt.Sprintf("%d|", len(p)) + strings.Join(parts, "\x00"), true
}

// bucketOf mirrors the documented hashing scheme only to *classify* cases
// (paths of the same shape share a bucket); it is not used as an oracle.
func bucketOf(p []PStep) string {
	var b strings.Builder
	for _, s := range p {
		if s.Attr != nil {
			b.WriteString(*s.Attr)
		} else {
			b.WriteString("#")
		}
	}
	return b.String()
}

func hasUnknownKey(p []PStep) bool {
	for _, s := range p {
		if s.Key != nil && s.Key.St == spec.Unknown {
			return true
		}
	}
	return false
}

type mset map[string][]PStep

func (m mset) clone() mset {
	out := mset{}
	for k, v := range m {
		out[k] = v
	}
	return out
}

// (the last entries read like several steps when a path is written as text:
// .a.b / ["a.b"], .a["b"] / ["a[\"b\"]"], .a[1] / ["a[1]"])
var psAttrs = []string{"a", "b", "#", "ab", "\u00e9", "e\u0301", "##", "a.b", `a["b"]`, "a[1]"}
var psNums = []spec.Num{spec.NInt(0), spec.NInt(1), spec.NInt(2), spec.NFloat(1), spec.NParse("1.0"), spec.NParse("2"), spec.NFloat(0),
	{Route: "negzero"}, {Route: "big", Text: "1", Prec: 24}, spec.NFloat(1.5), spec.NParse("1.5"), spec.NInt(-1), spec.NParse("0.25"), {Route: "uint", Text: "2"}}
var psStrs = []string{"a", "b", "#", "\u00e9", "e\u0301", "", "ab", "1", `a"]["b`}

func genPSStep(t *rapid.T, unknowns bool) PStep {
	switch rapid.IntRange(0, 9).Draw(t, "pskind") {
	case 0, 1:
		return attrStep(rapid.SampledFrom(psAttrs).Draw(t, "attr"))
	case 2, 3, 4, 5, 6:
		return keyStep(spec.KnownNum(rapid.SampledFrom(psNums).Draw(t, "num")))
	case 7, 8:
		return keyStep(spec.KnownStr(rapid.SampledFrom(psStrs).Draw(t, "str")))
	default:
		if unknowns {
			k := spec.UnknownOf(rapid.SampledFrom([]spec.T{spec.Number, spec.String}).Draw(t, "unk"))
			if rapid.IntRange(0, 3).Draw(t, "unkref") == 0 {
				k.Ref = &spec.Ref{Null: "notnull"}
			}
			return keyStep(k)
		}
		return keyStep(spec.KnownNum(rapid.SampledFrom(psNums).Draw(t, "num")))
	}
}

func genPSPath(t *rapid.T, unknowns bool) []PStep {
	n := rapid.SampledFrom([]int{0, 1, 1, 2, 2, 2, 3}).Draw(t, "plen")
	p := make([]PStep, n)
	for i := range p {
		p[i] = genPSStep(t, unknowns)
	}
	return p
}

// reroute rebuilds the same path through other constructors: another number
// route with the same value, the other normalisation form of a string key.
func reroute(t *rapid.T, p []PStep) []PStep {
	out := append([]PStep(nil), p...)
	for i, s := range out {
		if s.Key == nil || s.Key.St != spec.Known {
			continue
		}
		c, _ := canonStep(s)
		var alts []spec.V
		if s.Key.T.K == spec.KNumber {
			for _, n := range psNums {
				if c2, _ := canonStep(keyStep(spec.KnownNum(n))); c2 == c {
					alts = append(alts, spec.KnownNum(n))
				}
			}
		} else {
			for _, x := range psStrs {
				if c2, _ := canonStep(keyStep(spec.KnownStr(x))); c2 == c {
					alts = append(alts, spec.KnownStr(x))
				}
			}
		}
		if len(alts) > 1 {
			out[i] = keyStep(rapid.SampledFrom(alts).Draw(t, "alt"))
		}
	}
	return out
}

func genPSIn(t *rapid.T) PSIn {
	unknowns := rapid.IntRange(0, 9).Draw(t, "unknownkeys") == 0
	npool := rapid.IntRange(3, 8).Draw(t, "npool")
	pool := make([][]PStep, npool)
	for i := range pool {
		pool[i] = genPSPath(t, unknowns)
		// extend an earlier path so that prefixes and same-bucket siblings occur
		if i > 0 && rapid.IntRange(0, 2).Draw(t, "derive") == 0 {
			base := pool[rapid.IntRange(0, i-1).Draw(t, "base")]
			switch rapid.IntRange(0, 2).Draw(t, "derivekind") {
			case 0:
				if len(base) < 4 {
					pool[i] = append(append([]PStep(nil), base...), genPSStep(t, unknowns))
				}
			case 1:
				if len(base) > 0 {
					d := append([]PStep(nil), base...)
					d[len(d)-1] = genPSStep(t, unknowns)
					pool[i] = d
				}
			default:
				if len(base) > 0 {
					d := append([]PStep(nil), base...)
					d[0] = genPSStep(t, unknowns)
					pool[i] = d
				}
			}
		}
	}
	if rapid.IntRange(0, 5).Draw(t, "family") == 3 {
		// a family of 6..10 siblings that differ only in their last key: they
		// share one hash bucket of the set, whose slice then has spare
		// capacity and is extended, cut and copied by the steps below
		base := genPSPath(t, false)
		if len(base) > 2 {
			base = base[:2]
		}
		k := rapid.IntRange(6, 10).Draw(t, "nsiblings")
		strs := rapid.Bool().Draw(t, "strkeys")
		pool = pool[:0]
		for i := 0; i < k; i++ {
			last := keyStep(spec.KnownNum(spec.NInt(int64(i))))
			if strs {
				last = keyStep(spec.KnownStr("k" + strconv.Itoa(i)))
			}
			pool = append(pool, append(append([]PStep(nil), base...), last))
		}
	}
	pick := func() []PStep {
		p := rapid.SampledFrom(pool).Draw(t, "path")
		if rapid.IntRange(0, 2).Draw(t, "reroute") == 0 {
			return reroute(t, p)
		}
		return p
	}
	reg := func(l string) int { return rapid.IntRange(0, nRegs-1).Draw(t, l) }
	n := rapid.IntRange(4, 24).Draw(t, "nsteps")
	var in PSIn
	for i := 0; i < n; i++ {
		op := rapid.SampledFrom([]string{"add", "add", "add", "add", "remove", "remove", "has", "has", "addall", "empty", "list", "new",
			"union", "intersection", "subtract", "symdiff", "equal", "equal", "patheq"}).Draw(t, "op")
		st := PSStep{Op: op, A: reg("a"), Style: rapid.IntRange(0, 2).Draw(t, "style")}
		switch op {
		case "add", "remove", "has", "addall":
			st.P = pick()
		case "new":
			st.D = reg("d")
			k := rapid.IntRange(0, 4).Draw(t, "ninit")
			for j := 0; j < k; j++ {
				st.Ps = append(st.Ps, pick())
			}
		case "union", "intersection", "subtract", "symdiff":
			st.B, st.D = reg("b"), reg("d")
		case "equal":
			st.B = reg("b")
		case "patheq":
			st.P, st.Q = pick(), pick()
		}
		in.Steps = append(in.Steps, st)
	}
	return in
}

func init() {
	facet.Register(facet.F[PSIn]{
		Prop: "C19", Name: "pathset/history",
		Rule:  "history of 4-24 operations over three PathSet registers whose path pool holds at least one pair of distinct paths in the same hash bucket (same attribute names, any index keys); paths share steps, number keys come by several construction routes, string keys in both normalisation forms, one history in ten uses unknown keys; after every step every register is compared (List, Empty, Has over the whole pool) with a map-of-canonical-paths model; distinct = hash of the input JSON",
		Quick: 12000, Thorough: 30000,
		Gen:   genPSIn,
		Check: checkPathSet,
	})
}

func checkPathSet(c *facet.Ctx, in PSIn) (ret error) {
	defer func() {
		if r := recover(); r != nil {
			ret = facet.Failf("pathset-panic", "a PathSet / Path method panicked: %v", r)
		}
	}()
	// the pool of all paths mentioned in the history
	type pe struct {
		p     []PStep
		canon string
		path  cty.Path
	}
	var pool []pe
	seenCanon := map[string]bool{}
	unknownKeys := false
	addPool := func(p []PStep) (pe, bool) {
		cn, ok := canonPath(p)
		if !ok {
			return pe{}, false
		}
		for _, s := range p {
			if s.Key != nil && !keySpecOK(*s.Key) {
				return pe{}, false
			}
		}
		e := pe{p, cn, ctyPath(p)}
		if hasUnknownKey(p) {
			unknownKeys = true
		}
		pool = append(pool, e)
		seenCanon[cn] = true
		return e, true
	}
	for _, st := range in.Steps {
		for _, p := range append([][]PStep{st.P, st.Q}, st.Ps...) {
			if p == nil && st.Op != "add" && st.Op != "remove" && st.Op != "has" && st.Op != "addall" && st.Op != "patheq" {
				continue
			}
			if _, ok := addPool(p); !ok {
				c.Skip()
				return nil
			}
		}
		if st.A < 0 || st.A >= nRegs || st.B < 0 || st.B >= nRegs || st.D < 0 || st.D >= nRegs {
			c.Skip()
			return nil
		}
	}
	// classification
	buckets := map[string]map[string]bool{}
	for _, e := range pool {
		b := bucketOf(e.p)
		if buckets[b] == nil {
			buckets[b] = map[string]bool{}
		}
		buckets[b][e.canon] = true
	}
	sameBucket := false
	for _, m := range buckets {
		if len(m) >= 2 {
			sameBucket = true
		}
	}
	if sameBucket {
		c.NonTrivial()
		c.Label("same-bucket-pair")
	}
	if unknownKeys {
		c.Label("unknown-keys")
	}

	var lib [nRegs]cty.PathSet
	var mod [nRegs]mset
	for i := range lib {
		lib[i] = cty.NewPathSet()
		mod[i] = mset{}
	}
	unk := "0"
	if unknownKeys {
		unk = "1"
	}
	fail := func(i int, kind, format string, a ...any) *facet.Failure {
		return facet.Failf(kind, "step %d (%s): %s", i, in.Steps[i].Op, fmt.Sprintf(format, a...)).With("unknown-keys", unk)
	}
	scratch := map[int]cty.Path{}
	verify := func(i int, regs ...int) *facet.Failure {
		for _, r := range regs {
			listed := lib[r].List()
			seen := map[string]int{}
			for _, lp := range listed {
				cn, ok := canonCty(lp)
				if _, has := mod[r][cn]; !ok || !has {
					return fail(i, "pathset-list-extra", "register %d: List() holds %#v which the model does not (model: %s)", r, lp, modelText(mod[r])).With("listed-unknown", boolText(ctyPathHasUnknown(lp)))
				}
				seen[cn]++
				if seen[cn] > 1 {
					return fail(i, "pathset-list-dup", "register %d: List() holds %#v more than once", r, lp).With("listed-unknown", boolText(ctyPathHasUnknown(lp)))
				}
			}
			if len(listed) != len(mod[r]) {
				return fail(i, "pathset-list-missing", "register %d: List() has %d paths, model %d (%s)", r, len(listed), len(mod[r]), modelText(mod[r])).With("model-unknown", boolText(modelHasUnknown(mod[r])))
			}
			if lib[r].Empty() != (len(mod[r]) == 0) {
				return fail(i, "pathset-empty", "register %d: Empty() = %t, model holds %d paths", r, lib[r].Empty(), len(mod[r]))
			}
			for _, e := range pool {
				_, want := mod[r][e.canon]
				if got := lib[r].Has(e.path); got != want {
					return fail(i, "pathset-has", "register %d: Has(%s) = %t, model %t (model: %s)", r, pathText(e.p), got, want, modelText(mod[r])).With("probe-unknown", boolText(hasUnknownKey(e.p)))
				}
			}
			// the same questions asked, back to back and length by length, through
			// ONE path buffer that the caller rewrites for every probe (as a
			// walker does with the path it hands to its callback): Has keeps nothing
			for n := 1; n <= 5; n++ {
				for _, e := range pool {
					if len(e.path) != n {
						continue
					}
					buf := scratch[n]
					if buf == nil {
						buf = make(cty.Path, n)
						scratch[n] = buf
					}
					copy(buf, e.path)
					_, want := mod[r][e.canon]
					if got := lib[r].Has(buf); got != want {
						return fail(i, "pathset-has-reused-buffer", "register %d: Has(%s), asked through a path buffer rewritten since the previous probe, = %t, model %t", r, pathText(e.p), got, want).With("probe-unknown", boolText(hasUnknownKey(e.p)))
					}
				}
			}
		}
		return nil
	}
	for i, st := range in.Steps {
		c.Label("op=" + st.Op)
		pP, pok := ctyPathVia(st.P, st.Style)
		if !pok {
			return fail(i, "path-builders", "building %s step by step (style %d) disturbed an earlier path", pathText(st.P), st.Style)
		}
		switch st.Op {
		case "add":
			cn, _ := canonPath(st.P)
			lib[st.A].Add(pP)
			mod[st.A][cn] = st.P
		case "remove":
			cn, _ := canonPath(st.P)
			lib[st.A].Remove(pP)
			delete(mod[st.A], cn)
		case "has":
			// covered by verify (the path is in the pool)
		case "addall":
			lib[st.A].AddAllSteps(pP)
			for k := 1; k <= len(st.P); k++ {
				cn, _ := canonPath(st.P[:k])
				mod[st.A][cn] = st.P[:k]
			}
		case "empty", "list":
			// covered by verify
		case "new":
			var ps []cty.Path
			m := mset{}
			for _, p := range st.Ps {
				ps = append(ps, ctyPath(p))
				cn, _ := canonPath(p)
				m[cn] = p
			}
			lib[st.D] = cty.NewPathSet(ps...)
			mod[st.D] = m
		case "union", "intersection", "subtract", "symdiff":
			a, b := mod[st.A], mod[st.B]
			m := mset{}
			for cn, p := range a {
				_, inB := b[cn]
				switch st.Op {
				case "union":
					m[cn] = p
				case "intersection":
					if inB {
						m[cn] = p
					}
				case "subtract", "symdiff":
					if !inB {
						m[cn] = p
					}
				}
			}
			for cn, p := range b {
				_, inA := a[cn]
				if st.Op == "union" || (st.Op == "symdiff" && !inA) {
					m[cn] = p
				}
			}
			var res cty.PathSet
			switch st.Op {
			case "union":
				res = lib[st.A].Union(lib[st.B])
			case "intersection":
				res = lib[st.A].Intersection(lib[st.B])
			case "subtract":
				res = lib[st.A].Subtract(lib[st.B])
			default:
				res = lib[st.A].SymmetricDifference(lib[st.B])
			}
			lib[st.D] = res
			mod[st.D] = m
		case "equal":
			want := len(mod[st.A]) == len(mod[st.B])
			if want {
				for cn := range mod[st.A] {
					if _, ok := mod[st.B][cn]; !ok {
						want = false
					}
				}
			}
			if got := lib[st.A].Equal(lib[st.B]); got != want {
				return fail(i, "pathset-equal", "Equal(reg %d, reg %d) = %t, model %t (%s vs %s)", st.A, st.B, got, want, modelText(mod[st.A]), modelText(mod[st.B])).With("model-unknown", boolText(modelHasUnknown(mod[st.A]) && modelHasUnknown(mod[st.B])))
			}
			if got := lib[st.B].Equal(lib[st.A]); got != want {
				return fail(i, "pathset-equal", "Equal(reg %d, reg %d) = %t, model %t (converse direction)", st.B, st.A, got, want).With("model-unknown", boolText(modelHasUnknown(mod[st.A]) && modelHasUnknown(mod[st.B])))
			}
		case "patheq":
			p, q := pP, ctyPath(st.Q)
			cp, _ := canonPath(st.P)
			cq, _ := canonPath(st.Q)
			if got := p.Equals(q); got != (cp == cq) {
				return fail(i, "path-equals", "Path.Equals(%s, %s) = %t, model %t", pathText(st.P), pathText(st.Q), got, cp == cq)
			}
			if got := q.Equals(p); got != (cp == cq) {
				return fail(i, "path-equals", "Path.Equals(%s, %s) = %t, model %t", pathText(st.Q), pathText(st.P), got, cp == cq)
			}
			wantPrefix := false
			if len(st.Q) <= len(st.P) {
				cpp, _ := canonPath(st.P[:len(st.Q)])
				wantPrefix = cpp == cq
			}
			if got := p.HasPrefix(q); got != wantPrefix {
				return fail(i, "path-hasprefix", "(%s).HasPrefix(%s) = %t, model %t", pathText(st.P), pathText(st.Q), got, wantPrefix)
			}
			if cpy := p.Copy(); !pathEqualOwn(cpy, p) || len(cpy) != len(p) {
				return fail(i, "path-copy", "Copy of %s differs", pathText(st.P))
			}
		default:
			c.Skip()
			return nil
		}
		// the register written by this step is compared at once; all of them
		// at the end and every sixth step (a result set must not share state
		// with its operands: later writes would show up in the other register)
		touched := []int{st.A}
		switch st.Op {
		case "new", "union", "intersection", "subtract", "symdiff":
			touched = []int{st.D}
		}
		if i == len(in.Steps)-1 || i%6 == 5 {
			touched = []int{0, 1, 2}
		}
		if f := verify(i, touched...); f != nil {
			return f
		}
	}
	return nil
}

// canonCty computes the model identity of a library path through accessors.
func canonCty(p cty.Path) (string, bool) {
	parts := make([]string, len(p))
	for i, st := range p {
		switch s := st.(type) {
		case cty.GetAttrStep:
			parts[i] = "A:" + s.Name
		case cty.IndexStep:
			k := s.Key
			switch {
			case k == cty.NilVal || k.IsMarked() || k.IsNull():
				return "", false
			case !k.IsKnown() && (k.Type() == cty.Number || k.Type() == cty.String):
				parts[i] = "U:" + spec.FromCty(k.Type()).K
				if k.Range().DefinitelyNotNull() {
					parts[i] += ":notnull"
				}
			case !k.IsKnown():
				return "", false
			case k.Type() == cty.Number:
				f := k.AsBigFloat()
				if f.IsInf() {
					return "", false
				}
				r, _ := f.Rat(nil)
				parts[i] = "N:" + r.RatString()
			case k.Type() == cty.String:
				parts[i] = "S:" + k.AsString()
			default:
				return "", false
			}
		default:
			return "", false
		}
	}
	return fmt.Sprintf("%d|", len(p)) + strings.Join(parts, "\x00"), true
}

// pathMatchesKeys: library path vs model path, unknown keys compared by type and refinement.
func pathMatchesKeys(p cty.Path, mp []PStep) bool {
	if len(p) != len(mp) {
		return false
	}
	for i := range p {
		if !stepMatches(p[i], mp[i]) {
			return false
		}
	}
	return true
}

func ctyPathHasUnknown(p cty.Path) bool {
	for _, s := range p {
		if is, ok := s.(cty.IndexStep); ok && !is.Key.IsKnown() {
			return true
		}
	}
	return false
}

func modelHasUnknown(m mset) bool {
	for _, p := range m {
		if hasUnknownKey(p) {
			return true
		}
	}
	return false
}

func boolText(b bool) string {
	if b {
		return "1"
	}
	return "0"
}

func modelText(m mset) string {
	var out []string
	for _, p := range m {
		out = append(out, pathText(p))
	}
	sort.Strings(out)
	return "{" + strings.Join(out, " ") + "}"
}
