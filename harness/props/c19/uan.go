package c19

import (
	"github.com/zclconf/go-cty/cty"
	"pgregory.net/rapid"

	"verif/harness/facet"
	"verif/harness/spec"
	"verif/harness/wf"
)

// unknownToNull is the model of cty.UnknownAsNull on specs.
func unknownToNull(v spec.V) spec.V {
	if v.St == spec.Unknown {
		return spec.NullOf(v.T)
	}
	out := v
	if len(v.Elems) > 0 {
		out.Elems = make([]spec.V, len(v.Elems))
		for i, e := range v.Elems {
			out.Elems[i] = unknownToNull(e)
		}
	}
	return out
}

func init() {
	facet.Register(facet.F[WalkIn]{
		Prop: "C19", Name: "unknown-as-null",
		Rule:  "unmarked value (marks are stripped from the generated spec: UnknownAsNull documents nothing about marks) of nesting depth >= 2 with an unknown member below the root; the result must have the same type, a null of the same type wherever the spec has an unknown, and be unchanged elsewhere; distinct = hash of the input JSON",
		Quick: 30000, Thorough: 70000,
		Gen: func(t *rapid.T) WalkIn { return WalkIn{V: genValue(t).StripMarks(), Stop: -1} },
		Check: func(c *facet.Ctx, in WalkIn) error {
			v := in.V.StripMarks()
			root, _, ok := prepare(c, v)
			if !ok {
				return nil
			}
			d, _, _, st := hasNested(v)
			c.Labelf("depth=%d", d)
			if st {
				c.Label("has-nonempty-set")
			}
			if v.WhollyKnown() {
				c.Label("wholly-known")
			} else if d >= 2 && v.St != spec.Unknown {
				c.NonTrivial()
			}
			var got cty.Value
			pan := func() (p any) {
				defer func() { p = recover() }()
				got = cty.UnknownAsNull(root)
				return nil
			}()
			if pan != nil {
				return facet.Failf("uan-panic", "UnknownAsNull panicked: %v", pan)
			}
			want, err := spec.Build(unknownToNull(v))
			if err != nil {
				c.Label("skip:expected-unbuildable")
				c.Skip()
				return nil
			}
			if !got.Type().Equals(root.Type()) {
				return facet.Failf("uan-type", "UnknownAsNull changed the type from %#v to %#v", root.Type(), got.Type())
			}
			if !got.IsWhollyKnown() {
				return facet.Failf("uan-left", "UnknownAsNull left an unknown value inside %#v", got)
			}
			if df := diff(got, want); df != "" {
				return facet.Failf("uan-value", "UnknownAsNull: got %#v, want %#v (%s)", got, want, df)
			}
			if v.WhollyKnown() {
				if df := diff(got, root); df != "" {
					return facet.Failf("uan-changed-known", "UnknownAsNull changed a wholly known value (%s)", df)
				}
			}
			if f := wf.Check(got); f != nil {
				return f
			}
			return nil
		},
	})
}
