// Package c19: walk, transform and paths address exactly the members of a value.
//
// The value SPEC (package spec) is the model: the members of a value are
// enumerated from the spec tree, never from the library's own traversal.
package c19

import (
	"fmt"
	"math/big"
	"sort"
	"strings"

	"github.com/zclconf/go-cty/cty"

	"verif/harness/facet"
	"verif/harness/spec"
)

// ---------------------------------------------------------------- spec helpers

func isContainerKind(k string) bool {
	switch k {
	case spec.KList, spec.KSet, spec.KMap, spec.KTuple, spec.KObject:
		return true
	}
	return false
}

// descended reports whether the model descends into v: a known, non-null
// list/set/map/tuple/object (marked or not). Null and unknown containers are
// leaves (walk.go: "Can't recurse into null or unknown values").
func descended(v spec.V) bool {
	return v.St == spec.Known && isContainerKind(v.T.K)
}

func unionMarks(a []string, b ...string) []string {
	m := map[string]bool{}
	for _, x := range a {
		m[x] = true
	}
	for _, x := range b {
		m[x] = true
	}
	out := make([]string, 0, len(m))
	for x := range m {
		out = append(out, x)
	}
	sort.Strings(out)
	if len(out) == 0 {
		return nil
	}
	return out
}

func sortedKeys(m map[string]bool) []string {
	out := make([]string, 0, len(m))
	for k := range m {
		out = append(out, k)
	}
	sort.Strings(out)
	return out
}

// normalize returns the spec of the value that the constructors really build:
// a set cannot hold marked members (docs/marks.md "Marked Values in Sets"):
// the marks found anywhere inside its members are moved to the set itself.
func normalize(v spec.V) spec.V {
	out := v
	if len(v.Elems) > 0 {
		out.Elems = make([]spec.V, len(v.Elems))
		for i, e := range v.Elems {
			out.Elems[i] = normalize(e)
		}
	}
	if v.St == spec.Known && v.T.K == spec.KSet {
		hoisted := map[string]bool{}
		for i, e := range out.Elems {
			for m := range e.DeepMarks() {
				hoisted[m] = true
			}
			out.Elems[i] = e.StripMarks()
		}
		out.Marks = unionMarks(v.Marks, sortedKeys(hoisted)...)
	}
	return out
}

// ---------------------------------------------------------------- model paths

// PStep is one path step in JSON form: {attr: name} or {key: value spec}.
type PStep struct {
	Attr *string `json:"attr,omitempty"`
	Key  *spec.V `json:"key,omitempty"`
	// Elem marks a step into a set member (Key is then the member itself,
	// with all marks stripped). Only produced by the model enumeration.
	Elem bool `json:"elem,omitempty"`
}

func attrStep(name string) PStep { return PStep{Attr: &name} }
func keyStep(k spec.V) PStep     { return PStep{Key: &k} }
func intKey(i int) spec.V        { return spec.KnownNum(spec.NInt(int64(i))) }

func (s PStep) String() string {
	switch {
	case s.Attr != nil:
		return fmt.Sprintf(".%q", *s.Attr)
	case s.Key != nil && s.Elem:
		return "[elem]"
	case s.Key != nil:
		return "[" + keyText(*s.Key) + "]"
	}
	return "<bad step>"
}

func keyText(k spec.V) string {
	m := ""
	if len(k.Marks) > 0 {
		m = "@" + strings.Join(k.Marks, "+")
	}
	switch {
	case k.St == spec.Null:
		return "null:" + k.T.String() + m
	case k.St == spec.Unknown:
		return "unknown:" + k.T.String() + m
	case k.T.K == spec.KNumber:
		return "n:" + k.N.String() + m
	case k.T.K == spec.KString:
		return fmt.Sprintf("s:%q", k.S) + m
	}
	return "v:" + k.T.String() + m
}

func pathText(p []PStep) string {
	var b strings.Builder
	b.WriteString("$")
	for _, s := range p {
		b.WriteString(s.String())
	}
	return b.String()
}

// modelPathEqual compares two model paths (set-member steps by value).
func modelPathEqual(a, b []PStep) bool {
	if len(a) != len(b) {
		return false
	}
	for i := range a {
		x, y := a[i], b[i]
		switch {
		case x.Attr != nil || y.Attr != nil:
			if x.Attr == nil || y.Attr == nil || *x.Attr != *y.Attr {
				return false
			}
		case x.Key == nil || y.Key == nil || x.Elem != y.Elem:
			return false
		case x.Elem:
			if !same(spec.MustBuild(*x.Key), spec.MustBuild(*y.Key)) {
				return false
			}
		default:
			if keyText(*x.Key) != keyText(*y.Key) {
				return false
			}
		}
	}
	return true
}

// ctyPathVia builds the cty.Path of a model path through the public
// constructors: style 0 = step literals, 1 = Path.Index / Path.GetAttr chains
// (IndexPath / GetAttrPath for the first step), 2 = the typed conveniences
// IndexInt / IndexString where the key is a plain int or string (else as 1).
// Every intermediate path of a chain is kept and re-checked afterwards: the
// builders document "returns a new Path", so extending a path must not
// disturb a path built earlier. ok=false reports such a disturbance.
func ctyPathVia(p []PStep, style int) (out cty.Path, ok bool) {
	if style%3 == 0 {
		return ctyPath(p), true
	}
	var inter []cty.Path
	var cur cty.Path
	for i, s := range p {
		// the receiver gets spare capacity, as a path assembled with append
		// (or handed out by Walk) has: a builder that appended in place would
		// let the sibling built below overwrite the step just added
		base := append(make(cty.Path, 0, len(cur)+4), cur...)
		var next cty.Path
		switch {
		case s.Attr != nil:
			if i == 0 {
				next = cty.GetAttrPath(*s.Attr)
			} else {
				next = base.GetAttr(*s.Attr)
			}
		default:
			k := *s.Key
			plainInt := false
			var iv int64
			if k.St == spec.Known && len(k.Marks) == 0 && k.T.K == spec.KNumber && !k.N.IsInf() {
				f := k.N.Float()
				if f.IsInt() {
					if x, acc := f.Int64(); acc == big.Exact && x > -(1<<31) && x < 1<<31 {
						plainInt, iv = true, x
					}
				}
			}
			plainStr := k.St == spec.Known && len(k.Marks) == 0 && k.T.K == spec.KString
			switch {
			case style%3 == 2 && plainInt && i == 0:
				next = cty.IndexIntPath(int(iv))
			case style%3 == 2 && plainInt:
				next = base.IndexInt(int(iv))
			case style%3 == 2 && plainStr && i == 0:
				next = cty.IndexStringPath(k.S)
			case style%3 == 2 && plainStr:
				next = base.IndexString(k.S)
			case i == 0:
				next = cty.IndexPath(spec.MustBuild(k))
			default:
				next = base.Index(spec.MustBuild(k))
			}
		}
		if i > 0 {
			_ = base.GetAttr("__sibling__")
			_ = base.Index(cty.StringVal("__sibling__"))
		}
		inter = append(inter, next)
		cur = next
	}
	ref := ctyPath(p)
	for i, q := range inter {
		if !pathEqualOwn(q, ref[:i+1]) {
			return cur, false
		}
	}
	if cur == nil {
		cur = cty.Path{}
	}
	return cur, true
}

// ctyPath builds the cty.Path of a model path.
func ctyPath(p []PStep) cty.Path {
	out := make(cty.Path, 0, len(p))
	for _, s := range p {
		if s.Attr != nil {
			out = append(out, cty.GetAttrStep{Name: *s.Attr})
		} else {
			out = append(out, cty.IndexStep{Key: spec.MustBuild(*s.Key)})
		}
	}
	return out
}

// Member is one member of a value according to the model.
type Member struct {
	Path      []PStep
	V         spec.V   // normalized spec of the member (own marks only)
	Inherited []string // marks of all proper ancestors
	UnderSet  bool     // a proper ancestor is a set: no path can address it
}

// members enumerates the members of the normalized spec v in pre-order:
// the value itself, then, for every known non-null container, its members.
func members(v spec.V) []Member {
	var out []Member
	var rec func(path []PStep, v spec.V, inh []string, under bool)
	rec = func(path []PStep, v spec.V, inh []string, under bool) {
		out = append(out, Member{Path: append([]PStep(nil), path...), V: v, Inherited: inh, UnderSet: under})
		if !descended(v) {
			return
		}
		cinh := unionMarks(inh, v.Marks...)
		for i, e := range v.Elems {
			var st PStep
			cu := under
			switch v.T.K {
			case spec.KList, spec.KTuple:
				st = keyStep(intKey(i))
			case spec.KMap:
				st = keyStep(spec.KnownStr(v.Keys[i]))
			case spec.KObject:
				st = attrStep(spec.NFC(v.Keys[i]))
			case spec.KSet:
				k := e.StripMarks()
				st = PStep{Key: &k, Elem: true}
				cu = true
			}
			rec(append(path, st), e, cinh, cu)
		}
	}
	rec(nil, v, nil, false)
	return out
}

// ---------------------------------------------------------------- value comparison

func marksOf(v cty.Value) []string {
	var out []string
	for m := range v.Marks() {
		out = append(out, fmt.Sprintf("%v", m))
	}
	sort.Strings(out)
	return out
}

func sameStrings(a, b []string) bool {
	if len(a) != len(b) {
		return false
	}
	for i := range a {
		if a[i] != b[i] {
			return false
		}
	}
	return true
}

// diff compares two values member by member: same type, same marks at every
// position, same null/unknown state, RawEquals at the leaves (and for the
// refinements of unknown values); sets are compared by mutual inclusion, so
// the result does not depend on the internal order of set members. It
// returns "" when the values are the same, else a description of the first
// difference found.
func diff(a, b cty.Value) string { return diffAt(a, b, "$") }

func same(a, b cty.Value) bool { return diffAt(a, b, "$") == "" }

func diffAt(a, b cty.Value, at string) string {
	if a == cty.NilVal || b == cty.NilVal {
		if a == cty.NilVal && b == cty.NilVal {
			return ""
		}
		return at + ": one side is NilVal"
	}
	if !a.Type().Equals(b.Type()) {
		return fmt.Sprintf("%s: type %s vs %s", at, spec.FromCty(a.Type()), spec.FromCty(b.Type()))
	}
	if am, bm := marksOf(a), marksOf(b); !sameStrings(am, bm) {
		return fmt.Sprintf("%s: marks %v vs %v", at, am, bm)
	}
	a, _ = a.Unmark()
	b, _ = b.Unmark()
	if a.IsKnown() != b.IsKnown() {
		return fmt.Sprintf("%s: known %t vs %t", at, a.IsKnown(), b.IsKnown())
	}
	if !a.IsKnown() {
		if !a.RawEquals(b) {
			return fmt.Sprintf("%s: unknown values differ (refinements): %#v vs %#v", at, a, b)
		}
		return ""
	}
	if a.IsNull() != b.IsNull() {
		return fmt.Sprintf("%s: null %t vs %t", at, a.IsNull(), b.IsNull())
	}
	if a.IsNull() {
		return ""
	}
	ty := a.Type()
	switch {
	case ty.IsSetType():
		as, bs := a.AsValueSlice(), b.AsValueSlice()
		if len(as) != len(bs) {
			return fmt.Sprintf("%s: set length %d vs %d", at, len(as), len(bs))
		}
		used := make([]bool, len(bs))
	outer:
		for _, x := range as {
			for j, y := range bs {
				if !used[j] && same(x, y) {
					used[j] = true
					continue outer
				}
			}
			return fmt.Sprintf("%s: set member %#v has no counterpart", at, x)
		}
		return ""
	case ty.IsListType() || ty.IsTupleType() || ty.IsMapType() || ty.IsObjectType():
		if a.LengthInt() != b.LengthInt() {
			return fmt.Sprintf("%s: length %d vs %d", at, a.LengthInt(), b.LengthInt())
		}
		ai, bi := a.ElementIterator(), b.ElementIterator()
		for ai.Next() {
			if !bi.Next() {
				return at + ": iterator ended early"
			}
			ak, av := ai.Element()
			bk, bv := bi.Element()
			if !ak.RawEquals(bk) {
				return fmt.Sprintf("%s: key %#v vs %#v", at, ak, bk)
			}
			sub := at
			if ak.Type() == cty.String {
				sub += fmt.Sprintf("[%q]", ak.AsString())
			} else {
				sub += "[" + ak.AsBigFloat().Text('f', -1) + "]"
			}
			if d := diffAt(av, bv, sub); d != "" {
				return d
			}
		}
		return ""
	default:
		if !a.RawEquals(b) {
			return fmt.Sprintf("%s: %#v vs %#v", at, a, b)
		}
		return ""
	}
}

// withMarks adds string marks (as spec.Mark) to a value.
func withMarks(v cty.Value, marks []string) cty.Value {
	for _, m := range marks {
		v = v.Mark(spec.Mark(m))
	}
	return v
}

// ---------------------------------------------------------------- observed trees

// onode is one callback invocation observed from the library.
type onode struct {
	path   cty.Path
	val    cty.Value
	kids   []*onode
	pruned bool // the walk callback returned false here
}

// preorderTree turns a pre-order sequence of visits into a tree, checking the
// stack discipline "parents before children": a visit at depth n must extend
// the most recent visit at depth n-1.
func preorderTree(seq []*onode) (*onode, *facet.Failure) {
	if len(seq) == 0 {
		return nil, facet.Failf("walk-no-root", "the callback was never invoked")
	}
	if len(seq[0].path) != 0 {
		return nil, facet.Failf("walk-root-first", "first visit has path of length %d, want the root (empty path)", len(seq[0].path))
	}
	stack := []*onode{seq[0]}
	for i, n := range seq[1:] {
		d := len(n.path)
		if d == 0 {
			return nil, facet.Failf("walk-root-twice", "visit #%d has the empty path again", i+1)
		}
		if d > len(stack) {
			return nil, facet.Failf("walk-parent-missing", "visit #%d (%#v) at depth %d comes before any visit of its parent", i+1, n.path, d)
		}
		stack = stack[:d]
		parent := stack[d-1]
		if !pathEqualOwn(n.path[:d-1], parent.path) {
			return nil, facet.Failf("walk-parent-missing", "visit #%d (%#v) does not extend the preceding visit at depth %d (%#v)", i+1, n.path, d-1, parent.path)
		}
		parent.kids = append(parent.kids, n)
		stack = append(stack, n)
	}
	return seq[0], nil
}

// postorderTree turns a post-order sequence (children before parents) into a tree.
func postorderTree(seq []*onode) (*onode, *facet.Failure) {
	var pending []*onode
	for i, n := range seq {
		d := len(n.path)
		j := len(pending)
		for j > 0 && len(pending[j-1].path) == d+1 {
			j--
		}
		for _, k := range pending[j:] {
			if !pathEqualOwn(k.path[:d], n.path) {
				return nil, facet.Failf("transform-orphan", "visit #%d (%#v) follows a child-depth visit %#v that is not below it", i, n.path, k.path)
			}
		}
		n.kids = append([]*onode(nil), pending[j:]...)
		pending = append(pending[:j], n)
		if j > 0 && len(pending[j-1].path) > d {
			return nil, facet.Failf("transform-orphan", "visit #%d (%#v) comes while a deeper visit %#v has not been closed by its parent", i, n.path, pending[j-1].path)
		}
	}
	if len(pending) != 1 || len(pending[0].path) != 0 {
		var ps []string
		for _, p := range pending {
			ps = append(ps, fmt.Sprintf("%#v", p.path))
		}
		return nil, facet.Failf("transform-root-last", "post-order visits do not end in exactly one root visit; open: %v", ps)
	}
	return pending[0], nil
}

// pathEqualOwn compares two library paths step by step without Path.Equals.
func pathEqualOwn(a, b cty.Path) bool {
	if len(a) != len(b) {
		return false
	}
	for i := range a {
		switch as := a[i].(type) {
		case cty.GetAttrStep:
			bs, ok := b[i].(cty.GetAttrStep)
			if !ok || as.Name != bs.Name {
				return false
			}
		case cty.IndexStep:
			bs, ok := b[i].(cty.IndexStep)
			if !ok || !same(as.Key, bs.Key) {
				return false
			}
		default:
			return false
		}
	}
	return true
}

func isIntKey(k cty.Value, i int) bool {
	if k == cty.NilVal || k.IsMarked() || k.Type() != cty.Number || !k.IsKnown() || k.IsNull() {
		return false
	}
	return k.AsBigFloat().Cmp(new(big.Float).SetInt64(int64(i))) == 0
}

func isStrKey(k cty.Value, s string) bool {
	if k == cty.NilVal || k.IsMarked() || k.Type() != cty.String || !k.IsKnown() || k.IsNull() {
		return false
	}
	return k.AsString() == spec.NFC(s)
}

// stepMatches reports whether the library step st is the model step ms.
func stepMatches(st cty.PathStep, ms PStep) bool {
	switch s := st.(type) {
	case cty.GetAttrStep:
		return ms.Attr != nil && s.Name == *ms.Attr
	case cty.IndexStep:
		if ms.Key == nil {
			return false
		}
		if ms.Elem {
			return same(s.Key, spec.MustBuild(*ms.Key))
		}
		k := *ms.Key
		if k.St == spec.Known && len(k.Marks) == 0 && k.T.K == spec.KNumber {
			x := s.Key
			if x == cty.NilVal || x.IsMarked() || x.Type() != cty.Number || !x.IsKnown() || x.IsNull() {
				return false
			}
			return x.AsBigFloat().Cmp(k.N.Float()) == 0
		}
		if k.St == spec.Known && len(k.Marks) == 0 && k.T.K == spec.KString {
			return isStrKey(s.Key, k.S)
		}
		return same(s.Key, spec.MustBuild(k))
	}
	return false
}

func pathMatches(p cty.Path, mp []PStep) bool {
	if len(p) != len(mp) {
		return false
	}
	for i := range p {
		if !stepMatches(p[i], mp[i]) {
			return false
		}
	}
	return true
}

// visitFn is called for every observed node that matched a model member.
type visitFn func(o *onode, m Member) *facet.Failure

// compareTree checks an observed tree against the normalized model spec:
// the value seen at every node is the model's member, every known non-null
// container has exactly its members as children (each exactly once), leaves
// and pruned nodes have none.
func compareTree(o *onode, m Member, kind string, visit visitFn) *facet.Failure {
	where := pathText(m.Path)
	want := spec.MustBuild(m.V)
	if d := diff(o.val, want); d != "" {
		return facet.Failf(kind+"-value", "at %s the callback received %#v, model member is %#v (%s)", where, o.val, want, d)
	}
	if visit != nil {
		if f := visit(o, m); f != nil {
			return f
		}
	}
	if !descended(m.V) || o.pruned {
		if len(o.kids) != 0 {
			return facet.Failf(kind+"-extra", "at %s (a leaf, null, unknown or pruned member) %d children were visited, first %#v", where, len(o.kids), o.kids[0].path)
		}
		return nil
	}
	cinh := unionMarks(m.Inherited, m.V.Marks...)
	v := m.V
	child := func(i int, st PStep, under bool) Member {
		return Member{Path: append(append([]PStep(nil), m.Path...), st), V: v.Elems[i], Inherited: cinh, UnderSet: under}
	}
	switch v.T.K {
	case spec.KList, spec.KTuple, spec.KMap, spec.KObject:
		seen := make([]int, len(v.Elems))
		for _, k := range o.kids {
			last := k.path[len(k.path)-1]
			found := -1
			for i := range v.Elems {
				var st PStep
				switch v.T.K {
				case spec.KList, spec.KTuple:
					st = keyStep(intKey(i))
				case spec.KMap:
					st = keyStep(spec.KnownStr(v.Keys[i]))
				default:
					st = attrStep(spec.NFC(v.Keys[i]))
				}
				if stepMatches(last, st) {
					found = i
					seen[i]++
					if f := compareTree(k, child(i, st, m.UnderSet), kind, visit); f != nil {
						return f
					}
					break
				}
			}
			if found < 0 {
				return facet.Failf(kind+"-extra", "below %s a visit with last step %#v names no member of the model (%d members)", where, last, len(v.Elems))
			}
		}
		for i, n := range seen {
			if n == 0 {
				return facet.Failf(kind+"-missing", "member #%d of %s (%d members) was never visited", i, where, len(v.Elems))
			}
			if n > 1 {
				return facet.Failf(kind+"-twice", "member #%d of %s was visited %d times", i, where, n)
			}
		}
	case spec.KSet:
		// The members of the set are what the set value itself holds
		// (coalescing of equal members is C03's subject); each must be one of
		// the spec's members and each spec member must be present.
		raw, _ := want.Unmark()
		elems := raw.AsValueSlice()
		built := make([]cty.Value, len(v.Elems))
		for i, e := range v.Elems {
			built[i] = spec.MustBuild(e)
		}
		for i, b := range built {
			ok := false
			for _, e := range elems {
				if same(b, e) {
					ok = true
					break
				}
			}
			if !ok {
				// not a C19 matter: the constructor lost a member; abstain loudly
				return facet.Failf("model-set", "set at %s does not hold spec member #%d %#v", where, i, b)
			}
		}
		if len(o.kids) != len(elems) {
			return facet.Failf(kind+"-setcount", "set at %s holds %d members but %d were visited", where, len(elems), len(o.kids))
		}
		used := make([]bool, len(elems))
		for _, k := range o.kids {
			last, ok := k.path[len(k.path)-1].(cty.IndexStep)
			if !ok {
				return facet.Failf(kind+"-setstep", "set member below %s visited with a non-index step %#v", where, k.path[len(k.path)-1])
			}
			if d := diff(last.Key, k.val); d != "" {
				return facet.Failf(kind+"-setkey", "set member below %s visited with key %#v but value %#v (%s)", where, last.Key, k.val, d)
			}
			matched := false
			for j, e := range elems {
				if !used[j] && same(e, k.val) {
					used[j] = true
					matched = true
					break
				}
			}
			if !matched {
				return facet.Failf(kind+"-twice", "set member %#v below %s visited more often than the set holds it (or not a member)", k.val, where)
			}
			idx := -1
			for i, b := range built {
				if same(b, k.val) {
					idx = i
					break
				}
			}
			if idx < 0 {
				return facet.Failf("model-set", "set at %s holds %#v which is no spec member", where, k.val)
			}
			ek := v.Elems[idx]
			if f := compareTree(k, child(idx, PStep{Key: &ek, Elem: true}, true), kind, visit); f != nil {
				return f
			}
		}
	}
	return nil
}

// countNodes counts the nodes of an observed tree.
func countNodes(o *onode) int {
	n := 1
	for _, k := range o.kids {
		n += countNodes(k)
	}
	return n
}

// ---------------------------------------------------------------- spec editing

// replaceAt returns the normalized spec v with the member at model path p
// replaced by r. At a set step every member that is the same value as the
// step's key is descended (they are one member of the set).
func replaceAt(v spec.V, p []PStep, r spec.V) spec.V {
	if len(p) == 0 {
		return r
	}
	out := v
	out.Elems = append([]spec.V(nil), v.Elems...)
	st := p[0]
	switch v.T.K {
	case spec.KList, spec.KTuple:
		for i := range out.Elems {
			if st.Key != nil && !st.Elem && keyText(*st.Key) == keyText(intKey(i)) {
				out.Elems[i] = replaceAt(v.Elems[i], p[1:], r)
			}
		}
	case spec.KMap:
		for i := range out.Elems {
			if st.Key != nil && !st.Elem && st.Key.T.K == spec.KString && spec.NFC(st.Key.S) == spec.NFC(v.Keys[i]) {
				out.Elems[i] = replaceAt(v.Elems[i], p[1:], r)
			}
		}
	case spec.KObject:
		for i := range out.Elems {
			if st.Attr != nil && *st.Attr == spec.NFC(v.Keys[i]) {
				out.Elems[i] = replaceAt(v.Elems[i], p[1:], r)
			}
		}
	case spec.KSet:
		// The set holds n members that are the same value as the key (one
		// when equal known members coalesced, several for unknown members,
		// which never coalesce: how many is asked of the set itself, that is
		// C03's subject). The callback sees each of them once at this path,
		// so n of the spec's matching members are edited and the rest dropped.
		key := spec.MustBuild(*st.Key)
		n := 0
		if whole, err := spec.Build(v); err == nil {
			raw, _ := whole.Unmark()
			if raw.IsKnown() && !raw.IsNull() {
				for _, e := range raw.AsValueSlice() {
					if same(e, key) {
						n++
					}
				}
			}
		}
		var elems []spec.V
		for i := range v.Elems {
			if same(spec.MustBuild(v.Elems[i]), key) {
				if n > 0 {
					n--
					elems = append(elems, replaceAt(v.Elems[i], p[1:], r))
				}
				continue
			}
			elems = append(elems, v.Elems[i])
		}
		out.Elems = elems
	}
	return out
}

// hasNested reports the non-triviality ingredients of a value spec: nesting
// depth and whether a marked / null / unknown member occurs below the root.
func hasNested(v spec.V) (depth int, marked, nullOrUnknown, set bool) {
	depth = v.Depth()
	var rec func(x spec.V, root bool)
	rec = func(x spec.V, root bool) {
		if !root {
			if len(x.Marks) > 0 {
				marked = true
			}
			if x.St != spec.Known {
				nullOrUnknown = true
			}
		}
		if x.T.K == spec.KSet && x.St == spec.Known && len(x.Elems) > 0 {
			set = true
		}
		for _, e := range x.Elems {
			rec(e, false)
		}
	}
	rec(v, true)
	return
}

func classifyValue(c *facet.Ctx, v spec.V) {
	d, mk, nu, st := hasNested(v)
	c.Labelf("depth=%d", d)
	if mk {
		c.Label("nested-marked")
	}
	if nu {
		c.Label("nested-null-or-unknown")
	}
	if st {
		c.Label("has-nonempty-set")
	}
	if len(v.Marks) > 0 {
		c.Label("root-marked")
	}
	if d >= 2 && (mk || nu) {
		c.NonTrivial()
	}
}

const valueRule = "value of nesting depth >= 2 with a marked or null/unknown member below the root; distinct = hash of the input JSON"

// ---------------------------------------------------------------- refinement collapse

// collapsed reports whether some spec node says "unknown" but builds a known
// or null value (docs/refinements.md "Refinement Value Collapse": the exact
// rules may change, so the question is put to the built value itself). The
// spec is then not a model of the value's shape and the case is skipped.
func collapsed(v spec.V) bool {
	if v.St == spec.Unknown && v.Ref != nil {
		x := v
		x.Marks = nil
		b, err := spec.Build(x)
		if err != nil || b.IsKnown() {
			return true
		}
	}
	for _, e := range v.Elems {
		if collapsed(e) {
			return true
		}
	}
	return false
}

// sanitize drops the refinements of every unknown node that would collapse.
func sanitize(v spec.V) spec.V {
	out := v
	if v.St == spec.Unknown && v.Ref != nil {
		x := v
		x.Marks = nil
		x.Elems = nil
		if collapsed(x) {
			out.Ref = nil
		}
	}
	if len(v.Elems) > 0 {
		out.Elems = make([]spec.V, len(v.Elems))
		for i, e := range v.Elems {
			out.Elems[i] = sanitize(e)
		}
	}
	return out
}

func sortedCopy(s []string) []string {
	out := append([]string(nil), s...)
	sort.Strings(out)
	return out
}
