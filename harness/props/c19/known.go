package c19

import (
	"encoding/json"

	"verif/harness/facet"
)

func init() {
	// IndexStep.Apply with a null number/string key on a list, tuple or map:
	// Value.HasIndex type-asserts the nil payload of the key and panics.
	facet.RegisterKnown("c19ApplyNullKeyPanic", func(facetName string, raw json.RawMessage, f *facet.Failure) bool {
		return facetName == "apply/iff-exists" && f.Kind == "apply-panic" && f.Data["reason"] == "null-key" && f.Data["key-state"] == "null"
	})
	// IndexStep.Apply with an unknown key on a tuple: the "unknown index"
	// shortcut asks a tuple type for its (single) element type and panics.
	facet.RegisterKnown("c19ApplyUnknownKeyTuplePanic", func(facetName string, raw json.RawMessage, f *facet.Failure) bool {
		return facetName == "apply/iff-exists" && f.Kind == "apply-panic" && f.Data["reason"] == "unknown-key-on-tuple" && f.Data["key-state"] == "unknown"
	})
	// PathSet never finds a path that has an unknown index key: its
	// equivalence rule demands a known-true Equals between keys, so such a path
	// is not even equivalent to itself (Add twice stores it twice, Has and
	// Remove miss it, Equal/Intersection/Subtract disagree with membership).
	// Recognised by: the history uses unknown keys AND the disagreement is
	// about a path with an unknown key (or about a comparison of whole sets).
	facet.RegisterKnown("c19PathSetUnknownKey", func(facetName string, raw json.RawMessage, f *facet.Failure) bool {
		if facetName != "pathset/history" || f.Data["unknown-keys"] != "1" {
			return false
		}
		switch f.Kind {
		case "pathset-has":
			return f.Data["probe-unknown"] == "1"
		case "pathset-list-dup", "pathset-list-extra":
			return f.Data["listed-unknown"] == "1"
		case "pathset-list-missing", "pathset-equal":
			return f.Data["model-unknown"] == "1"
		}
		return false
	})
}
