package c16

import (
	"fmt"
	"strings"

	"github.com/zclconf/go-cty/cty"

	"verif/harness/facet"
	"verif/harness/wf"
)

// LargeIn describes a value whose size sits at a MessagePack header boundary
// (fixarray/fixmap 15|16, fixstr 31|32, str8 255|256, array16/str16
// 65535|65536) or just beyond a round internal limit (256, 1024).
type LargeIn struct {
	Kind string `json:"kind"` // list | set | map | tuple | object | string | prefix | dynlist
	N    int    `json:"n"`
	Elem string `json:"elem"` // num | str | bool | nested
	Dyn  bool   `json:"dyn"`  // constraint is the dynamic pseudo-type
}

var largeSizes = []int{0, 1, 15, 16, 17, 31, 32, 33, 255, 256, 257, 300, 1023, 1024, 1025, 4096, 65535, 65536, 65537}

func largeElem(kind string, i int) cty.Value {
	switch kind {
	case "str":
		return cty.StringVal(fmt.Sprintf("s%06d", i))
	case "bool":
		return cty.BoolVal(i%2 == 0)
	case "nested":
		return cty.TupleVal([]cty.Value{cty.NumberIntVal(int64(i)), cty.StringVal(fmt.Sprintf("m%d", i))})
	}
	return cty.NumberIntVal(int64(i) - 3)
}

// buildDeep nests a leaf below n containers of the given kind ("deep-mixed"
// cycles through list, tuple, object and map).
func buildDeep(kind string, n int, leaf cty.Value) cty.Value {
	v := leaf
	for i := 0; i < n; i++ {
		k := kind
		if kind == "deep-mixed" {
			k = []string{"deep-list", "deep-tuple", "deep-object", "deep-map"}[i%4]
		}
		switch k {
		case "deep-list":
			v = cty.ListVal([]cty.Value{v})
		case "deep-tuple":
			v = cty.TupleVal([]cty.Value{v})
		case "deep-object":
			v = cty.ObjectVal(map[string]cty.Value{"a": v})
		default:
			v = cty.MapVal(map[string]cty.Value{"k": v})
		}
	}
	return v
}

var deepSizes = []int{20, 64, 99, 100, 101, 128, 255, 256, 300, 1000}

func buildLarge(in LargeIn) cty.Value {
	n := in.N
	if strings.HasPrefix(in.Kind, "deep-") {
		leaf := cty.StringVal("leaf")
		switch in.Elem {
		case "null":
			leaf = cty.NullVal(cty.Number)
		case "unknown":
			leaf = cty.UnknownVal(cty.Bool).RefineNotNull()
		}
		return buildDeep(in.Kind, n, leaf)
	}
	switch in.Kind {
	case "exactlen":
		// a not-null unknown list of exactly n members (the builder turns it
		// into a known list of n unknown members)
		return cty.UnknownVal(cty.List(cty.String)).Refine().NotNull().CollectionLengthLowerBound(n).CollectionLengthUpperBound(n).NewValue()
	case "exactlen-nullable", "exactlen-set", "exactlen-map":
		ty := cty.List(cty.String)
		switch in.Kind {
		case "exactlen-set":
			ty = cty.Set(cty.String)
		case "exactlen-map":
			ty = cty.Map(cty.String)
		}
		b := cty.UnknownVal(ty).Refine().CollectionLengthLowerBound(n).CollectionLengthUpperBound(n)
		if in.Kind != "exactlen-nullable" {
			b = b.NotNull()
		}
		return b.NewValue()
	case "string":
		return cty.StringVal(strings.Repeat("x", n))
	case "prefix":
		return cty.UnknownVal(cty.String).Refine().StringPrefixFull(strings.Repeat("p", n)).NewValue()
	}
	elems := make([]cty.Value, n)
	for i := range elems {
		elems[i] = largeElem(in.Elem, i)
	}
	switch in.Kind {
	case "list", "dynlist":
		if n == 0 {
			return cty.ListValEmpty(largeElem(in.Elem, 0).Type())
		}
		return cty.ListVal(elems)
	case "set":
		if in.Elem == "bool" && n > 2 {
			// only two distinct booleans exist: use numbers so that the set really has n members
			for i := range elems {
				elems[i] = largeElem("num", i)
			}
		}
		if n == 0 {
			return cty.SetValEmpty(largeElem(in.Elem, 0).Type())
		}
		return cty.SetVal(elems)
	case "map":
		if n == 0 {
			return cty.MapValEmpty(largeElem(in.Elem, 0).Type())
		}
		m := make(map[string]cty.Value, n)
		for i, e := range elems {
			m[fmt.Sprintf("k%06d", i)] = e
		}
		return cty.MapVal(m)
	case "tuple":
		return cty.TupleVal(elems)
	case "object":
		m := make(map[string]cty.Value, n)
		for i, e := range elems {
			m[fmt.Sprintf("a%06d", i)] = e
		}
		return cty.ObjectVal(m)
	}
	panic("c16: bad large kind " + in.Kind)
}

func init() {
	facet.Register(facet.F[LargeIn]{
		Prop: "C16", Name: "roundtrip/large", Rule: "lists, sets, maps, tuples and objects with n members, strings of n bytes and unknown strings with an n-byte prefix, n drawn from the MessagePack header boundaries and internal limits {0,1,15,16,17,31,32,33,255,256,257,300,1023,1024,1025,4096,65535,65536,65537}, under the value's own type or the dynamic pseudo-type; unknown lists / sets / maps refined to exactly n members, not-null or nullable (a not-null list of exactly n members is a known list of n unknown members); and a leaf (known, null, unknown for MessagePack) below n containers, n in {20,64,99,100,101,128,255,256,300,1000} (lists, tuples, objects, maps, and the four in turn): the round trip must return the same type and a RawEqual value (for the prefix case: a prefix of the original prefix, not-null not invented). Enumerated exhaustively over (kind, n, member kind, constraint); non-trivial = n >= 16",
		Exhaustive: func() []LargeIn {
			var out []LargeIn
			for _, kind := range []string{"list", "set", "map", "tuple", "object"} {
				for _, n := range largeSizes {
					if n > 4096 || ((kind == "tuple" || kind == "object") && n > 1025) {
						continue
					}
					for _, elem := range []string{"num", "str", "nested"} {
						if elem == "nested" && n > 300 {
							continue
						}
						for _, dyn := range []bool{false, true} {
							if dyn && n > 1025 {
								continue
							}
							out = append(out, LargeIn{Kind: kind, N: n, Elem: elem, Dyn: dyn})
						}
					}
				}
			}
			for _, kind := range []string{"string", "prefix"} {
				for _, n := range largeSizes {
					out = append(out, LargeIn{Kind: kind, N: n, Elem: "num"}, LargeIn{Kind: kind, N: n, Elem: "num", Dyn: true})
				}
			}
			for _, kind := range []string{"deep-list", "deep-tuple", "deep-object", "deep-map", "deep-mixed"} {
				for _, n := range deepSizes {
					for _, leaf := range []string{"str", "null", "unknown"} {
						out = append(out, LargeIn{Kind: kind, N: n, Elem: leaf})
						if n <= 101 && leaf == "str" {
							out = append(out, LargeIn{Kind: kind, N: n, Elem: leaf, Dyn: true})
						}
					}
				}
			}
			for _, n := range []int{65535, 65536, 65537} {
				out = append(out, LargeIn{Kind: "list", N: n, Elem: "num"}, LargeIn{Kind: "map", N: n, Elem: "bool"})
			}
			for _, kind := range []string{"exactlen", "exactlen-nullable", "exactlen-set", "exactlen-map"} {
				for _, n := range largeSizes {
					if n == 0 || (kind == "exactlen" && n > 4096) {
						continue
					}
					out = append(out, LargeIn{Kind: kind, N: n, Elem: "str"}, LargeIn{Kind: kind, N: n, Elem: "str", Dyn: true})
				}
			}
			return out
		},
		Check: func(c *facet.Ctx, in LargeIn) error {
			c.Label("kind=" + in.Kind)
			c.Labelf("n=%d", in.N)
			if in.N >= 16 {
				c.NonTrivial()
			}
			c.Key(fmt.Sprintf("%s/%d/%s/%t", in.Kind, in.N, in.Elem, in.Dyn))
			v := buildLarge(in)
			ty := v.Type()
			if in.Dyn {
				ty = cty.DynamicPseudoType
			}
			b, err, pan := marshal(v, ty)
			if pan != nil {
				return facet.Failf("marshal-panic", "Marshal of a %s with %d members panicked: %v", in.Kind, in.N, pan)
			}
			if err != nil {
				return facet.Failf("marshal-error", "Marshal of a %s with %d members failed: %v", in.Kind, in.N, err)
			}
			got, err, pan := unmarshal(b, ty)
			if pan != nil {
				return facet.Failf("unmarshal-panic", "Unmarshal of the encoder's own output (%s, n=%d, %d bytes) panicked: %v", in.Kind, in.N, len(b), pan)
			}
			if err != nil {
				return facet.Failf("unmarshal-error", "Unmarshal of the encoder's own output (%s, n=%d, %d bytes) failed: %v", in.Kind, in.N, len(b), err)
			}
			if in.N <= 300 {
				if f := wf.Check(got); f != nil {
					return f
				}
			}
			if !got.Type().Equals(v.Type()) {
				return facet.Failf("type-differs", "%s with n=%d came back with type %s", in.Kind, in.N, got.Type().FriendlyName())
			}
			if strings.HasPrefix(in.Kind, "exactlen-") && !v.IsKnown() {
				// unknown collection of exactly n members: the decoded value must
				// still be unknown, admit a collection of n members, and must not
				// have become not-null
				if got.IsKnown() {
					return facet.Failf("known-invented", "unknown %s of exactly %d members came back known: %#v", in.Kind, in.N, got)
				}
				if lo, hi := got.Range().LengthLowerBound(), got.Range().LengthUpperBound(); lo > in.N || hi < in.N {
					return facet.Failf("length-narrowed", "unknown %s of exactly %d members came back with length bounds %d..%d", in.Kind, in.N, lo, hi)
				}
				if got.Range().DefinitelyNotNull() && !v.Range().DefinitelyNotNull() {
					return facet.Failf("notnull-invented", "decoded unknown is not-null, the original was not")
				}
				return nil
			}
			if in.Kind == "prefix" {
				if got.IsKnown() {
					return facet.Failf("known-invented", "unknown string with %d-byte prefix came back known", in.N)
				}
				op, gp := v.Range().StringPrefix(), got.Range().StringPrefix()
				if !strings.HasPrefix(op, gp) {
					return facet.Failf("prefix-invented", "decoded prefix (%d bytes) is not a prefix of the original (%d bytes)", len(gp), len(op))
				}
				if got.Range().DefinitelyNotNull() && !v.Range().DefinitelyNotNull() {
					return facet.Failf("notnull-invented", "decoded unknown is not-null, the original was not")
				}
				if in.N <= 200 && gp != op {
					return facet.Failf("prefix-lost", "a %d-byte prefix (below the documented 256-byte limit) came back as %d bytes", len(op), len(gp))
				}
				return nil
			}
			if in.Kind != "string" && got.IsKnown() && !got.IsNull() && got.LengthInt() != v.LengthInt() {
				return facet.Failf("length-differs", "%s with %d members came back with %d", in.Kind, v.LengthInt(), got.LengthInt())
			}
			if !got.RawEquals(v) {
				return facet.Failf("value-differs", "%s with n=%d (%s members) does not come back RawEqual", in.Kind, in.N, in.Elem)
			}
			return nil
		},
	})
}
