// Package c16: MessagePack encoding round-trips values, including unknown ones.
package c16

import (
	"bytes"
	"fmt"
	"math"
	"math/big"
	"strconv"
	"strings"
	"unicode/utf8"

	"github.com/zclconf/go-cty/cty"
	"github.com/zclconf/go-cty/cty/msgpack"
	"pgregory.net/rapid"

	"verif/harness/codecgen"
	"verif/harness/facet"
	"verif/harness/gen"
	"verif/harness/model"
	"verif/harness/spec"
	"verif/harness/wf"
)

// ---------------------------------------------------------------- guarded library calls

func marshal(v cty.Value, ty cty.Type) (b []byte, err error, pan any) {
	defer func() {
		if r := recover(); r != nil {
			pan = r
		}
	}()
	b, err = msgpack.Marshal(v, ty)
	return
}

func unmarshal(b []byte, ty cty.Type) (v cty.Value, err error, pan any) {
	defer func() {
		if r := recover(); r != nil {
			pan = r
		}
	}()
	v, err = msgpack.Unmarshal(b, ty)
	return
}

func clip(b []byte) string {
	if len(b) > 120 {
		return fmt.Sprintf("%x...(%d bytes)", b[:120], len(b))
	}
	return fmt.Sprintf("%x", b)
}

// ---------------------------------------------------------------- classification

// mustBeIdentical: whole numbers of any size and exact float64 values (the
// infinities included) must come back numerically identical.
func mustBeIdentical(x *big.Float) bool {
	if x.IsInf() || x.IsInt() {
		return true
	}
	_, acc := x.Float64()
	return acc == big.Exact
}

var (
	two63 = new(big.Float).SetMantExp(big.NewFloat(1), 63)
	two53 = new(big.Float).SetMantExp(big.NewFloat(1), 53)
)

// numClass names the encoder-relevant class of a number.
func numClass(x *big.Float) string {
	switch {
	case x.IsInf():
		return "infinite"
	case x.IsInt():
		a := new(big.Float).Abs(x)
		switch {
		case codecgen.IsLowPrecWhole(x):
			return "whole-lowprec"
		case a.Cmp(two63) > 0 || (a.Cmp(two63) == 0 && x.Sign() > 0):
			return "whole-beyond-int64"
		case a.Cmp(two53) >= 0:
			return "whole-int64-limit"
		}
		return "whole-small"
	}
	if _, acc := x.Float64(); acc == big.Exact {
		return "fraction-exact-float64"
	}
	return "fraction-other"
}

func boundaryNumber(v spec.V) bool {
	if v.St == spec.Known && v.T.K == spec.KNumber && v.N != nil {
		switch numClass(v.N.Float()) {
		case "whole-small":
		default:
			return true
		}
	}
	for _, e := range v.Elems {
		if boundaryNumber(e) {
			return true
		}
	}
	return false
}

func countRefined(v spec.V) (unknowns, refined int) {
	if v.St == spec.Unknown {
		unknowns++
		if v.Ref != nil {
			refined++
		}
		return
	}
	for _, e := range v.Elems {
		u, r := countRefined(e)
		unknowns += u
		refined += r
	}
	return
}

func labelRefs(c *facet.Ctx, v spec.V) {
	if v.St == spec.Unknown {
		switch {
		case v.T.K == spec.KDynamic:
			c.Label("unknown=dynamic")
		case v.Ref == nil:
			c.Label("unknown=unrefined")
		default:
			r := v.Ref
			if r.Null == "notnull" {
				c.Label("ref=notnull")
			}
			for _, b := range []*spec.Num{r.Lo, r.Hi} {
				if b == nil {
					continue
				}
				f := b.Float()
				switch {
				case f.IsInf():
					c.Label("ref=bound-infinite")
				case !f.IsInt():
					c.Label("ref=bound-fractional")
				default:
					c.Label("ref=bound-whole")
				}
			}
			if r.Lo != nil && !r.LoInc || r.Hi != nil && !r.HiInc {
				c.Label("ref=bound-exclusive")
			}
			if r.Prefix != nil {
				switch n := len(*r.Prefix); {
				case n > 256:
					c.Label("ref=prefix>256")
				case n >= 240:
					c.Label("ref=prefix-near-256")
				default:
					c.Label("ref=prefix-short")
				}
			}
			if r.MinLen != nil {
				c.Label("ref=minlen")
			}
			if r.MaxLen != nil {
				if *r.MaxLen > 1<<20 {
					c.Label("ref=maxlen-large")
				} else {
					c.Label("ref=maxlen")
				}
			}
		}
		return
	}
	for _, e := range v.Elems {
		labelRefs(c, e)
	}
}

// ---------------------------------------------------------------- the round trip

// decoys are marshalled between Marshal(v) and Unmarshal(bytes of v): a round
// trip must not depend on the encoder being left alone in between (bytes are
// stored and decoded later in every real use). One decoy is shorter and one
// longer than most encodings.
var decoys = func() []cty.Value {
	long := make([]cty.Value, 48)
	for i := range long {
		long[i] = cty.NumberIntVal(int64(i) * 1000003)
	}
	return []cty.Value{cty.StringVal("\u00e9decoy"), cty.TupleVal(long), cty.UnknownVal(cty.String).Refine().NotNull().StringPrefixFull("decoy-").NewValue()}
}()

// interleave marshals the decoys and reports whether that disturbed b, the
// bytes an earlier Marshal call returned.
func interleave(b []byte, v cty.Value, c spec.T) *facet.Failure {
	before := append([]byte(nil), b...)
	for _, d := range decoys {
		if _, err, pan := marshal(d, cty.DynamicPseudoType); err != nil || pan != nil {
			return facet.Failf("decoy-marshal-failed", "Marshal(%#v, dynamic) failed: %v %v", d, err, pan)
		}
	}
	if !bytes.Equal(before, b) {
		return facet.Failf("marshal-output-overwritten", "the bytes returned by Marshal(%#v, %s) were %s and read %s after later Marshal calls on other values", v, c, clip(before), clip(b))
	}
	return nil
}

type outcome struct {
	orig, got cty.Value
	bytes     []byte
	diffs     []codecgen.Diff
}

// roundTrip encodes and decodes in.V under in.C and checks everything that
// does not depend on the facet: no error or panic on the encoder's own
// output, well-formed conforming result, the two-level type assertion and the
// structural comparison. It returns the first failure in the order "anything
// unexplained first, then the known classes".
func roundTrip(c *facet.Ctx, in codecgen.Case) (*outcome, *facet.Failure, bool) {
	if in.V.HasMarks() || !in.V.T.Conforms(in.C) {
		return nil, nil, false
	}
	v, err := spec.Build(in.V)
	if err != nil {
		return nil, nil, false
	}
	if f := wf.Check(v); f != nil {
		return nil, f, true
	}
	ct := in.C.Cty()
	vt := spec.FromCty(v.Type())
	b, err, pan := marshal(v, ct)
	if pan != nil {
		return nil, facet.Failf("marshal-panic", "Marshal(%#v, %s) panicked: %v", v, in.C, pan), true
	}
	if err != nil {
		return nil, facet.Failf("marshal-error", "Marshal(%#v, %s) failed: %v", v, in.C, err), true
	}
	if f := interleave(b, v, in.C); f != nil {
		return nil, f, true
	}
	exp, mixed := codecgen.ExpectedType(v, in.C)
	got, err, pan := unmarshal(b, ct)
	if pan != nil {
		f := facet.Failf("decode-panic", "Unmarshal of the encoder's own output %s (value %#v) under %s panicked: %v", clip(b), v, in.C, pan)
		if mixed {
			f.With("mixed", "true")
		}
		return nil, f, true
	}
	if err != nil {
		f := facet.Failf("decode-error", "Unmarshal of the encoder's own output %s (value %#v) under %s failed: %v", clip(b), v, in.C, err)
		if mixed {
			f.With("mixed", "true")
		}
		return nil, f, true
	}
	if mixed {
		c.Label("mixed-but-decoded")
	}
	if f := wf.Check(got); f != nil {
		return nil, f, true
	}
	gt := spec.FromCty(got.Type())
	if !gt.Conforms(in.C) {
		return nil, facet.Failf("result-nonconforming", "result type %s does not conform to the constraint %s", gt, in.C), true
	}
	if !gt.Equal(exp) {
		return nil, facet.Failf("type-unexpected", "%#v under %s came back typed %s; the original is %s and the type-flow model allows only %s (bytes %s)", v, in.C, gt, vt, exp, clip(b)), true
	}
	diffs := codecgen.Compare(v, got, codecgen.CmpOpts{Identical: mustBeIdentical})
	return &outcome{orig: v, got: got, bytes: b, diffs: diffs}, nil, true
}

// verdict turns the differences and the strict type assertion into the
// facet's failure (nil when the property holds for the case).
func verdict(in codecgen.Case, o *outcome) *facet.Failure {
	low, other := codecgen.SplitDiffs(o.diffs)
	if len(other) > 0 {
		return facet.Failf("value-changed", "%#v under %s came back as %#v: %s (bytes %s)", o.orig, in.C, o.got, other[0], clip(o.bytes))
	}
	// Value.Equals is not consulted here: for exact float64 values the
	// property demands numeric identity, and cty's text-based Equals can deny
	// that two numerically identical numbers of different big.Float precision
	// are equal (54.75 at 8 bits prints as "55"; a matter of C03, not of the
	// codec). The structural comparison above is the oracle.
	sameType := o.got.Type().Equals(o.orig.Type())
	if len(low) > 0 {
		return facet.Failf("number-lowprec-whole", "%#v under %s: %s (bytes %s)", o.orig, in.C, low[0], clip(o.bytes)).With("ndiffs", fmt.Sprint(len(low)))
	}
	if !sameType {
		return facet.Failf("type-lost-under-placeholder", "%#v (type %s) under %s came back typed %s: type information is lost only below a null / unknown / empty position whose constraint contains a placeholder (bytes %s)",
			o.orig, spec.FromCty(o.orig.Type()), in.C, spec.FromCty(o.got.Type()), clip(o.bytes))
	}
	return nil
}

func classifyCase(c *facet.Ctx, in codecgen.Case) {
	switch {
	case in.C.K == spec.KDynamic:
		c.Label("constraint=dynamic-root")
	case codecgen.DynBelowRoot(in.C):
		c.Label("constraint=dynamic-below")
	default:
		c.Label("constraint=exact")
	}
	if in.V.HasNullInside() {
		c.Label("has-null")
	}
	if codecgen.LossPositions(in.V, in.C) > 0 {
		c.Label("null-unknown-or-empty-above-placeholder")
	}
	if boundaryNumber(in.V) {
		c.Label("boundary-number")
	}
	if codecgen.HasLowPrecWhole(in.V) {
		c.Label("lowprec-whole-number")
	}
}

// ---------------------------------------------------------------- roundtrip/known

func checkKnown(c *facet.Ctx, in codecgen.Case) error {
	if !in.V.WhollyKnown() {
		c.Skip()
		return nil
	}
	o, f, ok := roundTrip(c, in)
	if !ok {
		c.Skip()
		return nil
	}
	classifyCase(c, in)
	if in.C.HasDynamic() || boundaryNumber(in.V) {
		c.NonTrivial()
	}
	if f != nil {
		return f
	}
	if !o.got.IsWhollyKnown() {
		return facet.Failf("known-became-unknown", "wholly known %#v came back with unknown parts: %#v", o.orig, o.got)
	}
	if f := verdict(in, o); f != nil {
		return f
	}
	return nil
}

// ---------------------------------------------------------------- roundtrip/unknown-superset

func checkSuperset(c *facet.Ctx, in codecgen.Case) error {
	if in.V.WhollyKnown() {
		c.Skip()
		return nil
	}
	o, f, ok := roundTrip(c, in)
	if !ok {
		c.Skip()
		return nil
	}
	classifyCase(c, in)
	labelRefs(c, in.V)
	if _, refined := countRefined(in.V); refined > 0 {
		c.NonTrivial()
	}
	if f != nil {
		return f
	}
	if f := verdict(in, o); f != nil {
		return f
	}
	return nil
}

// ---------------------------------------------------------------- roundtrip/unknown-samples

type unknownPos struct {
	path []int
	v    spec.V // the unknown
	w    spec.V // the witness part it replaced
}

func unknownPositions(v, w spec.V, prefix []int, out *[]unknownPos) {
	if v.St == spec.Unknown {
		*out = append(*out, unknownPos{path: append([]int(nil), prefix...), v: v, w: w})
		return
	}
	if v.St != spec.Known || len(v.Elems) != len(w.Elems) {
		return
	}
	for i := range v.Elems {
		unknownPositions(v.Elems[i], w.Elems[i], append(append([]int(nil), prefix...), i), out)
	}
}

func numSpec(f *big.Float) spec.Num {
	if f.IsInf() {
		if f.Sign() < 0 {
			return spec.Num{Route: "-inf"}
		}
		return spec.Num{Route: "+inf"}
	}
	return spec.Num{Route: "big", Text: f.Text('g', 170), Prec: 512}
}

// samples lists concrete values for one unknown position: the witness, null,
// and values at and around every stated boundary.
func samples(p unknownPos) []spec.V {
	ty := p.v.T
	if ty.K == spec.KDynamic {
		return []spec.V{p.w, spec.KnownStr("x"), spec.NullOf(spec.Dynamic), spec.KnownNum(spec.NInt(1))}
	}
	out := []spec.V{p.w, spec.NullOf(ty)}
	r := p.v.Ref
	switch {
	case ty.K == spec.KNumber:
		out = append(out, spec.KnownNum(spec.NInt(0)), spec.KnownNum(spec.Num{Route: "+inf"}), spec.KnownNum(spec.Num{Route: "-inf"}))
		if r != nil {
			for _, b := range []*spec.Num{r.Lo, r.Hi} {
				if b == nil {
					continue
				}
				out = append(out, spec.KnownNum(*b))
				f := b.Float()
				if f.IsInf() {
					continue
				}
				// just inside and just outside: relative 2^-40 and absolute 1
				for _, d := range []*big.Float{big.NewFloat(1), new(big.Float).SetPrec(512).Quo(new(big.Float).SetPrec(512).Abs(f), big.NewFloat(1<<40))} {
					if d.Sign() == 0 {
						continue
					}
					out = append(out, spec.KnownNum(numSpec(new(big.Float).SetPrec(512).Add(f, d))), spec.KnownNum(numSpec(new(big.Float).SetPrec(512).Sub(f, d))))
				}
			}
		}
	case ty.K == spec.KString:
		out = append(out, spec.KnownStr(""))
		if r != nil && r.Prefix != nil {
			p := *r.Prefix
			out = append(out, spec.KnownStr(p), spec.KnownStr(p+"x"), spec.KnownStr(p+"\u0301"))
			// drop the last rune; cut at the encoder's limit and continue differently
			if _, n := utf8.DecodeLastRuneInString(p); n > 0 && n <= len(p) {
				out = append(out, spec.KnownStr(p[:len(p)-n]), spec.KnownStr(p[:len(p)-n]+"Z"))
			}
			for _, cut := range []int{200, 250, 254, 255, 256} {
				if len(p) > cut {
					k := cut
					for k > 0 && !utf8.RuneStart(p[k]) {
						k--
					}
					out = append(out, spec.KnownStr(p[:k]+"Z"))
				}
			}
		}
	case ty.K == spec.KList || ty.K == spec.KMap:
		lens := map[int]bool{0: true, 1: true, len(p.w.Elems) + 1: true}
		if r != nil {
			for _, b := range []*int{r.MinLen, r.MaxLen} {
				if b != nil {
					for _, k := range []int{*b - 1, *b, *b + 1} {
						if k >= 0 && k <= 8 {
							lens[k] = true
						}
					}
				}
			}
		}
		for k := 0; k <= 9; k++ {
			if !lens[k] {
				continue
			}
			v := spec.V{T: ty, St: spec.Known}
			for i := 0; i < k; i++ {
				v.Elems = append(v.Elems, spec.NullOf(*ty.E))
				if ty.K == spec.KMap {
					v.Keys = append(v.Keys, "k"+strconv.Itoa(i))
				}
			}
			out = append(out, v)
		}
	case ty.K == spec.KSet:
		out = append(out, spec.V{T: ty, St: spec.Known}, spec.V{T: ty, St: spec.Known, Elems: []spec.V{spec.NullOf(*ty.E)}})
	}
	return out
}

func substitute(w spec.V, path []int, s spec.V) spec.V {
	out := w.Clone()
	codecgen.Edit(&out, path, func(x *spec.V) { *x = s })
	return out.Retype()
}

func checkSamples(c *facet.Ctx, in codecgen.Case) error {
	if in.V.WhollyKnown() || in.W == nil {
		c.Skip()
		return nil
	}
	o, f, ok := roundTrip(c, in)
	if !ok {
		c.Skip()
		return nil
	}
	labelRefs(c, in.V)
	if f != nil {
		return f
	}
	if low, _ := codecgen.SplitDiffs(o.diffs); len(low) > 0 {
		// the case holds a bound or value of the low-precision whole number
		// class (reported structurally): sampled concretes around that bound
		// fail for the same reason, in several Admits guises (bound, set
		// matching), so the case is reported under that class and not sampled
		return facet.Failf("number-lowprec-whole", "%#v under %s: %s (bytes %s)", o.orig, in.C, low[0], clip(o.bytes))
	}
	var pos []unknownPos
	unknownPositions(in.V, *in.W, nil, &pos)
	if len(pos) > 4 {
		pos = pos[:4]
	}
	admitted, rejected := 0, 0
	for _, p := range pos {
		for _, s := range samples(p) {
			conc, err := spec.Build(substitute(*in.W, p.path, s))
			if err != nil || !conc.IsWhollyKnown() {
				continue
			}
			if model.Admits(o.orig, conc) != nil {
				rejected++
				continue
			}
			admitted++
			if f := model.Admits(o.got, conc); f != nil {
				return facet.Failf("narrowed", "the original %#v admits %#v but the round-tripped %#v does not: %s", o.orig, conc, o.got, f.Msg).With("admits", f.Kind)
			}
		}
	}
	if admitted == 0 {
		// the witness is always a sample: the generator's promise is broken
		return facet.Failf("harness/witness", "the original %#v does not admit its own witness", o.orig)
	}
	c.Labelf("discriminating=%t", rejected > 0)
	if _, refined := countRefined(in.V); refined > 0 && rejected > 0 {
		c.NonTrivial()
	}
	return nil
}

// ---------------------------------------------------------------- numbers/identical

// NumIn is one number placed at the root, inside a tuple, inside a list or at
// a placeholder position.
type NumIn struct {
	N    spec.Num `json:"n"`
	Wrap string   `json:"wrap"`
}

var limitTexts = func() []string {
	var out []string
	for _, bits := range []uint{31, 32, 53, 62, 63, 64, 65, 70, 127, 128, 200} {
		p := new(big.Int).Lsh(big.NewInt(1), bits)
		for d := int64(-2); d <= 2; d++ {
			x := new(big.Int).Add(p, big.NewInt(d))
			out = append(out, x.String(), new(big.Int).Neg(x).String())
		}
	}
	return out
}()

func genNum(t *rapid.T) NumIn {
	var n spec.Num
	switch rapid.IntRange(0, 7).Draw(t, "class") {
	case 7:
		// few significant bits at an exponent near or beyond what a float64
		// can hold: the smallest subnormal, halves and odd multiples of it,
		// 2^-2000, 2^1023 .. 2^1100, odd multiples of them
		m := rapid.SampledFrom([]int64{1, 3, -1, -3, 5, 1<<52 + 1, 1<<53 - 1}).Draw(t, "mant")
		e := rapid.SampledFrom([]int{-1074, -1075, -1076, -1080, -1126, -1127, -2000, 1023, 1024, 971, 972, 1100, -1022, -1023}).Draw(t, "exp")
		n = spec.Num{Route: "pow2", Text: fmt.Sprintf("%d:%d", m, e), Prec: uint(rapid.SampledFrom([]int{53, 53, 64, 512}).Draw(t, "prec"))}
	case 0, 1:
		s := rapid.SampledFrom(limitTexts).Draw(t, "limit")
		n = spec.NParse(s)
		if rapid.Bool().Draw(t, "native") {
			if _, err := strconv.ParseInt(s, 10, 64); err == nil {
				n = spec.Num{Route: "int", Text: s}
			} else if _, err := strconv.ParseUint(s, 10, 64); err == nil {
				n = spec.Num{Route: "uint", Text: s}
			}
		}
	case 2:
		// exact float64 fractions and float64-derived whole numbers
		f := rapid.Float64().Draw(t, "f64")
		if math.IsNaN(f) {
			f = 0.75
		}
		n = spec.NFloat(f)
	case 3:
		// a whole number at limited precision
		n = spec.Num{Route: "big", Text: rapid.StringMatching(`-?[1-9][0-9]{0,40}`).Draw(t, "whole"),
			Prec: uint(rapid.SampledFrom([]int{24, 53, 64, 65, 128, 512}).Draw(t, "prec"))}
	case 4:
		// decimals that are exact in float64 (k / 2^j) written as decimals, and ones that are not
		k := rapid.IntRange(-1000, 1000).Draw(t, "k")
		j := rapid.IntRange(1, 20).Draw(t, "j")
		x := new(big.Float).SetPrec(512).Quo(big.NewFloat(float64(k)), new(big.Float).SetMantExp(big.NewFloat(1), j))
		n = spec.NParse(x.Text('f', 40))
		if rapid.Bool().Draw(t, "plusTenth") {
			n = spec.NParse(strconv.Itoa(k) + "." + rapid.StringMatching(`[0-9]{1,20}`).Draw(t, "frac"))
		}
	default:
		n = gen.Num(gen.NumOpts{}).Draw(t, "n")
	}
	return NumIn{N: n, Wrap: rapid.SampledFrom([]string{"root", "root", "tuple", "list", "dynamic", "map-dynamic"}).Draw(t, "wrap")}
}

func (in NumIn) toCase() codecgen.Case {
	nv := spec.KnownNum(in.N)
	switch in.Wrap {
	case "tuple":
		v := spec.V{T: spec.Tuple(spec.String, spec.Number), St: spec.Known, Elems: []spec.V{spec.KnownStr("a"), nv}}
		return codecgen.Case{V: v, C: v.T}
	case "list":
		v := spec.V{T: spec.List(spec.Number), St: spec.Known, Elems: []spec.V{nv, spec.KnownNum(spec.NInt(1))}}
		return codecgen.Case{V: v, C: v.T}
	case "dynamic":
		return codecgen.Case{V: nv, C: spec.Dynamic}
	case "map-dynamic":
		v := spec.V{T: spec.Map(spec.Number), St: spec.Known, Keys: []string{"k"}, Elems: []spec.V{nv}}
		return codecgen.Case{V: v, C: spec.Map(spec.Dynamic)}
	}
	return codecgen.Case{V: nv, C: spec.Number}
}

func checkNum(c *facet.Ctx, in NumIn) error {
	cs := in.toCase()
	x := in.N.Float()
	cls := numClass(x)
	c.Label("class=" + cls)
	c.Label("wrap=" + in.Wrap)
	if cls != "whole-small" {
		c.NonTrivial()
	}
	o, f, ok := roundTrip(c, cs)
	if !ok {
		c.Skip()
		return nil
	}
	if f != nil {
		return f
	}
	if in.Wrap == "root" && len(o.bytes) > 0 {
		switch b0 := o.bytes[0]; {
		case b0 <= 0x7f || b0 >= 0xe0 || (b0 >= 0xcc && b0 <= 0xd3):
			c.Label("wire=integer")
		case b0 == 0xca || b0 == 0xcb:
			c.Label("wire=float")
		case (b0 >= 0xa0 && b0 <= 0xbf) || (b0 >= 0xd9 && b0 <= 0xdb):
			c.Label("wire=string")
		default:
			c.Label("wire=other")
		}
	}
	return asErr(verdict(cs, o))
}

func asErr(f *facet.Failure) error {
	if f == nil {
		return nil
	}
	return f
}

// ---------------------------------------------------------------- reject/marked

// MarkedIn is a clean case and the same value with marks injected.
type MarkedIn struct {
	Clean spec.V `json:"clean"`
	Bad   spec.V `json:"bad"`
	C     spec.T `json:"c"`
}

func genMarked(t *rapid.T) MarkedIn {
	cs := codecgen.Draw(t, codecgen.Opts{Depth: 3, Unknown: rapid.Bool().Draw(t, "withunknown"), Inf: true})
	bad := cs.V.Clone()
	paths := codecgen.NodePaths(cs.V, nil, true)
	n := rapid.IntRange(1, 2).Draw(t, "nmarks")
	for i := 0; i < n; i++ {
		p := rapid.SampledFrom(paths).Draw(t, "where")
		codecgen.Edit(&bad, p.Path, func(x *spec.V) {
			x.Marks = []string{rapid.SampledFrom([]string{"m1", "m2"}).Draw(t, "mark")}
		})
	}
	return MarkedIn{Clean: cs.V, Bad: bad, C: cs.C}
}

func checkMarked(c *facet.Ctx, in MarkedIn) error {
	if !in.Bad.HasMarks() || !in.Clean.T.Conforms(in.C) {
		c.Skip()
		return nil
	}
	bad, err := spec.Build(in.Bad)
	if err != nil {
		c.Skip()
		return nil
	}
	clean, err := spec.Build(in.Clean)
	if err != nil {
		c.Skip()
		return nil
	}
	if !bad.ContainsMarked() {
		c.Skip()
		return nil
	}
	if len(in.Bad.Marks) == 0 {
		c.NonTrivial() // the mark sits below the root
		c.Label("nested-mark")
	} else {
		c.Label("root-mark")
	}
	if !in.Bad.WhollyKnown() {
		c.Label("with-unknowns")
	}
	ct := in.C.Cty()
	b, err, pan := marshal(bad, ct)
	if pan != nil {
		return facet.Failf("reject-panic", "Marshal(%#v, %s) panicked instead of returning an error: %v", bad, in.C, pan)
	}
	if err == nil {
		return facet.Failf("reject-accepted", "Marshal(%#v, %s) accepted a marked value and returned %s", bad, in.C, clip(b))
	}
	if len(b) != 0 {
		return facet.Failf("reject-bytes", "Marshal(%#v, %s) returned an error and also %d bytes", bad, in.C, len(b))
	}
	if _, err, pan := marshal(clean, ct); err != nil || pan != nil {
		return facet.Failf("reject-control", "the unmarked counterpart %#v under %s is refused too: err=%v panic=%v", clean, in.C, err, pan)
	}
	return nil
}

// ---------------------------------------------------------------- prefix/truncation

// PrefixIn is an unknown string refined with a prefix of a long witness.
type PrefixIn struct {
	Witness string `json:"witness"`
	Cut     int    `json:"cut"` // byte length of the prefix (a rune boundary of the normalized witness)
	Full    bool   `json:"full"`
	NotNull bool   `json:"notnull"`
	Wrap    string `json:"wrap"`
}

func genPrefix(t *rapid.T) PrefixIn {
	w := spec.NFC(codecgen.LongString(t))
	var cuts []int
	for i := range w {
		if i >= 246 {
			cuts = append(cuts, i)
		}
	}
	cuts = append(cuts, len(w))
	return PrefixIn{Witness: w, Cut: rapid.SampledFrom(cuts).Draw(t, "cut"), Full: rapid.Bool().Draw(t, "full"),
		NotNull: rapid.Bool().Draw(t, "notnull"), Wrap: rapid.SampledFrom([]string{"root", "root", "list", "dynamic", "object"}).Draw(t, "wrap")}
}

func (in PrefixIn) toCase() (codecgen.Case, bool) {
	w := spec.NFC(in.Witness)
	if in.Cut < 0 || in.Cut > len(w) || (in.Cut < len(w) && !utf8.RuneStart(w[in.Cut])) {
		return codecgen.Case{}, false
	}
	p := w[:in.Cut]
	r := &spec.Ref{Prefix: &p, PrefixFull: in.Full}
	if in.NotNull {
		r.Null = "notnull"
	}
	u := spec.V{T: spec.String, St: spec.Unknown, Ref: r}
	wv := spec.KnownStr(w)
	var v, wit spec.V
	var ct spec.T
	switch in.Wrap {
	case "list":
		v = spec.V{T: spec.List(spec.String), St: spec.Known, Elems: []spec.V{spec.KnownStr("a"), u}}
		wit = spec.V{T: spec.List(spec.String), St: spec.Known, Elems: []spec.V{spec.KnownStr("a"), wv}}
		ct = v.T
	case "dynamic":
		v, wit, ct = u, wv, spec.Dynamic
	case "object":
		ty := spec.Object(spec.Attr{Name: "p", T: spec.String})
		v = spec.V{T: ty, St: spec.Known, Keys: []string{"p"}, Elems: []spec.V{u}}
		wit = spec.V{T: ty, St: spec.Known, Keys: []string{"p"}, Elems: []spec.V{wv}}
		ct = spec.Object(spec.Attr{Name: "p", T: spec.Dynamic})
	default:
		v, wit, ct = u, wv, spec.String
	}
	return codecgen.Case{V: v, C: ct, W: &wit}, true
}

func findUnknownString(v cty.Value) (cty.Value, bool) {
	var out cty.Value
	found := false
	_ = cty.Walk(v, func(_ cty.Path, x cty.Value) (bool, error) {
		if !x.IsKnown() && x.Type() == cty.String && !found {
			out, found = x, true
		}
		return true, nil
	})
	return out, found
}

func checkPrefix(c *facet.Ctx, in PrefixIn) error {
	cs, ok := in.toCase()
	if !ok {
		c.Skip()
		return nil
	}
	o, f, ok := roundTrip(c, cs)
	if !ok {
		c.Skip()
		return nil
	}
	if f != nil {
		return f
	}
	ou, ok1 := findUnknownString(o.orig)
	if !ok1 {
		// the refinement collapsed into a known value: nothing to truncate
		c.Skip()
		return nil
	}
	op := ou.Range().StringPrefix()
	switch n := len(op); {
	case n > 256:
		c.Label("orig-prefix>256")
		c.NonTrivial()
	case n >= 250:
		c.Label("orig-prefix-250..256")
		c.NonTrivial()
	default:
		c.Label("orig-prefix<250")
	}
	c.Label("wrap=" + in.Wrap)
	if f := verdict(cs, o); f != nil {
		return f
	}
	gu, ok2 := findUnknownString(o.got)
	if !ok2 {
		return facet.Failf("knownness", "the unknown string came back known: %#v", o.got)
	}
	gp := gu.Range().StringPrefix()
	if !utf8.ValidString(gp) {
		return facet.Failf("prefix-invalid-utf8", "decoded prefix %q is not valid UTF-8", gp)
	}
	if !strings.HasPrefix(op, gp) {
		return facet.Failf("narrowed", "decoded prefix %q is not a prefix of the original prefix %q", gp, op)
	}
	c.Labelf("truncated=%t", len(gp) < len(op))
	// sampled continuations: everything the original admitted is still admitted
	w := spec.NFC(in.Witness)
	conts := []string{w, op, op + "x", op + "\u0301", op + "\u200d\U0001F4BB", op + "\U0001F3FD"}
	if len(op) > 255 {
		k := 255
		for k > 0 && !utf8.RuneStart(op[k]) {
			k--
		}
		conts = append(conts, op[:k]+"Z")
	}
	for _, s := range conts {
		conc := cty.StringVal(s)
		if model.Admits(ou, conc) != nil {
			continue
		}
		if f := model.Admits(gu, conc); f != nil {
			return facet.Failf("narrowed", "the original (prefix %q) admits %q but the decoded value (prefix %q) does not: %s", op, s, gp, f.Msg)
		}
	}
	if gu.Range().DefinitelyNotNull() && !ou.Range().DefinitelyNotNull() {
		return facet.Failf("narrowed", "decoded value is not-null, the original was not")
	}
	return nil
}

// ---------------------------------------------------------------- registration

const valueRule = "unmarked capsule-free value (nulls at any depth, empty collections, every number class incl. infinities, strings incl. ~256-byte ones) with a constraint = its type with arbitrary sub-types replaced by the placeholder"

func genKnown(t *rapid.T) codecgen.Case {
	return codecgen.Draw(t, codecgen.Opts{Depth: 3, Inf: true, LongStrings: true})
}

func genUnknown(t *rapid.T) codecgen.Case {
	return codecgen.Draw(t, codecgen.Opts{Depth: 3, Unknown: true, Inf: true, LongStrings: true})
}

func init() {
	facet.Register(facet.F[codecgen.Case]{
		Prop: "C16", Name: "roundtrip/known",
		Rule:  valueRule + "; wholly known; non-trivial when the constraint holds a placeholder or the value holds a boundary-class number (beyond 2^53, beyond int64, low-precision whole, fractional, infinite); distinct = hash of the case",
		Quick: 50000, Thorough: 400000,
		Gen: genKnown, Check: checkKnown,
	})
	facet.Register(facet.F[codecgen.Case]{
		Prop: "C16", Name: "roundtrip/unknown-superset",
		Rule:  valueRule + "; sub-values at any depth replaced by unknowns refined in every way consistently with a kept witness (not-null, numeric bounds of every number class incl. infinite and fractional, inclusive/exclusive, prefixes up to and beyond 256 bytes, length bounds 0..MaxInt, values of unknown type); structural comparison of the ranges; non-trivial when at least one unknown is refined",
		Quick: 50000, Thorough: 400000,
		Gen: genUnknown, Check: checkSuperset,
	})
	facet.Register(facet.F[codecgen.Case]{
		Prop: "C16", Name: "roundtrip/unknown-samples",
		Rule:  "as roundtrip/unknown-superset; for up to 4 unknown positions the witness, null and values at and around every stated boundary are substituted into the witness: whatever the original admits (model.Admits) the decoded value must admit; non-trivial when a refined unknown is present and the samples discriminate (the original rejects at least one)",
		Quick: 20000, Thorough: 150000,
		Gen: genUnknown, Check: checkSamples,
	})
	facet.Register(facet.F[NumIn]{
		Prop: "C16", Name: "numbers/identical",
		Rule:  "one number (limits of every integer width +-2 via every constructor, float64 values, whole numbers at limited precision, binary fractions as decimals, other decimals) at the root, in a tuple, a list, or under a placeholder; whole numbers and exact float64 values must come back with Cmp == 0, others equal; non-trivial = not a small whole number",
		Quick: 50000, Thorough: 400000,
		Gen: genNum, Check: checkNum,
	})
	facet.Register(facet.F[MarkedIn]{
		Prop: "C16", Name: "reject/marked",
		Rule:  "a case (with or without unknowns) with 1-2 marks injected at random positions must be refused with an error and no bytes, the unmarked counterpart accepted; non-trivial when no mark sits at the root",
		Quick: 30000, Thorough: 250000,
		Gen: genMarked, Check: checkMarked,
	})
	facet.Register(facet.F[PrefixIn]{
		Prop: "C16", Name: "prefix/truncation",
		Rule:  "unknown string refined (full or safe constructor, with or without not-null) with a prefix cut at byte 230.. of a ~256-byte witness whose tail is multi-byte characters and grapheme clusters, at the root, in a list, under a placeholder; decoded prefix is valid UTF-8 and a prefix of the original, sampled continuations stay admitted; non-trivial when the original prefix is >= 250 bytes",
		Quick: 30000, Thorough: 250000,
		Gen: genPrefix, Check: checkPrefix,
	})
}
