package c16

import (
	"encoding/json"
	"strings"

	"verif/harness/codecgen"
	"verif/harness/facet"
)

// Predicates of the known findings of C16. Each recognises one root cause
// from the failure kind the check assigned *and* from the input itself.

func caseOf(facetName string, raw json.RawMessage) *codecgen.Case {
	switch facetName {
	case "roundtrip/known", "roundtrip/unknown-superset", "roundtrip/unknown-samples":
		var in codecgen.Case
		if json.Unmarshal(raw, &in) == nil {
			return &in
		}
	case "numbers/identical":
		var in NumIn
		if json.Unmarshal(raw, &in) == nil {
			cs := in.toCase()
			return &cs
		}
	case "prefix/truncation":
		var in PrefixIn
		if json.Unmarshal(raw, &in) == nil {
			if cs, ok := in.toCase(); ok {
				return &cs
			}
		}
	}
	return nil
}

// mixedFailure: the decoder could not build a collection whose members came
// back with different types, although the type-flow model predicted exactly
// that for this input. The decoder either panics in the collection
// constructor ("inconsistent ... element types") or, once it checks first,
// reports "all ... elements must have the same type".
func mixedFailure(f *facet.Failure) bool {
	if f.Data["mixed"] != "true" {
		return false
	}
	switch f.Kind {
	case "decode-panic":
		return strings.Contains(f.Msg, "inconsistent") && strings.Contains(f.Msg, "element types")
	case "decode-error":
		return strings.Contains(f.Msg, "elements must have the same type")
	}
	return false
}

func init() {
	// The result type differs from the original only below a null / unknown /
	// empty position whose constraint contains a placeholder: the check emits
	// this kind only after the result type matched the type-flow model exactly
	// and the data compared equal; the input must contain such a position.
	facet.RegisterKnown("c16TypeLostUnderPlaceholder", func(facetName string, raw json.RawMessage, f *facet.Failure) bool {
		if f.Kind != "type-lost-under-placeholder" {
			return false
		}
		cs := caseOf(facetName, raw)
		return cs != nil && codecgen.LossPositions(cs.V, cs.C) > 0
	})

	// A collection mixing such a member with one that carries its type makes
	// the decoder's collection constructor panic on the encoder's own output.
	facet.RegisterKnown("c16MixedMembersPanic", func(facetName string, raw json.RawMessage, f *facet.Failure) bool {
		if !mixedFailure(f) {
			return false
		}
		cs := caseOf(facetName, raw)
		return cs != nil && codecgen.LossPositions(cs.V, cs.C) > 0
	})

	// A whole number beyond int64 whose big.Float precision is too low for its
	// shortest decimal text to denote it comes back as the integer that text
	// denotes (as a value, or as a bound of a refinement).
	facet.RegisterKnown("c16LowPrecWholeNumber", func(facetName string, raw json.RawMessage, f *facet.Failure) bool {
		switch {
		case f.Kind == "number-lowprec-whole":
		case f.Kind == "decode-error" && strings.Contains(f.Msg, "invalid refinements: number lower bound") && strings.Contains(f.Msg, "is greater than upper bound"):
			// the same root cause seen from the decoder: one bound of an unknown
			// number is such a low-precision whole number; written as its
			// shortest decimal text it lands on the other side of the other
			// bound, and the decoder refuses the now contradictory range
		default:
			return false
		}
		cs := caseOf(facetName, raw)
		return cs != nil && codecgen.HasLowPrecWhole(cs.V)
	})
}
