package c13

import (
	"encoding/json"

	"verif/harness/facet"
	"verif/harness/spec"
)

func init() {
	// merge(null object, ..., null object) where every argument has the same
	// object type with at least one attribute: the Type callback predicts that
	// object type, the implementation returns the empty object, and Call
	// reports the mismatch as a function.PanicError. (CHANGELOG 1.8.1: merge
	// "returns an empty object if all of its arguments are null".)
	facet.RegisterKnown("c13MergeAllNullObjects", func(facetName string, raw json.RawMessage, f *facet.Failure) bool {
		if f == nil || f.Kind != "panic-error" {
			return false
		}
		var in Call
		if err := json.Unmarshal(raw, &in); err != nil || in.Fn != "merge" || len(in.Args) == 0 {
			return false
		}
		t0 := in.Args[0].T
		if t0.K != spec.KObject || len(t0.Attrs) == 0 {
			return false
		}
		for _, a := range in.Args {
			if a.St != spec.Null || !a.T.Equal(t0) {
				return false
			}
		}
		return true
	})

	// zipmap(keys, values) with a null key and a LIST of values (same length):
	// the Type callback only looks for null keys when the values are a tuple,
	// and the implementation calls AsString on the null key, which panics
	// (reported as function.PanicError).
	facet.RegisterKnown("c13ZipmapNullKeyList", func(facetName string, raw json.RawMessage, f *facet.Failure) bool {
		if f == nil || f.Kind != "panic-error" {
			return false
		}
		var in Call
		if err := json.Unmarshal(raw, &in); err != nil || in.Fn != "zipmap" || len(in.Args) != 2 {
			return false
		}
		ks, vs := in.Args[0], in.Args[1]
		if ks.St != spec.Known || vs.St != spec.Known || !ks.T.Equal(spec.List(spec.String)) || vs.T.K != spec.KList || len(ks.Elems) != len(vs.Elems) {
			return false
		}
		for _, k := range ks.Elems {
			if k.St == spec.Null {
				return true
			}
		}
		return false
	})

	// merge(..., null of dynamic type, ..., <known value that is neither map nor
	// object>): the Type callback returns "dynamic" as soon as it meets the
	// dynamically-typed argument, without validating the arguments after it;
	// the null does not short-circuit the call, so the implementation iterates
	// the invalid argument and panics (reported as function.PanicError).
	facet.RegisterKnown("c13MergeDynamicNullThenInvalid", func(facetName string, raw json.RawMessage, f *facet.Failure) bool {
		if f == nil || f.Kind != "panic-error" {
			return false
		}
		var in Call
		if err := json.Unmarshal(raw, &in); err != nil || in.Fn != "merge" {
			return false
		}
		dyn := -1
		for i, a := range in.Args {
			if a.T.K == spec.KDynamic {
				if a.St != spec.Null {
					return false
				}
				dyn = i
				break
			}
			if a.T.K != spec.KMap && a.T.K != spec.KObject {
				return false // rejected by the Type callback before the dynamic argument is seen
			}
		}
		if dyn < 0 {
			return false
		}
		for _, a := range in.Args[dyn+1:] {
			if a.St == spec.Known && a.T.K != spec.KMap && a.T.K != spec.KObject {
				return true
			}
		}
		return false
	})
}
