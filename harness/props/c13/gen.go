package c13

// Generators: one in-domain argument generator per function (written from the
// function's Params()/VarParam() and Description), each with a minority of
// out-of-domain variants. Every random choice is a rapid draw; only value
// specifications are produced.

import (
	"math/big"
	"strconv"

	"pgregory.net/rapid"

	"verif/harness/gen"
	"verif/harness/spec"
)

// g carries the draw context: emptyBias shifts collection sizes towards zero
// and forms towards list/tuple and map/object mixtures (restype facet).
type g struct {
	t         *rapid.T
	emptyBias bool
}

func (x g) intn(lo, hi int, l string) int { return rapid.IntRange(lo, hi).Draw(x.t, l) }

// uniform draws an index in [0,n) (n <= 1024) uniformly: rapid's integer
// generators favour small values, which would starve the functions listed last.
func uniform(t *rapid.T, n int, label string) int {
	v := 0
	for i := 0; i < 10; i++ {
		v <<= 1
		if rapid.Bool().Draw(t, label) {
			v |= 1
		}
	}
	return v * n / 1024
}

// oneIn is true with probability 1/n (drawn uniformly: rapid's IntRange
// favours 0, which would make rare variants several times too frequent).
func (x g) oneIn(n int, l string) bool {
	if n <= 2 {
		return rapid.Bool().Draw(x.t, l)
	}
	return uniform(x.t, n, l) == 0
}

// size draws a collection size.
func (x g) size(max int) int {
	if x.emptyBias && x.oneIn(2, "empty") {
		return 0
	}
	return x.intn(0, max, "n")
}

// ---------------------------------------------------------------- element types and members

var primTypes = []spec.T{spec.String, spec.Number, spec.Bool}

var elemTypes = []spec.T{
	spec.String, spec.String, spec.Number, spec.Number, spec.Bool,
	spec.List(spec.String), spec.List(spec.Number),
	spec.Tuple(spec.Number, spec.String),
	spec.Object(spec.Attr{Name: "a", T: spec.String}),
	spec.Object(spec.Attr{Name: "a", T: spec.Number}, spec.Attr{Name: "b", T: spec.Bool}),
	spec.Map(spec.Number), spec.Set(spec.String), spec.Set(spec.Number),
	spec.Tuple(), spec.Object(),
}

func (x g) elemType() spec.T { return rapid.SampledFrom(elemTypes).Draw(x.t, "et") }

func (x g) primType() spec.T { return rapid.SampledFrom(primTypes).Draw(x.t, "pt") }

// member draws one value of type et (nulls allowed at any depth when asked).
func (x g) member(et spec.T, allowNull bool) spec.V {
	// members whose cty hashes collide (CRC-32): a lookup keyed by Value.Hash
	// alone conflates them
	if et.K == spec.KString && x.oneIn(6, "collide") {
		return spec.KnownStr(gen.CollidingString(x.t, "cstr"))
	}
	if et.K == spec.KNumber && x.oneIn(8, "collide") {
		return spec.KnownNum(gen.CollidingNum(x.t, "cnum"))
	}
	if et.K == spec.KList && et.E.K == spec.KString && x.oneIn(6, "collide") {
		return listOf(spec.String, []spec.V{spec.KnownStr(gen.CollidingString(x.t, "cstr"))})
	}
	if et.K == spec.KNumber && x.oneIn(5, "tenth") {
		// tenths through the float64 and the parsed route: numerically different,
		// equal under the documented (text-based) number equality
		txt := rapid.SampledFrom([]string{"0.1", "0.2", "0.3", "-0.1", "1.1", "2.5", "0.5"}).Draw(x.t, "tenthtxt")
		if x.oneIn(2, "viafloat") {
			f, _ := strconv.ParseFloat(txt, 64)
			return spec.KnownNum(spec.NFloat(f))
		}
		return spec.KnownNum(spec.NParse(txt))
	}
	v := gen.Value(et, gen.ValOpts{Null: allowNull, MaxElems: 2, RootKnown: !allowNull, Simple: x.oneIn(3, "simple")}).Draw(x.t, "member")
	return normSets(v)
}

// normSets makes every set inside v free of members that are equal to each
// other (docs/types.md: the result of SetVal "is undefined if two values in
// the slice are equal"); text-equal numbers count as equal here.
func normSets(v spec.V) spec.V {
	if len(v.Elems) == 0 {
		return v
	}
	out := v
	out.Elems = make([]spec.V, len(v.Elems))
	for i, e := range v.Elems {
		out.Elems[i] = normSets(e)
	}
	if v.T.K == spec.KSet && v.St == spec.Known {
		out.Elems, _ = dedupe(out.Elems)
	}
	return out
}

// reroute returns a number equal to n built another way (same value through
// another constructor, or -- for tenths -- the float64 / parsed twin, which is
// equal only by the documented text-based equality).
func (x g) reroute(v spec.V) spec.V {
	if v.St != spec.Known || v.T.K != spec.KNumber || v.N.IsInf() {
		return v
	}
	f := v.N.Float()
	if f.IsInt() {
		i, acc := f.Int64()
		if acc == 0 && i > -1<<40 && i < 1<<40 {
			switch x.intn(0, 3, "route") {
			case 0:
				return spec.KnownNum(spec.NParse(strconv.FormatInt(i, 10)))
			case 1:
				return spec.KnownNum(spec.NFloat(float64(i)))
			case 2:
				return spec.KnownNum(spec.Num{Route: "big", Text: strconv.FormatInt(i, 10), Prec: 64})
			default:
				return spec.KnownNum(spec.NInt(i))
			}
		}
		return v
	}
	if v.N.Route == "parse" {
		if fl, err := strconv.ParseFloat(v.N.Text, 64); err == nil && len(v.N.Text) <= 6 {
			return spec.KnownNum(spec.NFloat(fl))
		}
	}
	if v.N.Route == "float" && len(v.N.Text) <= 6 {
		return spec.KnownNum(spec.NParse(v.N.Text))
	}
	return v
}

// members draws n values of type et from a small pool, so that duplicates
// (also through other number routes) are frequent.
func (x g) members(et spec.T, n int, allowNull bool) []spec.V {
	var pool, out []spec.V
	for i := 0; i < n; i++ {
		if len(pool) > 0 && x.oneIn(3, "dup") {
			p := rapid.SampledFrom(pool).Draw(x.t, "pooled").Clone()
			if x.oneIn(2, "reroute") {
				p = x.reroute(p)
			}
			out = append(out, p)
			continue
		}
		m := x.member(et, allowNull && x.oneIn(2, "nullable"))
		pool = append(pool, m)
		out = append(out, m)
	}
	return out
}

func (x g) list(et spec.T, max int, allowNull bool) spec.V {
	return listOf(et, x.members(et, x.size(max), allowNull))
}

func (x g) set(et spec.T, max int, allowNull bool) spec.V {
	d, _ := dedupe(x.members(et, x.size(max), allowNull))
	return setOf(et, d)
}

// tuple draws a tuple whose members have their own types.
func (x g) tuple(max int, allowNull bool) spec.V {
	n := x.size(max)
	var es []spec.V
	var pool []spec.V
	for i := 0; i < n; i++ {
		if len(pool) > 0 && x.oneIn(4, "dup") {
			es = append(es, x.reroute(rapid.SampledFrom(pool).Draw(x.t, "pooled").Clone()))
			continue
		}
		var et spec.T
		if x.oneIn(3, "compound") {
			et = x.elemType()
		} else {
			et = x.primType()
		}
		m := x.member(et, allowNull && x.oneIn(2, "nullable"))
		pool = append(pool, m)
		es = append(es, m)
	}
	return tupleOf(es)
}

var keyPool = []string{"a", "b", "c", "k1", "k2", "é", "é", "", "z", "foo", "日", "A", "aa", "B", "10", "9"}

// keys draws n keys distinct after NFC, in a random order.
func (x g) keys(n int) []string {
	if n <= 0 {
		return nil
	}
	perm := rapid.Permutation(keyPool).Draw(x.t, "keys")
	seen := map[string]bool{}
	var out []string
	for _, k := range perm {
		if nk := spec.NFC(k); !seen[nk] {
			seen[nk] = true
			out = append(out, k)
			if len(out) == n {
				break
			}
		}
	}
	return out
}

func (x g) mapv(et spec.T, max int, allowNull bool) spec.V {
	ks := x.keys(x.size(max))
	return mapOf(et, ks, x.members(et, len(ks), allowNull))
}

func (x g) object(max int, allowNull bool) spec.V {
	ks := x.keys(x.size(max))
	var es []spec.V
	for range ks {
		var et spec.T
		if x.oneIn(3, "compound") {
			et = x.elemType()
		} else {
			et = x.primType()
		}
		es = append(es, x.member(et, allowNull && x.oneIn(2, "nullable")))
	}
	return objectOf(ks, es)
}

// seq draws a list or a tuple.
func (x g) seq(max int, allowNull bool) spec.V {
	if x.oneIn(3, "tuple") {
		return x.tuple(max, allowNull)
	}
	return x.list(x.elemType(), max, allowNull)
}

// wrongArg draws an argument of a kind the functions of this family do not
// document: a primitive, a null, or an unrelated collection.
func (x g) wrongArg() spec.V {
	switch x.intn(0, 4, "wrong") {
	case 0:
		return spec.KnownStr("foo")
	case 1:
		return numV(x.intn(-1, 3, "i"))
	case 2:
		return spec.NullOf(spec.List(spec.String))
	case 3:
		return spec.NullOf(spec.Dynamic)
	default:
		return x.object(2, false)
	}
}

// ---------------------------------------------------------------- index-like numbers

var hugeIdx = []string{"2147483647", "2147483648", "-2147483648", "-2147483649", "4294967296", "9223372036854775807", "-9223372036854775808",
	"9223372036854775808", "-9223372036854775809", "18446744073709551616", "1e40", "1099511627776", "-1099511627777"}

// idx draws an index / size like number around the length n.
func (x g) idx(n int) spec.V {
	var v spec.V
	cls := x.intn(0, 11, "idxclass")
	if cls >= 9 && x.oneIn(2, "tame") {
		cls = x.intn(4, 8, "idxclass2")
	}
	switch cls {
	case 0, 1, 2, 3:
		if n > 0 {
			v = numV(x.intn(0, n-1, "in"))
		} else {
			v = numV(0)
		}
	case 4, 5:
		v = numV(rapid.SampledFrom([]int{-1, 0, n - 1, n, n + 1, -n, -n - 1, -n + 1}).Draw(x.t, "edge"))
	case 6:
		v = numV(-x.intn(1, 3*n+2, "neg"))
	case 7:
		v = numV(x.intn(n, 3*n+2, "beyond"))
	case 8:
		v = spec.KnownNum(spec.NParse(rapid.SampledFrom(hugeIdx).Draw(x.t, "huge")))
	case 9:
		v = spec.KnownNum(spec.NParse(rapid.SampledFrom([]string{"0.5", "-0.5", "1.5", "1e-30", "0.999999999999", "2.0000000001"}).Draw(x.t, "frac")))
	case 10:
		v = spec.KnownNum(spec.Num{Route: rapid.SampledFrom([]string{"+inf", "-inf", "negzero", "zero"}).Draw(x.t, "special")})
	default:
		v = spec.KnownNum(gen.Num(gen.NumOpts{}).Draw(x.t, "anynum"))
	}
	if x.oneIn(2, "reroute") {
		v = x.reroute(v)
	}
	return v
}

// ---------------------------------------------------------------- per-function generators

type genFn func(x g) []spec.V

var gens = map[string]genFn{
	"length": func(x g) []spec.V {
		switch x.intn(0, 9, "kind") {
		case 0, 1, 2:
			return []spec.V{x.list(x.elemType(), 4, true)}
		case 3, 4:
			return []spec.V{x.set(x.elemType(), 4, true)}
		case 5, 6:
			return []spec.V{x.mapv(x.elemType(), 4, true)}
		case 7, 8:
			return []spec.V{x.tuple(4, true)}
		default:
			return []spec.V{x.wrongArg()}
		}
	},
	"element": func(x g) []spec.V {
		var l spec.V
		switch x.intn(0, 24, "kind") {
		case 0:
			l = x.set(x.primType(), 3, false)
		case 1:
			l = x.wrongArg()
		default:
			l = x.seq(5, true)
			if len(l.Elems) == 0 && !x.oneIn(4, "keepempty") {
				l = x.list(spec.String, 0, false)
				l.Elems = []spec.V{spec.KnownStr("only")}
			}
		}
		ix := x.idx(len(l.Elems))
		if x.oneIn(40, "stridx") {
			ix = spec.KnownStr("1")
		}
		return []spec.V{l, ix}
	},
	"index":    genIndexLike,
	"hasindex": genIndexLike,
	"lookup": func(x g) []spec.V {
		var m spec.V
		et := x.elemType()
		switch x.intn(0, 14, "kind") {
		case 0:
			m = x.object(3, true)
		case 1:
			if x.oneIn(2, "w") {
				m = x.wrongArg()
			} else {
				m = x.list(et, 2, false)
			}
		case 2, 3, 4:
			et = spec.String
			m = x.mapv(et, 4, true)
		default:
			m = x.mapv(et, 4, true)
		}
		key := spec.KnownStr(rapid.SampledFrom(keyPool).Draw(x.t, "key"))
		if len(m.Keys) > 0 && x.oneIn(2, "present") {
			key = spec.KnownStr(rapid.SampledFrom(m.Keys).Draw(x.t, "presentkey"))
			if x.oneIn(4, "denorm") && spec.NFC(key.S) == "é" {
				key = spec.KnownStr("é")
			}
		}
		var def spec.V
		switch x.intn(0, 9, "def") {
		case 0:
			def = x.member(x.primType(), false)
		case 1:
			def = numV(x.intn(-3, 12, "numdef"))
			if x.oneIn(2, "fr") {
				def = spec.KnownNum(spec.NParse(rapid.SampledFrom([]string{"0.5", "-2.25", "1.5", "0.1"}).Draw(x.t, "frdef")))
			}
		case 2:
			def = x.member(x.elemType(), false)
		default:
			if m.T.K == spec.KMap {
				def = x.member(*m.T.E, false)
			} else {
				def = x.member(et, false)
			}
		}
		return []spec.V{m, key, def}
	},
	"contains": func(x g) []spec.V {
		var c spec.V
		switch x.intn(0, 9, "kind") {
		case 0, 1, 2, 3:
			c = x.list(x.elemType(), 4, true)
		case 4, 5:
			c = x.tuple(4, true)
		case 6, 7:
			c = x.set(x.elemType(), 4, true)
		case 8:
			c = x.mapv(x.primType(), 2, false)
		default:
			c = x.wrongArg()
		}
		var v spec.V
		switch {
		case len(c.Elems) > 0 && x.oneIn(2, "member"):
			v = x.reroute(rapid.SampledFrom(c.Elems).Draw(x.t, "m").Clone())
			if v.St != spec.Known && !x.oneIn(4, "keepnull") {
				v = x.member(v.T, false)
			}
		case c.T.IsColl() && !x.oneIn(5, "othertype"):
			v = x.member(*c.T.E, false)
		default:
			v = x.member(x.elemType(), false)
		}
		return []spec.V{c, v}
	},
	"keys":   genMapping,
	"values": genMapping,
	"zipmap": func(x g) []spec.V {
		n := x.size(4)
		var ks []spec.V
		for _, k := range x.keys(n) {
			ks = append(ks, spec.KnownStr(k))
		}
		if len(ks) > 1 && x.oneIn(8, "dupkey") {
			ks[len(ks)-1] = ks[0].Clone()
			if x.oneIn(2, "denorm") {
				ks[0], ks[len(ks)-1] = spec.KnownStr("é"), spec.KnownStr("é")
			}
		}
		if len(ks) > 0 && x.oneIn(15, "nullkey") {
			ks[x.intn(0, len(ks)-1, "nk")] = spec.NullOf(spec.String)
		}
		keys := listOf(spec.String, ks)
		m := len(ks)
		if x.oneIn(8, "lenmismatch") {
			m = x.intn(0, 4, "m")
		}
		var vals spec.V
		switch x.intn(0, 9, "vkind") {
		case 0, 1, 2, 3, 4:
			et := x.elemType()
			vals = listOf(et, x.members(et, m, true))
		case 9:
			vals = x.set(x.primType(), 2, false)
		default:
			var es []spec.V
			for i := 0; i < m; i++ {
				es = append(es, x.member(x.elemType(), x.oneIn(3, "nullable")))
			}
			vals = tupleOf(es)
		}
		if x.oneIn(30, "wrongkeys") {
			keys = listOf(spec.Number, x.members(spec.Number, m, false))
		}
		return []spec.V{keys, vals}
	},
	"merge": func(x g) []spec.V {
		n := x.intn(0, 4, "nargs")
		if n == 0 && !x.oneIn(6, "zero") {
			n = 2
		}
		mode := x.intn(0, 9, "mode") // 0-4 maps of one type, 5-6 objects, 7 maps of several types, 8 maps and objects, 9 with a wrong arg
		et := x.elemType()
		var objKeys []string
		if mode == 5 {
			objKeys = x.keys(x.size(3)) // same attribute names in every object, primitive types fixed below
		}
		objTypes := make([]spec.T, len(objKeys))
		for i := range objTypes {
			objTypes[i] = x.primType()
		}
		var out []spec.V
		for i := 0; i < n; i++ {
			var a spec.V
			switch {
			case mode <= 4:
				a = x.mapv(et, 3, true)
			case mode == 5:
				var es []spec.V
				for _, ot := range objTypes {
					es = append(es, x.member(ot, x.oneIn(3, "nullable")))
				}
				a = objectOf(append([]string(nil), objKeys...), es)
			case mode == 6:
				a = x.object(3, true)
			case mode == 7:
				a = x.mapv(x.elemType(), 3, true)
			case mode == 8:
				if x.oneIn(2, "obj") {
					a = x.object(3, true)
				} else {
					a = x.mapv(et, 3, true)
				}
			default:
				if x.oneIn(2, "wrong") {
					a = x.wrongArg()
				} else {
					a = x.mapv(et, 2, false)
				}
			}
			if x.oneIn(6, "nullarg") {
				a = spec.NullOf(a.T)
			}
			out = append(out, a)
		}
		return out
	},
	"concat": func(x g) []spec.V {
		n := x.intn(1, 3, "nargs")
		if x.oneIn(30, "zero") {
			n = 0
		}
		mode := x.intn(0, 9, "mode") // 0-3 lists of one type, 4-5 lists of primitive types, 6 lists of any types, 7-8 lists and tuples, 9 wrong
		et := x.elemType()
		var out []spec.V
		for i := 0; i < n; i++ {
			switch {
			case mode <= 3:
				out = append(out, x.list(et, 3, true))
			case mode <= 5:
				out = append(out, x.list(x.primType(), 3, x.oneIn(3, "nulls")))
			case mode == 6:
				out = append(out, x.list(x.elemType(), 3, true))
			case mode <= 8:
				out = append(out, x.seq(3, true))
			default:
				if x.oneIn(2, "wrong") {
					out = append(out, x.wrongArg())
				} else {
					out = append(out, x.set(x.primType(), 2, false))
				}
			}
		}
		return out
	},
	"flatten": func(x g) []spec.V {
		if x.oneIn(25, "wrong") {
			return []spec.V{x.wrongArg()}
		}
		return []spec.V{x.nested(3)}
	},
	"reverselist": func(x g) []spec.V {
		switch x.intn(0, 9, "kind") {
		case 0, 1, 2, 3, 4:
			return []spec.V{x.list(x.elemType(), 5, true)}
		case 5, 6, 7:
			return []spec.V{x.tuple(5, true)}
		case 8:
			return []spec.V{x.set(x.elemType(), 4, true)}
		default:
			return []spec.V{x.wrongArg()}
		}
	},
	"distinct": func(x g) []spec.V {
		switch x.intn(0, 14, "kind") {
		case 0:
			return []spec.V{x.wrongArg()}
		case 1:
			return []spec.V{x.tuple(3, false)}
		default:
			return []spec.V{x.list(x.elemType(), 6, true)}
		}
	},
	"compact": func(x g) []spec.V {
		if x.oneIn(20, "wrong") {
			if x.oneIn(2, "w") {
				return []spec.V{x.wrongArg()}
			}
			return []spec.V{x.list(spec.Number, 3, false)}
		}
		n := x.size(6)
		var es []spec.V
		for i := 0; i < n; i++ {
			switch x.intn(0, 9, "s") {
			case 0, 1, 2:
				es = append(es, spec.KnownStr(""))
			case 3:
				if x.oneIn(4, "null") {
					es = append(es, spec.NullOf(spec.String))
				} else {
					es = append(es, spec.KnownStr(" "))
				}
			default:
				es = append(es, spec.KnownStr(gen.String().Draw(x.t, "str")))
			}
		}
		return []spec.V{listOf(spec.String, es)}
	},
	"slice": func(x g) []spec.V {
		var l spec.V
		switch x.intn(0, 24, "kind") {
		case 0:
			l = x.set(x.primType(), 3, false)
		case 1:
			l = x.wrongArg()
		default:
			l = x.seq(5, true)
		}
		n := len(l.Elems)
		if x.oneIn(5, "anyidx") {
			return []spec.V{l, x.idx(n), x.idx(n)}
		}
		s := x.intn(0, n, "s")
		e := x.intn(s, n, "e")
		if x.oneIn(4, "edge") {
			switch x.intn(0, 3, "which") {
			case 0:
				s, e = 0, n
			case 1:
				s, e = n, n
			case 2:
				s, e = 0, 0
			default:
				e = s
			}
		}
		sv, ev := numV(s), numV(e)
		if x.oneIn(2, "reroute") {
			sv, ev = x.reroute(sv), x.reroute(ev)
		}
		return []spec.V{l, sv, ev}
	},
	"chunklist": func(x g) []spec.V {
		var l spec.V
		switch x.intn(0, 19, "kind") {
		case 0:
			l = x.tuple(3, false)
		case 1:
			l = x.wrongArg()
		default:
			l = x.list(x.elemType(), 7, true)
		}
		n := len(l.Elems)
		var sz spec.V
		switch x.intn(0, 9, "szclass") {
		case 0, 1, 2, 3, 4:
			sz = numV(x.intn(1, n+2, "size"))
		case 5:
			sz = numV(rapid.SampledFrom([]int{1, n - 1, n, n + 1, 2}).Draw(x.t, "edge"))
		case 6:
			sz = numV(0)
		default:
			sz = x.idx(n)
		}
		if x.oneIn(3, "reroute") {
			sz = x.reroute(sz)
		}
		return []spec.V{l, sz}
	},
	"range": genRange,
	"sort": func(x g) []spec.V {
		if x.oneIn(25, "wrong") {
			if x.oneIn(2, "w") {
				return []spec.V{x.wrongArg()}
			}
			return []spec.V{x.list(spec.Number, 3, false)}
		}
		n := x.size(6)
		var es, pool []spec.V
		for i := 0; i < n; i++ {
			switch {
			case len(pool) > 0 && x.oneIn(4, "dup"):
				es = append(es, rapid.SampledFrom(pool).Draw(x.t, "p").Clone())
			case x.oneIn(40, "null"):
				es = append(es, spec.NullOf(spec.String))
			default:
				s := spec.KnownStr(gen.String().Draw(x.t, "str"))
				if x.oneIn(3, "sortword") {
					s = spec.KnownStr(rapid.SampledFrom([]string{"a", "B", "b", "aa", "ab", "a b", "10", "9", "2", "", "Z", "z", "é", "é", "e", "f", "日", "\U0001F600", "á"}).Draw(x.t, "w"))
				}
				pool = append(pool, s)
				es = append(es, s)
			}
		}
		return []spec.V{listOf(spec.String, es)}
	},
	"coalesce": func(x g) []spec.V {
		n := x.intn(1, 4, "nargs")
		if x.oneIn(30, "zero") {
			n = 0
		}
		mode := x.intn(0, 9, "mode") // 0-4 one type, 5-7 primitive mixture, 8 any mixture, 9 collections of primitive mixtures
		et := x.elemType()
		var out []spec.V
		for i := 0; i < n; i++ {
			t := et
			switch {
			case mode >= 5 && mode <= 7:
				t = x.primType()
			case mode == 8:
				t = x.elemType()
			case mode == 9:
				t = spec.List(x.primType())
			}
			if x.oneIn(3, "null") {
				out = append(out, spec.NullOf(t))
			} else {
				out = append(out, x.member(t, false))
			}
		}
		return out
	},
	"coalescelist": func(x g) []spec.V {
		n := x.intn(1, 4, "nargs")
		if x.oneIn(30, "zero") {
			n = 0
		}
		mode := x.intn(0, 9, "mode") // 0-4 lists of one type, 5-8 lists and tuples, 9 with a wrong arg
		et := x.elemType()
		var out []spec.V
		for i := 0; i < n; i++ {
			var a spec.V
			switch {
			case mode <= 4:
				a = listOf(et, x.members(et, x.intn(0, 2, "len")*x.intn(0, 1, "nz"), true))
				if i == n-1 && len(a.Elems) == 0 && !x.oneIn(5, "allempty") {
					a = listOf(et, x.members(et, x.intn(1, 2, "len1"), true))
				}
			case mode <= 8:
				a = x.seq(2, true)
				if i < n-1 && x.oneIn(2, "empty") {
					a.Elems = nil
					a = retypeEmpty(a)
				}
			default:
				if x.oneIn(2, "w") {
					a = x.wrongArg()
				} else {
					a = x.set(x.primType(), 2, false)
				}
			}
			if x.oneIn(6, "nullarg") && (i < n-1 || x.oneIn(4, "lastnull")) {
				a = spec.NullOf(a.T)
			}
			out = append(out, a)
		}
		return out
	},
	"setproduct": func(x g) []spec.V {
		n := x.intn(2, 3, "nargs")
		if x.oneIn(25, "few") {
			n = x.intn(0, 1, "few")
		}
		mode := x.intn(0, 9, "mode") // 0-3 lists, 4-5 lists and tuples, 6-8 sets mixed in, 9 wrong
		var out []spec.V
		for i := 0; i < n; i++ {
			et := x.primType()
			if x.oneIn(4, "compound") {
				et = x.elemType()
			}
			var a spec.V
			k := mode
			if mode >= 4 && mode <= 8 {
				k = x.intn(0, 8, "each")
				if mode <= 5 && k >= 6 {
					k = 4
				}
			}
			switch {
			case k <= 3:
				a = x.list(et, 3, true)
			case k <= 5:
				// a tuple of primitives (common type exists when a string is among them) or of one type
				m := x.size(3)
				var es []spec.V
				one := x.oneIn(2, "onetype")
				for j := 0; j < m; j++ {
					t := et
					if !one {
						t = x.primType()
					}
					es = append(es, x.member(t, x.oneIn(4, "nullable")))
				}
				a = tupleOf(es)
			case k <= 8:
				a = x.set(et, 3, true)
			default:
				a = x.wrongArg()
			}
			out = append(out, a)
		}
		return out
	},
	"setunion":        genSetOp,
	"setintersection": genSetOp,
	"setsubtract":     genSetOp2,
	"setsymmetricdifference": func(x g) []spec.V {
		if x.oneIn(8, "nottwo") {
			return genSetOp(x)
		}
		return genSets(x, 2)
	},
	"sethaselement": func(x g) []spec.V {
		et := x.elemType()
		var s spec.V
		if x.oneIn(25, "wrong") {
			s = x.list(et, 2, false)
		} else {
			s = x.set(et, 4, true)
		}
		var e spec.V
		switch {
		case len(s.Elems) > 0 && x.oneIn(2, "member"):
			e = x.reroute(rapid.SampledFrom(s.Elems).Draw(x.t, "m").Clone())
			if e.St != spec.Known && !x.oneIn(4, "keepnull") {
				e = x.member(et, false)
			}
		case x.oneIn(8, "othertype"):
			e = x.member(x.elemType(), false)
		default:
			e = x.member(et, false)
		}
		return []spec.V{s, e}
	},
}

func retypeEmpty(v spec.V) spec.V {
	if v.T.K == spec.KTuple {
		return tupleOf(nil)
	}
	return v
}

func genIndexLike(x g) []spec.V {
	var c spec.V
	switch x.intn(0, 11, "kind") {
	case 0, 1, 2, 3:
		c = x.list(x.elemType(), 4, true)
	case 4, 5, 6:
		c = x.tuple(4, true)
	case 7, 8, 9:
		c = x.mapv(x.elemType(), 4, true)
	case 10:
		if x.oneIn(2, "set") {
			c = x.set(x.primType(), 3, false)
		} else {
			c = x.object(3, false)
		}
	default:
		c = x.wrongArg()
	}
	var key spec.V
	isMap := c.T.K == spec.KMap || c.T.K == spec.KObject
	switch {
	case x.oneIn(12, "otherkey"):
		if isMap {
			key = x.idx(len(c.Elems))
		} else if x.oneIn(2, "strkey") {
			key = spec.KnownStr(rapid.SampledFrom([]string{"0", "1", "a", ""}).Draw(x.t, "sk"))
		} else {
			key = x.member(x.elemType(), x.oneIn(4, "nullkey"))
		}
	case isMap:
		key = spec.KnownStr(rapid.SampledFrom(keyPool).Draw(x.t, "key"))
		if len(c.Keys) > 0 && !x.oneIn(4, "absent") {
			key = spec.KnownStr(rapid.SampledFrom(c.Keys).Draw(x.t, "presentkey"))
			if x.oneIn(3, "denorm") && spec.NFC(key.S) == "é" {
				key = spec.KnownStr("é")
			}
		}
	default:
		key = x.idx(len(c.Elems))
		if len(c.Elems) > 0 && x.oneIn(2, "inrange") {
			key = numV(x.intn(0, len(c.Elems)-1, "pos"))
			if x.oneIn(2, "reroute") {
				key = x.reroute(key)
			}
		}
	}
	return []spec.V{c, key}
}

func genMapping(x g) []spec.V {
	switch x.intn(0, 11, "kind") {
	case 0, 1, 2, 3, 4:
		return []spec.V{x.mapv(x.elemType(), 5, true)}
	case 5, 6, 7, 8, 9:
		return []spec.V{x.object(5, true)}
	case 10:
		return []spec.V{x.list(x.primType(), 2, false)}
	default:
		return []spec.V{x.wrongArg()}
	}
}

// nested draws a list, set or tuple whose members may again be sequences.
func (x g) nested(depth int) spec.V {
	n := x.size(3)
	kind := x.intn(0, 9, "nkind")
	// lists and sets need one member type: choose it first
	if kind <= 4 || kind >= 8 {
		var et spec.T
		switch {
		case depth > 1 && x.oneIn(2, "deeper"):
			inner := x.nested(depth - 1)
			et = inner.T
			var es []spec.V
			for i := 0; i < n; i++ {
				if i == 0 {
					es = append(es, inner)
					continue
				}
				// more members of the same type: lists/sets of that element type
				if inner.T.K == spec.KList || inner.T.K == spec.KSet {
					m := spec.V{T: inner.T, St: spec.Known, Elems: x.members(*inner.T.E, x.size(2), true)}
					if x.oneIn(6, "nullseq") {
						m = spec.NullOf(inner.T)
					}
					es = append(es, normSets(m))
				} else {
					es = append(es, inner.Clone())
				}
			}
			if n == 0 {
				es = nil
			}
			if kind >= 8 {
				d, _ := dedupe(es)
				return setOf(et, d)
			}
			return listOf(et, es)
		default:
			et = x.elemType()
			if kind >= 8 {
				return x.set(et, 3, true)
			}
			return x.list(et, 3, true)
		}
	}
	// tuple: members of any types, some of them sequences
	var es []spec.V
	for i := 0; i < n; i++ {
		switch {
		case depth > 1 && x.oneIn(2, "seqmember"):
			m := x.nested(depth - 1)
			if x.oneIn(8, "nullseq") {
				m = spec.NullOf(m.T)
			}
			es = append(es, m)
		default:
			es = append(es, x.member(x.elemType(), x.oneIn(3, "nullable")))
		}
	}
	return tupleOf(es)
}

var rangeFracs = []string{"0.5", "0.25", "1.5", "-0.5", "2.5", "0.125", "-1.5", "-0.25", "3.75"}
var rangeDecs = []string{"0.1", "0.2", "0.3", "-0.1", "1.1", "0.7", "2.3", "0.01"}

func genRange(x g) []spec.V {
	num := func(l string) spec.V {
		var v spec.V
		switch x.intn(0, 9, l) {
		case 0, 1, 2, 3, 4:
			v = numV(x.intn(-6, 12, "small"))
		case 5, 6:
			v = spec.KnownNum(spec.NParse(rapid.SampledFrom(rangeFracs).Draw(x.t, "frac")))
		case 7:
			v = spec.KnownNum(spec.NParse(rapid.SampledFrom(rangeDecs).Draw(x.t, "dec")))
		case 8:
			if x.oneIn(3, "big") {
				v = numV(x.intn(-1100, 1100, "bigv"))
			} else {
				v = numV(x.intn(-40, 40, "mid"))
			}
		default:
			v = spec.KnownNum(gen.Num(gen.NumOpts{}).Draw(x.t, "anynum"))
		}
		if x.oneIn(2, "reroute") {
			v = x.reroute(v)
		}
		return v
	}
	switch x.intn(0, 19, "shape") {
	case 0, 1, 2:
		return []spec.V{num("end")}
	case 3, 4, 5, 6:
		return []spec.V{num("start"), num("end")}
	case 7:
		// around the 1024 cap
		n := rapid.SampledFrom([]int{1023, 1024, 1025, 1000, 2048}).Draw(x.t, "cap")
		switch x.intn(0, 3, "capshape") {
		case 0:
			return []spec.V{numV(n)}
		case 1:
			return []spec.V{numV(-n)}
		case 2:
			s := x.intn(-5, 5, "s")
			return []spec.V{numV(s), numV(s + n)}
		default:
			// half steps: n elements need an end in (start+(n-1)/2, start+n/2]
			s := x.intn(-5, 5, "s")
			end := spec.KnownNum(spec.NParse(strconv.FormatFloat(float64(s)+float64(n)/2, 'f', -1, 64)))
			if x.oneIn(2, "downcap") {
				end = spec.KnownNum(spec.NParse(strconv.FormatFloat(float64(s)-float64(n)/2, 'f', -1, 64)))
				return []spec.V{numV(s), end, spec.KnownNum(spec.NParse("-0.5"))}
			}
			return []spec.V{numV(s), end, spec.KnownNum(spec.NParse("0.5"))}
		}
	case 8:
		if x.oneIn(2, "zero") {
			return nil
		}
		return []spec.V{num("a"), num("b"), num("c"), num("d")}
	case 9:
		return []spec.V{num("start"), num("end"), numV(0)}
	case 10:
		// a short range far from zero: start and end are whole numbers that
		// no float64 holds exactly (their difference is small), or a span that
		// overflows float64 crossed in a few hundred huge steps
		if x.oneIn(4, "hugespan") {
			// -2^1023 .. 2^1023 in steps of 2^1016: 256 values
			p := new(big.Int).Lsh(big.NewInt(1), 1023)
			st := new(big.Int).Lsh(big.NewInt(1), uint(rapid.SampledFrom([]int{1016, 1015, 1018}).Draw(x.t, "stepexp")))
			return []spec.V{spec.KnownNum(spec.NParse(new(big.Int).Neg(p).String())), spec.KnownNum(spec.NParse(p.String())), spec.KnownNum(spec.NParse(st.String()))}
		}
		base, _ := new(big.Int).SetString(rapid.SampledFrom([]string{"100000000000000000000", "36893488147419103232", "-100000000000000000000000000000", "9007199254740993", "18446744073709551616"}).Draw(x.t, "base"), 10)
		a := int64(x.intn(-5, 9000, "a"))
		span := int64(x.intn(0, 1100, "span"))
		start := new(big.Int).Add(base, big.NewInt(a))
		end := new(big.Int).Add(start, big.NewInt(span))
		args := []spec.V{spec.KnownNum(spec.NParse(start.String())), spec.KnownNum(spec.NParse(end.String()))}
		if x.oneIn(3, "down") {
			args[0], args[1] = args[1], args[0]
			if x.oneIn(2, "downstep") {
				args = append(args, numV(-x.intn(1, 3, "step")))
			}
		} else if x.oneIn(2, "withstep") {
			args = append(args, numV(x.intn(1, 7, "step")))
		}
		return args
	default:
		// three arguments, mostly with a step pointing the right way
		s, e := num("start"), num("end")
		var st spec.V
		switch x.intn(0, 5, "stepclass") {
		case 0, 1:
			st = numV(x.intn(1, 4, "step"))
		case 2:
			st = spec.KnownNum(spec.NParse(rapid.SampledFrom([]string{"0.5", "0.25", "1.5", "2.5", "0.125"}).Draw(x.t, "fstep")))
		case 3:
			st = spec.KnownNum(spec.NParse(rapid.SampledFrom([]string{"0.1", "0.3", "0.7"}).Draw(x.t, "dstep")))
		default:
			st = num("step")
		}
		if x.intn(0, 5, "dir") > 0 && s.N != nil && e.N != nil && st.N != nil && !s.N.IsInf() && !e.N.IsInf() && !st.N.IsInf() {
			// orient the step from start to end
			if ratOf(e.N).Cmp(ratOf(s.N)) < 0 && ratOf(st.N).Sign() > 0 || ratOf(e.N).Cmp(ratOf(s.N)) > 0 && ratOf(st.N).Sign() < 0 {
				f := ratOf(st.N)
				f.Neg(f)
				if f.IsInt() {
					st = spec.KnownNum(spec.NParse(f.Num().String()))
				} else {
					st = spec.KnownNum(spec.NParse(f.FloatString(6)))
				}
			}
		}
		if x.oneIn(3, "reroute") {
			st = x.reroute(st)
		}
		if x.oneIn(8, "startisend") {
			// start == end (possibly through another construction route): the
			// empty range, whatever the sign of the step
			e = s.Clone()
			if x.oneIn(2, "rerouteend") {
				e = x.reroute(e)
			}
			if st.N != nil && !st.N.IsInf() && x.oneIn(2, "negstep") {
				f := ratOf(st.N)
				if f.Sign() > 0 {
					f.Neg(f)
					if f.IsInt() {
						st = spec.KnownNum(spec.NParse(f.Num().String()))
					} else {
						st = spec.KnownNum(spec.NParse(f.FloatString(6)))
					}
				}
			}
		}
		return []spec.V{s, e, st}
	}
}

func genSetOp2(x g) []spec.V { return genSets(x, 2) }

func genSetOp(x g) []spec.V {
	n := x.intn(1, 4, "nsets")
	if x.oneIn(3, "two") {
		n = 2
	}
	if x.oneIn(40, "zero") {
		n = 0
	}
	return genSets(x, n)
}

// genSets draws n sets over a shared pool of members (so that they overlap);
// with some probability the sets have different primitive element types
// (number / string / bool) with members that conflate after conversion.
func genSets(x g, n int) []spec.V {
	mode := x.intn(0, 9, "mode") // 0-5 one element type, 6-8 primitive mixture, 9 wrong arg somewhere
	et := x.elemType()
	if mode >= 6 && mode <= 8 {
		et = spec.Number
	}
	psize := x.intn(1, 5, "poolsize")
	pool := x.members(et, psize, true)
	var out []spec.V
	for i := 0; i < n; i++ {
		m := x.size(4)
		var es []spec.V
		for j := 0; j < m; j++ {
			if x.oneIn(5, "fresh") {
				es = append(es, x.member(et, x.oneIn(4, "nullable")))
			} else {
				p := rapid.SampledFrom(pool).Draw(x.t, "p").Clone()
				if x.oneIn(3, "reroute") {
					p = x.reroute(p)
				}
				es = append(es, p)
			}
		}
		d, _ := dedupe(es)
		s := setOf(et, d)
		if mode >= 6 && mode <= 8 {
			switch x.intn(0, 3, "as") {
			case 0:
				// the same numbers as strings (plus some words)
				var ss []spec.V
				for _, e := range d {
					if e.St != spec.Known {
						ss = append(ss, spec.NullOf(spec.String))
					} else if str, ok := numToStr(e.N); ok && x.oneIn(2, "numstr") {
						ss = append(ss, spec.KnownStr(str))
					} else {
						ss = append(ss, spec.KnownStr(rapid.SampledFrom([]string{"a", "true", "1", "0.5", "", "false"}).Draw(x.t, "w")))
					}
				}
				dd, _ := dedupe(ss)
				s = setOf(spec.String, dd)
			case 1:
				if x.oneIn(2, "bool") {
					s = x.set(spec.Bool, 2, true)
				}
			}
		}
		if mode == 9 && x.oneIn(2, "wrong") {
			if x.oneIn(2, "list") {
				s = listOf(et, d)
			} else {
				s = x.wrongArg()
			}
		}
		out = append(out, s)
	}
	return out
}

// genGroup returns the facet generator for a group of functions.
func genGroup(fns []string, emptyBias bool) func(t *rapid.T) Call {
	return func(t *rapid.T) Call {
		fn := fns[uniform(t, len(fns), "fn")]
		args := gens[fn](g{t: t, emptyBias: emptyBias})
		if args == nil {
			args = []spec.V{}
		}
		return Call{Fn: fn, Args: args}
	}
}
