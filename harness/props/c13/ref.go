package c13

// Reference implementations of the collection, set and sequence functions over
// plain Go slices of value specifications. Each is written from the function's
// Description string, the doc comment of its Go wrapper, docs/ and CHANGELOG.md
// (and, where those conflict with or are completed by an expected value in the
// shipped tests, from that expected value -- noted at each place). Where the
// sources are silent the reference abstains.

import (
	"math/big"
	"sort"

	"verif/harness/model"
	"verif/harness/spec"
)

const (
	oOOD     = iota // arguments outside the documented domain: nothing asserted but "no panic"
	oAbstain        // the sources do not determine the result: nothing asserted but "no panic"
	oValue          // in domain: the call must succeed with exactly this value and type
)

type outcome struct {
	kind      int
	want      spec.V
	unordered bool     // top-level sequence order follows a set's (undefined) iteration order: compare as a multiset
	numTol    bool     // numbers were produced by inexact repeated addition: compare with tolerance
	tol       *big.Rat // absolute tolerance when numTol
	skipRaw   bool     // the reference numbers are exact but held at another precision than the library's: RawEquals (text at own precision) does not apply
	why       string   // reason for abstaining / being out of domain
	flags     []string // what makes the case interesting (labels; non-triviality)
}

func ood(why string) outcome     { return outcome{kind: oOOD, why: why} }
func abstain(why string) outcome { return outcome{kind: oAbstain, why: why} }
func val(v spec.V, flags ...string) outcome {
	return outcome{kind: oValue, want: v, flags: flags}
}

type refFn func(args []spec.V) outcome

var refs = map[string]refFn{
	"length":                 refLength,
	"element":                refElement,
	"index":                  refIndex,
	"hasindex":               refHasIndex,
	"lookup":                 refLookup,
	"contains":               refContains,
	"keys":                   refKeys,
	"values":                 refValues,
	"zipmap":                 refZipmap,
	"merge":                  refMerge,
	"concat":                 refConcat,
	"flatten":                refFlatten,
	"reverselist":            refReverse,
	"distinct":               refDistinct,
	"compact":                refCompact,
	"slice":                  refSlice,
	"chunklist":              refChunklist,
	"range":                  refRange,
	"sort":                   refSort,
	"coalesce":               refCoalesce,
	"coalescelist":           refCoalesceList,
	"setproduct":             refSetProduct,
	"setunion":               func(a []spec.V) outcome { return refSetOp("union", a) },
	"setintersection":        func(a []spec.V) outcome { return refSetOp("intersection", a) },
	"setsubtract":            func(a []spec.V) outcome { return refSetOp("subtract", a) },
	"setsymmetricdifference": func(a []spec.V) outcome { return refSetOp("symdiff", a) },
	"sethaselement":          refSetHasElement,
}

func allKnown(args []spec.V) bool {
	for _, a := range args {
		if !known(a) {
			return false
		}
	}
	return true
}

func nargs(args []spec.V, n int) bool { return len(args) == n && allKnown(args) }

func flagsFor(coll spec.V) []string {
	var f []string
	if coll.T.K == spec.KTuple || coll.T.K == spec.KObject {
		f = append(f, "structural")
	}
	for _, e := range coll.Elems {
		if e.St == spec.Null {
			f = append(f, "null-member")
			break
		}
	}
	for i := range coll.Elems {
		dup := false
		for j := i + 1; j < len(coll.Elems); j++ {
			if eqV(coll.Elems[i], coll.Elems[j]) != eqNo {
				dup = true
			}
		}
		if dup {
			f = append(f, "dups")
			break
		}
	}
	return f
}

// ---------------------------------------------------------------- length

// Description: "Returns the number of elements in the given collection."
func refLength(args []spec.V) outcome {
	if !nargs(args, 1) {
		return ood("arity/null")
	}
	c := args[0]
	switch c.T.K {
	case spec.KList, spec.KMap, spec.KTuple:
		return val(numV(len(c.Elems)), flagsFor(c)...)
	case spec.KSet:
		d, unsure := dedupe(c.Elems)
		if unsure {
			return abstain("set members equal by text only")
		}
		return val(numV(len(d)), append(flagsFor(c), "set")...)
	}
	return ood("not a collection or tuple")
}

// ---------------------------------------------------------------- element

// Description: "Returns the element with the given index from the given list
// or tuple, applying the modulo operation to the given index if it's greater
// than the number of elements." CHANGELOG 1.15.0: "now accepts negative
// indices, extending the illusion of an infinitely-long list into the negative
// direction too." 1.16.2: also for tuples.
func refElement(args []spec.V) outcome {
	if !nargs(args, 2) {
		return ood("arity/null")
	}
	l, ix := args[0], args[1]
	if !isSeq(l.T) || ix.T.K != spec.KNumber {
		return ood("types")
	}
	i, ok := int64Num(ix.N)
	if !ok {
		return ood("index not a whole number in the int range")
	}
	n := len(l.Elems)
	if n == 0 {
		return ood("empty sequence")
	}
	m := new(big.Int).Mod(i, big.NewInt(int64(n))) // Euclidean: 0 <= m < n
	f := flagsFor(l)
	switch {
	case i.Sign() < 0:
		f = append(f, "negative-index")
	case i.Cmp(big.NewInt(int64(n))) >= 0:
		f = append(f, "wrap")
	}
	if i.CmpAbs(big.NewInt(1<<40)) > 0 {
		f = append(f, "huge-index")
	}
	return val(l.Elems[m.Int64()], f...)
}

// ---------------------------------------------------------------- index / hasindex

// keyPos resolves a key against a list/tuple/map spec: position of the member,
// or -1.
func keyPos(c, key spec.V) int {
	switch c.T.K {
	case spec.KList, spec.KTuple:
		if key.T.K != spec.KNumber || !known(key) {
			return -1
		}
		i, ok := wholeNum(key.N)
		if !ok || i.Sign() < 0 || i.Cmp(big.NewInt(int64(len(c.Elems)))) >= 0 {
			return -1
		}
		return int(i.Int64())
	case spec.KMap:
		if key.T.K != spec.KString || !known(key) {
			return -1
		}
		for i, k := range c.Keys {
			if spec.NFC(k) == spec.NFC(key.S) {
				return i
			}
		}
	}
	return -1
}

// Description: "Returns the element with the given key from the given
// collection, or raises an error if there is no such element."
func refIndex(args []spec.V) outcome {
	if !nargs(args, 2) {
		return ood("arity/null")
	}
	c, key := args[0], args[1]
	if c.T.K != spec.KList && c.T.K != spec.KTuple && c.T.K != spec.KMap {
		return ood("not a list, tuple or map")
	}
	p := keyPos(c, key)
	if p < 0 {
		return ood("no such element")
	}
	f := flagsFor(c)
	if p == 0 || p == len(c.Elems)-1 {
		f = append(f, "boundary")
	}
	return val(c.Elems[p], f...)
}

// Description: "Returns true if if the given collection can be indexed with
// the given key without producing an error, or false otherwise."
func refHasIndex(args []spec.V) outcome {
	if !nargs(args, 2) {
		return ood("arity/null")
	}
	c, key := args[0], args[1]
	if c.T.K != spec.KList && c.T.K != spec.KTuple && c.T.K != spec.KMap {
		return ood("not a list, tuple or map")
	}
	p := keyPos(c, key)
	f := flagsFor(c)
	if key.T.K == spec.KNumber {
		if i, ok := wholeNum(key.N); ok {
			n := int64(len(c.Elems))
			if i.IsInt64() {
				switch i.Int64() {
				case -1, 0, n - 1, n:
					f = append(f, "boundary")
				}
			}
		} else {
			f = append(f, "fractional-key")
		}
	}
	if (c.T.K == spec.KMap) != (key.T.K == spec.KString) {
		f = append(f, "key-kind-mismatch")
	}
	return val(spec.KnownBool(p >= 0), f...)
}

// ---------------------------------------------------------------- lookup

// Description: "Returns the value of the element with the given key from the
// given map, or returns the default value if there is no such element."
// The error text "the default value must have the same type as the map
// elements" and the shipped row {number default for a map of string -> "5"}
// give the default's type rule: same type, or convertible to the element type.
func refLookup(args []spec.V) outcome {
	if !nargs(args, 3) {
		return ood("arity/null")
	}
	m, key, def := args[0], args[1], args[2]
	if key.T.K != spec.KString {
		return ood("key not a string")
	}
	if m.T.K == spec.KObject {
		return abstain("object argument is not described")
	}
	if m.T.K != spec.KMap {
		return ood("not a map")
	}
	et := *m.T.E
	cdef, ok := convertV(def, et)
	if !ok {
		return abstain("default of another type")
	}
	f := flagsFor(m)
	if !def.T.Equal(et) {
		f = append(f, "converted-default")
	}
	if p := keyPos(m, key); p >= 0 {
		f = append(f, "present")
		if m.Elems[p].St == spec.Null {
			f = append(f, "present-null")
		}
		return val(m.Elems[p], f...)
	}
	return val(cdef, append(f, "absent")...)
}

// ---------------------------------------------------------------- contains

// Description: "Returns true if the given value is a value in the given list,
// tuple, or set, or false otherwise." Equality is cty's documented equality
// (numbers: CHANGELOG 1.10.0).
func refContains(args []spec.V) outcome {
	if !nargs(args, 2) {
		return ood("arity/null")
	}
	c, v := args[0], args[1]
	if c.T.K != spec.KList && c.T.K != spec.KTuple && c.T.K != spec.KSet {
		return ood("not a list, tuple or set")
	}
	e := memberOf(v, c.Elems)
	f := flagsFor(c)
	if e == eqByText {
		f = append(f, "text-equal-number")
	}
	if c.T.K == spec.KSet {
		f = append(f, "set")
	}
	if c.T.K != spec.KTuple && !c.T.E.Equal(v.T) {
		f = append(f, "other-type")
	}
	return val(spec.KnownBool(e != eqNo), f...)
}

// ---------------------------------------------------------------- keys / values

// Description: "Returns a list of the keys of the given map in
// lexicographical order." Parameter: "May instead be an object-typed value, in
// which case the result is a tuple of the object attributes."
func refKeys(args []spec.V) outcome {
	if !nargs(args, 1) {
		return ood("arity/null")
	}
	m := args[0]
	ks, _ := sortedByKey(m)
	kvs := make([]spec.V, len(ks))
	for i, k := range ks {
		kvs[i] = spec.KnownStr(k)
	}
	switch m.T.K {
	case spec.KMap:
		return val(listOf(spec.String, kvs), flagsFor(m)...)
	case spec.KObject:
		return val(tupleOf(kvs), flagsFor(m)...)
	}
	return ood("not a map or object")
}

// Description: "Returns the values of elements of a given map, or the values
// of attributes of a given object, in lexicographic order by key or attribute
// name."
func refValues(args []spec.V) outcome {
	if !nargs(args, 1) {
		return ood("arity/null")
	}
	m := args[0]
	_, vs := sortedByKey(m)
	switch m.T.K {
	case spec.KMap:
		return val(listOf(*m.T.E, vs), flagsFor(m)...)
	case spec.KObject:
		return val(tupleOf(vs), flagsFor(m)...)
	}
	return ood("not a map or object")
}

// ---------------------------------------------------------------- zipmap

// Description: "Constructs a map from a list of keys and a corresponding list
// of values, which must both be of the same length." A tuple of values gives an
// object (CHANGELOG 1.3.0 / the Type callback's documented comment; shipped
// tests). Duplicate keys are not described: abstain.
func refZipmap(args []spec.V) outcome {
	if !nargs(args, 2) {
		return ood("arity/null")
	}
	ks, vs := args[0], args[1]
	if !ks.T.Equal(spec.List(spec.String)) || !isSeq(vs.T) {
		return ood("types")
	}
	if len(ks.Elems) != len(vs.Elems) {
		return ood("length mismatch")
	}
	seen := map[string]bool{}
	keys := make([]string, len(ks.Elems))
	for i, k := range ks.Elems {
		if !known(k) {
			return ood("null key")
		}
		keys[i] = spec.NFC(k.S)
		if seen[keys[i]] {
			return abstain("duplicate keys")
		}
		seen[keys[i]] = true
	}
	f := flagsFor(vs)
	if vs.T.K == spec.KList {
		return val(mapOf(*vs.T.E, keys, vs.Elems), f...)
	}
	return val(objectOf(keys, vs.Elems), f...)
}

// ---------------------------------------------------------------- merge

// Description: "Merges all of the elements from the given maps into a single
// map, or the attributes from given objects into a single object." Doc
// comment: "If more than one given map or object defines the same key then the
// one that is later in the argument sequence takes precedence." CHANGELOG:
// null arguments are ignored; all-null gives an empty object. Arguments that
// are not all of one type can only be merged into an object (shipped rows
// "merge map of various kinds", "merge maps and objects").
func refMerge(args []spec.V) outcome {
	if len(args) == 0 {
		return abstain("no arguments")
	}
	var live []spec.V
	sameT := true
	for _, a := range args {
		if a.T.K != spec.KMap && a.T.K != spec.KObject {
			return ood("not a map or object")
		}
		if a.St != spec.Known && a.St != spec.Null {
			return ood("unknown")
		}
		if !a.T.Equal(args[0].T) {
			sameT = false
		}
		if known(a) {
			live = append(live, a)
		}
	}
	// merged members, later wins
	pos := map[string]int{}
	var keys []string
	var vals []spec.V
	for _, a := range live {
		for i, k := range a.Keys {
			nk := spec.NFC(k)
			if p, ok := pos[nk]; ok {
				vals[p] = a.Elems[i]
			} else {
				pos[nk] = len(keys)
				keys = append(keys, nk)
				vals = append(vals, a.Elems[i])
			}
		}
	}
	var f []string
	if len(live) < len(args) {
		f = append(f, "null-arg")
	}
	overl := 0
	for _, a := range live {
		overl += len(a.Keys)
	}
	if overl > len(keys) {
		f = append(f, "overlap")
	}
	if len(live) == 0 {
		// CHANGELOG 1.8.1: "now returns an empty object if all of its
		// arguments are null" (shipped row "all inputs are null"). For null
		// maps of one map type the Description's "into a single map" suggests
		// an empty map of that type instead: not decided here.
		if sameT && args[0].T.K == spec.KMap {
			return abstain("all arguments null maps of one type")
		}
		return val(objectOf(nil, nil), append(f, "all-null")...)
	}
	if sameT {
		if args[0].T.K == spec.KMap {
			return val(mapOf(*args[0].T.E, keys, vals), append(f, "maps")...)
		}
		return val(objectOf(keys, vals), append(f, "objects")...)
	}
	// mixed types
	for _, a := range args {
		if a.St == spec.Null {
			return abstain("mixed types with a null argument")
		}
	}
	return val(objectOf(keys, vals), append(f, "mixed")...)
}

// ---------------------------------------------------------------- concat

// Description: "Concatenates together all of the given lists or tuples into a
// single sequence, preserving the input order." Doc comment: "If all of the
// given sequences are lists of the same element type then the result is a
// list of that type. Otherwise, the result is a of a tuple type constructed
// from the given sequence types." The shipped tests refine "same element
// type" to "element types with a common type" (rows {1},{"foo"},{true} ->
// list of string; {1},{[]bool} -> tuple).
func refConcat(args []spec.V) outcome {
	if len(args) == 0 || !allKnown(args) {
		return ood("arity/null")
	}
	allLists := true
	var all []spec.V
	var f []string
	for _, a := range args {
		if !isSeq(a.T) {
			return ood("not a list or tuple")
		}
		if a.T.K != spec.KList {
			allLists = false
		}
		all = append(all, a.Elems...)
	}
	if len(args) > 1 {
		f = append(f, "multi")
	}
	if allLists {
		ts := make([]spec.T, len(args))
		for i, a := range args {
			ts[i] = a.T
		}
		ut, st := unify(ts)
		switch st {
		case uOK:
			out := spec.V{T: ut, St: spec.Known}
			for _, e := range all {
				ce, ok := convertV(e, *ut.E)
				if !ok {
					return abstain("element conversion not modelled")
				}
				out.Elems = append(out.Elems, ce)
			}
			for _, t := range ts {
				if !t.Equal(ut) {
					f = append(f, "unified")
					break
				}
			}
			return val(out, f...)
		case uUnsure:
			return abstain("unification not modelled")
		}
		return val(tupleOf(all), append(f, "lists-to-tuple")...)
	}
	return val(tupleOf(all), append(f, "mixed")...)
}

// ---------------------------------------------------------------- flatten

// Description: "Transforms a list, set, or tuple value into a tuple by
// replacing any given elements that are themselves sequences with a flattened
// tuple of all of the nested elements concatenated together." CHANGELOG
// 1.8.4/1.9.1: a null (of any type, including sequence types) is kept as it is.
func refFlatten(args []spec.V) outcome {
	if !nargs(args, 1) {
		return ood("arity/null")
	}
	isFlat := func(t spec.T) bool { return t.K == spec.KList || t.K == spec.KSet || t.K == spec.KTuple }
	if !isFlat(args[0].T) {
		return ood("not a list, set or tuple")
	}
	var out []spec.V
	unordered, unsure, nested, nullSeq := false, false, false, false
	var rec func(v spec.V, depth int)
	rec = func(v spec.V, depth int) {
		elems := v.Elems
		if v.T.K == spec.KSet {
			var u bool
			elems, u = dedupe(elems)
			unsure = unsure || u
			if len(elems) > 1 {
				unordered = true
			}
		}
		for _, e := range elems {
			if isFlat(e.T) {
				if known(e) {
					nested = true
					rec(e, depth+1)
					continue
				}
				nullSeq = true
			}
			out = append(out, e)
		}
	}
	rec(args[0], 0)
	if unsure {
		return abstain("set members equal by text only")
	}
	var f []string
	if nested {
		f = append(f, "nested")
	}
	if nullSeq {
		f = append(f, "null-sequence")
	}
	if unordered {
		f = append(f, "set-order")
	}
	o := val(tupleOf(out), f...)
	o.unordered = unordered
	return o
}

// ---------------------------------------------------------------- reverselist

// Description: "Returns the given list with its elements in reverse order."
// Doc comment: "takes a sequence and produces a new sequence of the same
// length". A set argument is accepted "to mimic the usual behavior of
// auto-converting to list" (comment at the Type callback): the element order
// is then undefined, only the members are checked.
func refReverse(args []spec.V) outcome {
	if !nargs(args, 1) {
		return ood("arity/null")
	}
	l := args[0]
	n := len(l.Elems)
	rev := make([]spec.V, n)
	for i, e := range l.Elems {
		rev[n-1-i] = e
	}
	switch l.T.K {
	case spec.KList:
		return val(listOf(*l.T.E, rev), flagsFor(l)...)
	case spec.KTuple:
		return val(tupleOf(rev), flagsFor(l)...)
	case spec.KSet:
		d, unsure := dedupe(l.Elems)
		if unsure {
			return abstain("set members equal by text only")
		}
		o := val(listOf(*l.T.E, d), "set-order")
		o.unordered = true
		return o
	}
	return ood("not a sequence")
}

// ---------------------------------------------------------------- distinct

// Description: "Removes any duplicate values from the given list, preserving
// the order of remaining elements." CHANGELOG 1.3.0: "retaining the order".
// The first occurrence stays (it is the one that is not a duplicate of an
// earlier element).
func refDistinct(args []spec.V) outcome {
	if !nargs(args, 1) {
		return ood("arity/null")
	}
	l := args[0]
	if l.T.K != spec.KList {
		return ood("not a list")
	}
	d, textOnly := dedupe(l.Elems)
	if textOnly {
		// two members are equal only by their decimal text (0.1 through the
		// float64 and the parsed route; a float64-derived 1e40 and the exact
		// one): whether the library calls them equal is C03's subject, and the
		// documents disagree (text for fractions, exact value for whole numbers)
		return abstain("members equal by text only")
	}
	f := flagsFor(l)
	return val(listOf(*l.T.E, d), f...)
}

// ---------------------------------------------------------------- compact

// Description: "Removes all empty string elements from the given list of
// strings." Null members are not described: abstain.
func refCompact(args []spec.V) outcome {
	if !nargs(args, 1) {
		return ood("arity/null")
	}
	l := args[0]
	if !l.T.Equal(spec.List(spec.String)) {
		return ood("not a list of strings")
	}
	var out []spec.V
	f := flagsFor(l)
	for _, e := range l.Elems {
		if !known(e) {
			return abstain("null member")
		}
		if e.S == "" {
			f = append(f, "has-empty")
			continue
		}
		out = append(out, e)
	}
	return val(listOf(spec.String, out), f...)
}

// ---------------------------------------------------------------- slice

// Description: "Extracts a subslice of the given list or tuple value." Doc
// comment: "extracts some consecutive elements from within a list";
// parameters start_index / end_index. The interval is half-open
// [start, end) (shipped rows; error texts "start index must not be greater
// than the length of the list", "... greater than end index").
func refSlice(args []spec.V) outcome {
	if !nargs(args, 3) {
		return ood("arity/null")
	}
	l, sv, ev := args[0], args[1], args[2]
	if !isSeq(l.T) || sv.T.K != spec.KNumber || ev.T.K != spec.KNumber {
		return ood("types")
	}
	sb, ok1 := int64Num(sv.N)
	eb, ok2 := int64Num(ev.N)
	if !ok1 || !ok2 {
		return ood("index not a whole number")
	}
	n := int64(len(l.Elems))
	if sb.Sign() < 0 || eb.Sign() < 0 || sb.Cmp(big.NewInt(n)) > 0 || eb.Cmp(big.NewInt(n)) > 0 || sb.Cmp(eb) > 0 {
		return ood("bounds")
	}
	s, e := sb.Int64(), eb.Int64()
	f := flagsFor(l)
	if s == e {
		f = append(f, "empty-result")
	}
	if s == 0 || e == n || s == e {
		f = append(f, "boundary")
	}
	sub := append([]spec.V(nil), l.Elems[s:e]...)
	if l.T.K == spec.KList {
		return val(listOf(*l.T.E, sub), f...)
	}
	return val(tupleOf(sub), f...)
}

// ---------------------------------------------------------------- chunklist

// Description: "Splits a single list into multiple lists where each has at
// most the given number of elements." size: "The maximum length of each chunk.
// All but the last element of the result is guaranteed to be of exactly this
// size." Size zero is not described by these sources: abstain. Negative: the
// size "must be positive" (out of domain).
func refChunklist(args []spec.V) outcome {
	if !nargs(args, 2) {
		return ood("arity/null")
	}
	l, sz := args[0], args[1]
	if l.T.K != spec.KList || sz.T.K != spec.KNumber {
		return ood("types")
	}
	sb, ok := int64Num(sz.N)
	if !ok || sb.Sign() < 0 {
		return ood("size not a non-negative whole number")
	}
	if sb.Sign() == 0 {
		if len(l.Elems) == 0 {
			// An empty list has no element to put into a chunk: for every
			// positive size the result is the empty list of lists, and a chunk
			// size that allows nothing does not create a chunk either (the
			// special case for size 0, "a list made of the initial list",
			// stands behind the empty-list case in the implementation).
			return val(spec.V{T: spec.List(l.T), St: spec.Known}, "empty-list-size-zero")
		}
		return abstain("size zero")
	}
	inner := l.T
	out := spec.V{T: spec.List(inner), St: spec.Known}
	n := len(l.Elems)
	f := flagsFor(l)
	if sb.Cmp(big.NewInt(int64(n))) >= 0 {
		f = append(f, "size>=len")
		if n > 0 {
			out.Elems = append(out.Elems, listOf(*l.T.E, append([]spec.V(nil), l.Elems...)))
		}
		return val(out, f...)
	}
	size := int(sb.Int64())
	for i := 0; i < n; i += size {
		j := i + size
		if j > n {
			j = n
		}
		out.Elems = append(out.Elems, listOf(*l.T.E, append([]spec.V(nil), l.Elems[i:j]...)))
	}
	if n%size == 0 {
		f = append(f, "exact-multiple")
	} else {
		f = append(f, "short-last")
	}
	return val(out, f...)
}

// ---------------------------------------------------------------- range

// Doc comment of Range: "creates a list of numbers by starting from the given
// starting value, then adding the given step value until the result is
// greater than or equal to the given stopping value. ... When all three
// parameters are set, the order is (start, end, step). If only two parameters
// are set, they are the start and end respectively and step defaults to 1. If
// only one argument is set, it gives the end value with start defaulting to 0
// and step defaulting to 1. ... an artificial cap of 1024 elements, after
// which this function will return an error". The shipped rows Range(-5) and
// Range(5,1) show the default step is -1 when end < start, and Range(5,0,-1)
// that a negative step counts down until the result is <= end. A step whose
// sign contradicts the direction, and step zero, are out of domain.
func refRange(args []spec.V) outcome {
	if len(args) < 1 || len(args) > 3 || !allKnown(args) {
		return ood("arity/null")
	}
	for _, a := range args {
		if a.T.K != spec.KNumber {
			return ood("types")
		}
		if a.N.IsInf() {
			return abstain("infinite argument")
		}
	}
	one := big.NewRat(1, 1)
	start, end, step := new(big.Rat), new(big.Rat), new(big.Rat)
	var f []string
	switch len(args) {
	case 1:
		end = ratOf(args[0].N)
	case 2:
		start, end = ratOf(args[0].N), ratOf(args[1].N)
	case 3:
		start, end, step = ratOf(args[0].N), ratOf(args[1].N), ratOf(args[2].N)
	}
	if len(args) < 3 {
		if end.Cmp(start) < 0 {
			step = new(big.Rat).Neg(one)
			f = append(f, "default-down")
		} else {
			step = one
		}
	}
	if step.Sign() == 0 {
		return ood("zero step")
	}
	diff := new(big.Rat).Sub(end, start)
	if len(args) >= 2 && diff.Sign() != 0 && model.NumText(args[0].N.Float()) == model.NumText(args[1].N.Float()) {
		// start and end differ numerically but are equal under the documented
		// text-based number equality (C03's subject): empty or not is open
		return abstain("start and end equal by text only")
	}
	if diff.Sign() != 0 && diff.Sign() != step.Sign() {
		return ood("step direction contradicts start/end")
	}
	// count = ceil(diff/step)
	q := new(big.Rat).Quo(diff, step)
	cnt := new(big.Int).Quo(q.Num(), q.Denom()) // q >= 0: truncation = floor
	exactMultiple := q.IsInt()
	if !exactMultiple {
		cnt.Add(cnt, big.NewInt(1))
	}
	if cnt.Cmp(big.NewInt(1024)) > 0 {
		return ood("more than 1024 elements")
	}
	n := int(cnt.Int64())
	// exactness: are all partial sums representable at the precision cty adds with?
	exact := true
	for _, a := range args {
		if !dyadicSmall(a.N) {
			exact = false
		}
	}
	wideExact := false
	if !exact {
		// Also exact: every partial sum (the overshooting one included) fits
		// the mantissa of the less precise of start and step - however far
		// from zero the range lies, and however large the numbers are.
		if p := minPrec(startNum(args), stepNum(args)); p > 0 && cnt.Cmp(big.NewInt(1024)) <= 0 {
			fits := true
			cur := new(big.Rat).Set(start)
			for i := 0; i <= n && fits; i++ {
				if mantBits(cur) > p {
					fits = false
				}
				cur = new(big.Rat).Add(cur, step)
			}
			if fits {
				exact = true
				wideExact = true
			}
		}
	}
	if !exact {
		// Repeated addition rounds at the operands' precision (docs/types.md:
		// numbers are "subject to approximation"). The reference is exact
		// rational arithmetic, so it only speaks where rounding cannot change
		// the element count: operands of at least 53 bits, a step that is not
		// negligible against the magnitudes, and an end that is not within
		// 2^-16 steps of the grid.
		for _, a := range args {
			if a.N.Route == "big" && a.N.Prec < 53 {
				return abstain("low-precision operand")
			}
		}
		mag := new(big.Rat).Abs(start)
		if e := new(big.Rat).Abs(end); e.Cmp(mag) > 0 {
			mag = e
		}
		lim := new(big.Rat).Mul(new(big.Rat).Abs(step), big.NewRat(1<<20, 1))
		if mag.Cmp(lim) > 0 {
			return abstain("step negligible at the operands' precision")
		}
		fr := new(big.Rat).Sub(q, new(big.Rat).SetInt(new(big.Int).Quo(q.Num(), q.Denom())))
		eps := big.NewRat(1, 1<<16)
		if fr.Cmp(eps) < 0 || new(big.Rat).Sub(one, fr).Cmp(eps) < 0 {
			return abstain("inexact arithmetic near the end boundary")
		}
	}
	out := spec.V{T: spec.List(spec.Number), St: spec.Known}
	cur := new(big.Rat).Set(start)
	for i := 0; i < n; i++ {
		out.Elems = append(out.Elems, ratNum(cur))
		cur = new(big.Rat).Add(cur, step)
	}
	if step.Sign() < 0 {
		f = append(f, "down")
	}
	if !step.IsInt() || !start.IsInt() {
		f = append(f, "fractional")
	}
	if exactMultiple {
		f = append(f, "end-on-grid")
	}
	if n == 0 {
		f = append(f, "empty-result")
	}
	if n >= 1000 {
		f = append(f, "near-cap")
	}
	if n == 1024 {
		f = append(f, "at-cap")
	}
	o := val(out, f...)
	o.skipRaw = wideExact
	if !exact {
		o.numTol = true
		o.tol = new(big.Rat).Mul(new(big.Rat).Abs(step), big.NewRat(1, 1<<20))
	}
	return o
}

// dyadicSmall: the number is k/2^m with m <= 12 and |value| < 2^40, built by a
// route whose precision (>= 53 bits) holds every partial sum of up to 1024 such
// numbers exactly.
// startNum is the start operand of a range call (nil when it is defaulted to zero).
func startNum(args []spec.V) *spec.Num {
	if len(args) >= 2 {
		return args[0].N
	}
	return nil
}

// stepNum is the step operand of a range call (nil when it is defaulted).
func stepNum(args []spec.V) *spec.Num {
	if len(args) == 3 {
		return args[2].N
	}
	return nil
}

// minPrec is the smaller mantissa precision of the given operands as their
// construction route documents it (0: unknown). A defaulted step is +-1.
func minPrec(ns ...*spec.Num) int {
	p := 1 << 30
	for _, n := range ns {
		q := 64 // the default step is an integer constant
		if n != nil {
			switch n.Route {
			case "int", "uint":
				q = 64
			case "float":
				q = 53
			case "parse":
				q = 512
			default:
				return 0
			}
		}
		if q < p {
			p = q
		}
	}
	return p
}

// mantBits is the number of mantissa bits a binary float needs to hold r
// exactly (1<<30 when r is not dyadic).
func mantBits(r *big.Rat) int {
	d := r.Denom()
	if new(big.Int).And(d, new(big.Int).Sub(d, big.NewInt(1))).Sign() != 0 {
		return 1 << 30
	}
	n := new(big.Int).Abs(r.Num())
	if n.Sign() == 0 {
		return 0
	}
	return n.BitLen() - int(n.TrailingZeroBits())
}

func dyadicSmall(n *spec.Num) bool {
	switch n.Route {
	case "int", "uint", "parse", "float", "zero", "negzero":
	default:
		return false
	}
	r := ratOf(n)
	d := r.Denom()
	if d.BitLen() > 13 || new(big.Int).And(d, new(big.Int).Sub(d, big.NewInt(1))).Sign() != 0 {
		return false
	}
	lim := new(big.Rat).SetInt(new(big.Int).Lsh(big.NewInt(1), 38))
	return new(big.Rat).Abs(r).Cmp(lim) < 0
}

// ratNum turns an exact rational into a number spec (parse route with enough digits).
func ratNum(r *big.Rat) spec.V {
	if r.IsInt() {
		return spec.KnownNum(spec.NParse(r.Num().String()))
	}
	if d := r.Denom(); new(big.Int).And(d, new(big.Int).Sub(d, big.NewInt(1))).Sign() == 0 {
		// k/2^m: the decimal expansion is finite (m digits after the point)
		m := d.BitLen() - 1
		prec := uint(r.Num().BitLen() + m + 16)
		if prec < 2048 {
			prec = 2048
		}
		f := new(big.Float).SetPrec(prec).SetRat(r)
		return spec.KnownNum(spec.Num{Route: "big", Text: f.Text('f', m), Prec: prec})
	}
	f := new(big.Float).SetPrec(2048).SetRat(r)
	return spec.KnownNum(spec.Num{Route: "big", Text: f.Text('g', 400), Prec: 2048})
}

// ---------------------------------------------------------------- sort

// Description: "Applies a lexicographic sort to the elements of the given
// list." (list of strings; CHANGELOG 1.3.0 "into lexical order"). A null
// member "cannot be sorted": out of domain.
func refSort(args []spec.V) outcome {
	if !nargs(args, 1) {
		return ood("arity/null")
	}
	l := args[0]
	if !l.T.Equal(spec.List(spec.String)) {
		return ood("not a list of strings")
	}
	ss := make([]string, len(l.Elems))
	for i, e := range l.Elems {
		if !known(e) {
			return ood("null member")
		}
		ss[i] = spec.NFC(e.S)
	}
	f := flagsFor(l)
	if !sort.StringsAreSorted(ss) {
		f = append(f, "unsorted-input")
	}
	if len(ss) > 1 {
		f = append(f, "several")
	}
	sort.Strings(ss) // byte order of UTF-8 = code point order
	out := make([]spec.V, len(ss))
	for i, s := range ss {
		out[i] = spec.KnownStr(s)
	}
	return val(listOf(spec.String, out), f...)
}

// ---------------------------------------------------------------- coalesce / coalescelist

// Description: "Returns the first of the given arguments that isn't null, or
// raises an error if there are no non-null arguments." The result type is the
// common type of all arguments ("all arguments must have the same type" after
// unification; shipped row coalesce(null string, 1) -> "1").
func refCoalesce(args []spec.V) outcome {
	if len(args) == 0 {
		return ood("no arguments")
	}
	ts := make([]spec.T, len(args))
	first := -1
	for i, a := range args {
		if a.St != spec.Known && a.St != spec.Null {
			return ood("unknown")
		}
		ts[i] = a.T
		if first < 0 && known(a) {
			first = i
		}
	}
	ut, st := unify(ts)
	switch st {
	case uFail:
		return ood("no common type")
	case uUnsure:
		return abstain("unification not modelled")
	}
	if first < 0 {
		return ood("all null")
	}
	cv, ok := convertV(args[first], ut)
	if !ok {
		return abstain("conversion not modelled")
	}
	var f []string
	if first > 0 {
		f = append(f, "skipped-null")
	}
	if !args[first].T.Equal(ut) {
		f = append(f, "converted")
	}
	if len(args) > 1 {
		f = append(f, "multi")
	}
	return val(cv, f...)
}

// Description: "Returns the first of the given sequences that has a length
// greater than zero." Parameter: "List or tuple values to test in the given
// order." CHANGELOG 1.8.1: null arguments are ignored.
func refCoalesceList(args []spec.V) outcome {
	if len(args) == 0 {
		return ood("no arguments")
	}
	first := -1
	var f []string
	for i, a := range args {
		if !isSeq(a.T) {
			return ood("not a list or tuple")
		}
		if a.St != spec.Known && a.St != spec.Null {
			return ood("unknown")
		}
		if a.St == spec.Null {
			f = append(f, "null-arg")
		}
		if i > 0 && !a.T.Equal(args[0].T) {
			f = append(f, "mixed-types")
		}
		if first < 0 && known(a) && len(a.Elems) > 0 {
			first = i
		}
	}
	if first < 0 {
		return ood("no non-empty argument")
	}
	if first > 0 {
		f = append(f, "skipped")
	}
	return val(args[first], f...)
}

// ---------------------------------------------------------------- setproduct

// Description: "Calculates the cartesian product of two or more sets." Doc
// comment: "If the arguments are all lists then the result is a list of
// tuples, preserving the ordering of all of the input lists. Otherwise the
// result is a set of tuples." Parameter: "Also accepts lists and tuples, and
// if all arguments are of list or tuple type then the result will preserve the
// input ordering". A tuple argument stands for a list of the common type of
// its elements (error text "all elements must be of the same type").
// Ordering: combinations in the order of the first argument, then for each of
// them the order of the second, and so on (the last argument varies fastest).
func refSetProduct(args []spec.V) outcome {
	if len(args) < 2 {
		return ood("fewer than two arguments")
	}
	if !allKnown(args) {
		return ood("null argument")
	}
	allSeq := true
	ets := make([]spec.T, len(args))
	cols := make([][]spec.V, len(args))
	var f []string
	unsure := false
	for i, a := range args {
		switch a.T.K {
		case spec.KList, spec.KSet:
			ets[i] = *a.T.E
			cols[i] = a.Elems
			if a.T.K == spec.KSet {
				allSeq = false
				d, u := dedupe(a.Elems)
				cols[i] = d
				unsure = unsure || u
			}
		case spec.KTuple:
			if len(a.Elems) == 0 {
				return abstain("empty tuple argument")
			}
			ut, st := unify(a.T.Elems)
			if st == uFail {
				return ood("tuple elements without a common type")
			}
			if st == uUnsure {
				return abstain("unification not modelled")
			}
			ets[i] = ut
			for _, e := range a.Elems {
				ce, ok := convertV(e, ut)
				if !ok {
					return abstain("conversion not modelled")
				}
				cols[i] = append(cols[i], ce)
			}
			f = append(f, "tuple-arg")
		default:
			return ood("not a set, list or tuple")
		}
		if len(flagsFor(spec.V{T: a.T, Elems: cols[i]})) > 0 {
			f = append(f, "dups-or-nulls")
		}
	}
	tt := spec.Tuple(ets...)
	total := 1
	for _, c := range cols {
		total *= len(c)
	}
	var prod []spec.V
	if total > 0 {
		idx := make([]int, len(cols))
		for {
			row := make([]spec.V, len(cols))
			for j, c := range cols {
				row[j] = c[idx[j]]
			}
			prod = append(prod, spec.V{T: tt, St: spec.Known, Elems: row})
			j := len(cols) - 1
			for ; j >= 0; j-- {
				idx[j]++
				if idx[j] < len(cols[j]) {
					break
				}
				idx[j] = 0
			}
			if j < 0 {
				break
			}
		}
	} else {
		f = append(f, "empty-factor")
	}
	if len(args) > 2 {
		f = append(f, "3+args")
	}
	if allSeq {
		return val(spec.V{T: spec.List(tt), St: spec.Known, Elems: prod}, append(f, "list-result")...)
	}
	d, u := dedupe(prod)
	if unsure || u {
		return abstain("members equal by text only")
	}
	return val(spec.V{T: spec.Set(tt), St: spec.Known, Elems: d}, append(f, "set-result")...)
}

// ---------------------------------------------------------------- set algebra

// Descriptions: "Returns the union of all given sets." / "Returns the
// intersection of all given sets." / "Returns the relative complement of the
// two given sets." / "Returns the symmetric difference of the two given sets."
// Doc comments: the sets "must have element types that can all be converted to
// some common type using the standard type unification rules ... The operation
// is performed after type conversion, which may result in some
// previously-distinct values being conflated." Subtract: "the elements from
// the first set that are not present in the second set". Symmetric difference
// of other than two sets: the Description speaks of two sets and the doc
// comment ("in any of the given sets but not multiple") is not what a pairwise
// reading gives for three: abstain.
func refSetOp(op string, args []spec.V) outcome {
	if len(args) == 0 || !allKnown(args) {
		return ood("arity/null")
	}
	if op == "subtract" && len(args) != 2 {
		return ood("arity")
	}
	ts := make([]spec.T, len(args))
	for i, a := range args {
		if a.T.K != spec.KSet {
			return ood("not a set")
		}
		ts[i] = *a.T.E
	}
	// Symmetric difference of more than two sets: the Description speaks of two
	// sets, the doc comment says "in any of the given sets but not multiple"
	// (members of exactly one set), and folding the two-set operation gives
	// the members of an odd number of sets. The two readings agree whenever
	// no member occurs in three or more of the sets; only then does the
	// reference speak (see symdiffAmbiguous below).
	et, st := unify(ts)
	if st == uFail {
		return ood("no common element type")
	}
	if st == uUnsure {
		return abstain("unification not modelled")
	}
	var f []string
	sets := make([][]spec.V, len(args))
	unsure := false
	for i, a := range args {
		var conv []spec.V
		for _, e := range a.Elems {
			ce, ok := convertV(e, et)
			if !ok {
				return abstain("conversion not modelled")
			}
			conv = append(conv, ce)
		}
		d, u := dedupe(conv)
		unsure = unsure || u
		if len(d) < len(a.Elems) {
			f = append(f, "conflated")
		}
		sets[i] = d
		if !ts[i].Equal(et) {
			f = append(f, "unified")
		}
	}
	// any text-only relation between members of different sets makes the
	// outcome depend on the C03 shape: abstain.
	var everything []spec.V
	for _, s := range sets {
		everything = append(everything, s...)
	}
	if unsure || hasTextOnlyTwin(everything) {
		return abstain("members equal by text only")
	}
	in := func(x spec.V, s []spec.V) bool { return memberOf(x, s) != eqNo }
	if op == "symdiff" && len(args) != 2 {
		if len(args) < 2 {
			return abstain("symmetric difference of fewer than two sets")
		}
		for _, x := range everything {
			n := 0
			for _, s := range sets {
				if in(x, s) {
					n++
				}
			}
			if n >= 3 {
				return abstain("symmetric difference of 3+ sets with a member in three of them: the documented readings differ")
			}
		}
	}
	res := sets[0]
	overlap := false
	for _, s := range sets[1:] {
		var next []spec.V
		switch op {
		case "union":
			next = append(next, res...)
			for _, x := range s {
				if !in(x, res) {
					next = append(next, x)
				} else {
					overlap = true
				}
			}
		case "intersection":
			for _, x := range res {
				if in(x, s) {
					next = append(next, x)
					overlap = true
				}
			}
		case "subtract":
			for _, x := range res {
				if !in(x, s) {
					next = append(next, x)
				} else {
					overlap = true
				}
			}
		case "symdiff":
			for _, x := range res {
				if !in(x, s) {
					next = append(next, x)
				} else {
					overlap = true
				}
			}
			for _, x := range s {
				if !in(x, res) {
					next = append(next, x)
				}
			}
		}
		res = next
	}
	if overlap {
		f = append(f, "overlap")
	}
	if len(args) > 2 {
		f = append(f, "3+sets")
	}
	if len(res) == 0 {
		f = append(f, "empty-result")
	}
	return val(setOf(et, res), f...)
}

// Description: "Returns true if the given set contains the given element, or
// false otherwise." An element of another type than the set's element type is
// not an element (see below).
func refSetHasElement(args []spec.V) outcome {
	if !nargs(args, 2) {
		return ood("arity/null")
	}
	s, e := args[0], args[1]
	if s.T.K != spec.KSet {
		return ood("not a set")
	}
	if !s.T.E.Equal(e.T) {
		if s.T.E.HasDynamic() || e.T.HasDynamic() {
			return abstain("element of another type involving a placeholder")
		}
		// A value of another type is not an element of a set whose members all
		// have the element type (the has-element operation answers False for
		// it - property C02 - and the function is described as that operation:
		// "Returns true if the given set contains the given element").
		// In particular the element is NOT converted to the set's element type
		// (the number 1 is not a member of {"1", "2"}).
		return val(spec.KnownBool(false), "element-of-another-type")
	}
	d, unsure := dedupe(s.Elems)
	m := memberOf(e, d)
	if unsure || m == eqByText {
		return abstain("members equal by text only")
	}
	f := flagsFor(s)
	if m == eqYes {
		f = append(f, "member")
	}
	return val(spec.KnownBool(m == eqYes), f...)
}
