package c13

// The value model used by the reference implementations: equality, type
// unification and conversion over value specifications (spec.V). Everything
// here is written from docs/types.md, docs/convert.md and CHANGELOG.md and
// never calls into cty (spec.Num.Float builds its own big.Float).

import (
	"math/big"
	"regexp"
	"sort"
	"strings"

	"verif/harness/model"
	"verif/harness/spec"
)

// eqRes is the outcome of a model equality test.
type eqRes int

const (
	eqNo     eqRes = iota // different values
	eqYes                 // identical values
	eqByText              // equal only by the documented text-based number equality (CHANGELOG 1.10.0), numerically different
)

// eqV is documented value equality over wholly-known specs: same type and the
// same value; null equals only null; numbers equal when numerically identical
// or when their canonical decimal text is identical; strings after NFC; sets by
// mutual inclusion.
func eqV(a, b spec.V) eqRes {
	if !a.T.Equal(b.T) {
		return eqNo
	}
	if a.St == spec.Null || b.St == spec.Null {
		if a.St == spec.Null && b.St == spec.Null {
			return eqYes
		}
		return eqNo
	}
	switch a.T.K {
	case spec.KBool:
		if a.B == b.B {
			return eqYes
		}
		return eqNo
	case spec.KNumber:
		x, y := a.N.Float(), b.N.Float()
		if model.NumEqExact(x, y) {
			return eqYes
		}
		if model.NumEqDoc(x, y) {
			return eqByText
		}
		return eqNo
	case spec.KString:
		if spec.NFC(a.S) == spec.NFC(b.S) {
			return eqYes
		}
		return eqNo
	case spec.KList, spec.KTuple:
		if len(a.Elems) != len(b.Elems) {
			return eqNo
		}
		r := eqYes
		for i := range a.Elems {
			switch eqV(a.Elems[i], b.Elems[i]) {
			case eqNo:
				return eqNo
			case eqByText:
				r = eqByText
			}
		}
		return r
	case spec.KMap, spec.KObject:
		if len(a.Elems) != len(b.Elems) {
			return eqNo
		}
		bm := map[string]spec.V{}
		for i, k := range b.Keys {
			bm[spec.NFC(k)] = b.Elems[i]
		}
		r := eqYes
		for i, k := range a.Keys {
			bv, ok := bm[spec.NFC(k)]
			if !ok {
				return eqNo
			}
			switch eqV(a.Elems[i], bv) {
			case eqNo:
				return eqNo
			case eqByText:
				r = eqByText
			}
		}
		return r
	case spec.KSet:
		r := eqYes
		for _, x := range a.Elems {
			e := memberOf(x, b.Elems)
			if e == eqNo {
				return eqNo
			}
			if e == eqByText {
				r = eqByText
			}
		}
		for _, y := range b.Elems {
			e := memberOf(y, a.Elems)
			if e == eqNo {
				return eqNo
			}
			if e == eqByText {
				r = eqByText
			}
		}
		return r
	}
	return eqNo
}

// memberOf reports whether x equals one of ys: eqYes when an identical member
// exists, eqByText when only text-equal members exist.
func memberOf(x spec.V, ys []spec.V) eqRes {
	r := eqNo
	for _, y := range ys {
		switch eqV(x, y) {
		case eqYes:
			return eqYes
		case eqByText:
			r = eqByText
		}
	}
	return r
}

// dedupe keeps the first of each class of equal values. unsure is set when two
// values were equal only by text (the documented number equality and the
// hash-based set implementation are known to disagree there; that shape is
// owned by property C03, so set-valued references abstain).
func dedupe(vs []spec.V) (out []spec.V, unsure bool) {
	for _, v := range vs {
		switch memberOf(v, out) {
		case eqNo:
			out = append(out, v)
		case eqByText:
			unsure = true
		}
	}
	return
}

// hasTextOnlyTwin reports whether two values among vs are equal by text only.
func hasTextOnlyTwin(vs []spec.V) bool {
	for i := range vs {
		for j := i + 1; j < len(vs); j++ {
			if eqV(vs[i], vs[j]) == eqByText {
				return true
			}
		}
	}
	return false
}

// ---------------------------------------------------------------- numbers

// wholeNum returns the integer value of a finite whole number.
func wholeNum(n *spec.Num) (*big.Int, bool) {
	if n == nil || n.IsInf() {
		return nil, false
	}
	f := n.Float()
	if !f.IsInt() {
		return nil, false
	}
	i, _ := f.Int(nil)
	return i, true
}

var (
	minInt64 = big.NewInt(-1 << 63)
	maxInt64 = new(big.Int).SetUint64(1<<63 - 1)
)

// int64Num returns the value of a whole number within the int64 range (the
// documented domain of count-like and index-like arguments: what gocty accepts
// for a Go int).
func int64Num(n *spec.Num) (*big.Int, bool) {
	i, ok := wholeNum(n)
	if !ok || i.Cmp(minInt64) < 0 || i.Cmp(maxInt64) > 0 {
		return nil, false
	}
	return i, true
}

func ratOf(n *spec.Num) *big.Rat {
	r, _ := n.Float().Rat(nil)
	return r
}

var simpleDecimal = regexp.MustCompile(`^-?(0|[1-9][0-9]{0,17})(\.[0-9]{1,6})?$`)

// numToStr is the documented string form of a number (docs/convert.md: "the
// number 5 can be converted to a string as "5""): decimal digits for integers;
// for fractions only the unambiguous case of a short decimal text that is
// exactly representable in binary (0.5, -2.25, ...). Everything else: not sure.
func numToStr(n *spec.Num) (string, bool) {
	if n.IsInf() {
		return "", false
	}
	f := n.Float()
	if f.Sign() == 0 {
		if f.Signbit() {
			return "", false
		}
		return "0", true
	}
	if f.IsInt() {
		// Whole numbers: decimal digits, as long as the number's precision
		// leaves no doubt about which integer is meant. A float64-derived or
		// low-precision whole number beyond 2^53 has a shortest decimal text
		// that denotes another integer (a conversion matter, not this
		// property's): not sure.
		i, _ := f.Int(nil)
		small := i.BitLen() <= 53
		switch n.Route {
		case "int", "uint", "zero":
		case "parse":
			if i.BitLen() > 300 {
				return "", false
			}
		case "float":
			if !small {
				return "", false
			}
		case "big":
			if !small || n.Prec < 64 {
				return "", false
			}
		default:
			return "", false
		}
		return i.String(), true
	}
	if (n.Route == "parse" || n.Route == "float") && simpleDecimal.MatchString(n.Text) {
		// exactly representable: the parsed text denotes the stored value
		r, ok := new(big.Rat).SetString(n.Text)
		if ok && r.Cmp(ratOf(n)) == 0 {
			s := n.Text
			if strings.Contains(s, ".") {
				s = strings.TrimRight(s, "0")
				s = strings.TrimSuffix(s, ".")
			}
			return s, true
		}
	}
	return "", false
}

// ---------------------------------------------------------------- unification and conversion

const (
	uOK = iota
	uFail
	uUnsure
)

// unify is a deliberately partial model of "standard type unification"
// (docs/convert.md): identical types unify to themselves; primitive types that
// include string unify to string (number and bool convert safely to string);
// collections of one kind unify element-wise. Primitive vs compound never
// unifies (no conversion exists in either direction). Everything else
// (dynamic, number+bool, tuple/object shapes, mixed collection kinds) is left
// undecided and makes the reference abstain.
func unify(ts []spec.T) (spec.T, int) {
	if len(ts) == 0 {
		return spec.T{}, uUnsure
	}
	same := true
	for _, t := range ts[1:] {
		if !t.Equal(ts[0]) {
			same = false
		}
	}
	if same {
		return ts[0], uOK
	}
	allPrim, anyPrim, anyDyn := true, false, false
	for _, t := range ts {
		if t.K == spec.KDynamic || t.HasDynamic() {
			anyDyn = true
		}
		if t.IsPrim() {
			anyPrim = true
		} else {
			allPrim = false
		}
	}
	if anyDyn {
		return spec.T{}, uUnsure
	}
	if allPrim {
		for _, t := range ts {
			if t.K == spec.KString {
				return spec.String, uOK
			}
		}
		return spec.T{}, uUnsure
	}
	if anyPrim {
		for _, t := range ts {
			if t.K == spec.KCapsule {
				return spec.T{}, uUnsure
			}
		}
		return spec.T{}, uFail
	}
	k := ts[0].K
	for _, t := range ts {
		if t.K != k {
			return spec.T{}, uUnsure
		}
	}
	if k == spec.KList || k == spec.KSet || k == spec.KMap {
		es := make([]spec.T, len(ts))
		for i, t := range ts {
			es[i] = *t.E
		}
		e, st := unify(es)
		if st != uOK {
			return spec.T{}, st
		}
		return spec.T{K: k, E: &e}, uOK
	}
	return spec.T{}, uUnsure
}

// convertV converts a wholly-known value to the target type for the
// conversions the model is sure about.
func convertV(v spec.V, target spec.T) (spec.V, bool) {
	if v.T.Equal(target) {
		return v, true
	}
	if v.St == spec.Null {
		return spec.NullOf(target), true
	}
	switch {
	case target.K == spec.KString && v.T.K == spec.KNumber:
		s, ok := numToStr(v.N)
		if !ok {
			return spec.V{}, false
		}
		return spec.KnownStr(s), true
	case target.K == spec.KString && v.T.K == spec.KBool:
		if v.B {
			return spec.KnownStr("true"), true
		}
		return spec.KnownStr("false"), true
	case v.T.K == target.K && (target.K == spec.KList || target.K == spec.KSet || target.K == spec.KMap):
		out := spec.V{T: target, St: spec.Known}
		out.Keys = append([]string(nil), v.Keys...)
		for _, e := range v.Elems {
			ce, ok := convertV(e, *target.E)
			if !ok {
				return spec.V{}, false
			}
			out.Elems = append(out.Elems, ce)
		}
		return out, true
	}
	return spec.V{}, false
}

// ---------------------------------------------------------------- small helpers over specs

func known(v spec.V) bool { return v.St == spec.Known }

func isSeq(t spec.T) bool { return t.K == spec.KList || t.K == spec.KTuple }

func numV(i int) spec.V { return spec.KnownNum(spec.NInt(int64(i))) }

func listOf(et spec.T, elems []spec.V) spec.V {
	return spec.V{T: spec.List(et), St: spec.Known, Elems: elems}
}

func setOf(et spec.T, elems []spec.V) spec.V {
	return spec.V{T: spec.Set(et), St: spec.Known, Elems: elems}
}

func tupleOf(elems []spec.V) spec.V {
	ts := make([]spec.T, len(elems))
	for i, e := range elems {
		ts[i] = e.T
	}
	return spec.V{T: spec.Tuple(ts...), St: spec.Known, Elems: elems}
}

func mapOf(et spec.T, keys []string, elems []spec.V) spec.V {
	return spec.V{T: spec.Map(et), St: spec.Known, Keys: keys, Elems: elems}
}

func objectOf(keys []string, elems []spec.V) spec.V {
	as := make([]spec.Attr, len(keys))
	for i, k := range keys {
		as[i] = spec.Attr{Name: k, T: elems[i].T}
	}
	return spec.V{T: spec.Object(as...), St: spec.Known, Keys: keys, Elems: elems}
}

// sortedByKey returns the (normalised) keys of a map/object spec in
// lexicographic (byte) order together with the aligned members.
func sortedByKey(v spec.V) ([]string, []spec.V) {
	type kv struct {
		k string
		v spec.V
	}
	kvs := make([]kv, len(v.Keys))
	for i, k := range v.Keys {
		kvs[i] = kv{spec.NFC(k), v.Elems[i]}
	}
	sort.Slice(kvs, func(i, j int) bool { return kvs[i].k < kvs[j].k })
	ks := make([]string, len(kvs))
	vs := make([]spec.V, len(kvs))
	for i, e := range kvs {
		ks[i], vs[i] = e.k, e.v
	}
	return ks, vs
}

func hasSetInside(t spec.T) bool {
	switch t.K {
	case spec.KSet:
		return true
	case spec.KList, spec.KMap:
		return hasSetInside(*t.E)
	case spec.KTuple:
		for _, e := range t.Elems {
			if hasSetInside(e) {
				return true
			}
		}
	case spec.KObject:
		for _, a := range t.Attrs {
			if hasSetInside(a.T) {
				return true
			}
		}
	}
	return false
}
