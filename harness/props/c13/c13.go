// Package c13: collection, set and sequence functions match reference semantics.
//
// Every facet draws a function name and a wholly-known, unmarked argument list
// (as value specifications), evaluates the independent reference in ref.go on
// the specifications, calls the library function on the built cty values and
// compares: reference "in domain" => the call succeeds with exactly the
// reference value and the documented result type; reference "out of domain" or
// "abstains" => only "no Go panic, no function.PanicError" is asserted.
package c13

import (
	"errors"
	"fmt"
	"math/big"
	"runtime/debug"

	"github.com/zclconf/go-cty/cty"
	"github.com/zclconf/go-cty/cty/function"
	"github.com/zclconf/go-cty/cty/function/stdlib"

	"verif/harness/facet"
	"verif/harness/spec"
	"verif/harness/wf"
)

// Call is the facet input: a function name and its argument specifications.
type Call struct {
	Fn   string   `json:"fn"`
	Args []spec.V `json:"args"`
}

var funcs = map[string]function.Function{
	"length":                 stdlib.LengthFunc,
	"element":                stdlib.ElementFunc,
	"index":                  stdlib.IndexFunc,
	"hasindex":               stdlib.HasIndexFunc,
	"lookup":                 stdlib.LookupFunc,
	"contains":               stdlib.ContainsFunc,
	"keys":                   stdlib.KeysFunc,
	"values":                 stdlib.ValuesFunc,
	"zipmap":                 stdlib.ZipmapFunc,
	"merge":                  stdlib.MergeFunc,
	"concat":                 stdlib.ConcatFunc,
	"flatten":                stdlib.FlattenFunc,
	"reverselist":            stdlib.ReverseListFunc,
	"distinct":               stdlib.DistinctFunc,
	"compact":                stdlib.CompactFunc,
	"slice":                  stdlib.SliceFunc,
	"chunklist":              stdlib.ChunklistFunc,
	"range":                  stdlib.RangeFunc,
	"sort":                   stdlib.SortFunc,
	"coalesce":               stdlib.CoalesceFunc,
	"coalescelist":           stdlib.CoalesceListFunc,
	"setproduct":             stdlib.SetProductFunc,
	"setunion":               stdlib.SetUnionFunc,
	"setintersection":        stdlib.SetIntersectionFunc,
	"setsubtract":            stdlib.SetSubtractFunc,
	"setsymmetricdifference": stdlib.SetSymmetricDifferenceFunc,
	"sethaselement":          stdlib.SetHasElementFunc,
}

// safeCall calls the function, turning a Go panic into a reported string.
func safeCall(fn function.Function, args []cty.Value) (ret cty.Value, err error, panicked string) {
	defer func() {
		if r := recover(); r != nil {
			panicked = fmt.Sprintf("%v\n%s", r, debug.Stack())
		}
	}()
	ret, err = fn.Call(args)
	return
}

func argsString(in Call) string {
	s := in.Fn + "("
	for i, a := range in.Args {
		if i > 0 {
			s += ", "
		}
		v, err := spec.Build(a)
		if err != nil {
			s += "<unbuildable>"
		} else {
			s += fmt.Sprintf("%#v", v)
		}
	}
	return s + ")"
}

// check is the oracle shared by all facets.
func check(c *facet.Ctx, in Call, restype bool) error {
	fn, ok := funcs[in.Fn]
	ref := refs[in.Fn]
	if !ok || ref == nil {
		return facet.Failf("harness", "unknown function %q", in.Fn)
	}
	c.Label("fn=" + in.Fn)
	args := make([]cty.Value, len(in.Args))
	for i, a := range in.Args {
		if !a.WhollyKnown() || a.HasMarks() {
			c.Skip() // unknowns and marks belong to C11/C12/C04
			return nil
		}
		v, err := spec.Build(a)
		if err != nil {
			c.Skip() // generator produced an inconsistent spec; nothing to assert
			c.Label("unbuildable")
			return nil
		}
		args[i] = v
	}
	o := ref(in.Args)
	got, err, panicked := safeCall(fn, args)
	if panicked != "" {
		return facet.Failf("go-panic", "%s panicked: %s", argsString(in), panicked).With("fn", in.Fn)
	}
	var pe function.PanicError
	if err != nil && errors.As(err, &pe) {
		return facet.Failf("panic-error", "%s returned function.PanicError: %v", argsString(in), pe.Value).With("fn", in.Fn)
	}
	// The argument values are used again after the call: simple functions of
	// each of them (keys / values / length) must still return what the
	// reference says about the argument as it was specified.
	if f := followUps(c, in, args); f != nil {
		return f
	}
	switch o.kind {
	case oOOD:
		c.Label("out_of_domain")
		if !restype {
			c.Label(in.Fn + ":ood")
			c.Label("ood:" + o.why)
		}
		if err == nil {
			c.Label("ood_succeeded")
			if f := wf.Check(got); f != nil {
				return f
			}
		}
		return nil
	case oAbstain:
		c.Label("ref_abstains")
		if !restype {
			c.Label(in.Fn + ":abstain")
			c.Label("abstain:" + o.why)
		}
		if err == nil {
			if f := wf.Check(got); f != nil {
				return f
			}
		}
		return nil
	}
	c.Label("in_domain")
	if !restype {
		c.Label(in.Fn + ":in")
		for _, f := range o.flags {
			c.Label("flag:" + f)
		}
	}
	if err != nil {
		return facet.Failf("in-domain-error", "%s failed inside its documented domain: %v; reference result %s", argsString(in), err, wantString(o.want)).With("fn", in.Fn)
	}
	if f := wf.Check(got); f != nil {
		return f
	}
	if gt := spec.FromCty(got.Type()); !gt.Equal(o.want.T) && !(o.unordered && gt.K == spec.KTuple && o.want.T.K == spec.KTuple && len(gt.Elems) == len(o.want.T.Elems)) {
		// (a tuple built in a set's iteration order: its element types are
		// compared member by member in the multiset comparison below)
		return facet.Failf("result-type", "%s returned type %s, documented result type %s (value %#v)", argsString(in), spec.FromCty(got.Type()), o.want.T, got).With("fn", in.Fn)
	}
	if got.ContainsMarked() {
		return facet.Failf("result-marked", "%s returned a marked value from unmarked arguments: %#v", argsString(in), got).With("fn", in.Fn)
	}
	if !got.IsWhollyKnown() {
		return facet.Failf("result-unknown", "%s returned a not wholly known value from wholly known arguments: %#v", argsString(in), got).With("fn", in.Fn)
	}
	m := matcher{tol: o.tol, numTol: o.numTol}
	var why string
	if o.unordered {
		why = m.multiset(got, o.want.Elems, "")
	} else {
		why = m.match(got, o.want, "")
	}
	if why != "" {
		return facet.Failf("result-value", "%s = %#v, reference %s: %s", argsString(in), got, wantString(o.want), why).With("fn", in.Fn)
	}
	// The reference value, built through the public constructors, must be
	// RawEquals to the result. Sets are exempt (two sets with the same members
	// need not be RawEquals when members tie in the iteration order: that shape
	// is owned by C03) and so are tolerance comparisons.
	if !o.unordered && !o.numTol && !o.skipRaw {
		if wv, err := spec.Build(o.want); err == nil {
			if !got.RawEquals(wv) {
				if hasSetInside(o.want.T) {
					c.Label("rawequals_differs_with_sets")
				} else {
					return facet.Failf("result-rawequals", "%s = %#v is not RawEquals to the reference value %#v", argsString(in), got, wv).With("fn", in.Fn)
				}
			}
		} else {
			c.Label("reference_unbuildable")
		}
	}
	nonEmpty := in.Fn == "range" && len(o.want.Elems) > 0 || in.Fn == "coalesce" && len(in.Args) > 1
	emptyInvolved := len(o.want.Elems) == 0 && !o.want.T.IsPrim()
	mixed := false
	for i, a := range in.Args {
		if len(a.Elems) > 0 {
			nonEmpty = true
		}
		if !a.T.IsPrim() && len(a.Elems) == 0 {
			emptyInvolved = true
		}
		if i > 0 && !a.T.IsPrim() && !in.Args[0].T.IsPrim() && a.T.K != in.Args[0].T.K {
			mixed = true
		}
	}
	if restype {
		if emptyInvolved {
			c.Label("empty-collection")
		}
		if mixed {
			c.Label("mixed-forms")
		}
		if emptyInvolved || mixed || o.want.T.K == spec.KTuple || o.want.T.K == spec.KObject {
			c.NonTrivial()
		}
	} else if nonEmpty && len(o.flags) > 0 {
		c.NonTrivial()
	}
	return nil
}

func followUps(c *facet.Ctx, in Call, used []cty.Value) *facet.Failure {
	for i, a := range in.Args {
		if a.St != spec.Known {
			continue
		}
		var probes []string
		switch a.T.K {
		case spec.KObject, spec.KMap:
			probes = []string{"keys", "values", "length"}
		case spec.KList, spec.KTuple, spec.KSet:
			probes = []string{"length"}
		}
		for _, p := range probes {
			o := refs[p]([]spec.V{a})
			if o.kind != oValue || o.unordered || o.numTol {
				continue
			}
			got, err, panicked := safeCall(funcs[p], []cty.Value{used[i]})
			what := fmt.Sprintf("after %s, %s of argument %d", argsString(in), p, i)
			if panicked != "" {
				return facet.Failf("followup-panic", "%s panicked: %s", what, panicked).With("fn", in.Fn)
			}
			if err != nil {
				return facet.Failf("followup-error", "%s failed: %v (reference %s)", what, err, wantString(o.want)).With("fn", in.Fn)
			}
			if why := (matcher{}).match(got, o.want, ""); why != "" {
				return facet.Failf("followup-value", "%s = %#v, reference %s: %s", what, got, wantString(o.want), why).With("fn", in.Fn)
			}
			c.Label("followup:" + p)
		}
	}
	return nil
}

func wantString(v spec.V) string {
	b, err := spec.Build(v)
	if err != nil {
		return fmt.Sprintf("<spec of type %s>", v.T)
	}
	return fmt.Sprintf("%#v", b)
}

// matcher compares a library result with a reference specification through
// public accessors only. An empty string means "same".
type matcher struct {
	numTol bool
	tol    *big.Rat
}

func (m matcher) match(got cty.Value, want spec.V, path string) string {
	if !spec.FromCty(got.Type()).Equal(want.T) {
		return fmt.Sprintf("at %q: type %s, reference %s", path, spec.FromCty(got.Type()), want.T)
	}
	if want.St == spec.Null || got.IsNull() {
		if want.St == spec.Null && got.IsNull() {
			return ""
		}
		return fmt.Sprintf("at %q: null=%t, reference null=%t", path, got.IsNull(), want.St == spec.Null)
	}
	if !got.IsKnown() {
		return fmt.Sprintf("at %q: unknown", path)
	}
	switch want.T.K {
	case spec.KBool:
		if got.True() != want.B {
			return fmt.Sprintf("at %q: %t, reference %t", path, got.True(), want.B)
		}
	case spec.KNumber:
		g, w := got.AsBigFloat(), want.N.Float()
		if g.IsInf() || w.IsInf() {
			if g.IsInf() && w.IsInf() && g.Sign() == w.Sign() {
				return ""
			}
			return fmt.Sprintf("at %q: %s, reference %s", path, g.String(), w.String())
		}
		if m.numTol {
			gr, _ := g.Rat(nil)
			wr, _ := w.Rat(nil)
			d := new(big.Rat).Sub(gr, wr)
			if d.Abs(d).Cmp(m.tol) > 0 {
				return fmt.Sprintf("at %q: %s, reference %s (beyond tolerance)", path, g.Text('g', 40), w.Text('g', 40))
			}
			return ""
		}
		if g.Cmp(w) != 0 {
			return fmt.Sprintf("at %q: %s, reference %s", path, g.Text('g', 60), w.Text('g', 60))
		}
	case spec.KString:
		if got.AsString() != spec.NFC(want.S) {
			return fmt.Sprintf("at %q: %q, reference %q", path, got.AsString(), spec.NFC(want.S))
		}
	case spec.KList, spec.KTuple:
		if got.LengthInt() != len(want.Elems) {
			return fmt.Sprintf("at %q: length %d, reference %d", path, got.LengthInt(), len(want.Elems))
		}
		i := 0
		for it := got.ElementIterator(); it.Next(); i++ {
			_, e := it.Element()
			if i >= len(want.Elems) {
				return fmt.Sprintf("at %q: iterator yields more than LengthInt", path)
			}
			if r := m.match(e, want.Elems[i], fmt.Sprintf("%s[%d]", path, i)); r != "" {
				return r
			}
		}
		if i != len(want.Elems) {
			return fmt.Sprintf("at %q: iterator yielded %d members, reference %d", path, i, len(want.Elems))
		}
	case spec.KMap, spec.KObject:
		if got.LengthInt() != len(want.Elems) {
			return fmt.Sprintf("at %q: size %d, reference %d", path, got.LengthInt(), len(want.Elems))
		}
		gm := map[string]cty.Value{}
		for it := got.ElementIterator(); it.Next(); {
			k, e := it.Element()
			gm[k.AsString()] = e
		}
		for i, k := range want.Keys {
			e, ok := gm[spec.NFC(k)]
			if !ok {
				return fmt.Sprintf("at %q: key %q missing", path, spec.NFC(k))
			}
			if r := m.match(e, want.Elems[i], fmt.Sprintf("%s[%q]", path, k)); r != "" {
				return r
			}
		}
	case spec.KSet:
		return m.multiset(got, want.Elems, path)
	default:
		return fmt.Sprintf("at %q: unsupported kind %s in reference", path, want.T.K)
	}
	return ""
}

// multiset: the members of got (any iteration order) are exactly the wanted
// members, one to one.
func (m matcher) multiset(got cty.Value, want []spec.V, path string) string {
	var gs []cty.Value
	for it := got.ElementIterator(); it.Next(); {
		_, e := it.Element()
		gs = append(gs, e)
	}
	if len(gs) != len(want) || got.LengthInt() != len(want) {
		return fmt.Sprintf("at %q: %d members (LengthInt %d), reference %d", path, len(gs), got.LengthInt(), len(want))
	}
	used := make([]bool, len(gs))
outer:
	for i, w := range want {
		for j, g := range gs {
			if !used[j] && m.match(g, w, path) == "" {
				used[j] = true
				continue outer
			}
		}
		return fmt.Sprintf("at %q: reference member %d (%s) has no counterpart", path, i, wantString(w))
	}
	return ""
}

const ruleRef = "function drawn uniformly from the group, arguments from its in-domain generator (plus out-of-domain variants); non-trivial = reference in domain, a non-empty collection (or a non-empty range result, or two or more coalesce arguments) is involved, and the case carries at least one interest flag (boundary/wrapping/negative index, size or step, duplicates, null members, structural form, overlap, unified element types, several arguments ...); distinct = hash of the call JSON. Count-like arguments beyond the int range are out of domain."

type group struct {
	name string
	fns  []string
}

var groups = []group{
	{"ref/index-family", []string{"length", "element", "index", "hasindex", "lookup", "contains"}},
	{"ref/keys-values-zipmap-merge", []string{"keys", "values", "zipmap", "merge"}},
	{"ref/concat-flatten-reverse-distinct-compact", []string{"concat", "flatten", "reverselist", "distinct", "compact"}},
	{"ref/slice-chunklist-range", []string{"slice", "chunklist", "range"}},
	{"ref/sort-coalesce-coalescelist", []string{"sort", "coalesce", "coalescelist"}},
	{"ref/setproduct", []string{"setproduct"}},
	{"ref/setalgebra", []string{"setunion", "setintersection", "setsubtract", "setsymmetricdifference", "sethaselement"}},
}

var allFns = func() []string {
	var out []string
	for _, g := range groups {
		out = append(out, g.fns...)
	}
	return out
}()

func init() {
	for _, g := range groups {
		g := g
		facet.Register(facet.F[Call]{
			Prop: "C13", Name: g.name, Rule: ruleRef,
			Quick: 3000 * len(g.fns) * 4 / 3, Thorough: 25000 * len(g.fns), Shards: 4,
			Gen:   genGroup(g.fns, false),
			Check: func(c *facet.Ctx, in Call) error { return check(c, in, false) },
		})
	}
	facet.Register(facet.F[Call]{
		Prop: "C13", Name: "restype/all",
		Rule:  "function drawn uniformly from all 27, arguments from the in-domain generators biased to empty collections and to mixed list/tuple and map/object forms; non-trivial = reference in domain and (an empty collection is involved, or forms are mixed, or the documented result is structural); distinct = hash of the call JSON",
		Quick: 40000, Thorough: 250000, Shards: 4,
		Gen:   genGroup(allFns, true),
		Check: func(c *facet.Ctx, in Call) error { return check(c, in, true) },
	})
}
