// Package c20: values and types are immutable and safe to share.
//
// history/*: a pool of live values (and of mutable ValueSets) evolves through
// generated steps: operations deriving new values, accessor calls whose
// returned Go data is then mutated, constructor calls whose Go inputs are then
// mutated, ValueSet copy/add/remove/algebra interleavings. Invariant after
// every step: the deep fingerprint (cty.VerifFingerprint, behind the "verif"
// build tag) and the GoString of every live value equal those recorded when it
// was created, and every live ValueSet holds exactly what its model says.
package c20

import (
	"fmt"
	"math/big"
	"sort"
	"strings"

	"github.com/zclconf/go-cty/cty"
	"github.com/zclconf/go-cty/cty/convert"
	"github.com/zclconf/go-cty/cty/function"
	"github.com/zclconf/go-cty/cty/function/stdlib"
	"pgregory.net/rapid"

	"verif/harness/facet"
	"verif/harness/gen"
	"verif/harness/ops"
	"verif/harness/spec"
)

// Step is one history step.
type Step struct {
	K    string `json:"k"` // op | conv | refine | acc | ctor | vs
	Op   string `json:"op,omitempty"`
	A    int    `json:"a,omitempty"`
	B    int    `json:"b,omitempty"`
	C    int    `json:"c,omitempty"`
	N    int    `json:"n,omitempty"`
	Attr string `json:"attr,omitempty"`
}

// Hist is the input of the history facets.
type Hist struct {
	Pool  []spec.V `json:"pool"`
	Sets  [][]int  `json:"sets,omitempty"`  // initial ValueSets as indices into the element pool
	Kinds []int    `json:"kinds,omitempty"` // element kind of each initial ValueSet: 0 numbers, 1 capsules without a hash key
	Steps []Step   `json:"steps"`
}

type live struct {
	v      cty.Value
	fp, gs string
	origin string
}

type vset struct {
	s     cty.ValueSet
	model []string // sorted fingerprints of the members
	kind  int      // 0 numbers, 1 capsules
}

type state struct {
	lives []live
	sets  []*vset
	log   []string
	flags map[string]bool
	// fnCalls counts the standard-library calls that succeeded.
	fnCalls int
	// pending is a failure found inside a step (reported by the next invariant).
	pending *facet.Failure
	// convs holds conversions looked up once for the dynamic source type and
	// applied to every later value converted to the same target.
	convs map[string]convert.Conversion
}

func fingerprint(v cty.Value) string { return cty.VerifFingerprint(v) }

func (st *state) push(v cty.Value, origin string) {
	st.lives = append(st.lives, live{v: v, fp: fingerprint(v), gs: fmt.Sprintf("%#v", v), origin: origin})
}

func setPrints(s cty.ValueSet) []string {
	vals := s.Values()
	out := make([]string, len(vals))
	for i, v := range vals {
		out[i] = fingerprint(v)
	}
	sort.Strings(out)
	return out
}

func (st *state) pushSet(s cty.ValueSet, kind int) {
	st.sets = append(st.sets, &vset{s: s, model: setPrints(s), kind: kind})
}

func eqStrings(a, b []string) bool {
	if len(a) != len(b) {
		return false
	}
	for i := range a {
		if a[i] != b[i] {
			return false
		}
	}
	return true
}

// invariant checks every live value and every live set against its record.
func (st *state) invariant(step int) *facet.Failure {
	if st.pending != nil {
		return st.pending
	}
	for i, l := range st.lives {
		if got := fingerprint(l.v); got != l.fp {
			return facet.Failf("value-changed", "after step %d (%s): live value #%d (created by %s) changed:\n  was %s\n  now %s\nhistory: %s",
				step, st.last(), i, l.origin, l.fp, got, strings.Join(st.log, " ; ")).With("origin", l.origin).With("step", st.lastKind())
		}
	}
	for i, s := range st.sets {
		if got := setPrints(s.s); !eqStrings(got, s.model) {
			return facet.Failf("set-changed", "after step %d (%s): ValueSet #%d no longer holds what was put in it:\n  model %v\n  now   %v\nhistory: %s",
				step, st.last(), i, s.model, got, strings.Join(st.log, " ; ")).With("step", st.lastKind())
		}
	}
	return nil
}

func (st *state) last() string {
	if len(st.log) == 0 {
		return "start"
	}
	return st.log[len(st.log)-1]
}

func (st *state) lastKind() string {
	l := st.last()
	if i := strings.IndexByte(l, ' '); i > 0 {
		return l[:i]
	}
	return l
}

// guarded runs f and reports whether it panicked.
func guarded(f func()) (panicked bool) {
	defer func() {
		if r := recover(); r != nil {
			panicked = true
		}
	}()
	f()
	return false
}

// ---------------------------------------------------------------- element pool for ValueSets

// setElems are the candidate members of the number-typed ValueSets: small
// integers through several construction routes (equal members must coalesce)
// and unknown numbers with distinct refinements (all unknowns share one hash
// bucket and never coalesce, so that bucket grows to 3+ members quickly).
var setElems = func() []spec.V {
	var out []spec.V
	for i := 0; i < 4; i++ {
		out = append(out, spec.KnownNum(spec.NInt(int64(i))))
	}
	out = append(out, spec.KnownNum(spec.NFloat(1)), spec.KnownNum(spec.NParse("2")))
	mk := func(r spec.Ref) spec.V { u := spec.UnknownOf(spec.Number); u.Ref = &r; return u }
	n := func(i int64) *spec.Num { x := spec.NInt(i); return &x }
	out = append(out,
		spec.UnknownOf(spec.Number),
		mk(spec.Ref{Null: "notnull"}),
		mk(spec.Ref{Lo: n(0), LoInc: true}),
		mk(spec.Ref{Hi: n(10), HiInc: true}),
		mk(spec.Ref{Lo: n(1), LoInc: true, Hi: n(5), HiInc: false}),
		mk(spec.Ref{Null: "notnull", Lo: n(7)}),
	)
	return out
}()

var builtElems [2][]cty.Value

// elems returns the candidate members for sets of the given kind. Kind 1 is
// values of a capsule type without a hash key: they all share one hash bucket
// and are equal by pointer identity only, so Remove really removes from the
// middle of a multi-member bucket.
func elems(kind int) []cty.Value {
	if builtElems[0] == nil {
		for _, e := range setElems {
			builtElems[0] = append(builtElems[0], spec.MustBuild(e))
		}
		for i := 0; i < 8; i++ {
			builtElems[1] = append(builtElems[1], spec.MustBuild(spec.V{T: spec.CapsuleT("A"), St: spec.Known, Cap: i}))
		}
	}
	return builtElems[kind%2]
}

func elemType(kind int) cty.Type {
	if kind%2 == 1 {
		return spec.CapA
	}
	return cty.Number
}

// ---------------------------------------------------------------- interpreter

func runHistory(c *facet.Ctx, h Hist) error {
	st := &state{flags: map[string]bool{}}
	for i, p := range h.Pool {
		v, err := spec.Build(p)
		if err != nil {
			return facet.Failf("harness-build", "pool value %d: %v", i, err)
		}
		st.push(v, "pool")
	}
	for si, idxs := range h.Sets {
		kind := 0
		if si < len(h.Kinds) {
			kind = h.Kinds[si] % 2
		}
		s := cty.NewValueSet(elemType(kind))
		for _, i := range idxs {
			s.Add(elems(kind)[mod(i, len(elems(kind)))])
		}
		st.pushSet(s, kind)
	}
	if f := st.invariant(-1); f != nil {
		return f
	}
	for i, s := range h.Steps {
		st.step(s)
		if f := st.invariant(i); f != nil {
			return f
		}
	}
	for k := range st.flags {
		c.Label(k)
	}
	if st.fnCalls >= 2 {
		c.NonTrivial()
	}
	if st.flags["mutated-accessor-result"] || st.flags["mutated-ctor-input"] || st.flags["copy-then-add-big-bucket"] || st.flags["marked-derived"] {
		c.NonTrivial()
	}
	return nil
}

func mod(i, n int) int {
	if n == 0 {
		return 0
	}
	i %= n
	if i < 0 {
		i += n
	}
	return i
}

func (st *state) pick(i int) cty.Value { return st.lives[mod(i, len(st.lives))].v }

func (st *state) step(s Step) {
	if len(st.lives) == 0 {
		st.push(cty.Zero, "seed")
	}
	switch s.K {
	case "op":
		args := []cty.Value{st.pick(s.A)}
		if ops.Arity(s.Op) == 2 {
			args = append(args, st.pick(s.B))
		}
		st.log = append(st.log, fmt.Sprintf("op %s(#%d,#%d)", s.Op, mod(s.A, len(st.lives)), mod(s.B, len(st.lives))))
		out := ops.Apply(s.Op, args, s.Attr)
		if !out.Panicked {
			st.push(out.Val, "op:"+s.Op)
			st.flags["op-derived"] = true
		}
	case "fn":
		// a standard-library call on live values (its result becomes a live
		// value, so that values with library-made types feed later calls);
		// the type-only prediction is asked for as well
		if s.Op == "unknownof" || s.Op == "nullof" {
			// a placeholder of the SAME type object as a live value
			v := st.pick(s.A)
			st.log = append(st.log, fmt.Sprintf("%s #%d", s.Op, mod(s.A, len(st.lives))))
			if s.Op == "unknownof" {
				st.push(cty.UnknownVal(v.Type()), s.Op)
			} else {
				st.push(cty.NullVal(v.Type()), s.Op)
			}
			return
		}
		f, ok := histFns[s.Op]
		if !ok {
			return
		}
		args := []cty.Value{st.pick(s.A)}
		switch s.Op {
		case "slice":
			args = append(args, cty.NumberIntVal(int64(s.N%3)), cty.NumberIntVal(int64(s.N%3+s.C%3)))
		case "chunklist", "element":
			args = append(args, cty.NumberIntVal(int64(s.N%3+1)))
		case "lookup":
			args = append(args, cty.StringVal(s.Attr), st.pick(s.B))
		case "concat", "merge", "zipmap", "setunion", "coalescelist":
			args = append(args, st.pick(s.B))
			if s.C%3 == 0 {
				args = append(args, st.pick(s.C))
			}
		}
		for _, a := range args {
			if u, _ := a.Unmark(); u.IsKnown() && !u.IsNull() && u.CanIterateElements() && u.LengthInt() > 48 {
				return // operands that chains of concat / flatten have doubled too often are not fed back
			}
		}
		st.log = append(st.log, fmt.Sprintf("fn %s(#%d,#%d,...)", s.Op, mod(s.A, len(st.lives)), mod(s.B, len(st.lives))))
		guarded(func() { _, _ = f.ReturnTypeForValues(args) })
		var r cty.Value
		var err error
		if !guarded(func() { r, err = f.Call(args) }) && err == nil {
			st.push(r, "fn:"+s.Op)
			st.flags["fn-derived"] = true
			st.fnCalls++
		}
	case "conv":
		a, b := st.pick(s.A), st.pick(s.B)
		st.log = append(st.log, fmt.Sprintf("conv #%d to type of #%d", mod(s.A, len(st.lives)), mod(s.B, len(st.lives))))
		target := b.Type()
		if s.N%3 == 0 {
			// one time in three the target keeps only the kind of #b's type and
			// leaves the element type open
			switch {
			case target.IsListType():
				target = cty.List(cty.DynamicPseudoType)
			case target.IsSetType():
				target = cty.Set(cty.DynamicPseudoType)
			case target.IsMapType():
				target = cty.Map(cty.DynamicPseudoType)
			case target.IsTupleType() && target.Length() > 0:
				target = cty.List(cty.DynamicPseudoType)
			}
		}
		var r cty.Value
		var err error
		convOK := !guarded(func() { r, err = convert.Convert(a, target) }) && err == nil
		if convOK {
			st.push(r, "convert")
		}
		// the same request through a conversion that was looked up once (for the
		// dynamic source type) and has served earlier values of other types: a
		// conversion is a pure function of the value it is given
		if st.convs == nil {
			st.convs = map[string]convert.Conversion{}
		}
		key := target.GoString()
		cv, seen := st.convs[key]
		if !seen {
			guarded(func() { cv = convert.GetConversionUnsafe(cty.DynamicPseudoType, target) })
			st.convs[key] = cv
		}
		if cv != nil && convOK {
			var r2 cty.Value
			var err2 error
			// (compared by type, and by content where both results are wholly
			// known: an unknown result may or may not carry an empty refinement
			// record depending on the route, which is not a difference in value)
			differs := func() bool {
				if !r2.Type().Equals(r.Type()) {
					return true
				}
				return r.IsWhollyKnown() && r2.IsWhollyKnown() && !r2.RawEquals(r)
			}
			if !guarded(func() { r2, err2 = cv(a) }) && err2 == nil && differs() {
				st.pending = facet.Failf("conversion-impure", "a conversion to %s looked up once for the dynamic source type and reused returned %#v for %#v; a fresh Convert returns %#v\nhistory: %s", key, r2, a, r, strings.Join(st.log, " ; "))
			}
		}
		// UnknownAsNull derives a value as well
		var un cty.Value
		if !guarded(func() { un = cty.UnknownAsNull(a) }) {
			st.push(un, "UnknownAsNull")
		}
	case "refine":
		a := st.pick(s.A)
		st.log = append(st.log, fmt.Sprintf("refine #%d variant %d", mod(s.A, len(st.lives)), s.N))
		var r cty.Value
		if !guarded(func() {
			b := a.Refine()
			switch mod(s.N, 4) {
			case 0:
				b = b.NotNull()
			case 1:
				b = b.NumberRangeLowerBound(cty.NumberIntVal(-1000), true)
			case 2:
				b = b.CollectionLengthUpperBound(1000)
			case 3:
				b = b.StringPrefix("")
			}
			r = b.NewValue()
		}) {
			st.push(r, "refine")
		}
	case "mark":
		// deriving a differently marked value must not touch the value it is derived from
		a := st.pick(s.A)
		st.log = append(st.log, fmt.Sprintf("mark #%d variant %d", mod(s.A, len(st.lives)), s.N))
		var r cty.Value
		if !guarded(func() {
			switch mod(s.N, 5) {
			case 0:
				r = a.Mark(spec.Mark(fmt.Sprintf("d%d", s.C)))
			case 1:
				r = a.WithMarks(cty.NewValueMarks(spec.Mark(fmt.Sprintf("w%d", s.C))))
			case 2:
				r = a.WithSameMarks(st.pick(s.B))
			case 3:
				u, _ := a.Unmark()
				r = u.Mark(spec.Mark("again"))
			default:
				r = a.MarkWithPaths([]cty.PathValueMarks{{Path: cty.Path{}, Marks: cty.NewValueMarks(spec.Mark(fmt.Sprintf("p%d", s.C)))}})
			}
		}) {
			st.push(r, "mark")
			st.flags["marked-derived"] = true
		}
	case "acc":
		st.accessor(s)
	case "ctor":
		st.ctor(s)
	case "vs":
		st.vsStep(s)
	}
}

var junk = cty.StringVal("MUTATED").Mark(spec.Mark("evil"))

// accessor calls one accessor on a live value and mutates what it returned.
func (st *state) accessor(s Step) {
	v := st.pick(s.A)
	names := []string{"AsBigFloat", "AsValueSlice", "AsValueMap", "AsValueSet", "Marks", "Unmark", "UnmarkDeep", "UnmarkDeepWithPaths", "RangeBounds", "ElementIterator"}
	name := names[mod(s.N, len(names))]
	st.log = append(st.log, fmt.Sprintf("acc %s(#%d)", name, mod(s.A, len(st.lives))))
	did := false
	guarded(func() {
		u, _ := v.Unmark()
		switch name {
		case "AsBigFloat":
			f := u.AsBigFloat()
			f.SetInt64(424242)
			f.Neg(f)
			f.SetPrec(7)
			did = true
		case "AsValueSlice":
			sl := u.AsValueSlice()
			for i := range sl {
				sl[i] = junk
			}
			sl = append(sl, junk)
			_ = sl
			did = len(sl) > 1
		case "AsValueMap":
			m := u.AsValueMap()
			for k := range m {
				m[k] = junk
			}
			m["injected"] = junk
			did = true
		case "AsValueSet":
			vs := u.AsValueSet()
			for _, e := range vs.Values() {
				vs.Remove(e)
			}
			guarded(func() { vs.Add(cty.UnknownVal(vs.ElementType())) })
			guarded(func() { vs.Add(cty.NullVal(vs.ElementType())) })
			did = true
		case "Marks":
			ms := v.Marks()
			for k := range ms {
				delete(ms, k)
			}
			ms[spec.Mark("evil")] = struct{}{}
			did = true
		case "Unmark":
			_, ms := v.Unmark()
			for k := range ms {
				delete(ms, k)
			}
			ms[spec.Mark("evil")] = struct{}{}
			did = true
		case "UnmarkDeep":
			_, ms := v.UnmarkDeep()
			for k := range ms {
				delete(ms, k)
			}
			ms[spec.Mark("evil")] = struct{}{}
			did = true
		case "UnmarkDeepWithPaths":
			_, pvms := v.UnmarkDeepWithPaths()
			for i := range pvms {
				for k := range pvms[i].Marks {
					delete(pvms[i].Marks, k)
				}
				pvms[i].Marks[spec.Mark("evil")] = struct{}{}
				for j := range pvms[i].Path {
					pvms[i].Path[j] = cty.GetAttrStep{Name: "evil"}
				}
			}
			did = len(pvms) > 0
		case "RangeBounds":
			rng := u.Range()
			lo, _ := rng.NumberLowerBound()
			hi, _ := rng.NumberUpperBound()
			for _, b := range []cty.Value{lo, hi} {
				if b.IsKnown() && !b.IsNull() {
					f := b.AsBigFloat()
					f.SetInt64(777)
					did = true
				}
			}
		case "ElementIterator":
			for it := u.ElementIterator(); it.Next(); {
				k, e := it.Element()
				guarded(func() { k.AsBigFloat().SetInt64(99) })
				guarded(func() { e.AsBigFloat().SetInt64(99) })
				did = true
			}
		}
	})
	if did {
		st.flags["mutated-accessor-result"] = true
		st.flags["acc="+name] = true
	}
}

// ctor builds a value from Go data the harness keeps, records it, then
// mutates the Go data.
func (st *state) ctor(s Step) {
	names := []string{"ListVal", "SetVal", "TupleVal", "MapVal", "ObjectVal", "WithMarks", "MarkWithPaths", "NumberFloat"}
	name := names[mod(s.N, len(names))]
	a, b := st.pick(s.A), st.pick(s.B)
	st.log = append(st.log, fmt.Sprintf("ctor %s(#%d,#%d)", name, mod(s.A, len(st.lives)), mod(s.B, len(st.lives))))
	same := []cty.Value{a}
	if b.Type().Equals(a.Type()) {
		same = append(same, b)
	}
	same = append(same, a)
	var made cty.Value
	var mutate func()
	ok := !guarded(func() {
		switch name {
		case "ListVal":
			in := append([]cty.Value(nil), same...)
			made = cty.ListVal(in)
			mutate = func() {
				for i := range in {
					in[i] = junk
				}
			}
		case "SetVal":
			in := append([]cty.Value(nil), same...)
			made = cty.SetVal(in)
			mutate = func() {
				for i := range in {
					in[i] = junk
				}
			}
		case "TupleVal":
			in := []cty.Value{a, b}
			made = cty.TupleVal(in)
			mutate = func() { in[0], in[1] = junk, junk }
		case "MapVal":
			in := map[string]cty.Value{"k1": a}
			if b.Type().Equals(a.Type()) {
				in["k2"] = b
			}
			made = cty.MapVal(in)
			mutate = func() {
				for k := range in {
					in[k] = junk
				}
				in["k3"] = junk
			}
		case "ObjectVal":
			in := map[string]cty.Value{"x": a, "y": b}
			made = cty.ObjectVal(in)
			mutate = func() {
				delete(in, "x")
				in["y"] = junk
				in["z"] = junk
			}
		case "WithMarks":
			ms := cty.NewValueMarks(spec.Mark("m9"))
			made = a.WithMarks(ms)
			mutate = func() {
				delete(ms, spec.Mark("m9"))
				ms[spec.Mark("evil")] = struct{}{}
			}
		case "MarkWithPaths":
			ms := cty.NewValueMarks(spec.Mark("m8"))
			pvm := []cty.PathValueMarks{{Path: cty.Path{}, Marks: ms}}
			made = a.MarkWithPaths(pvm)
			mutate = func() {
				delete(ms, spec.Mark("m8"))
				ms[spec.Mark("evil")] = struct{}{}
				pvm[0] = cty.PathValueMarks{}
			}
		case "NumberFloat":
			// big.Float handed to MustParse-like helpers is copied; NumberVal
			// itself is a documented ownership transfer and is not used here.
			f := new(big.Float).SetInt64(int64(s.C))
			i, _ := f.Int64()
			made = cty.NumberIntVal(i)
			mutate = func() { f.SetInt64(-1) }
		}
	})
	if !ok || mutate == nil {
		return
	}
	st.push(made, "ctor:"+name)
	mutate()
	st.flags["mutated-ctor-input"] = true
	st.flags["ctor="+name] = true
}

func (st *state) vsStep(s Step) {
	opsNames := []string{"new", "add", "add", "add", "remove", "copy", "copy", "union", "intersection", "subtract", "symdiff", "tovalue", "tovalue", "fromvalue"}
	name := opsNames[mod(s.N, len(opsNames))]
	if len(st.sets) == 0 || name == "new" {
		st.log = append(st.log, "vs new")
		st.pushSet(cty.NewValueSet(elemType(s.B)), s.B%2)
		return
	}
	ai, bi := mod(s.A, len(st.sets)), mod(s.B, len(st.sets))
	a, b := st.sets[ai], st.sets[bi]
	x := elems(a.kind)[mod(s.C, len(elems(a.kind)))]
	if a.kind != b.kind {
		switch name {
		case "union", "intersection", "subtract", "symdiff":
			return // sets of different element types cannot be combined
		}
	}
	st.log = append(st.log, fmt.Sprintf("vs %s(S%d,S%d,%#v)", name, ai, bi, x))
	switch name {
	case "add":
		before := a.model
		if bucketOfUnknowns(a.s) >= 3 || (a.kind == 1 && a.s.Length() >= 3) {
			st.flags["add-into-big-bucket"] = true
			if st.flags["copied"] {
				st.flags["copy-then-add-big-bucket"] = true
			}
		}
		a.s.Add(x)
		after := setPrints(a.s)
		// Add may leave the set as it was (an equal member exists) or add x
		plus := append(append([]string(nil), before...), fingerprint(x))
		sort.Strings(plus)
		if eqStrings(after, before) || eqStrings(after, plus) {
			a.model = after
		}
		// otherwise the model is kept and the invariant reports the difference
	case "remove":
		before := a.model
		members := a.s.Values()
		if st.flags["copied"] && a.kind == 1 && len(members) >= 2 {
			st.flags["copy-then-add-big-bucket"] = true // removal inside a shared multi-member bucket counts as well
		}
		a.s.Remove(x)
		after := setPrints(a.s)
		switch {
		case eqStrings(after, before):
			// nothing removed
		case len(after) == len(before)-1:
			// exactly one member may go, and it must be equal to x
			for _, m := range members {
				eq := m.Equals(x)
				if eq.IsKnown() && eq.True() && eqStrings(after, removeOne(before, fingerprint(m))) {
					a.model = after
					break
				}
			}
		}
	case "copy":
		st.flags["copied"] = true
		st.pushSet(a.s.Copy(), a.kind)
	case "union":
		st.pushSet(a.s.Union(b.s), a.kind)
	case "intersection":
		st.pushSet(a.s.Intersection(b.s), a.kind)
	case "subtract":
		st.pushSet(a.s.Subtract(b.s), a.kind)
	case "symdiff":
		st.pushSet(a.s.SymmetricDifference(b.s), a.kind)
	case "tovalue":
		st.push(cty.SetValFromValueSet(a.s), "SetValFromValueSet")
		st.flags["set-value-from-valueset"] = true
	case "fromvalue":
		for i := len(st.lives) - 1; i >= 0; i-- {
			l := st.lives[mod(i+s.C, len(st.lives))]
			u, _ := l.v.Unmark()
			if (u.Type().Equals(cty.Set(cty.Number)) || u.Type().Equals(cty.Set(spec.CapA))) && u.IsKnown() && !u.IsNull() {
				kind := 0
				if u.Type().Equals(cty.Set(spec.CapA)) {
					kind = 1
				}
				st.pushSet(u.AsValueSet(), kind)
				st.flags["copied"] = true
				break
			}
		}
	}
}

// bucketOfUnknowns counts the unknown members of s (they share one bucket).
func bucketOfUnknowns(s cty.ValueSet) int {
	n := 0
	for _, v := range s.Values() {
		if !v.IsKnown() {
			n++
		}
	}
	return n
}

func removeOne(sorted []string, x string) []string {
	out := append([]string(nil), sorted...)
	for i, s := range out {
		if s == x {
			return append(out[:i], out[i+1:]...)
		}
	}
	return out
}

// ---------------------------------------------------------------- generators

var histFns = map[string]function.Function{
	"concat": stdlib.ConcatFunc, "merge": stdlib.MergeFunc, "flatten": stdlib.FlattenFunc, "slice": stdlib.SliceFunc,
	"keys": stdlib.KeysFunc, "values": stdlib.ValuesFunc, "zipmap": stdlib.ZipmapFunc, "reverselist": stdlib.ReverseListFunc,
	"coalescelist": stdlib.CoalesceListFunc, "setunion": stdlib.SetUnionFunc, "chunklist": stdlib.ChunklistFunc,
	"compact": stdlib.CompactFunc, "distinct": stdlib.DistinctFunc, "element": stdlib.ElementFunc, "lookup": stdlib.LookupFunc,
	"jsonencode": stdlib.JSONEncodeFunc, "jsondecode": stdlib.JSONDecodeFunc,
}

var histFnNames = func() []string {
	var ns []string
	for n := range histFns {
		ns = append(ns, n)
	}
	sort.Strings(ns)
	// the functions that assemble a result type out of their arguments' type
	// internals are drawn more often: only chains of them (a result extended
	// twice, in different ways) can show shared type storage
	for i := 0; i < 8; i++ {
		ns = append(ns, "concat")
	}
	for i := 0; i < 4; i++ {
		ns = append(ns, "merge", "slice", "unknownof")
	}
	ns = append(ns, "nullof")
	return ns
}()

// genHistFns: histories dominated by standard-library calls over structural
// values (tuples, objects, lists, maps; known, unknown and null).
func genHistFns(t *rapid.T) Hist {
	h := Hist{}
	npool := rapid.IntRange(2, 5).Draw(t, "npool")
	to := gen.TypeOpts{Depth: 2, Dynamic: true}
	vo := gen.ValOpts{Null: true, Unknown: true, Marks: true, Simple: true}
	for i := 0; i < npool; i++ {
		ty := gen.Type(to).Draw(t, "type")
		if rapid.Bool().Draw(t, "structural") {
			ty = rapid.SampledFrom([]spec.T{spec.Tuple(spec.String, spec.Bool), spec.Tuple(spec.Number, spec.String, spec.Bool), spec.List(spec.String),
				spec.Object(spec.Attr{Name: "a", T: spec.String}, spec.Attr{Name: "id", T: spec.Number}), spec.Object(spec.Attr{Name: "a", T: spec.Bool}, spec.Attr{Name: "x", T: spec.String}),
				spec.Map(spec.String), spec.Tuple(spec.List(spec.String), spec.Tuple(spec.String))}).Draw(t, "stype")
		}
		h.Pool = append(h.Pool, gen.Value(ty, vo).Draw(t, "val"))
	}
	nsteps := rapid.IntRange(3, 12).Draw(t, "nsteps")
	for i := 0; i < nsteps; i++ {
		s := Step{K: rapid.SampledFrom([]string{"fn", "fn", "fn", "fn", "fn", "fn", "op", "conv", "acc"}).Draw(t, "kind")}
		s.A = rapid.IntRange(0, 11).Draw(t, "a")
		s.B = rapid.IntRange(0, 11).Draw(t, "b")
		s.C = rapid.IntRange(0, 11).Draw(t, "c")
		s.N = rapid.IntRange(0, 13).Draw(t, "n")
		s.Attr = rapid.SampledFrom([]string{"a", "b", "id", "x", "y"}).Draw(t, "attr")
		switch s.K {
		case "fn":
			s.Op = rapid.SampledFrom(histFnNames).Draw(t, "fn")
		case "op":
			s.Op = rapid.SampledFrom(ops.AllOps).Draw(t, "op")
		}
		h.Steps = append(h.Steps, s)
	}
	return h
}

func genHist(setHeavy bool) func(t *rapid.T) Hist {
	return func(t *rapid.T) Hist {
		h := Hist{}
		npool := rapid.IntRange(2, 5).Draw(t, "npool")
		to := gen.TypeOpts{Depth: 2, Dynamic: true}
		vo := gen.ValOpts{Null: true, Unknown: true, Marks: true, Simple: true}
		for i := 0; i < npool; i++ {
			switch rapid.IntRange(0, 4).Draw(t, "poolkind") {
			case 0:
				h.Pool = append(h.Pool, gen.Value(spec.Number, vo).Draw(t, "num"))
			case 1:
				h.Pool = append(h.Pool, gen.Value(spec.Set(spec.Number), gen.ValOpts{Unknown: true, Simple: true, MaxElems: 4}).Draw(t, "numset"))
			case 2:
				h.Pool = append(h.Pool, gen.Value(spec.Set(spec.CapsuleT("A")), gen.ValOpts{MaxElems: 4}).Draw(t, "capset"))
			default:
				h.Pool = append(h.Pool, gen.AnyValue(to, vo).Draw(t, "val"))
			}
		}
		nsets := rapid.IntRange(0, 2).Draw(t, "nsets")
		if setHeavy {
			nsets = rapid.IntRange(1, 3).Draw(t, "nsets2")
		}
		for i := 0; i < nsets; i++ {
			n := rapid.IntRange(0, 5).Draw(t, "setsize")
			var idxs []int
			for j := 0; j < n; j++ {
				idxs = append(idxs, rapid.IntRange(0, len(setElems)-1).Draw(t, "elem"))
			}
			h.Sets = append(h.Sets, idxs)
			h.Kinds = append(h.Kinds, rapid.IntRange(0, 1).Draw(t, "setkind"))
		}
		nsteps := rapid.IntRange(3, 14).Draw(t, "nsteps")
		kinds := []string{"op", "op", "conv", "refine", "mark", "mark", "acc", "acc", "acc", "ctor", "ctor", "vs", "vs"}
		if setHeavy {
			kinds = []string{"vs", "vs", "vs", "vs", "vs", "acc", "op"}
		}
		for i := 0; i < nsteps; i++ {
			s := Step{K: rapid.SampledFrom(kinds).Draw(t, "kind")}
			s.A = rapid.IntRange(0, 11).Draw(t, "a")
			s.B = rapid.IntRange(0, 11).Draw(t, "b")
			s.C = rapid.IntRange(0, 11).Draw(t, "c")
			s.N = rapid.IntRange(0, 13).Draw(t, "n")
			if s.K == "op" {
				s.Op = rapid.SampledFrom(ops.AllOps).Draw(t, "op")
				s.Attr = rapid.SampledFrom([]string{"a", "b", "id", "x", "y"}).Draw(t, "attr")
			}
			if s.K == "acc" && setHeavy {
				s.N = 3 // AsValueSet
			}
			h.Steps = append(h.Steps, s)
		}
		return h
	}
}

func init() {
	facet.Register(facet.F[Hist]{
		Prop: "C20", Name: "history/fingerprints", Quick: 15000, Thorough: 150000, Shards: 4,
		Rule: "pool of 2..5 generated values (nulls, unknowns, marks, nesting) and 0..2 ValueSets, then 3..14 steps: operation / conversion / refinement / re-marking (Mark, WithMarks, WithSameMarks, MarkWithPaths on values that may already be marked or were extracted from marked containers) deriving a new live value, accessor call followed by mutation of the returned Go data, constructor call followed by mutation of the Go data passed in, ValueSet step; after every step every live value's deep fingerprint and every ValueSet's contents must be unchanged; non-trivial = at least one mutate-after-accessor or mutate-after-constructor step took effect, or an Add into a bucket of >= 3 after a Copy",
		Gen:  genHist(false), Check: runHistory,
	})
	facet.Register(facet.F[Hist]{
		Prop: "C20", Name: "history/stdlib", Quick: 20000, Thorough: 200000, Shards: 4,
		Rule: "pool of 2..5 structural values (tuples, objects, lists, maps: known, unknown, null, marked) and 3..12 steps, most of them calls of standard-library functions that build their result type from their arguments' types (concat, merge, flatten, slice, keys, values, zipmap, reverselist, coalescelist, setunion, chunklist, compact, distinct, element, lookup, jsonencode, jsondecode: Call and the type-only prediction) on live values; results become live values and feed later calls; after every step every live value's deep fingerprint (types included) must be unchanged; non-trivial = at least two calls succeeded",
		Gen:  genHistFns, Check: runHistory,
	})
	facet.Register(facet.F[Hist]{
		Prop: "C20", Name: "history/set-copy", Quick: 15000, Thorough: 150000, Shards: 4,
		Rule: "as history/fingerprints but dominated by ValueSet steps (new/add/remove/copy/union/intersection/subtract/symmetric difference, wrapping as a set value, unwrapping a set value) over members that share one hash bucket (unknown numbers with distinct refinements; values of a capsule type without a hash key, which Remove can take out of the middle of the bucket) or must coalesce (equal numbers built by different routes); non-trivial = an Add into a bucket of >= 3 after a Copy, or a mutate-after-accessor step",
		Gen:  genHist(true), Check: runHistory,
	})
}
