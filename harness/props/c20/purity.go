package c20

import (
	"bytes"
	"fmt"
	"math/big"
	"strings"
	"sync"

	"github.com/zclconf/go-cty/cty"
	"github.com/zclconf/go-cty/cty/convert"
	"github.com/zclconf/go-cty/cty/function/stdlib"
	"pgregory.net/rapid"

	"verif/harness/convgen"
	"verif/harness/facet"
	"verif/harness/gen"
	"verif/harness/ops"
	"verif/harness/spec"
	"verif/harness/stdreg"
)

// ---------------------------------------------------------------- purity/repeat

// PureIn is an operation call (operands may hold unknowns and marks).
type PureIn struct {
	C    ops.Case `json:"c"`
	Kind string   `json:"kind,omitempty"`
}

const reps = 10

func fmtArgs(vs []cty.Value) string {
	ss := make([]string, len(vs))
	for i, v := range vs {
		ss[i] = fmt.Sprintf("%#v", v)
	}
	return "(" + strings.Join(ss, ", ") + ")"
}

// mixedPair draws two objects or maps with >= 2 members that are equal except
// that one member differs definitely and another is unknown on one side: the
// shape in which an early exit from a loop over a Go map decides the result.
func mixedPair(t *rapid.T) (spec.V, spec.V) {
	n := rapid.IntRange(2, 4).Draw(t, "n")
	names := []string{"a", "b", "c", "d"}[:n]
	isMap := rapid.Bool().Draw(t, "ismap")
	mk := func() spec.V {
		v := spec.V{St: spec.Known, Keys: append([]string(nil), names...)}
		for range names {
			v.Elems = append(v.Elems, spec.KnownNum(gen.SmallInt(0, 3).Draw(t, "m")))
		}
		if isMap {
			v.T = spec.Map(spec.Number)
		} else {
			v.T = spec.T{K: spec.KObject}
		}
		return v.Retype()
	}
	a := mk()
	b := a.Clone()
	perm := rapid.Permutation([]int{0, 1, 2, 3}[:n]).Draw(t, "perm")
	// definite difference at perm[0]
	b.Elems[perm[0]] = spec.KnownNum(spec.NInt(99))
	// unknown at perm[1] (and sometimes more)
	for _, i := range perm[1:] {
		u := spec.UnknownOf(spec.Number)
		if rapid.Bool().Draw(t, "side") {
			a.Elems[i] = u
		} else {
			b.Elems[i] = u
		}
		if rapid.Bool().Draw(t, "onlyone") {
			break
		}
	}
	return a.Retype(), b.Retype()
}

// tieSet draws a set of numbers in which some real number is held at two
// precisions (a float64 and its exact decimal expansion at 512 bits): the two
// are not equal (their shortest decimal texts differ), hash differently, and
// tie in the numeric order of the set's iteration.
func tieSet(t *rapid.T) spec.V {
	v := spec.V{T: spec.Set(spec.Number), St: spec.Known}
	fs := rapid.Permutation([]float64{0.1, 0.2, 0.3, 1e-7, -0.1, 2.675, 1.1}).Draw(t, "tiefloats")
	for _, f := range fs[:rapid.IntRange(1, 3).Draw(t, "nties")] {
		exact := strings.TrimRight(new(big.Float).SetFloat64(f).Text('f', 1100), "0")
		v.Elems = append(v.Elems, spec.KnownNum(spec.NFloat(f)), spec.KnownNum(spec.Num{Route: "big", Text: exact, Prec: 512}))
	}
	for i, n := 0, rapid.IntRange(0, 3).Draw(t, "nother"); i < n; i++ {
		v.Elems = append(v.Elems, spec.KnownNum(gen.SmallInt(-3, 6).Draw(t, "other")))
	}
	return v
}

func init() {
	facet.Register(facet.F[PureIn]{
		Prop: "C20", Name: "purity/repeat", Quick: 40000, Thorough: 400000, Shards: 4,
		Rule: "an operation call repeated 10 times on the same operand values, plus once on freshly rebuilt operands: all results must be RawEqual. Operands: (a) two objects/maps with >= 2 members in which a definite difference and an unknown coexist (Go map iteration order would show), nested in lists/tuples half of the time; (b) any operation on C01-style weakened operands with marks. Non-trivial = class (a), or an operand with >= 2 members and an unknown part",
		Gen: func(t *rapid.T) PureIn {
			if rapid.IntRange(0, 5).Draw(t, "tieclass") == 3 {
				// (c) a set holding members that tie in the iteration order without
				// being equal (one real number at two precisions lands in two hash
				// buckets), reached through an operation that returns the set itself
				set := tieSet(t)
				if rapid.Bool().Draw(t, "viaattr") {
					obj := spec.V{T: spec.T{K: spec.KObject}, St: spec.Known, Keys: []string{"a", "b"}, Elems: []spec.V{set, spec.KnownStr("k")}}.Retype()
					return PureIn{C: ops.Case{Op: "GetAttr", Args: []spec.V{obj}, Attr: "a"}, Kind: "tie-set"}
				}
				tup := spec.V{T: spec.T{K: spec.KTuple}, St: spec.Known, Elems: []spec.V{set, spec.KnownStr("k")}}.Retype()
				return PureIn{C: ops.Case{Op: "Index", Args: []spec.V{tup, spec.KnownNum(spec.NInt(0))}}, Kind: "tie-set"}
			}
			if rapid.IntRange(0, 2).Draw(t, "class") > 0 {
				a, b := mixedPair(t)
				if rapid.Bool().Draw(t, "nest") {
					wrap := func(x spec.V) spec.V {
						return spec.V{T: spec.T{K: spec.KTuple}, St: spec.Known, Elems: []spec.V{x, spec.KnownStr("k")}}.Retype()
					}
					a, b = wrap(a), wrap(b)
				}
				op := rapid.SampledFrom([]string{"Equals", "NotEqual"}).Draw(t, "op")
				return PureIn{C: ops.Case{Op: op, Args: []spec.V{a, b}}, Kind: "mixed"}
			}
			c := ops.AnyConcrete().Draw(t, "case")
			for i, a := range c.Args {
				w, _ := gen.Weaken(t, a, true)
				if rapid.IntRange(0, 3).Draw(t, "mark") == 0 {
					w, _ = gen.PlaceMarks(t, w, false)
				}
				c.Args[i] = w
			}
			return PureIn{C: c, Kind: "any"}
		},
		Check: func(c *facet.Ctx, in PureIn) error {
			c.Label("op=" + in.C.Op)
			c.Label("kind=" + in.Kind)
			out0, args, err := ops.Run(in.C)
			if err != nil {
				return facet.Failf("harness-build", "%v", err)
			}
			if in.Kind == "mixed" || in.Kind == "tie-set" {
				c.NonTrivial()
			} else {
				for _, a := range in.C.Args {
					if len(a.Elems) >= 2 && !a.WhollyKnown() {
						c.NonTrivial()
					}
				}
			}
			for r := 0; r < reps; r++ {
				var out ops.Outcome
				if r == reps-1 {
					out, _, _ = ops.Run(in.C) // rebuilt operands
				} else {
					out = ops.Apply(in.C.Op, args, in.C.Attr)
				}
				if out.Panicked != out0.Panicked {
					return facet.Failf("impure-outcome", "%s%s: panicked=%t on the first call but %t on repetition %d", in.C.Op, fmtArgs(args), out0.Panicked, out.Panicked, r+1).With("op", in.C.Op)
				}
				if out0.Panicked {
					continue
				}
				if !out.Val.RawEquals(out0.Val) {
					return facet.Failf("impure-result", "%s%s returned %#v first and %#v on repetition %d", in.C.Op, fmtArgs(args), out0.Val, out.Val, r+1).With("op", in.C.Op)
				}
			}
			if out0.Panicked {
				c.Label("rejected")
			}
			return nil
		},
	})

	// ------------------------------------------------------------ purity/stdlib
	type fnIn struct {
		Fn   string   `json:"fn"`
		Args []spec.V `json:"args"`
	}
	sameResult := func(a, b cty.Value) bool {
		if !a.HasSameMarks(b) {
			return false
		}
		a, _ = a.Unmark()
		b, _ = b.Unmark()
		if a.Type().Equals(stdlib.Bytes) && b.Type().Equals(stdlib.Bytes) && a.IsKnown() && b.IsKnown() && !a.IsNull() && !b.IsNull() {
			return bytes.Equal(*(a.EncapsulatedValue().(*[]byte)), *(b.EncapsulatedValue().(*[]byte)))
		}
		return a.RawEquals(b)
	}
	facet.Register(facet.F[fnIn]{
		Prop: "C20", Name: "purity/stdlib", Quick: 40000, Thorough: 400000, Shards: 4,
		Rule: "any registered standard-library function (uniform draw) on in-domain arguments, half of them weakened to typed unknowns and a quarter marked; the call is repeated 4 times on the same argument values: outcome class and result must be equal each time, and the arguments' fingerprints must be unchanged afterwards. Non-trivial = the call succeeded and an argument is a collection or structure",
		Gen: func(t *rapid.T) fnIn {
			e := stdreg.Pick(t, stdreg.All())
			args := e.Args(t)
			for i := range args {
				if rapid.Bool().Draw(t, "weaken") {
					args[i], _ = gen.Weaken(t, args[i], false)
				}
				if rapid.IntRange(0, 3).Draw(t, "mark") == 0 {
					args[i], _ = gen.PlaceMarks(t, args[i], false)
				}
			}
			return fnIn{Fn: e.Name, Args: args}
		},
		Check: func(c *facet.Ctx, in fnIn) error {
			e, ok := stdreg.ByName(in.Fn)
			if !ok {
				return facet.Failf("harness", "no function %q", in.Fn)
			}
			c.Label("fn=" + in.Fn)
			args, err := e.Build(in.Args)
			if err != nil {
				return facet.Failf("harness-build", "%v", err)
			}
			fps := make([]string, len(args))
			for i, a := range args {
				fps[i] = fingerprint(a)
			}
			first := stdreg.Call(e.Fn, args)
			for r := 0; r < 3; r++ {
				again := stdreg.Call(e.Fn, args)
				if again.Panicked != first.Panicked || (again.Err == nil) != (first.Err == nil) {
					return facet.Failf("impure-outcome", "%s%s: outcome differs between repetitions (%v / %v)", in.Fn, fmtArgs(args), first.Err, again.Err).With("fn", in.Fn)
				}
				if first.Err == nil && !first.Panicked && !sameResult(first.Val, again.Val) {
					return facet.Failf("impure-result", "%s%s returned %#v first and %#v on repetition %d", in.Fn, fmtArgs(args), first.Val, again.Val, r+1).With("fn", in.Fn)
				}
			}
			for i, a := range args {
				if got := fingerprint(a); got != fps[i] {
					return facet.Failf("argument-changed", "%s changed its argument %d: was %s now %s", in.Fn, i, fps[i], got).With("fn", in.Fn)
				}
			}
			if first.Err == nil && !first.Panicked {
				for _, a := range in.Args {
					if len(a.Elems) > 0 {
						c.NonTrivial()
					}
				}
			} else {
				c.Label("failed-call")
			}
			return nil
		},
	})

	// ------------------------------------------------------------ purity/convert
	facet.Register(facet.F[convgen.Case]{
		Prop: "C20", Name: "purity/convert", Quick: 30000, Thorough: 300000, Shards: 4,
		Rule: "a (value, target type) conversion request (C08 generator; values with nulls, unknowns and marks) repeated 4 times: same outcome and RawEqual results, input fingerprint unchanged. Non-trivial = the conversion succeeded and the value has members",
		Gen: func(t *rapid.T) convgen.Case {
			if rapid.IntRange(0, 4).Draw(t, "composed") == 0 {
				return convgen.Composed(t)
			}
			return convgen.Pair(convgen.Opts{Val: gen.ValOpts{Null: true, Unknown: true, Marks: true, Simple: true}}).Draw(t, "case")
		},
		Check: func(c *facet.Ctx, in convgen.Case) error {
			v, err := spec.Build(in.V)
			if err != nil {
				return facet.Failf("harness-build", "%v", err)
			}
			ty := in.Target.Cty()
			for _, e := range in.Edits {
				if e == "composed" {
					c.Label("composed-members")
				}
			}
			fp := fingerprint(v)
			tyPrint := fmt.Sprintf("%#v", ty)
			type res struct {
				v   cty.Value
				err error
				p   bool
			}
			do := func() (r res) {
				defer func() {
					if x := recover(); x != nil {
						r = res{p: true}
					}
				}()
				out, err := convert.Convert(v, ty)
				return res{v: out, err: err}
			}
			first := do()
			for r := 0; r < 3; r++ {
				again := do()
				if again.p != first.p || (again.err == nil) != (first.err == nil) {
					return facet.Failf("impure-outcome", "Convert(%#v, %s): outcome differs between repetitions", v, in.Target)
				}
				if first.err == nil && !first.p && !again.v.RawEquals(first.v) {
					return facet.Failf("impure-result", "Convert(%#v, %s) returned %#v first and %#v later", v, in.Target, first.v, again.v)
				}
			}
			if got := fingerprint(v); got != fp {
				return facet.Failf("argument-changed", "Convert changed its input: was %s now %s", fp, got)
			}
			// the requested type is a value too: it must read the same afterwards,
			// and still be the type its specification describes
			if got := fmt.Sprintf("%#v", ty); got != tyPrint {
				return facet.Failf("type-changed", "Convert(%#v, %s) changed the type it was given: was %s now %s", v, in.Target, tyPrint, got)
			}
			if !ty.Equals(in.Target.Cty()) || !spec.FromCty(ty).Equal(in.Target) {
				return facet.Failf("type-changed", "after Convert(%#v, ...) the requested type %s is no longer equal to a fresh build of its specification (now %s)", v, in.Target, spec.FromCty(ty))
			}
			if first.err == nil && !first.p && len(in.V.Elems) > 0 {
				c.NonTrivial()
			}
			return nil
		},
	})

	// ------------------------------------------------------------ accessor/mutate
	facet.Register(facet.F[spec.V]{
		Prop: "C20", Name: "accessor/mutate", Quick: 40000, Thorough: 400000, Shards: 4,
		Rule: "one generated value (all kinds, nulls, unknowns with refinements, marks at any depth); every applicable accessor (AsBigFloat, AsValueSlice, AsValueMap, AsValueSet, Marks, Unmark, UnmarkDeep, UnmarkDeepWithPaths, Range bounds, ElementIterator members) is called, its result mutated, and the value's fingerprint compared; a second call must return the original data. Non-trivial = at least one accessor applied and the value is a number, collection, structure or marked",
		Gen: func(t *rapid.T) spec.V {
			return gen.AnyValue(gen.TypeOpts{Depth: 2, Dynamic: true}, gen.ValOpts{Null: true, Unknown: true, Marks: true}).Draw(t, "v")
		},
		Check: func(c *facet.Ctx, in spec.V) error {
			v, err := spec.Build(in)
			if err != nil {
				return facet.Failf("harness-build", "%v", err)
			}
			st := &state{flags: map[string]bool{}}
			st.push(v, "value")
			for n := 0; n < 10; n++ {
				st.accessor(Step{K: "acc", A: 0, N: n})
				if f := st.invariant(n); f != nil {
					return f
				}
			}
			for k := range st.flags {
				c.Label(k)
			}
			if st.flags["mutated-accessor-result"] && (in.HasMarks() || len(in.Elems) > 0 || in.T.K == spec.KNumber) {
				c.NonTrivial()
			}
			return nil
		},
	})

	// ------------------------------------------------------------ race/shared-values
	facet.Register(facet.F[RaceIn]{
		Prop: "C20", Name: "race/shared-values", Quick: 4000, Thorough: 40000, Shards: 4,
		Rule: "2..5 shared values and one shared ValueSet-derived set value; 2..16 goroutines each run a generated read-only sequence (operation methods, Equals/RawEquals across the pool, accessors, Range, Hash, GoString, type queries, conversions) over the SAME values concurrently; every goroutine's result fingerprints must equal those of a sequential run, and the shared values' fingerprints must be unchanged. Under the race detector (thorough tier) any report is a violation. Non-trivial = >= 2 goroutines touch a set or map payload",
		Gen: func(t *rapid.T) RaceIn {
			in := RaceIn{G: rapid.SampledFrom([]int{2, 3, 4, 8, 16}).Draw(t, "g")}
			n := rapid.IntRange(2, 5).Draw(t, "npool")
			for i := 0; i < n; i++ {
				switch rapid.IntRange(0, 3).Draw(t, "kind") {
				case 0:
					in.Pool = append(in.Pool, gen.Value(spec.Set(spec.Number), gen.ValOpts{Unknown: true, Simple: true, MaxElems: 4}).Draw(t, "set"))
				case 1:
					in.Pool = append(in.Pool, gen.Value(spec.Map(spec.String), gen.ValOpts{Unknown: true, Null: true, Marks: true, Simple: true}).Draw(t, "map"))
				default:
					in.Pool = append(in.Pool, gen.AnyValue(gen.TypeOpts{Depth: 2, Dynamic: true}, gen.ValOpts{Null: true, Unknown: true, Marks: true, Simple: true}).Draw(t, "v"))
				}
			}
			nseq := rapid.IntRange(1, 3).Draw(t, "nseq")
			for s := 0; s < nseq; s++ {
				var seq []Step
				for i, m := 0, rapid.IntRange(2, 8).Draw(t, "len"); i < m; i++ {
					st := Step{K: rapid.SampledFrom([]string{"op", "op", "read", "read", "conv"}).Draw(t, "k")}
					st.A = rapid.IntRange(0, 7).Draw(t, "a")
					st.B = rapid.IntRange(0, 7).Draw(t, "b")
					st.N = rapid.IntRange(0, 11).Draw(t, "n")
					if st.K == "op" {
						st.Op = rapid.SampledFrom(ops.AllOps).Draw(t, "op")
						st.Attr = rapid.SampledFrom([]string{"a", "b", "id"}).Draw(t, "attr")
					}
					seq = append(seq, st)
				}
				in.Seqs = append(in.Seqs, seq)
			}
			return in
		},
		Check: checkRace,
	})
}

// RaceIn is the input of race/shared-values.
type RaceIn struct {
	Pool []spec.V `json:"pool"`
	Seqs [][]Step `json:"seqs"`
	G    int      `json:"g"`
}

// readOnly runs one read-only sequence over the shared pool and returns the
// fingerprints (or panic markers) of everything it computed.
func readOnly(pool []cty.Value, seq []Step) []string {
	var out []string
	rec := func(f func() string) {
		defer func() {
			if r := recover(); r != nil {
				out = append(out, "panic")
			}
		}()
		out = append(out, f())
	}
	pick := func(i int) cty.Value { return pool[mod(i, len(pool))] }
	for _, s := range seq {
		a, b := pick(s.A), pick(s.B)
		switch s.K {
		case "op":
			rec(func() string {
				args := []cty.Value{a}
				if ops.Arity(s.Op) == 2 {
					args = append(args, b)
				}
				o := ops.Apply(s.Op, args, s.Attr)
				if o.Panicked {
					return "rejected"
				}
				return fingerprint(o.Val)
			})
		case "conv":
			rec(func() string {
				r, err := convert.Convert(a, b.Type())
				if err != nil {
					return "error"
				}
				return fingerprint(r)
			})
		case "read":
			rec(func() string {
				u, ms := a.UnmarkDeep()
				switch mod(s.N, 12) {
				case 0:
					return fmt.Sprint(a.RawEquals(b))
				case 1:
					return fmt.Sprint(len(fmt.Sprintf("%#v", a))) // GoString prints mark sets in Go map order: only its length is stable
				case 2:
					return fmt.Sprint(u.Hash())
				case 3:
					return fmt.Sprint(len(ms), a.IsWhollyKnown(), a.HasWhollyKnownType())
				case 4:
					var ss []string
					for it := u.ElementIterator(); it.Next(); {
						k, e := it.Element()
						ss = append(ss, fingerprint(k), fingerprint(e))
					}
					return strings.Join(ss, "|")
				case 5:
					return fmt.Sprint(a.Type().Equals(b.Type()), len(a.Type().TestConformance(b.Type())), a.Type().FriendlyName())
				case 6:
					rng := u.Range()
					return fmt.Sprintf("%#v %t", rng.TypeConstraint(), rng.DefinitelyNotNull())
				case 7:
					vs := u.AsValueSet()
					return fmt.Sprint(vs.Length(), vs.Has(b))
				case 8:
					return fmt.Sprint(len(u.AsValueSlice()))
				case 9:
					return fmt.Sprint(len(u.AsValueMap()))
				case 10:
					var n int
					cty.Walk(a, func(p cty.Path, v cty.Value) (bool, error) { n++; return true, nil })
					return fmt.Sprint(n)
				default:
					return fingerprint(cty.UnknownAsNull(u))
				}
			})
		}
	}
	return out
}

func checkRace(c *facet.Ctx, in RaceIn) error {
	pool := make([]cty.Value, len(in.Pool))
	fps := make([]string, len(in.Pool))
	heavy := 0
	for i, p := range in.Pool {
		v, err := spec.Build(p)
		if err != nil {
			return facet.Failf("harness-build", "%v", err)
		}
		pool[i] = v
		fps[i] = fingerprint(v)
		if p.T.K == spec.KSet || p.T.K == spec.KMap || p.T.K == spec.KObject {
			heavy++
		}
	}
	if len(in.Seqs) == 0 || in.G < 1 {
		c.Skip()
		return nil
	}
	// The goroutines run FIRST, on values nothing has touched since they were
	// built: lazily initialised shared state (a memo filled on first use) would
	// otherwise already be filled by the sequential pass and no unsynchronised
	// write would remain for the race detector to see.
	got := make([][]string, in.G)
	var wg sync.WaitGroup
	start := make(chan struct{})
	for g := 0; g < in.G; g++ {
		wg.Add(1)
		go func(g int) {
			defer wg.Done()
			<-start
			got[g] = readOnly(pool, in.Seqs[g%len(in.Seqs)])
		}(g)
	}
	close(start)
	wg.Wait()
	want := make([][]string, len(in.Seqs))
	for i, s := range in.Seqs {
		want[i] = readOnly(pool, s)
	}
	c.Labelf("goroutines=%d", in.G)
	if in.G >= 2 && heavy > 0 {
		c.NonTrivial()
	}
	for g := 0; g < in.G; g++ {
		w := want[g%len(in.Seqs)]
		if !eqStrings(got[g], w) {
			return facet.Failf("concurrent-result-differs", "goroutine %d of %d computed %v, the sequential run computed %v", g, in.G, got[g], w)
		}
	}
	for i, v := range pool {
		if f := fingerprint(v); f != fps[i] {
			return facet.Failf("value-changed", "shared value #%d changed during concurrent read-only use: was %s now %s", i, fps[i], f)
		}
	}
	return nil
}
