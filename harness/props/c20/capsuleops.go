package c20

import (
	"fmt"
	"reflect"
	"strings"

	"github.com/zclconf/go-cty/cty"

	"verif/harness/facet"
)

// ctor-input/capsule-ops: the operations table given to CapsuleWithOps is Go
// data passed to a constructor ("Copy the operations to make sure the caller
// can't modify them after we're constructed", cty/capsule.go): overwriting it
// afterwards - typically to use it as the template of a second capsule type -
// must not change what the first type and its values report.

type capsNative struct{ N int }

// CapsOpsIn says which fields of the operations table are overwritten after
// the type has been built (bit set over the field list below).
type CapsOpsIn struct {
	Overwrite int  `json:"overwrite"`
	Second    bool `json:"second"` // a second capsule type is built from the edited table
}

var capsOpsFields = []string{"GoString", "TypeGoString", "Equals", "RawEquals", "HashKey", "ExtensionData"}

func init() {
	facet.Register(facet.F[CapsOpsIn]{
		Prop: "C20", Name: "ctor-input/capsule-ops",
		Rule: "a capsule type built by CapsuleWithOps from an operations table held in a variable, two values of it, a set holding them; then every subset of {GoString, TypeGoString, Equals, RawEquals, HashKey, ExtensionData} of the caller's table is overwritten (optionally a second type is built from it) and everything is read again: the type's and values' GoString, Equals, RawEquals, Hash, the extension data, set membership and the set's length must be what they were; enumerated exhaustively (2^6 subsets x 2); non-trivial when at least one field is overwritten",
		Exhaustive: func() []CapsOpsIn {
			var out []CapsOpsIn
			for m := 0; m < 1<<len(capsOpsFields); m++ {
				out = append(out, CapsOpsIn{Overwrite: m}, CapsOpsIn{Overwrite: m, Second: true})
			}
			return out
		},
		Check: func(c *facet.Ctx, in CapsOpsIn) error {
			type extKey int
			ops := &cty.CapsuleOps{
				GoString:     func(v interface{}) string { return fmt.Sprintf("orig(%d)", v.(*capsNative).N) },
				TypeGoString: func(reflect.Type) string { return "origType" },
				Equals: func(a, b interface{}) cty.Value {
					return cty.BoolVal(a.(*capsNative).N == b.(*capsNative).N)
				},
				RawEquals: func(a, b interface{}) bool { return a.(*capsNative).N == b.(*capsNative).N },
				HashKey:   func(v interface{}) string { return fmt.Sprint(v.(*capsNative).N) },
				ExtensionData: func(key interface{}) interface{} {
					if key == extKey(1) {
						return "orig-extension"
					}
					return nil
				},
			}
			ty := cty.CapsuleWithOps("caps", reflect.TypeOf(capsNative{}), ops)
			a1, a2, b := cty.CapsuleVal(ty, &capsNative{1}), cty.CapsuleVal(ty, &capsNative{1}), cty.CapsuleVal(ty, &capsNative{2})
			set := cty.SetVal([]cty.Value{a1, b})
			read := func() string {
				var sb strings.Builder
				fmt.Fprintf(&sb, "type=%#v a1=%#v b=%#v ", ty, a1, b)
				fmt.Fprintf(&sb, "a1==a2:%#v a1==b:%#v raw(a1,a2)=%t raw(a1,b)=%t ", a1.Equals(a2), a1.Equals(b), a1.RawEquals(a2), a1.RawEquals(b))
				fmt.Fprintf(&sb, "hash(a1)==hash(a2):%t ", a1.Hash() == a2.Hash())
				fmt.Fprintf(&sb, "ext=%v ", ty.CapsuleExtensionData(extKey(1)))
				fmt.Fprintf(&sb, "set.len=%d has(a2)=%#v has(b)=%#v has(3)=%#v set=%#v", set.LengthInt(), set.HasElement(a2), set.HasElement(b), set.HasElement(cty.CapsuleVal(ty, &capsNative{3})), set)
				return sb.String()
			}
			before := read()
			for i, f := range capsOpsFields {
				if in.Overwrite&(1<<i) == 0 {
					continue
				}
				c.Label("overwrite=" + f)
				switch f {
				case "GoString":
					ops.GoString = func(v interface{}) string { return "EDITED" }
				case "TypeGoString":
					ops.TypeGoString = func(reflect.Type) string { return "EDITEDTYPE" }
				case "Equals":
					ops.Equals = func(a, b interface{}) cty.Value { return cty.False }
				case "RawEquals":
					ops.RawEquals = func(a, b interface{}) bool { return false }
				case "HashKey":
					ops.HashKey = func(v interface{}) string { return "edited" }
				case "ExtensionData":
					ops.ExtensionData = func(key interface{}) interface{} { return "edited-extension" }
				}
			}
			if in.Second {
				_ = cty.CapsuleWithOps("caps2", reflect.TypeOf(capsNative{}), ops)
			}
			if in.Overwrite != 0 {
				c.NonTrivial()
			}
			if after := read(); after != before {
				return facet.Failf("ctor-input-aliased", "overwriting the caller's CapsuleOps table after CapsuleWithOps changed what the type and its values report:\n  before: %s\n  after:  %s", before, after)
			}
			return nil
		},
	})
}
