package c20

import (
	"fmt"
	"strings"

	"github.com/zclconf/go-cty/cty"
	"pgregory.net/rapid"

	"verif/harness/facet"
	"verif/harness/gen"
	"verif/harness/spec"
)

// PathOp is one step of a path history.
type PathOp struct {
	K string `json:"k"` // getattr | index-int | index-str | index | copy | unmark-paths | walk-copy | set-add | mutate-copy
	A int    `json:"a"`
	S string `json:"s,omitempty"`
	I int    `json:"i,omitempty"`
}

// PathHist is the input of history/paths.
type PathHist struct {
	V   spec.V   `json:"v"` // a value whose UnmarkDeepWithPaths / Walk supply further paths
	Ops []PathOp `json:"ops"`
}

type livePath struct {
	p      cty.Path
	model  []string
	origin string
}

func stepString(s cty.PathStep) string {
	switch ts := s.(type) {
	case cty.GetAttrStep:
		return "." + ts.Name
	case cty.IndexStep:
		return "[" + fingerprint(ts.Key) + "]"
	case nil:
		return "<nil>"
	}
	return fmt.Sprintf("<%T>", s)
}

// canonStrings describes a path up to the equivalence a PathSet uses: index
// keys are compared as values (equal numbers built by different routes are the
// same key), not by representation.
func canonStrings(p cty.Path) []string {
	out := make([]string, len(p))
	for i, s := range p {
		if is, ok := s.(cty.IndexStep); ok && is.Key.IsKnown() && !is.Key.IsNull() {
			switch is.Key.Type() {
			case cty.Number:
				out[i] = "[n:" + is.Key.AsBigFloat().Text('f', -1) + "]"
				continue
			case cty.String:
				out[i] = "[s:" + is.Key.AsString() + "]"
				continue
			}
		}
		out[i] = stepString(s)
	}
	return out
}

func pathStrings(p cty.Path) []string {
	out := make([]string, len(p))
	for i, s := range p {
		out[i] = stepString(s)
	}
	return out
}

func init() {
	facet.Register(facet.F[PathHist]{
		Prop: "C20", Name: "history/paths", Quick: 30000, Thorough: 300000, Shards: 4,
		Rule: "a pool of live paths grows by deriving children from any live path (GetAttr, IndexInt, IndexString, Index with a number key), by Copy, and from the paths reported by UnmarkDeepWithPaths and (copied) by Walk on a generated marked value; a copy may then be mutated; paths are also added to a PathSet. After every step each live path must still consist of exactly the steps it was created with, and the PathSet must still hold exactly the paths added. Non-trivial = some live path served as parent at least twice (siblings), or a copy was mutated",
		Gen: func(t *rapid.T) PathHist {
			h := PathHist{V: gen.AnyValue(gen.TypeOpts{Depth: 3}, gen.ValOpts{Marks: true, Null: true, Simple: true}).Draw(t, "v")}
			n := rapid.IntRange(3, 16).Draw(t, "nops")
			kinds := []string{"getattr", "getattr", "index-int", "index-str", "index", "copy", "unmark-paths", "walk-copy", "set-add", "mutate-copy"}
			for i := 0; i < n; i++ {
				h.Ops = append(h.Ops, PathOp{
					K: rapid.SampledFrom(kinds).Draw(t, "k"),
					A: rapid.IntRange(0, 9).Draw(t, "a"),
					S: rapid.SampledFrom([]string{"x", "y", "a", "b", "é"}).Draw(t, "s"),
					I: rapid.IntRange(0, 5).Draw(t, "i"),
				})
			}
			return h
		},
		Check: func(c *facet.Ctx, h PathHist) error {
			v, err := spec.Build(h.V)
			if err != nil {
				return facet.Failf("harness-build", "%v", err)
			}
			lives := []livePath{{p: cty.Path(nil), model: nil, origin: "empty"}}
			parentUse := map[int]int{}
			set := cty.NewPathSet()
			var setModel [][]string
			var log []string
			mutated := false
			push := func(p cty.Path, model []string, origin string) {
				lives = append(lives, livePath{p: p, model: append([]string(nil), model...), origin: origin})
			}
			check := func(step int) *facet.Failure {
				for i, l := range lives {
					if got := pathStrings(l.p); !eqStrings(got, l.model) {
						return facet.Failf("path-changed", "after step %d (%s): live path #%d (from %s) changed: was %v now %v; history: %s",
							step, log[len(log)-1], i, l.origin, l.model, got, strings.Join(log, " ; ")).With("origin", l.origin)
					}
				}
				// repeating the call on the unchanged set yields an equal result:
				// the same paths in the same order (documented: the order is
				// undefined but consistent)
				if len(setModel) > 1 {
					first := set.List()
					for rep := 0; rep < 6; rep++ {
						again := set.List()
						if len(again) != len(first) {
							return facet.Failf("pathset-list-impure", "after step %d: two calls of PathSet.List on the unchanged set returned %d and %d paths", step, len(first), len(again))
						}
						for k := range first {
							if !eqStrings(pathStrings(first[k]), pathStrings(again[k])) {
								return facet.Failf("pathset-list-impure", "after step %d (%s): two calls of PathSet.List on the unchanged set returned the paths in different orders (position %d: %v then %v)", step, log[len(log)-1], k, pathStrings(first[k]), pathStrings(again[k]))
							}
						}
					}
				}
				for _, m := range setModel {
					found := false
					for _, p := range set.List() {
						if eqStrings(canonStrings(p), m) {
							found = true
						}
					}
					if !found {
						return facet.Failf("pathset-changed", "after step %d (%s): the PathSet no longer holds %v; it holds %d paths; history: %s", step, log[len(log)-1], m, len(set.List()), strings.Join(log, " ; "))
					}
				}
				return nil
			}
			for i, op := range h.Ops {
				ai := mod(op.A, len(lives))
				parent := lives[ai]
				log = append(log, fmt.Sprintf("%s(#%d,%q,%d)", op.K, ai, op.S, op.I))
				switch op.K {
				case "getattr":
					parentUse[ai]++
					push(parent.p.GetAttr(op.S), append(append([]string(nil), parent.model...), "."+spec.NFC(op.S)), "GetAttr")
				case "index-int":
					parentUse[ai]++
					push(parent.p.IndexInt(op.I), append(append([]string(nil), parent.model...), "["+fingerprint(cty.NumberIntVal(int64(op.I)))+"]"), "IndexInt")
				case "index-str":
					parentUse[ai]++
					push(parent.p.IndexString(op.S), append(append([]string(nil), parent.model...), "["+fingerprint(cty.StringVal(op.S))+"]"), "IndexString")
				case "index":
					parentUse[ai]++
					k := cty.NumberFloatVal(float64(op.I))
					push(parent.p.Index(k), append(append([]string(nil), parent.model...), "["+fingerprint(k)+"]"), "Index")
				case "copy":
					push(parent.p.Copy(), parent.model, "Copy")
				case "mutate-copy":
					cp := parent.p.Copy()
					for j := range cp {
						cp[j] = cty.GetAttrStep{Name: "MUTATED"}
					}
					_ = append(cp, cty.GetAttrStep{Name: "MUTATED"})
					mutated = mutated || len(cp) > 0
				case "unmark-paths":
					_, pvms := v.UnmarkDeepWithPaths()
					if len(pvms) > 0 {
						p := pvms[mod(op.I, len(pvms))].Path
						push(p, pathStrings(p), "UnmarkDeepWithPaths")
					}
				case "walk-copy":
					n := 0
					_ = cty.Walk(v, func(p cty.Path, _ cty.Value) (bool, error) {
						if n == op.I {
							cp := p.Copy()
							push(cp, pathStrings(cp), "Walk+Copy")
						}
						n++
						return true, nil
					})
				case "set-add":
					set.Add(parent.p)
					cm := canonStrings(parent.p)
					dup := false
					for _, m := range setModel {
						if eqStrings(m, cm) {
							dup = true
						}
					}
					if !dup {
						setModel = append(setModel, cm)
					}
				}
				if f := check(i); f != nil {
					return f
				}
			}
			for _, n := range parentUse {
				if n >= 2 {
					c.NonTrivial()
					c.Label("siblings")
				}
			}
			if mutated {
				c.NonTrivial()
				c.Label("mutated-copy")
			}
			return nil
		},
	})
}
