#!/usr/bin/env python3
"""C20 extra stage: the concurrent facet (and a slice of the history/purity
facets) under the Go race detector at several GOMAXPROCS values. The quick
tier runs only the concurrent facet under the detector (about 3000 cases); the
thorough tier runs five facets at three GOMAXPROCS values."""
import argparse, hashlib, os, re, shutil, subprocess, sys, time

ap = argparse.ArgumentParser()
ap.add_argument("--tier"); ap.add_argument("--seed", type=int); ap.add_argument("--rundir")
ap.add_argument("--bin"); ap.add_argument("--verif-root"); ap.add_argument("--jobs", type=int, default=16)
a = ap.parse_args()
quick = a.tier != "thorough"

root = a.verif_root
harness = os.path.join(root, "harness")
out = os.path.join(root, ".run", "bin", "c20.race.test")
cmd = ["go", "test", "-c", "-race", "-tags", "verif", "-o", out]
if os.environ.get("VERIF_MODFILE"):
    cmd += ["-modfile", os.environ["VERIF_MODFILE"]]
    out = out.replace(".race.test", "-" + hashlib.sha256(os.environ["VERIF_MODFILE"].encode()).hexdigest()[:8] + ".race.test")
    cmd[cmd.index("-o") + 1] = out
cmd.append("./props/c20")
r = subprocess.run(cmd, cwd=harness, capture_output=True, text=True)
if r.returncode != 0:
    print("EXTRA-INFRA race build failed: " + (r.stdout + r.stderr)[-1500:].replace("\n", " | "))
    sys.exit(0)

plan = [("race/shared-values", 6000), ("purity/repeat", 20000), ("history/set-copy", 3000), ("accessor/mutate", 5000), ("purity/stdlib", 5000)]
gmps = (2, 4, 16)
if quick:
    # quick tier: the concurrent facet only, under the race detector
    plan = [("race/shared-values", 1500)]
    gmps = (2, 8)
total = 0
procs = []
for gmp in gmps:
    for facet, n in plan:
        h = hashlib.sha256(("%d|%s|%d" % (a.seed, facet, gmp)).encode()).digest()
        seed = (int.from_bytes(h[:8], "big") & ((1 << 62) - 1)) or 1
        wd = os.path.join(a.rundir, "race-%s-%d" % (re.sub(r"[^A-Za-z0-9]+", "_", facet), gmp))
        os.makedirs(wd, exist_ok=True)
        env = dict(os.environ, GOMAXPROCS=str(gmp), VERIF_MODE="search", VERIF_FACET=facet, VERIF_OUT=wd, VERIF_SHARD="r%d" % gmp,
                   GORACE="halt_on_error=0")
        p = subprocess.Popen([out, "-test.run", "^TestFacet$", "-test.timeout", "0", "-rapid.checks=%d" % n, "-rapid.seed=%d" % seed,
                              "-rapid.nofailfile", "-rapid.shrinktime=5s"], cwd=wd, env=env, stdout=subprocess.PIPE, stderr=subprocess.STDOUT, text=True)
        procs.append((facet, gmp, n, wd, p))
deadline = time.time() + 1500
for facet, gmp, n, wd, p in procs:
    try:
        o, _ = p.communicate(timeout=max(10, deadline - time.time()))
    except subprocess.TimeoutExpired:
        p.kill()
        print("EXTRA-INFRA race run %s GOMAXPROCS=%d timed out (inconclusive)" % (facet, gmp))
        continue
    if "WARNING: DATA RACE" in o:
        vdir = os.path.join(root, ".run", "violations")
        os.makedirs(vdir, exist_ok=True)
        path = os.path.join(vdir, "C20-race-%s-%d-%d.log" % (re.sub(r"[^A-Za-z0-9]+", "_", facet), gmp, int(time.time())))
        with open(path, "w") as fh:
            fh.write(o)
        first = o[o.index("WARNING: DATA RACE"):][:600].replace("\n", " | ")
        print("EXTRA-VIOLATION %s :: data race reported in facet %s at GOMAXPROCS=%d: %s" % (path, facet, gmp, first))
    elif p.returncode != 0:
        fails = [f for f in os.listdir(wd) if f.endswith(".fail.json")]
        if fails:
            vdir = os.path.join(root, ".run", "violations")
            os.makedirs(vdir, exist_ok=True)
            path = os.path.join(vdir, "C20-race-%d-%s" % (int(time.time()), fails[0]))
            shutil.copy(os.path.join(wd, fails[0]), path)
            print("EXTRA-VIOLATION %s :: facet %s failed under the race-enabled build at GOMAXPROCS=%d" % (path, facet, gmp))
        else:
            print("EXTRA-INFRA race run %s GOMAXPROCS=%d exited %d: %s" % (facet, gmp, p.returncode, o[-400:].replace("\n", " | ")))
    else:
        import glob, json
        for sf in glob.glob(os.path.join(wd, "*.stats.json")):
            total += json.load(open(sf)).get("evaluations", 0)
print("EXTRA-EVAL %d 0" % total)
print("EXTRA-NOTE race detector: %d cases over facets %s at GOMAXPROCS %s, no report" % (total, ",".join(f for f, _ in plan), "/".join(str(g) for g in gmps)))
