package c04

import (
	"bytes"
	"fmt"

	"github.com/zclconf/go-cty/cty"
	"github.com/zclconf/go-cty/cty/convert"
	"github.com/zclconf/go-cty/cty/function"
	"github.com/zclconf/go-cty/cty/function/stdlib"
	"pgregory.net/rapid"

	"verif/harness/convgen"
	"verif/harness/facet"
	"verif/harness/gen"
	"verif/harness/spec"
	"verif/harness/stdreg"
)

// ConvIn is the input of the convert facet: the value carries the marks.
type ConvIn struct {
	C      convgen.Case `json:"c"`
	Places []string     `json:"places,omitempty"`
}

type convOut struct {
	val   cty.Value
	err   error
	panic string
}

func doConvert(v cty.Value, ty cty.Type) (o convOut) {
	defer func() {
		if r := recover(); r != nil {
			o = convOut{panic: fmt.Sprint(r)}
		}
	}()
	r, err := convert.Convert(v, ty)
	return convOut{val: r, err: err}
}

func (o convOut) class() string {
	switch {
	case o.panic != "":
		return "panic"
	case o.err != nil:
		return "error"
	}
	return "ok"
}

// FnIn is the input of the stdlib facets.
type FnIn struct {
	Fn     string   `json:"fn"`
	Args   []spec.V `json:"args"` // carry the marks
	Places []string `json:"places,omitempty"`
	Weak   bool     `json:"weak,omitempty"`
}

func paramFor(fn function.Function, i int) (function.Parameter, bool) {
	ps := fn.Params()
	if i < len(ps) {
		return ps[i], true
	}
	if vp := fn.VarParam(); vp != nil {
		return *vp, true
	}
	return function.Parameter{}, false
}

// sameResult is RawEquals, except that two known stdlib.Bytes capsules (whose
// equality is pointer identity, so two separate calls never produce RawEqual
// results) are compared by content.
func sameResult(a, b cty.Value) bool {
	if a.Type().Equals(stdlib.Bytes) && b.Type().Equals(stdlib.Bytes) && a.IsKnown() && b.IsKnown() && !a.IsNull() && !b.IsNull() {
		return bytes.Equal(*(a.EncapsulatedValue().(*[]byte)), *(b.EncapsulatedValue().(*[]byte)))
	}
	return a.RawEquals(b)
}

func outcomeClass(o stdreg.Outcome) string {
	switch {
	case o.Panicked:
		return "panic"
	case o.Err != nil:
		return "error"
	}
	return "ok"
}

func genFn(family string) func(t *rapid.T) FnIn {
	return func(t *rapid.T) FnIn {
		e := stdreg.Pick(t, stdreg.Family(family))
		args := e.Args(t)
		in := FnIn{Fn: e.Name}
		if rapid.IntRange(0, 3).Draw(t, "weaken") == 0 {
			in.Weak = true
			for i := range args {
				if rapid.Bool().Draw(t, "weakenarg") {
					// half of the weakenings may use the type-unknown DynamicVal (at the
					// root and in tuple / object member positions)
					w, _ := gen.Weaken(t, args[i], rapid.Bool().Draw(t, "weakendyn"))
					args[i] = w
				}
			}
		}
		if len(args) > 0 {
			which := rapid.IntRange(0, len(args)).Draw(t, "markwhich")
			for i := range args {
				if which == len(args) || which == i {
					m, labels := gen.PlaceMarks(t, args[i], false)
					args[i] = m
					in.Places = append(in.Places, labels...)
				}
			}
		}
		in.Args = args
		return in
	}
}

func checkFn(c *facet.Ctx, in FnIn) error {
	e, ok := stdreg.ByName(in.Fn)
	if !ok {
		return facet.Failf("harness", "no function %q", in.Fn)
	}
	c.Label("fn=" + in.Fn)
	marked, err := e.Build(in.Args)
	if err != nil {
		return facet.Failf("harness-build", "marked arguments do not build: %v", err)
	}
	plainSpecs := make([]spec.V, len(in.Args))
	for i, a := range in.Args {
		plainSpecs[i] = a.StripMarks()
	}
	plain, err := e.Build(plainSpecs)
	if err != nil {
		return facet.Failf("harness-build", "stripped arguments do not build: %v", err)
	}
	r1 := stdreg.Call(e.Fn, marked)
	r0 := stdreg.Call(e.Fn, plain)
	for _, l := range in.Places {
		c.Label(l)
	}
	if in.Weak {
		c.Label("with-unknowns")
	}
	if outcomeClass(r0) != outcomeClass(r1) {
		return facet.Failf("outcome-differs", "%s%s: unmarked call gave %s (%v%s) but the call with marks %s gave %s (%v%s)",
			in.Fn, fmtArgs(plain), outcomeClass(r0), r0.Err, r0.Panic, fmtArgs(marked), outcomeClass(r1), r1.Err, r1.Panic).With("fn", in.Fn)
	}
	if outcomeClass(r0) != "ok" {
		c.Label("outcome=" + outcomeClass(r0))
		c.Skip()
		return nil
	}
	all := map[string]bool{}
	nested := false
	for _, a := range in.Args {
		for m := range a.DeepMarks() {
			all[m] = true
		}
		if len(a.DeepMarks()) > len(a.Marks) || (len(a.Marks) == 0 && a.HasMarks()) {
			nested = true
		}
	}
	if len(all) == 0 {
		c.Label("no-marks")
		c.Skip()
		return nil
	}
	if nested || len(all) >= 2 {
		c.NonTrivial()
	}
	u1, _ := r1.Val.UnmarkDeep()
	if !sameResult(u1, r0.Val) {
		return facet.Failf("result-differs", "%s%s = %#v but with marks %s = %#v", in.Fn, fmtArgs(plain), r0.Val, fmtArgs(marked), r1.Val).With("fn", in.Fn)
	}
	got := topMarks(r1.Val)
	for i, a := range marked {
		p, ok := paramFor(e.Fn, i)
		if !ok {
			continue
		}
		if p.AllowMarked {
			c.Label("allow-marked-param")
			continue
		}
		for m := range deepMarks(a) {
			if !got[m] {
				return facet.Failf("mark-lost", "%s%s = %#v lost mark %q of argument %d, whose parameter is not AllowMarked (result marks %s)",
					in.Fn, fmtArgs(marked), r1.Val, m, i, keys(got)).With("fn", in.Fn)
			}
		}
	}
	for m := range deepMarks(r1.Val) {
		if !all[m] {
			return facet.Failf("mark-invented", "%s%s = %#v carries mark %q that no argument carried", in.Fn, fmtArgs(marked), r1.Val, m).With("fn", in.Fn)
		}
	}
	return nil
}

func init() {
	facet.Register(facet.F[ConvIn]{
		Prop: "C04", Name: "convert", Quick: 60000, Thorough: 600000, Shards: 4,
		Rule: "(value, target type) pair as in C08 (target = the value's type edited 1..3 times, unrelated, or the same), values with nulls and unknowns at any depth, then 1..3 mark placements at any depth; non-trivial = the unmarked conversion succeeded and (a mark is nested or >= 2 distinct marks)",
		Gen: func(t *rapid.T) ConvIn {
			cs := convgen.Pair(convgen.Opts{Val: gen.ValOpts{Null: true, Unknown: true, Simple: true, Long: 8}}).Draw(t, "case")
			v, labels := gen.PlaceMarks(t, cs.V, false)
			cs.V = v
			return ConvIn{C: cs, Places: labels}
		},
		Check: func(c *facet.Ctx, in ConvIn) error {
			marked, err := spec.Build(in.C.V)
			if err != nil {
				return facet.Failf("harness-build", "%v", err)
			}
			plain, err := spec.Build(in.C.V.StripMarks())
			if err != nil {
				return facet.Failf("harness-build", "%v", err)
			}
			for _, e := range in.C.Edits {
				c.Label("edit=" + e)
			}
			for _, l := range in.Places {
				c.Label(l)
			}
			ty := in.C.Target.Cty()
			r1 := doConvert(marked, ty)
			r0 := doConvert(plain, ty)
			if r0.class() != r1.class() {
				return facet.Failf("outcome-differs", "Convert(%#v, %s) gave %s (%v%s) but with marks Convert(%#v) gave %s (%v%s)",
					plain, in.C.Target, r0.class(), r0.err, r0.panic, marked, r1.class(), r1.err, r1.panic)
			}
			if r0.class() != "ok" {
				c.Label("outcome=" + r0.class())
				c.Skip()
				return nil
			}
			all := in.C.V.DeepMarks()
			if len(all) > len(in.C.V.Marks) || len(all) >= 2 {
				c.NonTrivial()
			}
			u1, _ := r1.val.UnmarkDeep()
			if !u1.RawEquals(r0.val) {
				return facet.Failf("result-differs", "Convert(%#v, %s) = %#v but with marks Convert(%#v) = %#v", plain, in.C.Target, r0.val, marked, r1.val)
			}
			got := topMarks(r1.val)
			for m := range topMarks(marked) {
				if !got[m] {
					return facet.Failf("mark-lost", "Convert(%#v, %s) = %#v lost top-level mark %q", marked, in.C.Target, r1.val, m)
				}
			}
			for m := range deepMarks(r1.val) {
				if !all[m] {
					return facet.Failf("mark-invented", "Convert(%#v, %s) = %#v carries mark %q that the input did not carry", marked, in.C.Target, r1.val, m)
				}
			}
			if f := memberInvention(marked, r1.val, ""); f != nil {
				return f
			}
			// conversions between sequence kinds (list, set, tuple) and from map to
			// map keep every member (a set coalesces equal members and takes over
			// their marks, as the set constructor does): no mark at any depth may
			// get lost. Object types (in the value or the target) are left out: such a conversion may drop attributes or keys.
			if !typeHasObject(in.C.V.T) && !typeHasObject(in.C.Target) && keepsMembers(in.C.V.T, in.C.Target) {
				have := deepMarks(r1.val)
				for m := range all {
					if !have[m] {
						return facet.Failf("mark-lost-nested", "Convert(%#v, %s) = %#v lost mark %q, carried by a member of the converted value", marked, in.C.Target, r1.val, m)
					}
				}
				c.Label("nested-marks-kept")
			}
			return nil
		},
	})

	facet.Register(facet.F[ReuseIn]{
		Prop: "C04", Name: "convert/reuse", Quick: 40000, Thorough: 400000, Shards: 4,
		Rule: "one conversion looked up for a (source type, target type) pair as in C08 and applied to 2..4 values of the source type in turn, each with or without mark placements at any depth; every application must behave like a fresh Convert of that value alone (same outcome, same unmarked result, same marks at the top and per member); non-trivial = a marked value is followed by an unmarked or differently marked one and both conversions succeeded",
		Gen:  genReuse, Check: checkReuse,
	})

	for _, fam := range stdreg.Families() {
		n := len(stdreg.Family(fam))
		q := 3000 * n
		if q > 60000 {
			q = 60000
		}
		facet.Register(facet.F[FnIn]{
			Prop: "C04", Name: "stdlib/" + fam, Quick: q, Thorough: q * 10, Shards: 4,
			Rule: "function of the family drawn uniformly, in-domain argument list (one quarter of the cases weakened to typed unknowns), then 1..3 mark placements at any depth of one or all arguments; non-trivial = the unmarked call succeeded and (a mark is nested or >= 2 distinct marks)",
			Gen:  genFn(fam), Check: checkFn,
		})
	}
}

// memberInvention applies "no result carries a mark that no input carried" to
// the members of a conversion result: where input and result are sequences of
// the same length (list/tuple) or mappings (map/object), member k of the
// result is the conversion of member k of the input (docs/convert.md: element
// by element), so it may only carry marks found in or above that member.
func memberInvention(in, out cty.Value, path string) *facet.Failure {
	inAbove := topMarks(in)
	in, _ = in.Unmark()
	out, _ = out.Unmark()
	if !in.IsKnown() || !out.IsKnown() || in.IsNull() || out.IsNull() {
		return nil
	}
	it, ot := in.Type(), out.Type()
	seq := func(t cty.Type) bool { return t.IsListType() || t.IsTupleType() }
	mapping := func(t cty.Type) bool { return t.IsMapType() || t.IsObjectType() }
	check := func(k string, iv, ov cty.Value) *facet.Failure {
		allowed := deepMarks(iv)
		for m := range inAbove {
			allowed[m] = true
		}
		for m := range deepMarks(ov) {
			if !allowed[m] {
				return facet.Failf("mark-invented-member", "member %s%s of the conversion result %#v carries mark %q, which the corresponding input member %#v does not carry", path, k, ov, m, iv)
			}
		}
		return memberInvention(iv, ov, path+k)
	}
	switch {
	case seq(it) && seq(ot) && in.LengthInt() == out.LengthInt():
		ivs, ovs := in.AsValueSlice(), out.AsValueSlice()
		for i := range ivs {
			if f := check(fmt.Sprintf("[%d]", i), ivs[i], ovs[i]); f != nil {
				return f
			}
		}
	case mapping(it) && mapping(ot):
		ivs, ovs := in.AsValueMap(), out.AsValueMap()
		for k, ov := range ovs {
			if iv, ok := ivs[k]; ok {
				if f := check(fmt.Sprintf("[%q]", k), iv, ov); f != nil {
					return f
				}
			}
		}
	}
	return nil
}

// ReuseIn is the input of convert/reuse: one (source, target) type pair and
// several values of the source type, some of them carrying marks.
type ReuseIn struct {
	S      spec.T   `json:"s"`
	Target spec.T   `json:"target"`
	Unsafe bool     `json:"unsafe"`
	Vals   []spec.V `json:"vals"`
}

func genReuse(t *rapid.T) ReuseIn {
	cs := convgen.Pair(convgen.Opts{Val: gen.ValOpts{Null: true, Unknown: true, Simple: true, Long: 8}}).Draw(t, "case")
	in := ReuseIn{S: cs.V.StripMarks().Retype().T, Target: cs.Target, Unsafe: rapid.IntRange(0, 3).Draw(t, "unsafe") != 0}
	n := rapid.IntRange(2, 4).Draw(t, "nvals")
	for i := 0; i < n; i++ {
		var v spec.V
		if i == 0 {
			v = cs.V.StripMarks()
		} else if rapid.IntRange(0, 2).Draw(t, "samevalue") == 0 {
			v = in.Vals[0].StripMarks()
		} else {
			v = gen.Value(in.S, gen.ValOpts{Null: true, Unknown: true, Simple: true, MaxElems: 3}).Draw(t, "val")
		}
		if rapid.IntRange(0, 2).Draw(t, "mark") != 0 {
			v, _ = gen.PlaceMarks(t, v, false)
		}
		in.Vals = append(in.Vals, v)
	}
	return in
}

func checkReuse(c *facet.Ctx, in ReuseIn) error {
	st, tt := in.S.Cty(), in.Target.Cty()
	var conv convert.Conversion
	func() {
		defer func() { recover() }()
		if in.Unsafe {
			conv = convert.GetConversionUnsafe(st, tt)
		} else {
			conv = convert.GetConversion(st, tt)
		}
	}()
	if conv == nil {
		c.Label("no-conversion")
		c.Skip()
		return nil
	}
	apply := func(f func() (cty.Value, error)) (o convOut) {
		defer func() {
			if r := recover(); r != nil {
				o = convOut{panic: fmt.Sprint(r)}
			}
		}()
		v, err := f()
		return convOut{val: v, err: err}
	}
	prevMarks := ""
	for i, vs := range in.Vals {
		v, err := spec.Build(vs)
		if err != nil {
			return facet.Failf("harness-build", "%v", err)
		}
		if !v.Type().Equals(st) {
			// a value whose own type differs from the looked-up source type
			// (placeholders instantiated differently): not a valid subject
			c.Label("value-of-another-type")
			continue
		}
		reused := apply(func() (cty.Value, error) { return conv(v) })
		fresh := apply(func() (cty.Value, error) {
			var fc convert.Conversion
			if in.Unsafe {
				fc = convert.GetConversionUnsafe(st, tt)
			} else {
				fc = convert.GetConversion(st, tt)
			}
			return fc(v)
		})
		if reused.class() != fresh.class() {
			return facet.Failf("reuse-outcome-differs", "application %d of one looked-up conversion %s -> %s to %#v gave %s (%v%s), a freshly looked-up conversion gives %s (%v%s)",
				i+1, in.S, in.Target, v, reused.class(), reused.err, reused.panic, fresh.class(), fresh.err, fresh.panic)
		}
		marks := keys(deepMarks(v))
		if reused.class() == "ok" {
			if i > 0 && prevMarks != "{}" && marks != prevMarks {
				c.NonTrivial()
			}
			if !reused.val.RawEquals(fresh.val) {
				return facet.Failf("reuse-result-differs", "application %d of one looked-up conversion %s -> %s to %#v = %#v, a freshly looked-up conversion gives %#v",
					i+1, in.S, in.Target, v, reused.val, fresh.val)
			}
			all := deepMarks(v)
			for m := range deepMarks(reused.val) {
				if !all[m] {
					return facet.Failf("mark-invented", "application %d of one looked-up conversion %s -> %s to %#v = %#v carries mark %q that this input did not carry (an earlier input did)",
						i+1, in.S, in.Target, v, reused.val, m)
				}
			}
			got := topMarks(reused.val)
			for m := range topMarks(v) {
				if !got[m] {
					return facet.Failf("mark-lost", "application %d of one looked-up conversion to %#v = %#v lost top-level mark %q", i+1, v, reused.val, m)
				}
			}
			if f := memberInvention(v, reused.val, ""); f != nil {
				return f
			}
		}
		prevMarks = marks
	}
	return nil
}

func typeHasObject(t spec.T) bool {
	switch t.K {
	case spec.KObject:
		return true
	case spec.KList, spec.KSet, spec.KMap:
		return typeHasObject(*t.E)
	case spec.KTuple:
		for _, e := range t.Elems {
			if typeHasObject(e) {
				return true
			}
		}
	}
	return false
}

// keepsMembers: the conversion is between sequence kinds or from map to map.
func keepsMembers(from, to spec.T) bool {
	seq := func(k string) bool { return k == spec.KList || k == spec.KSet || k == spec.KTuple }
	return (seq(from.K) && seq(to.K)) || (from.K == spec.KMap && to.K == spec.KMap)
}
