// Package c04: marks never change results, are never lost where promised,
// never invented. Paired runs: the same call on marked inputs and on the same
// inputs with every mark stripped.
package c04

import (
	"fmt"
	"sort"
	"strings"

	"github.com/zclconf/go-cty/cty"
	"pgregory.net/rapid"

	"verif/harness/facet"
	"verif/harness/gen"
	"verif/harness/ops"
	"verif/harness/spec"
)

// OpIn is the input of the ops/* facets.
type OpIn struct {
	C      ops.Case `json:"c"` // operands carry the marks
	Places []string `json:"places,omitempty"`
	Weak   bool     `json:"weak,omitempty"`
}

func topMarks(v cty.Value) map[string]bool {
	out := map[string]bool{}
	for m := range v.Marks() {
		out[fmt.Sprint(m)] = true
	}
	return out
}

func deepMarks(v cty.Value) map[string]bool {
	out := map[string]bool{}
	_, ms := v.UnmarkDeep()
	for m := range ms {
		out[fmt.Sprint(m)] = true
	}
	return out
}

func keys(m map[string]bool) string {
	ks := make([]string, 0, len(m))
	for k := range m {
		ks = append(ks, k)
	}
	sort.Strings(ks)
	return "{" + strings.Join(ks, ",") + "}"
}

func buildAll(vs []spec.V) ([]cty.Value, error) {
	out := make([]cty.Value, len(vs))
	for i, v := range vs {
		b, err := spec.Build(v)
		if err != nil {
			return nil, err
		}
		out[i] = b
	}
	return out, nil
}

func fmtArgs(vs []cty.Value) string {
	ss := make([]string, len(vs))
	for i, v := range vs {
		ss[i] = fmt.Sprintf("%#v", v)
	}
	return "(" + strings.Join(ss, ", ") + ")"
}

func genOps(names []string) func(t *rapid.T) OpIn {
	return func(t *rapid.T) OpIn {
		op := rapid.SampledFrom(names).Draw(t, "op")
		c := ops.Concrete(op).Draw(t, "case")
		in := OpIn{}
		if rapid.IntRange(0, 2).Draw(t, "weaken") == 0 {
			in.Weak = true
			for i, a := range c.Args {
				w, _ := gen.Weaken(t, a, true)
				c.Args[i] = w
			}
		}
		which := rapid.IntRange(0, len(c.Args)).Draw(t, "markwhich") // len = all
		for i := range c.Args {
			if which == len(c.Args) || which == i {
				m, labels := gen.PlaceMarks(t, c.Args[i], false)
				c.Args[i] = m
				in.Places = append(in.Places, labels...)
			}
		}
		in.C = c
		return in
	}
}

func checkOps(c *facet.Ctx, in OpIn) error {
	c.Label("op=" + in.C.Op)
	marked, err := buildAll(in.C.Args)
	if err != nil {
		// a marked spec that does not build while the stripped one does is
		// itself interference by marks (constructors are not under test here,
		// but nothing in the generator should make Build fail)
		return facet.Failf("harness-build", "marked operands do not build: %v", err)
	}
	plainSpecs := make([]spec.V, len(in.C.Args))
	for i, a := range in.C.Args {
		plainSpecs[i] = a.StripMarks()
	}
	plain, err := buildAll(plainSpecs)
	if err != nil {
		return facet.Failf("harness-build", "stripped operands do not build: %v", err)
	}
	r1 := ops.Apply(in.C.Op, marked, in.C.Attr)
	r0 := ops.Apply(in.C.Op, plain, in.C.Attr)
	for _, l := range in.Places {
		c.Label(l)
	}
	if in.Weak {
		c.Label("with-unknowns")
	}
	if r0.Panicked != r1.Panicked {
		return facet.Failf("outcome-differs", "%s%s: unmarked run panicked=%t (%s) but marked run %s panicked=%t (%s)",
			in.C.Op, fmtArgs(plain), r0.Panicked, r0.Panic, fmtArgs(marked), r1.Panicked, r1.Panic).With("op", in.C.Op).With("panic", r1.Panic+r0.Panic)
	}
	if r0.Panicked {
		c.Label("rejected")
		c.Skip()
		return nil
	}
	all := map[string]bool{}
	nested := false
	for i, a := range in.C.Args {
		for m := range a.DeepMarks() {
			all[m] = true
		}
		if len(a.DeepMarks()) > len(a.Marks) || (len(a.Marks) == 0 && a.HasMarks()) {
			nested = true
		}
		_ = i
	}
	if nested || len(all) >= 2 {
		c.NonTrivial()
	}
	// (ii) same result once marks are stripped
	u1, _ := r1.Val.UnmarkDeep()
	if !u1.RawEquals(r0.Val) {
		return facet.Failf("result-differs", "%s%s = %#v but with marks %s = %#v (unmarked: %#v)", in.C.Op, fmtArgs(plain), r0.Val, fmtArgs(marked), r1.Val, u1).With("op", in.C.Op)
	}
	// (iii) top-level operand marks survive on the result
	got := topMarks(r1.Val)
	for i, a := range marked {
		for m := range topMarks(a) {
			if !got[m] {
				return facet.Failf("mark-lost", "%s%s = %#v lost mark %q of operand %d (result marks %s)", in.C.Op, fmtArgs(marked), r1.Val, m, i, keys(got)).With("op", in.C.Op)
			}
		}
	}
	// (iv) nothing invented
	for m := range deepMarks(r1.Val) {
		if !all[m] {
			return facet.Failf("mark-invented", "%s%s = %#v carries mark %q that no operand carried", in.C.Op, fmtArgs(marked), r1.Val, m).With("op", in.C.Op)
		}
	}
	return nil
}

const opsRule = "operand tuple for the operation (as in C01: by class, with nulls; one third of the cases also weakened to unknowns at any depth), then 1..3 mark placements (1..2 of three marks each) on the top-level value and/or nested members of one or all operands; non-trivial = the unmarked call succeeded and (a mark sits on a nested member or >= 2 distinct marks are present); distinct = hash of the input JSON"

// SetIn is the input of setval/hoist.
type SetIn struct {
	Members []spec.V `json:"members"`
}

func init() {
	groups := []struct {
		name  string
		ops   []string
		quick int
	}{
		{"ops/equality", ops.Eq, 60000},
		{"ops/arith", append(append([]string{}, ops.Arith2...), ops.Arith1...), 60000},
		{"ops/compare", ops.Cmp, 40000},
		{"ops/logic", append(append([]string{}, ops.Logic2...), ops.Logic1...), 30000},
		{"ops/index", []string{"Index", "HasIndex", "GetAttr"}, 60000},
		{"ops/set-length", []string{"HasElement", "Length"}, 60000},
	}
	for _, g := range groups {
		facet.Register(facet.F[OpIn]{
			Prop: "C04", Name: g.name, Rule: opsRule, Quick: g.quick, Thorough: g.quick * 10, Shards: 4,
			Gen: genOps(g.ops), Check: checkOps,
		})
	}

	facet.Register(facet.F[OpIn]{
		Prop: "C04", Name: "ops/mark-derived", Quick: 40000, Thorough: 400000, Shards: 4,
		Rule: "an operation call on marked operands (as ops/*); its result, and members extracted from the operands by Index / GetAttr / iteration, are given fresh marks with Mark / WithMarks / WithSameMarks; afterwards the operands, and a repetition of the call, must carry exactly the marks they were constructed with (no mark that no input carried); non-trivial = a nested member is marked",
		Gen:  genOps(ops.AllOps),
		Check: func(c *facet.Ctx, in OpIn) error {
			c.Label("op=" + in.C.Op)
			args, err := buildAll(in.C.Args)
			if err != nil {
				return facet.Failf("harness-build", "%v", err)
			}
			want := make([]map[string]bool, len(args))
			all := map[string]bool{}
			for i, a := range in.C.Args {
				want[i] = a.DeepMarks()
				for m := range want[i] {
					all[m] = true
				}
				if len(a.DeepMarks()) > len(a.Marks) || (len(a.Marks) == 0 && a.HasMarks()) {
					c.NonTrivial()
				}
			}
			r := ops.Apply(in.C.Op, args, in.C.Attr)
			fresh := func(v cty.Value) {
				defer func() { recover() }()
				_ = v.Mark(spec.Mark("fresh1"))
				_ = v.WithMarks(cty.NewValueMarks(spec.Mark("fresh2")))
				_ = v.WithSameMarks(cty.StringVal("x").Mark(spec.Mark("fresh3")))
			}
			if !r.Panicked {
				fresh(r.Val)
			}
			for _, a := range args {
				fresh(a)
				func() {
					defer func() { recover() }()
					u, _ := a.Unmark()
					if u.IsKnown() && !u.IsNull() && u.CanIterateElements() {
						for it := u.ElementIterator(); it.Next(); {
							k, e := it.Element()
							fresh(e)
							fresh(k)
						}
					}
				}()
			}
			for i, a := range args {
				got := deepMarks(a)
				if keys(got) != keys(want[i]) {
					return facet.Failf("mark-invented", "operand %d was built with marks %s but now carries %s after marking values derived from it", i, keys(want[i]), keys(got)).With("op", in.C.Op)
				}
			}
			r2 := ops.Apply(in.C.Op, args, in.C.Attr)
			if !r2.Panicked {
				for m := range deepMarks(r2.Val) {
					if !all[m] {
						return facet.Failf("mark-invented", "%s%s = %#v carries mark %q that no operand was built with", in.C.Op, fmtArgs(args), r2.Val, m).With("op", in.C.Op)
					}
				}
			}
			return nil
		},
	})

	facet.Register(facet.F[SetIn]{
		Prop: "C04", Name: "setval/hoist", Quick: 40000, Thorough: 400000, Shards: 4,
		Rule: "1..4 members of one element type (depth <= 2, nulls and unknowns allowed) with marks placed on members and inside them; SetVal must carry exactly the union of all member marks at the top, hold no marks inside, and equal the set built from the stripped members; non-trivial = a mark inside a member or >= 2 distinct marks",
		Gen: func(t *rapid.T) SetIn {
			et := gen.Type(gen.TypeOpts{Depth: 2}).Draw(t, "et")
			n := rapid.IntRange(1, 4).Draw(t, "n")
			in := SetIn{}
			for i := 0; i < n; i++ {
				m := gen.Value(et, gen.ValOpts{Null: true, Unknown: true, Simple: true}).Draw(t, "member")
				if rapid.IntRange(0, 3).Draw(t, "markit") != 0 {
					m, _ = gen.PlaceMarks(t, m, false)
				}
				in.Members = append(in.Members, m)
			}
			return in
		},
		Check: func(c *facet.Ctx, in SetIn) error {
			all := map[string]bool{}
			nested := false
			plainSpecs := make([]spec.V, len(in.Members))
			for i, m := range in.Members {
				for k := range m.DeepMarks() {
					all[k] = true
				}
				if len(m.DeepMarks()) > len(m.Marks) || (len(m.Marks) == 0 && m.HasMarks()) {
					nested = true
				}
				plainSpecs[i] = m.StripMarks()
			}
			if len(all) == 0 {
				c.Skip()
				return nil
			}
			if nested || len(all) >= 2 {
				c.NonTrivial()
			}
			marked, err := buildAll(in.Members)
			if err != nil {
				return facet.Failf("harness-build", "%v", err)
			}
			plain, err := buildAll(plainSpecs)
			if err != nil {
				return facet.Failf("harness-build", "%v", err)
			}
			mk := func(vs []cty.Value) (out cty.Value, p string) {
				defer func() {
					if r := recover(); r != nil {
						p = fmt.Sprint(r)
					}
				}()
				return cty.SetVal(vs), ""
			}
			s1, p1 := mk(marked)
			s0, p0 := mk(plain)
			if (p1 != "") != (p0 != "") {
				return facet.Failf("outcome-differs", "SetVal%s panics=%q but with marks SetVal%s panics=%q", fmtArgs(plain), p0, fmtArgs(marked), p1)
			}
			if p0 != "" {
				c.Skip()
				return nil
			}
			got := topMarks(s1)
			for m := range all {
				if !got[m] {
					return facet.Failf("mark-lost", "SetVal%s = %#v does not carry member mark %q at the top", fmtArgs(marked), s1, m)
				}
			}
			for m := range deepMarks(s1) {
				if !all[m] {
					return facet.Failf("mark-invented", "SetVal%s = %#v carries mark %q that no member carried", fmtArgs(marked), s1, m)
				}
			}
			u, _ := s1.Unmark()
			if u.ContainsMarked() {
				return facet.Failf("mark-inside-set", "SetVal%s = %#v still has marks below the top level", fmtArgs(marked), s1)
			}
			if !u.RawEquals(s0) {
				return facet.Failf("result-differs", "SetVal of marked members %#v differs from SetVal of stripped members %#v", s1, s0)
			}
			return nil
		},
	})
}
