package c02

import (
	"fmt"
	"math"
	"math/big"
	"testing"

	"github.com/zclconf/go-cty/cty"
)

func try(f func() cty.Value) (s string) {
	defer func() {
		if r := recover(); r != nil {
			s = fmt.Sprintf("PANIC(%T): %v", r, r)
		}
	}()
	v := f()
	return fmt.Sprintf("%#v", v)
}

func bigv(s string, prec uint) cty.Value {
	f, _, _ := big.ParseFloat(s, 10, prec, big.ToNearestEven)
	return cty.NumberVal(f)
}

func TestProbe(t *testing.T) {
	m := cty.MapVal(map[string]cty.Value{"a": cty.StringVal("x")})
	fmt.Println("map missing:", try(func() cty.Value { return m.Index(cty.StringVal("zz")) }))
	fmt.Println("map hasindex missing:", try(func() cty.Value { return m.HasIndex(cty.StringVal("zz")) }))
	l := cty.ListVal([]cty.Value{cty.StringVal("x")})
	fmt.Println("list 1:", try(func() cty.Value { return l.Index(cty.NumberIntVal(1)) }))
	fmt.Println("list 2^64:", try(func() cty.Value { return l.Index(cty.MustParseNumberVal("18446744073709551616")) }))
	fmt.Println("list 2^64 hasindex:", try(func() cty.Value { return l.HasIndex(cty.MustParseNumberVal("18446744073709551616")) }))
	fmt.Println("list 2^32 hasindex:", try(func() cty.Value { return l.HasIndex(cty.MustParseNumberVal("4294967296")) }))
	fmt.Println("list -0:", try(func() cty.Value { return l.Index(cty.NumberFloatVal(math.Copysign(0, -1))) }))
	fmt.Println("list inf has:", try(func() cty.Value { return l.HasIndex(cty.PositiveInfinity) }))
	fmt.Println("list inf:", try(func() cty.Value { return l.Index(cty.PositiveInfinity) }))
	fmt.Println("list null key has:", try(func() cty.Value { return l.HasIndex(cty.NullVal(cty.Number)) }))
	fmt.Println("list null key:", try(func() cty.Value { return l.Index(cty.NullVal(cty.Number)) }))
	fmt.Println("map null key has:", try(func() cty.Value { return m.HasIndex(cty.NullVal(cty.String)) }))
	fmt.Println("map null key:", try(func() cty.Value { return m.Index(cty.NullVal(cty.String)) }))
	fmt.Println("tuple null key has:", try(func() cty.Value { return cty.TupleVal([]cty.Value{cty.True}).HasIndex(cty.NullVal(cty.Number)) }))
	fmt.Println("tuple 5:", try(func() cty.Value { return cty.TupleVal([]cty.Value{cty.True}).Index(cty.NumberIntVal(5)) }))
	fmt.Println("set hasindex:", try(func() cty.Value { return cty.SetVal([]cty.Value{cty.True}).HasIndex(cty.True) }))
	fmt.Println("obj hasindex:", try(func() cty.Value { return cty.EmptyObjectVal.HasIndex(cty.True) }))
	fmt.Println("65280(8) mod 7(8):", try(func() cty.Value { return bigv("65280", 8).Modulo(bigv("7", 8)) }))
	fmt.Println("1e22f mod 7:", try(func() cty.Value { return cty.NumberFloatVal(1e22).Modulo(cty.NumberIntVal(7)) }))
	fmt.Println("5f mod 0.3p:", try(func() cty.Value { return cty.NumberFloatVal(5).Modulo(cty.MustParseNumberVal("0.3")) }))
	fmt.Println("5 mod 0.1p:", try(func() cty.Value { return cty.NumberIntVal(5).Modulo(cty.MustParseNumberVal("0.1")) }))
	fmt.Println("inf mod 3:", try(func() cty.Value { return cty.PositiveInfinity.Modulo(cty.NumberIntVal(3)) }))
	fmt.Println("3 mod inf:", try(func() cty.Value { return cty.NumberIntVal(3).Modulo(cty.PositiveInfinity) }))
	fmt.Println("3 mod -inf:", try(func() cty.Value { return cty.NumberIntVal(3).Modulo(cty.NegativeInfinity) }))
	fmt.Println("inf mod 0:", try(func() cty.Value { return cty.PositiveInfinity.Modulo(cty.Zero) }))
	fmt.Println("inf(float) mod 3:", try(func() cty.Value { return cty.NumberFloatVal(math.Inf(1)).Modulo(cty.NumberIntVal(3)) }))
	fmt.Println("0/0:", try(func() cty.Value { return cty.Zero.Divide(cty.Zero) }))
	fmt.Println("-0/0:", try(func() cty.Value { return cty.NumberFloatVal(math.Copysign(0, -1)).Divide(cty.Zero) }))
	fmt.Println("1/-0:", try(func() cty.Value { return cty.NumberIntVal(1).Divide(cty.NumberFloatVal(math.Copysign(0, -1))) }))
	fmt.Println("-1/0:", try(func() cty.Value { return cty.NumberIntVal(-1).Divide(cty.Zero) }))
	fmt.Println("inf-inf:", try(func() cty.Value { return cty.PositiveInfinity.Subtract(cty.PositiveInfinity) }))
	fmt.Println("inf*0:", try(func() cty.Value { return cty.PositiveInfinity.Multiply(cty.Zero) }))
	fmt.Println("inf/inf:", try(func() cty.Value { return cty.PositiveInfinity.Divide(cty.NegativeInfinity) }))
	fmt.Println("1/inf:", try(func() cty.Value { return cty.NumberIntVal(1).Divide(cty.NegativeInfinity) }))
	fmt.Println("(2^64-1)+(2^64-2) uint:", try(func() cty.Value { return cty.NumberUIntVal(math.MaxUint64).Add(cty.NumberUIntVal(math.MaxUint64 - 1)) }))
	fmt.Println("1e400*1e400:", try(func() cty.Value { return cty.MustParseNumberVal("1e400").Multiply(cty.MustParseNumberVal("1e400")) }))
	a := cty.MustParseNumberVal("0.1")
	b := cty.NumberFloatVal(0.1)
	fmt.Println("0.1p <= 0.1f", a.LessThanOrEqualTo(b).True(), b.LessThanOrEqualTo(a).True(), a.LessThan(b).True(), a.GreaterThan(b).True(), a.Equals(b).True())
	fmt.Println("getattr missing:", try(func() cty.Value { return cty.EmptyObjectVal.GetAttr("a") }))
	fmt.Println("length obj:", try(func() cty.Value { return cty.EmptyObjectVal.Length() }))
	fmt.Println("haselement list:", try(func() cty.Value { return l.HasElement(cty.True) }))
	fmt.Println("haselement wrong type:", try(func() cty.Value { return cty.SetVal([]cty.Value{cty.True}).HasElement(cty.Zero) }))
	fmt.Println("add str:", try(func() cty.Value { return cty.Zero.Add(cty.StringVal("a")) }))
	fmt.Println("lt str:", try(func() cty.Value { return cty.Zero.LessThan(cty.StringVal("a")) }))
	fmt.Println("le str:", try(func() cty.Value { return cty.Zero.LessThanOrEqualTo(cty.StringVal("a")) }))
	fmt.Println("and num:", try(func() cty.Value { return cty.True.And(cty.Zero) }))
	fmt.Println("not num:", try(func() cty.Value { return cty.Zero.Not() }))
	fmt.Println("add null:", try(func() cty.Value { return cty.Zero.Add(cty.NullVal(cty.Number)) }))
}
