package c02

import (
	"fmt"
	"math/big"
	"sort"
	"strconv"

	"github.com/zclconf/go-cty/cty"
	"golang.org/x/text/unicode/norm"
	"pgregory.net/rapid"

	"verif/harness/facet"
	"verif/harness/gen"
	"verif/harness/model"
	"verif/harness/spec"
	"verif/harness/wf"
)

// element types of the generated collections: no dynamic placeholders, no
// capsules, no optional attributes; nested collections allowed.
var elemTypeOpts = gen.TypeOpts{Depth: 2}

// members may be null at any depth below the root; nothing is unknown or marked.
var memberOpts = gen.ValOpts{Null: true, RootKnown: true, MaxElems: 4, Long: 20}

// ---------------------------------------------------------------- equality bounds for set models

// numStrict: equal under every documented reading (numerically identical AND
// same canonical text).
func numStrict(a, b *big.Float) bool {
	return a.Cmp(b) == 0 && model.NumText(a) == model.NumText(b)
}

// eqBounds compares two wholly-known values under the narrowest and the most
// generous documented equality. sure: equal under every reading; maybe: equal
// under some reading.
func eqBounds(a, b cty.Value) (sure, maybe bool) {
	return model.RefEq(a, b, numStrict), model.RefEq(a, b, model.NumEqDoc)
}

// sameMember reports whether the value the library returned is exactly the
// member it was constructed from: same type, same structure, numerically
// identical numbers.
func sameMember(got cty.Value, member spec.V) bool {
	want := spec.MustBuild(member)
	return model.RefEq(got, want, model.NumEqExact)
}

// ---------------------------------------------------------------- index / hasindex

// IndexCase is the input of the index facet: an indexable value and a key.
type IndexCase struct {
	Coll spec.V `json:"coll"`
	Key  spec.V `json:"key"`
	Kind string `json:"kind"` // how the key was chosen (label only)
}

func drawIndexable(t *rapid.T) spec.V {
	var ty spec.T
	switch rapid.IntRange(0, 2).Draw(t, "collkind") {
	case 0:
		ty = spec.List(gen.Type(elemTypeOpts).Draw(t, "ety"))
	case 1:
		ty = spec.Map(gen.Type(elemTypeOpts).Draw(t, "ety"))
	default:
		n := tupLen(t)
		es := make([]spec.T, n)
		for i := range es {
			es[i] = gen.Type(elemTypeOpts).Draw(t, "tty")
		}
		ty = spec.Tuple(es...)
	}
	return gen.Value(ty, memberOpts).Draw(t, "coll")
}

// wholeKey holds the whole number i as a key through a random route.
func wholeKey(t *rapid.T, i int64) spec.Num {
	s := strconv.FormatInt(i, 10)
	switch rapid.IntRange(0, 5).Draw(t, "keyroute") {
	case 0:
		return spec.NParse(s)
	case 1:
		return spec.NFloat(float64(i))
	case 2:
		return spec.Num{Route: "big", Text: s, Prec: uint(rapid.SampledFrom([]int{8, 24, 53, 100, 512}).Draw(t, "keyprec"))}
	case 3:
		if i >= 0 {
			return spec.Num{Route: "uint", Text: s}
		}
		return spec.NInt(i)
	case 4:
		return spec.NParse(s + ".000") // decimal text of a whole number
	default:
		return spec.NInt(i)
	}
}

var hugeKeys = []string{"2147483647", "2147483648", "4294967295", "4294967296", "4294967297", "9223372036854775807", "9223372036854775808",
	"18446744073709551615", "18446744073709551616", "18446744073709551617", "36893488147419103232", "1e40", "1e400", "-9223372036854775808",
	"-18446744073709551616", "-4294967296"}

var fracKeys = []string{"0.5", "0.999999999999999999999999999999", "1e-30", "1e-400", "-0.5", "-1e-30", "0.0000000000000000000000000000000000000001",
	"1.5", "0.1", "2.000000000000000000000000000001", "1.9999999999999999999999999999999999"}

func drawNumberKey(t *rapid.T, n int) (spec.V, string) {
	kinds := []string{"in-range", "in-range", "in-range", "edge", "edge", "fractional", "huge", "negzero-inf", "any-number"}
	k := rapid.SampledFrom(kinds).Draw(t, "keykind")
	switch k {
	case "in-range":
		if n > 0 {
			return spec.KnownNum(wholeKey(t, int64(rapid.IntRange(0, n-1).Draw(t, "idx")))), k
		}
		return spec.KnownNum(wholeKey(t, 0)), "edge"
	case "edge":
		i := rapid.SampledFrom([]int{n - 1, n, n + 1, -1, 0, -n}).Draw(t, "edgeidx")
		return spec.KnownNum(wholeKey(t, int64(i))), k
	case "fractional":
		s := rapid.SampledFrom(fracKeys).Draw(t, "frac")
		if rapid.Bool().Draw(t, "fracfloat") {
			if f, err := strconv.ParseFloat(s, 64); err == nil && f != float64(int64(f)) {
				return spec.KnownNum(spec.NFloat(f)), k
			}
		}
		return spec.KnownNum(spec.NParse(s)), k
	case "huge":
		s := rapid.SampledFrom(hugeKeys).Draw(t, "huge")
		if rapid.Bool().Draw(t, "hugefloat") {
			if f, err := strconv.ParseFloat(s, 64); err == nil {
				return spec.KnownNum(spec.NFloat(f)), k
			}
		}
		return spec.KnownNum(spec.NParse(s)), k
	case "negzero-inf":
		return spec.KnownNum(spec.Num{Route: rapid.SampledFrom([]string{"negzero", "+inf", "-inf", "zero"}).Draw(t, "special")}), k
	default:
		return spec.KnownNum(drawNum(t, "key")), k
	}
}

var extraMapKeys = []string{"a", "b", "c", "k1", "k2", "\u00e9", "e\u0301", "", "z", "foo", "\u65e5", "A", "a ", "aa", "0", "1", "\u00c5", "\u212b", "A\u030a"}

func drawStringKey(t *rapid.T, keys []string) (spec.V, string) {
	switch rapid.IntRange(0, 5).Draw(t, "skeykind") {
	case 0, 1:
		if len(keys) > 0 {
			return spec.KnownStr(rapid.SampledFrom(keys).Draw(t, "present")), "present"
		}
	case 2:
		if len(keys) > 0 {
			// another spelling of a present key (decomposed form)
			k := rapid.SampledFrom(keys).Draw(t, "present")
			return spec.KnownStr(norm.NFD.String(k)), "present-other-normal-form"
		}
	case 3:
		if len(keys) > 0 {
			k := rapid.SampledFrom(keys).Draw(t, "present")
			return spec.KnownStr(k + rapid.SampledFrom([]string{"x", " ", "\u0301", "\u0000"}).Draw(t, "suffix")), "near-miss"
		}
	}
	return spec.KnownStr(rapid.SampledFrom(extraMapKeys).Draw(t, "pool")), "pool"
}

func drawOtherValue(t *rapid.T) spec.V {
	return gen.AnyValue(gen.TypeOpts{Depth: 1}, gen.ValOpts{RootKnown: true, Simple: true}).Draw(t, "other")
}

func genIndexCase(t *rapid.T) IndexCase {
	coll := drawIndexable(t)
	roll := rapid.IntRange(0, 19).Draw(t, "keyclass")
	isMap := coll.T.K == spec.KMap
	switch {
	case roll == 19:
		// null key of the right type
		if isMap {
			return IndexCase{coll, spec.NullOf(spec.String), "null-key"}
		}
		return IndexCase{coll, spec.NullOf(spec.Number), "null-key"}
	case roll == 18 || roll == 17:
		return IndexCase{coll, drawOtherValue(t), "any-value"}
	case roll == 16:
		// the other collection kind's key type
		if isMap {
			k, _ := drawNumberKey(t, len(coll.Elems))
			return IndexCase{coll, k, "number-for-map"}
		}
		k, _ := drawStringKey(t, []string{"0", "1"})
		return IndexCase{coll, k, "string-for-sequence"}
	}
	if isMap {
		k, kind := drawStringKey(t, coll.Keys)
		return IndexCase{coll, k, kind}
	}
	k, kind := drawNumberKey(t, len(coll.Elems))
	return IndexCase{coll, k, kind}
}

// expectIndex is the plain-Go model: which member (if any) the key addresses.
// ok=false: no member (the lookup must be rejected, HasIndex must be False).
func expectIndex(coll, key spec.V) (member int, ok bool) {
	if key.St != spec.Known {
		return 0, false
	}
	switch coll.T.K {
	case spec.KList, spec.KTuple:
		if key.T.K != spec.KNumber {
			return 0, false
		}
		x := model.XOf(key.N.Float())
		if !x.IsInt() || x.Sign() < 0 {
			return 0, false
		}
		if x.R.Num().Cmp(big.NewInt(int64(len(coll.Elems)))) >= 0 {
			return 0, false
		}
		return int(x.R.Num().Int64()), true
	case spec.KMap:
		if key.T.K != spec.KString {
			return 0, false
		}
		want := spec.NFC(key.S)
		for i, k := range coll.Keys {
			if spec.NFC(k) == want {
				return i, true
			}
		}
	}
	return 0, false
}

func memberType(coll spec.V, i int) spec.T {
	if coll.T.K == spec.KTuple {
		return coll.T.Elems[i]
	}
	return *coll.T.E
}

func checkIndex(c *facet.Ctx, in IndexCase) error {
	coll, err := spec.Build(in.Coll)
	if err != nil {
		c.Skip()
		return nil
	}
	key, err := spec.Build(in.Key)
	if err != nil {
		c.Skip()
		return nil
	}
	n := len(in.Coll.Elems)
	c.Label("coll=" + in.Coll.T.K)
	c.Label("key=" + in.Kind)
	idx, present := expectIndex(in.Coll, in.Key)
	nullKey := in.Key.St == spec.Null
	rightType := (in.Coll.T.K == spec.KMap && in.Key.T.K == spec.KString) || (in.Coll.T.K != spec.KMap && in.Key.T.K == spec.KNumber)
	if n > 0 && rightType && !nullKey {
		if in.Coll.T.K == spec.KMap {
			c.NonTrivial()
		} else {
			x := model.XOf(in.Key.N.Float())
			if !x.IsInf() {
				lo, hi := big.NewRat(-1, 1), new(big.Rat).SetInt64(int64(n)+1)
				nm1 := new(big.Rat).SetInt64(int64(n) - 2)
				if !x.IsInt() || (x.R.Cmp(lo) >= 0 && x.R.Cmp(big.NewRat(1, 1)) <= 0) || (x.R.Cmp(nm1) >= 0 && x.R.Cmp(hi) <= 0) {
					c.NonTrivial()
				}
			}
		}
	}
	desc := fmt.Sprintf("%s value with %d members, key %s", in.Coll.T.K, n, descV(in.Key))

	has := call(func() cty.Value { return coll.HasIndex(key) })
	got := call(func() cty.Value { return coll.Index(key) })

	// --- HasIndex
	hasTrue := false
	if has.rejected {
		if !nullKey {
			return facet.Failf("hasindex-rejected", "HasIndex on %s was rejected (%s); it is documented to impose no panic-causing constraints on the key", desc, has.why)
		}
		c.Label("hasindex=rejected(null-key)")
	} else {
		if f := resultShape("HasIndex on "+desc, has.v, cty.Bool); f != nil {
			return f
		}
		hasTrue = has.v.True()
		if hasTrue != present {
			return facet.Failf("hasindex-wrong", "HasIndex on %s = %t; the value was built with member present=%t", desc, hasTrue, present).With("coll", in.Coll.T.K)
		}
	}
	c.Labelf("present=%t", present)

	// --- Index
	if got.rejected {
		c.Label("index=rejected")
		if present {
			return facet.Failf("index-rejected", "Index on %s was rejected (%s) although the member exists", desc, got.why)
		}
	} else {
		c.Label("index=value")
		if !present {
			f := facet.Failf("index-yields-value", "Index on %s returned %#v although no such member exists (HasIndex true=%t); a missing or ill-typed key must be rejected", desc, got.v, hasTrue)
			return f.With("coll", in.Coll.T.K).With("keytype", in.Key.T.K).With("keystate", in.Key.St).With("null-result", fmt.Sprint(got.v.IsNull()))
		}
		if f := wf.Check(got.v); f != nil {
			return f
		}
		mt := memberType(in.Coll, idx)
		if !spec.FromCty(got.v.Type()).Equal(mt) {
			return facet.Failf("index-type", "Index on %s returned type %#v, documented element type is %s", desc, got.v.Type(), mt)
		}
		if got.v.IsMarked() || !sameMember(got.v, in.Coll.Elems[idx]) {
			return facet.Failf("index-wrong-member", "Index on %s returned %#v, the member it was built from is #%d", desc, got.v, idx)
		}
	}
	// --- Index succeeds exactly when HasIndex is True
	if !has.rejected && hasTrue != !got.rejected {
		return facet.Failf("index-iff-hasindex", "on %s HasIndex=%t but Index succeeded=%t", desc, hasTrue, !got.rejected).With("coll", in.Coll.T.K)
	}
	return nil
}

func descV(v spec.V) string {
	switch {
	case v.St == spec.Null:
		return "null " + v.T.String()
	case v.T.K == spec.KNumber:
		return "number " + v.N.String()
	case v.T.K == spec.KString:
		return fmt.Sprintf("string %q", v.S)
	}
	return "a " + v.T.String()
}

// ---------------------------------------------------------------- getattr / length

// GLCase is the input of the getattr/length facet.
type GLCase struct {
	Op   string `json:"op"` // "getattr" or "length"
	V    spec.V `json:"v"`
	Name string `json:"name,omitempty"`
}

var attrPool = []string{"a", "b", "c", "id", "\u00e9", "e\u0301", "name", "x", "", "A", "a ", "ID", "\u00e9\u0301"}

func genGLCase(t *rapid.T) GLCase {
	if rapid.Bool().Draw(t, "isattr") {
		n := rapid.IntRange(0, 4).Draw(t, "nattrs")
		perm := rapid.Permutation([]string{"a", "b", "c", "id", "\u00e9", "name", "x", "e\u0301"}).Draw(t, "names")
		var as []spec.Attr
		seen := map[string]bool{}
		for _, nm := range perm {
			if len(as) == n {
				break
			}
			if seen[spec.NFC(nm)] {
				continue
			}
			seen[spec.NFC(nm)] = true
			as = append(as, spec.Attr{Name: nm, T: gen.Type(elemTypeOpts).Draw(t, "aty")})
		}
		v := gen.Value(spec.Object(as...), memberOpts).Draw(t, "obj")
		var name string
		switch k := rapid.IntRange(0, 3).Draw(t, "namekind"); {
		case k <= 1 && len(v.Keys) > 0:
			name = rapid.SampledFrom(v.Keys).Draw(t, "present")
			if rapid.IntRange(0, 3).Draw(t, "nfd") == 0 {
				name = norm.NFD.String(name)
			}
		default:
			name = rapid.SampledFrom(attrPool).Draw(t, "pool")
		}
		return GLCase{Op: "getattr", V: v, Name: name}
	}
	var ty spec.T
	et := gen.Type(elemTypeOpts).Draw(t, "ety")
	switch rapid.IntRange(0, 3).Draw(t, "lenkind") {
	case 0:
		ty = spec.List(et)
	case 1:
		ty = spec.Map(et)
	case 2:
		// sets of numbers are where coalescing is interesting
		if rapid.Bool().Draw(t, "numset") {
			return GLCase{Op: "length", V: drawNumSet(t)}
		}
		ty = spec.Set(et)
	default:
		n := tupLen(t)
		es := make([]spec.T, n)
		for i := range es {
			es[i] = gen.Type(gen.TypeOpts{Depth: 1}).Draw(t, "tty")
		}
		ty = spec.Tuple(es...)
	}
	o := memberOpts
	if ty.K == spec.KSet {
		o.MaxElems = 5
	}
	return GLCase{Op: "length", V: gen.Value(ty, o).Draw(t, "v")}
}

// distinctBounds counts the members of a set spec under the narrowest (hi)
// and the most generous (lo) documented equality. When they agree the count is
// determined.
func distinctBounds(members []cty.Value) (lo, hi int) {
	ambiguous := false
	var reps []cty.Value
	for i, m := range members {
		for j := 0; j < i; j++ {
			if s, mb := eqBounds(m, members[j]); mb && !s {
				ambiguous = true
			}
		}
		dup := false
		for _, r := range reps {
			if s, _ := eqBounds(m, r); s {
				dup = true
				break
			}
		}
		if !dup {
			reps = append(reps, m)
		}
	}
	// Members equal under every reading coalesce for certain, so at most
	// len(reps) remain. When no pair is equal under one reading only, the two
	// relations coincide and the count is determined.
	hi = len(reps)
	lo = hi
	if ambiguous {
		lo = 1
	}
	return lo, hi
}

func checkGL(c *facet.Ctx, in GLCase) error {
	v, err := spec.Build(in.V)
	if err != nil {
		c.Skip()
		return nil
	}
	c.Label("op=" + in.Op)
	switch in.Op {
	case "getattr":
		want := spec.NFC(in.Name)
		idx, present := -1, false
		for i, k := range in.V.Keys {
			if spec.NFC(k) == want {
				idx, present = i, true
			}
		}
		c.Labelf("present=%t", present)
		if len(in.V.Keys) > 0 {
			c.NonTrivial()
		}
		desc := fmt.Sprintf("GetAttr(%q) on object with attributes %q", in.Name, in.V.Keys)
		out := call(func() cty.Value { return v.GetAttr(in.Name) })
		if out.rejected {
			if present {
				return facet.Failf("getattr-rejected", "%s was rejected (%s) although the attribute exists", desc, out.why)
			}
			return nil
		}
		if !present {
			return facet.Failf("getattr-yields-value", "%s returned %#v although the object has no such attribute", desc, out.v)
		}
		if f := wf.Check(out.v); f != nil {
			return f
		}
		at := in.V.Elems[idx].T
		if !spec.FromCty(out.v.Type()).Equal(at) {
			return facet.Failf("getattr-type", "%s returned type %#v, the attribute's type is %s", desc, out.v.Type(), at)
		}
		if out.v.IsMarked() || !sameMember(out.v, in.V.Elems[idx]) {
			return facet.Failf("getattr-wrong-member", "%s returned %#v, not the value the attribute was built from", desc, out.v)
		}
		return nil
	case "length":
		c.Label("coll=" + in.V.T.K)
		n := len(in.V.Elems)
		if n > 0 {
			c.NonTrivial()
		}
		desc := fmt.Sprintf("Length of %s built from %d members", in.V.T, n)
		out := call(func() cty.Value { return v.Length() })
		if out.rejected {
			return facet.Failf("length-rejected", "%s was rejected: %s", desc, out.why)
		}
		if f := resultShape(desc, out.v, cty.Number); f != nil {
			return f
		}
		got := model.XOf(out.v.AsBigFloat())
		lo, hi := n, n
		if in.V.T.K == spec.KSet {
			members := make([]cty.Value, n)
			for i, e := range in.V.Elems {
				members[i] = spec.MustBuild(e)
			}
			lo, hi = distinctBounds(members)
			if lo != hi {
				c.Label("set:count-ambiguous(range)")
			} else if hi < n {
				c.Label("set:coalesced")
			}
		}
		if !got.IsInt() || model.XCmp(got, model.XInt(int64(lo))) < 0 || model.XCmp(got, model.XInt(int64(hi))) > 0 {
			return facet.Failf("length-wrong", "%s = %s; the number of distinct members it was built from is %d..%d", desc, got, lo, hi)
		}
		// The documented iteration (ElementIterator) yields exactly the
		// members: lists and tuples in index order with number keys, maps in
		// ascending key order with normalised string keys, sets each member once.
		if f := checkIteration(in.V, v, desc, got); f != nil {
			return f
		}
		// LengthInt agrees for wholly-known values
		li := call(func() cty.Value { return cty.NumberIntVal(int64(v.LengthInt())) })
		if li.rejected {
			return facet.Failf("length-rejected", "LengthInt on %s was rejected: %s", desc, li.why)
		}
		if model.XCmp(model.XOf(li.v.AsBigFloat()), got) != 0 {
			return facet.Failf("length-wrong", "%s = %s but LengthInt = %s", desc, got, model.NumText(li.v.AsBigFloat()))
		}
		return nil
	}
	panic("c02: bad GL op " + in.Op)
}

// checkIteration compares the documented iteration order and content with the spec.
func checkIteration(sv spec.V, v cty.Value, desc string, length model.X) *facet.Failure {
	var keys, vals []cty.Value
	out := call(func() cty.Value {
		keys, vals = model.Members(v)
		return cty.True
	})
	if out.rejected {
		return facet.Failf("iterate-rejected", "ElementIterator on %s was rejected: %s", desc, out.why)
	}
	if model.XCmp(length, model.XInt(int64(len(vals)))) != 0 {
		return facet.Failf("iterate-count", "%s = %s but iteration yields %d members", desc, length, len(vals))
	}
	switch sv.T.K {
	case spec.KList, spec.KTuple:
		for i, e := range vals {
			k := keys[i]
			if k.Type() != cty.Number || !k.IsKnown() || k.IsNull() || model.XCmp(model.XOf(k.AsBigFloat()), model.XInt(int64(i))) != 0 {
				return facet.Failf("iterate-key", "%s: iteration key #%d is %#v", desc, i, k)
			}
			if !sameMember(e, sv.Elems[i]) {
				return facet.Failf("iterate-member", "%s: iteration member #%d is %#v, not the member it was built from", desc, i, e)
			}
		}
	case spec.KMap:
		want := map[string]int{}
		var order []string
		for i, k := range sv.Keys {
			want[spec.NFC(k)] = i
			order = append(order, spec.NFC(k))
		}
		sort.Strings(order)
		for i, e := range vals {
			k := keys[i]
			if k.Type() != cty.String || !k.IsKnown() || k.IsNull() || i >= len(order) || k.AsString() != order[i] {
				return facet.Failf("iterate-key", "%s: iteration key #%d is %#v, expected keys in ascending order %q", desc, i, k, order)
			}
			if !sameMember(e, sv.Elems[want[order[i]]]) {
				return facet.Failf("iterate-member", "%s: iteration member for key %q is %#v, not the member it was built from", desc, order[i], e)
			}
		}
	case spec.KSet:
		// every iterated member is one the set was built from (under some
		// documented equality) and no two iterated members are surely equal
		built := make([]cty.Value, len(sv.Elems))
		for i, e := range sv.Elems {
			built[i] = spec.MustBuild(e)
		}
		for i, e := range vals {
			found := false
			for _, b := range built {
				if _, mb := eqBounds(e, b); mb {
					found = true
					break
				}
			}
			if !found {
				return facet.Failf("iterate-member", "%s: iteration yields %#v, which it was not built from", desc, e)
			}
			for j := 0; j < i; j++ {
				if s, _ := eqBounds(e, vals[j]); s {
					return facet.Failf("iterate-duplicate", "%s: iteration yields two equal members %#v", desc, e)
				}
			}
		}
		// every built member is represented
		for _, b := range built {
			found := false
			for _, e := range vals {
				if _, mb := eqBounds(e, b); mb {
					found = true
					break
				}
			}
			if !found {
				return facet.Failf("iterate-missing", "%s: member %#v it was built from is not yielded by iteration", desc, b)
			}
		}
	}
	return nil
}

// ---------------------------------------------------------------- haselement

// ElemCase is the input of the haselement facet.
type ElemCase struct {
	Set  spec.V `json:"set"`
	Elem spec.V `json:"elem"`
	Rel  string `json:"rel"`
}

// rerouteDeep rebuilds every number inside v through another route holding
// the same value (where one exists).
func rerouteDeep(t *rapid.T, v spec.V) spec.V {
	out := v.Clone()
	var rec func(x *spec.V)
	rec = func(x *spec.V) {
		if x.St != spec.Known {
			return
		}
		if x.T.K == spec.KNumber && x.N != nil {
			if n, ok := reroute(t, *x.N, "rr"); ok {
				x.N = &n
			}
		}
		for i := range x.Elems {
			rec(&x.Elems[i])
		}
	}
	rec(&out)
	return out
}

// perturb changes one primitive leaf of v (or its nullness), keeping the type.
func perturb(t *rapid.T, v spec.V) spec.V {
	out := v.Clone()
	var leaves []*spec.V
	var rec func(x *spec.V)
	rec = func(x *spec.V) {
		if x.St == spec.Known && len(x.Elems) > 0 && (x.T.K == spec.KTuple || x.T.K == spec.KObject || x.T.K == spec.KList || x.T.K == spec.KMap) {
			for i := range x.Elems {
				rec(&x.Elems[i])
			}
			return
		}
		leaves = append(leaves, x)
	}
	rec(&out)
	l := leaves[rapid.IntRange(0, len(leaves)-1).Draw(t, "leaf")]
	if l.St == spec.Null {
		*l = gen.Value(l.T, gen.ValOpts{RootKnown: true}).Draw(t, "unnull")
		return out
	}
	switch l.T.K {
	case spec.KBool:
		l.B = !l.B
	case spec.KNumber:
		f := l.N.Float()
		if !f.IsInf() && f.IsInt() {
			i, _ := f.Int(nil)
			if i.BitLen() < 300 {
				i.Add(i, big.NewInt(1))
				n := spec.NParse(i.String())
				l.N = &n
				return out
			}
		}
		n := drawNum(t, "pn")
		l.N = &n
	case spec.KString:
		l.S = l.S + "x"
	default:
		*l = spec.NullOf(l.T)
	}
	return out
}

// drawNumSet draws a set of numbers whose members are related: fresh
// numbers, earlier members through another route, and the canonical text of an
// earlier member parsed (text-equal, usually not identical).
func drawNumSet(t *rapid.T) spec.V {
	n := rapid.IntRange(0, 5).Draw(t, "n")
	v := spec.V{T: spec.Set(spec.Number), St: spec.Known}
	for i := 0; i < n; i++ {
		var m spec.Num
		k := rapid.IntRange(0, 5).Draw(t, "mk")
		switch {
		case i > 0 && k == 5:
			prev := *v.Elems[rapid.IntRange(0, i-1).Draw(t, "prev")].N
			if r, ok := reroute(t, prev, "m"); ok {
				m = r
			} else {
				m = prev
			}
		case i > 0 && k == 4:
			prev := *v.Elems[rapid.IntRange(0, i-1).Draw(t, "prev")].N
			if f := prev.Float(); !f.IsInf() {
				m = spec.NParse(model.NumText(f))
			} else {
				m = prev
			}
		case i > 0 && k == 3:
			// a whole neighbour of an earlier member: equal to ten
			// significant digits when large, never equal
			prev := *v.Elems[rapid.IntRange(0, i-1).Draw(t, "prev")].N
			m = prev
			if f := prev.Float(); !f.IsInf() && f.IsInt() {
				if bi, _ := f.Int(nil); bi.BitLen() < 400 {
					bi.Add(bi, big.NewInt(int64(rapid.SampledFrom([]int{-1, 1, 2}).Draw(t, "delta"))))
					m = wholeVia(t, bi, "mv")
				}
			}
		default:
			m = drawNum(t, "m")
		}
		v.Elems = append(v.Elems, spec.KnownNum(m))
	}
	return v
}

// emptyDynSetCase: a set whose members hold an EMPTY collection of placeholder
// element type (what "[]" or "{}" converts to, or decodes to under a
// placeholder constraint). Such members are wholly known values like any other.
func emptyDynSetCase(t *rapid.T) ElemCase {
	hole := spec.V{T: spec.List(spec.Dynamic), St: spec.Known}
	if rapid.Bool().Draw(t, "maphole") {
		hole = spec.V{T: spec.Map(spec.Dynamic), St: spec.Known}
	}
	mk := func(i int) spec.V {
		switch rapid.IntRange(0, 2).Draw(t, "shape") {
		case 0:
			return spec.V{T: spec.T{K: spec.KTuple}, St: spec.Known, Elems: []spec.V{spec.KnownStr(simpleWords[i%len(simpleWords)]), hole.Clone()}}.Retype()
		case 1:
			return spec.V{T: spec.T{K: spec.KObject}, St: spec.Known, Keys: []string{"a", "b"}, Elems: []spec.V{hole.Clone(), spec.KnownNum(spec.NInt(int64(i)))}}.Retype()
		default:
			return hole.Clone()
		}
	}
	n := rapid.IntRange(1, 4).Draw(t, "n")
	first := mk(0)
	set := spec.V{T: spec.Set(first.T), St: spec.Known, Elems: []spec.V{first}}
	for i := 1; i < n; i++ {
		m := mk(rapid.IntRange(0, 3).Draw(t, "mi"))
		if m.T.Equal(first.T) {
			set.Elems = append(set.Elems, m)
		}
	}
	if rapid.IntRange(0, 3).Draw(t, "dup") == 0 {
		set.Elems = append(set.Elems, set.Elems[0].Clone())
	}
	m := set.Elems[rapid.IntRange(0, len(set.Elems)-1).Draw(t, "which")]
	if rapid.IntRange(0, 2).Draw(t, "absent") == 0 && m.T.K != spec.KList && m.T.K != spec.KMap {
		return ElemCase{set, perturb(t, m), "emptydyn-member-perturbed"}
	}
	return ElemCase{set, m.Clone(), "emptydyn-member"}
}

var simpleWords = []string{"a", "b", "c", "d"}

func genElemCase(t *rapid.T) ElemCase {
	if rapid.IntRange(0, 15).Draw(t, "emptydyn") == 8 {
		return emptyDynSetCase(t)
	}
	var et spec.T
	numset := false
	switch rapid.IntRange(0, 3).Draw(t, "etk") {
	case 0:
		et = spec.Number
		numset = true
	case 1:
		et = rapid.SampledFrom([]spec.T{spec.String, spec.Bool, spec.Tuple(spec.Number, spec.String), spec.List(spec.Number),
			spec.Object(spec.Attr{Name: "a", T: spec.Number}, spec.Attr{Name: "b", T: spec.String}), spec.Map(spec.Number), spec.Set(spec.Number)}).Draw(t, "et")
	default:
		et = gen.Type(elemTypeOpts).Draw(t, "et")
	}
	o := memberOpts
	o.MaxElems = 5
	var set spec.V
	if numset {
		set = drawNumSet(t)
	} else {
		set = gen.Value(spec.Set(et), o).Draw(t, "set")
	}
	et = *set.T.E
	roll := rapid.IntRange(0, 9).Draw(t, "rel")
	if len(set.Elems) > 0 {
		m := set.Elems[rapid.IntRange(0, len(set.Elems)-1).Draw(t, "which")]
		if m.St == spec.Known {
			switch {
			case roll <= 2:
				return ElemCase{set, m.Clone(), "member"}
			case roll <= 4:
				return ElemCase{set, rerouteDeep(t, m), "member-rerouted"}
			case roll <= 6:
				return ElemCase{set, perturb(t, m), "member-perturbed"}
			}
		}
	}
	if roll == 9 {
		return ElemCase{set, drawOtherValue(t), "any-value"}
	}
	return ElemCase{set, gen.Value(et, gen.ValOpts{Null: true, RootKnown: true, MaxElems: 4}).Draw(t, "elem"), "same-type"}
}

// viaValueSet builds the set value of spec sv through a ValueSet builder and
// SetValFromValueSet, then edits the builder: removes every member and adds
// probe (when it has the element type). ok is false when the route does not
// apply (marked, unknown or null members and sets: the builder takes unmarked
// values; null / unknown sets have no members).
func viaValueSet(sv spec.V, probe cty.Value) (v cty.Value, ok bool) {
	if sv.St != spec.Known || sv.T.K != spec.KSet || sv.HasMarks() {
		return cty.NilVal, false
	}
	defer func() {
		if r := recover(); r != nil {
			v, ok = cty.NilVal, false
		}
	}()
	ety := sv.T.E.Cty()
	b := cty.NewValueSet(ety)
	var ms []cty.Value
	for _, m := range sv.Elems {
		mv := spec.MustBuild(m)
		if !mv.Type().Equals(ety) {
			return cty.NilVal, false
		}
		ms = append(ms, mv)
		b.Add(mv)
	}
	v = cty.SetValFromValueSet(b)
	for _, mv := range ms {
		b.Remove(mv)
	}
	if probe.Type().Equals(ety) && !probe.ContainsMarked() {
		b.Add(probe)
	}
	return v, true
}

func checkElem(c *facet.Ctx, in ElemCase) error {
	set, err := spec.Build(in.Set)
	if err != nil {
		c.Skip()
		return nil
	}
	elem, err := spec.Build(in.Elem)
	if err != nil || in.Elem.St != spec.Known {
		c.Skip()
		return nil
	}
	c.Label("rel=" + in.Rel)
	sure, maybe := false, false
	for _, m := range in.Set.Elems {
		s, mb := eqBounds(elem, spec.MustBuild(m))
		sure = sure || s
		maybe = maybe || mb
	}
	sameType := in.Elem.T.Equal(*in.Set.T.E)
	if !sameType {
		c.Label("elem=other-type")
	}
	if len(in.Set.Elems) > 0 && sameType {
		c.NonTrivial()
	}
	desc := fmt.Sprintf("HasElement on %s built from %d members, element %s (%s)", in.Set.T, len(in.Set.Elems), descV(in.Elem), in.Rel)
	if alt, ok := viaValueSet(in.Set, elem); ok && len(in.Set.Elems)%2 == 1 {
		// the same members through the other constructor (ValueSet builder +
		// SetValFromValueSet), with the builder edited afterwards: the value
		// holds the members it was constructed from, not what the builder
		// holds later
		set = alt
		desc += " [via SetValFromValueSet, builder edited afterwards]"
		c.Label("route=valueset-builder")
	}
	out := call(func() cty.Value { return set.HasElement(elem) })
	if out.rejected {
		return facet.Failf("haselement-rejected", "%s was rejected: %s", desc, out.why)
	}
	if f := resultShape(desc, out.v, cty.Bool); f != nil {
		return f
	}
	got := out.v.True()
	switch {
	case sure:
		c.Label("member=yes")
		if !got {
			return facet.Failf("haselement-wrong", "%s = false, but the set was built from an equal member", desc).With("rel", in.Rel)
		}
	case !maybe:
		c.Label("member=no")
		if got {
			return facet.Failf("haselement-wrong", "%s = true, but no member it was built from equals the element", desc).With("rel", in.Rel)
		}
	default:
		c.Label("member=ambiguous-number-equality(either)")
	}
	return nil
}

const collRule = "collections of 0-4 members (sets 0-5) of a generated element type to depth 2 (nested collections and structures, nulls below the root, numbers by class), built from a spec which is the model; "

func init() {
	facet.Register(facet.F[IndexCase]{
		Prop: "C02", Name: "coll/index-hasindex",
		Rule:  collRule + "list/map/tuple x key: in range through five number routes, at len-1/len/len+1/-1/0, fractional, huge (2^31..2^64+1, 1e40), -0/+-Inf, present/absent/other-normal-form/near-miss strings, wrong-typed, null; checks Index, HasIndex, result types and Index succeeds <=> HasIndex true; non-trivial = non-empty and (map with a string key, or sequence with a key within 1 of a bound or non-integral)",
		Quick: 60000, Thorough: 250000,
		Gen: genIndexCase, Check: checkIndex,
	})
	facet.Register(facet.F[GLCase]{
		Prop: "C02", Name: "coll/getattr-length",
		Rule:  collRule + "GetAttr with present (either normal form) / absent names; Length (and LengthInt) of lists, maps, tuples and sets (set length = number of members distinct under the documented equality; a range when number equality is ambiguous); non-trivial = at least one member/attribute",
		Quick: 50000, Thorough: 200000,
		Gen: genGLCase, Check: checkGL,
	})
	facet.Register(facet.F[ElemCase]{
		Prop: "C02", Name: "coll/haselement",
		Rule:  collRule + "set x element: a member verbatim, a member with its numbers rebuilt through another route, a member with one leaf perturbed, an independent value of the element type, a value of another type; expected membership by reference equality (asserted when the narrowest and the most generous documented number equality agree); non-trivial = non-empty set and element of the element type",
		Quick: 50000, Thorough: 200000,
		Gen: genElemCase, Check: checkElem,
	})
}

var _ = strconv.Itoa

// tupLen draws a tuple length: 0..4, one time in ten a long one.
func tupLen(t *rapid.T) int {
	if rapid.IntRange(0, 9).Draw(t, "longtuple") == 5 {
		return rapid.SampledFrom(gen.LongSizes[:10]).Draw(t, "longn")
	}
	return rapid.IntRange(0, 4).Draw(t, "tuplen")
}
