// Package c02: core operations compute the documented result on known values.
package c02

import (
	"math/big"
	"strconv"

	"pgregory.net/rapid"

	"verif/harness/gen"
	"verif/harness/model"
	"verif/harness/spec"
)

// ---------------------------------------------------------------- number generators

// drawNum draws one number: the shared class table (gen.Num) plus classes this
// property needs: infinities reached through the float64 constructor, the
// exact value of a float64 re-built at 512 bits (numerically identical, other
// precision), low-precision huge whole numbers, and whole numbers beyond 2^64.
func drawNum(t *rapid.T, label string) spec.Num {
	n := drawNumUnsigned(t, label)
	if n.Text != "" && rapid.IntRange(0, 5).Draw(t, label+"-flip") == 5 {
		n = flipSign(n)
	}
	return n
}

// flipSign negates a number spec textually (keeping the route where it can
// still hold the value).
func flipSign(n spec.Num) spec.Num {
	switch n.Text[0] {
	case '-':
		n.Text = n.Text[1:]
	case '+':
		n.Text = "-" + n.Text[1:]
	default:
		n.Text = "-" + n.Text
	}
	if n.Route == "uint" {
		if _, err := strconv.ParseUint(n.Text, 10, 64); err != nil {
			n.Route = "parse"
		}
	}
	if n.Route == "int" {
		if _, err := strconv.ParseInt(n.Text, 10, 64); err != nil {
			n.Route = "parse"
		}
	}
	return n
}

func drawNumUnsigned(t *rapid.T, label string) spec.Num {
	// rapid favours the low end of an integer range: the shared table sits there
	switch rapid.IntRange(0, 19).Draw(t, label+"-cls") {
	case 19:
		return spec.Num{Route: "float", Text: rapid.SampledFrom([]string{"+Inf", "-Inf"}).Draw(t, label+"-finf")}
	case 15:
		// exact value of a friendly float64, held at 512 bits
		f := rapid.SampledFrom([]float64{0.1, 0.2, 0.3, 0.5, -0.1, 1.5, 2.5, 1e22, 1e23, 9007199254740993, 123456789.125,
			0.30000000000000004, 1e-7, 18446744073709551616, 3.5e38}).Draw(t, label+"-f")
		bf := new(big.Float).SetFloat64(f)
		if s, ok := model.ExactDecimal(bf, 200); ok {
			return spec.Num{Route: "big", Text: s, Prec: 512}
		}
		return spec.NFloat(f)
	case 16:
		// low-precision huge whole number
		return spec.Num{Route: "big", Text: rapid.StringMatching(`-?[1-9][0-9]{8,30}`).Draw(t, label+"-lp"),
			Prec: uint(rapid.SampledFrom([]int{8, 24, 53, 64}).Draw(t, label+"-lpp"))}
	case 17:
		// whole number beyond 2^64 at full precision
		return spec.NParse(rapid.StringMatching(`-?[1-9][0-9]{19,60}`).Draw(t, label+"-huge"))
	case 18:
		// float64-derived whole numbers >= 2^53 (low precision relative to magnitude)
		f := rapid.SampledFrom([]float64{1e22, 1e23, 1e40, 1e300, 9007199254740992, 9007199254740994, 9223372036854775808,
			18446744073709551616, -1e22, 4.611686018427388e18, 1.2345678901234567e30}).Draw(t, label+"-fw")
		return spec.NFloat(f)
	default:
		n := gen.Num(gen.NumOpts{}).Draw(t, label)
		if n.IsInf() && rapid.Bool().Draw(t, label+"-lessinf") {
			// thin out the infinities of the shared table
			return spec.NInt(int64(rapid.IntRange(-5, 12).Draw(t, label+"-small")))
		}
		return n
	}
}

var smallDivisors = []string{"1", "2", "3", "7", "10", "-3", "-1", "0.5", "0.1", "0.3", "1.5", "-0.25", "1e-7", "1000000007", "4294967296", "18446744073709551616"}

// reroute returns a spec holding exactly the same real number as n through
// another construction route (other precision where possible); ok is false
// when no other route can hold the value exactly within the size limits.
func reroute(t *rapid.T, n spec.Num, label string) (spec.Num, bool) {
	if n.IsInf() {
		if n.Route == "+inf" {
			return spec.Num{Route: "float", Text: "+Inf"}, true
		}
		return spec.Num{Route: "float", Text: "-Inf"}, true
	}
	f := n.Float()
	if f.IsInf() {
		if f.Sign() > 0 {
			return spec.Num{Route: "+inf"}, true
		}
		return spec.Num{Route: "-inf"}, true
	}
	if f.Sign() == 0 {
		return spec.Num{Route: rapid.SampledFrom([]string{"zero", "negzero"}).Draw(t, label+"-z")}, true
	}
	var cands []spec.Num
	txt, ok := model.ExactDecimal(f, 160)
	if !ok || len(txt) > 500 {
		return n, false
	}
	r, _ := f.Rat(nil)
	mb := model.MantBits(r)
	for _, p := range []uint{24, 53, 64, 100, 512} {
		if uint(mb) <= p && p != f.Prec() {
			cands = append(cands, spec.Num{Route: "big", Text: txt, Prec: p})
		}
	}
	if mb <= 512 && n.Route != "parse" {
		cands = append(cands, spec.NParse(txt))
	}
	if r.IsInt() {
		if r.Num().IsInt64() && n.Route != "int" {
			cands = append(cands, spec.Num{Route: "int", Text: r.Num().String()})
		}
		if r.Num().IsUint64() && n.Route != "uint" {
			cands = append(cands, spec.Num{Route: "uint", Text: r.Num().String()})
		}
	}
	if f64, acc := f.Float64(); acc == big.Exact && n.Route != "float" {
		cands = append(cands, spec.NFloat(f64))
	}
	if len(cands) == 0 {
		return n, false
	}
	return rapid.SampledFrom(cands).Draw(t, label+"-rr"), true
}

// NumPair is the input of the binary number facets.
type NumPair struct {
	Op  string   `json:"op"`
	A   spec.Num `json:"a"`
	B   spec.Num `json:"b"`
	Rel string   `json:"rel"`
}

// drawPair draws two numbers that are independent or related in a way that
// matters for arithmetic and ordering.
func drawPair(t *rapid.T) (a, b spec.Num, rel string) {
	a = drawNum(t, "a")
	switch rapid.IntRange(0, 14).Draw(t, "rel") {
	case 14:
		// two whole numbers held at low precision (their product, sum and
		// quotient need more bits than either operand has)
		lp := func(l string) spec.Num {
			return spec.Num{Route: "big", Text: rapid.StringMatching(`-?[1-9][0-9]{5,40}`).Draw(t, l),
				Prec: uint(rapid.SampledFrom([]int{24, 53, 64, 100, 128}).Draw(t, l+"p"))}
		}
		return lp("alp"), lp("blp"), "both-low-precision-whole"
	case 13:
		return a, a, "same-spec"
	case 12:
		// the canonical decimal text of a, parsed: equal under the documented
		// text-based equality, usually not numerically identical
		if f := a.Float(); !f.IsInf() && !f.IsInt() && a.Route != "parse" {
			return a, spec.NParse(model.NumText(f)), "same-text-parsed"
		}
		return a, drawNum(t, "b"), "independent"
	case 11:
		if b, ok := reroute(t, a, "b"); ok {
			return a, b, "same-value-other-route"
		}
		return a, drawNum(t, "b"), "independent"
	case 10:
		s := rapid.SampledFrom(smallDivisors).Draw(t, "div")
		switch rapid.IntRange(0, 2).Draw(t, "divroute") {
		case 0:
			if i, err := strconv.ParseInt(s, 10, 64); err == nil {
				return a, spec.NInt(i), "small-divisor"
			}
		case 1:
			if f, err := strconv.ParseFloat(s, 64); err == nil {
				return a, spec.NFloat(f), "small-divisor"
			}
		}
		return a, spec.NParse(s), "small-divisor"
	case 9:
		// a = q*b + r with whole numbers: large exact quotients
		bi := new(big.Int)
		bi.SetString(rapid.StringMatching(`[1-9][0-9]{0,12}`).Draw(t, "bint"), 10)
		qi := new(big.Int)
		qi.SetString(rapid.StringMatching(`[1-9][0-9]{0,30}`).Draw(t, "qint"), 10)
		ri := new(big.Int).SetInt64(int64(rapid.IntRange(0, 9).Draw(t, "rint")))
		ri.Mod(ri, bi)
		ai := new(big.Int).Mul(qi, bi)
		ai.Add(ai, ri)
		if rapid.Bool().Draw(t, "nega") {
			ai.Neg(ai)
		}
		if rapid.Bool().Draw(t, "negb") {
			bi.Neg(bi)
		}
		return wholeVia(t, ai, "ar"), wholeVia(t, bi, "br"), "whole-multiple-plus-r"
	case 8:
		// neighbours: b = a +- 1 for whole a (cancellation, ordering ties)
		f := a.Float()
		if !f.IsInf() && f.IsInt() {
			i, _ := f.Int(nil)
			if i.BitLen() < 400 {
				i.Add(i, big.NewInt(int64(rapid.SampledFrom([]int{-1, 1}).Draw(t, "delta"))))
				return a, wholeVia(t, i, "br"), "neighbour"
			}
		}
		return a, drawNum(t, "b"), "independent"
	case 7:
		// the negation of a through another route (sums cancelling to zero)
		if b, ok := reroute(t, a, "b"); ok && !b.IsInf() && b.Route != "zero" && b.Route != "negzero" && b.Text != "" {
			b = flipSign(b)
			return a, b, "negation"
		}
		return a, drawNum(t, "b"), "independent"
	default:
		return a, drawNum(t, "b"), "independent"
	}
}

// wholeVia holds the whole number i through a random route that can hold it exactly.
func wholeVia(t *rapid.T, i *big.Int, label string) spec.Num {
	s := i.String()
	var cands []spec.Num
	cands = append(cands, spec.NParse(s))
	if i.IsInt64() {
		cands = append(cands, spec.Num{Route: "int", Text: s})
	}
	if i.IsUint64() {
		cands = append(cands, spec.Num{Route: "uint", Text: s})
	}
	f := new(big.Float).SetPrec(2000).SetInt(i)
	if f64, acc := f.Float64(); acc == big.Exact {
		cands = append(cands, spec.NFloat(f64))
	}
	return rapid.SampledFrom(cands).Draw(t, label)
}

// ---------------------------------------------------------------- classification helpers

func isNegZero(f *big.Float) bool { return f.Sign() == 0 && f.Signbit() && !f.IsInf() }

var two53 = new(big.Float).SetMantExp(big.NewFloat(1), 53)

// precClass names the precision class of an operand.
func precClass(f *big.Float) string { return "p" + strconv.Itoa(int(f.Prec())) }

// numNonTrivial is the property's rule for number operands: different
// precision classes, or a magnitude of at least 2^53, or a non-integral value.
func numNonTrivial(fs ...*big.Float) bool {
	for i, f := range fs {
		if f.IsInf() {
			continue
		}
		if !f.IsInt() {
			return true
		}
		if new(big.Float).Abs(f).Cmp(two53) >= 0 {
			return true
		}
		if i > 0 && f.Prec() != fs[0].Prec() {
			return true
		}
	}
	return false
}

func numKey(op string, ns ...spec.Num) string {
	k := op
	for _, n := range ns {
		k += "|" + n.String()
	}
	return k
}
