package c02

import (
	"fmt"
	"math/big"

	"github.com/zclconf/go-cty/cty"
	"pgregory.net/rapid"

	"verif/harness/facet"
	"verif/harness/model"
	"verif/harness/spec"
	"verif/harness/wf"
)

// outcome of one library call: a value, or "rejected" (the call panicked).
type outcome struct {
	v        cty.Value
	rejected bool
	why      string
}

func call(f func() cty.Value) (o outcome) {
	defer func() {
		if r := recover(); r != nil {
			o = outcome{rejected: true, why: fmt.Sprintf("%v", r)}
		}
	}()
	return outcome{v: f()}
}

// resultShape checks that a returned value is a known, non-null, unmarked,
// well-formed value of the documented result type.
func resultShape(op string, v cty.Value, want cty.Type) *facet.Failure {
	if v == cty.NilVal {
		return facet.Failf("result-nil", "%s returned NilVal", op)
	}
	if !v.Type().Equals(want) {
		return facet.Failf("result-type", "%s returned a value of type %#v, documented result type is %#v", op, v.Type(), want)
	}
	if v.IsMarked() {
		return facet.Failf("result-marked", "%s on unmarked operands returned a marked value %#v", op, v)
	}
	if !v.IsKnown() || v.IsNull() {
		return facet.Failf("result-not-known", "%s on known, non-null operands returned %#v", op, v)
	}
	if f := wf.Check(v); f != nil {
		return f
	}
	return nil
}

func binOp(op string, a, b cty.Value) cty.Value {
	switch op {
	case "add":
		return a.Add(b)
	case "sub":
		return a.Subtract(b)
	case "mul":
		return a.Multiply(b)
	case "div":
		return a.Divide(b)
	case "mod":
		return a.Modulo(b)
	case "lt":
		return a.LessThan(b)
	case "gt":
		return a.GreaterThan(b)
	case "le":
		return a.LessThanOrEqualTo(b)
	case "ge":
		return a.GreaterThanOrEqualTo(b)
	case "and":
		return a.And(b)
	case "or":
		return a.Or(b)
	}
	panic("c02: bad binary op " + op)
}

func unOp(op string, a cty.Value) cty.Value {
	switch op {
	case "neg":
		return a.Negate()
	case "abs":
		return a.Absolute()
	case "not":
		return a.Not()
	}
	panic("c02: bad unary op " + op)
}

func classifyNums(c *facet.Ctx, op, rel string, ns []spec.Num, fs []*big.Float) {
	c.Label("op=" + op)
	if rel != "" {
		c.Label("rel=" + rel)
	}
	for _, f := range fs {
		c.Label("prec=" + precClass(f))
		switch {
		case f.IsInf():
			c.Label("operand=inf")
		case f.Sign() == 0:
			c.Label("operand=zero")
		case !f.IsInt():
			c.Label("operand=fractional")
		case new(big.Float).Abs(f).Cmp(two53) >= 0:
			c.Label("operand=whole>=2^53")
		default:
			c.Label("operand=whole<2^53")
		}
	}
	if numNonTrivial(fs...) {
		c.NonTrivial()
	}
	c.Key(numKey(op, ns...))
}

// checkArith is the oracle for add, sub, mul, div (binary) against exact
// rational arithmetic with the operand-precision tolerance.
func checkArith(c *facet.Ctx, in NumPair) error {
	af, bf := in.A.Float(), in.B.Float()
	classifyNums(c, in.Op, in.Rel, []spec.Num{in.A, in.B}, []*big.Float{af, bf})
	a, b := model.XOf(af), model.XOf(bf)
	var want model.X
	var defined bool
	switch in.Op {
	case "add":
		want, defined = model.XAdd(a, b)
	case "sub":
		want, defined = model.XSub(a, b)
	case "mul":
		want, defined = model.XMul(a, b)
	case "div":
		want, defined = model.XQuo(a, b)
	default:
		panic("checkArith: op " + in.Op)
	}
	out := call(func() cty.Value { return binOp(in.Op, in.A.Cty(), in.B.Cty()) })
	desc := fmt.Sprintf("%s(%s, %s)", in.Op, in.A, in.B)
	if !defined {
		c.Label("outcome=undefined-rejected")
		if !out.rejected {
			return facet.Failf("undefined-yields-value", "%s is undefined (no number is the result) but a value came back: %#v", desc, out.v)
		}
		return nil
	}
	if out.rejected {
		return facet.Failf("arith-rejected", "%s has the exact result %s but the call was rejected: %s", desc, want, out.why)
	}
	if f := resultShape(desc, out.v, cty.Number); f != nil {
		return f
	}
	got := out.v.AsBigFloat()
	p := model.OperandPrec(af, bf)
	if in.Op == "div" && bf.Sign() == 0 && !bf.IsInf() {
		c.Label("outcome=division-by-zero")
		if isNegZero(bf) {
			// The documentation speaks of "exactly zero" and the sign of the
			// receiver; a negative zero divisor is not mentioned. Either
			// infinity is accepted for it.
			c.Label("div-by-negative-zero(either-infinity)")
			if !got.IsInf() {
				return facet.Failf("div-by-zero", "%s: division by zero must give an infinity, got %s", desc, model.NumText(got))
			}
			return nil
		}
		if !got.IsInf() || got.Sign() != want.Inf {
			return facet.Failf("div-by-zero", "%s: division by zero must give the infinity with the sign of the dividend (%s), got %s", desc, want, model.NumText(got))
		}
		return nil
	}
	if in.Op == "mul" && a.IsInt() && b.IsInt() && model.FitsPrec(want.R, model.MaxPrec) {
		// CHANGELOG (Multiply "avoids generating incorrect results for large
		// integer operands") and docs/types.md (no need to worry about integer
		// overflow): the product of whole numbers is exact whenever it fits
		// the documented 512-bit range, whatever the operands' own precision.
		c.Label("mul:whole-product-fits-512(exact-demanded)")
		p = model.MaxPrec
	}
	v := model.WithinPrec(got, want, p)
	switch {
	case want.IsInf():
		c.Label("outcome=infinite")
	case v.Exact:
		c.Label("outcome=exact-demanded")
	default:
		c.Label("outcome=tolerance")
	}
	if !v.OK {
		kind := "arith-inexact"
		if !v.Exact {
			kind = "arith-tolerance"
		}
		f := facet.Failf(kind, "%s at operand precision %d: %s", desc, p, v.Why)
		f.Margin = v.RelErr
		return f.With("op", in.Op)
	}
	return nil
}

// checkMod is the oracle for Modulo: remainder of truncated division by a
// non-zero finite divisor.
func checkMod(c *facet.Ctx, in NumPair) error {
	af, bf := in.A.Float(), in.B.Float()
	classifyNums(c, "mod", in.Rel, []spec.Num{in.A, in.B}, []*big.Float{af, bf})
	a, b := model.XOf(af), model.XOf(bf)
	desc := fmt.Sprintf("mod(%s, %s)", in.A, in.B)
	out := call(func() cty.Value { return in.A.Cty().Modulo(in.B.Cty()) })
	if a.IsInf() || b.IsInf() || b.IsZero() {
		// Outside the property ("remainder of truncated division by a
		// non-zero divisor") and the documentation is silent or contradicted
		// by the shipped tests (x % 0): only the shape of a returned value is checked.
		if b.IsZero() {
			c.Label("outcome=zero-divisor(unasserted)")
		} else {
			c.Label("outcome=infinite-operand(unasserted)")
		}
		if out.rejected {
			c.Label("unasserted-rejected")
			return nil
		}
		if f := resultShape(desc, out.v, cty.Number); f != nil {
			return f
		}
		return nil
	}
	want, _ := model.XTruncRem(a, b)
	if out.rejected {
		return facet.Failf("arith-rejected", "%s has the exact result %s but the call was rejected: %s", desc, want, out.why)
	}
	if f := resultShape(desc, out.v, cty.Number); f != nil {
		return f
	}
	gotF := out.v.AsBigFloat()
	got := model.XOf(gotF)

	// Facts about the exact computation, independent of the library's answer:
	// do the integer quotient, its product with the divisor, and the rounded
	// quotient survive at the operands' own precision?
	p := model.OperandPrec(af, bf)
	pa := model.OperandPrec(af)
	q := model.TruncQuo(a.R, b.R)
	qr := new(big.Rat).SetInt(q)
	prod := new(big.Rat).Mul(qr, b.R)
	ratio := new(big.Rat).Quo(a.R, b.R)
	rq, _ := model.RoundToPrec(ratio, p).Int(nil)
	interm := !model.FitsPrec(qr, pa) || !model.FitsPrec(prod, pa) || rq == nil || rq.Cmp(q) != 0
	fail := func(kind, f string, args ...any) *facet.Failure {
		fl := facet.Failf(kind, "%s: exact remainder %s, got %s: %s", desc, want, got, fmt.Sprintf(f, args...))
		fl.With("op", "mod").With("intermediate-inexact", fmt.Sprint(interm))
		if !got.IsInf() && want.R.Sign() != 0 {
			d := new(big.Rat).Sub(got.R, want.R)
			fl.Margin, _ = d.Quo(d.Abs(d), new(big.Rat).Abs(want.R)).Float64()
		}
		return fl
	}
	if interm {
		c.Label("mod:intermediate-needs-more-than-operand-precision")
	}
	if got.IsInf() {
		return fail("mod-infinite", "finite operands, non-zero divisor")
	}
	if a.IsInt() && b.IsInt() && model.FitsPrec(want.R, p) {
		c.Label("outcome=exact-demanded")
		if got.R.Cmp(want.R) != 0 {
			return fail("mod-integer-inexact", "whole operands whose remainder fits in %d bits must give the exact remainder", p)
		}
		return nil
	}
	c.Label("outcome=tolerance")
	pm := model.MinOperandPrec(af, bf)
	big_ := new(big.Rat).Abs(a.R)
	if bb := new(big.Rat).Abs(b.R); bb.Cmp(big_) > 0 {
		big_ = bb
	}
	k := uint(0)
	if pm > 2 {
		k = pm - 2
	}
	tol := new(big.Rat).Mul(big_, model.Pow2Neg(k))
	absB := new(big.Rat).Abs(b.R)
	// magnitude: |got| < |b| (within tolerance)
	if lim := new(big.Rat).Add(absB, tol); new(big.Rat).Abs(got.R).Cmp(lim) > 0 {
		return fail("mod-magnitude", "magnitude exceeds the divisor's by more than the tolerance 2^-%d * max(|a|,|b|)", k)
	}
	// sign: the remainder of truncated division has the sign of the dividend
	signed := new(big.Rat).Set(got.R)
	if a.Sign() < 0 {
		signed.Neg(signed)
	}
	if signed.Cmp(new(big.Rat).Neg(tol)) < 0 {
		return fail("mod-sign", "sign differs from the dividend's by more than the tolerance")
	}
	// congruence: got = want + k*b for a whole k (within tolerance)
	d := new(big.Rat).Sub(got.R, want.R)
	kk := nearestInt(new(big.Rat).Quo(d, b.R))
	d.Sub(d, new(big.Rat).Mul(new(big.Rat).SetInt(kk), b.R))
	if d.Abs(d).Cmp(tol) > 0 {
		return fail("mod-congruence", "not congruent to the dividend modulo the divisor within the tolerance 2^-%d * max(|a|,|b|)", k)
	}
	if kk.Sign() != 0 {
		c.Label("mod:quotient-off-by-whole(within-tolerance)")
	}
	return nil
}

func nearestInt(r *big.Rat) *big.Int {
	// floor(r + 1/2)
	h := new(big.Rat).Add(r, big.NewRat(1, 2))
	n := new(big.Int).Div(h.Num(), h.Denom()) // Euclidean division: floor for positive denominators
	return n
}

// NumOne is the input of the unary number facet.
type NumOne struct {
	Op string   `json:"op"`
	A  spec.Num `json:"a"`
}

func checkUnary(c *facet.Ctx, in NumOne) error {
	af := in.A.Float()
	classifyNums(c, in.Op, "", []spec.Num{in.A}, []*big.Float{af})
	if af.Prec() != 64 && af.Prec() != 512 {
		c.NonTrivial()
	}
	a := model.XOf(af)
	var want model.X
	if in.Op == "neg" {
		want = model.XNeg(a)
	} else {
		want = model.XAbs(a)
	}
	desc := fmt.Sprintf("%s(%s)", in.Op, in.A)
	out := call(func() cty.Value { return unOp(in.Op, in.A.Cty()) })
	if out.rejected {
		return facet.Failf("arith-rejected", "%s has the exact result %s but the call was rejected: %s", desc, want, out.why)
	}
	if f := resultShape(desc, out.v, cty.Number); f != nil {
		return f
	}
	got := out.v.AsBigFloat()
	if model.XCmp(model.XOf(got), want) != 0 {
		return facet.Failf("arith-inexact", "%s: exact result %s, got %s", desc, want, model.NumText(got)).With("op", in.Op)
	}
	return nil
}

// checkCmp is the oracle for the four ordering operations.
func checkCmp(c *facet.Ctx, in NumPair) error {
	af, bf := in.A.Float(), in.B.Float()
	classifyNums(c, in.Op, in.Rel, []spec.Num{in.A, in.B}, []*big.Float{af, bf})
	cmp := model.XCmp(model.XOf(af), model.XOf(bf))
	textEq := model.NumText(af) == model.NumText(bf)
	c.Labelf("cmp=%d", cmp)
	desc := fmt.Sprintf("%s(%s, %s)", in.Op, in.A, in.B)
	out := call(func() cty.Value { return binOp(in.Op, in.A.Cty(), in.B.Cty()) })
	if out.rejected {
		return facet.Failf("cmp-rejected", "%s on two known numbers was rejected: %s", desc, out.why)
	}
	if f := resultShape(desc, out.v, cty.Bool); f != nil {
		return f
	}
	got := out.v.True()
	var want, either bool
	switch in.Op {
	case "lt":
		want = cmp < 0
	case "gt":
		want = cmp > 0
	case "le", "ge":
		strict := cmp < 0
		if in.Op == "ge" {
			strict = cmp > 0
		}
		switch {
		case strict:
			want = true
		case cmp == 0 && textEq:
			want = true
		case cmp == 0 && af.IsInt() && bf.IsInt():
			// one whole number held at two precisions: whole numbers compare
			// by value (CHANGELOG 1.10.0: no change for integers), whatever
			// their shortest decimal texts look like
			want = true
			c.Label("tie:identical-whole-different-text")
		case cmp == 0:
			// numerically identical but held at precisions whose canonical
			// decimal texts differ: whether cty calls them equal is an
			// equality question (C03)
			either = true
			c.Label("tie:identical-value-different-text(either)")
		case textEq:
			// ordered the other way, yet equal under the documented text-based equality
			either = true
			c.Label("tie:text-equal(either)")
		default:
			want = false
		}
	}
	if either {
		return nil
	}
	if got != want {
		return facet.Failf("cmp-wrong", "%s = %t, exact comparison of the operands is %d so the documented answer is %t", desc, got, cmp, want).With("op", in.Op)
	}
	return nil
}

// ---------------------------------------------------------------- registration

const numRule = "number pair drawn by class (small, width boundaries +-1, 2^53+-1, beyond 2^64, float64-derived incl. low-precision whole numbers, 512-bit decimals, low-precision big.Floats, +-0, +-Inf through two routes) and by relation (independent, same spec, same value through another route/precision, small divisor, whole multiple plus remainder, neighbour, negation); non-trivial = operands of different precision, or some |x| >= 2^53, or some operand non-integral; distinct = hash(op, operand routes and texts)"

func genPairFor(ops ...string) func(t *rapid.T) NumPair {
	return func(t *rapid.T) NumPair {
		op := ops[0]
		if len(ops) > 1 {
			op = rapid.SampledFrom(ops).Draw(t, "op")
		}
		a, b, rel := drawPair(t)
		if rapid.IntRange(0, 3).Draw(t, "swap") == 0 {
			a, b = b, a
		}
		return NumPair{Op: op, A: a, B: b, Rel: rel}
	}
}

func init() {
	facet.Register(facet.F[NumPair]{
		Prop: "C02", Name: "arith/add-sub", Rule: numRule, Quick: 120000, Thorough: 600000,
		Gen: genPairFor("add", "sub"), Check: checkArith,
	})
	facet.Register(facet.F[NumPair]{
		Prop: "C02", Name: "arith/mul", Rule: numRule, Quick: 100000, Thorough: 500000,
		Gen: genPairFor("mul"), Check: checkArith,
	})
	facet.Register(facet.F[NumPair]{
		Prop: "C02", Name: "arith/div", Rule: numRule, Quick: 100000, Thorough: 500000,
		Gen: genPairFor("div"), Check: checkArith,
	})
	facet.Register(facet.F[NumPair]{
		Prop: "C02", Name: "arith/mod", Rule: numRule + "; infinite operands and zero divisors are run but only the result's shape is asserted", Quick: 100000, Thorough: 500000,
		Gen: genPairFor("mod"), Check: checkMod,
	})
	facet.Register(facet.F[NumOne]{
		Prop: "C02", Name: "arith/neg-abs", Rule: "one number by class; non-trivial = |x| >= 2^53, non-integral, or a precision other than 64/512; distinct = hash(op, route, text)", Quick: 60000, Thorough: 300000,
		Gen: func(t *rapid.T) NumOne {
			return NumOne{Op: rapid.SampledFrom([]string{"neg", "abs"}).Draw(t, "op"), A: drawNum(t, "a")}
		},
		Check: checkUnary,
	})
	facet.Register(facet.F[NumPair]{
		Prop: "C02", Name: "cmp/lt-gt-le-ge", Rule: numRule, Quick: 150000, Thorough: 700000,
		Gen: genPairFor("lt", "gt", "le", "ge"), Check: checkCmp,
	})
}
