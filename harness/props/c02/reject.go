package c02

import (
	"fmt"

	"github.com/zclconf/go-cty/cty"
	"pgregory.net/rapid"

	"verif/harness/facet"
	"verif/harness/gen"
	"verif/harness/spec"
)

// ---------------------------------------------------------------- bool/tables (exhaustive)

// BoolCase is one row of a truth table; RouteA/RouteB choose between the
// package-level constants and BoolVal.
type BoolCase struct {
	Op     string `json:"op"`
	A      bool   `json:"a"`
	B      bool   `json:"b"`
	RouteA int    `json:"ra"`
	RouteB int    `json:"rb"`
}

func boolVia(b bool, route int) cty.Value {
	if route == 0 {
		if b {
			return cty.True
		}
		return cty.False
	}
	return cty.BoolVal(b)
}

func allBoolCases() []BoolCase {
	var out []BoolCase
	bs := []bool{false, true}
	for _, a := range bs {
		for ra := 0; ra < 2; ra++ {
			out = append(out, BoolCase{Op: "not", A: a, RouteA: ra})
			for _, b := range bs {
				for rb := 0; rb < 2; rb++ {
					out = append(out, BoolCase{Op: "and", A: a, B: b, RouteA: ra, RouteB: rb})
					out = append(out, BoolCase{Op: "or", A: a, B: b, RouteA: ra, RouteB: rb})
				}
			}
		}
	}
	return out
}

func checkBool(c *facet.Ctx, in BoolCase) error {
	c.NonTrivial()
	c.Label("op=" + in.Op)
	a, b := boolVia(in.A, in.RouteA), boolVia(in.B, in.RouteB)
	var want bool
	var out outcome
	switch in.Op {
	case "not":
		want = !in.A
		out = call(func() cty.Value { return a.Not() })
	case "and":
		want = in.A && in.B
		out = call(func() cty.Value { return a.And(b) })
	case "or":
		want = in.A || in.B
		out = call(func() cty.Value { return a.Or(b) })
	default:
		panic("c02: bad bool op")
	}
	desc := fmt.Sprintf("%s(%t, %t)", in.Op, in.A, in.B)
	if out.rejected {
		return facet.Failf("bool-rejected", "%s was rejected: %s", desc, out.why)
	}
	if f := resultShape(desc, out.v, cty.Bool); f != nil {
		return f
	}
	if out.v.True() != want || out.v.False() == want {
		return facet.Failf("bool-table", "%s = %#v, truth table says %t", desc, out.v, want)
	}
	return nil
}

// ---------------------------------------------------------------- reject/wrong-type

// RejCase is an operation applied to known, non-null, unmarked operands at
// least one of which has a type the operation is not defined for.
type RejCase struct {
	Op   string `json:"op"`
	A    spec.V `json:"a"`
	B    spec.V `json:"b"`
	Name string `json:"name,omitempty"`
}

var rejOps = []string{"add", "sub", "mul", "div", "mod", "lt", "gt", "le", "ge", "neg", "abs", "not", "and", "or",
	"index", "hasindex", "getattr", "length", "haselement"}

var anyTypeOpts = gen.TypeOpts{Depth: 2}
var anyValOpts = gen.ValOpts{Null: true, RootKnown: true, MaxElems: 3}

func drawAny(t *rapid.T, label string) spec.V {
	return gen.AnyValue(anyTypeOpts, anyValOpts).Draw(t, label)
}

func drawOfKind(t *rapid.T, label string, kinds ...string) spec.V {
	k := rapid.SampledFrom(kinds).Draw(t, label+"-kind")
	var ty spec.T
	inner := gen.Type(gen.TypeOpts{Depth: 1}).Draw(t, label+"-inner")
	switch k {
	case spec.KBool:
		ty = spec.Bool
	case spec.KNumber:
		ty = spec.Number
	case spec.KString:
		ty = spec.String
	case spec.KList:
		ty = spec.List(inner)
	case spec.KSet:
		ty = spec.Set(inner)
	case spec.KMap:
		ty = spec.Map(inner)
	case spec.KTuple:
		ty = spec.Tuple(inner, spec.Number)
	case spec.KObject:
		ty = spec.Object(spec.Attr{Name: "a", T: inner}, spec.Attr{Name: "0", T: spec.Number})
	}
	return gen.Value(ty, anyValOpts).Draw(t, label)
}

var nonNumber = []string{spec.KBool, spec.KString, spec.KList, spec.KSet, spec.KMap, spec.KTuple, spec.KObject}
var nonBool = []string{spec.KNumber, spec.KString, spec.KList, spec.KSet, spec.KMap, spec.KTuple, spec.KObject}

func genRejCase(t *rapid.T) RejCase {
	op := rapid.SampledFrom(rejOps).Draw(t, "op")
	in := RejCase{Op: op}
	switch op {
	case "add", "sub", "mul", "div", "mod", "lt", "gt", "le", "ge":
		bad := drawOfKind(t, "bad", nonNumber...)
		other := drawOfKind(t, "other", spec.KNumber, spec.KNumber, spec.KString, spec.KBool, spec.KList)
		if rapid.Bool().Draw(t, "badfirst") {
			in.A, in.B = bad, other
		} else {
			in.A, in.B = other, bad
		}
	case "neg", "abs":
		in.A = drawOfKind(t, "bad", nonNumber...)
	case "not":
		in.A = drawOfKind(t, "bad", nonBool...)
	case "and", "or":
		bad := drawOfKind(t, "bad", nonBool...)
		other := drawOfKind(t, "other", spec.KBool, spec.KBool, spec.KNumber, spec.KString)
		if rapid.Bool().Draw(t, "badfirst") {
			in.A, in.B = bad, other
		} else {
			in.A, in.B = other, bad
		}
	case "index":
		if rapid.Bool().Draw(t, "badreceiver") {
			in.A = drawOfKind(t, "recv", spec.KSet, spec.KObject, spec.KBool, spec.KNumber, spec.KString)
			in.B = drawOfKind(t, "key", spec.KNumber, spec.KString, spec.KBool)
			if in.A.T.K == spec.KSet && len(in.A.Elems) > 0 && rapid.Bool().Draw(t, "memberkey") {
				in.B = in.A.Elems[0].Clone()
			}
		} else {
			in.A = drawOfKind(t, "recv", spec.KList, spec.KMap, spec.KTuple)
			if in.A.T.K == spec.KMap {
				in.B = drawOfKind(t, "key", spec.KNumber, spec.KBool, spec.KList, spec.KTuple, spec.KObject)
			} else {
				in.B = drawOfKind(t, "key", spec.KString, spec.KBool, spec.KList, spec.KTuple, spec.KObject)
			}
		}
	case "hasindex":
		in.A = drawOfKind(t, "recv", spec.KSet, spec.KObject, spec.KBool, spec.KNumber, spec.KString)
		in.B = drawOfKind(t, "key", spec.KNumber, spec.KString, spec.KBool)
	case "getattr":
		in.Name = rapid.SampledFrom([]string{"a", "0", "b", "", "length", "A"}).Draw(t, "name")
		if rapid.Bool().Draw(t, "object") {
			in.A = drawOfKind(t, "recv", spec.KObject)
		} else {
			in.A = drawOfKind(t, "recv", spec.KMap, spec.KList, spec.KTuple, spec.KSet, spec.KString, spec.KNumber, spec.KBool)
		}
	case "length":
		in.A = drawOfKind(t, "recv", spec.KBool, spec.KNumber, spec.KString)
	case "haselement":
		in.A = drawOfKind(t, "recv", spec.KList, spec.KMap, spec.KTuple, spec.KObject, spec.KBool, spec.KNumber, spec.KString)
		if len(in.A.Elems) > 0 && rapid.Bool().Draw(t, "memberelem") {
			in.B = in.A.Elems[0].Clone()
		} else {
			in.B = drawAny(t, "elem")
		}
	}
	return in
}

// illTyped is the documented typing rule of each operation: it reports whether
// the call is one the documentation says is not defined (must be rejected).
func illTyped(in RejCase) bool {
	ak, bk := in.A.T.K, in.B.T.K
	switch in.Op {
	case "add", "sub", "mul", "div", "mod", "lt", "gt", "le", "ge":
		return ak != spec.KNumber || bk != spec.KNumber
	case "neg", "abs":
		return ak != spec.KNumber
	case "not":
		return ak != spec.KBool
	case "and", "or":
		return ak != spec.KBool || bk != spec.KBool
	case "index":
		switch ak {
		case spec.KList, spec.KTuple:
			return bk != spec.KNumber
		case spec.KMap:
			return bk != spec.KString
		case spec.KSet:
			// The method comments say sets are not indexable (panic) while
			// docs/types.md says Index / HasIndex "may be" used with sets:
			// contradictory documentation, nothing is asserted.
			return false
		}
		return true // objects and primitives are not indexable
	case "hasindex":
		return ak != spec.KList && ak != spec.KTuple && ak != spec.KMap && ak != spec.KSet
	case "getattr":
		if ak != spec.KObject {
			return true
		}
		for _, k := range in.A.Keys {
			if spec.NFC(k) == spec.NFC(in.Name) {
				return false
			}
		}
		return true
	case "length":
		// collections and tuples have a length; LengthInt documents that an
		// object's length is its attribute count, so objects are not asserted
		return ak == spec.KBool || ak == spec.KNumber || ak == spec.KString
	case "haselement":
		return ak != spec.KSet
	}
	return false
}

func checkRej(c *facet.Ctx, in RejCase) error {
	if in.A.St != spec.Known || !illTyped(in) {
		c.Skip()
		return nil
	}
	a, err := spec.Build(in.A)
	if err != nil {
		c.Skip()
		return nil
	}
	var b cty.Value
	unary := in.Op == "neg" || in.Op == "abs" || in.Op == "not" || in.Op == "getattr" || in.Op == "length"
	if !unary {
		if in.B.St != spec.Known {
			c.Skip()
			return nil
		}
		if b, err = spec.Build(in.B); err != nil {
			c.Skip()
			return nil
		}
	}
	c.NonTrivial()
	c.Label("op=" + in.Op)
	c.Label("receiver=" + in.A.T.K)
	var out outcome
	desc := ""
	switch in.Op {
	case "neg", "abs", "not":
		desc = fmt.Sprintf("%s(%s)", in.Op, in.A.T)
		out = call(func() cty.Value { return unOp(in.Op, a) })
	case "getattr":
		desc = fmt.Sprintf("GetAttr(%q) on %s", in.Name, in.A.T)
		out = call(func() cty.Value { return a.GetAttr(in.Name) })
	case "length":
		desc = fmt.Sprintf("Length of %s", in.A.T)
		out = call(func() cty.Value { return a.Length() })
	case "index":
		desc = fmt.Sprintf("Index on %s with key of type %s", in.A.T, in.B.T)
		out = call(func() cty.Value { return a.Index(b) })
	case "hasindex":
		desc = fmt.Sprintf("HasIndex on %s with key of type %s", in.A.T, in.B.T)
		out = call(func() cty.Value { return a.HasIndex(b) })
	case "haselement":
		desc = fmt.Sprintf("HasElement on %s with element of type %s", in.A.T, in.B.T)
		out = call(func() cty.Value { return a.HasElement(b) })
	default:
		desc = fmt.Sprintf("%s(%s, %s)", in.Op, in.A.T, in.B.T)
		c.Label("operand2=" + in.B.T.K)
		out = call(func() cty.Value { return binOp(in.Op, a, b) })
	}
	if !out.rejected {
		return facet.Failf("wrong-type-yields-value", "%s is not defined for these operand types but returned %#v instead of being rejected", desc, out.v).
			With("op", in.Op).With("receiver", in.A.T.K)
	}
	return nil
}

func init() {
	facet.Register(facet.F[BoolCase]{
		Prop: "C02", Name: "bool/tables",
		Rule:       "all rows of the truth tables of Not, And, Or, each operand built through the package constants and through BoolVal; every row counts",
		Exhaustive: allBoolCases, Check: checkBool,
	})
	facet.Register(facet.F[RejCase]{
		Prop: "C02", Name: "reject/wrong-type",
		Rule:  "one of 19 operations applied to known, non-null, unmarked operands at least one of which has a type the documentation does not define the operation for (non-number for arithmetic/ordering, non-bool for logic, wrong key type or object/primitive receiver for Index, object/primitive receiver for HasIndex (sets: documentation contradictory, unasserted), non-object or missing attribute for GetAttr, primitive for Length, non-set for HasElement); the call must be rejected (no value comes back); every ill-typed case counts",
		Quick: 60000, Thorough: 250000,
		Gen: genRejCase, Check: checkRej,
	})
}
