package c02

import (
	"encoding/json"
	"strings"

	"verif/harness/facet"
)

// Predicates of the open known findings of C02. Each recognises violations
// with one root cause and nothing else.

func init() {
	// Value.Index on a map with a key the map does not have returns a null of
	// the element type instead of rejecting the lookup (HasIndex answers False).
	facet.RegisterKnown("c02MapIndexMissingNull", func(facetName string, raw json.RawMessage, f *facet.Failure) bool {
		return facetName == "coll/index-hasindex" && f.Kind == "index-yields-value" &&
			f.Data["coll"] == "map" && f.Data["keytype"] == "string" && f.Data["keystate"] == "known" && f.Data["null-result"] == "true"
	})

	// Value.Modulo carries out its intermediate steps (quotient, whole
	// quotient, product) at the operands' own precision; when the whole
	// quotient or its product with the divisor needs more bits than that, the
	// result is not the remainder. The flag is computed by the check from the
	// exact operands only (never from the library's answer).
	facet.RegisterKnown("c02ModuloIntermediatePrecision", func(facetName string, raw json.RawMessage, f *facet.Failure) bool {
		return facetName == "arith/mod" && strings.HasPrefix(f.Kind, "mod-") && f.Kind != "mod-infinite" &&
			f.Data["intermediate-inexact"] == "true"
	})
}
