package c02

import (
	"fmt"
	"math/big"

	"github.com/zclconf/go-cty/cty"
	"pgregory.net/rapid"

	"verif/harness/facet"
	"verif/harness/spec"
)

// arith/chain: two arithmetic operations in a row. The value of the first
// result is checked by the single-step facets; what they cannot see is the
// PRECISION the intermediate result is held at, which decides how the second
// operation rounds. "To within the precision of their operands" applied to the
// whole expression: every operation delivers (at least) the precision of its
// more precise operand, so the error of the final result is bounded by the
// forward error bound below, computed in exact rationals from the precisions of
// the three written operands alone.

// ChainIn is (A op1 B) op2 C, or C op2 (A op1 B) when Swap is set.
type ChainIn struct {
	A, B, C  spec.Num
	Op1, Op2 string
	Swap     bool
}

type chainNode struct {
	v    *big.Rat // exact value
	e    *big.Rat // bound on |computed - exact|
	prec uint     // lower bound on the precision the computed value is held at
}

func ulpBound(x *big.Rat, prec uint) *big.Rat {
	// rounding to nearest at prec bits: relative error <= 2^-prec; 2^-(prec-1)
	// leaves a factor two of slack
	return new(big.Rat).Mul(new(big.Rat).Abs(x), new(big.Rat).SetFrac(big.NewInt(1), new(big.Int).Lsh(big.NewInt(1), prec-1)))
}

func fitsBits(r *big.Rat, prec uint) bool {
	d := r.Denom()
	if new(big.Int).And(d, new(big.Int).Sub(d, big.NewInt(1))).Sign() != 0 {
		return false
	}
	n := new(big.Int).Abs(r.Num())
	if n.Sign() == 0 {
		return true
	}
	return uint(n.BitLen())-n.TrailingZeroBits() <= prec
}

func chainApply(op string, x, y chainNode) chainNode {
	p := x.prec
	if y.prec > p {
		p = y.prec
	}
	out := chainNode{prec: p}
	abs := func(r *big.Rat) *big.Rat { return new(big.Rat).Abs(r) }
	switch op {
	case "add":
		out.v = new(big.Rat).Add(x.v, y.v)
		out.e = new(big.Rat).Add(x.e, y.e)
	case "sub":
		out.v = new(big.Rat).Sub(x.v, y.v)
		out.e = new(big.Rat).Add(x.e, y.e)
	case "mul":
		out.v = new(big.Rat).Mul(x.v, y.v)
		out.e = new(big.Rat).Mul(abs(x.v), y.e)
		out.e.Add(out.e, new(big.Rat).Mul(abs(y.v), x.e))
		out.e.Add(out.e, new(big.Rat).Mul(x.e, y.e))
	}
	// the operation itself rounds once, unless the value it computes from exact
	// inputs is representable at the precision it is entitled to
	if !(out.e.Sign() == 0 && fitsBits(out.v, p)) {
		mag := new(big.Rat).Add(abs(out.v), out.e)
		out.e = new(big.Rat).Add(out.e, ulpBound(mag, p))
	}
	return out
}

func checkChain(c *facet.Ctx, in ChainIn) error {
	leaf := func(n spec.Num) (chainNode, *big.Float, bool) {
		f := n.Float()
		if f.IsInf() {
			return chainNode{}, f, false
		}
		r, _ := f.Rat(nil)
		p := f.Prec()
		if p == 0 {
			p = 64 // the zero value
		}
		return chainNode{v: r, e: new(big.Rat), prec: p}, f, true
	}
	a, af, ok1 := leaf(in.A)
	b, bf, ok2 := leaf(in.B)
	cc, cf, ok3 := leaf(in.C)
	if !ok1 || !ok2 || !ok3 {
		c.Label("infinite-operand")
		c.Skip()
		return nil
	}
	c.Label("ops=" + in.Op1 + "," + in.Op2)
	inner := chainApply(in.Op1, a, b)
	var want chainNode
	if in.Swap {
		want = chainApply(in.Op2, cc, inner)
	} else {
		want = chainApply(in.Op2, inner, cc)
	}
	out := call(func() cty.Value {
		mid := binOp(in.Op1, in.A.Cty(), in.B.Cty())
		if in.Swap {
			return binOp(in.Op2, in.C.Cty(), mid)
		}
		return binOp(in.Op2, mid, in.C.Cty())
	})
	desc := fmt.Sprintf("%s(%s(%s, %s), %s)", in.Op2, in.Op1, in.A, in.B, in.C)
	if in.Swap {
		desc = fmt.Sprintf("%s(%s, %s(%s, %s))", in.Op2, in.C, in.Op1, in.A, in.B)
	}
	if out.rejected {
		return facet.Failf("arith-rejected", "%s on known finite numbers was rejected: %s", desc, out.why)
	}
	if f := resultShape(desc, out.v, cty.Number); f != nil {
		return f
	}
	gotF := out.v.AsBigFloat()
	if gotF.IsInf() {
		return facet.Failf("chain-infinite", "%s on finite numbers is infinite", desc)
	}
	got, _ := gotF.Rat(nil)
	if af.Prec() != bf.Prec() || bf.Prec() != cf.Prec() {
		c.Label("mixed-precision")
		c.NonTrivial()
	}
	if want.e.Sign() == 0 {
		c.Label("outcome=exact-demanded")
	} else {
		c.Label("outcome=bounded")
	}
	diff := new(big.Rat).Sub(got, want.v)
	if diff.Abs(diff).Cmp(want.e) > 0 {
		ef, _ := want.e.Float64()
		df, _ := diff.Float64()
		f := facet.Failf("chain-precision", "%s = %s; exact value %s; the error %g exceeds the bound %g that follows from every step delivering the precision of its more precise operand (operand precisions %d, %d, %d)",
			desc, gotF.Text('g', 40), new(big.Float).SetPrec(600).SetRat(want.v).Text('g', 40), df, ef, af.Prec(), bf.Prec(), cf.Prec())
		return f.With("ops", in.Op1+","+in.Op2)
	}
	return nil
}

func init() {
	facet.Register(facet.F[ChainIn]{
		Prop: "C02", Name: "arith/chain", Quick: 100000, Thorough: 500000,
		Rule: "three finite numbers by class and relation (as the single-step facets) and two operations among add, sub, mul applied in a row, the first result being the left or the right operand of the second; the final result must lie within the forward error bound (exact rationals) that follows from every step rounding once at the precision of its more precise operand - exact when every intermediate value fits; non-trivial = operands of different precision; distinct = hash of the input JSON",
		Gen: func(t *rapid.T) ChainIn {
			a, b, _ := drawPair(t)
			in := ChainIn{A: a, B: b, Op1: rapid.SampledFrom([]string{"add", "sub", "mul"}).Draw(t, "op1"), Op2: rapid.SampledFrom([]string{"add", "sub", "mul"}).Draw(t, "op2"),
				Swap: rapid.Bool().Draw(t, "swap")}
			switch rapid.IntRange(0, 3).Draw(t, "crel") {
			case 0:
				in.C = a
			case 1:
				in.C = spec.NFloat(float64(rapid.IntRange(-4, 9).Draw(t, "csmall")))
			default:
				in.C = drawNum(t, "c")
			}
			return in
		},
		Check: checkChain,
	})
}
