package c17

import (
	"encoding/json"
	"regexp"
	"strconv"
	"strings"

	"verif/harness/facet"
	"verif/harness/spec"
)

// Known-finding predicates of C17 (see /verif/known_findings.json). Each one
// recognises one root cause by decoder + panic message + panic site (or, for
// the allocation findings, by the input shape that explains the allocation),
// so that any other violation still fails the check.

var refinementSiteRe = regexp.MustCompile(`(^| < )cty\.\(\*RefinementBuilder\)\.\w+ < cty/msgpack\.unmarshalUnknownValue < `)

func inputOf(raw json.RawMessage) (Input, []byte, bool) {
	var in Input
	if err := json.Unmarshal(raw, &in); err != nil {
		return in, nil, false
	}
	b, err := in.Bytes()
	if err != nil {
		return in, nil, false
	}
	return in, b, true
}

func isPanic(f *facet.Failure, msgPart, sitePrefix string) bool {
	return f != nil && f.Kind == "panic" && strings.Contains(f.Data["panic"], msgPart) && strings.HasPrefix(f.Data["site"], sitePrefix)
}

// oversizeHeaders returns, for a MessagePack input, the sum of the member
// counts declared by array/map headers that declare more members than there
// are bytes left in the input (each member needs at least one byte, so such a
// header can only belong to a truncated or forged document). Headers are
// looked for at every offset: a mutated document need not parse.
func oversizeHeaders(b []byte) (sum uint64, found bool) {
	for i := range b {
		it, ok := mpHeader(b, i)
		if !ok || (it.Kind != 'a' && it.Kind != 'm') || it.Hdr == 1 {
			continue
		}
		if it.N > len(b)-i-it.Hdr {
			sum += uint64(it.N)
			found = true
		}
	}
	return sum, found
}

// jsonDepth is the maximum bracket nesting depth outside string literals.
func jsonDepth(b []byte) int {
	depth, max := 0, 0
	inStr := false
	for i := 0; i < len(b); i++ {
		c := b[i]
		if inStr {
			if c == '\\' {
				i++
			} else if c == '"' {
				inStr = false
			}
			continue
		}
		switch c {
		case '"':
			inStr = true
		case '[', '{':
			depth++
			if depth > max {
				max = depth
			}
		case ']', '}':
			if depth > 0 {
				depth--
			}
		}
	}
	return max
}

// KnownSkip reports the known-finding predicates by name, for the in-process
// fuzz targets (which must not execute inputs that kill the process).
var knownPredicates = map[string]facet.KnownPredicate{}

func regKnown(name string, p facet.KnownPredicate) {
	knownPredicates[name] = p
	facet.RegisterKnown(name, p)
}

func init() {
	// JSON `[]` (too few elements) for a non-empty tuple type at the root of a
	// (sub-)document: the error path is computed as path[:len(path)-1] on an empty path.
	regKnown("c17JSONTupleShortPath", func(_ string, _ json.RawMessage, f *facet.Failure) bool {
		return isPanic(f, "slice bounds out of range [:-1]", "cty/json.unmarshalTuple <")
	})

	// A JSON type descriptor whose optional-attribute list names an attribute
	// the object type does not declare: ObjectWithOptionalAttrs panics.
	regKnown("c17TypeUndeclaredOptional", func(_ string, _ json.RawMessage, f *facet.Failure) bool {
		return isPanic(f, "optional contains undeclared attribute", "cty.ObjectWithOptionalAttrs < cty.(*Type).UnmarshalJSON")
	})

	// A MessagePack float NaN where a number is required: NumberFloatVal panics.
	regKnown("c17MsgpackNaN", func(_ string, _ json.RawMessage, f *facet.Failure) bool {
		return isPanic(f, "Float.SetFloat64(NaN)", "math/big.(*Float).SetFloat64 < cty.NumberFloatVal < cty/msgpack.unmarshalPrimitive")
	})

	// MessagePack array/map headers are trusted when pre-allocating
	// (make(..., length)): a few bytes reserve up to 137 GB, killing the process.
	regKnown("c17MsgpackHeaderPrealloc", func(_ string, raw json.RawMessage, f *facet.Failure) bool {
		if f == nil {
			return false
		}
		dec := f.Data["decoder"]
		if dec != DMsgpackValue && dec != DMsgpackImplied {
			return false
		}
		_, data, ok := inputOf(raw)
		if !ok {
			return false
		}
		sum, found := oversizeHeaders(data)
		if !found {
			return false
		}
		switch f.Kind {
		case "worker-death":
			if f.Data["deathkind"] != "oom" {
				return false
			}
			for _, fn := range []string{"cty/msgpack.unmarshalList", "cty/msgpack.unmarshalSet", "cty/msgpack.unmarshalMap", "cty/msgpack.impliedTupleType"} {
				if strings.Contains(f.Data["death"], "| "+fn+" |") {
					return true
				}
			}
			return false
		case "memory":
			alloc, err := strconv.ParseUint(f.Data["alloc"], 10, 64)
			if err != nil {
				return false
			}
			// the forged headers must be able to explain the excess: at most
			// 64 bytes are reserved per declared member (32-byte cty.Value slots,
			// map buckets are a little larger)
			return alloc-MemBound(len(data)) <= sum*256
		}
		return false
	})

	// The JSON decoders re-buffer the rest of the document once per nesting
	// level (type descriptors: a new json.Decoder per level; dynamic wrappers:
	// a raw copy per level), so memory is quadratic in the nesting depth.
	regKnown("c17JSONNestingQuadratic", func(_ string, raw json.RawMessage, f *facet.Failure) bool {
		if f == nil || f.Kind != "memory" {
			return false
		}
		switch f.Data["decoder"] {
		case DJSONValue, DJSONType, DJSONTypeDirect:
		default:
			return false
		}
		_, data, ok := inputOf(raw)
		if !ok {
			return false
		}
		alloc, err := strconv.ParseUint(f.Data["alloc"], 10, 64)
		if err != nil {
			return false
		}
		d := jsonDepth(data)
		return d >= 512 && alloc <= 16*uint64(d)*uint64(len(data))
	})

	// Members decoded under a dynamic element type can come back with
	// different concrete types (or one of them as a typeless null), and the
	// decoders pass them straight to ListVal / SetVal / MapVal, which panic.
	regKnown("c17MixedDynamicMembers", func(_ string, _ json.RawMessage, f *facet.Failure) bool {
		if f == nil || f.Kind != "panic" {
			return false
		}
		for _, k := range []string{"List", "Set", "Map"} {
			if strings.Contains(f.Data["panic"], "inconsistent "+strings.ToLower(k)+" element types") {
				site := f.Data["site"]
				return strings.HasPrefix(site, "cty."+k+"Val < cty/json.unmarshal"+k+" <") || strings.HasPrefix(site, "cty."+k+"Val < cty/msgpack.unmarshal"+k+" <")
			}
		}
		return false
	})

	// msgpack.Unmarshal answers a zero-length array / map with the empty tuple /
	// empty object value whatever tuple / object type was requested.
	regKnown("c17MsgpackEmptyStruct", func(_ string, _ json.RawMessage, f *facet.Failure) bool {
		return f != nil && f.Kind == "nonconforming" && f.Data["decoder"] == DMsgpackValue && f.Data["shape"] == "empty-struct-for-nonempty"
	})

	// msgpack.unmarshalUnknownValue replays the refinements found in an
	// extension body through cty.RefinementBuilder, whose methods panic on
	// inconsistent or inapplicable refinements (contradictory bounds, null +
	// other refinements, ...).
	regKnown("c17MsgpackRefinementPanic", func(_ string, _ json.RawMessage, f *facet.Failure) bool {
		return f != nil && f.Kind == "panic" && refinementSiteRe.MatchString(f.Data["site"])
	})

	// The type descriptor inside a dynamic wrapper may carry an optional-attribute
	// list; the value decoders type the returned value with it unchanged, so the
	// value's type carries optional-attribute annotations (ill-formed, C06).
	regKnown("c17WrapperOptionalType", func(_ string, raw json.RawMessage, f *facet.Failure) bool {
		if f == nil || (f.Kind != "result/wf/hook" && f.Kind != "result/wf/optional") || !IsValueDecoder(f.Data["decoder"]) {
			return false
		}
		if !strings.Contains(f.Msg, "optional-attribute annotations") || !strings.Contains(f.Data["vtype"], "\"?:") {
			return false
		}
		_, data, ok := inputOf(raw)
		return ok && strings.Contains(string(data), `"object"`)
	})

	// msgpack.Unmarshal counts map entries, not distinct keys: a map that
	// repeats a key for an object type yields an object value lacking attributes.
	regKnown("c17MsgpackObjectDuplicateKey", func(_ string, _ json.RawMessage, f *facet.Failure) bool {
		return f != nil && f.Kind == "nonconforming" && f.Data["decoder"] == DMsgpackValue && f.Data["shape"] == "object-missing-attributes"
	})

	// msgpack.Unmarshal hands string bodies and map keys to StringVal / MapVal
	// unchecked: ill-encoded input comes back as cty strings that are not valid
	// UTF-8 (the documented precondition of StringVal). Prefix refinements are
	// checked by the decoder and are not part of this finding.
	regKnown("c17MsgpackInvalidUTF8", func(_ string, _ json.RawMessage, f *facet.Failure) bool {
		return f != nil && f.Kind == "result/utf8" && f.Data["decoder"] == DMsgpackValue &&
			(strings.Contains(f.Msg, ": known string ") || strings.Contains(f.Msg, ": map key "))
	})

	// cty.SetVal unmarks every member deeply, which rebuilds nested sets through
	// SetVal again: building a set nested d levels deep costs 2^d. The depth is
	// attacker-controlled through the type descriptor of a dynamic wrapper.
	regKnown("c17NestedSetExponential", func(_ string, raw json.RawMessage, f *facet.Failure) bool {
		if f == nil || f.Kind != "memory" || !IsValueDecoder(f.Data["decoder"]) {
			return false
		}
		in, data, ok := inputOf(raw)
		if !ok {
			return false
		}
		alloc, err := strconv.ParseUint(f.Data["alloc"], 10, 64)
		if err != nil {
			return false
		}
		d := setNesting(in.Type)
		if n := strings.Count(string(data), `"set"`); n > d {
			d = n // sets nested inside the type descriptor of a dynamic wrapper
		}
		if d < 8 || d > 40 {
			return false
		}
		return alloc <= (uint64(1)<<uint(d))*2048*uint64(1+len(data)/64)
	})
}

// setNesting is the largest number of set types on one path through ty.
func setNesting(ty spec.T) int {
	d := 0
	switch ty.K {
	case spec.KList, spec.KSet, spec.KMap:
		d = setNesting(*ty.E)
	case spec.KTuple:
		for _, e := range ty.Elems {
			if x := setNesting(e); x > d {
				d = x
			}
		}
	case spec.KObject:
		for _, a := range ty.Attrs {
			if x := setNesting(a.T); x > d {
				d = x
			}
		}
	}
	if ty.K == spec.KSet {
		d++
	}
	return d
}
