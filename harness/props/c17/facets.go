package c17

import (
	"verif/harness/facet"
)

const ruleMut = "valid encoding of a generated value/type + 1..4 byte/token mutations (or an unmutated encoding against an edited/unrelated target type); " +
	"non-trivial when the bytes or the target type differ from the valid case AND the decoder went past its first token: it returned a result, or an error below the root " +
	"(value decoders: non-empty error path; type decoders, which have no error paths: the input starts with a container opener); distinct = hash of the input JSON. " +
	"Each call runs in a disposable worker process (RLIMIT_AS 16 GiB); oracle: no panic, no process death, result well-formed and conforming, TotalAlloc delta <= 16 MiB + 16 KiB/byte; inputs <= 64 KiB"

const ruleRaw = "random bytes / random token soup with a random target type; non-trivial when the decoder went past its first token (result, or error below the root as for the mut facets)"

const ruleMem = "hostile shapes pre + open^n + leaf + close^n (deep nesting, wide collections, huge length headers, long scalars; n up to the 64 KiB input bound) with a matching target type; " +
	"non-trivial when the decoder went past its first token"

func init() {
	type mf struct {
		name string
		gen  func() facet.F[Input]
	}
	reg := func(name, rule string, quick, thorough, shards int, g facet.F[Input], needChanged bool) {
		g.Prop, g.Name, g.Rule, g.Quick, g.Thorough, g.Shards = "C17", name, rule, quick, thorough, shards
		g.Check = check(needChanged)
		facet.Register(g)
	}
	reg("mut/json-value", ruleMut, 20000, 40000, 4, facet.F[Input]{Gen: genMutValue("json", DJSONValue)}, true)
	reg("mut/json-type", ruleMut, 20000, 40000, 4, facet.F[Input]{Gen: genMutType}, true)
	reg("mut/json-implied", ruleMut, 20000, 40000, 4, facet.F[Input]{Gen: genMutImplied("json", DJSONImplied)}, true)
	reg("mut/msgpack-value", ruleMut, 20000, 40000, 4, facet.F[Input]{Gen: genMutValue("msgpack", DMsgpackValue)}, true)
	reg("mut/msgpack-implied", ruleMut, 20000, 40000, 4, facet.F[Input]{Gen: genMutImplied("msgpack", DMsgpackImplied)}, true)

	reg("refine/msgpack-value", ruleRefine, 20000, 40000, 4, facet.F[Input]{Gen: genRefine}, false)

	reg("wrapper/json-value", ruleWrapper, 20000, 40000, 4, facet.F[Input]{Gen: genWrapper("json", DJSONValue)}, false)
	reg("wrapper/msgpack-value", ruleWrapper, 20000, 40000, 4, facet.F[Input]{Gen: genWrapper("msgpack", DMsgpackValue)}, false)

	reg("raw/json-value", ruleRaw, 10000, 30000, 2, facet.F[Input]{Gen: genRaw("json", []string{DJSONValue})}, false)
	reg("raw/json-type", ruleRaw, 10000, 30000, 2, facet.F[Input]{Gen: genRaw("json", []string{DJSONType, DJSONTypeDirect})}, false)
	reg("raw/json-implied", ruleRaw, 10000, 30000, 2, facet.F[Input]{Gen: genRaw("json", []string{DJSONImplied})}, false)
	reg("raw/msgpack-value", ruleRaw, 10000, 30000, 2, facet.F[Input]{Gen: genRaw("msgpack", []string{DMsgpackValue})}, false)
	reg("raw/msgpack-implied", ruleRaw, 10000, 30000, 2, facet.F[Input]{Gen: genRaw("msgpack", []string{DMsgpackImplied})}, false)

	reg("mem/json-value", ruleMem, 600, 900, 2, facet.F[Input]{Gen: genMem(DJSONValue, 16)}, false)
	reg("mem/json-type", ruleMem, 400, 600, 2, facet.F[Input]{Gen: genMem(DJSONType, 64)}, false)
	reg("mem/json-implied", ruleMem, 1200, 2400, 2, facet.F[Input]{Gen: genMem(DJSONImplied, 4)}, false)
	reg("mem/msgpack-value", ruleMem, 1200, 2400, 2, facet.F[Input]{Gen: genMem(DMsgpackValue, 8)}, false)
	reg("mem/msgpack-implied", ruleMem, 1200, 2400, 2, facet.F[Input]{Gen: genMem(DMsgpackImplied, 4)}, false)
	_ = mf{}
}
