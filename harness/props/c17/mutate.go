package c17

import (
	"encoding/binary"
	"fmt"
	"golang.org/x/text/unicode/norm"
	"strconv"

	"pgregory.net/rapid"
)

// ------------------------------------------------------------------ msgpack scanner (independent of the library)

// mpItem is one MessagePack item header found by a linear scan.
type mpItem struct {
	Off   int  // offset of the code byte
	Hdr   int  // header length in bytes (code + length field [+ ext type])
	Kind  byte // 'a' array, 'm' map, 's' str, 'b' bin, 'e' ext, 'x' scalar / nil / bool
	N     int  // declared length (members, pairs, payload bytes)
	InExt bool // the item lies inside the body of an extension of type 0x0c
}

func mpHeader(b []byte, i int) (it mpItem, ok bool) {
	if i >= len(b) {
		return it, false
	}
	c := b[i]
	it.Off = i
	need := func(n int) bool { return i+n <= len(b) }
	switch {
	case c <= 0x7f || c >= 0xe0:
		it.Kind, it.Hdr = 'x', 1
	case c >= 0x80 && c <= 0x8f:
		it.Kind, it.Hdr, it.N = 'm', 1, int(c&0x0f)
	case c >= 0x90 && c <= 0x9f:
		it.Kind, it.Hdr, it.N = 'a', 1, int(c&0x0f)
	case c >= 0xa0 && c <= 0xbf:
		it.Kind, it.Hdr, it.N = 's', 1, int(c&0x1f)
	case c == 0xc0 || c == 0xc2 || c == 0xc3 || c == 0xc1:
		it.Kind, it.Hdr = 'x', 1
	case c == 0xc4 || c == 0xd9:
		if !need(2) {
			return it, false
		}
		it.Kind, it.Hdr, it.N = 'b', 2, int(b[i+1])
		if c == 0xd9 {
			it.Kind = 's'
		}
	case c == 0xc5 || c == 0xda:
		if !need(3) {
			return it, false
		}
		it.Kind, it.Hdr, it.N = 'b', 3, int(binary.BigEndian.Uint16(b[i+1:]))
		if c == 0xda {
			it.Kind = 's'
		}
	case c == 0xc6 || c == 0xdb:
		if !need(5) {
			return it, false
		}
		it.Kind, it.Hdr, it.N = 'b', 5, int(binary.BigEndian.Uint32(b[i+1:]))
		if c == 0xdb {
			it.Kind = 's'
		}
	case c == 0xc7:
		if !need(3) {
			return it, false
		}
		it.Kind, it.Hdr, it.N = 'e', 3, int(b[i+1])
	case c == 0xc8:
		if !need(4) {
			return it, false
		}
		it.Kind, it.Hdr, it.N = 'e', 4, int(binary.BigEndian.Uint16(b[i+1:]))
	case c == 0xc9:
		if !need(6) {
			return it, false
		}
		it.Kind, it.Hdr, it.N = 'e', 6, int(binary.BigEndian.Uint32(b[i+1:]))
	case c == 0xca:
		it.Kind, it.Hdr = 'x', 5
	case c == 0xcb:
		it.Kind, it.Hdr = 'x', 9
	case c == 0xcc || c == 0xd0:
		it.Kind, it.Hdr = 'x', 2
	case c == 0xcd || c == 0xd1:
		it.Kind, it.Hdr = 'x', 3
	case c == 0xce || c == 0xd2:
		it.Kind, it.Hdr = 'x', 5
	case c == 0xcf || c == 0xd3:
		it.Kind, it.Hdr = 'x', 9
	case c >= 0xd4 && c <= 0xd8:
		if !need(2) {
			return it, false
		}
		it.Kind, it.Hdr, it.N = 'e', 2, 1<<(c-0xd4)
	case c == 0xdc || c == 0xde:
		if !need(3) {
			return it, false
		}
		it.Kind, it.Hdr, it.N = 'a', 3, int(binary.BigEndian.Uint16(b[i+1:]))
		if c == 0xde {
			it.Kind = 'm'
		}
	case c == 0xdd || c == 0xdf:
		if !need(5) {
			return it, false
		}
		it.Kind, it.Hdr, it.N = 'a', 5, int(binary.BigEndian.Uint32(b[i+1:]))
		if c == 0xdf {
			it.Kind = 'm'
		}
	default:
		it.Kind, it.Hdr = 'x', 1
	}
	return it, true
}

// scanMsgpack lists the item headers of a (valid or nearly valid) document in
// stream order; it descends into the bodies of 0x0c extensions (refinement maps).
func scanMsgpack(b []byte) []mpItem {
	var out []mpItem
	var walk func(lo, hi int, inExt bool)
	walk = func(lo, hi int, inExt bool) {
		i := lo
		for i < hi && len(out) < 4096 {
			it, ok := mpHeader(b[:hi], i)
			if !ok {
				return
			}
			it.InExt = inExt
			out = append(out, it)
			i += it.Hdr
			switch it.Kind {
			case 's', 'b':
				i += it.N
			case 'e':
				if i+it.N <= hi && b[i-1] == 0x0c && it.N > 1 && !inExt {
					walk(i, i+it.N, true)
				}
				i += it.N
			}
		}
	}
	walk(0, len(b), false)
	return out
}

// mpMakeHeader builds a header of the given kind declaring length n, in the
// narrowest format that can hold n unless wide is set (then the 32-bit format).
func mpMakeHeader(kind byte, n uint32, wide bool, extType byte) []byte {
	be16 := func(c byte) []byte { return []byte{c, byte(n >> 8), byte(n)} }
	be32 := func(c byte) []byte { return []byte{c, byte(n >> 24), byte(n >> 16), byte(n >> 8), byte(n)} }
	switch kind {
	case 'a':
		switch {
		case wide:
			return be32(0xdd)
		case n < 16:
			return []byte{0x90 | byte(n)}
		case n < 1<<16:
			return be16(0xdc)
		}
		return be32(0xdd)
	case 'm':
		switch {
		case wide:
			return be32(0xdf)
		case n < 16:
			return []byte{0x80 | byte(n)}
		case n < 1<<16:
			return be16(0xde)
		}
		return be32(0xdf)
	case 's':
		switch {
		case wide:
			return be32(0xdb)
		case n < 32:
			return []byte{0xa0 | byte(n)}
		case n < 256:
			return []byte{0xd9, byte(n)}
		case n < 1<<16:
			return be16(0xda)
		}
		return be32(0xdb)
	case 'b':
		switch {
		case wide:
			return be32(0xc6)
		case n < 256:
			return []byte{0xc4, byte(n)}
		case n < 1<<16:
			return be16(0xc5)
		}
		return be32(0xc6)
	case 'e':
		switch {
		case wide:
			return append(be32(0xc9), extType)
		case n < 256:
			return []byte{0xc7, byte(n), extType}
		case n < 1<<16:
			return append(be16(0xc8), extType)
		}
		return append(be32(0xc9), extType)
	}
	panic("mpMakeHeader: bad kind")
}

// hostile lengths for length-field edits (2^16 .. 2^32-1 as the design asks, plus off-by-one neighbours)
// (2^21..2^30 are left out: those allocations succeed under the worker's 16 GiB
// limit and the runtime zeroes them, which costs up to seconds per case; lengths
// from 2^31 make the allocation fail at once)
var hostileLens = []uint32{1 << 16, 1<<16 + 1, 1 << 17, 1 << 18, 1 << 20, 1<<20 + 7, 1<<31 - 1, 1 << 31, 1<<31 + 1, 1<<32 - 2, 1<<32 - 1, 1<<32 - 1}

// ------------------------------------------------------------------ JSON tokenizer (independent of encoding/json)

type jsTok struct {
	Off, End int
	Kind     byte // one of { } [ ] : , or 's' string, 'n' number, 'l' literal
}

func scanJSON(b []byte) []jsTok {
	var out []jsTok
	i := 0
	for i < len(b) && len(out) < 8192 {
		c := b[i]
		switch {
		case c == ' ' || c == '\t' || c == '\n' || c == '\r':
			i++
		case c == '{' || c == '}' || c == '[' || c == ']' || c == ':' || c == ',':
			out = append(out, jsTok{i, i + 1, c})
			i++
		case c == '"':
			j := i + 1
			for j < len(b) && b[j] != '"' {
				if b[j] == '\\' {
					j++
				}
				j++
			}
			if j < len(b) {
				j++
			} else {
				j = len(b)
			}
			out = append(out, jsTok{i, j, 's'})
			i = j
		case c == '-' || (c >= '0' && c <= '9'):
			j := i + 1
			for j < len(b) && (b[j] == '.' || b[j] == 'e' || b[j] == 'E' || b[j] == '+' || b[j] == '-' || (b[j] >= '0' && b[j] <= '9')) {
				j++
			}
			out = append(out, jsTok{i, j, 'n'})
			i = j
		case c >= 'a' && c <= 'z':
			j := i + 1
			for j < len(b) && b[j] >= 'a' && b[j] <= 'z' {
				j++
			}
			out = append(out, jsTok{i, j, 'l'})
			i = j
		default:
			i++
		}
	}
	return out
}

// valueEnd returns the index one past the last token of the value that starts at token i.
func valueEnd(toks []jsTok, i int) int {
	if i >= len(toks) {
		return i
	}
	switch toks[i].Kind {
	case '[', '{':
		depth := 0
		for j := i; j < len(toks); j++ {
			switch toks[j].Kind {
			case '[', '{':
				depth++
			case ']', '}':
				depth--
				if depth == 0 {
					return j + 1
				}
			}
		}
		return len(toks)
	}
	return i + 1
}

// valueStarts lists the token indexes at which a value starts.
func valueStarts(toks []jsTok) []int {
	var out []int
	for i, t := range toks {
		switch t.Kind {
		case '[', '{', 'n', 'l':
			out = append(out, i)
		case 's':
			if i+1 < len(toks) && toks[i+1].Kind == ':' {
				continue // a key
			}
			out = append(out, i)
		}
	}
	return out
}

var jsonScalars = []string{"null", "true", "false", "0", "-1", "1.5", "1e3", `""`, `"a"`, `"true"`, `"1"`, "[]", "{}", "[null]", `{"a":null}`,
	`{"type":"string","value":"x"}`, `{"type":"dynamic","value":null}`, `{"value":1}`, `{"type":"number"}`, `{"type":["list","dynamic"],"value":[]}`,
	`{"type":["tuple",["string"]],"value":[]}`, `{"type":["object",{"a":"string"},["a"]],"value":{}}`, `{"type":["list","string"],"value":null}`,
	`{"type":"string","value":"x","extra":1}`}

var hostileNumbers = []string{"1e999999999", "-1e999999999", "1e-999999999", "1e400", "0.1e-400", "-0", "00", "01", "1.", ".5", "1e", "1e+", "--1", "+1", "0x10", "1_000",
	"123456789012345678901234567890123456789012345678901234567890123456789012345678901234567890",
	"0.0000000000000000000000000000000000000000000000000000000000000000000000000000000000000000000000000000001",
	"18446744073709551616", "-9223372036854775809", "NaN", "Infinity", "1e2147483647", "1e2147483648", "1e-2147483649", "9e99999999999999999999",
	// number-like text in a STRING token (the number decoders accept strings)
	`"NaN"`, `"nan"`, `"NAN"`, `"Inf"`, `"-inf"`, `"Infinity"`, `"+Infinity"`, `"0x10"`, `"0b1"`, `"1_000"`, `" 1"`, `"1 "`, `"1e5"`, `"\u0661"`, `""`, `"1e999999999"`, `"0x1p-2"`, `"1e"`}

// numberTexts are texts a number parser may or may not accept, for string
// items placed where a number is expected.
var numberTexts = []string{"NaN", "nan", "NAN", "Inf", "-inf", "+Inf", "Infinity", "0x10", "0b1", "1_000", " 1", "1 ", "1e5", "\u0661", "", "1e999999999", "0x1p-2", "1e", "-0", "1.5"}

var hostileStrings = []string{`"\ud800"`, `"\udc00\ud800"`, `"\u0000"`, `"\x"`, `"\`, `"\u12"`, "\"\xff\xfe\"", "\"\xc3\"", "\"a\xcc\x81\"", "\"\xe2\x84\xab\"", `"é"`, `"😀"`,
	`"type"`, `"value"`, `"dynamic"`, `"list"`, "\"\n\"", `"\/"`, `"` + "\t" + `"`}

var typeKeywords = []string{`"string"`, `"number"`, `"bool"`, `"dynamic"`, `"list"`, `"set"`, `"map"`, `"tuple"`, `"object"`}
var typeKeywordRepl = []string{`"string"`, `"number"`, `"bool"`, `"dynamic"`, `"list"`, `"set"`, `"map"`, `"tuple"`, `"object"`, `"capsule"`, `"String"`, `""`, `"lst"`, "null", "1", "[]", "{}",
	`["list","string"]`, `["tuple",[]]`, `["object",{}]`, `["object",{"a":"string"},["a"]]`, `["object",{"a":"string"},["zz"]]`, `["map"]`, `["list","string","string"]`, `["tuple","string"]`, `["object",["a"]]`, `["object",null]`, `["tuple",null]`, `["tuple",[null]]`, `["set",null]`}
var optionalLists = []string{`,["zz"]`, `,["a"]`, `,["a","a"]`, `,[""]`, `,[]`, `,null`, `,["a"],["b"]`, `,[1]`, `,"a"`, `,{"a":1}`, `,["b","c","id","name","x"]`, ",[\"é\"]", ",[\"é\"]"}

// ------------------------------------------------------------------ mutation operators

func splice(b []byte, lo, hi int, ins []byte) []byte {
	if lo < 0 {
		lo = 0
	}
	if hi > len(b) {
		hi = len(b)
	}
	if hi < lo {
		hi = lo
	}
	out := make([]byte, 0, len(b)-(hi-lo)+len(ins))
	out = append(out, b[:lo]...)
	out = append(out, ins...)
	out = append(out, b[hi:]...)
	return out
}

var interestingBytes = []byte{0x00, 0x01, 0x7f, 0x80, 0x8f, 0x90, 0x91, 0x92, 0x9f, 0xa0, 0xbf, 0xc0, 0xc1, 0xc2, 0xc3, 0xc4, 0xc5, 0xc6, 0xc7, 0xc8, 0xc9, 0xca, 0xcb, 0xcc, 0xcf, 0xd0, 0xd3,
	0xd4, 0xd5, 0xd8, 0xd9, 0xda, 0xdb, 0xdc, 0xdd, 0xde, 0xdf, 0xe0, 0xff, 0x0c, '[', ']', '{', '}', '"', ',', ':', '\\', 'n', 't', '0', '-', 'e', '.', ' '}

// genericOp applies one byte-level mutation.
func genericOp(t *rapid.T, b, other []byte) ([]byte, string) {
	if len(b) == 0 {
		return []byte{rapid.SampledFrom(interestingBytes).Draw(t, "ins")}, "insert"
	}
	pos := rapid.IntRange(0, len(b)-1).Draw(t, "pos")
	switch rapid.IntRange(0, 8).Draw(t, "gop") {
	case 0:
		out := append([]byte(nil), b...)
		out[pos] ^= 1 << uint(rapid.IntRange(0, 7).Draw(t, "bit"))
		return out, "bitflip"
	case 1:
		out := append([]byte(nil), b...)
		out[pos] = rapid.SampledFrom(interestingBytes).Draw(t, "val")
		return out, "byteset"
	case 2:
		out := append([]byte(nil), b...)
		out[pos] = rapid.Byte().Draw(t, "rnd")
		return out, "byterand"
	case 3:
		n := rapid.IntRange(1, 4).Draw(t, "n")
		ins := make([]byte, n)
		for i := range ins {
			if rapid.Bool().Draw(t, "interesting") {
				ins[i] = rapid.SampledFrom(interestingBytes).Draw(t, "val")
			} else {
				ins[i] = rapid.Byte().Draw(t, "rnd")
			}
		}
		return splice(b, pos, pos, ins), "insert"
	case 4:
		n := rapid.IntRange(1, 8).Draw(t, "n")
		return splice(b, pos, pos+n, nil), "delete"
	case 5:
		return append([]byte(nil), b[:pos]...), "truncate"
	case 6:
		hi := pos + rapid.IntRange(1, 16).Draw(t, "len")
		if hi > len(b) {
			hi = len(b)
		}
		at := rapid.IntRange(0, len(b)).Draw(t, "at")
		return splice(b, at, at, b[pos:hi]), "duprange"
	default:
		if len(other) == 0 {
			return splice(b, pos, pos+1, nil), "delete"
		}
		lo := rapid.IntRange(0, len(other)-1).Draw(t, "olo")
		hi := lo + rapid.IntRange(1, 24).Draw(t, "olen")
		if hi > len(other) {
			hi = len(other)
		}
		end := pos
		if rapid.Bool().Draw(t, "replace") {
			end = pos + rapid.IntRange(1, 16).Draw(t, "rlen")
		}
		return splice(b, pos, end, other[lo:hi]), "splice-bytes"
	}
}

// synthRefinementExt builds an extension item holding a refinement map with
// drawn (possibly contradictory or ill-typed) entries.
func synthRefinementExt(t *rapid.T) []byte {
	if rapid.IntRange(0, 2).Draw(t, "coherent") == 0 {
		return coherentRefinementExt(t, -1)
	}
	n := rapid.IntRange(0, 4).Draw(t, "entries")
	var body []byte
	declared := n
	if rapid.IntRange(0, 7).Draw(t, "lie") == 0 {
		declared = rapid.IntRange(0, 15).Draw(t, "declared")
	}
	body = append(body, 0x80|byte(declared&0x0f))
	num := func(label string) []byte {
		switch rapid.IntRange(0, 6).Draw(t, label) {
		case 0:
			return []byte{byte(rapid.IntRange(0, 10).Draw(t, "fix"))}
		case 1:
			return []byte{0xff - byte(rapid.IntRange(0, 5).Draw(t, "neg"))}
		case 2:
			return []byte{0xcb, 0x7f, 0xf0, 0, 0, 0, 0, 0, 0} // +Inf
		case 3:
			return []byte{0xcb, 0xff, 0xf0, 0, 0, 0, 0, 0, 0} // -Inf
		case 4:
			return []byte{0xcb, 0x7f, 0xf8, 0, 0, 0, 0, 0, 1} // NaN
		case 5:
			s := rapid.SampledFrom([]string{"1.5", "1e400", "-3", "x", "", "0.1"}).Draw(t, "numstr")
			return append([]byte{0xa0 | byte(len(s))}, s...)
		default:
			return []byte{0xd3, 0x80, 0, 0, 0, 0, 0, 0, 0} // MinInt64
		}
	}
	for i := 0; i < n; i++ {
		key := rapid.IntRange(0, 8).Draw(t, "key")
		body = append(body, byte(key))
		switch rapid.IntRange(0, 9).Draw(t, "valkind") {
		case 0:
			body = append(body, 0xc2)
		case 1:
			body = append(body, 0xc3)
		case 2:
			s := rapid.SampledFrom([]string{"", "a", "foo", "\xff", "é", "é", "á"}).Draw(t, "prefix")
			body = append(body, 0xa0|byte(len(s)))
			body = append(body, s...)
		case 3, 4:
			body = append(body, 0x92)
			body = append(body, num("bound")...)
			body = append(body, 0xc2+byte(rapid.IntRange(0, 1).Draw(t, "inc")))
		case 5:
			body = append(body, num("len")...)
		case 6:
			body = append(body, 0xc0)
		case 7:
			body = append(body, 0x92, 0xc0, 0xc3)
		case 8:
			body = append(body, 0x92, 0xd4, 0x00, 0x00, 0xc3) // unknown bound
		default:
			body = append(body, 0x91)
			body = append(body, num("bound1")...)
		}
	}
	typ := byte(0x0c)
	if rapid.IntRange(0, 9).Draw(t, "othertype") == 0 {
		typ = rapid.Byte().Draw(t, "exttype")
	}
	return append(mpMakeHeader('e', uint32(len(body)), false, typ), body...)
}

// hostile magnitudes for the integers of a refinement map (length bounds): the
// decoder turns them into refinements, and a refinement can make the library
// materialise a collection of that length.
var hostileRefInts = []uint64{0, 1, 2, 3, 1 << 12, 1 << 16, 1 << 20, 1<<31 - 1, 1<<32 - 1, 1 << 40, 1 << 62, 1<<63 - 1}

func mpUint(n uint64) []byte {
	switch {
	case n < 128:
		return []byte{byte(n)}
	case n < 1<<16:
		return []byte{0xcd, byte(n >> 8), byte(n)}
	case n < 1<<32:
		return []byte{0xce, byte(n >> 24), byte(n >> 16), byte(n >> 8), byte(n)}
	}
	return []byte{0xcf, byte(n >> 56), byte(n >> 48), byte(n >> 40), byte(n >> 32), byte(n >> 24), byte(n >> 16), byte(n >> 8), byte(n)}
}

// coherentRefinementExt builds a refinement map that is well-typed for one
// kind of target (collection, number or string) - keys in the encoder's order,
// each at most once - but with hostile magnitudes: length bounds up to
// MaxInt64 that may coincide (an exact length), numeric bounds that may
// coincide or be infinite, a long prefix. Unlike the random maps of
// synthRefinementExt these survive the decoder's own validation and reach the
// refinement builder.
func coherentRefinementExt(t *rapid.T, kind int) []byte {
	var entries [][]byte
	switch rapid.IntRange(0, 2).Draw(t, "nullness") {
	case 1:
		entries = append(entries, []byte{0x01, 0xc2}) // not null
	case 2:
		entries = append(entries, []byte{0x01, 0xc3})
	}
	if kind < 0 {
		kind = rapid.IntRange(0, 3).Draw(t, "target")
	}
	switch kind {
	case 0, 1: // collection length bounds (keys 5, 6)
		lo := rapid.SampledFrom(hostileRefInts).Draw(t, "lo")
		hi := lo
		if rapid.IntRange(0, 2).Draw(t, "exact") != 0 {
			hi = rapid.SampledFrom(hostileRefInts).Draw(t, "hi")
		}
		which := rapid.IntRange(0, 3).Draw(t, "which")
		if which != 1 {
			entries = append(entries, append([]byte{0x05}, mpUint(lo)...))
		}
		if which != 2 {
			entries = append(entries, append([]byte{0x06}, mpUint(hi)...))
		}
	case 2: // numeric bounds (keys 3, 4)
		nums := [][]byte{{0x00}, {0x05}, {0xff}, mpUint(1 << 40), {0xcb, 0x7f, 0xf0, 0, 0, 0, 0, 0, 0}, {0xcb, 0xff, 0xf0, 0, 0, 0, 0, 0, 0}, append([]byte{0xa3}, "0.1"...), append([]byte{0xa6}, "1e9999"...)}
		lo := rapid.SampledFrom(nums).Draw(t, "nlo")
		hi := lo
		if rapid.Bool().Draw(t, "same") == false {
			hi = rapid.SampledFrom(nums).Draw(t, "nhi")
		}
		which := rapid.IntRange(0, 3).Draw(t, "nwhich")
		// the bound entry is the two-element array [number, inclusive] an encoder
		// writes - or, now and then, something else in the same place: the flag
		// or the number null / unknown, the array short, long, null or unknown
		boundEntry := func(key byte, num []byte, label string) []byte {
			flag := []byte{0xc2 + byte(rapid.IntRange(0, 1).Draw(t, label+"inc"))}
			switch rapid.IntRange(0, 11).Draw(t, label+"shape") {
			case 4:
				flag = []byte{0xd4, 0x00, 0x00} // unknown inclusive flag
			case 5:
				flag = []byte{0xc0} // null inclusive flag
			case 6:
				return []byte{key, 0xc0} // null instead of the array
			case 7:
				return []byte{key, 0xd4, 0x00, 0x00} // unknown instead of the array
			case 8:
				return append([]byte{key, 0x91}, num...) // one-element array
			case 9:
				num = []byte{0xd4, 0x00, 0x00} // unknown bound
			case 10:
				return append(append(append([]byte{key, 0x93}, num...), flag...), 0xc3) // three elements
			}
			return append(append([]byte{key, 0x92}, num...), flag...)
		}
		if which != 1 {
			entries = append(entries, boundEntry(0x03, lo, "lo"))
		}
		if which != 2 {
			entries = append(entries, boundEntry(0x04, hi, "hi"))
		}
	default: // string prefix (key 2)
		s := rapid.SampledFrom([]string{"", "a", "e\u0301", "\u1100", "ab\u0323"}).Draw(t, "pfx")
		rep := rapid.SampledFrom([]int{1, 1, 2, 100, 300}).Draw(t, "pfxrep")
		var p []byte
		for i := 0; i < rep; i++ {
			p = append(p, s...)
		}
		e := append([]byte{0x02}, mpMakeHeader('s', uint32(len(p)), false, 0)...)
		entries = append(entries, append(e, p...))
	}
	if kind <= 1 && rapid.IntRange(0, 3).Draw(t, "repeat") == 0 {
		// a repeated length key with another value (the builder keeps the
		// tighter bound, whatever a decoder-side check remembers)
		e := append([]byte{byte(5 + rapid.IntRange(0, 1).Draw(t, "repkey"))}, mpUint(rapid.SampledFrom(hostileRefInts).Draw(t, "repval"))...)
		at := rapid.IntRange(0, len(entries)).Draw(t, "repat")
		entries = append(entries[:at], append([][]byte{e}, entries[at:]...)...)
	}
	if rapid.IntRange(0, 3).Draw(t, "shuffle") == 0 && len(entries) > 1 {
		entries[0], entries[len(entries)-1] = entries[len(entries)-1], entries[0]
	}
	body := []byte{0x80 | byte(len(entries))}
	for _, e := range entries {
		body = append(body, e...)
	}
	return append(mpMakeHeader('e', uint32(len(body)), false, 0x0c), body...)
}

// msgpackOp applies one MessagePack-aware mutation.
func msgpackOp(t *rapid.T, b, other []byte) ([]byte, string) {
	items := scanMsgpack(b)
	if len(items) == 0 {
		return genericOp(t, b, other)
	}
	var sized []int
	for i, it := range items {
		if it.Kind != 'x' {
			sized = append(sized, i)
		}
	}
	op := rapid.IntRange(0, 11).Draw(t, "mop")
	if len(sized) == 0 && op <= 3 {
		op = 4 + op%3
	}
	switch op {
	case 11: // a scalar item replaced by a string item holding number-like text (the number decoder accepts strings)
		var scalars []int
		for i, it := range items {
			if it.Kind == 'x' && !it.InExt && it.Off+it.Hdr <= len(b) {
				scalars = append(scalars, i)
			}
		}
		if len(scalars) == 0 {
			return genericOp(t, b, other)
		}
		it := items[rapid.SampledFrom(scalars).Draw(t, "scalar")]
		txt := rapid.SampledFrom(numberTexts).Draw(t, "numtext")
		k := byte('s')
		if rapid.IntRange(0, 3).Draw(t, "asbin") == 0 {
			k = 'b'
		}
		return splice(b, it.Off, it.Off+it.Hdr, append(mpMakeHeader(k, uint32(len(txt)), false, 0), txt...)), "scalar-to-numtext"

	case 10: // re-spell a string (map key, attribute name, value) in a canonically equivalent form, in place or over ANOTHER string item (both spellings present)
		var ss []int
		for i, it := range items {
			if it.Kind == 's' && it.Off+it.Hdr+it.N <= len(b) {
				ss = append(ss, i)
			}
		}
		if len(ss) == 0 {
			return genericOp(t, b, other)
		}
		// prefer a string that HAS another canonically equivalent spelling
		var respellable []int
		for _, i := range ss {
			it := items[i]
			str := string(b[it.Off+it.Hdr : it.Off+it.Hdr+it.N])
			if norm.NFD.String(str) != str || norm.NFC.String(str) != str {
				respellable = append(respellable, i)
			}
		}
		pickFrom := ss
		if len(respellable) > 0 {
			pickFrom = respellable
		}
		src := items[rapid.SampledFrom(pickFrom).Draw(t, "str")]
		inner := string(b[src.Off+src.Hdr : src.Off+src.Hdr+src.N])
		alt := norm.NFD.String(inner)
		if alt == inner {
			alt = norm.NFC.String(inner)
		}
		if alt == inner {
			alt = inner + rapid.SampledFrom([]string{"e\u0301", "\u1100\u1161", "a\u0323\u0307", "\u212b"}).Draw(t, "suffix")
		}
		repl := append(mpMakeHeader('s', uint32(len(alt)), false, 0), alt...)
		if len(ss) > 1 && rapid.Bool().Draw(t, "over") {
			dst := items[rapid.SampledFrom(ss).Draw(t, "dst")]
			if dst.Off != src.Off {
				return splice(b, dst.Off, dst.Off+dst.Hdr+dst.N, repl), "respell-over"
			}
		}
		return splice(b, src.Off, src.Off+src.Hdr+src.N, repl), "respell-one"
	case 0, 1: // length-field edit to a hostile length
		it := items[rapid.SampledFrom(sized).Draw(t, "item")]
		n := rapid.SampledFrom(hostileLens).Draw(t, "len")
		extType := byte(0x0c)
		if it.Kind == 'e' {
			extType = b[it.Off+it.Hdr-1]
		}
		return splice(b, it.Off, it.Off+it.Hdr, mpMakeHeader(it.Kind, n, false, extType)), "lenedit-huge/" + string(it.Kind)
	case 2: // length off by a little
		it := items[rapid.SampledFrom(sized).Draw(t, "item")]
		d := rapid.SampledFrom([]int{-2, -1, 1, 2, 15, 16, 255, 256}).Draw(t, "delta")
		n := it.N + d
		if n < 0 {
			n = 0
		}
		extType := byte(0x0c)
		if it.Kind == 'e' {
			extType = b[it.Off+it.Hdr-1]
		}
		return splice(b, it.Off, it.Off+it.Hdr, mpMakeHeader(it.Kind, uint32(n), rapid.Bool().Draw(t, "wide"), extType)), "lenedit-near/" + string(it.Kind)
	case 3: // same length, other kind of container
		it := items[rapid.SampledFrom(sized).Draw(t, "item")]
		k := rapid.SampledFrom([]byte{'a', 'm', 's', 'b', 'e'}).Draw(t, "kind")
		return splice(b, it.Off, it.Off+it.Hdr, mpMakeHeader(k, uint32(it.N), false, 0x0c)), "kindswap"
	case 4: // replace an item header by nil / unknown / synthesized refinement extension
		it := items[rapid.IntRange(0, len(items)-1).Draw(t, "item")]
		switch rapid.IntRange(0, 3).Draw(t, "subst") {
		case 0:
			return splice(b, it.Off, it.Off+it.Hdr, []byte{0xc0}), "subst-nil"
		case 1:
			return splice(b, it.Off, it.Off+it.Hdr, []byte{0xd4, 0x00, 0x00}), "subst-unknown"
		default:
			end := it.Off + it.Hdr
			if it.Kind == 's' || it.Kind == 'b' || it.Kind == 'e' {
				end += it.N
			}
			return splice(b, it.Off, end, synthRefinementExt(t)), "subst-refinement"
		}
	case 5: // edit inside an existing refinement map: change a key or a bound byte
		var inExt []int
		for i, it := range items {
			if it.InExt {
				inExt = append(inExt, i)
			}
		}
		if len(inExt) == 0 {
			it := items[rapid.IntRange(0, len(items)-1).Draw(t, "item")]
			return splice(b, it.Off, it.Off, synthRefinementExt(t)), "insert-refinement"
		}
		it := items[rapid.SampledFrom(inExt).Draw(t, "item")]
		out := append([]byte(nil), b...)
		if it.Kind == 'x' && it.Hdr == 1 && b[it.Off] <= 8 {
			out[it.Off] = byte(rapid.IntRange(0, 8).Draw(t, "newkey"))
			return out, "refinement-key"
		}
		at := it.Off + it.Hdr - 1
		if at >= len(out) {
			at = len(out) - 1
		}
		out[at] ^= byte(rapid.IntRange(1, 255).Draw(t, "xor"))
		return out, "refinement-byte"
	case 6: // edit the JSON type descriptor of a dynamic wrapper (a bin item) and fix up its length
		var bins []int
		for i, it := range items {
			if it.Kind == 'b' && it.Off+it.Hdr+it.N <= len(b) {
				bins = append(bins, i)
			}
		}
		if len(bins) == 0 {
			return genericOp(t, b, other)
		}
		it := items[rapid.SampledFrom(bins).Draw(t, "bin")]
		payload := b[it.Off+it.Hdr : it.Off+it.Hdr+it.N]
		np, l := jsonOp(t, payload, []byte(`["object",{"a":"string"},["a"]]`), true)
		repl := append(mpMakeHeader('b', uint32(len(np)), false, 0), np...)
		if rapid.IntRange(0, 5).Draw(t, "asstr") == 0 {
			repl = append(mpMakeHeader('s', uint32(len(np)), false, 0), np...)
		}
		return splice(b, it.Off, it.Off+it.Hdr+it.N, repl), "wrapper-type/" + l
	case 7: // wrap an item in a dynamic wrapper or an array
		it := items[rapid.IntRange(0, len(items)-1).Draw(t, "item")]
		ty := rapid.SampledFrom([]string{`"dynamic"`, `"string"`, `["list","dynamic"]`, `["tuple",["string"]]`, `["object",{"a":"string"}]`, `["object",{"a":"string"},["a"]]`, `["set","dynamic"]`, `["map","dynamic"]`, `"bogus"`, ``}).Draw(t, "wtype")
		ins := append([]byte{0x92}, mpMakeHeader('b', uint32(len(ty)), false, 0)...)
		ins = append(ins, ty...)
		if rapid.IntRange(0, 3).Draw(t, "arr") == 0 {
			ins = []byte{0x91}
		}
		return splice(b, it.Off, it.Off, ins), "wrap"
	case 8: // splice a whole item sequence from the other encoding
		oit := scanMsgpack(other)
		if len(oit) == 0 {
			return genericOp(t, b, other)
		}
		src := oit[rapid.IntRange(0, len(oit)-1).Draw(t, "src")]
		dst := items[rapid.IntRange(0, len(items)-1).Draw(t, "dst")]
		hi := src.Off + src.Hdr + rapid.IntRange(0, 24).Draw(t, "extra")
		if hi > len(other) {
			hi = len(other)
		}
		end := dst.Off
		if rapid.Bool().Draw(t, "replace") {
			end = dst.Off + dst.Hdr
		}
		return splice(b, dst.Off, end, other[src.Off:hi]), "splice-item"
	default: // duplicate or drop a map key / member
		it := items[rapid.IntRange(0, len(items)-1).Draw(t, "item")]
		end := it.Off + it.Hdr
		if it.Kind == 's' || it.Kind == 'b' || it.Kind == 'e' {
			end += it.N
		}
		if end > len(b) {
			end = len(b)
		}
		if rapid.Bool().Draw(t, "dup") {
			at := items[rapid.IntRange(0, len(items)-1).Draw(t, "at")].Off
			if rapid.Bool().Draw(t, "over") {
				at2 := items[rapid.IntRange(0, len(items)-1).Draw(t, "at2")]
				e2 := at2.Off + at2.Hdr
				if at2.Kind == 's' || at2.Kind == 'b' || at2.Kind == 'e' {
					e2 += at2.N
				}
				return splice(b, at2.Off, e2, b[it.Off:end]), "item-overwrite"
			}
			return splice(b, at, at, b[it.Off:end]), "item-dup"
		}
		return splice(b, it.Off, end, nil), "item-drop"
	}
}

// jsonOp applies one JSON-token-aware mutation. typeDoc biases towards
// type-descriptor edits.
func jsonOp(t *rapid.T, b, other []byte, typeDoc bool) ([]byte, string) {
	toks := scanJSON(b)
	if len(toks) == 0 {
		return genericOp(t, b, other)
	}
	pick := func(label string) int { return rapid.IntRange(0, len(toks)-1).Draw(t, label) }
	vs := valueStarts(toks)
	op := rapid.IntRange(0, 14).Draw(t, "jop")
	if typeDoc && (op == 4 || op == 5 || op == 6 || op == 9 || op == 12) {
		op = 10 + op%2
		if op == 10 && rapid.Bool().Draw(t, "respell") {
			op = 14
		}
	}
	switch op {
	case 14: // re-spell a string (attribute name, key, value) in a canonically equivalent, non-normalized form - in one or in all of its occurrences
		var ss []int
		for i, k := range toks {
			if k.Kind == 's' && k.End-k.Off >= 2 {
				ss = append(ss, i)
			}
		}
		if len(ss) == 0 {
			return genericOp(t, b, other)
		}
		k := toks[rapid.SampledFrom(ss).Draw(t, "str")]
		raw := string(b[k.Off:k.End])
		inner := raw[1 : len(raw)-1]
		var repl string
		if d := norm.NFD.String(inner); d != inner && rapid.Bool().Draw(t, "nfd") {
			repl = d
		} else {
			// a new name that is not NFC as written: a letter and a combining mark, literally or escaped
			repl = rapid.SampledFrom([]string{"e\u0301", "\\u0065\\u0301", "\u1100\u1161", "a\u0323\u0307", "\u212b"}).Draw(t, "suffix")
			if rapid.Bool().Draw(t, "keep") {
				repl = inner + repl
			}
		}
		repl = `"` + repl + `"`
		switch rapid.IntRange(0, 4).Draw(t, "all") {
		case 0:
			return splice(b, k.Off, k.End, []byte(repl)), "respell-one"
		case 1:
			// over ANOTHER string token: both spellings of one name are present
			if q := toks[rapid.SampledFrom(ss).Draw(t, "dst")]; q.Off != k.Off {
				return splice(b, q.Off, q.End, []byte(repl)), "respell-over"
			}
		}
		// every occurrence of the same token text (an attribute and its entry in the optional list)
		out := append([]byte(nil), b[:0]...)
		last := 0
		for _, q := range toks {
			if q.Kind == 's' && string(b[q.Off:q.End]) == raw {
				out = append(out, b[last:q.Off]...)
				out = append(out, repl...)
				last = q.End
			}
		}
		out = append(out, b[last:]...)
		return out, "respell-all"
	case 0: // delimiter swap
		var ds []int
		for i, k := range toks {
			if k.Kind != 's' && k.Kind != 'n' && k.Kind != 'l' {
				ds = append(ds, i)
			}
		}
		if len(ds) == 0 {
			return genericOp(t, b, other)
		}
		k := toks[rapid.SampledFrom(ds).Draw(t, "delim")]
		d := rapid.SampledFrom([]string{"[", "]", "{", "}", ":", ",", "", "[[", "]]", "}}"}).Draw(t, "newdelim")
		return splice(b, k.Off, k.End, []byte(d)), "delim-swap"
	case 1: // delete a token
		k := toks[pick("tok")]
		return splice(b, k.Off, k.End, nil), "tok-delete"
	case 2: // duplicate a token
		k := toks[pick("tok")]
		return splice(b, k.Off, k.Off, b[k.Off:k.End]), "tok-dup"
	case 3: // duplicate a "key": value pair (possibly with another value)
		var keys []int
		for i, k := range toks {
			if k.Kind == 's' && i+1 < len(toks) && toks[i+1].Kind == ':' {
				keys = append(keys, i)
			}
		}
		if len(keys) == 0 {
			return genericOp(t, b, other)
		}
		ki := rapid.SampledFrom(keys).Draw(t, "key")
		ve := valueEnd(toks, ki+2)
		if ve > len(toks) || ve == 0 {
			return genericOp(t, b, other)
		}
		endOff := toks[ve-1].End
		pair := append([]byte(nil), b[toks[ki].Off:endOff]...)
		if rapid.Bool().Draw(t, "othervalue") {
			pair = append(append([]byte(nil), b[toks[ki].Off:toks[ki+1].End]...), rapid.SampledFrom(jsonScalars).Draw(t, "val")...)
		}
		pair = append(pair, ',')
		return splice(b, toks[ki].Off, toks[ki].Off, pair), "key-dup"
	case 4, 5: // replace a whole value by another literal
		if len(vs) == 0 {
			return genericOp(t, b, other)
		}
		i := rapid.SampledFrom(vs).Draw(t, "value")
		ve := valueEnd(toks, i)
		repl := rapid.SampledFrom(jsonScalars).Draw(t, "repl")
		return splice(b, toks[i].Off, toks[ve-1].End, []byte(repl)), "value-replace"
	case 6: // hostile number
		if len(vs) == 0 {
			return genericOp(t, b, other)
		}
		i := rapid.SampledFrom(vs).Draw(t, "value")
		ve := valueEnd(toks, i)
		return splice(b, toks[i].Off, toks[ve-1].End, []byte(rapid.SampledFrom(hostileNumbers).Draw(t, "num"))), "number-edit"
	case 7: // hostile string (value or key)
		var ss []int
		for i, k := range toks {
			if k.Kind == 's' {
				ss = append(ss, i)
			}
		}
		if len(ss) == 0 {
			return genericOp(t, b, other)
		}
		k := toks[rapid.SampledFrom(ss).Draw(t, "str")]
		return splice(b, k.Off, k.End, []byte(rapid.SampledFrom(hostileStrings).Draw(t, "hstr"))), "string-edit"
	case 8: // splice a value from the other encoding over a value here
		ot := scanJSON(other)
		ovs := valueStarts(ot)
		if len(ovs) == 0 || len(vs) == 0 {
			return genericOp(t, b, other)
		}
		oi := rapid.SampledFrom(ovs).Draw(t, "src")
		oe := valueEnd(ot, oi)
		i := rapid.SampledFrom(vs).Draw(t, "dst")
		ve := valueEnd(toks, i)
		return splice(b, toks[i].Off, toks[ve-1].End, other[ot[oi].Off:ot[oe-1].End]), "splice-value"
	case 9: // wrap a value
		if len(vs) == 0 {
			return genericOp(t, b, other)
		}
		i := rapid.SampledFrom(vs).Draw(t, "value")
		ve := valueEnd(toks, i)
		val := b[toks[i].Off:toks[ve-1].End]
		w := rapid.SampledFrom([][2]string{{"[", "]"}, {`{"a":`, "}"}, {`{"type":"dynamic","value":`, "}"}, {`{"value":`, `,"type":"dynamic"}`}, {`{"type":"string","value":`, "}"},
			{`{"type":["list","dynamic"],"value":[`, "]}"}, {"[", ",null]"}, {`{"type":["tuple",["dynamic","string"]],"value":[`, "]}"}, {`{"type":["object",{"a":"dynamic"},["a"]],"value":{"a":`, "}}"}}).Draw(t, "wrapper")
		repl := append(append([]byte(w[0]), val...), w[1]...)
		return splice(b, toks[i].Off, toks[ve-1].End, repl), "wrap"
	case 10: // type keyword edit
		var kws []int
		for i, k := range toks {
			if k.Kind == 's' {
				s := string(b[k.Off:k.End])
				for _, kw := range typeKeywords {
					if s == kw {
						kws = append(kws, i)
					}
				}
			}
		}
		if len(kws) == 0 {
			return genericOp(t, b, other)
		}
		i := rapid.SampledFrom(kws).Draw(t, "kw")
		return splice(b, toks[i].Off, toks[i].End, []byte(rapid.SampledFrom(typeKeywordRepl).Draw(t, "repl"))), "type-keyword"
	case 11: // optional-attribute list inserted after an attribute map, or edited
		var closers []int
		for i, k := range toks {
			if k.Kind == '}' && i+1 < len(toks) && toks[i+1].Kind == ']' {
				closers = append(closers, i)
			}
		}
		if len(closers) == 0 {
			return genericOp(t, b, other)
		}
		i := rapid.SampledFrom(closers).Draw(t, "closer")
		return splice(b, toks[i].End, toks[i].End, []byte(rapid.SampledFrom(optionalLists).Draw(t, "opt"))), "optional-insert"
	case 12: // rename / retarget the keys of a dynamic wrapper
		var ks []int
		for i, k := range toks {
			if k.Kind == 's' && i+1 < len(toks) && toks[i+1].Kind == ':' {
				s := string(b[k.Off:k.End])
				if s == `"type"` || s == `"value"` {
					ks = append(ks, i)
				}
			}
		}
		if len(ks) == 0 {
			return genericOp(t, b, other)
		}
		i := rapid.SampledFrom(ks).Draw(t, "wkey")
		return splice(b, toks[i].Off, toks[i].End, []byte(rapid.SampledFrom([]string{`"type"`, `"value"`, `"typ"`, `"Type"`, `""`, `"value "`, `"type"`}).Draw(t, "newkey"))), "wrapper-key"
	default: // drop a whole value together with a neighbouring comma
		if len(vs) == 0 {
			return genericOp(t, b, other)
		}
		i := rapid.SampledFrom(vs).Draw(t, "value")
		ve := valueEnd(toks, i)
		lo, hi := toks[i].Off, toks[ve-1].End
		if ve < len(toks) && toks[ve].Kind == ',' {
			hi = toks[ve].End
		}
		return splice(b, lo, hi, nil), "value-drop"
	}
}

// mutate applies 1..4 mutations of the family given by format ("json",
// "jsontype", "msgpack") and returns the result with the list of operators used.
func mutate(t *rapid.T, format string, b, other []byte) ([]byte, []string) {
	n := rapid.SampledFrom([]int{1, 1, 1, 2, 2, 3, 4}).Draw(t, "nmut")
	var ops []string
	for i := 0; i < n; i++ {
		var l string
		if rapid.IntRange(0, 9).Draw(t, "generic") < 3 {
			b, l = genericOp(t, b, other)
		} else {
			switch format {
			case "json":
				b, l = jsonOp(t, b, other, false)
			case "jsontype":
				b, l = jsonOp(t, b, other, true)
			default:
				b, l = msgpackOp(t, b, other)
			}
		}
		ops = append(ops, l)
		if len(b) > maxInputLen {
			b = b[:maxInputLen]
		}
	}
	return b, ops
}

// maxInputLen is the input size bound of the property's memory clause (64 KiB).
const maxInputLen = 64 << 10

var _ = fmt.Sprint
var _ = strconv.Itoa
