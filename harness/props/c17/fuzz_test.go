package c17

import (
	"bufio"
	"encoding/base64"
	"encoding/json"
	"fmt"
	"os"
	"path/filepath"
	"pgregory.net/rapid"
	"regexp"
	"sort"
	"strconv"
	"strings"
	"testing"

	"verif/harness/facet"
	"verif/harness/gen"
	"verif/harness/spec"
)

// Native coverage-guided fuzz targets (thorough tier, run by extra.py). They
// take the input bytes and one byte that selects the target type from a fixed
// table, run the decoder in-process with panic capture and apply the same
// oracle as the facets. Inputs that match an OPEN known finding are skipped
// (before execution when executing them would kill or stall the process), so
// that the campaigns continue past the shallow known crashes.

// fuzzTypes is the byte-selected target type table.
var fuzzTypes = func() []spec.T {
	o := func(as ...spec.Attr) spec.T { return spec.Object(as...) }
	a := func(n string, t spec.T) spec.Attr { return spec.Attr{Name: n, T: t} }
	S, N, B, D := spec.String, spec.Number, spec.Bool, spec.Dynamic
	return []spec.T{
		D, S, N, B,
		spec.List(S), spec.List(N), spec.List(B), spec.List(D),
		spec.Set(S), spec.Set(N), spec.Set(D), spec.Map(S), spec.Map(N), spec.Map(B), spec.Map(D),
		spec.Tuple(), spec.Tuple(S), spec.Tuple(S, N), spec.Tuple(D), spec.Tuple(D, B), spec.Tuple(N, S, B),
		o(), o(a("a", S)), o(a("a", S), a("b", N)), o(a("a", D)), o(a("id", N), a("name", S)), o(a("é", B)),
		spec.List(spec.List(S)), spec.List(spec.Map(N)), spec.List(o(a("a", S))), spec.List(spec.Tuple(S, N)), spec.List(spec.Set(D)),
		spec.Set(spec.List(N)), spec.Set(spec.Tuple(S)), spec.Set(o(a("a", N))), spec.Set(spec.Set(S)),
		spec.Map(spec.List(S)), spec.Map(spec.Map(D)), spec.Map(o(a("a", D), a("b", B))), spec.Map(spec.Tuple(D)),
		spec.Tuple(spec.List(D), spec.Map(S)), spec.Tuple(o(a("a", S)), spec.Set(N)), spec.Tuple(spec.Tuple(spec.Tuple(D))),
		o(a("a", spec.List(S)), a("b", spec.Map(N)), a("c", spec.Set(B))), o(a("a", o(a("a", o(a("a", D)))))), o(a("x", spec.Tuple(S, D)), a("name", spec.List(D))),
		spec.List(spec.List(spec.List(D))), spec.Map(spec.Map(spec.Map(S))), spec.Set(spec.Set(spec.Set(N))),
		spec.CapsuleT("A"), spec.List(spec.CapsuleT("B")), o(a("a", spec.CapsuleT("A")), a("b", S)),
	}
}()

func fuzzType(sel byte) spec.T { return fuzzTypes[int(sel)%len(fuzzTypes)] }

// seed is one corpus entry.
type seed struct {
	Sel  int    `json:"sel"`
	B64  string `json:"b64"`
	Note string `json:"note,omitempty"`
}

func corpusDir() string {
	root := os.Getenv("VERIF_ROOT")
	if root == "" {
		root = "/verif"
	}
	return filepath.Join(root, "corpus")
}

func loadSeeds(dec string) []seed {
	b, err := os.ReadFile(filepath.Join(corpusDir(), dec+".json"))
	if err != nil {
		return nil
	}
	var out []seed
	if err := json.Unmarshal(b, &out); err != nil {
		panic("corpus file for " + dec + " does not parse: " + err.Error())
	}
	return out
}

// openKnown returns the predicates of the OPEN known findings of C17, by id.
func openKnown() map[string]facet.KnownPredicate {
	root := os.Getenv("VERIF_ROOT")
	if root == "" {
		root = "/verif"
	}
	out := map[string]facet.KnownPredicate{}
	b, err := os.ReadFile(filepath.Join(root, "known_findings.json"))
	if err != nil {
		return out
	}
	var doc struct {
		Findings []struct {
			ID, Property, Status, Predicate string
		} `json:"findings"`
	}
	if json.Unmarshal(b, &doc) != nil {
		return out
	}
	for _, e := range doc.Findings {
		if e.Property == "C17" && e.Status == "open" {
			if p := knownPredicates[e.Predicate]; p != nil {
				out[e.ID] = p
			}
		}
	}
	return out
}

// tooDangerous reports whether executing the input in-process would kill or
// stall the fuzz worker because of an open known finding.
func tooDangerous(open map[string]facet.KnownPredicate, dec string, ty spec.T, data []byte) bool {
	if _, ok := open["C17-msgpack-header-prealloc"]; ok && (dec == DMsgpackValue || dec == DMsgpackImplied) {
		if sum, found := oversizeHeaders(data); found && sum > 1<<20 {
			return true
		}
	}
	if _, ok := open["C17-nested-set-exponential"]; ok && IsValueDecoder(dec) {
		if setNesting(ty)+strings.Count(string(data), `"set"`) >= 12 {
			return true
		}
	}
	if _, ok := open["C17-json-nesting-quadratic"]; ok && (dec == DJSONValue || dec == DJSONType || dec == DJSONTypeDirect) {
		if len(data) > 16<<10 && jsonDepth(data) >= 2000 {
			return true // not fatal, but seconds per execution
		}
	}
	return false
}

func fuzzTarget(f *testing.F, decs []string) {
	for _, d := range decs[:1] {
		for _, s := range loadSeeds(d) {
			b, err := base64.StdEncoding.DecodeString(s.B64)
			if err != nil {
				f.Fatalf("bad corpus entry: %v", err)
			}
			f.Add(b, byte(s.Sel))
		}
	}
	f.Add([]byte{}, byte(0)) // the empty-corpus start
	open := openKnown()
	f.Fuzz(func(t *testing.T, data []byte, sel byte) {
		if len(data) > maxInputLen {
			return
		}
		ty := spec.Dynamic
		dec := decs[0]
		if IsValueDecoder(dec) {
			ty = fuzzType(sel)
		} else if len(decs) > 1 {
			dec = decs[int(sel)%len(decs)]
		}
		if tooDangerous(open, dec, ty, data) {
			return
		}
		in := Input{Decoder: dec, Type: ty, Parts: onePart(data), Changed: true}
		r := RunDecoder(Req{Dec: dec, Type: ty, Data: data})
		fl := Evaluate(in, data, r)
		if fl == nil {
			return
		}
		raw, _ := json.Marshal(in)
		for _, p := range open {
			if p("fuzz", raw, fl) {
				return
			}
		}
		t.Fatalf("C17 violation: %s", fl.Error())
	})
}

func FuzzJSONUnmarshal(f *testing.F)      { fuzzTarget(f, []string{DJSONValue}) }
func FuzzJSONType(f *testing.F)           { fuzzTarget(f, []string{DJSONType, DJSONTypeDirect}) }
func FuzzJSONImpliedType(f *testing.F)    { fuzzTarget(f, []string{DJSONImplied}) }
func FuzzMsgpackUnmarshal(f *testing.F)   { fuzzTarget(f, []string{DMsgpackValue}) }
func FuzzMsgpackImpliedType(f *testing.F) { fuzzTarget(f, []string{DMsgpackImplied}) }

var fuzzDecoders = map[string][]string{
	"FuzzJSONUnmarshal":      {DJSONValue},
	"FuzzJSONType":           {DJSONType, DJSONTypeDirect},
	"FuzzJSONImpliedType":    {DJSONImplied},
	"FuzzMsgpackUnmarshal":   {DMsgpackValue},
	"FuzzMsgpackImpliedType": {DMsgpackImplied},
}

// convertCrasher turns a crasher file written by the native fuzzer
// (testdata/fuzz/<Target>/<hash>) into a facet replay file, so that it can be
// replayed by `./check C17 --replay` and kept under /verif/replay/C17/.
func convertCrasher(target, path string) ([]byte, error) {
	fh, err := os.Open(path)
	if err != nil {
		return nil, err
	}
	defer fh.Close()
	sc := bufio.NewScanner(fh)
	sc.Buffer(make([]byte, 1<<20), 8<<20)
	var data []byte
	var sel byte
	haveData := false
	for sc.Scan() {
		l := strings.TrimSpace(sc.Text())
		switch {
		case strings.HasPrefix(l, "[]byte(") && strings.HasSuffix(l, ")"):
			s, err := strconv.Unquote(l[len("[]byte(") : len(l)-1])
			if err != nil {
				return nil, fmt.Errorf("cannot unquote data: %v", err)
			}
			data, haveData = []byte(s), true
		case strings.HasPrefix(l, "byte(") && strings.HasSuffix(l, ")"):
			q := l[len("byte(") : len(l)-1]
			if r, _, _, err := strconv.UnquoteChar(strings.Trim(q, "'"), '\''); err == nil && strings.HasPrefix(q, "'") {
				sel = byte(r)
			} else if n, err := strconv.ParseUint(q, 0, 8); err == nil {
				sel = byte(n)
			} else {
				return nil, fmt.Errorf("cannot parse selector %q", q)
			}
		}
	}
	if !haveData {
		return nil, fmt.Errorf("no []byte line in %s", path)
	}
	decs := fuzzDecoders[target]
	if decs == nil {
		return nil, fmt.Errorf("unknown fuzz target %q", target)
	}
	dec, ty := decs[0], spec.Dynamic
	if IsValueDecoder(dec) {
		ty = fuzzType(sel)
	} else if len(decs) > 1 {
		dec = decs[int(sel)%len(decs)]
	}
	in := Input{Decoder: dec, Type: ty, Parts: onePart(data), Changed: true, Text: printable(data), Ops: []string{"native-fuzz:" + target}}
	rawIn, _ := json.Marshal(in)
	rec := facet.FailRecord{Property: "C17", Facet: "raw/" + strings.TrimSuffix(dec, "-direct"), Input: rawIn}
	return json.MarshalIndent(rec, "", " ")
}

// ------------------------------------------------------------------ corpus maker (run by hand)

var goStringRe = regexp.MustCompile("`[^`]*`|\"(?:[^\"\\\\\n]|\\\\.)*\"")

// TestMakeCorpus writes /verif/corpus/<decoder>.json:
// VERIF_C17_MAKECORPUS=1 go test -tags verif -run TestMakeCorpus ./props/c17
func TestMakeCorpus(t *testing.T) {
	if os.Getenv("VERIF_C17_MAKECORPUS") == "" {
		t.Skip("corpus generation is run by hand")
	}
	out := map[string][]seed{}
	seen := map[string]bool{}
	add := func(dec string, sel int, b []byte, note string) {
		if len(b) > maxInputLen {
			return
		}
		k := dec + "|" + strconv.Itoa(sel) + "|" + string(b)
		if seen[k] {
			return
		}
		seen[k] = true
		out[dec] = append(out[dec], seed{Sel: sel, B64: base64.StdEncoding.EncodeToString(b), Note: note})
	}
	decodesWith := func(dec string, sel int, b []byte) bool {
		r := RunDecoder(Req{Dec: dec, Type: fuzzType(byte(sel)), Data: b})
		return r.Outcome == "value"
	}
	// (a) JSON documents that occur as string literals in the repository's own tests
	var docs [][]byte
	for _, pat := range []string{"/repo/cty/json/*_test.go", "/repo/cty/json_test.go", "/repo/cty/function/stdlib/json_test.go", "/repo/cty/type_test.go"} {
		files, _ := filepath.Glob(pat)
		sort.Strings(files)
		for _, fn := range files {
			src, err := os.ReadFile(fn)
			if err != nil {
				continue
			}
			for _, m := range goStringRe.FindAll(src, -1) {
				var s string
				if m[0] == '`' {
					s = string(m[1 : len(m)-1])
				} else if u, err := strconv.Unquote(string(m)); err == nil {
					s = u
				} else {
					continue
				}
				if len(s) >= 1 && len(s) < 2000 && json.Valid([]byte(s)) {
					docs = append(docs, []byte(s))
				}
			}
		}
	}
	for _, d := range docs {
		add(DJSONImplied, 0, d, "repo-test-literal")
		add(DJSONType, 0, d, "repo-test-literal")
		add(DJSONValue, 0, d, "repo-test-literal")
		n := 0
		for sel := range fuzzTypes {
			if n < 3 && decodesWith(DJSONValue, sel, d) {
				add(DJSONValue, sel, d, "repo-test-literal")
				n++
			}
		}
	}
	// (b) valid encodings of generated values of every table type
	for sel, ty := range fuzzTypes {
		for i := 0; i < 8; i++ {
			v := gen.Value(ty, gen.ValOpts{Null: true, Unknown: true, MaxElems: 3}).Example(1000*sel + i)
			if b, ok := encode("msgpack", v, ty); ok {
				add(DMsgpackValue, sel, b, "generated")
				add(DMsgpackImplied, 0, b, "generated")
			}
			v = gen.Value(ty, gen.ValOpts{Null: true, NoInf: true, MaxElems: 3}).Example(1000*sel + i)
			if b, ok := encode("json", v, ty); ok {
				add(DJSONValue, sel, b, "generated")
				add(DJSONImplied, 0, b, "generated")
			}
		}
		if b, ok := encodeType(ty); ok {
			add(DJSONType, 0, b, "table-type")
			add(DJSONType, 1, b, "table-type")
		}
	}
	for i := 0; i < 150; i++ {
		ty := gen.Type(gen.TypeOpts{Depth: 3, Dynamic: true, Optional: true}).Example(i)
		if b, ok := encodeType(ty); ok {
			add(DJSONType, i%2, b, "generated")
		}
	}
	// (c) hostile constants: the memory/depth recipes at a few sizes
	selOf := func(ty spec.T) int {
		for i, x := range fuzzTypes {
			if x.Equal(ty) {
				return i
			}
		}
		return 0
	}
	for dec, rs := range memRecipes {
		for _, r := range rs {
			for _, n := range []int{1, 3, 17, 300, 5000} {
				b := []byte(r.pre + strings.Repeat(r.open, n) + r.leaf + strings.Repeat(r.close, n) + r.end)
				add(dec, selOf(r.ty(n)), b, "hostile:"+r.name)
			}
		}
	}
	// (d) hand-written documents of the refine/ and wrapper/ facets whose target type is in the table
	inTable := func(ty spec.T) (int, bool) {
		for i, x := range fuzzTypes {
			if x.Equal(ty) {
				return i, true
			}
		}
		return 0, false
	}
	for i := 0; i < 400; i++ {
		in := rapid.Custom(genRefine).Example(i)
		if sel, ok := inTable(in.Type); ok {
			if b, err := in.Bytes(); err == nil {
				add(DMsgpackValue, sel, b, "hand-written:refinement")
			}
		}
		for _, f := range []struct{ format, dec string }{{"json", DJSONValue}, {"msgpack", DMsgpackValue}} {
			w := rapid.Custom(genWrapper(f.format, f.dec)).Example(i)
			if sel, ok := inTable(w.Type); ok {
				if b, err := w.Bytes(); err == nil {
					add(f.dec, sel, b, "hand-written:wrapper")
				}
			}
		}
	}
	for dec, ss := range out {
		b, _ := json.MarshalIndent(ss, "", " ")
		if err := os.MkdirAll(corpusDir(), 0o755); err != nil {
			t.Fatal(err)
		}
		if err := os.WriteFile(filepath.Join(corpusDir(), dec+".json"), b, 0o644); err != nil {
			t.Fatal(err)
		}
		fmt.Printf("CORPUS %s: %d seeds\n", dec, len(ss))
	}
}
