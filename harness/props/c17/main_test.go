package c17

import (
	"fmt"
	"os"
	"strings"
	"syscall"
	"testing"

	"verif/harness/facet"
)

// TestMain turns the test binary into the decoder worker when it is re-executed
// with VERIF_C17_WORKER=1 (see worker.go); otherwise it runs the tests.
func TestMain(m *testing.M) {
	if os.Getenv(workerEnv) == "1" {
		WorkerMain()
		return
	}
	if p := os.Getenv("VERIF_C17_CONVERT"); p != "" {
		// VERIF_C17_CONVERT=<crasher file> VERIF_C17_TARGET=<FuzzName>: print the facet replay JSON
		b, err := convertCrasher(os.Getenv("VERIF_C17_TARGET"), p)
		if err != nil {
			fmt.Fprintln(os.Stderr, "convert:", err)
			os.Exit(1)
		}
		os.Stdout.Write(b)
		os.Exit(0)
	}
	for _, a := range os.Args[1:] {
		if strings.HasPrefix(a, "-test.fuzzworker") {
			// native fuzz worker processes run the decoders in-process: keep a
			// runaway allocation from taking the machine down
			lim := syscall.Rlimit{Cur: workerASLimit, Max: workerASLimit}
			_ = syscall.Setrlimit(syscall.RLIMIT_AS, &lim)
		}
	}
	code := m.Run()
	ShutdownWorker()
	os.Exit(code)
}

func TestFacet(t *testing.T) { facet.Main(t) }
