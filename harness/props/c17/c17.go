// Package c17: decoders are safe on arbitrary input — error or conforming value,
// never a panic or a crash, memory within a fixed multiple of the input size.
//
// Every decoder call of the facets runs in a disposable worker process
// (worker.go). The native fuzz targets (fuzz_test.go) run the same oracle
// in-process.
package c17

import (
	"encoding/base64"
	"fmt"
	"os"
	"strings"
	"time"

	"verif/harness/facet"
	"verif/harness/spec"
)

// Part is a run of bytes repeated Rep times (Rep 0 counts as 1).
type Part struct {
	B64 string `json:"b64"`
	Rep int    `json:"rep,omitempty"`
}

// Input is one decoder call: the replay format of every C17 facet.
type Input struct {
	Decoder string `json:"decoder"`
	// Type is the requested type for the value decoders (never with optional
	// attributes, DESIGN.md 3.3); ignored by the type decoders.
	Type spec.T `json:"type"`
	// Parts concatenated (each repeated Rep times) are the input bytes.
	Parts []Part `json:"parts"`
	// informational fields (labels of the evidence; they do not affect the oracle
	// except Changed, which enters the non-triviality rule)
	Ops     []string `json:"ops,omitempty"`
	Rel     string   `json:"rel,omitempty"`
	Changed bool     `json:"changed,omitempty"`
	Text    string   `json:"text,omitempty"` // the bytes as text when they are short printable ASCII (for readers of replay files)
}

// Bytes expands the parts (at most maxInputLen bytes).
func (in Input) Bytes() ([]byte, error) {
	var out []byte
	for _, p := range in.Parts {
		b, err := base64.StdEncoding.DecodeString(p.B64)
		if err != nil {
			return nil, err
		}
		n := p.Rep
		if n <= 0 {
			n = 1
		}
		for i := 0; i < n; i++ {
			out = append(out, b...)
			if len(out) > maxInputLen {
				return out[:maxInputLen], nil
			}
		}
	}
	return out, nil
}

func onePart(b []byte) []Part { return []Part{{B64: base64.StdEncoding.EncodeToString(b)}} }

func printable(b []byte) string {
	if len(b) > 200 {
		return ""
	}
	for _, c := range b {
		if c < 0x20 || c > 0x7e {
			return ""
		}
	}
	return string(b)
}

// ------------------------------------------------------------------ memory bound

// The memory oracle: the TotalAlloc delta of one decoder call must not exceed
// MemA + MemB*len(input). Calibration (TestCalibrate in calib_test.go, 200000
// generated cases, i.e. 200000 valid encodings per decoder, run through the
// worker): largest delta/len ratio on inputs of >= 16 bytes: json-value 1755,
// msgpack-value 1818, json-type 267, json-implied 169, msgpack-implied 140 B/B;
// largest delta on inputs shorter than 16 bytes: 19.8 KB (json-value). MemB =
// 16 KiB/byte is 8 x 1818 rounded up to a power of two. 8 x 19.8 KB would give
// MemA = 160 KiB; it is raised to 16 MiB so that the msgpack library's own
// capped chunking (whatever a str/bin/ext header declares, it allocates at most
// 1 MB at a time, about 1-4 MB per failing call) is not mistaken for
// header-driven allocation. The constants are frozen here.
const (
	MemA = 16 << 20
	MemB = 16 << 10
)

// MemBound is the allocation allowed for an input of n bytes.
func MemBound(n int) uint64 { return MemA + MemB*uint64(n) }

// ------------------------------------------------------------------ oracle

// Evaluate turns an observation into nil or a Failure.
func Evaluate(in Input, data []byte, r Resp) *facet.Failure {
	hexHead := fmt.Sprintf("%x", data[:min(len(data), 48)])
	base := func(f *facet.Failure) *facet.Failure {
		return f.With("decoder", in.Decoder).With("type", in.Type.String()).With("head", hexHead)
	}
	switch r.Outcome {
	case "death":
		return base(facet.Failf("worker-death", "%s on %d input bytes (%s...) with type %s killed the process: %s", in.Decoder, len(data), hexHead, in.Type, r.Death)).
			With("deathkind", r.DeathKind).With("death", r.Death)
	case "panic":
		return base(facet.Failf("panic", "%s on %d input bytes (%s...) with type %s panicked: %s [at %s]", in.Decoder, len(data), hexHead, in.Type, r.Panic, r.Site)).
			With("panic", r.Panic).With("site", r.Site)
	case "error", "value", "type":
	default:
		return base(facet.Failf("protocol", "unexpected outcome %q", r.Outcome))
	}
	if r.WF != nil {
		f := base(facet.Failf("result/"+r.WF.Kind, "%s returned an ill-formed result for %d input bytes (%s...) with type %s: %s", in.Decoder, len(data), hexHead, in.Type, r.WF.Msg))
		if r.VTypeStr != "" {
			f = f.With("vtype", r.VTypeStr)
		}
		return f
	}
	if r.Outcome == "value" {
		if r.VTypeStr == "" {
			return base(facet.Failf("protocol", "value outcome without a type"))
		}
		// the spec model's conformance verdict is computed where the value lives
		// (ModelConf); it is re-derived here whenever the type was shipped
		conf := r.ModelConf
		if r.VType != nil {
			conf = r.VType.Conforms(in.Type)
		}
		if !conf {
			f := base(facet.Failf("nonconforming", "%s returned a value of type %s for requested type %s (input %s...)", in.Decoder, r.VTypeStr, in.Type, hexHead)).With("vtype", r.VTypeStr)
			if r.VType != nil && emptyStructMismatchOnly(*r.VType, in.Type) {
				f = f.With("shape", "empty-struct-for-nonempty")
			} else if r.VType != nil && missingAttrsOnly(*r.VType, in.Type) {
				f = f.With("shape", "object-missing-attributes")
			}
			return f
		}
		if len(r.LibConf) > 0 {
			return base(facet.Failf("nonconforming-lib", "%s returned a value of type %s which TestConformance rejects for requested type %s: %s", in.Decoder, r.VTypeStr, in.Type, strings.Join(r.LibConf, "; "))).With("vtype", r.VTypeStr)
		}
	}
	if r.Outcome == "error" && r.Err == "" {
		return base(facet.Failf("empty-error", "%s returned an error with an empty message", in.Decoder))
	}
	if bound := MemBound(len(data)); r.Alloc > bound {
		f := base(facet.Failf("memory", "%s allocated %d bytes for %d input bytes (%s...) with type %s: bound %d", in.Decoder, r.Alloc, len(data), hexHead, in.Type, bound))
		f.Margin = float64(r.Alloc) / float64(bound)
		return f.With("alloc", fmt.Sprint(r.Alloc))
	}
	return nil
}

// emptyStructMismatchOnly reports whether got fails to conform to want only
// because, at one or more positions, got is the empty tuple / empty object
// type where want is a non-empty tuple / object type.
func emptyStructMismatchOnly(got, want spec.T) bool {
	found := false
	var rec func(g, w spec.T) bool // false: some other mismatch
	rec = func(g, w spec.T) bool {
		if w.K == spec.KDynamic {
			return true
		}
		if g.K != w.K {
			return false
		}
		switch g.K {
		case spec.KList, spec.KSet, spec.KMap:
			return rec(*g.E, *w.E)
		case spec.KTuple:
			if len(g.Elems) == 0 && len(w.Elems) > 0 {
				found = true
				return true
			}
			if len(g.Elems) != len(w.Elems) {
				return false
			}
			for i := range g.Elems {
				if !rec(g.Elems[i], w.Elems[i]) {
					return false
				}
			}
			return true
		case spec.KObject:
			if len(g.Attrs) == 0 && len(w.Attrs) > 0 {
				found = true
				return true
			}
			if len(g.Attrs) != len(w.Attrs) {
				return false
			}
			a, b := g.SortedAttrs(), w.SortedAttrs()
			for i := range a {
				if a[i].Name != b[i].Name || !rec(a[i].T, b[i].T) {
					return false
				}
			}
			return true
		case spec.KCapsule:
			return g.Cap == w.Cap
		}
		return true
	}
	return rec(got, want) && found
}

// missingAttrsOnly reports whether got fails to conform to want only because,
// at one or more positions, got is an object type whose attributes are a
// non-empty strict subset of the attributes of the object type want has there.
func missingAttrsOnly(got, want spec.T) bool {
	found := false
	var rec func(g, w spec.T) bool
	rec = func(g, w spec.T) bool {
		if w.K == spec.KDynamic {
			return true
		}
		if g.K != w.K {
			return false
		}
		switch g.K {
		case spec.KList, spec.KSet, spec.KMap:
			return rec(*g.E, *w.E)
		case spec.KTuple:
			if len(g.Elems) != len(w.Elems) {
				return false
			}
			for i := range g.Elems {
				if !rec(g.Elems[i], w.Elems[i]) {
					return false
				}
			}
			return true
		case spec.KObject:
			wa := map[string]spec.T{}
			for _, a := range w.SortedAttrs() {
				wa[a.Name] = a.T
			}
			ga := g.SortedAttrs()
			if len(ga) == 0 || len(ga) > len(wa) {
				return false
			}
			for _, a := range ga {
				wt, ok := wa[a.Name]
				if !ok || !rec(a.T, wt) {
					return false
				}
			}
			if len(ga) < len(wa) {
				found = true
			}
			return true
		case spec.KCapsule:
			return g.Cap == w.Cap
		}
		return true
	}
	return rec(got, want) && found
}

// firstTokenOpens reports whether the input starts with a container opener
// (so that an error later in the input is "deep": the decoder consumed more
// than its first token).
func firstTokenOpens(dec string, data []byte) bool {
	switch dec {
	case DMsgpackValue, DMsgpackImplied:
		if len(data) < 2 {
			return false
		}
		c := data[0]
		return (c >= 0x80 && c <= 0x9f) || c >= 0xdc && c <= 0xdf || c == 0xc7 || c == 0xc8 || c == 0xc9
	default:
		for i, c := range data {
			switch c {
			case ' ', '\t', '\n', '\r':
				continue
			case '[', '{':
				return len(data)-i >= 2
			}
			return false
		}
		return false
	}
}

// classify labels the case and decides non-triviality: the input is not the
// unmodified valid encoding for its target type, and the decoder went past
// its first token (success, or an error below the root).
func classify(c *facet.Ctx, in Input, data []byte, r Resp, needChanged bool) {
	cls := r.Outcome
	deep := false
	if r.Outcome == "error" {
		// value decoders report where they failed (cty.PathError); the type
		// decoders do not, so for them "past the first token" is approximated by
		// "the input starts with a container opener"
		if r.ErrPath >= 1 || (!IsValueDecoder(in.Decoder) && firstTokenOpens(in.Decoder, data)) {
			deep = true
			cls = "error-deep"
		} else {
			cls = "error-shallow"
		}
	}
	c.Label("out=" + cls)
	if in.Rel != "" {
		c.Label("rel=" + in.Rel)
	}
	for _, o := range in.Ops {
		c.Label("op=" + o)
	}
	if r.Outcome == "value" {
		if r.Null {
			c.Label("value-null")
		} else if !r.Known {
			c.Label("value-unknown")
		}
	}
	switch n := len(data); {
	case n > 4096:
		c.Label("len>4k")
	case n > 256:
		c.Label("len>256")
	}
	if (in.Changed || !needChanged) && (deep || r.Outcome == "value" || r.Outcome == "type") {
		c.NonTrivial()
	}
}

var debugSlow = os.Getenv("VERIF_C17_DEBUGSLOW") != ""
var debugSlowMin = func() time.Duration {
	d, err := time.ParseDuration(os.Getenv("VERIF_C17_DEBUGSLOW"))
	if err != nil {
		return 200 * time.Millisecond
	}
	return d
}()

// check is the Check function of every facet.
func check(needChanged bool) func(c *facet.Ctx, in Input) error {
	return func(c *facet.Ctx, in Input) error {
		data, err := in.Bytes()
		if err != nil {
			return facet.Failf("bad-input", "input bytes do not decode: %v", err)
		}
		if in.Type.K == "" {
			in.Type = spec.Dynamic
		}
		if in.Type.HasOptional() {
			c.Skip() // excluded by DESIGN.md 3.3
			return nil
		}
		t0 := time.Now()
		r := Call(Req{Dec: in.Decoder, Type: in.Type, Data: data})
		if debugSlow && time.Since(t0) > debugSlowMin {
			fmt.Fprintf(os.Stderr, "SLOW %v %s len=%d ops=%v alloc=%d outcome=%s\n", time.Since(t0), in.Decoder, len(data), in.Ops, r.Alloc, r.Outcome)
		}
		if f := Evaluate(in, data, r); f != nil {
			return f
		}
		classify(c, in, data, r, needChanged)
		return nil
	}
}
