package c17

import (
	"fmt"
	"runtime"
	"runtime/debug"
	"strings"
	"unicode/utf8"

	"github.com/zclconf/go-cty/cty"
	ctyjson "github.com/zclconf/go-cty/cty/json"
	"github.com/zclconf/go-cty/cty/msgpack"

	"verif/harness/facet"
	"verif/harness/spec"
	"verif/harness/wf"
)

// Decoder names (the "decoder" field of an Input).
const (
	DJSONValue      = "json-value"       // ctyjson.Unmarshal(data, type)
	DJSONType       = "json-type"        // ctyjson.UnmarshalType(data)
	DJSONTypeDirect = "json-type-direct" // (*cty.Type).UnmarshalJSON(data) without encoding/json's validity pre-scan
	DJSONImplied    = "json-implied"     // ctyjson.ImpliedType(data)
	DMsgpackValue   = "msgpack-value"    // msgpack.Unmarshal(data, type)
	DMsgpackImplied = "msgpack-implied"  // msgpack.ImpliedType(data)
)

// IsValueDecoder reports whether the decoder takes a target type and returns a value.
func IsValueDecoder(d string) bool { return d == DJSONValue || d == DMsgpackValue }

// Req is one decoder call.
type Req struct {
	Dec  string `json:"dec"`
	Type spec.T `json:"type"`
	Data []byte `json:"data"`
}

// Resp is what is observed about one decoder call. It is produced inside the
// process that runs the decoder (worker or fuzz process) because cty values do
// not cross process boundaries; everything in it is plain data.
type Resp struct {
	Outcome string `json:"outcome"` // "value" | "type" | "error" | "panic" | "bad-request"
	Err     string `json:"err,omitempty"`
	ErrPath int    `json:"errpath,omitempty"` // length of the cty.Path of a PathError
	Panic   string `json:"panic,omitempty"`   // recovered panic value
	Site    string `json:"site,omitempty"`    // go-cty functions on the panicking stack, innermost first, " < "-joined
	// for "value": the value's type; for "type": the decoded type
	VType     *spec.T        `json:"vtype,omitempty"`
	VTypeGo   string         `json:"vtypego,omitempty"`
	Null      bool           `json:"null,omitempty"`
	Known     bool           `json:"known,omitempty"`
	WF        *facet.Failure `json:"wf,omitempty"`        // well-formedness / usability failure
	LibConf   []string       `json:"libconf,omitempty"`   // errors from Type.TestConformance(requested)
	ModelConf bool           `json:"modelconf,omitempty"` // the spec model's verdict: type of the value conforms to the requested type
	VDepth    int            `json:"vdepth,omitempty"`    // nesting depth of the result type (VType is omitted beyond maxReportDepth)
	VTypeStr  string         `json:"vtypestr,omitempty"`  // the result type in spec notation, clipped
	Alloc     uint64         `json:"alloc"`               // runtime.MemStats.TotalAlloc delta around the call
	Retire    bool           `json:"retire,omitempty"`    // worker exits after this response (large allocation)
	Death     string         `json:"death,omitempty"`     // parent only: the worker died while this request was in flight
	DeathKind string         `json:"deathkind,omitempty"` // "oom" | "stack" | "other"
}

// RunDecoder executes one decoder call with panic capture and allocation
// accounting and evaluates everything that needs the live result.
func RunDecoder(req Req) (resp Resp) {
	var ty cty.Type
	if IsValueDecoder(req.Dec) {
		var bad bool
		func() {
			defer func() {
				if r := recover(); r != nil {
					bad = true
					resp = Resp{Outcome: "bad-request", Err: fmt.Sprintf("cannot build target type: %v", r)}
				}
			}()
			ty = req.Type.Cty()
		}()
		if bad {
			return resp
		}
	}
	var (
		val    cty.Value
		gotTy  cty.Type
		err    error
		m0, m1 runtime.MemStats
		done   bool
	)
	func() {
		defer func() {
			if r := recover(); r != nil {
				runtime.ReadMemStats(&m1)
				resp.Outcome = "panic"
				resp.Panic = fmt.Sprint(r)
				resp.Site = panicSite(string(debug.Stack()))
			}
		}()
		runtime.ReadMemStats(&m0)
		switch req.Dec {
		case DJSONValue:
			val, err = ctyjson.Unmarshal(req.Data, ty)
		case DMsgpackValue:
			val, err = msgpack.Unmarshal(req.Data, ty)
		case DJSONType:
			gotTy, err = ctyjson.UnmarshalType(req.Data)
		case DJSONTypeDirect:
			err = (&gotTy).UnmarshalJSON(req.Data)
		case DJSONImplied:
			gotTy, err = ctyjson.ImpliedType(req.Data)
		case DMsgpackImplied:
			gotTy, err = msgpack.ImpliedType(req.Data)
		default:
			panic("c17: unknown decoder " + req.Dec)
		}
		runtime.ReadMemStats(&m1)
		done = true
	}()
	resp.Alloc = m1.TotalAlloc - m0.TotalAlloc
	if !done {
		if strings.HasPrefix(resp.Panic, "c17: unknown decoder") {
			return Resp{Outcome: "bad-request", Err: resp.Panic}
		}
		return resp
	}
	if err != nil {
		resp.Outcome = "error"
		func() {
			defer func() {
				if r := recover(); r != nil {
					resp.WF = facet.Failf("error-unusable", "the returned error panics when used: %v", r)
				}
			}()
			resp.Err = err.Error()
			if pe, ok := err.(cty.PathError); ok {
				resp.ErrPath = len(pe.Path)
			}
		}()
		if len(resp.Err) > 300 {
			resp.Err = resp.Err[:300]
		}
		return resp
	}
	if IsValueDecoder(req.Dec) {
		resp.Outcome = "value"
		evalValue(&resp, val, ty)
	} else {
		resp.Outcome = "type"
		evalType(&resp, gotTy)
	}
	return resp
}

// evalValue records what the oracle needs about a returned value.
func evalValue(resp *Resp, val cty.Value, want cty.Type) {
	defer func() {
		if r := recover(); r != nil {
			resp.WF = facet.Failf("value-unusable", "inspecting the returned value panicked: %v", r)
		}
	}()
	if f := wf.Check(val); f != nil {
		resp.WF = f
		if val == cty.NilVal {
			return
		}
	}
	if resp.WF == nil {
		resp.WF = utf8Check(val)
	}
	got := val.Type()
	resp.VTypeGo = clip(fmt.Sprintf("%#v", got), 400)
	st := spec.FromCty(got)
	resp.setType(st)
	resp.ModelConf = st.Conforms(spec.FromCty(want))
	resp.Null = val.IsNull()
	resp.Known = val.IsWhollyKnown()
	for _, e := range got.TestConformance(want) {
		resp.LibConf = append(resp.LibConf, clip(e.Error(), 200))
		if len(resp.LibConf) >= 3 {
			break
		}
	}
}

// utf8Check is a well-formedness rule the shared validator does not have: a
// cty string "represents a sequence of unicode codepoints" and StringVal's
// documented precondition is a valid UTF-8 sequence (docs/types.md,
// cty/value_init.go), so every known string, every map key and every prefix
// of an unknown string in a decoded value must be valid UTF-8 (the MessagePack
// decoder itself rejects an ill-encoded prefix refinement).
func utf8Check(val cty.Value) (ret *facet.Failure) {
	_ = cty.Walk(val, func(p cty.Path, v cty.Value) (bool, error) {
		if ret != nil {
			return false, nil
		}
		v, _ = v.Unmark()
		ty := v.Type()
		switch {
		case v.IsNull():
		case ty == cty.String && v.IsKnown():
			if s := v.AsString(); !utf8.ValidString(s) {
				ret = facet.Failf("utf8", "known string %q at path of length %d is not valid UTF-8", s, len(p))
			}
		case ty == cty.String:
			if s := v.Range().StringPrefix(); !utf8.ValidString(s) {
				ret = facet.Failf("utf8", "prefix %q of the unknown string at path of length %d is not valid UTF-8", s, len(p))
			}
		case ty.IsMapType() && v.IsKnown():
			for it := v.ElementIterator(); it.Next(); {
				k, _ := it.Element()
				if s := k.AsString(); !utf8.ValidString(s) {
					ret = facet.Failf("utf8", "map key %q at path of length %d is not valid UTF-8", s, len(p))
				}
			}
		}
		return true, nil
	})
	return ret
}

// evalType checks that a type returned by a type decoder is usable: the
// accessors and constructors applicable to any type must not panic on it.
func evalType(resp *Resp, ty cty.Type) {
	defer func() {
		if r := recover(); r != nil {
			resp.WF = facet.Failf("type-unusable", "using the returned type panicked: %v", r)
		}
	}()
	if ty == cty.NilType {
		resp.WF = facet.Failf("type-nil", "decoder returned NilType without an error")
		return
	}
	st := spec.FromCty(ty) // walks every member type
	resp.setType(st)
	if !ty.Equals(ty) {
		resp.WF = facet.Failf("type-unusable", "returned type is not Equal to itself")
		return
	}
	_ = ty.HasDynamicTypes()
	u := cty.UnknownVal(ty)
	_ = u.Type()
	n := cty.NullVal(ty)
	_ = n.IsNull()
	if resp.VDepth > maxReportDepth {
		// the remaining accessors build strings / error lists whose cost is
		// quadratic in the nesting depth; they are exercised on ordinary depths only
		return
	}
	resp.VTypeGo = clip(ty.GoString(), 400)
	_ = ty.FriendlyName()
	_ = ty.FriendlyNameForConstraint()
	_ = ty.WithoutOptionalAttributesDeep()
	if errs := ty.TestConformance(ty); len(errs) != 0 {
		resp.WF = facet.Failf("type-unusable", "returned type does not conform to itself: %v", errs[0])
		return
	}
	if !st.Cty().Equals(ty) {
		resp.WF = facet.Failf("type-unusable", "rebuilding the returned type from its public description gives a different type: %#v", ty)
	}
}

// maxReportDepth bounds the nesting of the type spec sent back to the parent
// (encoding/json refuses documents nested deeper than 10000).
const maxReportDepth = 100

func (resp *Resp) setType(st spec.T) {
	resp.VDepth = st.Depth()
	if resp.VDepth <= maxReportDepth {
		resp.VType = &st
		resp.VTypeStr = clip(st.String(), 400)
	} else {
		resp.VTypeStr = fmt.Sprintf("<type nested %d deep>", resp.VDepth)
	}
}

func clip(s string, n int) string {
	if len(s) > n {
		return s[:n] + "..."
	}
	return s
}

// panicSite condenses a debug.Stack() dump taken inside a recover handler to
// the go-cty functions between the panic and the harness, innermost first.
func panicSite(stack string) string {
	lines := strings.Split(stack, "\n")
	var fns []string
	seenPanic := false
	for _, l := range lines {
		if l == "" || l[0] == '\t' || strings.HasPrefix(l, "goroutine ") {
			continue
		}
		name := l
		if i := strings.LastIndex(name, "("); i > 0 {
			name = name[:i]
		}
		if strings.HasPrefix(name, "panic") || strings.HasPrefix(name, "runtime.gopanic") || strings.HasPrefix(name, "runtime.panic") || strings.HasPrefix(name, "runtime.goPanic") {
			seenPanic = true
			fns = fns[:0]
			continue
		}
		if !seenPanic {
			continue
		}
		if strings.Contains(name, "verif/harness/") {
			break
		}
		name = strings.TrimPrefix(name, "github.com/zclconf/go-cty/")
		name = strings.TrimPrefix(name, "github.com/")
		fns = append(fns, name)
		if len(fns) >= 8 {
			break
		}
	}
	return strings.Join(fns, " < ")
}
