package c17

import (
	"fmt"
	"os"
	"strings"
	"testing"
	"time"

	"verif/harness/spec"
)

func TestProbe(t *testing.T) {
	if os.Getenv("VERIF_C17_PROBE") == "" {
		t.Skip()
	}
	for _, d := range []int{4, 8, 10, 12, 14, 16, 17, 18} {
		t0 := time.Now()
		r := Call(Req{Dec: DJSONValue, Type: nest(spec.KSet, d, spec.Number), Data: []byte(strings.Repeat("[", d) + "1" + strings.Repeat("]", d))})
		fmt.Printf("set depth %d: %s alloc=%d %v\n", d, r.Outcome, r.Alloc, time.Since(t0))
		t0 = time.Now()
		r = Call(Req{Dec: DMsgpackValue, Type: nest(spec.KSet, d, spec.Number), Data: []byte(strings.Repeat("\x91", d) + "\x01")})
		fmt.Printf("msgpack set depth %d: %s alloc=%d %v\n", d, r.Outcome, r.Alloc, time.Since(t0))
	}
	for _, n := range []int{1000, 4000, 8000, 8190} {
		r := Call(Req{Dec: DJSONType, Data: []byte(strings.Repeat(`["list",`, n) + `"string"` + strings.Repeat("]", n))})
		fmt.Printf("type nest %d: %s %s alloc=%d\n", n, r.Outcome, r.Err, r.Alloc)
		r = Call(Req{Dec: DJSONTypeDirect, Data: []byte(strings.Repeat(`["list",`, n) + `"string"` + strings.Repeat("]", n))})
		fmt.Printf("type-direct nest %d: %s %s alloc=%d\n", n, r.Outcome, r.Err, r.Alloc)
	}
}
