package c17

import (
	"bytes"
	"encoding/base64"

	ctyjson "github.com/zclconf/go-cty/cty/json"
	"github.com/zclconf/go-cty/cty/msgpack"
	"pgregory.net/rapid"

	"verif/harness/gen"
	"verif/harness/spec"
)

// ------------------------------------------------------------------ valid encodings of generated values

// dynamize replaces arbitrary sub-types of ty by the dynamic placeholder: the
// result is a constraint every value of type ty conforms to.
func dynamize(t *rapid.T, ty spec.T) spec.T {
	if ty.K != spec.KDynamic && rapid.IntRange(0, 5).Draw(t, "todyn") == 0 {
		return spec.Dynamic
	}
	switch ty.K {
	case spec.KList, spec.KSet, spec.KMap:
		e := dynamize(t, *ty.E)
		return spec.T{K: ty.K, E: &e}
	case spec.KTuple:
		es := make([]spec.T, len(ty.Elems))
		for i, e := range ty.Elems {
			es[i] = dynamize(t, e)
		}
		return spec.T{K: spec.KTuple, Elems: es}
	case spec.KObject:
		as := make([]spec.Attr, len(ty.Attrs))
		for i, a := range ty.Attrs {
			as[i] = spec.Attr{Name: a.Name, T: dynamize(t, a.T)}
		}
		return spec.T{K: spec.KObject, Attrs: as}
	}
	return ty
}

// drawValue draws a value spec and a constraint it conforms to.
func drawValue(t *rapid.T, unknown bool) (spec.V, spec.T) {
	depth := rapid.SampledFrom([]int{1, 2, 2, 3, 3, 0}).Draw(t, "depth")
	ty := gen.Type(gen.TypeOpts{Depth: depth, Dynamic: true}).Draw(t, "vtype")
	for i := 0; i < 2 && depth > 0 && (ty.IsPrim() || ty.K == spec.KDynamic); i++ {
		// prefer structured roots: a mutated scalar rarely takes a decoder past its first token
		ty = gen.Type(gen.TypeOpts{Depth: depth, Dynamic: true}).Draw(t, "vtype")
	}
	v := gen.Value(ty, gen.ValOpts{Null: true, Unknown: unknown, NoInf: !unknown, MaxElems: 3}).Draw(t, "value")
	return v, dynamize(t, v.T)
}

// encode produces the library's own encoding of v under constraint c
// ("json" or "msgpack"); ok is false when the encoder refuses or panics.
func encode(format string, v spec.V, c spec.T) (b []byte, ok bool) {
	defer func() {
		if r := recover(); r != nil {
			b, ok = nil, false
		}
	}()
	val, err := spec.Build(v)
	if err != nil {
		return nil, false
	}
	if format == "json" {
		b, err = ctyjson.Marshal(val, c.Cty())
	} else {
		b, err = msgpack.Marshal(val, c.Cty())
	}
	return b, err == nil
}

func encodeType(ty spec.T) (b []byte, ok bool) {
	defer func() {
		if r := recover(); r != nil {
			b, ok = nil, false
		}
	}()
	b, err := ty.Cty().MarshalJSON()
	return b, err == nil
}

// drawEncoding draws a value and returns its valid encoding with the constraint.
func drawEncoding(t *rapid.T, format string) ([]byte, spec.T) {
	v, c := drawValue(t, format == "msgpack")
	if b, ok := encode(format, v, c); ok {
		return b, c
	}
	if format == "json" {
		return []byte("null"), c
	}
	return []byte{0xc0}, c
}

// targetType draws the requested type: the original constraint, an edited
// one, or an unrelated one. Never with optional attributes.
func targetType(t *rapid.T, c spec.T, capsule bool) (spec.T, string) {
	o := gen.TypeOpts{Depth: 2, Dynamic: true, Capsule: capsule}
	switch r := rapid.IntRange(0, 9).Draw(t, "rel"); {
	case r <= 4:
		return c, "original"
	case r <= 7:
		m, _ := gen.MutateType(t, c, o)
		if rapid.Bool().Draw(t, "twice") {
			m, _ = gen.MutateType(t, m, o)
		}
		return m.StripOptional(), "edited"
	default:
		return gen.Type(o).Draw(t, "unrelated").StripOptional(), "unrelated"
	}
}

func mkInput(dec string, ty spec.T, data []byte, ops []string, rel string, changed bool) Input {
	if len(data) > maxInputLen {
		data = data[:maxInputLen]
	}
	return Input{Decoder: dec, Type: ty, Parts: onePart(data), Ops: ops, Rel: rel, Changed: changed, Text: printable(data)}
}

// genMutValue: mut/json-value and mut/msgpack-value.
// siblingKeyRespell builds the encoding of an object (alone, in a list or in a
// tuple) with two or three attributes, one of whose names has two canonically
// equivalent spellings, and writes the OTHER spelling of that name over the key
// of a sibling attribute: the document then names one attribute twice, in two
// spellings, and lacks another - with the right number of entries.
func siblingKeyRespell(t *rapid.T, format string) (data []byte, ty spec.T, ok bool) {
	pair := rapid.SampledFrom([][2]string{{"\u00e9", "e\u0301"}, {"\u00c5", "A\u030a"}, {"\uac00", "\u1100\u1161"}}).Draw(t, "spellings")
	sib := rapid.SampledFrom([]string{"b", "name", "zz"}).Draw(t, "sibling")
	attrs := []spec.Attr{{Name: pair[0], T: rapid.SampledFrom([]spec.T{spec.String, spec.Number, spec.Bool}).Draw(t, "t1")}, {Name: sib, T: rapid.SampledFrom([]spec.T{spec.String, spec.Number}).Draw(t, "t2")}}
	if rapid.Bool().Draw(t, "third") {
		attrs = append(attrs, spec.Attr{Name: "c", T: spec.Bool})
	}
	obj := spec.Object(attrs...)
	ty = obj
	switch rapid.IntRange(0, 2).Draw(t, "nest") {
	case 1:
		ty = spec.List(obj)
	case 2:
		ty = spec.Tuple(spec.String, obj)
	}
	v := gen.Value(ty, gen.ValOpts{Simple: true, RootKnown: true, MaxElems: 2}).Draw(t, "value")
	enc, encOK := encode(format, v, ty)
	if !encOK {
		return nil, ty, false
	}
	alt := pair[1]
	if format == "msgpack" && rapid.Bool().Draw(t, "dupentry") {
		// variant: a whole entry (key and value, byte for byte) written over a
		// sibling's entry - one attribute twice with the SAME value, another
		// missing, the entry count right
		items := scanMsgpack(enc)
		end := func(it mpItem) int {
			e := it.Off + it.Hdr
			if it.Kind == 's' || it.Kind == 'b' || it.Kind == 'e' {
				e += it.N
			}
			return e
		}
		src, dst := -1, -1
		for i, it := range items {
			if it.Kind != 's' || it.Off+it.Hdr+it.N > len(enc) || i+1 >= len(items) {
				continue
			}
			switch string(enc[it.Off+it.Hdr : it.Off+it.Hdr+it.N]) {
			case pair[0], spec.NFC(pair[0]):
				if src < 0 {
					src = i
				}
			case sib:
				if dst < 0 {
					dst = i
				}
			}
		}
		if src >= 0 && dst >= 0 {
			val := func(i int) bool { k := items[i+1].Kind; return k == 'x' || k == 's' }
			if val(src) && val(dst) && end(items[src+1]) <= len(enc) && end(items[dst+1]) <= len(enc) {
				entry := append([]byte(nil), enc[items[src].Off:end(items[src+1])]...)
				return splice(enc, items[dst].Off, end(items[dst+1]), entry), ty, true
			}
		}
		return nil, ty, false
	}
	if format == "msgpack" {
		items := scanMsgpack(enc)
		for _, it := range items {
			if it.Kind == 's' && it.Off+it.Hdr+it.N <= len(enc) && string(enc[it.Off+it.Hdr:it.Off+it.Hdr+it.N]) == sib {
				return splice(enc, it.Off, it.Off+it.Hdr+it.N, append(mpMakeHeader('s', uint32(len(alt)), false, 0), alt...)), ty, true
			}
		}
		return nil, ty, false
	}
	toks := scanJSON(enc)
	for i, k := range toks {
		if k.Kind == 's' && i+1 < len(toks) && toks[i+1].Kind == ':' && string(enc[k.Off:k.End]) == `"`+sib+`"` {
			return splice(enc, k.Off, k.End, []byte(`"`+alt+`"`)), ty, true
		}
	}
	return nil, ty, false
}

func genMutValue(format, dec string) func(t *rapid.T) Input {
	return func(t *rapid.T) Input {
		if rapid.IntRange(0, 15).Draw(t, "siblingkey") == 8 {
			if data, ty, ok := siblingKeyRespell(t, format); ok {
				return mkInput(dec, ty, data, []string{"sibling-key-respell"}, "original", true)
			}
		}
		orig, c := drawEncoding(t, format)
		other, _ := drawEncoding(t, format)
		ty, rel := targetType(t, c, format == "json")
		data := orig
		var ops []string
		if rel == "original" || rapid.IntRange(0, 3).Draw(t, "mutate") != 0 {
			data, ops = mutate(t, format, orig, other)
		}
		return mkInput(dec, ty, data, ops, rel, rel != "original" || !bytes.Equal(data, orig))
	}
}

// genMutImplied: mut/json-implied and mut/msgpack-implied.
func genMutImplied(format, dec string) func(t *rapid.T) Input {
	return func(t *rapid.T) Input {
		orig, _ := drawEncoding(t, format)
		other, _ := drawEncoding(t, format)
		data, ops := mutate(t, format, orig, other)
		return mkInput(dec, spec.Dynamic, data, ops, "", !bytes.Equal(data, orig))
	}
}

// genMutType: mut/json-type (both entry points of the type decoder).
func genMutType(t *rapid.T) Input {
	o := gen.TypeOpts{Depth: rapid.SampledFrom([]int{1, 2, 2, 3, 3, 0}).Draw(t, "depth"), Dynamic: true, Optional: true}
	ty := gen.Type(o).Draw(t, "type")
	for i := 0; i < 2 && o.Depth > 0 && (ty.IsPrim() || ty.K == spec.KDynamic); i++ {
		ty = gen.Type(o).Draw(t, "type") // prefer structured descriptors
	}
	orig, ok := encodeType(ty)
	if !ok {
		orig = []byte(`"string"`)
	}
	other, ok := encodeType(gen.Type(o).Draw(t, "othertype"))
	if !ok {
		other = []byte(`["list","dynamic"]`)
	}
	data, ops := mutate(t, "jsontype", orig, other)
	dec := DJSONType
	if rapid.Bool().Draw(t, "direct") {
		dec = DJSONTypeDirect
	}
	return mkInput(dec, spec.Dynamic, data, ops, "", !bytes.Equal(data, orig))
}

// ------------------------------------------------------------------ raw bytes

var jsonAtoms = []string{"[", "]", "{", "}", ",", ":", `"a"`, `"b"`, `"type"`, `"value"`, `"string"`, `"number"`, `"bool"`, `"dynamic"`, `"list"`, `"set"`, `"map"`, `"tuple"`, `"object"`,
	"null", "true", "false", "0", "1", "-1", "1.5", "1e9", `""`, " ", "\n", `"é"`, `"é"`, "\"", "\\", "x", "\xff", "[]", "{}", `"a":`, `["list",`, `["object",{`, `{"type":`, `,"value":`}

var msgpackAtoms = [][]byte{{0xc0}, {0xc2}, {0xc3}, {0x00}, {0x01}, {0x7f}, {0xff}, {0xe0}, {0x90}, {0x91}, {0x92}, {0x93}, {0x9f}, {0x80}, {0x81}, {0x82}, {0x8f}, {0xa0}, {0xa1, 'a'}, {0xa1, 'b'}, {0xa2, 'i', 'd'},
	{0xd4, 0, 0}, {0xc7, 0}, {0xc7, 3, 0x0c, 0x81, 0x01, 0xc2}, {0xc7, 1, 0x0c, 0x80}, {0xc4, 8, '"', 's', 't', 'r', 'i', 'n', 'g', '"'}, {0xc4, 9, '"', 'd', 'y', 'n', 'a', 'm', 'i', 'c', '"'}, {0xc4, 0},
	{0xcc, 200}, {0xcd, 1, 0}, {0xce, 0, 1, 0, 0}, {0xcf, 1, 0, 0, 0, 0, 0, 0, 0}, {0xd0, 0x80}, {0xd1, 0x80, 0}, {0xd2, 0x80, 0, 0, 0}, {0xd3, 0x80, 0, 0, 0, 0, 0, 0, 0}, {0xca, 0x3f, 0x80, 0, 0}, {0xcb, 0x3f, 0xf0, 0, 0, 0, 0, 0, 0},
	{0xcb, 0x7f, 0xf8, 0, 0, 0, 0, 0, 1}, {0xd9, 1, 'x'}, {0xda, 0, 1, 'x'}, {0xdb, 0, 0, 0, 1, 'x'}, {0xdc, 0, 1}, {0xdd, 0, 0, 0, 1}, {0xde, 0, 1}, {0xdf, 0, 0, 0, 1}, {0xc1}, {0xc5, 0, 0}, {0xc6, 0, 0, 0, 0}, {0xc8, 0, 0, 0}, {0xc9, 0, 0, 0, 0, 0},
	{0xdc, 0xff, 0xff}, {0xdd, 0xff, 0xff, 0xff, 0xff}, {0xdf, 0xff, 0xff, 0xff, 0xff}, {0xdb, 0xff, 0xff, 0xff, 0xff}, {0xc6, 0xff, 0xff, 0xff, 0xff}, {0xc9, 0xff, 0xff, 0xff, 0xff, 0x0c}, {0xc9, 0, 0, 4, 1, 0x0c}, {0xa3, '1', 'e', '9'}, {0xa1, 0xff}}

func genRaw(format string, decs []string) func(t *rapid.T) Input {
	return func(t *rapid.T) Input {
		var data []byte
		switch rapid.IntRange(0, 3).Draw(t, "rawkind") {
		case 0:
			data = rapid.SliceOfN(rapid.Byte(), 0, 48).Draw(t, "bytes")
		default:
			n := rapid.IntRange(0, 24).Draw(t, "natoms")
			if rapid.Bool().Draw(t, "opener") {
				// start inside a container so that the decoder gets past its first token
				if format == "msgpack" {
					data = append(data, rapid.SampledFrom([][]byte{{0x91}, {0x92}, {0x93}, {0x81}, {0x82}, {0x92, 0xc4, 8, '"', 's', 't', 'r', 'i', 'n', 'g', '"'}, {0xdc, 0, 2}, {0xde, 0, 1}}).Draw(t, "open")...)
				} else {
					data = append(data, rapid.SampledFrom([]string{"[", "{", `{"a":`, "[[", `[{"a":`, `{"type":`, `{"value":`, `["list",`, `["object",{"a":`, `["tuple",[`}).Draw(t, "open")...)
				}
			}
			for i := 0; i < n; i++ {
				if format == "msgpack" {
					data = append(data, rapid.SampledFrom(msgpackAtoms).Draw(t, "atom")...)
				} else {
					data = append(data, rapid.SampledFrom(jsonAtoms).Draw(t, "atom")...)
				}
				if rapid.IntRange(0, 15).Draw(t, "noise") == 0 {
					data = append(data, rapid.Byte().Draw(t, "rnd"))
				}
			}
		}
		ty := spec.Dynamic
		dec := rapid.SampledFrom(decs).Draw(t, "dec")
		if IsValueDecoder(dec) {
			o := gen.TypeOpts{Depth: 2, Dynamic: true, Capsule: format != "msgpack"}
			ty = gen.Type(o).Draw(t, "type")
			for i := 0; i < 3 && ty.IsPrim(); i++ {
				ty = gen.Type(o).Draw(t, "type") // prefer structured and dynamic targets
			}
		}
		return mkInput(dec, ty, data, nil, "", true)
	}
}

// ------------------------------------------------------------------ memory / depth recipes

// recipe describes inputs of the shape pre + open^n + leaf + close^n + post.
type recipe struct {
	name                        string
	pre, open, leaf, close, end string
	ty                          func(depth int) spec.T
	// maxN, when non-zero, bounds the repeat count: recipes that nest forged
	// 16/32-bit length headers make the unchanged tree allocate (and zero) about
	// 1-2 MB per level, i.e. gigabytes per case at full depth
	maxN int
}

func nest(k string, depth int, leaf spec.T) spec.T {
	if depth > 40 {
		depth = 40
	}
	if k == spec.KSet && depth > 15 {
		// building nested sets costs 2^depth (known finding C17-nested-set-exponential):
		// depth 15 is 31 MB / 0.15 s, depth 40 would never finish
		depth = 15
	}
	ty := leaf
	for i := 0; i < depth; i++ {
		e := ty
		switch k {
		case spec.KTuple:
			ty = spec.Tuple(e)
		case spec.KObject:
			ty = spec.Object(spec.Attr{Name: "a", T: e})
		default:
			ty = spec.T{K: k, E: &e}
		}
	}
	return ty
}

func constT(ty spec.T) func(int) spec.T { return func(int) spec.T { return ty } }

var dyn = constT(spec.Dynamic)

func bin(s string) string { return string(append(mpMakeHeader('b', uint32(len(s)), false, 0), s...)) }

var memRecipes = map[string][]recipe{
	DJSONValue: {
		{"list-nest", "", "[", "null", "]", "", func(d int) spec.T { return nest(spec.KList, d, spec.Dynamic) }, 0},
		{"list-nest-str", "", "[", `"x"`, "]", "", func(d int) spec.T { return nest(spec.KList, d, spec.String) }, 0},
		{"set-nest", "", "[", "1", "]", "", func(d int) spec.T { return nest(spec.KSet, d, spec.Number) }, 0},
		{"tuple-nest", "", "[", "true", "]", "", func(d int) spec.T { return nest(spec.KTuple, d, spec.Bool) }, 0},
		{"obj-nest", "", `{"a":`, "null", "}", "", func(d int) spec.T { return nest(spec.KObject, d, spec.String) }, 0},
		{"map-nest", "", `{"a":`, "1", "}", "", func(d int) spec.T { return nest(spec.KMap, d, spec.Number) }, 0},
		{"list-nest-dyn", "", "[", "", "]", "", dyn, 0},
		{"dyn-nest", "", `{"type":"dynamic","value":`, `{"type":"string","value":"x"}`, "}", "", dyn, 0},
		{"dyn-nest-valuefirst", "", `{"value":`, `null`, `,"type":"dynamic"}`, "", dyn, 0},
		{"dyn-list-nest", "", `{"type":["list","dynamic"],"value":[`, `{"type":"number","value":1}`, `]}`, "", dyn, 0},
		{"dyn-tuple-nest", "", `{"type":["tuple",["dynamic"]],"value":[`, `null`, `]}`, "", dyn, 0},
		{"dyn-type-nest", `{"value":null,"type":`, `["list",`, `"string"`, `]`, "}", dyn, 0},
		{"wide-list", "[", "1,", "1]", "", "", constT(spec.List(spec.Number)), 0},
		{"wide-set", "[", `"a",`, `"b"]`, "", "", constT(spec.Set(spec.String)), 0},
		{"wide-list-dyn", "[", `{"type":"bool","value":true},`, `{"type":"bool","value":false}]`, "", "", constT(spec.List(spec.Dynamic)), 0},
		{"wide-tuple", "[", "1,", "1]", "", "", constT(spec.Tuple(spec.Number, spec.Number)), 0},
		{"wide-map-dupkeys", "{", `"a":1,`, `"a":2}`, "", "", constT(spec.Map(spec.Number)), 0},
		{"wide-obj-dupkeys", "{", `"a":"x",`, `"a":"y"}`, "", "", constT(spec.Object(spec.Attr{Name: "a", T: spec.String})), 0},
		{"long-string", `"`, "a", `"`, "", "", constT(spec.String), 0},
		{"long-string-esc", `"`, `é`, `"`, "", "", constT(spec.String), 0},
		{"long-string-combining", `"e`, "́", `"`, "", "", constT(spec.String), 0},
		{"long-digits", "", "9", "", "", "", constT(spec.Number), 0},
		{"long-fraction", "0.", "0", "1", "", "", constT(spec.Number), 0},
		{"long-exponent", "1e", "9", "", "", "", constT(spec.Number), 0},
		{"long-exponent-neg", "1e-", "9", "", "", "", constT(spec.Number), 0},
		{"long-digits-as-string", "", "7", "", "", "", constT(spec.String), 0},
		{"whitespace", "", " ", "1", "", "", constT(spec.Number), 0},
		{"capsule-nest", "", `{"N":`, "1", "}", "", constT(spec.CapsuleT("A")), 0},
	},
	DJSONType: {
		{"list-nest", "", `["list",`, `"string"`, "]", "", dyn, 0},
		{"set-nest", "", `["set",`, `"dynamic"`, "]", "", dyn, 0},
		{"map-nest", "", `["map",`, `"bool"`, "]", "", dyn, 0},
		{"tuple-nest", "", `["tuple",[`, `"number"`, "]]", "", dyn, 0},
		{"object-nest", "", `["object",{"a":`, `"string"`, "}]", "", dyn, 0},
		{"object-nest-opt", "", `["object",{"a":`, `"string"`, `},["a"]]`, "", dyn, 0},
		{"wide-tuple", `["tuple",[`, `"string",`, `"string"]]`, "", "", dyn, 0},
		{"wide-object-dup", `["object",{`, `"a":"string",`, `"a":"number"}]`, "", "", dyn, 0},
		{"wide-optional", `["object",{"a":"string"},[`, `"a",`, `"a"]]`, "", "", dyn, 0},
		{"long-keyword", `"`, "x", `"`, "", "", dyn, 0},
		{"long-attr", `["object",{"`, "k", `":"string"}]`, "", "", dyn, 0},
		{"bare-nest", "", "[", "", "]", "", dyn, 0},
		{"bare-nest-open", "", "[", "", "", "", dyn, 0},
		{"list-nest-open", "", `["list",`, "", "", "", dyn, 0},
		{"whitespace", "", " ", `"string"`, "", "", dyn, 0},
	},
	DJSONImplied: {
		{"array-nest", "", "[", "", "]", "", dyn, 0},
		{"array-nest-open", "", "[", "", "", "", dyn, 0},
		{"object-nest", "", `{"a":`, "null", "}", "", dyn, 0},
		{"object-nest-open", "", `{"a":`, "", "", "", dyn, 0},
		{"wide-array", "[", "1,", "1]", "", "", dyn, 0},
		{"wide-array-mixed", "[", `1,"a",null,[],{},`, "true]", "", "", dyn, 0},
		{"wide-object-dup", "{", `"a":1,`, `"a":2}`, "", "", dyn, 0},
		{"wide-object-dup-mixed", "{", `"a":1,`, `"a":"x"}`, "", "", dyn, 0},
		{"long-string", `"`, "a", `"`, "", "", dyn, 0},
		{"long-key", `{"`, "k", `":1}`, "", "", dyn, 0},
		{"long-digits", "", "9", "", "", "", dyn, 0},
		{"long-exponent", "1e", "9", "", "", "", dyn, 0},
		{"whitespace", "", " ", "null", "", "", dyn, 0},
	},
	DMsgpackValue: {
		{"list-nest", "", "\x91", "\xc0", "", "", func(d int) spec.T { return nest(spec.KList, d, spec.Dynamic) }, 0},
		{"list-nest-str", "", "\x91", "\xa1x", "", "", func(d int) spec.T { return nest(spec.KList, d, spec.String) }, 0},
		{"set-nest", "", "\x91", "\x01", "", "", func(d int) spec.T { return nest(spec.KSet, d, spec.Number) }, 0},
		{"tuple-nest", "", "\x91", "\xc3", "", "", func(d int) spec.T { return nest(spec.KTuple, d, spec.Bool) }, 0},
		{"map-nest", "", "\x81\xa1a", "\x01", "", "", func(d int) spec.T { return nest(spec.KMap, d, spec.Number) }, 0},
		{"obj-nest", "", "\x81\xa1a", "\xc0", "", "", func(d int) spec.T { return nest(spec.KObject, d, spec.String) }, 0},
		{"dyn-nest", "", "\x92" + bin(`"dynamic"`), "\xc0", "", "", dyn, 0},
		{"dyn-list-nest", "", "\x92" + bin(`["list","dynamic"]`) + "\x91", "\x92" + bin(`"string"`) + "\xa1x", "", "", dyn, 0},
		{"dyn-tuple-nest", "", "\x92" + bin(`["tuple",["dynamic"]]`) + "\x91", "\xc0", "", "", dyn, 0},
		{"dyn-type-nest", "\x92\xc5\xff\xff", `["list",`, `"string"`, "]", "\xc0", dyn, 0},
		{"array32-nest", "", "\xdd\x00\x00\xff\xff", "\xc0", "", "", func(d int) spec.T { return nest(spec.KList, d, spec.Dynamic) }, 48},
		{"array32-max", "", "\xdd\xff\xff\xff\xff", "\xc0", "", "", func(d int) spec.T { return nest(spec.KSet, d, spec.String) }, 8},
		{"map32-max", "", "\xdf\xff\xff\xff\xff\xa1a", "\xc0", "", "", func(d int) spec.T { return nest(spec.KMap, d, spec.String) }, 8},
		{"array16-nest", "", "\xdc\xff\xff", "\xc0", "", "", func(d int) spec.T { return nest(spec.KList, d, spec.Bool) }, 48},
		{"wide-list", "\xdc\xff\xff", "\x01", "", "", "", constT(spec.List(spec.Number)), 0},
		{"wide-set", "\xdc\xff\xff", "\xa1a", "", "", "", constT(spec.Set(spec.String)), 0},
		{"wide-unknowns", "\xdc\xff\xff", "\xc7\x03\x0c\x81\x01\xc2", "", "", "", constT(spec.List(spec.String)), 0},
		{"wide-refined", "\xdc\xff\xff", "\xc7\x0a\x0c\x82\x03\x92\x00\xc3\x04\x92\x05\xc3", "", "", "", constT(spec.List(spec.Number)), 0},
		{"wide-map-dupkeys", "\xde\xff\xff", "\xa1a\x01", "", "", "", constT(spec.Map(spec.Number)), 0},
		{"str32-max", "\xdb\xff\xff\xff\xff", "a", "", "", "", constT(spec.String), 0},
		{"str32-in-list", "\x91", "\xdb\x7f\xff\xff\xff", "a", "", "", constT(spec.List(spec.String)), 0},
		{"bin32-max", "\x92\xc6\xff\xff\xff\xff", `"string"`, "", "", "", dyn, 0},
		{"ext32-max", "\xc9\xff\xff\xff\xff\x0c", "\x81\x01\xc2", "", "", "", constT(spec.String), 0},
		{"ext16-refmap", "\xc8\x04\x00\x0c\xdf\xff\xff\xff\xff", "\x01\xc2", "", "", "", constT(spec.String), 0},
		{"ext8-bigmap", "\xc7\x06\x0c\xdf\xff\xff\xff\xff\x01", "\xc2", "", "", "", constT(spec.Number), 0},
		{"long-string", "\xda\xff\xff", "a", "", "", "", constT(spec.String), 0},
		{"long-number-str", "\xda\xff\xff", "9", "", "", "", constT(spec.Number), 0},
		{"long-prefix", "\xc8\x03\xf0\x0c\x81\x02\xda\x03\xec", "a", "", "", "", constT(spec.String), 0},
	},
	DMsgpackImplied: {
		{"array-nest", "", "\x91", "\xc0", "", "", dyn, 0},
		{"map-nest", "", "\x81\xa1a", "\xc0", "", "", dyn, 0},
		{"array32-nest", "", "\xdd\x00\x00\xff\xff", "\xc0", "", "", dyn, 48},
		{"array32-max", "", "\xdd\xff\xff\xff\xff", "\xc0", "", "", dyn, 8},
		{"array16-nest", "", "\xdc\xff\xff", "\xc0", "", "", dyn, 48},
		{"map32-max", "", "\xdf\xff\xff\xff\xff\xa1a", "\xc0", "", "", dyn, 8},
		{"map16-nest", "", "\xde\xff\xff\xa1a", "\xc0", "", "", dyn, 48},
		{"wide-array", "\xdc\xff\xff", "\x01", "", "", "", dyn, 0},
		{"wide-map-dupkeys", "\xde\xff\xff", "\xa1a\x01", "", "", "", dyn, 0},
		{"wide-map-mixed", "\xde\xff\xff", "\xa1a\x01\xa1a\xc3", "", "", "", dyn, 0},
		{"str32-max", "\xdb\xff\xff\xff\xff", "a", "", "", "", dyn, 0},
		{"bin32-max", "\xc6\xff\xff\xff\xff", "a", "", "", "", dyn, 0},
		{"ext32-max", "\xc9\xff\xff\xff\xff\x0c", "a", "", "", "", dyn, 0},
		{"ext-in-array", "\xdc\xff\xff", "\xc7\x03\x0c\x81\x01\xc2", "", "", "", dyn, 0},
		{"long-string", "\xda\xff\xff", "a", "", "", "", dyn, 0},
	},
}

var memCountsSmall = []int{0, 1, 2, 3, 8, 15, 16, 17, 31, 32, 40, 41, 100, 255, 256, 1000, 2000}
var memCountsBig = []int{4096, 9999, 10001, 16384, 20000, 32768, 65535, 65536}

// unbiased draws an integer in [0, n) uniformly: a 64-bit draw pushed through a
// fixed bijective mixer (splitmix64 finalizer), so that rapid's preference for
// small and extreme values does not carry over. Still a pure function of the draw.
func unbiased(t *rapid.T, label string, n int) int {
	x := rapid.Uint64().Draw(t, label) + 0x9e3779b97f4a7c15 // (0 is a fixed point of the mixer and rapid's favourite draw)
	x ^= x >> 30
	x *= 0xbf58476d1ce4e5b9
	x ^= x >> 27
	x *= 0x94d049bb133111eb
	x ^= x >> 31
	return int(x % uint64(n))
}

// genMem draws hostile shapes for one decoder. One case in bigOneIn uses a
// count near the 64 KiB input bound: on the unchanged tree the JSON decoders
// take seconds on deeply nested inputs of that size (quadratic re-buffering,
// known finding), so the quick tier affords only a few of them.
func genMem(dec string, bigOneIn int) func(t *rapid.T) Input {
	return func(t *rapid.T) Input {
		rs := memRecipes[dec]
		r := rs[rapid.IntRange(0, len(rs)-1).Draw(t, "recipe")]
		// seven eighths small counts: the big ones cost up to seconds each on
		// the unchanged tree (quadratic re-buffering, known finding)
		per := len(r.open) + len(r.close)
		fixed := len(r.pre) + len(r.leaf) + len(r.end)
		maxN := 70000
		if per > 0 {
			maxN = (maxInputLen - fixed) / per
		}
		if r.maxN > 0 && maxN > r.maxN {
			maxN = r.maxN
		}
		var n int
		// rapid's integer draws favour the ends of their range; the classes and
		// the free count are drawn through unbiased() so that the expensive
		// classes really are as rare as intended
		switch c := unbiased(t, "countclass", 2*bigOneIn); {
		case c == 0:
			n = rapid.SampledFrom(memCountsBig).Draw(t, "bigcount")
		case c == 1:
			n = unbiased(t, "n", maxN+1)
		case c < 2+bigOneIn/8:
			n = unbiased(t, "n", 3001)
		default:
			n = rapid.SampledFrom(memCountsSmall).Draw(t, "count")
		}
		if n > maxN {
			n = maxN
		}
		leaf := []byte(r.leaf)
		ops := []string{"recipe=" + r.name}
		if rapid.IntRange(0, 4).Draw(t, "mutleaf") == 0 {
			var l string
			leaf, l = genericOp(t, leaf, []byte(r.open))
			ops = append(ops, l)
		}
		e := base64.StdEncoding.EncodeToString
		in := Input{Decoder: dec, Type: r.ty(n), Ops: ops, Changed: true}
		if dec == DJSONType && rapid.Bool().Draw(t, "direct") {
			in.Decoder = DJSONTypeDirect
		}
		for _, p := range []Part{{e([]byte(r.pre)), 1}, {e([]byte(r.open)), n}, {e(leaf), 1}, {e([]byte(r.close)), n}, {e([]byte(r.end)), 1}} {
			if p.B64 != "" && p.Rep > 0 {
				in.Parts = append(in.Parts, p)
			}
		}
		return in
	}
}
