#!/usr/bin/env python3
"""Extra stage of C17 (see DEVGUIDE.md "Optional extra stage").

quick:    runs the five native fuzz targets as plain tests over their seed corpus
          (/verif/corpus/<decoder>.json + any testdata/fuzz files): no fuzzing,
          a few seconds. Saved crashers are facet replay files under
          /verif/replay/C17/ and are replayed by the driver's regression stage.
thorough: builds the fuzz-instrumented test binary once and runs the five
          coverage-guided campaigns one after the other (all cores each,
          wall-clock bounded). A crasher is converted into a facet replay file
          under /verif/.run/violations/ and reported as EXTRA-VIOLATION. Running
          out of time is "inconclusive", never a violation.
"""
import argparse, base64, glob, hashlib, json, os, re, shutil, subprocess, sys, time

TARGETS = ["FuzzJSONUnmarshal", "FuzzJSONType", "FuzzJSONImpliedType", "FuzzMsgpackUnmarshal", "FuzzMsgpackImpliedType"]
FUZZ_SECONDS = int(os.environ.get("VERIF_C17_FUZZ_SECONDS", "55"))


def out(*a):
    print(*a, flush=True)


def main():
    ap = argparse.ArgumentParser()
    ap.add_argument("--tier", default="quick")
    ap.add_argument("--seed", type=int, default=1)
    ap.add_argument("--rundir", required=True)
    ap.add_argument("--bin", required=True)
    ap.add_argument("--verif-root", default="/verif")
    ap.add_argument("--jobs", type=int, default=16)
    a = ap.parse_args()
    root = os.path.abspath(a.verif_root)
    env = dict(os.environ, VERIF_ROOT=root)
    pkgdir = os.path.dirname(os.path.abspath(__file__))
    viol_dir = os.path.join(root, ".run", "violations")

    if a.tier == "quick":
        # seed-corpus pass of every target (plain test execution of the Fuzz functions)
        wd = os.path.join(a.rundir, "extra-seeds")
        os.makedirs(wd, exist_ok=True)
        t0 = time.time()
        try:
            r = subprocess.run([a.bin, "-test.run", "^Fuzz", "-test.v", "-test.timeout", "0"], cwd=wd, env=env,
                               capture_output=True, text=True, timeout=500)
        except subprocess.TimeoutExpired:
            out("EXTRA-INFRA seed-corpus pass timed out (inconclusive)")
            return 2
        txt = r.stdout + r.stderr
        nseeds = len(re.findall(r"^\s*--- PASS: Fuzz\w+/seed#\d+", txt, re.M))
        fails = []
        for block in re.split(r"^=== RUN\s+", txt, flags=re.M):
            m = re.match(r"(Fuzz\w+)/seed#(\d+)\s*\n", block)
            v = re.search(r"C17 violation: ([^\n]*)", block)
            if m and v:
                fails.append((m.group(1), int(m.group(2)), v.group(1)))
        out("EXTRA-EVAL %d 0" % nseeds)
        out("EXTRA-NOTE seed-corpus pass of the 5 native fuzz targets: %d seeds, %d failing, %.1fs" % (nseeds + len(fails), len(fails), time.time() - t0))
        corpus_of = {"FuzzJSONUnmarshal": "json-value", "FuzzJSONType": "json-type", "FuzzJSONImpliedType": "json-implied",
                     "FuzzMsgpackUnmarshal": "msgpack-value", "FuzzMsgpackImpliedType": "msgpack-implied"}
        reported = {}
        for tgt, idx, why in fails:
            reported[tgt] = reported.get(tgt, 0) + 1
            if reported[tgt] > 3:
                continue  # the first few per target are enough
            os.makedirs(viol_dir, exist_ok=True)
            dst = os.path.join(viol_dir, "C17-seed-%s-%d-%d.json" % (tgt, idx, int(time.time())))
            try:
                seeds = json.load(open(os.path.join(root, "corpus", corpus_of[tgt] + ".json")))
                sd = seeds[idx] if idx < len(seeds) else {"sel": 0, "b64": ""}
                data = base64.b64decode(sd["b64"])
                gofuzz = os.path.join(wd, "seed-%s-%d" % (tgt, idx))
                with open(gofuzz, "w") as fh:
                    fh.write('go test fuzz v1\n[]byte("%s")\nbyte(%d)\n' % ("".join("\\x%02x" % b for b in data), sd["sel"] % 256))
                cr = subprocess.run([a.bin], cwd=wd, env=dict(env, VERIF_C17_CONVERT=gofuzz, VERIF_C17_TARGET=tgt), capture_output=True, text=True, timeout=120)
                if cr.returncode != 0 or not cr.stdout.strip():
                    raise RuntimeError(cr.stderr[-200:])
                with open(dst, "w") as fh:
                    fh.write(cr.stdout)
            except Exception as ex:  # keep the report even if the conversion fails
                dst = dst[:-5] + ".txt"
                with open(dst, "w") as fh:
                    fh.write("%s seed#%d\n%s\n(conversion failed: %s)\n" % (tgt, idx, why, ex))
            out("EXTRA-VIOLATION %s :: corpus seed #%d of %s violates the oracle: %s" % (dst, idx, tgt, why[:400]))
        if r.returncode != 0 and not fails:
            out("EXTRA-INFRA seed-corpus pass exited %d: %s" % (r.returncode, " ".join(txt.split())[-400:]))
            return 2
        return 0

    # ---- thorough: native fuzzing
    fuzzbin = os.path.join(root, ".run", "bin", "c17.fuzz.test")
    cmd = ["go", "test", "-c", "-tags", "verif", "-fuzz", "Fuzz", "-o", fuzzbin]
    if os.environ.get("VERIF_MODFILE"):
        cmd += ["-modfile", os.environ["VERIF_MODFILE"]]
        fuzzbin_tag = hashlib.sha256(os.environ["VERIF_MODFILE"].encode()).hexdigest()[:8]
        fuzzbin = os.path.join(root, ".run", "bin", "c17-%s.fuzz.test" % fuzzbin_tag)
        cmd[cmd.index("-o") + 1] = fuzzbin
    cmd.append(".")
    t0 = time.time()
    try:
        r = subprocess.run(cmd, cwd=pkgdir, env=env, capture_output=True, text=True, timeout=1500)
    except subprocess.TimeoutExpired:
        out("EXTRA-INFRA building the fuzz-instrumented binary timed out")
        return 2
    if r.returncode != 0:
        out("EXTRA-INFRA building the fuzz-instrumented binary failed: %s" % " ".join((r.stdout + r.stderr).split())[-600:])
        return 2
    out("EXTRA-NOTE fuzz binary built in %.1fs" % (time.time() - t0))
    cache = os.path.join(root, ".run", "fuzzcache", "c17")
    os.makedirs(cache, exist_ok=True)
    total_execs = 0
    for tgt in TARGETS:
        wd = os.path.join(a.rundir, "fuzz-" + tgt)
        shutil.rmtree(wd, ignore_errors=True)
        os.makedirs(wd)
        args = [fuzzbin, "-test.run", "^$", "-test.fuzz", "^%s$" % tgt, "-test.fuzztime", "%ds" % FUZZ_SECONDS,
                "-test.fuzzcachedir", os.path.join(cache, tgt), "-test.parallel", str(a.jobs), "-test.timeout", "0"]
        t1 = time.time()
        try:
            r = subprocess.run(args, cwd=wd, env=env, capture_output=True, text=True, timeout=FUZZ_SECONDS * 4 + 240)
            txt = r.stdout + r.stderr
            rc = r.returncode
        except subprocess.TimeoutExpired as e:
            txt = ((e.stdout or b"").decode("utf-8", "replace") if isinstance(e.stdout, bytes) else (e.stdout or ""))
            out("EXTRA-NOTE %s: campaign did not finish within its wall-clock guard (inconclusive)" % tgt)
            rc = None
        execs = [int(x) for x in re.findall(r"execs: (\d+)", txt)]
        interesting = re.findall(r"new interesting: (\d+) \(total: (\d+)\)", txt)
        n = max(execs) if execs else 0
        total_execs += n
        out("EXTRA-NOTE %s: %d execs in %.0fs, corpus %s, exit %s" % (tgt, n, time.time() - t1, interesting[-1][1] if interesting else "?", rc))
        crashers = sorted(glob.glob(os.path.join(wd, "testdata", "fuzz", tgt, "*")))
        for c in crashers:
            os.makedirs(viol_dir, exist_ok=True)
            dst = os.path.join(viol_dir, "C17-fuzz-%s-%s.json" % (tgt, os.path.basename(c)[:16]))
            cenv = dict(env, VERIF_C17_CONVERT=c, VERIF_C17_TARGET=tgt)
            cr = subprocess.run([a.bin], cwd=wd, env=cenv, capture_output=True, text=True, timeout=120)
            if cr.returncode == 0 and cr.stdout.strip():
                with open(dst, "w") as fh:
                    fh.write(cr.stdout)
            else:
                dst = dst[:-5] + ".gofuzz"
                shutil.copy(c, dst)
            m = re.search(r"C17 violation: ([^\n]*)", txt)
            why = m.group(1)[:400] if m else "fuzz worker terminated unexpectedly (crash / fatal error in the decoder)"
            out("EXTRA-VIOLATION %s :: %s: %s" % (dst, tgt, why))
        if rc not in (0, None) and not crashers:
            out("EXTRA-INFRA %s exited %s without a crasher: %s" % (tgt, rc, " ".join(txt.split())[-500:]))
    out("EXTRA-EVAL %d 0" % total_execs)
    return 0


if __name__ == "__main__":
    sys.exit(main() or 0)
