package c17

import (
	"pgregory.net/rapid"

	"verif/harness/spec"
)

// refine/msgpack-value: an unknown-value extension with a coherent but hostile
// refinement map (coherentRefinementExt) placed at a position whose requested
// type is the kind the map is written for, at the root or below 1-2 hand-encoded
// wrappers (list, set, map, tuple, object, dynamic wrapper). The bytes are built
// here, without the library's encoder. This is the only place where refinements
// chosen by the input decide what the refinement builder materialises (an exact
// length makes it build a list of that length), so it is the memory clause's
// sharpest probe of the MessagePack decoder.

const ruleRefine = "a hand-encoded MessagePack document: an unknown-value extension whose refinement map is well-typed for the requested type at its position " +
	"(collection length bounds up to MaxInt64, possibly coinciding; numeric bounds possibly coinciding or infinite; long prefixes; nullness), at the root or below 1-2 wrappers; " +
	"non-trivial when the decoder went past its first token. Oracle as for the mut facets"

func genRefine(t *rapid.T) Input {
	leafKind := rapid.IntRange(0, 5).Draw(t, "leaf")
	var leaf spec.T
	elem := rapid.SampledFrom([]spec.T{spec.String, spec.Number, spec.Bool, spec.List(spec.String), spec.Dynamic}).Draw(t, "elem")
	switch leafKind {
	case 0, 1:
		leaf = spec.List(elem)
	case 2:
		leaf = spec.Set(elem)
	case 3:
		leaf = spec.Map(elem)
	case 4:
		leaf = spec.Number
	default:
		leaf = spec.String
	}
	if leaf.E != nil && leaf.E.K == spec.KDynamic && leaf.K == spec.KSet {
		leaf = spec.Set(spec.String)
	}
	ext := coherentRefinementExtFor(t, leaf)
	ty, data := leaf, ext
	ops := []string{"refine/" + leaf.String()}
	for d := rapid.IntRange(0, 2).Draw(t, "wrapdepth"); d > 0; d-- {
		switch rapid.IntRange(0, 5).Draw(t, "wrap") {
		case 0:
			ty, data = spec.List(ty), append([]byte{0x91}, data...)
			ops = append(ops, "in-list")
		case 1:
			ty, data = spec.Set(ty), append([]byte{0x91}, data...)
			ops = append(ops, "in-set")
		case 2:
			ty, data = spec.Map(ty), append([]byte{0x81, 0xa1, 'k'}, data...)
			ops = append(ops, "in-map")
		case 3:
			ty, data = spec.Tuple(spec.Bool, ty), append([]byte{0x92, 0xc3}, data...)
			ops = append(ops, "in-tuple")
		case 4:
			ty, data = spec.Object(spec.Attr{Name: "a", T: ty}), append([]byte{0x81, 0xa1, 'a'}, data...)
			ops = append(ops, "in-object")
		default:
			if tb, ok := encodeType(ty); ok && !ty.HasDynamic() {
				w := append([]byte{0x92}, mpMakeHeader('b', uint32(len(tb)), false, 0)...)
				w = append(w, tb...)
				ty, data = spec.Dynamic, append(w, data...)
				ops = append(ops, "in-dynamic-wrapper")
			}
		}
	}
	return mkInput(DMsgpackValue, ty, data, ops, "original", true)
}

// coherentRefinementExtFor is coherentRefinementExt with the kind of refinement
// chosen to fit the given type (4 times out of 5).
func coherentRefinementExtFor(t *rapid.T, ty spec.T) []byte {
	if rapid.IntRange(0, 4).Draw(t, "anykind") == 0 {
		return coherentRefinementExt(t, -1)
	}
	switch {
	case ty.IsColl():
		return coherentRefinementExt(t, 0)
	case ty.K == spec.KNumber:
		return coherentRefinementExt(t, 2)
	default:
		return coherentRefinementExt(t, 3)
	}
}
