package c17

import (
	"pgregory.net/rapid"

	"verif/harness/codecgen"
)

// wrapper/json-value and wrapper/msgpack-value: hand-written dynamic-value
// wrappers (codecgen.DrawWrapperDoc): the described type is dense in
// optional-attribute lists at any depth and the value part is null / empty /
// unknown / minimal, i.e. the decoder must type (parts of) its result from the
// description. 1 in 4 documents get one further mutation.

const ruleWrapper = "a hand-written dynamic-value wrapper (type description + value) at the root, in a list, an object or a map of placeholders; the description is a type to depth 3 dense in optional-attribute lists (also below list/set/map/tuple), the value part is per node null, an unknown (MessagePack), an empty collection or a minimal member, with nested wrappers at placeholder positions, either key order in JSON; 1 in 4 documents is mutated once more; " +
	"non-trivial when the decoder went past its first token. Oracle as for the mut facets (a returned value must be well-formed: no optional-attribute annotation in its type, and conform to the requested type)"

func genWrapper(format, dec string) func(t *rapid.T) Input {
	return func(t *rapid.T) Input {
		d := codecgen.DrawWrapperDoc(t, format == "msgpack")
		data := d.JSON
		if format == "msgpack" {
			data = d.Msgpack
		}
		ops := append([]string{"wrapper"}, d.Labels...)
		if rapid.IntRange(0, 3).Draw(t, "mutate") == 0 {
			var more []string
			data, more = mutate(t, format, data, data)
			ops = append(ops, more...)
		}
		return mkInput(dec, d.Target, data, ops, "original", true)
	}
}
