package c17

import (
	"bufio"
	"encoding/binary"
	"encoding/json"
	"fmt"
	"io"
	"os"
	"os/exec"
	"strings"
	"sync"
	"syscall"
	"time"
)

// The decoders run in a disposable worker process: a re-exec of this test
// binary with VERIF_C17_WORKER=1 (see TestMain), which lowers its own
// RLIMIT_AS and then answers length-prefixed requests on stdin/stdout, strictly
// one response per request. A worker death is therefore attributable to the
// request in flight.

const (
	workerEnv = "VERIF_C17_WORKER"
	// address-space limit the worker imposes on itself
	workerASLimit = 16 << 30
	// a worker that allocated this much in one call exits after answering, so
	// that garbage left by one request can never make the next one hit the limit
	retireAlloc = 256 << 20
	// wall-clock guard per request; a hit is infrastructure trouble, never a violation
	requestTimeout = 300 * time.Second
)

// WorkerMain is the body of the worker process.
func WorkerMain() {
	lim := syscall.Rlimit{Cur: workerASLimit, Max: workerASLimit}
	if err := syscall.Setrlimit(syscall.RLIMIT_AS, &lim); err != nil {
		fmt.Fprintf(os.Stderr, "c17 worker: cannot set RLIMIT_AS: %v\n", err)
		os.Exit(97)
	}
	in := bufio.NewReaderSize(os.Stdin, 1<<16)
	out := bufio.NewWriterSize(os.Stdout, 1<<16)
	for {
		body, err := readFrame(in)
		if err != nil {
			if err == io.EOF {
				os.Exit(0)
			}
			fmt.Fprintf(os.Stderr, "c17 worker: bad frame: %v\n", err)
			os.Exit(98)
		}
		var req Req
		var resp Resp
		if err := json.Unmarshal(body, &req); err != nil {
			resp = Resp{Outcome: "bad-request", Err: err.Error()}
		} else {
			resp = RunDecoder(req)
		}
		if resp.Alloc > retireAlloc {
			resp.Retire = true
		}
		b, err := json.Marshal(resp)
		if err != nil {
			b, _ = json.Marshal(Resp{Outcome: "bad-request", Err: "cannot encode response: " + err.Error()})
		}
		if err := writeFrame(out, b); err != nil {
			os.Exit(99)
		}
		if resp.Retire {
			os.Exit(0)
		}
	}
}

func readFrame(r *bufio.Reader) ([]byte, error) {
	var hdr [4]byte
	if _, err := io.ReadFull(r, hdr[:]); err != nil {
		if err == io.ErrUnexpectedEOF {
			return nil, fmt.Errorf("truncated frame header")
		}
		return nil, err
	}
	n := binary.LittleEndian.Uint32(hdr[:])
	if n > 64<<20 {
		return nil, fmt.Errorf("frame of %d bytes", n)
	}
	b := make([]byte, n)
	if _, err := io.ReadFull(r, b); err != nil {
		return nil, fmt.Errorf("truncated frame: %v", err)
	}
	return b, nil
}

func writeFrame(w *bufio.Writer, b []byte) error {
	var hdr [4]byte
	binary.LittleEndian.PutUint32(hdr[:], uint32(len(b)))
	if _, err := w.Write(hdr[:]); err != nil {
		return err
	}
	if _, err := w.Write(b); err != nil {
		return err
	}
	return w.Flush()
}

// ------------------------------------------------------------------ parent side

type tailBuf struct {
	mu  sync.Mutex
	buf []byte
}

func (t *tailBuf) Write(p []byte) (int, error) {
	t.mu.Lock()
	defer t.mu.Unlock()
	// keep the head (the fatal error line and the first goroutine come first)
	if room := 6000 - len(t.buf); room > 0 {
		if len(p) < room {
			room = len(p)
		}
		t.buf = append(t.buf, p[:room]...)
	}
	return len(p), nil
}

func (t *tailBuf) String() string {
	t.mu.Lock()
	defer t.mu.Unlock()
	return string(t.buf)
}

type client struct {
	cmd    *exec.Cmd
	in     io.WriteCloser
	out    *bufio.Reader
	stderr *tailBuf
	waited chan error
}

var (
	theClient *client
	clientMu  sync.Mutex
	// Restarts counts worker (re)starts in this process (diagnostics).
	Restarts int
)

func infraExit(format string, a ...any) {
	fmt.Fprintf(os.Stderr, "C17 INFRASTRUCTURE: "+format+"\n", a...)
	os.Exit(3)
}

func startClient() *client {
	exe, err := os.Executable()
	if err != nil {
		infraExit("cannot locate own executable: %v", err)
	}
	cmd := exec.Command(exe)
	cmd.Env = append(os.Environ(), workerEnv+"=1")
	cmd.Dir = os.TempDir()
	in, err := cmd.StdinPipe()
	if err != nil {
		infraExit("stdin pipe: %v", err)
	}
	outp, err := cmd.StdoutPipe()
	if err != nil {
		infraExit("stdout pipe: %v", err)
	}
	tb := &tailBuf{}
	cmd.Stderr = tb
	if err := cmd.Start(); err != nil {
		infraExit("cannot start decoder worker: %v", err)
	}
	Restarts++
	c := &client{cmd: cmd, in: in, out: bufio.NewReaderSize(outp, 1<<16), stderr: tb, waited: make(chan error, 1)}
	return c
}

func (c *client) kill() {
	_ = c.in.Close()
	_ = c.cmd.Process.Kill()
	_ = c.cmd.Wait()
}

// ShutdownWorker stops the persistent worker (called at process exit).
func ShutdownWorker() {
	clientMu.Lock()
	defer clientMu.Unlock()
	if theClient != nil {
		theClient.kill()
		theClient = nil
	}
}

// Call runs one decoder call in the worker. It never fails: a dead worker is
// reported in Resp.Death and a fresh worker is started for the next call.
// Infrastructure trouble (cannot start a worker, protocol corruption that is
// not a death, timeout) terminates the process with exit status 3, which the
// driver reports as infrastructure trouble, not as a violation.
func Call(req Req) Resp {
	clientMu.Lock()
	defer clientMu.Unlock()
	body, err := json.Marshal(req)
	if err != nil {
		infraExit("cannot encode request: %v", err)
	}
	for attempt := 0; ; attempt++ {
		if theClient == nil {
			theClient = startClient()
		}
		c := theClient
		resp, died, derr := c.roundTrip(body)
		if !died {
			if resp.Retire {
				_ = c.in.Close()
				_ = c.cmd.Wait()
				theClient = nil
			}
			return resp
		}
		// the worker is gone: find out how
		theClient = nil
		_ = c.in.Close()
		werr := c.cmd.Wait()
		st := c.stderr.String()
		if strings.Contains(st, "c17 worker:") || (werr == nil && st == "") {
			// the worker itself complained (rlimit, framing) or vanished cleanly before answering
			if attempt < 2 && !strings.Contains(st, "c17 worker:") {
				continue
			}
			infraExit("decoder worker failed: %v / %v / %s", derr, werr, clip(st, 500))
		}
		kind := "other"
		switch {
		case strings.Contains(st, "out of memory") || strings.Contains(st, "cannot allocate memory"):
			kind = "oom"
		case strings.Contains(st, "stack overflow") || strings.Contains(st, "stack exceeds"):
			kind = "stack"
		}
		if kind == "other" && st == "" {
			// killed from outside (e.g. the machine's OOM killer): cannot be attributed soundly
			if attempt < 2 {
				continue
			}
			infraExit("decoder worker died without a message: %v", werr)
		}
		return Resp{Outcome: "death", Death: fmt.Sprintf("worker exited (%v): %s", werr, fatalSummary(st)), DeathKind: kind}
	}
}

func (c *client) roundTrip(body []byte) (Resp, bool, error) {
	type result struct {
		b   []byte
		err error
	}
	ch := make(chan result, 1)
	go func() {
		var hdr [4]byte
		binary.LittleEndian.PutUint32(hdr[:], uint32(len(body)))
		if _, err := c.in.Write(hdr[:]); err != nil {
			ch <- result{nil, err}
			return
		}
		if _, err := c.in.Write(body); err != nil {
			ch <- result{nil, err}
			return
		}
		b, err := readFrame(c.out)
		ch <- result{b, err}
	}()
	select {
	case r := <-ch:
		if r.err != nil {
			return Resp{}, true, r.err
		}
		var resp Resp
		if err := json.Unmarshal(r.b, &resp); err != nil {
			infraExit("cannot decode worker response: %v", err)
		}
		if resp.Outcome == "bad-request" {
			infraExit("worker rejected the request: %s", resp.Err)
		}
		return resp, false, nil
	case <-time.After(requestTimeout):
		c.kill()
		infraExit("decoder call exceeded %v (inconclusive)", requestTimeout)
		panic("unreachable")
	}
}

// fatalSummary extracts the fatal error line and the go-cty frames of the
// first goroutine from a Go crash dump.
func fatalSummary(st string) string {
	lines := strings.Split(st, "\n")
	var out []string
	for _, l := range lines {
		if strings.HasPrefix(l, "fatal error:") || strings.HasPrefix(l, "runtime:") || strings.HasPrefix(l, "panic:") || strings.HasPrefix(l, "signal:") {
			out = append(out, strings.TrimSpace(l))
		}
		if strings.Contains(l, "go-cty/cty") && !strings.HasPrefix(l, "\t") {
			name := l
			if i := strings.LastIndex(name, "("); i > 0 {
				name = name[:i]
			}
			out = append(out, strings.TrimPrefix(name, "github.com/zclconf/go-cty/"))
		}
		if len(out) >= 10 {
			break
		}
	}
	if len(out) == 0 {
		return clip(st, 300)
	}
	return strings.Join(out, " | ")
}
