package c17

import (
	"os"
	"testing"

	"pgregory.net/rapid"
)

// TestGenStress runs every generator many times without calling a decoder: a
// panic in a generator would surface in the driver as infrastructure trouble.
// (VERIF_C17_GENSTRESS=1 go test -tags verif -run TestGenStress ./props/c17 -rapid.checks=100000)
func TestGenStress(t *testing.T) {
	if os.Getenv("VERIF_C17_GENSTRESS") == "" {
		t.Skip("run by hand")
	}
	gens := map[string]func(*rapid.T) Input{
		"mut-json-value": genMutValue("json", DJSONValue), "mut-msgpack-value": genMutValue("msgpack", DMsgpackValue),
		"mut-json-implied": genMutImplied("json", DJSONImplied), "mut-msgpack-implied": genMutImplied("msgpack", DMsgpackImplied),
		"mut-json-type": genMutType, "raw-json": genRaw("json", []string{DJSONValue, DJSONType}), "raw-msgpack": genRaw("msgpack", []string{DMsgpackValue}),
		"mem-json-value": genMem(DJSONValue, 16), "mem-json-type": genMem(DJSONType, 64), "mem-json-implied": genMem(DJSONImplied, 4),
		"mem-msgpack-value": genMem(DMsgpackValue, 8), "mem-msgpack-implied": genMem(DMsgpackImplied, 4),
	}
	for name, g := range gens {
		g := g
		t.Run(name, func(t *testing.T) {
			rapid.Check(t, func(rt *rapid.T) {
				in := g(rt)
				if _, err := in.Bytes(); err != nil {
					rt.Fatalf("bad bytes: %v", err)
				}
				if in.Type.HasOptional() {
					rt.Fatalf("optional target type generated: %s", in.Type)
				}
			})
		})
	}
}
