package c17

import (
	"fmt"
	"os"
	"testing"

	"pgregory.net/rapid"

	"verif/harness/gen"
	"verif/harness/spec"
)

// TestCalibrate measures the TotalAlloc delta of every decoder on VALID
// encodings of generated values (run by hand:
// VERIF_C17_CALIBRATE=1 go test -tags verif -run TestCalibrate -rapid.checks=200000 -v).
// The constants MemA / MemB in c17.go are 8x the maxima printed here (MemA
// additionally raised as explained there).
func TestCalibrate(t *testing.T) {
	if os.Getenv("VERIF_C17_CALIBRATE") == "" {
		t.Skip("calibration is run by hand")
	}
	type agg struct {
		n                  int
		maxRatio           float64
		maxRatioLen        int
		maxSmall, maxTotal uint64
		maxLen             int
		notValue           int
	}
	stats := map[string]*agg{}
	obs := func(dec string, ty spec.T, data []byte) {
		r := Call(Req{Dec: dec, Type: ty, Data: data})
		a := stats[dec]
		if a == nil {
			a = &agg{}
			stats[dec] = a
		}
		a.n++
		if r.Outcome != "value" && r.Outcome != "type" {
			a.notValue++
			if a.notValue <= 6 {
				fmt.Printf("NOTDECODED %s type=%s data=%x -> %s %s %s %s\n", dec, ty, data, r.Outcome, r.Err, r.Panic, r.Death)
			}
			return
		}
		if len(data) > a.maxLen {
			a.maxLen = len(data)
		}
		if r.Alloc > a.maxTotal {
			a.maxTotal = r.Alloc
		}
		if len(data) < 16 {
			if r.Alloc > a.maxSmall {
				a.maxSmall = r.Alloc
			}
			return
		}
		if q := float64(r.Alloc) / float64(len(data)); q > a.maxRatio {
			a.maxRatio, a.maxRatioLen = q, len(data)
		}
	}
	rapid.Check(t, func(rt *rapid.T) {
		for _, f := range []string{"json", "msgpack"} {
			v, c := drawValue(rt, f == "msgpack")
			b, ok := encode(f, v, c)
			if !ok {
				continue
			}
			if f == "json" {
				obs(DJSONValue, c, b)
				obs(DJSONImplied, spec.Dynamic, b)
			} else {
				obs(DMsgpackValue, c, b)
				obs(DMsgpackImplied, spec.Dynamic, b)
			}
		}
		ty := gen.Type(gen.TypeOpts{Depth: 3, Dynamic: true, Optional: true}).Draw(rt, "type")
		if b, ok := encodeType(ty); ok {
			obs(DJSONType, spec.Dynamic, b)
			obs(DJSONTypeDirect, spec.Dynamic, b)
		}
	})
	for dec, a := range stats {
		fmt.Printf("CALIB %-18s n=%d not-decoded=%d maxlen=%d max-total=%d max-small(<16B)=%d max-ratio=%.1f B/B (at len %d)\n",
			dec, a.n, a.notValue, a.maxLen, a.maxTotal, a.maxSmall, a.maxRatio, a.maxRatioLen)
	}
}
