package c05

import (
	"math"
	"math/big"
	"strconv"

	"pgregory.net/rapid"

	"verif/harness/gen"
	"verif/harness/spec"
)

// genOpts biases the history generator towards the region a facet is about.
type genOpts struct {
	dynamicOnly bool // start value is DynamicVal
	chainProb   int  // percent: a step continues on the previous step's builder
	wrongKind   int  // percent: a step of a kind that does not fit the type
	maxSteps    int
	minSteps    int
	maxCands    int
	poolMax     int  // number pool size (small pools tie often)
	collapse    bool // steer towards singleton ranges
	knownStart  int  // percent of known (non-null) start values
	nullStart   int  // percent of known-null start values
}

var collTypes = []spec.T{spec.List(spec.String), spec.List(spec.Number), spec.Set(spec.String), spec.Set(spec.Number), spec.Map(spec.String),
	spec.Map(spec.Bool), spec.List(spec.Dynamic), spec.Set(spec.Dynamic), spec.Map(spec.Dynamic), spec.List(spec.List(spec.String))}

var otherTypes = []spec.T{spec.Bool, spec.Tuple(), spec.Tuple(spec.Number, spec.String), spec.Object(), spec.Object(spec.Attr{Name: "a", T: spec.String}),
	spec.CapsuleT("A"), spec.CapsuleT("B"), spec.Tuple(spec.Dynamic)}

// ---------------------------------------------------------------- numbers

// exactText is a decimal text that parses back to exactly x at 512 bits.
func exactText(x *big.Float) string { return x.Text('g', 170) }

// sameValueOtherRoute returns a construction of exactly the same real number
// with another precision.
func sameValueOtherRoute(t *rapid.T, n spec.Num) spec.Num {
	x := n.Float()
	if x.IsInf() {
		// the infinity singletons and infinities made by other constructors
		if x.Sign() > 0 {
			return rapid.SampledFrom([]spec.Num{{Route: "+inf"}, {Route: "float", Text: "+Inf"}, {Route: "parse", Text: "+Inf"}}).Draw(t, "infroute")
		}
		return rapid.SampledFrom([]spec.Num{{Route: "-inf"}, {Route: "float", Text: "-Inf"}, {Route: "parse", Text: "-Inf"}}).Draw(t, "infroute")
	}
	if x.IsInt() {
		if i, acc := x.Int64(); acc == big.Exact && i > -1<<53 && i < 1<<53 {
			switch rapid.IntRange(0, 3).Draw(t, "introute") {
			case 0:
				return spec.NInt(i)
			case 1:
				return spec.NFloat(float64(i))
			case 2:
				return spec.NParse(strconv.FormatInt(i, 10))
			}
		}
	}
	// a non-integer at another precision has another canonical text: cty's
	// text-based equality then disagrees with the numeric order (C03's
	// subject), and the model would abstain; keep the construction.
	return n
}

// neighbour returns a number a tiny relative step (2^-k) away from x.
func neighbour(t *rapid.T, n spec.Num) spec.Num {
	x := n.Float()
	if x.IsInf() {
		if x.Sign() > 0 {
			return spec.NFloat(math.MaxFloat64)
		}
		return spec.NFloat(-math.MaxFloat64)
	}
	k := rapid.SampledFrom([]int{1, 10, 40, 52, 60, 200, 400}).Draw(t, "nbk")
	d := new(big.Float).SetPrec(512).SetMantExp(big.NewFloat(1), -k)
	if x.Sign() != 0 {
		ax := new(big.Float).SetPrec(512).Abs(x)
		d.Mul(d, ax)
	}
	y := new(big.Float).SetPrec(512)
	if rapid.Bool().Draw(t, "nbup") {
		y.Add(x, d)
	} else {
		y.Sub(x, d)
	}
	return spec.Num{Route: "big", Text: exactText(y), Prec: 512}
}

func drawNumPool(t *rapid.T, max int) []spec.Num {
	n := rapid.IntRange(1, max).Draw(t, "npool")
	var pool []spec.Num
	for i := 0; i < n; i++ {
		var b spec.Num
		switch rapid.IntRange(0, 3).Draw(t, "poolclass") {
		case 0, 1:
			b = gen.SmallInt(-3, 6).Draw(t, "base")
		default:
			b = gen.Num(gen.NumOpts{}).Draw(t, "base")
		}
		pool = append(pool, b)
	}
	return pool
}

// pickNum draws a bound / candidate related to the pool: a pool number, the
// same value by another route, a close neighbour, +-1, or an infinity.
func pickNum(t *rapid.T, pool []spec.Num) spec.Num {
	b := rapid.SampledFrom(pool).Draw(t, "poolpick")
	switch rapid.IntRange(0, 11).Draw(t, "numvariant") {
	case 0, 1, 2, 3, 4:
		return b
	case 5, 6:
		return sameValueOtherRoute(t, b)
	case 7:
		return neighbour(t, b)
	case 8:
		x := b.Float()
		if x.IsInf() {
			return b
		}
		y := new(big.Float).SetPrec(512).Add(x, big.NewFloat(float64(rapid.SampledFrom([]int{-1, 1}).Draw(t, "pm1"))))
		return spec.Num{Route: "big", Text: exactText(y), Prec: 512}
	case 9:
		return rapid.SampledFrom([]spec.Num{{Route: "+inf"}, {Route: "-inf"}, {Route: "float", Text: "+Inf"}, {Route: "float", Text: "-Inf"}}).Draw(t, "inf")
	default:
		return gen.SmallInt(-3, 6).Draw(t, "fresh")
	}
}

// ---------------------------------------------------------------- strings

type strPool struct {
	w     string   // the "true" final string
	parts []string // prefixes of w (raw and normalised), extensions, near misses
}

func drawStrPool(t *rapid.T) strPool {
	var w string
	if rapid.IntRange(0, 3).Draw(t, "plainword") == 0 {
		w = rapid.SampledFrom([]string{"foo-bar-", "https://example.com/", "ami-123", "a", "", "hello world", "{\"foo\":[", "x"}).Draw(t, "w")
	} else {
		w = drawHostile(t, 1, 6)
	}
	if rapid.IntRange(0, 11).Draw(t, "longword") == 6 {
		// a LONG final string (63..1025 bytes and a short hostile tail): prefixes
		// far beyond any fixed-size buffer or wire-format limit
		w = gen.LongString(t, "longw") + w
	}
	p := strPool{w: w}
	nw := spec.NFC(w)
	for _, c := range sparse(cutPoints(w)) {
		p.parts = append(p.parts, w[:c])
	}
	for _, c := range sparse(cutPoints(nw)) {
		p.parts = append(p.parts, nw[:c])
	}
	// extensions and near misses
	ext := drawCont(t)
	p.parts = append(p.parts, w+ext, w+"-", w+"a")
	if len(nw) > 0 {
		cs := cutPoints(nw)
		last := cs[len(cs)-2]
		p.parts = append(p.parts, nw[:last]+"z", nw[:last]+drawCP(t), "z"+nw)
	}
	p.parts = append(p.parts, "", drawHostile(t, 1, 2))
	return p
}

// ---------------------------------------------------------------- collections

var lenPool = []int{0, 0, 1, 1, 2, 2, 3, 4, 5, -1, 7, 1 << 31, math.MaxInt - 1, math.MaxInt, math.MinInt}

// maxAllocLen bounds lengths that act as allocation counts (DESIGN.md 3.6): a
// not-null list refined to an exact length n collapses to a known list of n
// unknown members, so lower bounds and exact lengths of lists stay <= 2^16.
const maxAllocLen = 1 << 16

func drawLen(t *rapid.T, around []int) int {
	if len(around) > 0 && rapid.IntRange(0, 2).Draw(t, "lenrel") > 0 {
		b := rapid.SampledFrom(around).Draw(t, "lenbase")
		d := rapid.IntRange(-1, 1).Draw(t, "lend")
		if (d > 0 && b == math.MaxInt) || (d < 0 && b == math.MinInt) {
			d = 0
		}
		return b + d
	}
	return rapid.SampledFrom(lenPool).Draw(t, "len")
}

var simpleStrs = []string{"a", "b", "c", "d", "e", "f", "g"}

// knownColl builds a wholly-known collection of n distinct simple members.
func knownColl(ty spec.T, n int) spec.V {
	et := *ty.E
	if et.K == spec.KDynamic {
		et = spec.String
	}
	v := spec.V{T: spec.T{K: ty.K, E: &et}, St: spec.Known}
	for i := 0; i < n; i++ {
		var e spec.V
		switch et.K {
		case spec.KNumber:
			e = spec.KnownNum(spec.NInt(int64(i)))
		case spec.KBool:
			e = spec.KnownBool(i%2 == 0)
		case spec.KString:
			e = spec.KnownStr(simpleStrs[i%len(simpleStrs)])
		default: // list(string)
			e = spec.V{T: et, St: spec.Known, Elems: []spec.V{spec.KnownStr(simpleStrs[i%len(simpleStrs)])}}
		}
		v.Elems = append(v.Elems, e)
		if ty.K == spec.KMap {
			v.Keys = append(v.Keys, "k"+strconv.Itoa(i))
		}
	}
	if ty.K == spec.KSet && et.K == spec.KBool && n > 2 {
		v.Elems = v.Elems[:2]
	}
	return v
}

// ---------------------------------------------------------------- histories

func genHistory(o genOpts) func(t *rapid.T) History {
	return func(t *rapid.T) History {
		var h History
		// type
		var ty spec.T
		switch k := rapid.IntRange(0, 19).Draw(t, "tykind"); {
		case o.dynamicOnly:
			ty = spec.Dynamic
		case k < 7:
			ty = spec.Number
		case k < 12:
			ty = spec.String
		case k < 17:
			ty = rapid.SampledFrom(collTypes).Draw(t, "collty")
		case k < 19:
			ty = rapid.SampledFrom(otherTypes).Draw(t, "otherty")
		default:
			ty = spec.Dynamic
		}
		numPool := drawNumPool(t, o.poolMax)
		sp := drawStrPool(t)
		var lens []int

		// start value
		roll := rapid.IntRange(0, 99).Draw(t, "startstate")
		switch {
		case o.dynamicOnly:
			h.Start = spec.DynamicVal()
		case ty.K == spec.KDynamic:
			if roll < 50 {
				h.Start = spec.DynamicVal()
			} else {
				h.Start = spec.NullOf(spec.Dynamic)
			}
		case roll >= 100-o.knownStart:
			switch {
			case ty.K == spec.KNumber:
				h.Start = spec.KnownNum(pickNum(t, numPool))
			case ty.K == spec.KString:
				h.Start = spec.KnownStr(sp.w)
			case ty.IsColl():
				n := rapid.IntRange(0, 4).Draw(t, "knownlen")
				h.Start = knownColl(ty, n)
				ty = h.Start.T
				lens = append(lens, len(h.Start.Elems))
			case ty.K == spec.KTuple && len(ty.Elems) == 1: // tuple(dynamic): known value has a concrete type
				h.Start = spec.V{T: spec.Tuple(spec.String), St: spec.Known, Elems: []spec.V{spec.KnownStr("a")}}
				ty = h.Start.T
			default:
				h.Start = gen.Value(ty, gen.ValOpts{RootKnown: true, Simple: true}).Draw(t, "knownstart")
				ty = h.Start.T
			}
		case roll >= 100-o.knownStart-o.nullStart:
			h.Start = spec.NullOf(ty)
		default:
			h.Start = spec.UnknownOf(ty)
		}

		if rapid.IntRange(0, 9).Draw(t, "marked") == 9 {
			h.Start.Marks = []string{"m1"}
		}

		// ops that fit the type, and all ops
		fit := []string{opNotNull, opNull}
		switch {
		case ty.K == spec.KNumber:
			fit = []string{opLo, opHi, opLo, opHi, opLo, opHi, opRange, opNotNull, opNotNull, opNull}
		case ty.K == spec.KString:
			fit = []string{opPrefix, opPrefixFull, opPrefix, opPrefixFull, opPrefixFull, opNotNull, opNull}
		case ty.IsColl():
			fit = []string{opLenLo, opLenHi, opLenLo, opLenHi, opLen, opNotNull, opNotNull, opNull}
		case ty.K == spec.KDynamic:
			fit = []string{opNotNull, opNull, opLo, opHi, opRange, opPrefix, opPrefixFull, opLenLo, opLenHi, opLen}
		default:
			fit = []string{opNotNull, opNotNull, opNull}
		}
		all := []string{opNotNull, opNull, opLo, opHi, opRange, opPrefix, opPrefixFull, opLenLo, opLenHi, opLen}

		if o.collapse && h.Start.St == spec.Unknown && ty.K != spec.KDynamic && rapid.IntRange(0, 9).Draw(t, "template") < 8 {
			h.Steps = collapseTemplate(t, ty, numPool)
			for _, s := range h.Steps {
				if s.Op == opLenLo || s.Op == opLenHi || s.Op == opLen {
					lens = append(lens, s.L)
				}
			}
		}
		nsteps := rapid.IntRange(o.minSteps, o.maxSteps).Draw(t, "nsteps")
		if len(h.Steps) > 0 {
			nsteps = rapid.IntRange(0, 3).Draw(t, "extrasteps")
		}
		for i := 0; i < nsteps; i++ {
			var s Step
			if rapid.IntRange(0, 99).Draw(t, "wrongkind") >= 100-o.wrongKind { // rapid favours small draws: the rare class sits at the top
				s.Op = rapid.SampledFrom(all).Draw(t, "op")
			} else {
				s.Op = rapid.SampledFrom(fit).Draw(t, "op")
			}
			if s.Op == opNull && h.Start.St == spec.Known && rapid.IntRange(0, 4).Draw(t, "keepnull") > 0 {
				s.Op = opNotNull
			}
			switch s.Op {
			case opLo, opHi:
				n := pickNum(t, numPool)
				s.N = &n
				s.Inc = rapid.IntRange(0, 2).Draw(t, "inc") > 0
				if o.collapse {
					s.Inc = rapid.IntRange(0, 5).Draw(t, "inc") > 0
				}
			case opRange:
				if rapid.IntRange(0, 5).Draw(t, "minunknown") > 0 {
					n := pickNum(t, numPool)
					s.N = &n
				}
				if rapid.IntRange(0, 5).Draw(t, "maxunknown") > 0 {
					n := pickNum(t, numPool)
					s.M = &n
				}
			case opPrefix, opPrefixFull:
				s.S = rapid.SampledFrom(sp.parts).Draw(t, "prefix")
			case opLenLo, opLenHi, opLen:
				s.L = drawLen(t, lens)
				if s.Op != opLenHi && s.L > maxAllocLen && (ty.K == spec.KList || ty.K == spec.KDynamic) {
					s.L = rapid.SampledFrom([]int{6, 100, 1000, maxAllocLen}).Draw(t, "boundedlen")
				}
				lens = append(lens, s.L)
			}
			if len(h.Steps) > 0 && rapid.IntRange(0, 99).Draw(t, "chain") < o.chainProb {
				s.Chain = true
			}
			h.Steps = append(h.Steps, s)
		}

		h.With = rapid.IntRange(0, 5).Draw(t, "refinewith") == 5

		// candidates
		nc := rapid.IntRange(0, o.maxCands).Draw(t, "ncands")
		for i := 0; i < nc; i++ {
			if rapid.IntRange(0, 9).Draw(t, "nullcand") == 0 {
				h.Cands = append(h.Cands, spec.NullOf(ty))
				continue
			}
			switch {
			case ty.K == spec.KNumber:
				h.Cands = append(h.Cands, spec.KnownNum(pickNum(t, numPool)))
			case ty.K == spec.KString:
				h.Cands = append(h.Cands, spec.KnownStr(rapid.SampledFrom(sp.parts).Draw(t, "candstr")))
			case ty.IsColl():
				n := drawLen(t, lens)
				if n < 0 || n > 6 {
					n = rapid.IntRange(0, 6).Draw(t, "candlen")
				}
				cand := knownColl(ty, n)
				if ty.K == spec.KSet && n >= 2 && rapid.IntRange(0, 2).Draw(t, "unknownmembers") == 0 {
					// a set that stores n members some of which are unknown: its
					// final length is anywhere between 1 and n
					k := rapid.IntRange(1, n-1).Draw(t, "nunknown")
					for j := 0; j < k; j++ {
						cand.Elems[n-1-j] = spec.UnknownOf(*cand.T.E)
					}
				}
				h.Cands = append(h.Cands, cand)
			case ty.K == spec.KDynamic:
				h.Cands = append(h.Cands, rapid.SampledFrom([]spec.V{spec.KnownStr("a"), spec.KnownNum(spec.NInt(1)), spec.KnownBool(true), knownColl(spec.List(spec.String), 2), spec.NullOf(spec.String)}).Draw(t, "dyncand"))
			default:
				if h.Start.St == spec.Known && rapid.Bool().Draw(t, "startascand") {
					h.Cands = append(h.Cands, h.Start)
				} else if ty.K == spec.KTuple && len(ty.Elems) == 1 && ty.Elems[0].K == spec.KDynamic {
					h.Cands = append(h.Cands, spec.V{T: spec.Tuple(spec.String), St: spec.Known, Elems: []spec.V{spec.KnownStr("a")}})
				} else {
					h.Cands = append(h.Cands, gen.Value(ty, gen.ValOpts{RootKnown: true, Simple: true}).Draw(t, "cand"))
				}
			}
		}
		if h.Start.St == spec.Known && ty.IsColl() && nc > 0 {
			h.Cands = append(h.Cands, h.Start)
		}
		return h
	}
}

// collapseTemplate draws calls that pin an unknown value down to (nearly)
// one value: not-null plus equal inclusive bounds / an exact length, in any
// order, with looser statements mixed in and, sometimes, one end made
// exclusive or moved by one (which must then be a contradiction or leave more
// than one value).
func collapseTemplate(t *rapid.T, ty spec.T, pool []spec.Num) []Step {
	var steps []Step
	switch {
	case ty.K == spec.KNumber:
		x := rapid.SampledFrom(pool).Draw(t, "pin")
		y := sameValueOtherRoute(t, x)
		if rapid.IntRange(0, 7).Draw(t, "offpin") == 0 {
			y = pickNum(t, pool)
		}
		loInc := rapid.IntRange(0, 7).Draw(t, "loinc") > 0
		hiInc := rapid.IntRange(0, 7).Draw(t, "hiinc") > 0
		if rapid.IntRange(0, 3).Draw(t, "userange") == 0 {
			steps = append(steps, Step{Op: opRange, N: &x, M: &y})
		} else {
			steps = append(steps, Step{Op: opLo, N: &x, Inc: loInc}, Step{Op: opHi, N: &y, Inc: hiInc})
		}
		for i := rapid.IntRange(0, 2).Draw(t, "looser"); i > 0; i-- {
			n := pickNum(t, pool)
			steps = append(steps, Step{Op: rapid.SampledFrom([]string{opLo, opHi}).Draw(t, "looserop"), N: &n, Inc: rapid.Bool().Draw(t, "looserinc")})
		}
	case ty.IsColl():
		n := rapid.SampledFrom([]int{0, 0, 1, 1, 2, 3, 5, 1000}).Draw(t, "pinlen")
		m := n
		if rapid.IntRange(0, 7).Draw(t, "offlen") == 0 {
			m = n + rapid.SampledFrom([]int{-1, 1}).Draw(t, "offby")
		}
		if rapid.IntRange(0, 2).Draw(t, "uselen") == 0 {
			steps = append(steps, Step{Op: opLen, L: n})
		} else {
			steps = append(steps, Step{Op: opLenLo, L: n}, Step{Op: opLenHi, L: m})
		}
		for i := rapid.IntRange(0, 2).Draw(t, "looser"); i > 0; i-- {
			steps = append(steps, Step{Op: rapid.SampledFrom([]string{opLenLo, opLenHi}).Draw(t, "looserop"), L: drawLen(t, []int{n})})
		}
		for i := range steps {
			if steps[i].Op != opLenHi && steps[i].L > maxAllocLen {
				steps[i].L = maxAllocLen
			}
		}
	case ty.K == spec.KString:
		steps = append(steps, Step{Op: opPrefixFull, S: "foo-"})
	}
	switch rapid.IntRange(0, 9).Draw(t, "nullness") {
	case 0:
		steps = append(steps, Step{Op: opNull})
	case 1:
		// nullness left open: no collapse is justified
	default:
		steps = append(steps, Step{Op: opNotNull})
	}
	perm := rapid.Permutation(steps).Draw(t, "order")
	for i := range perm {
		perm[i].Chain = i > 0 && rapid.IntRange(0, 2).Draw(t, "tchain") > 0
	}
	return perm
}

// sparse thins out the cut points of a long string: the first few, those
// around 64, 256 and 1024 bytes, and the last few.
func sparse(cs []int) []int {
	if len(cs) <= 24 {
		return cs
	}
	var out []int
	for i, c := range cs {
		if i < 3 || i >= len(cs)-5 || (c >= 61 && c <= 67) || (c >= 252 && c <= 260) || (c >= 1020 && c <= 1028) {
			out = append(out, c)
		}
	}
	return out
}
