package c05

import (
	"fmt"
	"math"
	"math/big"
	"strings"

	"github.com/zclconf/go-cty/cty"
	"github.com/zclconf/go-cty/cty/ctystrings"

	"verif/harness/facet"
	"verif/harness/spec"
	"verif/harness/wf"
)

// ops
const (
	opNotNull    = "notnull"
	opNull       = "null"
	opLo         = "lo"
	opHi         = "hi"
	opRange      = "range"
	opPrefix     = "prefix"
	opPrefixFull = "prefixfull"
	opLenLo      = "lenlo"
	opLenHi      = "lenhi"
	opLen        = "len"
)

// Step is one refinement-builder call.
type Step struct {
	Op    string    `json:"op"`
	N     *spec.Num `json:"n,omitempty"`     // bound for lo/hi; min for range (nil = unknown number)
	M     *spec.Num `json:"m,omitempty"`     // max for range (nil = unknown number)
	Inc   bool      `json:"inc,omitempty"`   // inclusive flag for lo/hi
	L     int       `json:"l,omitempty"`     // length for lenlo/lenhi/len
	S     string    `json:"s,omitempty"`     // prefix for prefix/prefixfull
	Chain bool      `json:"chain,omitempty"` // called on the same builder as the previous step
}

func (s Step) String() string {
	switch s.Op {
	case opLo, opHi:
		return fmt.Sprintf("%s(%s,%t)", s.Op, s.N, s.Inc)
	case opRange:
		a, b := "unknown", "unknown"
		if s.N != nil {
			a = s.N.String()
		}
		if s.M != nil {
			b = s.M.String()
		}
		return fmt.Sprintf("range(%s,%s)", a, b)
	case opPrefix, opPrefixFull:
		return fmt.Sprintf("%s(%q)", s.Op, s.S)
	case opLenLo, opLenHi, opLen:
		return fmt.Sprintf("%s(%d)", s.Op, s.L)
	}
	return s.Op
}

// History is the input of the builder facets: a start value, the builder
// calls, and concrete candidates that are tested for membership after every
// completed builder.
type History struct {
	Start spec.V   `json:"start"`
	Steps []Step   `json:"steps"`
	Cands []spec.V `json:"cands,omitempty"`
	With  bool     `json:"with,omitempty"` // apply each builder through Value.RefineWith
}

// call applies one step to a builder; it reports a panic as (true, message).
func call(b *cty.RefinementBuilder, s Step) (panicked bool, msg string) {
	defer func() {
		if r := recover(); r != nil {
			panicked, msg = true, fmt.Sprint(r)
		}
	}()
	num := func(n *spec.Num) cty.Value {
		if n == nil {
			return cty.UnknownVal(cty.Number)
		}
		return n.Cty()
	}
	switch s.Op {
	case opNotNull:
		b.NotNull()
	case opNull:
		b.Null()
	case opLo:
		b.NumberRangeLowerBound(num(s.N), s.Inc)
	case opHi:
		b.NumberRangeUpperBound(num(s.N), s.Inc)
	case opRange:
		b.NumberRangeInclusive(num(s.N), num(s.M))
	case opPrefix:
		b.StringPrefix(s.S)
	case opPrefixFull:
		b.StringPrefixFull(s.S)
	case opLenLo:
		b.CollectionLengthLowerBound(s.L)
	case opLenHi:
		b.CollectionLengthUpperBound(s.L)
	case opLen:
		b.CollectionLength(s.L)
	default:
		panic("c05: bad op " + s.Op)
	}
	return false, ""
}

func safePrefix(p string) (r string, err *facet.Failure) {
	defer func() {
		if x := recover(); x != nil {
			err = facet.Failf("safe-prefix-panic", "SafeKnownPrefix(%q) panicked: %v", p, x)
		}
	}()
	return ctystrings.SafeKnownPrefix(p), nil
}

// failure reasons that have the shape of a defect already recorded as a known
// finding; failures of any other shape are reported in preference.
var knownShapes = map[string]bool{
	// (empty: both findings of this property are repaired in /repo; their
	// witnesses are regression replays now)
}

func pick(fails []*facet.Failure) error {
	if len(fails) == 0 {
		return nil
	}
	for _, f := range fails {
		if !knownShapes[f.Data["reason"]] {
			return f
		}
	}
	return fails[0]
}

// outcome of running a history (for classification by the facets)
type outcome struct {
	accepted      map[string]int // dimension -> accepted constraint calls
	contradiction int            // predicted and observed contradictions
	contraAfter   int            // contradictions that came after >= 1 accepted constraint
	wrongKind     int
	abstained     string
	collapsed     int // known results justified by a singleton model
	singleton     int // builders completed while the model was a singleton
	chainCalls    int // calls made on a builder that already received a call
	memberChecks  int // candidates the model admitted and the library was asked about
	memberFalse   int // candidates the library excluded (tracked for monotonicity)
	ties          int
}

func dimension(op string) string {
	switch op {
	case opNotNull, opNull:
		return "nullness"
	case opLo, opHi, opRange:
		return "number"
	case opPrefix, opPrefixFull:
		return "prefix"
	}
	return "length"
}

// runHistory interprets a history against the library and the model.
func runHistory(c *facet.Ctx, h History) (*outcome, error) {
	out := &outcome{accepted: map[string]int{}}
	var fails []*facet.Failure
	add := func(f *facet.Failure) { fails = append(fails, f) }

	v, err := spec.Build(h.Start)
	if err != nil {
		c.Skip()
		return out, nil
	}
	startType := v.Type()
	m := newModel(h.Start)
	// Marks are not this property's subject: Range() is only defined for
	// unmarked values, so every value is unmarked before it is inspected; the
	// builder still receives the marked value.
	vu, _ := v.Unmark()

	cands := make([]cty.Value, 0, len(h.Cands))
	candSpecs := make([]spec.V, 0, len(h.Cands))
	for _, cs := range h.Cands {
		cs = cs.StripMarks()
		cv, err := spec.Build(cs)
		if err != nil {
			continue
		}
		cands = append(cands, cv)
		candSpecs = append(candSpecs, cs)
	}
	everFalse := make([]bool, len(cands))

	// membership of the start value itself
	if f := membership(m, vu, cands, candSpecs, everFalse, out, "start"); f != nil {
		for _, x := range f {
			add(x)
		}
	}

	i := 0
steps:
	for i < len(h.Steps) {
		j := i + 1
		for j < len(h.Steps) && h.Steps[j].Chain {
			j++
		}
		group := h.Steps[i:j]
		i = j

		gm := m.clone() // model of the builder's work in progress
		dead := false
		acceptedHere := map[string]int{}
		// applyGroup makes the calls of this group on one builder; it returns
		// true when the history must end (a failure was recorded or the model
		// abstains).
		applyGroup := func(b *cty.RefinementBuilder) (stop bool) {
			for k, s := range group {
				if k > 0 {
					out.chainCalls++
				}
				sp := ""
				if s.Op == opPrefix {
					r, f := safePrefix(s.S)
					if f != nil {
						add(f)
						return true
					}
					if !strings.HasPrefix(spec.NFC(s.S), r) {
						add(facet.Failf("safe-prefix-not-a-prefix", "SafeKnownPrefix(%q) = %q is not a byte prefix of the normalised input %q", s.S, r, spec.NFC(s.S)))
						return true
					}
					sp = r
				}
				before := gm.clone()
				p := gm.apply(s, sp)
				if p.class == pAbstain {
					out.abstained = p.reason
					c.Label("abstain:" + p.reason)
					return true
				}
				panicked, msg := call(b, s)
				idx := i - len(group) + k
				where := func() string {
					return fmt.Sprintf("step %d %s on %s (model before: %s)", idx, s, describeStart(h.Start), before.describe())
				}
				switch p.class {
				case pIgnored:
					if panicked {
						add(facet.Failf("dynamic-refinement-panicked", "%s: DynamicVal must ignore refinements, but the call panicked: %s", where(), msg))
						return true
					}
				case pWrong:
					out.wrongKind++
					if !panicked {
						add(facet.Failf("wrong-kind-accepted", "%s: refinement of the wrong kind for type %s was accepted", where(), h.Start.T).With("reason", "wrong-kind"))
						return true
					}
					dead = true
				case pContra:
					if !panicked {
						add(facet.Failf("accepted-contradiction", "%s: the call contradicts %s and must be rejected, but it was accepted", where(), p.reason).With("reason", p.reason))
						return true
					}
					out.contradiction++
					if len(out.accepted)+len(acceptedHere) > 0 {
						out.contraAfter++
					}
					c.Label("contra:" + p.reason)
					dead = true
				case pAccept:
					if panicked {
						add(facet.Failf("rejected-consistent", "%s: the call is consistent with everything stated so far but panicked: %s", where(), msg).With("reason", "rejected-consistent"))
						return true
					}
					acceptedHere[dimension(s.Op)]++
				}
				if dead {
					break
				}
			}
			return false
		}
		var nv cty.Value
		var nvf *facet.Failure
		if h.With {
			// Value.RefineWith: "equivalent to passing the return value of
			// Value.Refine to the first callback ... and then calling NewValue"
			stop, ran := false, false
			var perr string
			nv, perr = refineWith(v, func(b *cty.RefinementBuilder) { ran = true; stop = applyGroup(b) })
			if !ran && perr == "" {
				// the callbacks were not run: what RefineWith returned must
				// still be what the documented equivalent (the builder chain
				// followed by NewValue) gives, a rejection included
				c.Label("refinewith:callbacks-not-run")
				b := v.Refine()
				stop = applyGroup(b)
				if !stop {
					if dead {
						add(facet.Failf("accepted-contradiction", "%s: RefineWith returned %#v without running its callbacks, but the equivalent builder chain rejects these calls", describeStart(h.Start), nv).With("reason", "refinewith-skipped"))
						break steps
					}
					if want, wf := newValue(b); wf == nil && !want.RawEquals(nv) {
						add(facet.Failf("refinewith-differs", "%s: RefineWith returned %#v without running its callbacks, the equivalent builder chain gives %#v", describeStart(h.Start), nv, want))
						break steps
					}
				}
			}
			if stop {
				break steps
			}
			if perr != "" && !dead {
				nvf = facet.Failf("newvalue-panic", "RefineWith panicked after accepted calls: %s", perr)
			}
		} else {
			b := v.Refine()
			if applyGroup(b) {
				break steps
			}
			if !dead {
				nv, nvf = newValue(b)
			}
		}
		if dead {
			// the builder is abandoned; the value and the model are unchanged
			continue
		}
		for d, n := range acceptedHere {
			out.accepted[d] += n
		}
		if nvf != nil {
			add(nvf)
			break
		}
		if f := wf.Check(nv); f != nil {
			add(f)
			break
		}
		if !nv.Type().Equals(startType) {
			add(facet.Failf("type-changed", "after %v the type is %#v, was %#v", group, nv.Type(), startType))
			break
		}
		nvu, _ := nv.Unmark()
		nm, f := checkResult(gm, vu, nvu, out)
		if f != nil {
			add(f.With("steps", fmt.Sprint(group)))
			break
		}
		m = nm
		v, vu = nv, nvu
		for _, x := range membership(m, vu, cands, candSpecs, everFalse, out, fmt.Sprintf("after step %d", i-1)) {
			add(x)
		}
	}
	return out, pick(fails)
}

func refineWith(v cty.Value, fn func(*cty.RefinementBuilder)) (nv cty.Value, perr string) {
	defer func() {
		if r := recover(); r != nil {
			perr = fmt.Sprint(r)
		}
	}()
	return v.RefineWith(func(b *cty.RefinementBuilder) *cty.RefinementBuilder { fn(b); return b }), ""
}

func newValue(b *cty.RefinementBuilder) (v cty.Value, f *facet.Failure) {
	defer func() {
		if r := recover(); r != nil {
			f = facet.Failf("newvalue-panic", "NewValue panicked after accepted calls: %v", r)
		}
	}()
	return b.NewValue(), nil
}

func describeStart(s spec.V) string {
	switch s.St {
	case spec.Unknown:
		return "unknown " + s.T.String()
	case spec.Null:
		return "null " + s.T.String()
	}
	switch s.T.K {
	case spec.KNumber:
		return "known number " + s.N.String()
	case spec.KString:
		return fmt.Sprintf("known string %q", s.S)
	}
	return fmt.Sprintf("known %s of %d members", s.T, len(s.Elems))
}

func (m *mstate) describe() string {
	switch m.mode {
	case modeDynamic:
		return "DynamicVal"
	case modeKnownNull:
		return "known null"
	case modeKnown:
		switch {
		case m.ty.K == spec.KNumber:
			return "known " + numStr(m.kNum)
		case m.ty.K == spec.KString:
			return fmt.Sprintf("known %q", m.kStr)
		case m.ty.IsColl():
			return fmt.Sprintf("known collection of length %d", m.kLen)
		}
		return "known value"
	}
	var sb strings.Builder
	sb.WriteString([]string{"nullable", "null", "notnull"}[m.null])
	switch {
	case m.ty.K == spec.KNumber:
		lo, li := m.effLo()
		hi, hiI := m.effHi()
		fmt.Fprintf(&sb, " lo=%s(inc=%t) hi=%s(inc=%t)", numStr(lo), li, numStr(hi), hiI)
	case m.ty.K == spec.KString:
		fmt.Fprintf(&sb, " prefix=%q", m.prefix)
	case m.ty.IsColl():
		fmt.Fprintf(&sb, " len=%d..%d", m.minLen, m.maxLen)
	}
	return sb.String()
}

func numStr(f *big.Float) string {
	if f == nil {
		return "none"
	}
	s := f.Text('g', 40)
	return fmt.Sprintf("%s@%d", s, f.Prec())
}

// checkResult compares the value returned by NewValue with the model gm of
// the completed builder. prev is the value the builder was created from. It
// returns the model to continue with.
func checkResult(gm *mstate, prev, nv cty.Value, out *outcome) (*mstate, *facet.Failure) {
	switch gm.mode {
	case modeDynamic:
		if nv != cty.DynamicVal {
			return nil, facet.Failf("dynamic-changed", "refining DynamicVal returned %#v, not DynamicVal itself", nv)
		}
		return gm, nil
	case modeKnown, modeKnownNull:
		// "If the original value being refined was known then the result is exactly that value"
		if !nv.RawEquals(prev) {
			return nil, facet.Failf("known-value-changed", "refining the known value %#v returned %#v", prev, nv)
		}
		if f := checkKnownRange(gm, nv); f != nil {
			return nil, f
		}
		return gm, nil
	}
	// unknown mode
	single := gm.singleton()
	if single {
		out.singleton++
	}
	if nv.IsKnown() {
		nm, f := checkCollapse(gm, nv)
		if f != nil {
			return nil, f
		}
		out.collapsed++
		if f := checkKnownRange(nm, nv); f != nil {
			return nil, f
		}
		return nm, nil
	}
	// still unknown: the reported range must be exactly the model
	rng := nv.Range()
	if !rng.TypeConstraint().Equals(nv.Type()) {
		return nil, facet.Failf("range-type", "Range().TypeConstraint() = %#v for a value of type %#v", rng.TypeConstraint(), nv.Type())
	}
	if got, want := rng.DefinitelyNotNull(), gm.null == nullNo; got != want {
		return nil, facet.Failf("range-nullness", "DefinitelyNotNull() = %t, model says %t (%s)", got, want, gm.describe())
	}
	if got, want := rng.CouldBeNull(), gm.null != nullNo; got != want {
		return nil, facet.Failf("range-nullness", "CouldBeNull() = %t, model says %t (%s)", got, want, gm.describe())
	}
	if gm.null == nullYes {
		// a value stated to be null: only nullness is meaningful. (The library
		// collapses this to a known null; an unknown result is still sound.)
		return gm, nil
	}
	switch {
	case gm.ty.K == spec.KNumber:
		lo, loInc := rng.NumberLowerBound()
		hi, hiInc := rng.NumberUpperBound()
		if f := cmpBound("lower", lo, loInc, gm.lo, gm.loInc, -1, gm); f != nil {
			return nil, f
		}
		if f := cmpBound("upper", hi, hiInc, gm.hi, gm.hiInc, +1, gm); f != nil {
			return nil, f
		}
	case gm.ty.K == spec.KString:
		if got := rng.StringPrefix(); got != gm.prefix {
			return nil, facet.Failf("range-prefix", "StringPrefix() = %q, the stated constraints imply %q", got, gm.prefix).With("reason", "range-prefix")
		}
	case gm.ty.IsColl():
		if got := rng.LengthLowerBound(); got != gm.minLen {
			return nil, facet.Failf("range-length", "LengthLowerBound() = %d, the stated constraints imply %d (%s)", got, gm.minLen, gm.describe())
		}
		if got := rng.LengthUpperBound(); got != gm.maxLen {
			return nil, facet.Failf("range-length", "LengthUpperBound() = %d, the stated constraints imply %d (%s)", got, gm.maxLen, gm.describe())
		}
	}
	return gm, nil
}

// cmpBound compares a reported numeric bound with the model's. An absent
// model bound (nil) is the unrefined bound: the accessor may report it as an
// unknown number or as the infinity on that side, and its inclusive flag is
// documented as meaningless.
func cmpBound(name string, got cty.Value, gotInc bool, want *big.Float, wantInc bool, side int, gm *mstate) *facet.Failure {
	if got.IsNull() || got.Type() != cty.Number {
		return facet.Failf("range-bound", "%s bound accessor returned %#v", name, got)
	}
	if want == nil {
		if !got.IsKnown() {
			return nil
		}
		g := got.AsBigFloat()
		if (side < 0 && isNegInf(g)) || (side > 0 && isPosInf(g)) {
			return nil
		}
		return facet.Failf("range-bound", "%s bound reported as %#v although no %s bound was stated (%s)", name, got, name, gm.describe()).With("reason", "range-bound-invented")
	}
	if !got.IsKnown() {
		return facet.Failf("range-bound", "%s bound reported as unknown although %s was stated (%s)", name, numStr(want), gm.describe()).With("reason", "range-bound-lost")
	}
	g := got.AsBigFloat()
	if g.Cmp(want) != 0 {
		return facet.Failf("range-bound", "%s bound reported as %s, the stated constraints imply %s (%s)", name, numStr(g), numStr(want), gm.describe()).With("reason", "range-bound-value")
	}
	if gotInc != wantInc {
		return facet.Failf("range-bound", "%s bound %s reported inclusive=%t, the stated constraints imply inclusive=%t (%s)", name, numStr(g), gotInc, wantInc, gm.describe()).With("reason", "range-bound-inclusive")
	}
	return nil
}

// singleton reports whether the (unknown-mode) model admits exactly one value.
func (m *mstate) singleton() bool {
	if m.null == nullYes {
		return true
	}
	if m.null != nullNo {
		return false
	}
	switch {
	case m.ty.K == spec.KNumber:
		t := m.clone()
		_, ok := t.numSingle()
		return ok && !t.ambiguous
	case m.ty.IsColl():
		return m.minLen == m.maxLen && m.minLen == 0
	case m.ty.K == spec.KTuple:
		return len(m.ty.Elems) == 0
	case m.ty.K == spec.KObject:
		return len(m.ty.Attrs) == 0
	}
	return false
}

// checkCollapse decides whether a known result of refining an unknown value
// is justified: the known value must admit exactly what the refinement
// admitted. It returns the known-mode model to continue with.
func checkCollapse(gm *mstate, nv cty.Value) (*mstate, *facet.Failure) {
	bad := func(why string) (*mstate, *facet.Failure) {
		return nil, facet.Failf("collapse-unjustified", "NewValue returned the known value %#v but %s (model: %s)", nv, why, gm.describe()).With("reason", "collapse-unjustified")
	}
	nm := &mstate{ty: gm.ty, maxLen: math.MaxInt}
	if nv.IsNull() {
		if gm.null != nullYes {
			return bad("the value was not stated to be null")
		}
		nm.mode = modeKnownNull
		return nm, nil
	}
	if gm.null != nullNo {
		return bad("null is still admitted")
	}
	nm.mode = modeKnown
	switch {
	case gm.ty.K == spec.KNumber:
		t := gm.clone()
		x, ok := t.numSingle()
		if t.ambiguous {
			// cannot happen: ambiguous pairs end the history before NewValue
			return bad("the bounds form an ambiguous pair")
		}
		if !ok {
			return bad("the bounds admit more than one number")
		}
		if nv.AsBigFloat().Cmp(x) != 0 {
			return bad(fmt.Sprintf("the only admitted number is %s", numStr(x)))
		}
		nm.kNum = x
	case gm.ty.IsColl():
		if gm.minLen != gm.maxLen {
			return bad("the length is not determined")
		}
		n := gm.minLen
		if nv.LengthInt() != n {
			return bad(fmt.Sprintf("the stated length is %d", n))
		}
		switch gm.ty.K {
		case spec.KMap:
			if n != 0 {
				return bad("a known map needs known keys")
			}
		case spec.KSet:
			if n > 1 {
				return bad("members of a set of two or more unknown values could coalesce")
			}
		}
		et := nv.Type().ElementType()
		for it := nv.ElementIterator(); it.Next(); {
			_, e := it.Element()
			if e.IsKnown() || !e.RawEquals(cty.UnknownVal(et)) {
				return bad(fmt.Sprintf("member %#v is more specific than an unrefined unknown value", e))
			}
		}
		nm.kLen = n
		nm.kElemsU = n > 0
	case gm.ty.K == spec.KTuple && len(gm.ty.Elems) == 0, gm.ty.K == spec.KObject && len(gm.ty.Attrs) == 0:
		// the only non-null value of the empty tuple / object type
	default:
		return bad("a not-null refinement does not determine a value of this type")
	}
	return nm, nil
}

// checkKnownRange checks the synthetic range of a known value: "the range of
// an already-known value is just a very narrow range that covers only what
// that specific value covers".
func checkKnownRange(m *mstate, nv cty.Value) *facet.Failure {
	rng := nv.Range()
	if !rng.TypeConstraint().Equals(nv.Type()) {
		return facet.Failf("range-type", "Range().TypeConstraint() = %#v for a value of type %#v", rng.TypeConstraint(), nv.Type())
	}
	if m.mode == modeKnownNull {
		if rng.DefinitelyNotNull() || !rng.CouldBeNull() {
			return facet.Failf("range-nullness", "the range of a known null claims it is not null")
		}
		return nil
	}
	if !rng.DefinitelyNotNull() || rng.CouldBeNull() {
		return facet.Failf("range-nullness", "the range of the known non-null value %#v does not say it is not null", nv)
	}
	switch {
	case m.ty.K == spec.KNumber:
		lo, loInc := rng.NumberLowerBound()
		hi, hiInc := rng.NumberUpperBound()
		if f := cmpBound("lower", lo, loInc, m.kNum, true, -1, m); f != nil {
			return f
		}
		if f := cmpBound("upper", hi, hiInc, m.kNum, true, +1, m); f != nil {
			return f
		}
	case m.ty.K == spec.KString:
		if got := rng.StringPrefix(); got != m.kStr {
			return facet.Failf("range-prefix", "StringPrefix() of the known string %q is %q", m.kStr, got)
		}
	case m.ty.IsColl():
		if rng.LengthLowerBound() != m.kLen || rng.LengthUpperBound() != m.kLen {
			return facet.Failf("range-length", "length bounds of a known collection of length %d are %d..%d", m.kLen, rng.LengthLowerBound(), rng.LengthUpperBound())
		}
	}
	return nil
}

// admits reports whether the model admits the candidate; ok=false means the
// model has no opinion (ambiguous number pair, or a known structured value
// the model does not compare member-wise).
func (m *mstate) admits(cs spec.V) (admit, ok bool) {
	if m.mode == modeDynamic {
		return true, true
	}
	if cs.St == spec.Null {
		switch m.mode {
		case modeKnownNull:
			return true, true
		case modeKnown:
			return false, true
		}
		return m.null != nullNo, true
	}
	if cs.St == spec.Known && cs.T.K == spec.KSet && !cs.WhollyKnown() {
		// a set that holds unknown members: it stores len(Elems) members, but
		// they may turn out to be equal to one another, so its final length is
		// anywhere from 1 to len(Elems). It is admitted (possibly) whenever
		// that interval meets the stated length bounds; nothing is asserted
		// otherwise.
		if m.mode == modeUnknown && m.null != nullYes && len(cs.Elems) >= m.minLen && 1 <= m.maxLen {
			return true, true
		}
		return false, false
	}
	switch m.mode {
	case modeKnownNull:
		return false, true
	case modeKnown:
		switch {
		case m.ty.K == spec.KNumber:
			t := &mstate{}
			c := t.cmpA(cs.N.Float(), m.kNum)
			if t.ambiguous {
				return false, false
			}
			return c == 0, true
		case m.ty.K == spec.KString:
			return spec.NFC(cs.S) == m.kStr, true
		case m.ty.IsColl():
			if len(cs.Elems) != m.kLen {
				return false, true
			}
			if m.kElemsU {
				return true, true
			}
			if m.kLen == 0 {
				return true, true
			}
		}
		if m.kSpec != nil && sameSpec(*m.kSpec, cs) {
			return true, true
		}
		return false, false
	}
	// unknown mode, non-null candidate
	if m.null == nullYes {
		return false, true
	}
	switch {
	case m.ty.K == spec.KNumber:
		return m.numAdmits(cs.N.Float())
	case m.ty.K == spec.KString:
		return strings.HasPrefix(spec.NFC(cs.S), m.prefix), true
	case m.ty.IsColl():
		n := len(cs.Elems)
		return n >= m.minLen && n <= m.maxLen, true
	}
	return true, true
}

func sameSpec(a, b spec.V) bool {
	return fmt.Sprintf("%+v", flat(a)) == fmt.Sprintf("%+v", flat(b))
}

func flat(v spec.V) string {
	var sb strings.Builder
	var rec func(v spec.V)
	rec = func(v spec.V) {
		fmt.Fprintf(&sb, "(%s %s %t %q %d", v.T, v.St, v.B, v.S, v.Cap)
		if v.N != nil {
			fmt.Fprintf(&sb, " n=%s", v.N)
		}
		for i, e := range v.Elems {
			if i < len(v.Keys) {
				fmt.Fprintf(&sb, " %q:", v.Keys[i])
			}
			rec(e)
		}
		sb.WriteString(")")
	}
	rec(v)
	return sb.String()
}

func tri(v cty.Value) string {
	if v.IsMarked() {
		v, _ = v.Unmark()
	}
	switch {
	case v.Type() != cty.Bool || v.IsNull():
		return "bad"
	case !v.IsKnown():
		return "unknown"
	case v.True():
		return "true"
	}
	return "false"
}

// membership asks the library about every candidate and compares with the
// model: a candidate satisfying every constraint stated so far must not be
// excluded, a candidate the model excludes must not be declared included, and
// a candidate excluded once stays excluded.
func membership(m *mstate, v cty.Value, cands []cty.Value, specs []spec.V, everFalse []bool, out *outcome, when string) (fails []*facet.Failure) {
	for i, cv := range cands {
		inc, eq, perr := ask(v, cv)
		if perr != "" {
			fails = append(fails, facet.Failf("membership-panic", "%s: asking whether %#v is in the range of %#v panicked: %s", when, cv, v, perr))
			continue
		}
		if inc == "bad" || eq == "bad" {
			fails = append(fails, facet.Failf("membership-result", "%s: Includes / Equals returned a non-boolean or null result for %#v", when, cv))
			continue
		}
		admit, ok := m.admits(specs[i])
		if ok && admit {
			out.memberChecks++
			reason := "membership"
			if specs[i].St != spec.Null && m.mode == modeUnknown && m.ty.K == spec.KNumber && specs[i].N != nil {
				x := specs[i].N.Float()
				if (isNegInf(x) && m.lo == nil) || (isPosInf(x) && m.hi == nil) {
					reason = "infinity-vs-absent-bound"
				}
			}
			if inc == "false" {
				fails = append(fails, facet.Failf("admitted-value-excluded", "%s: %#v satisfies every stated constraint (%s) but Range().Includes says False (value %#v)", when, cv, m.describe(), v).With("reason", reason).With("via", "includes"))
			} else if eq == "false" {
				fails = append(fails, facet.Failf("admitted-value-excluded", "%s: %#v satisfies every stated constraint (%s) but Equals says False (value %#v)", when, cv, m.describe(), v).With("reason", reason).With("via", "equals"))
			}
		}
		if ok && !admit && inc == "true" {
			fails = append(fails, facet.Failf("excluded-value-included", "%s: %#v violates the stated constraints (%s) but Range().Includes says True (value %#v)", when, cv, m.describe(), v).With("reason", "excluded-value-included"))
		}
		if inc == "false" {
			if !everFalse[i] {
				out.memberFalse++
			}
			everFalse[i] = true
		} else if everFalse[i] {
			fails = append(fails, facet.Failf("range-widened", "%s: %#v was excluded earlier in the history but Range().Includes now says %s (value %#v)", when, cv, inc, v).With("reason", "range-widened"))
			everFalse[i] = false
		}
	}
	return fails
}

func ask(v, cv cty.Value) (inc, eq, perr string) {
	defer func() {
		if r := recover(); r != nil {
			perr = fmt.Sprint(r)
		}
	}()
	inc = tri(v.Range().Includes(cv))
	if !cv.IsNull() && !cv.Type().Equals(v.Type()) {
		// Equals is documented for values of the same type; a candidate that
		// merely conforms to a type constraint with dynamic parts (an empty
		// list(string) against ListValEmpty(dynamic)) is asked through the
		// range only. How Equals treats such pairs is property C01's subject.
		return inc, "n/a", ""
	}
	eq = tri(v.Equals(cv))
	if eq2 := tri(cv.Equals(v)); eq2 != eq {
		if eq2 == "false" || eq == "false" {
			eq = "false"
		}
	}
	return inc, eq, ""
}
