// Package c05: refinements only narrow, are faithful, and prefixes are
// continuation-safe.
//
// The builder facets interpret a history (start value, builder calls, member
// candidates) against the library and against the refinement model in
// model.go, which is written from docs/refinements.md and the doc comments.
// The facets differ only in how the history generator is biased.
package c05

import (
	"fmt"

	"pgregory.net/rapid"

	"verif/harness/facet"
	"verif/harness/spec"
)

const ruleCommon = "history = start value (unknown / known / known null of number, string, list, set, map, bool, tuple, object, capsule; DynamicVal; an already refined start is the value after the first builder) + builder calls (NotNull, Null, lower/upper bound incl./excl., NumberRangeInclusive with possibly unknown ends, length lower/upper/exact, StringPrefix, StringPrefixFull), each on its own builder or chained on one builder, bounds drawn from a small pool so that they tie (same number by another construction route, neighbours 2^-k away, +-1, both kinds of infinity) + concrete candidates asked after every completed builder; oracle = interval/prefix/length/nullness model written from docs/refinements.md (accept vs contradiction vs wrong kind, exact Range() accessors, collapse only for singletons, admitted candidate never excluded, excluded candidate stays excluded); distinct = hash of the input JSON; "

func classify(c *facet.Ctx, h History, o *outcome) {
	c.Label("type=" + h.Start.T.K)
	c.Label("start=" + h.Start.St)
	interact := false
	for d, n := range o.accepted {
		if n >= 2 {
			interact = true
			c.Label("interacting:" + d)
		}
	}
	if o.contraAfter > 0 {
		c.Label("contradiction-after-accept")
	}
	if o.wrongKind > 0 {
		c.Label("wrong-kind")
	}
	if o.collapsed > 0 {
		c.Label("collapsed")
	}
	if o.singleton > 0 {
		c.Label("singleton")
	}
	if o.chainCalls > 0 {
		c.Label("chained")
	}
	if o.memberChecks > 0 {
		c.Label("member-admitted")
	}
	if o.memberFalse > 0 {
		c.Label("member-excluded")
	}
	_ = interact
}

func interacting(o *outcome) bool {
	total := 0
	for _, n := range o.accepted {
		total += n
		if n >= 2 {
			return true
		}
	}
	return total >= 1 && o.contraAfter > 0
}

func registerHistory(name, rule string, quick, thorough int, o genOpts, nt func(h History, o *outcome) bool) {
	facet.Register(facet.F[History]{
		Prop: "C05", Name: name, Rule: ruleCommon + "non-trivial when " + rule,
		Quick: quick, Thorough: thorough, Shards: 8,
		Gen: genHistory(o),
		Check: func(c *facet.Ctx, h History) error {
			out, err := runHistory(c, h)
			if err != nil {
				return err
			}
			classify(c, h, out)
			if nt(h, out) {
				c.NonTrivial()
			}
			return nil
		},
	})
}

func init() {
	registerHistory("builder/history",
		"at least two accepted constraints interact (same dimension: number bounds, prefix, length bounds, nullness) or a contradiction follows an accepted constraint",
		40000, 250000,
		genOpts{chainProb: 15, wrongKind: 8, minSteps: 1, maxSteps: 8, maxCands: 4, poolMax: 3, knownStart: 25, nullStart: 8},
		func(h History, o *outcome) bool { return interacting(o) })

	registerHistory("builder/chain",
		"at least two calls were made on one builder and two accepted constraints interact",
		30000, 150000,
		genOpts{chainProb: 80, wrongKind: 5, minSteps: 2, maxSteps: 8, maxCands: 3, poolMax: 3, knownStart: 20, nullStart: 5},
		func(h History, o *outcome) bool { return o.chainCalls > 0 && interacting(o) })

	registerHistory("builder/contradiction",
		"a contradiction (predicted and observed) follows at least one accepted constraint; the pool has one or two numbers so that inclusive/exclusive ties dominate",
		30000, 150000,
		genOpts{chainProb: 30, wrongKind: 3, minSteps: 2, maxSteps: 6, maxCands: 2, poolMax: 2, knownStart: 35, nullStart: 10},
		func(h History, o *outcome) bool { return o.contraAfter > 0 })

	registerHistory("builder/collapse",
		"a builder was completed while the model admitted exactly one value (null, a single number, an empty collection, the empty tuple/object) or the library returned a known value for an unknown start",
		30000, 150000,
		genOpts{chainProb: 50, wrongKind: 0, minSteps: 2, maxSteps: 6, maxCands: 3, poolMax: 1, knownStart: 0, nullStart: 0, collapse: true},
		func(h History, o *outcome) bool { return o.singleton > 0 || o.collapsed > 0 })

	registerHistory("builder/dynamic",
		"DynamicVal received at least two refinement calls (of any kind, also contradictory ones)",
		8000, 30000,
		genOpts{dynamicOnly: true, chainProb: 50, minSteps: 1, maxSteps: 8, maxCands: 3, poolMax: 2},
		func(h History, o *outcome) bool { return len(h.Steps) >= 2 })

	registerHistory("range/membership-monotone",
		"at least one candidate was admitted by the model and one candidate was excluded by the library at some step (so both directions of the membership oracle and the monotonicity check were exercised)",
		30000, 150000,
		genOpts{chainProb: 10, wrongKind: 0, minSteps: 2, maxSteps: 7, maxCands: 10, poolMax: 3, knownStart: 10, nullStart: 3},
		func(h History, o *outcome) bool { return o.memberChecks > 0 && o.memberFalse > 0 })

	_ = fmt.Sprint
	_ = rapid.Bool
	_ = spec.Bool
}
