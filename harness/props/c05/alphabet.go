package c05

import (
	"strings"
	"unicode/utf8"

	"golang.org/x/text/unicode/norm"
	"pgregory.net/rapid"
)

// The hostile alphabet of the prefix facets: every class the safe-prefix
// logic has to get right (DESIGN.md section 5 C05). Only generators use these
// tables; the oracle is NFC from x/text applied to whole strings. All code
// points are written as numbers so that the source file itself is immune to
// normalisation by editors.

func cps(rs ...rune) []string {
	out := make([]string, len(rs))
	for i, r := range rs {
		out[i] = string(r)
	}
	return out
}

func seq(rs ...rune) string { return string(rs) }

// delimiters recognised by the library's "must end a grapheme cluster" heuristic
var delims = []string{"-", "_", ":", ";", "/", "\\", ",", ".", "(", ")", "{", "}", "[", "]", "|", "?", "!", "~", " ", "\t", "@", "#", "$", "%", "^", "&", "*", "+", "\"", "'"}

// ASCII that is not in that list
var asciiOther = []string{"a", "e", "o", "A", "z", "d", "s", "0", "1", "9", "=", "<", ">", "`", "\r", "\n", "\x00", "\x7f"}

// combining marks (mostly non-zero combining class: reordering, composition,
// singleton decompositions U+0340/0341/0343, U+0344 = 0308+0301, CGJ, Tibetan
// vowel signs, kana voicing marks, enclosing keycap)
var marks = cps(0x300, 0x301, 0x308, 0x323, 0x327, 0x307, 0x30A, 0x338, 0x340, 0x341, 0x343, 0x344, 0x345,
	0x34F, 0x591, 0x5B4, 0x5C1, 0x5BC, 0x64B, 0x651, 0x653, 0x654, 0x93C, 0x94D, 0x9BC, 0xF71, 0xF72, 0xF73, 0xF74, 0xF75, 0xF80, 0xF81,
	0xFB7, 0xFB5, 0x1037, 0x1039, 0x20D0, 0x20E3, 0x3099, 0x309A, 0xFE20, 0x110BA, 0x1D165, 0x1D16E, 0x1D16F)

// starters (ccc = 0) that nevertheless combine with a preceding character
var backCombiners = cps(0x9BE, 0x9D7, 0xB3E, 0xB56, 0xB57, 0xBBE, 0xBD7, 0xCC2, 0xCD5, 0xCD6, 0xD3E, 0xD57, 0xDCA, 0xDCF, 0xDDF,
	0x102E, 0x1B35, 0x1133E, 0x11357, 0x114B0, 0x114BA, 0x114BD, 0x115AF, 0x11930, 0x11127)

// their bases, and other starters that compose with a following character
var forwardCombiners = cps(0x9C7, 0xB47, 0xBC6, 0xBC7, 0xB92, 0xCC6, 0xCBF, 0xCCA, 0xD46, 0xD47, 0xDD9, 0xDDC, 0x1025, 0x1B05, 0x1B3A, 0x1B3C,
	0x11131, 0x11132, 0x11099, 0x1109B, 0x11347, 0x114B9, 0x115B8, 0x115B9, 0x11935, 0x304B, 0x30A6, 0x30DB, 0x915, 0x928, 0xF40, 0xF42, 0xFB2, 0xFB3,
	0x5D3, 0x5E9, 0x627, 0x648, 0x64A, 0x6D5, 0x3B1, 0x3C9, 0x391, 0x399, 0x415, 0x438, 0x2190, 0x2203, 0x2208, 0x223C)

// precomposed characters, singletons, composition exclusions
var precomposed = append(cps(0xE9, 0xF6, 0xE7, 0xC5, 0x212B, 0x2126, 0x1C6, 0x1E9B, 0x1E0B, 0x1E0D, 0x1E69, 0x1D6, 0x1EC7,
	0x958, 0x9CB, 0x9CC, 0xB4B, 0xBCA, 0xBCB, 0xCC0, 0xCCB, 0xD4A, 0xDDD, 0x1026, 0xF43, 0xF73, 0xF76, 0xF78,
	0xFB1D, 0xFB2A, 0xFB2C, 0x2ADC, 0x304C, 0x30F4, 0x1F80, 0x1FB3, 0x1FB4, 0x2260, 0x226E, 0x385, 0x3AC, 0x1D15E, 0xF900, 0xFA0E, 0x2F800, 0x1109A, 0x1112E, 0x114BB),
	seq(0x1E9B, 0x323), seq('a', 0x323, 0x301), seq('a', 0x301, 0x323))

var hangul = cps(0x1100, 0x1112, 0x1161, 0x1175, 0x11A8, 0x11C2, 0x11A7, 0xAC00, 0xAC01, 0xD7A3, 0xD788,
	0x115F, 0x1160, 0x11A2, 0xA960, 0xD7B0, 0xD7CB, 0x3131, 0xFFA1)

var emoji = cps(0x1F600, 0x1F44D, 0x1F3FB, 0x1F3FD, 0x1F3FF, 0x200D, 0xFE0F, 0xFE0E, 0x1F469, 0x1F4BB, 0x2642, 0x2640, 0x1F937, 0x1F636,
	0x1F32B, 0x2764, 0x1F3F4, 0xE0067, 0xE0062, 0xE007F, 0xA9, 0x2122, 0x1F468, 0x1F466, 0x26F9, 0x261D)

var regional = cps(0x1F1E9, 0x1F1EA, 0x1F1FA, 0x1F1E6, 0x1F1FF)

// Prepend, SpacingMark, Control, ZWNJ and friends (grapheme-cluster classes)
var clusterOdd = cps(0x600, 0x605, 0x110BD, 0x903, 0x93E, 0xE33, 0xEB3, 0x200C, 0xAD, 0x2028, 0xA0, 0x200B, 0x180E, 0xFEFF, 0x61C, 0xD4E, 0x11A3A)

var plain = cps(0x65E5, 0x672C, 0xDF, 0x130, 0x131, 0xE6, 0x416, 0x5D0, 0xE01, 0x10400, 0x2A6D6)

var alphabetClasses = [][]string{delims, asciiOther, marks, backCombiners, forwardCombiners, precomposed, hangul, emoji, regional, clusterOdd, plain}

// runes found by scanning the normalisation tables: every code point that
// does not start a normalisation segment, may combine with what follows, or
// changes under normalisation.
var (
	scanNoBoundaryBefore []rune
	scanForward          []rune
	scanDecomposing      []rune
)

func init() {
	for r := rune(0x80); r <= 0x2FA1D; r++ {
		if r >= 0xD800 && r <= 0xDFFF {
			continue
		}
		if r >= 0xAC00 && r <= 0xD7A3 && r%97 != 0 { // thin out the 11172 Hangul syllables
			continue
		}
		if r >= 0x3400 && r <= 0x9FFF || r >= 0x20000 && r <= 0x2A6DF { // unified ideographs: inert
			continue
		}
		var buf [4]byte
		n := utf8.EncodeRune(buf[:], r)
		p := norm.NFC.Properties(buf[:n])
		switch {
		case !p.BoundaryBefore():
			scanNoBoundaryBefore = append(scanNoBoundaryBefore, r)
		case !p.BoundaryAfter():
			scanForward = append(scanForward, r)
		}
		if d := norm.NFD.Properties(buf[:n]).Decomposition(); len(d) > 0 {
			scanDecomposing = append(scanDecomposing, r)
		}
	}
}

// drawCP draws one "character" (sometimes a short fixed sequence) of the alphabet.
func drawCP(t *rapid.T) string {
	switch k := rapid.IntRange(0, 19).Draw(t, "cpclass"); {
	case k < 11:
		return rapid.SampledFrom(alphabetClasses[k]).Draw(t, "cp")
	case k == 11 || k == 12:
		return rapid.SampledFrom(delims).Draw(t, "cp")
	case k == 13 || k == 14:
		return rapid.SampledFrom(asciiOther).Draw(t, "cp")
	case k == 15:
		return rapid.SampledFrom(marks).Draw(t, "cp")
	case k == 16:
		return string(rapid.SampledFrom(scanNoBoundaryBefore).Draw(t, "cp"))
	case k == 17:
		return string(rapid.SampledFrom(scanForward).Draw(t, "cp"))
	case k == 18:
		return string(rapid.SampledFrom(scanDecomposing).Draw(t, "cp"))
	default:
		return rapid.SampledFrom(hangul).Draw(t, "cp")
	}
}

// fixed "words": sequences whose interior is a risky cut position
var riskyWords = []string{
	seq('e', 0x301), seq('a', 0x323, 0x301), seq('a', 0x301, 0x323), seq(0x17F, 0x307, 0x323), seq('s', 0x323, 0x307),
	seq(0x1100, 0x1161, 0x11A8), seq(0xAC00, 0x11A8), seq(0x1100, 0x1161), seq(0xAC01, 0x11A8), seq(0x1100, 0x1100, 0x1161),
	seq(0x1F469, 0x200D, 0x1F4BB), seq(0x1F44D, 0x1F3FD), seq(0x1F937, 0x1F3FD, 0x200D, 0x2642, 0xFE0F), seq(0x1F636, 0x200D, 0x1F32B, 0xFE0F),
	seq(0x2764, 0xFE0F), seq('1', 0xFE0F, 0x20E3), seq('#', 0xFE0F, 0x20E3), seq('*', 0x20E3),
	seq(0x1F1E9, 0x1F1EA), seq(0x1F1E9, 0x1F1EA, 0x1F1FA), "\r\n", "\n\r",
	seq(0x9C7, 0x9BE), seq(0xBC6, 0xBBE), seq(0xDD9, 0xDCF, 0xDCA), seq(0xDD9, 0xDCA), seq(0x1025, 0x102E),
	seq(0xF40, 0xF71, 0xF72), seq(0xF71, 0xF72), seq(0xF71, 0xF74), seq(0xFB2, 0xF71, 0xF80), seq(0xF42, 0xFB7),
	seq(0x304B, 0x3099), seq(0x915, 0x93C), seq(0x5E9, 0x5BC, 0x5C1), seq(0x3B1, 0x313, 0x301, 0x345), seq(0x399, 0x308, 0x301),
	seq(0x308, 0x301), seq('a', 0x308, 0x301), seq('a', 0x344), seq('=', 0x338), seq('<', 0x338), seq(0x627, 0x653), seq(0x600, 0x661),
	seq(0x1F3F4, 0xE0067, 0xE0062, 0xE007F), seq(0x1B05, 0x1B35), seq(0x11131, 0x11127), seq(0x114B9, 0x114BA), seq(0x11935, 0x11930),
	seq(0x1D158, 0x1D165, 0x1D16E),
	"https://", "foo-", "{\"a\":", "ami-", "x = ", "a.b.", "c:\\",
}

// drawHostile draws a string of min..max alphabet characters, sometimes in
// decomposed form, sometimes with a long run of combining marks.
func drawHostile(t *rapid.T, min, max int) string {
	var sb strings.Builder
	n := rapid.IntRange(min, max).Draw(t, "ncp")
	for i := 0; i < n; i++ {
		if rapid.IntRange(0, 5).Draw(t, "word") == 0 {
			sb.WriteString(rapid.SampledFrom(riskyWords).Draw(t, "w"))
		} else {
			sb.WriteString(drawCP(t))
		}
	}
	s := sb.String()
	switch rapid.IntRange(0, 9).Draw(t, "form") {
	case 0, 1:
		s = norm.NFD.String(s)
	case 2:
		s = norm.NFC.String(s)
	case 3:
		s = norm.NFKD.String(s)
	}
	if rapid.IntRange(0, 199).Draw(t, "longrun") == 0 {
		// a run of combining marks around the stream-safe limit of 30
		k := rapid.IntRange(28, 34).Draw(t, "runlen")
		m := rapid.SampledFrom(marks).Draw(t, "runmark")
		s += strings.Repeat(m, k) + rapid.SampledFrom(marks).Draw(t, "runtail")
	}
	return s
}

// cutPoints returns the byte offsets of all code point boundaries of s.
func cutPoints(s string) []int {
	out := []int{0}
	for i := range s {
		if i > 0 {
			out = append(out, i)
		}
	}
	if len(s) > 0 {
		out = append(out, len(s))
	}
	return out
}

// continuation heads: the first code points of a continuation matter most.
var contHeads = func() []string {
	var out []string
	out = append(out, marks...)
	out = append(out, backCombiners...)
	out = append(out, hangul...)
	out = append(out, regional...)
	out = append(out, cps(0x200D, 0xFE0F, 0xFE0E, 0x1F3FB, 0x1F3FD, 0xE007F, 0xE0067, '\n', '\r', 0x903, 0x93E, 0xE33, 0x200C, 'a', '-', 0x2642, 0x1F32B)...)
	out = append(out, seq(0x323, 0x301), seq(0x301, 0x323), seq(0x301, 0x345), seq(0x200D, 0x1F4BB), seq(0x200D, 0x2642, 0xFE0F),
		seq(0x1161, 0x11A8), seq(0xF71, 0xF72), seq(0xF72, 0xF71), seq(0x3099, 0x3099), seq(0x5C1, 0x5BC), seq(0xDCF, 0xDCA), seq(0x9BE, 0x9BC))
	return out
}()
