package c05

import (
	"testing"

	"verif/harness/facet"
)

func TestFacet(t *testing.T) { facet.Main(t) }
