package c05

import (
	"fmt"
	"strings"
	"unicode/utf8"

	"github.com/apparentlymart/go-textseg/v15/textseg"
	"github.com/zclconf/go-cty/cty"
	"pgregory.net/rapid"

	"verif/harness/facet"
	"verif/harness/spec"
	"verif/harness/wf"
)

// PrefixCase is a prefix with several continuations.
type PrefixCase struct {
	P     string   `json:"p"`
	Conts []string `json:"conts"`
}

// genPrefixCase draws a whole string, cuts it at a code point boundary (so
// that cuts fall inside combining sequences, syllables, emoji sequences, flag
// pairs and CR LF), and adds further continuations whose first code points are
// the ones that interact with the end of a prefix.
func genPrefixCase(t *rapid.T) PrefixCase {
	w := drawHostile(t, 1, 7)
	cuts := cutPoints(w)
	k := rapid.SampledFrom(cuts).Draw(t, "cut")
	pc := PrefixCase{P: w[:k]}
	pc.Conts = append(pc.Conts, w[k:])
	n := rapid.IntRange(2, 6).Draw(t, "nconts")
	for i := 0; i < n; i++ {
		pc.Conts = append(pc.Conts, drawCont(t))
	}
	return pc
}

func drawCont(t *rapid.T) string {
	var sb strings.Builder
	switch rapid.IntRange(0, 3).Draw(t, "contkind") {
	case 0:
		sb.WriteString(rapid.SampledFrom(contHeads).Draw(t, "head"))
		sb.WriteString(drawHostile(t, 0, 2))
	case 1:
		sb.WriteString(rapid.SampledFrom(contHeads).Draw(t, "head"))
		sb.WriteString(rapid.SampledFrom(contHeads).Draw(t, "head2"))
	default:
		sb.WriteString(drawHostile(t, 1, 3))
	}
	return sb.String()
}

// clusters counts grapheme clusters (classification only, never an oracle).
func clusters(s string) int {
	n := 0
	b := []byte(s)
	for len(b) > 0 {
		adv, _, err := textseg.ScanGraphemeClusters(b, true)
		if err != nil || adv == 0 {
			return n + 1
		}
		n++
		b = b[adv:]
	}
	return n
}

// checkContinuations is the oracle of the prefix facets: the recorded prefix
// r is a byte prefix of the normalised form of every string extending p.
func checkContinuations(c *facet.Ctx, p, r string, conts []string, classify bool) *facet.Failure {
	np := spec.NFC(p)
	if !strings.HasPrefix(np, r) {
		return facet.Failf("safe-prefix-not-a-prefix", "the safe prefix %q of %q is not a byte prefix of the normalised input %q", r, p, np).With("reason", "safe-prefix-not-a-prefix")
	}
	if !utf8.ValidString(r) {
		return facet.Failf("safe-prefix-invalid-utf8", "the safe prefix %+q of %q is not valid UTF-8", r, p)
	}
	nt := false
	for _, s := range conts {
		full := spec.NFC(p + s)
		if !strings.HasPrefix(full, r) {
			return facet.Failf("continuation-unsafe", "prefix %+q was recorded as %+q, but the string %+q that extends the prefix normalises to %+q, which does not start with the recorded prefix",
				p, r, p+s, full).With("reason", "continuation-unsafe")
		}
		if classify && !nt && s != "" && p != "" {
			ns := spec.NFC(s)
			if full != np+ns {
				nt = true
				c.Label("recomposes-across-cut")
			} else if clusters(np+ns) < clusters(np)+clusters(ns) {
				nt = true
				c.Label("cluster-spans-cut")
			}
		}
	}
	if nt {
		c.NonTrivial()
	}
	if classify {
		switch {
		case r == np:
			c.Label("kept-all")
		case r == "":
			c.Label("trimmed-all")
		default:
			c.Label("trimmed-some")
		}
	}
	return nil
}

// BuilderPrefixCase drives the safe prefix through the refinement builder.
type BuilderPrefixCase struct {
	P  string `json:"p"`
	S  string `json:"s"`
	S2 string `json:"s2"`
}

func tryValue(f func() cty.Value) (v cty.Value, perr string) {
	defer func() {
		if r := recover(); r != nil {
			perr = fmt.Sprint(r)
		}
	}()
	return f(), ""
}

func checkThroughBuilder(c *facet.Ctx, in BuilderPrefixCase) error {
	p, s, s2 := in.P, in.S, in.S2
	np := spec.NFC(p)
	full := spec.NFC(p + s)
	if full != np+spec.NFC(s) {
		c.NonTrivial()
		c.Label("recomposes-across-cut")
	} else if s != "" && p != "" && clusters(full) < clusters(np)+clusters(spec.NFC(s)) {
		c.NonTrivial()
		c.Label("cluster-spans-cut")
	}

	// 1. the safe constructor on an unknown string
	u, perr := tryValue(func() cty.Value { return cty.UnknownVal(cty.String).Refine().StringPrefix(p).NewValue() })
	if perr != "" {
		return facet.Failf("safe-prefix-panic", "StringPrefix(%+q) on an unknown string panicked: %s", p, perr)
	}
	if f := wf.Check(u); f != nil {
		return f
	}
	if u.IsKnown() || u.Type() != cty.String {
		return facet.Failf("prefix-result", "StringPrefix(%+q) on an unknown string returned %#v", p, u)
	}
	rec := u.Range().StringPrefix()
	if f := checkContinuations(c, p, rec, []string{s, s + s2, s2}, false); f != nil {
		return f
	}
	switch {
	case rec == np:
		c.Label("kept-all")
	case rec == "":
		c.Label("trimmed-all")
	default:
		c.Label("trimmed-some")
	}

	// 2. every string extending the prefix stays in the range
	for _, ext := range []string{p + s, p + s + s2, p} {
		cv := cty.StringVal(ext)
		inc, eq, perr := ask(u, cv)
		if perr != "" {
			return facet.Failf("membership-panic", "asking whether %+q is in the range of %#v panicked: %s", ext, u, perr)
		}
		if inc == "false" || eq == "false" {
			return facet.Failf("extension-excluded", "after StringPrefix(%+q) (recorded %+q) the string %+q, which extends the prefix, is excluded (Includes=%s Equals=%s)", p, rec, ext, inc, eq).With("reason", "continuation-unsafe")
		}
	}

	// 3. refining the known final string with the prefix it really has is a true assertion
	for _, ext := range []string{p + s, p + s + s2, p} {
		k := cty.StringVal(ext)
		got, perr := tryValue(func() cty.Value { return k.Refine().StringPrefix(p).NewValue() })
		if perr != "" {
			return facet.Failf("true-prefix-rejected", "the known string %+q extends %+q, but refining it with StringPrefix(%+q) panicked: %s", ext, p, p, perr).With("reason", "continuation-unsafe")
		}
		if !got.RawEquals(k) {
			return facet.Failf("known-value-changed", "refining the known string %+q returned %#v", ext, got)
		}
	}

	// 4. two true statements about the same final string never contradict each
	// other: the safe prefixes of p and of p+s are both prefixes of NFC(p+s+x).
	for _, order := range [][2]string{{p, p + s}, {p + s, p}} {
		v, perr := tryValue(func() cty.Value {
			return cty.UnknownVal(cty.String).Refine().StringPrefix(order[0]).StringPrefix(order[1]).NewValue()
		})
		if perr != "" {
			return facet.Failf("compatible-prefixes-rejected", "StringPrefix(%+q) then StringPrefix(%+q) describe the same strings but panicked: %s", order[0], order[1], perr).With("reason", "continuation-unsafe")
		}
		got := v.Range().StringPrefix()
		if !strings.HasPrefix(spec.NFC(p+s+s2), got) {
			return facet.Failf("continuation-unsafe", "StringPrefix(%+q).StringPrefix(%+q) recorded %+q, which is not a prefix of the normalised extension %+q", order[0], order[1], got, spec.NFC(p+s+s2)).With("reason", "continuation-unsafe")
		}
		if !strings.HasPrefix(got, rec) {
			return facet.Failf("range-widened", "adding StringPrefix(%+q) to StringPrefix(%+q) shortened the recorded prefix from %+q to %+q", p+s, p, rec, got)
		}
		w, perr := tryValue(func() cty.Value { return u.Refine().StringPrefix(p + s).NewValue() })
		if perr != "" {
			return facet.Failf("compatible-prefixes-rejected", "refining %#v with the extending StringPrefix(%+q) panicked: %s", u, p+s, perr).With("reason", "continuation-unsafe")
		}
		if w.Range().StringPrefix() != got && order[0] == p {
			return facet.Failf("chain-differs", "StringPrefix(%+q) then StringPrefix(%+q): one builder recorded %+q, two builders %+q", p, p+s, got, w.Range().StringPrefix())
		}
	}

	// 5. the full constructor records exactly the normalised prefix
	f, perr := tryValue(func() cty.Value { return cty.UnknownVal(cty.String).Refine().StringPrefixFull(p).NewValue() })
	if perr != "" {
		return facet.Failf("full-prefix-panic", "StringPrefixFull(%+q) on an unknown string panicked: %s", p, perr)
	}
	if got := f.Range().StringPrefix(); got != np {
		return facet.Failf("range-prefix", "StringPrefixFull(%+q) recorded %+q, expected the normalised prefix %+q", p, got, np).With("reason", "range-prefix")
	}
	return nil
}

func init() {
	facet.Register(facet.F[PrefixCase]{
		Prop: "C05", Name: "prefix/continuation",
		Rule:  "prefix p = a hostile string (combining marks, Hangul jamo, emoji modifiers, ZWJ, VS16, regional indicators, CR/LF, ASCII delimiters, table-scanned combining code points) cut at a code point boundary; continuations = the cut-off tail, 2-6 drawn ones and a fixed list of ~150 hostile continuation heads; oracle HasPrefix(NFC(p+s), SafeKnownPrefix(p)) for every s; non-trivial when for a drawn continuation NFC(p+s) != NFC(p)+NFC(s) or a grapheme cluster spans the cut; distinct = hash of (p, drawn continuations)",
		Quick: 40000, Thorough: 300000, Shards: 8,
		Gen: genPrefixCase,
		Check: func(c *facet.Ctx, in PrefixCase) error {
			r, f := safePrefix(in.P)
			if f != nil {
				return f
			}
			if f := checkContinuations(c, in.P, r, in.Conts, true); f != nil {
				return f
			}
			if f := checkContinuations(c, in.P, r, contHeads, false); f != nil {
				return f
			}
			return nil
		},
	})

	facet.Register(facet.F[BuilderPrefixCase]{
		Prop: "C05", Name: "prefix/through-builder",
		Rule:  "(p, s, s2) from the hostile alphabet with p|s a cut of one drawn string; StringPrefix(p) on an unknown string must keep StringVal(p+s), StringVal(p+s+s2), StringVal(p) in range (Includes / Equals not False), refining those known strings with StringPrefix(p) must not panic, StringPrefix(p) and StringPrefix(p+s) must be compatible in both orders, StringPrefixFull(p) records NFC(p); non-trivial when NFC(p+s) != NFC(p)+NFC(s) or a cluster spans the cut",
		Quick: 25000, Thorough: 150000, Shards: 8,
		Gen: func(t *rapid.T) BuilderPrefixCase {
			w := drawHostile(t, 1, 6)
			k := rapid.SampledFrom(cutPoints(w)).Draw(t, "cut")
			in := BuilderPrefixCase{P: w[:k], S: w[k:]}
			if rapid.Bool().Draw(t, "replaceS") {
				in.S = drawCont(t)
			}
			in.S2 = drawCont(t)
			return in
		},
		Check: checkThroughBuilder,
	})
}
