package c05

import (
	"encoding/json"

	"verif/harness/facet"
)

// Known-finding predicates. Each recognises one root cause and nothing else.

func init() {
	// An empty open interval (x, x): lower and upper bound tie and both are
	// exclusive. The model predicts a contradiction, the builder accepts.
	facet.RegisterKnown("c05OpenInterval", func(facetName string, raw json.RawMessage, f *facet.Failure) bool {
		return f.Kind == "accepted-contradiction" && f.Data["reason"] == "empty-open-interval"
	})
	// A prefix that has the known string as a proper prefix (it is longer than
	// the known string) is accepted when refining that known string.
	facet.RegisterKnown("c05PrefixLongerThanKnown", func(facetName string, raw json.RawMessage, f *facet.Failure) bool {
		return f.Kind == "accepted-contradiction" && f.Data["reason"] == "prefix-longer-than-known-string"
	})
}
