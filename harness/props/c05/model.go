package c05

// The refinement model. It is written from docs/refinements.md and the doc
// comments of RefinementBuilder / ValueRange, not from the implementation:
//
//   - a refinement only ever shrinks the range; a less specific statement is
//     ignored ("keep the tighter bound");
//   - numeric bounds are inclusive or exclusive; an unrefined number has the
//     bounds (-Inf, inclusive) and (+Inf, inclusive);
//   - a string prefix is stated in normalised (NFC) form; a new prefix must
//     agree with the old one, the longer of the two is kept;
//   - collection length bounds are inclusive integers, default 0 .. MaxInt;
//   - a statement that contradicts a known value or earlier statements is an
//     application bug and is rejected (the builder panics);
//   - refining a known value is a self-checking assertion and returns exactly
//     that value;
//   - DynamicVal ignores every refinement;
//   - NewValue may return a known value when only one value remains.
//
// Number comparisons use the tolerant order of DESIGN.md section 2.4: two numbers
// that are equal under cty's documented text-based equality but not
// numerically identical form an "ambiguous pair"; the model does not predict
// anything that depends on such a pair (that discrepancy is property C03's).

import (
	"math"
	"math/big"
	"strings"

	"verif/harness/model"
	"verif/harness/spec"
)

const (
	modeUnknown   = "unknown"
	modeKnown     = "known"
	modeKnownNull = "knownnull"
	modeDynamic   = "dynamic"
)

const (
	nullMaybe = 0
	nullYes   = 1
	nullNo    = 2
)

// prediction classes
const (
	pAccept  = "accept"
	pContra  = "contradiction"
	pWrong   = "wrongkind"
	pAbstain = "abstain"
	pIgnored = "ignored" // DynamicVal: the call has no effect and must not panic
)

type pred struct {
	class  string
	reason string
}

type mstate struct {
	ty   spec.T
	mode string

	// known mode
	kNum    *big.Float // known number
	kStr    string     // known string (NFC)
	kLen    int        // known collection length
	kElemsU bool       // known collection whose members are unknown (collapse result)
	kSpec   *spec.V    // the start value spec when the known value came from the input

	// unknown mode
	null         int
	lo, hi       *big.Float
	loInc, hiInc bool
	exNegInf     bool // the statement "x > -Inf" was made
	exPosInf     bool // the statement "x < +Inf" was made
	prefix       string
	minLen       int
	maxLen       int

	ambiguous bool // an ambiguous number pair was compared: stop predicting
}

func (m *mstate) clone() *mstate {
	c := *m
	return &c
}

func newModel(start spec.V) *mstate {
	m := &mstate{ty: start.T, maxLen: math.MaxInt}
	switch {
	case start.T.K == spec.KDynamic && start.St == spec.Unknown:
		m.mode = modeDynamic
	case start.St == spec.Unknown:
		m.mode = modeUnknown
	case start.St == spec.Null:
		m.mode = modeKnownNull
	default:
		m.mode = modeKnown
		s := start
		m.kSpec = &s
		switch {
		case start.T.K == spec.KNumber:
			m.kNum = start.N.Float()
		case start.T.K == spec.KString:
			m.kStr = spec.NFC(start.S)
		case start.T.IsColl():
			m.kLen = len(start.Elems) // generators keep set members distinct
		}
	}
	return m
}

// cmpA is the tolerant comparison; it flags ambiguous pairs: numbers with the
// same canonical decimal text that are not numerically identical (cty calls
// them equal, the order calls them different), and numerically identical
// non-integers of different precision whose canonical texts differ (the order
// calls them equal, cty's text-based equality does not). Both are the
// Equals-vs-Cmp discrepancy that property C03 owns.
func (m *mstate) cmpA(a, b *big.Float) int {
	c := a.Cmp(b)
	if (c == 0) != (model.NumText(a) == model.NumText(b)) {
		m.ambiguous = true
		return 0
	}
	return c
}

func isNegInf(f *big.Float) bool { return f.IsInf() && f.Sign() < 0 }
func isPosInf(f *big.Float) bool { return f.IsInf() && f.Sign() > 0 }

var (
	negInf = new(big.Float).SetInf(true)
	posInf = new(big.Float).SetInf(false)
)

// effective bounds of the number range (docs: an unrefined number has the
// bounds (-Inf, true) and (+Inf, true)).
func (m *mstate) effLo() (*big.Float, bool) {
	if m.lo != nil {
		return m.lo, m.loInc
	}
	return negInf, !m.exNegInf
}

func (m *mstate) effHi() (*big.Float, bool) {
	if m.hi != nil {
		return m.hi, m.hiInc
	}
	return posInf, !m.exPosInf
}

// numEmpty reports whether no number satisfies the stated bounds.
func (m *mstate) numEmpty() bool {
	lo, li := m.effLo()
	hi, hiI := m.effHi()
	c := m.cmpA(lo, hi)
	return c > 0 || (c == 0 && !(li && hiI))
}

// numSingle returns the single number admitted by the bounds, if any.
func (m *mstate) numSingle() (*big.Float, bool) {
	lo, li := m.effLo()
	hi, hiI := m.effHi()
	if m.cmpA(lo, hi) == 0 && li && hiI {
		return lo, true
	}
	return nil, false
}

// numAdmits reports whether the bounds admit x. ok=false when an ambiguous
// pair makes the answer undefined.
func (m *mstate) numAdmits(x *big.Float) (admit, ok bool) {
	t := &mstate{}
	if m.lo != nil {
		c := t.cmpA(x, m.lo)
		if t.ambiguous {
			return false, false
		}
		if c < 0 || (c == 0 && !m.loInc) {
			return false, true
		}
	} else if m.exNegInf && isNegInf(x) {
		return false, true
	}
	if m.hi != nil {
		c := t.cmpA(x, m.hi)
		if t.ambiguous {
			return false, false
		}
		if c > 0 || (c == 0 && !m.hiInc) {
			return false, true
		}
	} else if m.exPosInf && isPosInf(x) {
		return false, true
	}
	return true, true
}

func (m *mstate) kindOK(op string) bool {
	switch op {
	case opNotNull, opNull:
		return true
	case opLo, opHi, opRange:
		return m.ty.K == spec.KNumber
	case opPrefix, opPrefixFull:
		return m.ty.K == spec.KString
	case opLenLo, opLenHi, opLen:
		return m.ty.IsColl()
	}
	return false
}

// apply predicts the outcome of one builder call and, when it is accepted,
// updates the model. safePrefix is the prefix the safe constructor records for
// Step.S (only used by opPrefix).
func (m *mstate) apply(s Step, safePrefix string) pred {
	if m.mode == modeDynamic {
		return pred{pIgnored, "dynamic"}
	}
	typeSpecific := s.Op != opNotNull && s.Op != opNull
	if typeSpecific {
		// exclusions X of the design: type-specific refinements of a known null
		if m.mode == modeKnownNull && (m.ty.K == spec.KDynamic || m.kindOK(s.Op)) {
			return pred{pAbstain, "known-null-type-specific"}
		}
		if !m.kindOK(s.Op) {
			return pred{pWrong, "wrong-kind"}
		}
	}
	switch s.Op {
	case opNotNull:
		switch m.mode {
		case modeKnownNull:
			return pred{pContra, "notnull-on-known-null"}
		case modeKnown:
			return pred{pAccept, ""}
		}
		if m.null == nullYes {
			return pred{pContra, "notnull-after-null"}
		}
		m.null = nullNo
		return pred{pAccept, ""}
	case opNull:
		switch m.mode {
		case modeKnownNull:
			return pred{pAccept, ""}
		case modeKnown:
			return pred{pContra, "null-on-known-value"}
		}
		if m.null == nullNo {
			return pred{pContra, "null-after-notnull"}
		}
		m.null = nullYes
		return pred{pAccept, ""}
	case opLo:
		return m.bound(s.N.Float(), s.Inc, -1)
	case opHi:
		return m.bound(s.N.Float(), s.Inc, +1)
	case opRange:
		// NumberRangeInclusive(min, max): both inclusive; an unknown argument
		// means "that bound is not known" and has no effect.
		if s.N != nil {
			if p := m.bound(s.N.Float(), true, -1); p.class != pAccept {
				return p
			}
		}
		if s.M != nil {
			if p := m.bound(s.M.Float(), true, +1); p.class != pAccept {
				return p
			}
		}
		return pred{pAccept, ""}
	case opPrefixFull:
		return m.pfx(spec.NFC(s.S))
	case opPrefix:
		return m.pfx(safePrefix)
	case opLenLo:
		return m.length(s.L, -1)
	case opLenHi:
		return m.length(s.L, +1)
	case opLen:
		if p := m.length(s.L, -1); p.class != pAccept {
			return p
		}
		return m.length(s.L, +1)
	}
	panic("c05 model: bad op " + s.Op)
}

func (m *mstate) bound(x *big.Float, inc bool, side int) pred {
	if m.mode == modeKnown {
		c := m.cmpA(m.kNum, x)
		if m.ambiguous {
			return pred{pAbstain, "ambiguous-pair"}
		}
		ok := false
		if side < 0 {
			ok = c > 0 || (c == 0 && inc)
		} else {
			ok = c < 0 || (c == 0 && inc)
		}
		if ok {
			return pred{pAccept, ""}
		}
		if c == 0 {
			return pred{pContra, "known-number-excluded-by-exclusive-tie"}
		}
		return pred{pContra, "known-number-outside-bound"}
	}
	// unknown mode
	if side < 0 {
		if isNegInf(x) {
			// (-Inf, inclusive) is the unrefined bound: no constraint.
			if !inc {
				m.exNegInf = true
			}
		} else if m.lo == nil {
			m.lo, m.loInc = x, inc
		} else {
			c := m.cmpA(x, m.lo)
			if c > 0 || (c == 0 && m.loInc && !inc) {
				m.lo, m.loInc = x, inc
			}
		}
	} else {
		if isPosInf(x) {
			if !inc {
				m.exPosInf = true
			}
		} else if m.hi == nil {
			m.hi, m.hiInc = x, inc
		} else {
			c := m.cmpA(x, m.hi)
			if c < 0 || (c == 0 && m.hiInc && !inc) {
				m.hi, m.hiInc = x, inc
			}
		}
	}
	if m.ambiguous {
		return pred{pAbstain, "ambiguous-pair"}
	}
	if m.lo != nil && m.hi != nil {
		c := m.cmpA(m.lo, m.hi)
		if m.ambiguous {
			return pred{pAbstain, "ambiguous-pair"}
		}
		if c > 0 {
			return pred{pContra, "lower-above-upper"}
		}
		if c == 0 && !(m.loInc && m.hiInc) {
			if !m.loInc && !m.hiInc {
				return pred{pContra, "empty-open-interval"}
			}
			return pred{pContra, "empty-half-open-interval"}
		}
	}
	// Unsatisfiable only through an infinity (x > +Inf, x < -Inf, or an
	// excluded infinity as the only candidate): the documentation does not
	// spell these out as contradictions; nothing is asserted.
	if m.numEmpty() {
		return pred{pAbstain, "empty-through-infinity"}
	}
	if m.ambiguous {
		return pred{pAbstain, "ambiguous-pair"}
	}
	return pred{pAccept, ""}
}

func (m *mstate) pfx(q string) pred {
	if m.mode == modeKnown {
		if strings.HasPrefix(m.kStr, q) {
			return pred{pAccept, ""}
		}
		if strings.HasPrefix(q, m.kStr) {
			return pred{pContra, "prefix-longer-than-known-string"}
		}
		return pred{pContra, "prefix-differs-from-known-string"}
	}
	switch {
	case strings.HasPrefix(q, m.prefix):
		m.prefix = q
	case strings.HasPrefix(m.prefix, q):
		// less specific: ignored
	default:
		return pred{pContra, "prefix-conflicts-with-earlier-prefix"}
	}
	return pred{pAccept, ""}
}

func (m *mstate) length(n int, side int) pred {
	if m.mode == modeKnown {
		if side < 0 && n > m.kLen {
			return pred{pContra, "length-lower-bound-above-known-length"}
		}
		if side > 0 && n < m.kLen {
			return pred{pContra, "length-upper-bound-below-known-length"}
		}
		return pred{pAccept, ""}
	}
	if side < 0 {
		if n > m.minLen {
			m.minLen = n
		}
	} else {
		if n < m.maxLen {
			m.maxLen = n
		}
	}
	if m.minLen > m.maxLen {
		return pred{pContra, "length-bounds-cross"}
	}
	return pred{pAccept, ""}
}
