package c10

import (
	"sort"

	"pgregory.net/rapid"

	"verif/harness/gen"
	"verif/harness/spec"
)

// slot classes (labels of how an argument was generated; the model never reads them)
const (
	cConf       = "conf"
	cNonConf    = "nonconf"
	cNull       = "null"
	cUnknown    = "unknown"
	cDynVal     = "dynval"
	cDynNull    = "dynnull"
	cDeepMarked = "deepmarked"
	cMarkedUnk  = "markedunk"
	cMarkedDyn  = "markeddyn"
	cMarkedNull = "markednull"
	cNestedUnk  = "nestedunk"
	cNonConfUnk = "nonconf-unk"
	cNonConfMk  = "nonconf-marked"
	cNonConfNul = "nonconf-null"
)

var allClasses = []string{cConf, cNonConf, cNull, cUnknown, cDynVal, cDynNull, cDeepMarked, cMarkedUnk, cMarkedDyn, cMarkedNull, cNestedUnk, cNonConfUnk, cNonConfMk, cNonConfNul}

// acceptable reports whether an argument of the class passes a parameter with
// these flags all the way to Impl (used only to steer generation).
func acceptable(p Param, class string) bool {
	switch class {
	case cConf, cDeepMarked, cNestedUnk:
		return true
	case cNull, cMarkedNull:
		return p.Null
	case cUnknown, cMarkedUnk:
		return p.Unk
	case cDynVal, cMarkedDyn:
		return p.Dyn && p.Unk
	case cDynNull:
		return p.Dyn && p.Null
	}
	return false
}

// noErr reports whether an argument of the class avoids an argument error
// (it may still short-circuit the call to an unknown).
func noErr(p Param, class string) bool {
	switch class {
	case cConf, cDeepMarked, cNestedUnk, cUnknown, cMarkedUnk, cDynVal, cMarkedDyn:
		return true
	case cNull, cMarkedNull, cDynNull:
		return p.Null
	}
	return false
}

var paramPool = []spec.T{
	spec.String, spec.Number, spec.Bool, spec.Dynamic, spec.String, spec.Dynamic,
	spec.List(spec.String), spec.List(spec.Dynamic), spec.Map(spec.Number), spec.Set(spec.String),
	spec.Tuple(spec.String, spec.Dynamic), spec.Object(spec.Attr{Name: "a", T: spec.String}),
	spec.Object(spec.Attr{Name: "a", T: spec.Dynamic}, spec.Attr{Name: "b", T: spec.List(spec.Number)}),
	spec.CapsuleT("A"), spec.List(spec.Object(spec.Attr{Name: "a", T: spec.String})), spec.Map(spec.Dynamic),
}

var concretePool = []spec.T{spec.String, spec.Number, spec.Bool, spec.List(spec.String), spec.Tuple(spec.Number, spec.String),
	spec.Object(spec.Attr{Name: "a", T: spec.String}), spec.Tuple(), spec.Map(spec.Number)}

var typeOpts = gen.TypeOpts{Depth: 2, Dynamic: true, Capsule: true}

func genParamType(t *rapid.T, deep bool) spec.T {
	n := 3
	if deep {
		n = 1
	}
	if rapid.IntRange(0, n).Draw(t, "pooltype") != 0 {
		return rapid.SampledFrom(paramPool).Draw(t, "ptype")
	}
	return gen.Type(typeOpts).Draw(t, "ptype")
}

// uniformBits draws n fair coin flips. rapid's integer generators are biased
// towards small values (genUintNBiased), which would distort percentages and
// weights; single bits are not biased.
func uniformBits(t *rapid.T, label string, n int) int {
	v := 0
	for i := 0; i < n; i++ {
		v <<= 1
		if rapid.Bool().Draw(t, label) {
			v |= 1
		}
	}
	return v
}

// chance is true with probability pct/100 (resolution 1/128).
func chance(t *rapid.T, label string, pct int) bool {
	if pct <= 0 {
		return false
	}
	if pct >= 100 {
		return true
	}
	return uniformBits(t, label, 7)*100 < pct*128
}

func weighted(t *rapid.T, label string, names []string, w map[string]int) string {
	total := 0
	for _, n := range names {
		total += w[n]
	}
	if total == 0 {
		return names[0]
	}
	x := uniformBits(t, label, 10) * total / 1024
	for _, n := range names {
		if x < w[n] {
			return n
		}
		x -= w[n]
	}
	return names[len(names)-1]
}

// cfg steers the case generator of one facet.
type cfg struct {
	minParams, maxParams int
	varPct               int // probability (percent) of a variadic parameter
	wrongArityPct        int
	maxTail              int
	classW               map[string]int
	fitPct               int    // probability that a slot is drawn only among classes its flags accept
	flagPct              int    // probability of each Allow* flag
	flagPcts             [4]int // per-flag override: null, unk, dyn, marked
	fitNoErr             bool   // "fit" means: no argument error (unknown / dynamic short-circuits are welcome)
	typeW, implW         map[string]int
	refinePct            int
	deepTypes            bool
}

var defaultClassW = map[string]int{cConf: 30, cNonConf: 5, cNull: 7, cUnknown: 8, cDynVal: 6, cDynNull: 3, cDeepMarked: 12, cMarkedUnk: 5,
	cMarkedDyn: 3, cMarkedNull: 2, cNestedUnk: 5, cNonConfUnk: 2, cNonConfMk: 2, cNonConfNul: 1}
var defaultTypeW = map[string]int{TStatic: 8, TArgType: 4, TValDep: 2, TDynamic: 2, TError: 1, TPanic: 1}
var defaultImplW = map[string]int{IConform: 8, IUnknown: 2, IError: 1, IPanic: 1, INonConform: 3}

var multiCfg = cfg{minParams: 0, maxParams: 3, varPct: 40, wrongArityPct: 8, maxTail: 3, classW: defaultClassW, fitPct: 60, flagPct: 50,
	typeW: defaultTypeW, implW: defaultImplW, refinePct: 30}

func genParam(t *rapid.T, g cfg, label string) Param {
	p := Param{T: genParamType(t, g.deepTypes)}
	pc := g.flagPcts
	if pc == [4]int{} {
		pc = [4]int{g.flagPct, g.flagPct, g.flagPct, g.flagPct}
	}
	p.Null, p.Unk, p.Dyn, p.Marked = chance(t, label+"null", pc[0]), chance(t, label+"unk", pc[1]), chance(t, label+"dyn", pc[2]), chance(t, label+"marked", pc[3])
	return p
}

// ---- value helpers

var vopts = gen.ValOpts{Null: true, Unknown: true, Simple: true, MaxElems: 2, RootKnown: true, NoInf: true}

// concrete replaces a dynamic placeholder at the root by a concrete type.
func concrete(t *rapid.T, ty spec.T) spec.T {
	if ty.K == spec.KDynamic {
		return rapid.SampledFrom(concretePool).Draw(t, "concrete")
	}
	return ty
}

// nonConfType draws a type that does not conform to ty (false when ty is dynamic).
func nonConfType(t *rapid.T, ty spec.T) (spec.T, bool) {
	if ty.K == spec.KDynamic {
		return spec.T{}, false
	}
	for i := 0; i < 4; i++ {
		m, _ := gen.MutateType(t, ty, gen.TypeOpts{Depth: 1, Capsule: true})
		m = instantiate(m)
		if !m.Conforms(ty) {
			return m, true
		}
	}
	for _, c := range grossWrong {
		if !c.Conforms(ty) {
			return c, true
		}
	}
	return spec.T{}, false
}

// paths of all nodes of a value spec (root = empty path)
func nodePaths(v spec.V, cur []int, out *[][]int) {
	*out = append(*out, append([]int(nil), cur...))
	for i, e := range v.Elems {
		nodePaths(e, append(cur, i), out)
	}
}

func editAt(v spec.V, path []int, fn func(spec.V) spec.V) spec.V {
	if len(path) == 0 {
		return fn(v)
	}
	out := v
	out.Elems = append([]spec.V(nil), v.Elems...)
	out.Elems[path[0]] = editAt(v.Elems[path[0]], path[1:], fn)
	return out
}

func addMark(v spec.V, m string) spec.V {
	for _, x := range v.Marks {
		if x == m {
			return v
		}
	}
	v.Marks = append(append([]string(nil), v.Marks...), m)
	sort.Strings(v.Marks)
	return v
}

var markNames = []string{"m1", "m2", "m3"}

// forceMarks puts 1..3 marks on random nodes (nested nodes preferred).
func forceMarks(t *rapid.T, v spec.V) spec.V {
	var ps [][]int
	nodePaths(v, nil, &ps)
	n := rapid.IntRange(1, 3).Draw(t, "nmarks")
	for i := 0; i < n; i++ {
		var p []int
		if len(ps) > 1 && rapid.IntRange(0, 3).Draw(t, "nested") != 0 {
			p = ps[rapid.IntRange(1, len(ps)-1).Draw(t, "markpath")]
		} else {
			p = ps[0]
		}
		m := rapid.SampledFrom(markNames).Draw(t, "mark")
		v = editAt(v, p, func(x spec.V) spec.V { return addMark(x, m) })
	}
	return v
}

// forceNestedUnknown replaces one non-root node by an unknown of its type.
func forceNestedUnknown(t *rapid.T, v spec.V) spec.V {
	var ps [][]int
	nodePaths(v, nil, &ps)
	if len(ps) < 2 {
		return v
	}
	p := ps[rapid.IntRange(1, len(ps)-1).Draw(t, "unkpath")]
	return editAt(v, p, func(x spec.V) spec.V {
		u := spec.UnknownOf(x.T)
		u.Marks = x.Marks
		return u
	})
}

func genUnknown(t *rapid.T, ty spec.T) spec.V {
	u := spec.UnknownOf(ty)
	if ty.K != spec.KDynamic && rapid.IntRange(0, 3).Draw(t, "refinedarg") == 0 {
		u.Ref = &spec.Ref{Null: "notnull"}
	}
	return u
}

// genArg draws an argument of the given slot class for parameter p. The class
// actually produced is returned (a class that is impossible for the parameter
// type degrades to cConf).
func genArg(t *rapid.T, p Param, class string) Arg {
	conf := func() spec.V { return gen.Value(p.T, vopts).Draw(t, "conf") }
	var v spec.V
	switch class {
	case cConf:
		v = conf()
	case cNonConf, cNonConfMk, cNonConfUnk, cNonConfNul:
		if p.T.K != spec.KDynamic && !isLeafType(p.T) && rapid.IntRange(0, 3).Draw(t, "dynhole") == 0 {
			// the parameter type with a placeholder somewhere below the top:
			// a placeholder in the GIVEN type is not a wildcard, so this does
			// not conform although every concrete part matches
			if wt, ok := dynHole(t, p.T); ok && !wt.Conforms(p.T) {
				switch class {
				case cNonConfUnk:
					v = spec.UnknownOf(wt)
				case cNonConfNul:
					v = spec.NullOf(wt)
				default:
					v = holeValue(t, wt)
					if class == cNonConfMk {
						v = forceMarks(t, v)
					}
				}
				if !v.T.Conforms(p.T) {
					return Arg{Class: class, V: v}
				}
			}
		}
		wt, ok := nonConfType(t, p.T)
		if !ok {
			class = cConf
			v = conf()
			break
		}
		switch class {
		case cNonConfUnk:
			v = spec.UnknownOf(wt)
		case cNonConfNul:
			v = spec.NullOf(wt)
		default:
			v = gen.Value(wt, vopts).Draw(t, "nonconf")
			if class == cNonConfMk {
				v = forceMarks(t, v)
			}
			if v.T.Conforms(p.T) {
				class = cConf
				if v.HasMarks() {
					class = cDeepMarked
				}
			}
		}
	case cNull:
		v = spec.NullOf(concrete(t, p.T))
	case cMarkedNull:
		v = forceMarks(t, spec.NullOf(concrete(t, p.T)))
	case cUnknown:
		v = genUnknown(t, concrete(t, p.T))
	case cMarkedUnk:
		v = forceMarks(t, genUnknown(t, concrete(t, p.T)))
	case cDynVal:
		v = spec.DynamicVal()
	case cMarkedDyn:
		v = forceMarks(t, spec.DynamicVal())
	case cDynNull:
		v = spec.NullOf(spec.Dynamic)
		if rapid.IntRange(0, 3).Draw(t, "dynnullmarked") == 0 {
			v = forceMarks(t, v)
		}
	case cDeepMarked:
		v = forceMarks(t, conf())
	case cNestedUnk:
		v = forceNestedUnknown(t, conf()).Retype()
	default:
		class = cConf
		v = conf()
	}
	return Arg{Class: class, V: v}
}

// genResult draws the value a conforming Impl returns and a declared
// refinement consistent with it.
func genResult(t *rapid.T, ret spec.T, typeSpecific bool, refinePct int) (*spec.V, *spec.Ref) {
	ro := gen.ValOpts{Null: true, Unknown: true, Marks: rapid.IntRange(0, 3).Draw(t, "resmarks") == 0, Simple: true, MaxElems: 2, RootKnown: true, NoInf: true}
	v := gen.Value(ret, ro).Draw(t, "result")
	if rapid.IntRange(0, 19).Draw(t, "nullresult") == 0 {
		n := spec.NullOf(concrete(t, ret))
		return &n, nil
	}
	if !chance(t, "hasrefine", refinePct) {
		return &v, nil
	}
	r := &spec.Ref{}
	if rapid.IntRange(0, 3).Draw(t, "notnull") != 0 {
		r.Null = "notnull"
	}
	if typeSpecific && v.St == spec.Known {
		switch v.T.K {
		case spec.KNumber:
			x := v.N.Float()
			if !x.IsInf() {
				if rapid.Bool().Draw(t, "haslo") {
					f, _ := x.Int64()
					lo := spec.NInt(f - int64(rapid.IntRange(0, 3).Draw(t, "lod")) - 1)
					r.Lo, r.LoInc = &lo, rapid.Bool().Draw(t, "loinc")
				}
				if rapid.Bool().Draw(t, "hashi") {
					f, _ := x.Int64()
					hi := spec.NInt(f + int64(rapid.IntRange(0, 3).Draw(t, "hid")) + 1)
					r.Hi, r.HiInc = &hi, rapid.Bool().Draw(t, "hiinc")
				}
				if rapid.IntRange(0, 9).Draw(t, "exact") == 0 {
					// the tightest refinement: [x, x], which collapses an unknown to x
					n := *v.N
					r.Lo, r.LoInc, r.Hi, r.HiInc = &n, true, &n, true
				}
			}
		case spec.KString:
			if rapid.Bool().Draw(t, "hasprefix") {
				s := spec.NFC(v.S)
				cuts := []int{0, len(s)}
				for i := range s {
					cuts = append(cuts, i)
				}
				p := s[:rapid.SampledFrom(cuts).Draw(t, "cut")]
				r.Prefix, r.PrefixFull = &p, rapid.Bool().Draw(t, "full")
			}
		case spec.KList, spec.KMap, spec.KSet:
			n := len(v.Elems)
			if rapid.Bool().Draw(t, "hasmin") {
				lo := rapid.IntRange(0, n).Draw(t, "minlen")
				if v.T.K == spec.KSet && lo > 1 {
					lo = 1 // members of a set spec may coalesce
				}
				r.MinLen = &lo
			}
			if rapid.Bool().Draw(t, "hasmax") {
				hi := n + rapid.IntRange(0, 2).Draw(t, "maxlen")
				r.MaxLen = &hi
			}
		}
	}
	if *r == (spec.Ref{}) {
		return &v, nil
	}
	return &v, r
}

// genCase draws a complete case.
func genCase(t *rapid.T, g cfg) Case {
	var f Func
	n := rapid.IntRange(g.minParams, g.maxParams).Draw(t, "nparams")
	for i := 0; i < n; i++ {
		f.Params = append(f.Params, genParam(t, g, "p"))
	}
	if chance(t, "hasvar", g.varPct) {
		p := genParam(t, g, "v")
		f.Var = &p
	}
	f.TypeB = weighted(t, "typeb", typeBehaviours, g.typeW)
	f.ImplB = weighted(t, "implb", implBehaviours, g.implW)
	f.ImplVar = rapid.IntRange(0, 34).Draw(t, "implvar")
	f.Ret = genParamType(t, false)

	// number of arguments
	nargs := n
	if f.Var != nil {
		nargs = n + rapid.IntRange(0, g.maxTail).Draw(t, "tail")
		if rapid.IntRange(0, 19).Draw(t, "longtail") == 10 {
			// a long variadic tail (the middle of a rapid range: about 3 % of the cases)
			nargs = n + rapid.SampledFrom(gen.LongSizes[:10]).Draw(t, "longn")
		}
	}
	if chance(t, "wrongarity", g.wrongArityPct) {
		if f.Var != nil {
			if n > 0 {
				nargs = rapid.IntRange(0, n-1).Draw(t, "few")
			}
		} else {
			nargs = n + rapid.SampledFrom([]int{-2, -1, 1, 2, 3}).Draw(t, "aritydelta")
			if nargs < 0 {
				nargs = n + 1
			}
		}
	}
	if f.TypeB == TArgType {
		hi := nargs
		if hi > 0 && rapid.IntRange(0, 9).Draw(t, "kin") != 0 {
			hi--
		}
		f.TypeK = rapid.IntRange(0, hi).Draw(t, "typek")
	}
	typeSpecific := f.TypeB != TArgType
	f.Result, f.Refine = genResult(t, f.Ret, typeSpecific, g.refinePct)

	var args []Arg
	for i := 0; i < nargs; i++ {
		p, ok := f.param(i)
		if !ok {
			// surplus argument of a non-variadic function: any value
			p = Param{T: spec.Dynamic}
		}
		names := allClasses
		if chance(t, "fit", g.fitPct) {
			names = nil
			for _, c := range allClasses {
				if (g.fitNoErr && noErr(p, c)) || (!g.fitNoErr && acceptable(p, c)) {
					names = append(names, c)
				}
			}
		}
		args = append(args, genArg(t, p, weighted(t, "class", names, g.classW)))
	}
	return Case{F: f, Args: args}
}

func isLeafType(ty spec.T) bool {
	switch ty.K {
	case spec.KList, spec.KSet, spec.KMap:
		return false
	case spec.KTuple:
		return len(ty.Elems) == 0
	case spec.KObject:
		return len(ty.Attrs) == 0
	}
	return true
}

// dynHole replaces one position below the top of ty by the dynamic placeholder.
func dynHole(t *rapid.T, ty spec.T) (spec.T, bool) {
	var rec func(ty spec.T, root bool) spec.T
	rec = func(ty spec.T, root bool) spec.T {
		if !root && (isLeafType(ty) || rapid.IntRange(0, 1).Draw(t, "holehere") == 0) {
			return spec.Dynamic
		}
		switch ty.K {
		case spec.KList, spec.KSet, spec.KMap:
			e := rec(*ty.E, false)
			return spec.T{K: ty.K, E: &e}
		case spec.KTuple:
			i := rapid.IntRange(0, len(ty.Elems)-1).Draw(t, "holeidx")
			es := append([]spec.T(nil), ty.Elems...)
			es[i] = rec(es[i], false)
			return spec.T{K: spec.KTuple, Elems: es}
		case spec.KObject:
			i := rapid.IntRange(0, len(ty.Attrs)-1).Draw(t, "holeidx")
			as := append([]spec.Attr(nil), ty.Attrs...)
			as[i] = spec.Attr{Name: as[i].Name, T: rec(as[i].T, false)}
			return spec.T{K: spec.KObject, Attrs: as}
		}
		return ty
	}
	if isLeafType(ty) {
		return ty, false
	}
	return rec(ty, true), true
}

// holeValue builds a known value whose own type is wt, placeholders included:
// empty collections of placeholder element type, DynamicVal or a null of the
// placeholder type as tuple / object members.
func holeValue(t *rapid.T, wt spec.T) spec.V {
	if !wt.HasDynamic() {
		return gen.Value(wt, gen.ValOpts{Simple: true, MaxElems: 2, RootKnown: true, NoInf: true}).Draw(t, "holeconf")
	}
	switch wt.K {
	case spec.KDynamic:
		if rapid.Bool().Draw(t, "holenull") {
			return spec.NullOf(spec.Dynamic)
		}
		return spec.DynamicVal()
	case spec.KList, spec.KSet, spec.KMap:
		v := spec.V{T: wt, St: spec.Known}
		if wt.E.K != spec.KDynamic && wt.K != spec.KSet && rapid.Bool().Draw(t, "holemember") {
			m := holeValue(t, *wt.E)
			if m.T.Equal(*wt.E) {
				v.Elems = []spec.V{m}
				if wt.K == spec.KMap {
					v.Keys = []string{"k"}
				}
			}
		}
		return v
	case spec.KTuple:
		v := spec.V{T: wt, St: spec.Known}
		for _, et := range wt.Elems {
			v.Elems = append(v.Elems, holeValue(t, et))
		}
		return v.Retype()
	case spec.KObject:
		v := spec.V{T: wt, St: spec.Known}
		for _, a := range wt.Attrs {
			v.Keys = append(v.Keys, a.Name)
			v.Elems = append(v.Elems, holeValue(t, a.T))
		}
		return v.Retype()
	}
	return spec.NullOf(wt)
}
