package c10

import (
	"fmt"

	"github.com/zclconf/go-cty/cty"
	"github.com/zclconf/go-cty/cty/function"

	"verif/harness/facet"
	"verif/harness/spec"
)

// focus selects which entry points a facet exercises besides Call.
type focus struct {
	rtfv   bool // ReturnTypeForValues on the same arguments
	rtype  bool // ReturnType on the argument types
	unpred bool // function.Unpredictable wrapper
}

var everything = focus{rtfv: true, rtype: true, unpred: true}

// info is what the facets use to classify a case.
type info struct {
	pl       *plan
	call     string // outcome label of Call
	implRan  bool
	typeRan  bool
	short    bool // Call short-circuited to an unknown (dynamic or unknown argument)
	typedVal bool // Call returned a value whose type is not the bare dynamic placeholder
	classes  map[string]bool
	deepArg  bool // some argument has nesting depth >= 1
	tail     int  // number of variadic arguments
}

func validBehaviour(s string, set []string) bool {
	for _, x := range set {
		if x == s {
			return true
		}
	}
	return false
}

// runCase is the check shared by all C10 facets.
func runCase(c *facet.Ctx, in Case, fo focus) (*info, error) {
	f := in.F
	if !validBehaviour(f.TypeB, typeBehaviours) || !validBehaviour(f.ImplB, implBehaviours) || f.TypeK < 0 || f.ImplVar < 0 {
		c.Skip()
		return nil, nil
	}
	inf := &info{classes: map[string]bool{}}
	specs := make([]spec.V, len(in.Args))
	built := make([]cty.Value, len(in.Args))
	for i, a := range in.Args {
		v, err := spec.Build(a.V)
		if err != nil {
			c.Skip()
			return nil, nil
		}
		if !spec.FromCty(v.Type()).Equal(a.V.T) {
			// the spec does not describe the value it builds: not a usable model
			c.Skip()
			return nil, nil
		}
		specs[i], built[i] = a.V, v
		inf.classes[a.Class] = true
		if a.V.Depth() >= 1 {
			inf.deepArg = true
		}
	}
	if len(in.Args) > len(f.Params) && f.Var != nil {
		inf.tail = len(in.Args) - len(f.Params)
	}
	var resultVal cty.Value
	{
		rs := canonSpec(f.Ret)
		if f.Result != nil {
			rs = *f.Result
		}
		v, err := spec.Build(rs)
		if err != nil || !spec.FromCty(v.Type()).Equal(rs.T) || !rs.T.Conforms(f.Ret) {
			c.Skip()
			return nil, nil
		}
		resultVal = v
	}
	pl, err := makePlan(f, specs, built, resultVal)
	if err != nil {
		c.Skip()
		return nil, nil
	}
	inf.pl = pl
	// An inconsistent RefineResult is a documented author error (it panics by
	// design); such a case is outside the property's domain.
	if f.Refine != nil && pl.arityOK && pl.typeOutcome == "ok" {
		if pl.impl.outcome == "value" {
			if _, ok := applyRefine(f.Refine, strip(pl.impl.ret)); !ok {
				c.Skip()
				return nil, nil
			}
		}
		if _, ok := applyRefine(f.Refine, cty.UnknownVal(pl.Rcty)); !ok {
			c.Skip()
			return nil, nil
		}
	}
	implFn := func(args []cty.Value, retType cty.Type) implPlan {
		if pl.impl.outcome == "" {
			// Impl is not supposed to run at all; answer harmlessly so that the
			// violation is reported as such
			return implPlan{outcome: "value", ret: cty.UnknownVal(retType)}
		}
		return pl.impl
	}
	c.Label("typeb=" + f.TypeB)
	c.Label("implb=" + f.ImplB)
	if pl.nonconfImpossible {
		c.Label("nonconforming-impossible")
	}

	// ---- Call
	{
		rec := &recorder{}
		fn := f.build(rec, implFn)
		var r callResult
		args := append([]cty.Value(nil), built...)
		r.pan = safely(func() { r.val, r.err = fn.Call(args) })
		label, fl := judgeCall(pl, f, rec, "Call", r, false)
		if fl != nil {
			return inf, fl
		}
		for i := range args {
			if !args[i].RawEquals(built[i]) {
				return inf, facet.Failf("args-mutated", "Call rewrote the caller's argument slice at %d", i)
			}
		}
		inf.call = label
		c.Label("call=" + label)
		types, impls := rec.split()
		inf.implRan, inf.typeRan = len(impls) > 0, len(types) > 0
		inf.short = label == "unknown-shortcircuit" || label == "dynamic" || label == "dynamic+type-invoked"
		if r.err == nil && r.val != cty.NilVal && r.val.Type() != cty.DynamicPseudoType {
			inf.typedVal = true
		}

		// ---- ReturnTypeForValues on the same arguments, and agreement with Call
		if fo.rtfv {
			rec2 := &recorder{}
			fn2 := f.build(rec2, implFn)
			var r2 callResult
			r2.pan = safely(func() { r2.ty, r2.err = fn2.ReturnTypeForValues(append([]cty.Value(nil), built...)) })
			l2, fl := judgeType(pl, f, rec2, "ReturnTypeForValues", r2)
			if fl != nil {
				return inf, fl
			}
			c.Label("rtfv=" + l2)
			if fl := agree(r, impls, r2); fl != nil {
				return inf, fl
			}
		}
	}

	// ---- ReturnType on the argument types
	if fo.rtype {
		uspecs := make([]spec.V, len(specs))
		ubuilt := make([]cty.Value, len(specs))
		tys := make([]cty.Type, len(specs))
		for i, s := range specs {
			uspecs[i] = spec.UnknownOf(s.T)
			tys[i] = built[i].Type()
			ubuilt[i] = cty.UnknownVal(s.T.Cty())
		}
		pl3, err := makePlan(f, uspecs, ubuilt, resultVal)
		if err == nil {
			rec3 := &recorder{}
			fn3 := f.build(rec3, implFn)
			var r3 callResult
			r3.pan = safely(func() { r3.ty, r3.err = fn3.ReturnType(tys) })
			l3, fl := judgeType(pl3, f, rec3, "ReturnType", r3)
			if fl != nil {
				return inf, fl
			}
			c.Label("rtype=" + l3)
		}
	}

	// ---- function.Unpredictable
	if fo.unpred {
		rec4 := &recorder{}
		var up function.Function
		if pan := safely(func() { up = function.Unpredictable(f.build(rec4, implFn)) }); pan != nil {
			return inf, facet.Failf("go-panic", "function.Unpredictable panicked: %v", pan)
		}
		var r4 callResult
		r4.pan = safely(func() { r4.val, r4.err = up.Call(append([]cty.Value(nil), built...)) })
		l4, fl := judgeCall(pl, f, rec4, "Unpredictable(f).Call", r4, true)
		if fl != nil {
			return inf, fl
		}
		c.Label("unpred=" + l4)
	}
	return inf, nil
}

// agree is the metamorphic relation between Call and ReturnTypeForValues on
// the same arguments (both callbacks are deterministic).
func agree(call callResult, impls []event, rt callResult) *facet.Failure {
	if rt.err != nil {
		if call.err == nil {
			return facet.Failf("returntype-disagree", "ReturnTypeForValues fails with %s but Call succeeds with %#v", describeErr(rt.err), call.val)
		}
		ae1, ok1 := asArgError(call.err)
		ae2, ok2 := asArgError(rt.err)
		_, p1 := asPanicError(call.err)
		_, p2 := asPanicError(rt.err)
		if ok1 != ok2 || (ok1 && ae1.Index != ae2.Index) || p1 != p2 {
			return facet.Failf("returntype-disagree", "ReturnTypeForValues fails with %s but Call fails with %s", describeErr(rt.err), describeErr(call.err))
		}
		return nil
	}
	for _, ie := range impls {
		if !ie.retType.Equals(rt.ty) {
			return facet.Failf("returntype-disagree", "ReturnTypeForValues says %#v but Impl was given retType %#v", rt.ty, ie.retType)
		}
	}
	if call.err == nil && call.val != cty.NilVal {
		if !spec.FromCty(call.val.Type()).Conforms(spec.FromCty(rt.ty)) {
			return facet.Failf("returntype-disagree", "Call returned a value of type %#v, ReturnTypeForValues predicted %#v", call.val.Type(), rt.ty)
		}
		if !strip(call.val).IsKnown() && len(impls) == 0 && !call.val.Type().Equals(rt.ty) {
			return facet.Failf("returntype-disagree", "Call short-circuited to an unknown of type %#v, ReturnTypeForValues predicted %#v", call.val.Type(), rt.ty)
		}
	}
	if len(impls) == 0 && call.err != nil {
		// the call failed before Impl: the failure belongs to the type-check phase
		return facet.Failf("returntype-disagree", "Call fails with %s before running Impl but ReturnTypeForValues succeeds with %#v", describeErr(call.err), rt.ty)
	}
	return nil
}

func describeCase(in Case) string {
	s := ""
	for _, p := range in.F.Params {
		s += fmt.Sprintf("%s[%s] ", p.T, p.flags())
	}
	if in.F.Var != nil {
		s += fmt.Sprintf("...%s[%s]", in.F.Var.T, in.F.Var.flags())
	}
	return s
}
