package c10

import (
	"fmt"

	"github.com/zclconf/go-cty/cty"

	"verif/harness/spec"
)

// plan is the protocol model's prediction for one (function spec, argument
// list) pair. It is computed from the specs only (DESIGN.md section 5, C10,
// "Model precisely"); cty is used to build values, never to decide.
type plan struct {
	arityOK bool
	E       []int // null with AllowNull off, or non-dynamic type that does not conform
	Dn      []int // dynamically typed with AllowDynamicType off
	U       []int // unknown with AllowUnknown off
	inE     map[int]bool
	causeE  map[int]string  // "null" | "conformance"
	cbArgs  []cty.Value     // what both callbacks must receive
	M       map[string]bool // every mark (deep) of the arguments whose parameter is not AllowMarked
	all     map[string]bool // every mark of every argument

	typeOutcome string // "ok" | "error" | "panic" (meaningful when E, Dn empty)
	R           spec.T // the type the Type callback returns when it succeeds
	Rcty        cty.Type

	impl              implPlan // what the Impl spy will do if it runs
	nonconfImpossible bool     // "nonconforming" requested but every value conforms to R
}

func (f Func) modelType(args []spec.V) spec.T {
	switch f.TypeB {
	case TDynamic:
		return spec.Dynamic
	case TArgType:
		if f.TypeK < len(args) {
			return args[f.TypeK].T
		}
		return f.Ret
	case TValDep:
		for _, a := range args {
			if a.St == spec.Unknown {
				return spec.Dynamic
			}
		}
		return f.Ret
	}
	return f.Ret
}

// makePlan computes the model. built[i] is the cty value of args[i] (built by
// the caller so that a spec that cannot be built is skipped in one place).
func makePlan(f Func, args []spec.V, built []cty.Value, resultVal cty.Value) (*plan, error) {
	pl := &plan{inE: map[int]bool{}, causeE: map[int]string{}, M: map[string]bool{}, all: map[string]bool{}}
	n := len(f.Params)
	if f.Var == nil {
		pl.arityOK = len(args) == n
	} else {
		pl.arityOK = len(args) >= n
	}
	if !pl.arityOK {
		return pl, nil
	}
	for i, a := range args {
		p, _ := f.param(i)
		dyn := a.T.K == spec.KDynamic
		switch {
		case a.St == spec.Null && !p.Null:
			pl.E = append(pl.E, i)
			pl.inE[i] = true
			pl.causeE[i] = "null"
		case !dyn && !a.T.Conforms(p.T):
			pl.E = append(pl.E, i)
			pl.inE[i] = true
			pl.causeE[i] = "conformance"
		}
		if dyn && !p.Dyn {
			pl.Dn = append(pl.Dn, i)
		}
		if a.St == spec.Unknown && !p.Unk {
			pl.U = append(pl.U, i)
		}
		for m := range a.DeepMarks() {
			pl.all[m] = true
			if !p.Marked {
				pl.M[m] = true
			}
		}
		if p.Marked || !a.HasMarks() {
			pl.cbArgs = append(pl.cbArgs, built[i])
		} else {
			s, err := spec.Build(a.StripMarks())
			if err != nil {
				return nil, err
			}
			pl.cbArgs = append(pl.cbArgs, s)
		}
	}
	switch f.TypeB {
	case TError:
		pl.typeOutcome = "error"
		return pl, nil
	case TPanic:
		pl.typeOutcome = "panic"
		return pl, nil
	}
	pl.typeOutcome = "ok"
	pl.R = f.modelType(args)
	pl.Rcty = pl.R.Cty()

	switch f.ImplB {
	case IError:
		pl.impl = implPlan{outcome: "error"}
	case IPanic:
		pl.impl = implPlan{outcome: "panic"}
	case IUnknown:
		pl.impl = implPlan{outcome: "value", ret: cty.UnknownVal(pl.Rcty)}
		if pl.R.K == spec.KDynamic && f.ImplVar%2 == 0 {
			// the Type callback could not settle on a type but the Impl
			// answers with a typed unknown (conforming: everything conforms to
			// the placeholder); a declared refinement applies to it
			pl.impl.ret = cty.UnknownVal(instantiate(f.Ret).Cty())
		}
	case INonConform:
		w, ok, err := wrongValue(pl.R, f.ImplVar)
		if err != nil {
			return nil, err
		}
		if ok {
			pl.impl = implPlan{outcome: "nonconforming", ret: w}
			break
		}
		pl.nonconfImpossible = true
		fallthrough
	case IConform:
		if f.TypeB == TArgType && f.TypeK < len(args) {
			if args[f.TypeK].St != spec.Null {
				pl.impl = implPlan{outcome: "value", ret: pl.cbArgs[f.TypeK]}
			} else {
				cv, err := spec.Build(canonSpec(pl.R))
				if err != nil {
					return nil, err
				}
				pl.impl = implPlan{outcome: "value", ret: cv}
			}
		} else {
			pl.impl = implPlan{outcome: "value", ret: resultVal}
		}
	default:
		return nil, fmt.Errorf("bad impl behaviour %q", f.ImplB)
	}
	return pl, nil
}

// canonSpec is a fixed known, non-null value spec of type t (dynamic
// placeholders become strings).
func canonSpec(t spec.T) spec.V {
	switch t.K {
	case spec.KBool:
		return spec.KnownBool(true)
	case spec.KNumber:
		return spec.KnownNum(spec.NInt(7))
	case spec.KString:
		return spec.KnownStr("r")
	case spec.KDynamic:
		return spec.KnownStr("d")
	case spec.KList, spec.KSet:
		e := canonSpec(*t.E)
		et := e.T
		return spec.V{T: spec.T{K: t.K, E: &et}, St: spec.Known, Elems: []spec.V{e}}
	case spec.KMap:
		e := canonSpec(*t.E)
		et := e.T
		return spec.V{T: spec.T{K: t.K, E: &et}, St: spec.Known, Elems: []spec.V{e}, Keys: []string{"k"}}
	case spec.KTuple:
		v := spec.V{T: t, St: spec.Known}
		for _, et := range t.Elems {
			v.Elems = append(v.Elems, canonSpec(et))
		}
		return v.Retype()
	case spec.KObject:
		v := spec.V{T: t, St: spec.Known}
		for _, a := range t.Attrs {
			v.Keys = append(v.Keys, a.Name)
			v.Elems = append(v.Elems, canonSpec(a.T))
		}
		return v.Retype()
	case spec.KCapsule:
		return spec.V{T: t, St: spec.Known, Cap: 0}
	}
	panic("canonSpec: bad kind " + t.K)
}

// instantiate replaces every dynamic placeholder by string.
func instantiate(t spec.T) spec.T { return canonSpec(t).T }

var grossWrong = []spec.T{spec.String, spec.Number, spec.Bool, spec.Tuple(), spec.Object(), spec.List(spec.String), spec.Map(spec.Bool)}

// subtleWrongType returns a type of the same outer kind as r that does not conform to it.
func subtleWrongType(r spec.T) spec.T {
	switch r.K {
	case spec.KList, spec.KSet, spec.KMap:
		if r.E.K == spec.KDynamic {
			k := spec.KList
			if r.K == spec.KList {
				k = spec.KMap
			}
			e := spec.String
			return spec.T{K: k, E: &e}
		}
		e := subtleWrongType(*r.E)
		return spec.T{K: r.K, E: &e}
	case spec.KTuple:
		es := append([]spec.T(nil), r.Elems...)
		return spec.T{K: spec.KTuple, Elems: append(es, spec.String)}
	case spec.KObject:
		as := append([]spec.Attr(nil), r.Attrs...)
		return spec.T{K: spec.KObject, Attrs: append(as, spec.Attr{Name: "zz_extra", T: spec.String})}
	case spec.KString:
		return spec.Number
	case spec.KNumber:
		return spec.Bool
	case spec.KBool:
		return spec.String
	case spec.KCapsule:
		if r.Cap == "A" {
			return spec.CapsuleT("B")
		}
		return spec.CapsuleT("A")
	}
	return spec.Tuple()
}

// wrongValue builds a value whose type does not conform to r (by the
// harness's own conformance model): variant%5 = 0 known value of a grossly
// different type, 1 known value of a subtly different type (same outer kind),
// 2 unknown of a subtly different type, 3 null of a different type, 4 cty.NilVal.
// ok=false when r is the bare dynamic placeholder, to which every value conforms.
func wrongValue(r spec.T, variant int) (cty.Value, bool, error) {
	if r.K == spec.KDynamic {
		// (An Impl that returns cty.NilVal with a nil error under a dynamic
		// return type gets NilVal back from Call; NilVal is documented as "not a
		// valid value", so that is misuse by the Impl and not asserted here.)
		return cty.NilVal, false, nil
	}
	if variant%5 == 4 {
		// not a value at all
		return cty.NilVal, true, nil
	}
	var wt spec.T
	found := false
	if variant%5 == 1 || variant%5 == 2 {
		wt = instantiate(subtleWrongType(r))
		found = !wt.Conforms(r)
	}
	if !found {
		for i := range grossWrong {
			c := grossWrong[(i+variant/5)%len(grossWrong)]
			if !c.Conforms(r) {
				wt, found = c, true
				break
			}
		}
	}
	if !found {
		return cty.NilVal, false, nil
	}
	switch variant % 5 {
	case 2:
		return cty.UnknownVal(wt.Cty()), true, nil
	case 3:
		return cty.NullVal(wt.Cty()), true, nil
	}
	v, err := spec.Build(canonSpec(wt))
	if err != nil {
		return cty.NilVal, false, err
	}
	return v, true, nil
}
