package c10

import (
	"pgregory.net/rapid"

	"verif/harness/facet"
	"verif/harness/spec"
)

func labelClasses(c *facet.Ctx, inf *info) {
	for cl := range inf.classes {
		c.Label("class=" + cl)
	}
}

func copyW(w map[string]int, over map[string]int) map[string]int {
	out := map[string]int{}
	for k, v := range w {
		out[k] = v
	}
	for k, v := range over {
		out[k] = v
	}
	return out
}

const modelRule = "case = function spec (0-3 positional parameters + optional variadic, constraint type, 16 flag combinations, Type behaviour in {static,error,panic,dynamic,argtype,valdep}, Impl behaviour in {conforming,error,panic,nonconforming,unknown}, optional consistent RefineResult) x argument list (slot classes conf/nonconf/null/unknown/DynamicVal/dynamic null/deeply marked/marked unknown/...); distinct = hash(parameter kinds+flags, behaviours, refinement presence, slot classes); "

func init() {
	// ---------------------------------------------------------------- single/exhaustive
	facet.Register(facet.F[Case]{
		Prop: "C10", Name: "single/exhaustive",
		Rule:       "bounded-exhaustive: one parameter under test (type string / dynamic / list(string); all 16 flag combinations; positional, variadic-only, or variadic after one plain positional parameter) x every slot class representative x every Type behaviour x every Impl behaviour x {no refinement, refinement}; Call, ReturnTypeForValues, ReturnType and Unpredictable are all judged; every case counts",
		Exhaustive: exhaustiveCases,
		Check: func(c *facet.Ctx, in Case) error {
			inf, err := runCase(c, in, everything)
			if inf != nil {
				c.NonTrivial()
				c.Key(in.key())
			}
			return err
		},
	})

	// ---------------------------------------------------------------- multi/random
	facet.Register(facet.F[Case]{
		Prop: "C10", Name: "multi/random",
		Rule:  modelRule + "non-trivial: >= 2 different slot classes present or a non-empty variadic tail",
		Quick: 60000, Thorough: 300000, Shards: 8,
		Gen: func(t *rapid.T) Case { return genCase(t, multiCfg) },
		Check: func(c *facet.Ctx, in Case) error {
			inf, err := runCase(c, in, focus{rtfv: true})
			if inf != nil {
				labelClasses(c, inf)
				if len(inf.classes) >= 2 || inf.tail > 0 {
					c.NonTrivial()
					c.Key(in.key())
				}
			}
			return err
		},
	})

	// ---------------------------------------------------------------- variadic
	varCfg := multiCfg
	varCfg.varPct = 100
	varCfg.minParams = 0
	varCfg.maxTail = 4
	varCfg.fitPct = 55
	varCfg.wrongArityPct = 5
	varCfg.classW = copyW(defaultClassW, map[string]int{cNonConf: 12, cNull: 10, cNonConfUnk: 4, cNonConfNul: 3, cDynVal: 6})
	varCfg.typeW = map[string]int{TStatic: 8, TArgType: 4, TValDep: 1, TDynamic: 1, TError: 1, TPanic: 1}
	facet.Register(facet.F[Case]{
		Prop: "C10", Name: "variadic",
		Rule:  modelRule + "every function has a variadic parameter; non-trivial: at least one positional parameter and a non-empty variadic tail (the argument index and the parameter index differ)",
		Quick: 50000, Thorough: 250000, Shards: 8,
		Gen: func(t *rapid.T) Case { return genCase(t, varCfg) },
		Check: func(c *facet.Ctx, in Case) error {
			inf, err := runCase(c, in, focus{rtfv: true})
			if inf != nil {
				labelClasses(c, inf)
				c.Labelf("tail=%d", inf.tail)
				if inf.tail > 0 && len(in.F.Params) > 0 {
					c.NonTrivial()
					c.Key(in.key())
				}
				if inf.pl != nil {
					for _, i := range inf.pl.E {
						if i >= len(in.F.Params) {
							c.Label("offending-in-tail")
							break
						}
					}
				}
			}
			return err
		},
	})

	// ---------------------------------------------------------------- spies/contract
	spyCfg := multiCfg
	spyCfg.deepTypes = true
	spyCfg.fitPct = 90
	spyCfg.flagPct = 55
	spyCfg.wrongArityPct = 2
	spyCfg.typeW = map[string]int{TStatic: 6, TArgType: 5, TValDep: 2, TDynamic: 2}
	spyCfg.implW = map[string]int{IConform: 8, IUnknown: 1, INonConform: 1}
	spyCfg.classW = copyW(defaultClassW, map[string]int{cDeepMarked: 25, cNestedUnk: 10})
	facet.Register(facet.F[Case]{
		Prop: "C10", Name: "spies/contract",
		Rule:  modelRule + "arguments are steered to pass their flags so that Impl runs; deeper constraint types; non-trivial: Impl ran and some argument is nested (depth >= 1), marked, or unknown/null at the root",
		Quick: 50000, Thorough: 250000, Shards: 8,
		Gen: func(t *rapid.T) Case { return genCase(t, spyCfg) },
		Check: func(c *facet.Ctx, in Case) error {
			inf, err := runCase(c, in, focus{})
			if inf != nil {
				labelClasses(c, inf)
				if inf.implRan {
					c.Label("impl-ran")
				}
				if inf.implRan && (inf.deepArg || len(inf.pl.all) > 0 || inf.classes[cUnknown] || inf.classes[cNull] || inf.classes[cDynVal]) {
					c.NonTrivial()
					c.Key(in.key())
				}
			}
			return err
		},
	})

	// ---------------------------------------------------------------- marks/short-circuit
	markCfg := multiCfg
	markCfg.fitPct = 85
	markCfg.fitNoErr = true
	markCfg.flagPcts = [4]int{70, 30, 40, 35}
	markCfg.wrongArityPct = 0
	markCfg.minParams = 1
	markCfg.classW = map[string]int{cConf: 10, cDeepMarked: 30, cMarkedUnk: 20, cMarkedDyn: 12, cMarkedNull: 5, cUnknown: 10, cDynVal: 8, cDynNull: 3, cNestedUnk: 4, cNonConfMk: 2}
	markCfg.typeW = map[string]int{TStatic: 8, TArgType: 3, TValDep: 2, TDynamic: 2}
	markCfg.implW = map[string]int{IConform: 8, IUnknown: 2}
	facet.Register(facet.F[Case]{
		Prop: "C10", Name: "marks/short-circuit",
		Rule:  modelRule + "most arguments carry marks (root and nested) and many are unknown or DynamicVal; non-trivial: the call short-circuited to an unknown (unknown or dynamic argument not allowed) and at least one argument whose parameter is not AllowMarked carries a mark",
		Quick: 50000, Thorough: 250000, Shards: 8,
		Gen: func(t *rapid.T) Case { return genCase(t, markCfg) },
		Check: func(c *facet.Ctx, in Case) error {
			inf, err := runCase(c, in, focus{unpred: true})
			if inf != nil {
				labelClasses(c, inf)
				if inf.short && inf.pl != nil && len(inf.pl.M) > 0 {
					c.NonTrivial()
					c.Key(in.key())
				}
				if inf.pl != nil && len(inf.pl.all) > len(inf.pl.M) {
					c.Label("allowmarked-marks-present")
				}
			}
			return err
		},
	})

	// ---------------------------------------------------------------- refine
	refCfg := multiCfg
	refCfg.refinePct = 100
	refCfg.fitPct = 75
	refCfg.wrongArityPct = 0
	refCfg.classW = copyW(defaultClassW, map[string]int{cUnknown: 20, cMarkedUnk: 8, cNonConf: 2})
	refCfg.typeW = map[string]int{TStatic: 10, TArgType: 3, TValDep: 3, TDynamic: 2}
	refCfg.implW = map[string]int{IConform: 8, IUnknown: 4, INonConform: 1, IError: 1}
	facet.Register(facet.F[Case]{
		Prop: "C10", Name: "refine",
		Rule:  modelRule + "every function declares a RefineResult consistent with its Impl result (NotNull, number bounds, string prefix, collection length bounds); non-trivial: a refinement is declared and the call returned a typed value (Impl result or short-circuit unknown)",
		Quick: 50000, Thorough: 250000, Shards: 8,
		Gen: func(t *rapid.T) Case { return genCase(t, refCfg) },
		Check: func(c *facet.Ctx, in Case) error {
			inf, err := runCase(c, in, focus{unpred: true})
			if inf != nil {
				if in.F.Refine != nil && inf.typedVal {
					c.NonTrivial()
					c.Key(in.key())
					if inf.short {
						c.Label("refined-shortcircuit")
					}
				}
				if in.F.Refine != nil {
					r := in.F.Refine
					if r.Lo != nil || r.Hi != nil {
						c.Label("ref=number-bounds")
					}
					if r.Prefix != nil {
						c.Label("ref=prefix")
					}
					if r.MinLen != nil || r.MaxLen != nil {
						c.Label("ref=length")
					}
					if r.Null != "" {
						c.Label("ref=notnull")
					}
				}
			}
			return err
		},
	})

	// ---------------------------------------------------------------- returntype/agree
	rtCfg := multiCfg
	rtCfg.typeW = map[string]int{TStatic: 5, TArgType: 6, TValDep: 5, TDynamic: 2, TError: 2, TPanic: 2}
	rtCfg.fitPct = 65
	facet.Register(facet.F[Case]{
		Prop: "C10", Name: "returntype/agree",
		Rule:  modelRule + "ReturnTypeForValues(args) and ReturnType(types of args) are judged by the model and compared with the type Call's Impl was given; non-trivial: at least one argument and the Type callback ran in Call",
		Quick: 50000, Thorough: 250000, Shards: 8,
		Gen: func(t *rapid.T) Case { return genCase(t, rtCfg) },
		Check: func(c *facet.Ctx, in Case) error {
			inf, err := runCase(c, in, focus{rtfv: true, rtype: true})
			if inf != nil {
				if len(in.Args) > 0 && inf.typeRan {
					c.NonTrivial()
					c.Key(in.key())
				}
			}
			return err
		},
	})

	// ---------------------------------------------------------------- unpredictable
	upCfg := multiCfg
	upCfg.fitPct = 70
	facet.Register(facet.F[Case]{
		Prop: "C10", Name: "unpredictable",
		Rule:  modelRule + "function.Unpredictable(f) is called with the same arguments: same argument checks and errors, the wrapped Impl never runs, the result is an unknown of the checked type with marks and refinement; non-trivial: the original call reached the Impl stage",
		Quick: 40000, Thorough: 300000, Shards: 8,
		Gen: func(t *rapid.T) Case { return genCase(t, upCfg) },
		Check: func(c *facet.Ctx, in Case) error {
			inf, err := runCase(c, in, focus{unpred: true})
			if inf != nil {
				labelClasses(c, inf)
				if inf.implRan {
					c.NonTrivial()
					c.Key(in.key())
				}
			}
			return err
		},
	})
}

// ---------------------------------------------------------------- exhaustive enumeration

func mk(v spec.V, marks ...string) spec.V {
	v.Marks = marks
	return v
}

func listOf(et spec.T, es ...spec.V) spec.V {
	return spec.V{T: spec.List(et), St: spec.Known, Elems: es}
}

func objA(e spec.V) spec.V {
	return spec.V{T: spec.Object(spec.Attr{Name: "a", T: e.T}), St: spec.Known, Keys: []string{"a"}, Elems: []spec.V{e}}
}

// exhReps returns the representative of every slot class for a parameter type.
func exhReps(ty spec.T) []Arg {
	var out []Arg
	add := func(c string, v spec.V) { out = append(out, Arg{Class: c, V: v}) }
	one := spec.KnownNum(spec.NInt(1))
	switch ty.K {
	case spec.KString:
		add(cConf, spec.KnownStr("a"))
		add(cNonConf, one)
		add(cNull, spec.NullOf(spec.String))
		add(cUnknown, spec.UnknownOf(spec.String))
		add(cDeepMarked, mk(spec.KnownStr("a"), "m1"))
		add(cMarkedUnk, mk(spec.UnknownOf(spec.String), "m1"))
		add(cMarkedNull, mk(spec.NullOf(spec.String), "m1"))
		add(cNonConfUnk, spec.UnknownOf(spec.Number))
		add(cNonConfMk, mk(one, "m2"))
		add(cNonConfNul, spec.NullOf(spec.Bool))
	case spec.KDynamic:
		add(cConf, objA(spec.KnownStr("x")))
		add(cNull, spec.NullOf(spec.String))
		add(cUnknown, spec.UnknownOf(spec.List(spec.Number)))
		add(cDeepMarked, mk(objA(mk(spec.KnownStr("x"), "m1")), "m2"))
		add(cMarkedUnk, mk(spec.UnknownOf(spec.String), "m1"))
		add(cMarkedNull, mk(spec.NullOf(spec.Number), "m1"))
		add(cNestedUnk, objA(spec.UnknownOf(spec.String)))
		add("nested-dynval", objA(mk(spec.DynamicVal(), "m3")))
	case spec.KList:
		add(cConf, listOf(spec.String, spec.KnownStr("a"), spec.KnownStr("b")))
		add(cNonConf, listOf(spec.Number, one))
		add(cNull, spec.NullOf(ty))
		add(cUnknown, spec.UnknownOf(ty))
		add(cDeepMarked, mk(listOf(spec.String, mk(spec.KnownStr("a"), "m1"), spec.KnownStr("b")), "m2"))
		add("nested-marked-only", listOf(spec.String, spec.KnownStr("a"), mk(spec.UnknownOf(spec.String), "m1", "m3")))
		add(cMarkedUnk, mk(spec.UnknownOf(ty), "m1"))
		add(cMarkedNull, mk(spec.NullOf(ty), "m1"))
		add(cNestedUnk, listOf(spec.String, spec.UnknownOf(spec.String), spec.NullOf(spec.String)))
		add(cNonConfUnk, spec.UnknownOf(spec.Set(spec.String)))
		add(cNonConfMk, mk(listOf(spec.Number, mk(one, "m1")), "m2"))
		add(cNonConfNul, spec.NullOf(spec.Map(spec.String)))
	}
	add(cDynVal, spec.DynamicVal())
	add(cMarkedDyn, mk(spec.DynamicVal(), "m1", "m2"))
	add(cDynNull, spec.NullOf(spec.Dynamic))
	add("dynnull-marked", mk(spec.NullOf(spec.Dynamic), "m3"))
	return out
}

func exhaustiveCases() []Case {
	var out []Case
	type implOpt struct {
		b string
		v int
	}
	impls := []implOpt{{IConform, 0}, {IError, 0}, {IPanic, 0}, {IUnknown, 0}, {INonConform, 0}, {INonConform, 2}, {INonConform, 4}}
	prefix := "r"
	for _, ty := range []spec.T{spec.String, spec.Dynamic, spec.List(spec.String)} {
		reps := exhReps(ty)
		for fl := 0; fl < 16; fl++ {
			p := Param{T: ty, Null: fl&1 != 0, Unk: fl&2 != 0, Dyn: fl&4 != 0, Marked: fl&8 != 0}
			for pos := 0; pos < 3; pos++ {
				for _, rep := range reps {
					for _, tb := range typeBehaviours {
						for _, ib := range impls {
							for ref := 0; ref < 2; ref++ {
								f := Func{TypeB: tb, ImplB: ib.b, ImplVar: ib.v, Ret: spec.String}
								var args []Arg
								pp := p
								switch pos {
								case 0:
									f.Params = []Param{pp}
									args = []Arg{rep}
								case 1:
									f.Var = &pp
									args = []Arg{rep}
								default:
									f.Params = []Param{{T: spec.String}}
									f.Var = &pp
									args = []Arg{{Class: cConf, V: spec.KnownStr("lead")}, rep}
									f.TypeK = 1
								}
								if ref == 1 {
									f.Refine = &spec.Ref{Null: "notnull"}
									if tb != TArgType {
										f.Refine.Prefix, f.Refine.PrefixFull = &prefix, true
									}
								}
								out = append(out, Case{F: f, Args: args})
							}
						}
					}
				}
			}
		}
	}
	return out
}
