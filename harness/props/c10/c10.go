// Package c10: the function-call protocol enforces every declared parameter
// contract (property C10).
//
// A case is a JSON-serialisable function specification (parameters with a
// constraint type and the four Allow* flags, an optional variadic parameter,
// the behaviour of the Type callback, the behaviour of the Impl callback, an
// optional result refinement) plus an argument list of value specs. Check
// builds a real function.Function whose callbacks are spies, calls it, and
// compares what the spies saw and what came back with the protocol model of
// DESIGN.md section 5 (sets E / Dn / U), which is computed from the specs only.
package c10

import (
	"fmt"
	"sort"
	"strings"

	"github.com/zclconf/go-cty/cty"
	"github.com/zclconf/go-cty/cty/function"

	"verif/harness/spec"
)

// Param is one parameter specification.
type Param struct {
	T      spec.T `json:"t"`
	Null   bool   `json:"null,omitempty"`
	Unk    bool   `json:"unk,omitempty"`
	Dyn    bool   `json:"dyn,omitempty"`
	Marked bool   `json:"marked,omitempty"`
}

func (p Param) flags() string {
	b := []byte("----")
	if p.Null {
		b[0] = 'N'
	}
	if p.Unk {
		b[1] = 'U'
	}
	if p.Dyn {
		b[2] = 'D'
	}
	if p.Marked {
		b[3] = 'M'
	}
	return string(b)
}

// Type-callback behaviours.
const (
	TStatic  = "static"  // always returns Ret
	TError   = "error"   // returns an error
	TPanic   = "panic"   // panics
	TDynamic = "dynamic" // always returns cty.DynamicPseudoType
	TArgType = "argtype" // returns the type of argument TypeK (Ret if there is no such argument)
	TValDep  = "valdep"  // returns DynamicPseudoType while any argument is unknown, else Ret
)

// Impl-callback behaviours.
const (
	IConform    = "conforming"
	IError      = "error"
	IPanic      = "panic"
	INonConform = "nonconforming"
	IUnknown    = "unknown"
)

var typeBehaviours = []string{TStatic, TError, TPanic, TDynamic, TArgType, TValDep}
var implBehaviours = []string{IConform, IError, IPanic, INonConform, IUnknown}

// Func is a function specification.
type Func struct {
	Params  []Param   `json:"params"`
	Var     *Param    `json:"var,omitempty"`
	TypeB   string    `json:"typeb"`
	TypeK   int       `json:"typek,omitempty"`
	Ret     spec.T    `json:"ret"`
	ImplB   string    `json:"implb"`
	ImplVar int       `json:"implvar,omitempty"` // selects the shape of a non-conforming result
	Result  *spec.V   `json:"result,omitempty"`  // the value a conforming Impl returns (type Ret); nil = canonical value
	Refine  *spec.Ref `json:"refine,omitempty"`  // declared RefineResult, consistent with Result
}

// Arg is one argument: the generator's slot class (a label) and the value.
type Arg struct {
	Class string `json:"class"`
	V     spec.V `json:"v"`
}

// Case is the input of every C10 facet.
type Case struct {
	F    Func  `json:"f"`
	Args []Arg `json:"args"`
}

func (f Func) param(i int) (Param, bool) {
	if i < len(f.Params) {
		return f.Params[i], true
	}
	if f.Var != nil {
		return *f.Var, true
	}
	return Param{}, false
}

// key is the abstraction hashed for distinctness: parameter kinds and flags,
// callback behaviours, refinement presence, slot classes.
func (in Case) key() string {
	var b strings.Builder
	for _, p := range in.F.Params {
		fmt.Fprintf(&b, "%s:%s,", p.T.K, p.flags())
	}
	if in.F.Var != nil {
		fmt.Fprintf(&b, "...%s:%s", in.F.Var.T.K, in.F.Var.flags())
	}
	fmt.Fprintf(&b, "|%s%d|%s%d|r=%t|", in.F.TypeB, in.F.TypeK, in.F.ImplB, in.F.ImplVar, in.F.Refine != nil)
	for _, a := range in.Args {
		b.WriteString(a.Class)
		b.WriteByte(',')
	}
	return b.String()
}

// ---------------------------------------------------------------- spies

type spyError struct{ what string }

func (e *spyError) Error() string { return e.what }

var (
	errType   error = &spyError{"c10: error from the Type callback"}
	errImpl   error = &spyError{"c10: error from the Impl callback"}
	panicType       = "c10: panic in the Type callback"
	panicImpl       = "c10: panic in the Impl callback"
)

type event struct {
	kind    string // "type" | "impl"
	args    []cty.Value
	retType cty.Type  // type: the type returned; impl: the retType received
	out     cty.Value // impl: the value returned
	outcome string    // "ok" | "error" | "panic"
}

type recorder struct{ ev []event }

func (r *recorder) split() (types, impls []event) {
	for _, e := range r.ev {
		if e.kind == "type" {
			types = append(types, e)
		} else {
			impls = append(impls, e)
		}
	}
	return
}

// implPlan is what the Impl spy does when it runs; it is computed by the model
// (plan.go) before the call so that nothing inside the callback can fail.
type implPlan struct {
	outcome string // "value" | "error" | "panic" | "nonconforming"
	ret     cty.Value
}

// typeOf evaluates the Type-callback behaviour on actual argument values.
func (f Func) typeOf(args []cty.Value) cty.Type {
	switch f.TypeB {
	case TDynamic:
		return cty.DynamicPseudoType
	case TArgType:
		if f.TypeK < len(args) {
			return args[f.TypeK].Type()
		}
		return f.Ret.Cty()
	case TValDep:
		for _, a := range args {
			if !a.IsKnown() {
				return cty.DynamicPseudoType
			}
		}
		return f.Ret.Cty()
	}
	return f.Ret.Cty()
}

// build makes the real function with spying callbacks.
func (f Func) build(rec *recorder, impl func(args []cty.Value, retType cty.Type) implPlan) function.Function {
	sp := &function.Spec{}
	for i, p := range f.Params {
		sp.Params = append(sp.Params, function.Parameter{
			Name: fmt.Sprintf("p%d", i), Type: p.T.Cty(),
			AllowNull: p.Null, AllowUnknown: p.Unk, AllowDynamicType: p.Dyn, AllowMarked: p.Marked,
		})
	}
	if f.Var != nil {
		p := *f.Var
		sp.VarParam = &function.Parameter{
			Name: "rest", Type: p.T.Cty(),
			AllowNull: p.Null, AllowUnknown: p.Unk, AllowDynamicType: p.Dyn, AllowMarked: p.Marked,
		}
	}
	sp.Type = func(args []cty.Value) (cty.Type, error) {
		ev := event{kind: "type", args: append([]cty.Value(nil), args...)}
		switch f.TypeB {
		case TError:
			ev.outcome = "error"
			rec.ev = append(rec.ev, ev)
			return cty.DynamicPseudoType, errType
		case TPanic:
			ev.outcome = "panic"
			rec.ev = append(rec.ev, ev)
			panic(panicType)
		}
		ev.outcome = "ok"
		ev.retType = f.typeOf(args)
		rec.ev = append(rec.ev, ev)
		return ev.retType, nil
	}
	sp.Impl = func(args []cty.Value, retType cty.Type) (cty.Value, error) {
		ev := event{kind: "impl", args: append([]cty.Value(nil), args...), retType: retType}
		pl := impl(args, retType)
		switch pl.outcome {
		case "error":
			ev.outcome = "error"
			rec.ev = append(rec.ev, ev)
			return cty.NilVal, errImpl
		case "panic":
			ev.outcome = "panic"
			rec.ev = append(rec.ev, ev)
			panic(panicImpl)
		}
		ev.outcome = "ok"
		ev.out = pl.ret
		rec.ev = append(rec.ev, ev)
		return pl.ret, nil
	}
	if f.Refine != nil {
		r := f.Refine
		sp.RefineResult = func(b *cty.RefinementBuilder) *cty.RefinementBuilder {
			spec.ApplyRef(b, r)
			return b
		}
	}
	fn := function.New(sp)
	// What the accessors hand out belongs to the caller: the declared contract
	// must not follow when a caller edits the parameter descriptions it got
	// (for example while deriving a more lenient variant of the function).
	scribbleParams(fn)
	return fn
}

// scribbleParams turns every parameter description returned by Params() and
// VarParam() into the most permissive one.
func scribbleParams(fn function.Function) {
	lenient := func(p *function.Parameter) {
		p.Type = cty.DynamicPseudoType
		p.AllowNull, p.AllowUnknown, p.AllowDynamicType, p.AllowMarked = true, true, true, true
		p.Name = "scribbled"
	}
	ps := fn.Params()
	for i := range ps {
		lenient(&ps[i])
	}
	if vp := fn.VarParam(); vp != nil {
		lenient(vp)
	}
}

// ---------------------------------------------------------------- small helpers over cty values

// deepMarks collects every mark at any depth with the harness's own walk
// (IsMarked / Unmark / ElementIterator only).
func deepMarks(v cty.Value, out map[string]bool) {
	if v == cty.NilVal {
		return
	}
	if v.IsMarked() {
		u, ms := v.Unmark()
		for m := range ms {
			out[fmt.Sprint(m)] = true
		}
		v = u
	}
	if !v.IsKnown() || v.IsNull() {
		return
	}
	ty := v.Type()
	if ty.IsCollectionType() || ty.IsTupleType() || ty.IsObjectType() {
		for it := v.ElementIterator(); it.Next(); {
			_, e := it.Element()
			deepMarks(e, out)
		}
	}
}

func marksOf(v cty.Value) map[string]bool {
	m := map[string]bool{}
	deepMarks(v, m)
	return m
}

func markList(m map[string]bool) string {
	ks := make([]string, 0, len(m))
	for k := range m {
		ks = append(ks, k)
	}
	sort.Strings(ks)
	return "{" + strings.Join(ks, ",") + "}"
}

func strip(v cty.Value) cty.Value {
	if v == cty.NilVal {
		return v
	}
	u, _ := v.UnmarkDeep()
	return u
}

func ints(xs []int) string {
	ss := make([]string, len(xs))
	for i, x := range xs {
		ss[i] = fmt.Sprint(x)
	}
	return "[" + strings.Join(ss, ",") + "]"
}
