package c10

import (
	"testing"

	"verif/harness/facet"
)

func TestFacet(t *testing.T) { facet.Main(t) }
