package c10

import (
	"encoding/json"
	"strconv"

	"verif/harness/facet"
)

// c10VarargIndex recognises exactly one root cause: a variadic argument whose
// type does not conform is reported with its index *within the variadic tail*
// (argument index minus the number of positional parameters) instead of its
// index in the argument list. Anything else -- a wrong index for a null
// argument, a wrong index for a positional argument, an index that is off by
// some other amount -- does not match and still fails the check.
func init() {
	facet.RegisterKnown("c10VarargIndex", func(facetName string, raw json.RawMessage, f *facet.Failure) bool {
		if f == nil || f.Kind != "argerror-index" || f.Data == nil {
			return false
		}
		if f.Data["variadic"] != "true" || f.Data["cause"] != "conformance" {
			return false
		}
		reported, e1 := strconv.Atoi(f.Data["reported"])
		first, e2 := strconv.Atoi(f.Data["first_e"])
		nparams, e3 := strconv.Atoi(f.Data["nparams"])
		if e1 != nil || e2 != nil || e3 != nil {
			return false
		}
		var in Case
		if json.Unmarshal(raw, &in) != nil || in.F.Var == nil || len(in.F.Params) != nparams {
			return false
		}
		return nparams > 0 && first >= nparams && reported == first-nparams
	})
}
