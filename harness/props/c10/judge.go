package c10

import (
	"errors"
	"fmt"
	"math/big"
	"strings"

	"github.com/zclconf/go-cty/cty"
	"github.com/zclconf/go-cty/cty/function"

	"verif/harness/facet"
	"verif/harness/spec"
	"verif/harness/wf"
)

// safely runs fn and turns a Go panic into a value.
func safely(fn func()) (pan any) {
	defer func() {
		if r := recover(); r != nil {
			pan = r
		}
	}()
	fn()
	return nil
}

func argsEqual(got, want []cty.Value) (bool, string) {
	if len(got) != len(want) {
		return false, fmt.Sprintf("%d arguments, expected %d", len(got), len(want))
	}
	for i := range got {
		if !sameVal(got[i], want[i]) {
			return false, fmt.Sprintf("argument %d is %#v, expected %#v", i, got[i], want[i])
		}
	}
	return true, ""
}

// sameVal is RawEquals, except that two sets with the same members are the
// same value whatever their internal order (RawEquals compares sets
// positionally, and the order of members that tie in the set ordering depends
// on insertion order -- that is property C03's subject, not this one's).
func sameVal(a, b cty.Value) bool {
	if a == cty.NilVal || b == cty.NilVal {
		return a == b
	}
	if a.RawEquals(b) {
		return true
	}
	if a.IsMarked() != b.IsMarked() {
		return false
	}
	if a.IsMarked() {
		ua, ma := a.Unmark()
		ub, mb := b.Unmark()
		if len(ma) != len(mb) {
			return false
		}
		for m := range ma {
			if _, ok := mb[m]; !ok {
				return false
			}
		}
		a, b = ua, ub
	}
	if !a.Type().Equals(b.Type()) || a.IsNull() != b.IsNull() || a.IsKnown() != b.IsKnown() {
		return false
	}
	if a.IsNull() {
		return true
	}
	if !a.IsKnown() {
		return a.RawEquals(b)
	}
	ty := a.Type()
	if !(ty.IsCollectionType() || ty.IsTupleType() || ty.IsObjectType()) {
		return false
	}
	var ak, av, bk, bv []cty.Value
	for it := a.ElementIterator(); it.Next(); {
		k, e := it.Element()
		ak, av = append(ak, k), append(av, e)
	}
	for it := b.ElementIterator(); it.Next(); {
		k, e := it.Element()
		bk, bv = append(bk, k), append(bv, e)
	}
	if len(av) != len(bv) {
		return false
	}
	if ty.IsSetType() {
		used := make([]bool, len(bv))
	outer:
		for _, x := range av {
			for j, y := range bv {
				if !used[j] && sameVal(x, y) {
					used[j] = true
					continue outer
				}
			}
			return false
		}
		return true
	}
	for i := range av {
		if !ak[i].RawEquals(bk[i]) || !sameVal(av[i], bv[i]) {
			return false
		}
	}
	return true
}

func asArgError(err error) (function.ArgError, bool) {
	var ae function.ArgError
	ok := errors.As(err, &ae)
	return ae, ok
}

func asPanicError(err error) (function.PanicError, bool) {
	var pe function.PanicError
	ok := errors.As(err, &pe)
	return pe, ok
}

// spyContract is the model-free part of the oracle: whatever the outcome, a
// callback that ran must have been given arguments satisfying the declared
// contract, and Impl must have been preceded by an accepting Type call on
// RawEqual arguments.
func spyContract(f Func, rec *recorder) *facet.Failure {
	for j, e := range rec.ev {
		minArgs := len(f.Params)
		if len(e.args) < minArgs || (f.Var == nil && len(e.args) != minArgs) {
			return facet.Failf("callback-arity", "%s callback received %d arguments for %d parameters (variadic=%t)", e.kind, len(e.args), minArgs, f.Var != nil)
		}
		for i, a := range e.args {
			p, _ := f.param(i)
			where := fmt.Sprintf("%s callback argument %d (%#v) for parameter %s flags %s", e.kind, i, a, p.T, p.flags())
			ms := marksOf(a)
			if len(ms) > 0 && !p.Marked {
				return facet.Failf(e.kind+"-contract/marks", "%s carries marks %s but AllowMarked is off", where, markList(ms))
			}
			u := a
			if u.IsMarked() {
				u, _ = u.Unmark()
			}
			if u.IsNull() && !p.Null {
				return facet.Failf(e.kind+"-contract/null", "%s is null but AllowNull is off", where)
			}
			if u.Type() == cty.DynamicPseudoType {
				if !p.Dyn {
					return facet.Failf(e.kind+"-contract/dynamic", "%s is dynamically typed but AllowDynamicType is off", where)
				}
			} else if !spec.FromCty(u.Type()).Conforms(p.T) {
				return facet.Failf(e.kind+"-contract/conformance", "%s does not conform", where)
			}
			if e.kind == "impl" && !u.IsKnown() && !p.Unk {
				return facet.Failf("impl-contract/unknown", "%s is unknown but AllowUnknown is off", where)
			}
		}
		if e.kind != "impl" {
			continue
		}
		accepted := false
		for _, t := range rec.ev[:j] {
			if t.kind != "type" {
				continue
			}
			if same, _ := argsEqual(t.args, e.args); same && t.outcome == "ok" {
				accepted = true
				if !t.retType.Equals(e.retType) {
					return facet.Failf("impl-rettype", "Impl received retType %#v but the Type callback returned %#v for the same arguments", e.retType, t.retType)
				}
			}
		}
		if !accepted {
			return facet.Failf("impl-without-type", "Impl ran without a preceding accepting Type call on RawEqual arguments (events before it: %d)", j)
		}
	}
	return nil
}

// refiner returns the RefineResult callback of the spec (for the metamorphic
// comparison "result == refine(unrefined result)").
func refiner(r *spec.Ref) func(*cty.RefinementBuilder) *cty.RefinementBuilder {
	return func(b *cty.RefinementBuilder) *cty.RefinementBuilder {
		spec.ApplyRef(b, r)
		return b
	}
}

// applyRefine computes what the declared refinement does to v; ok=false when
// the refinement is inconsistent with v (an author error: the case is skipped).
func applyRefine(r *spec.Ref, v cty.Value) (out cty.Value, ok bool) {
	if r == nil || v == cty.NilVal {
		return v, true
	}
	if !v.IsKnown() && v.Type() == cty.DynamicPseudoType {
		return v, true
	}
	if safely(func() { out = v.RefineWith(refiner(r)) }) != nil {
		return cty.NilVal, false
	}
	return out, true
}

// collapsible: the refinement may pin an unknown down to a single known value
// (docs/refinements.md: null, equal inclusive number bounds, equal length
// bounds -- the lower length bound defaults to zero). Over-approximate.
func collapsible(r *spec.Ref) bool {
	if r.Null == "null" || (r.Lo != nil && r.Hi != nil) {
		return true
	}
	if r.MaxLen != nil {
		min := 0
		if r.MinLen != nil {
			min = *r.MinLen
		}
		return min >= *r.MaxLen
	}
	return false
}

// refineVisible checks, through the public range accessors only, that an
// unknown typed result u (unmarked) is at least as narrow as the declared refinement.
func refineVisible(r *spec.Ref, u cty.Value) *facet.Failure {
	if r == nil || u.IsKnown() || u.Type() == cty.DynamicPseudoType {
		return nil
	}
	rng := u.Range()
	if r.Null == "notnull" && !rng.DefinitelyNotNull() {
		return facet.Failf("refine-missing/notnull", "declared NotNull refinement is not visible on the unknown result %#v", u)
	}
	ty := u.Type()
	if ty == cty.Number {
		if r.Lo != nil {
			lo, inc := rng.NumberLowerBound()
			if !lo.IsKnown() || lo.IsNull() {
				return facet.Failf("refine-missing/lower", "declared lower bound %s not visible on %#v", r.Lo, u)
			}
			c := lo.AsBigFloat().Cmp(r.Lo.Float())
			if c < 0 || (c == 0 && inc && !r.LoInc) {
				return facet.Failf("refine-missing/lower", "result lower bound %s (inclusive=%t) is looser than the declared %s (inclusive=%t)", lo.AsBigFloat().Text('g', 20), inc, r.Lo, r.LoInc)
			}
		}
		if r.Hi != nil {
			hi, inc := rng.NumberUpperBound()
			if !hi.IsKnown() || hi.IsNull() {
				return facet.Failf("refine-missing/upper", "declared upper bound %s not visible on %#v", r.Hi, u)
			}
			c := hi.AsBigFloat().Cmp(r.Hi.Float())
			if c > 0 || (c == 0 && inc && !r.HiInc) {
				return facet.Failf("refine-missing/upper", "result upper bound %s (inclusive=%t) is looser than the declared %s (inclusive=%t)", hi.AsBigFloat().Text('g', 20), inc, r.Hi, r.HiInc)
			}
		}
	}
	if ty == cty.String && r.Prefix != nil {
		got := rng.StringPrefix()
		want := spec.NFC(*r.Prefix)
		if r.PrefixFull {
			if !strings.HasPrefix(got, want) {
				return facet.Failf("refine-missing/prefix", "declared full prefix %q not visible: result prefix %q", want, got)
			}
		} else if !strings.HasPrefix(want, got) {
			// the safe constructor may shorten the prefix but never invents one
			return facet.Failf("refine-missing/prefix", "result prefix %q is not a prefix of the declared %q", got, want)
		}
	}
	if ty.IsCollectionType() {
		if r.MinLen != nil && rng.LengthLowerBound() < *r.MinLen {
			return facet.Failf("refine-missing/minlen", "declared minimum length %d not visible: %d", *r.MinLen, rng.LengthLowerBound())
		}
		if r.MaxLen != nil && rng.LengthUpperBound() > *r.MaxLen {
			return facet.Failf("refine-missing/maxlen", "declared maximum length %d not visible: %d", *r.MaxLen, rng.LengthUpperBound())
		}
	}
	return nil
}

var _ = big.NewFloat

// callResult is what one call into the library produced.
type callResult struct {
	val cty.Value
	ty  cty.Type
	err error
	pan any
}

func describeErr(err error) string {
	if err == nil {
		return "<nil>"
	}
	if ae, ok := asArgError(err); ok {
		return fmt.Sprintf("ArgError{Index:%d, %q}", ae.Index, firstLine(ae.Error()))
	}
	if pe, ok := asPanicError(err); ok {
		return fmt.Sprintf("PanicError{%v}", pe.Value)
	}
	return fmt.Sprintf("%T(%q)", err, firstLine(err.Error()))
}

func firstLine(s string) string {
	if i := strings.IndexByte(s, '\n'); i >= 0 {
		s = s[:i]
	}
	if len(s) > 200 {
		s = s[:200]
	}
	return s
}

// judgeArgPhase checks the outcome shared by Call and ReturnTypeForValues up
// to and including the Type callback. It returns (done, failure): done=true
// when the call must have ended in this phase.
func judgeArgPhase(pl *plan, f Func, rec *recorder, what string, r callResult, isCall bool) (bool, string, *facet.Failure) {
	types, impls := rec.split()
	if r.pan != nil {
		return true, "", facet.Failf("go-panic", "%s panicked instead of returning an error: %v", what, r.pan)
	}
	if fl := spyContract(f, rec); fl != nil {
		fl.Msg = what + ": " + fl.Msg
		return true, "", fl
	}
	if !isCall && len(impls) > 0 {
		return true, "", facet.Failf("typecheck-ran-impl", "%s invoked the Impl callback", what)
	}
	if !pl.arityOK {
		if r.err == nil {
			return true, "", facet.Failf("arity-accepted", "%s accepted a call with the wrong number of arguments", what)
		}
		if len(rec.ev) > 0 {
			return true, "", facet.Failf("arity-callback", "%s ran a callback although the number of arguments is wrong", what)
		}
		return true, "arity-error", nil
	}
	if len(pl.E)+len(pl.Dn) > 0 {
		if len(impls) > 0 {
			return true, "", facet.Failf("impl-ran", "%s: Impl ran although arguments %s violate null/conformance and %s are dynamic without AllowDynamicType", what, ints(pl.E), ints(pl.Dn))
		}
		if r.err != nil {
			ae, ok := asArgError(r.err)
			if !ok {
				return true, "", facet.Failf("outcome", "%s: offending arguments E=%s Dn=%s: expected an ArgError or DynamicVal, got %s", what, ints(pl.E), ints(pl.Dn), describeErr(r.err))
			}
			if !pl.inE[ae.Index] {
				fl := facet.Failf("argerror-index", "%s: ArgError names argument %d (%q) but the offending arguments are %s (of %d arguments, %d positional parameters)", what, ae.Index, firstLine(ae.Error()), ints(pl.E), len(pl.cbArgs), len(f.Params))
				fl.With("reported", fmt.Sprint(ae.Index)).With("nparams", fmt.Sprint(len(f.Params))).With("variadic", fmt.Sprint(f.Var != nil))
				if len(pl.E) > 0 {
					fl.With("first_e", fmt.Sprint(pl.E[0])).With("cause", pl.causeE[pl.E[0]])
				}
				return true, "", fl
			}
			return true, "argerror", nil
		}
		if len(pl.Dn) == 0 {
			return true, "", facet.Failf("offending-accepted", "%s: arguments %s violate null/conformance but no error was returned", what, ints(pl.E))
		}
		if len(types) > 0 {
			return true, "dynamic+type-invoked", nil
		}
		return true, "dynamic", nil
	}
	if len(types) == 0 {
		return true, "", facet.Failf("type-not-run", "%s: all arguments are acceptable but the Type callback did not run (result %s)", what, describeErr(r.err))
	}
	for _, t := range types {
		if same, why := argsEqual(t.args, pl.cbArgs); !same {
			return true, "", facet.Failf("type-args", "%s: Type callback arguments differ from the call's arguments with marks stripped where AllowMarked is off: %s", what, why)
		}
	}
	switch pl.typeOutcome {
	case "error":
		if r.err != errType {
			return true, "", facet.Failf("outcome", "%s: the Type callback failed, expected its error, got %s", what, describeErr(r.err))
		}
		if len(impls) > 0 {
			return true, "", facet.Failf("impl-ran", "%s: Impl ran after the Type callback returned an error", what)
		}
		return true, "type-error", nil
	case "panic":
		pe, ok := asPanicError(r.err)
		if !ok || pe.Value != any(panicType) {
			return true, "", facet.Failf("outcome", "%s: the Type callback panicked, expected a PanicError carrying its value, got %s", what, describeErr(r.err))
		}
		if len(impls) > 0 {
			return true, "", facet.Failf("impl-ran", "%s: Impl ran after the Type callback panicked", what)
		}
		return true, "type-panic", nil
	}
	return false, "", nil
}

// judgeType checks ReturnTypeForValues / ReturnType.
func judgeType(pl *plan, f Func, rec *recorder, what string, r callResult) (string, *facet.Failure) {
	done, label, fl := judgeArgPhase(pl, f, rec, what, r, false)
	if fl != nil {
		return "", fl
	}
	if done {
		if strings.HasPrefix(label, "dynamic") && r.ty != cty.DynamicPseudoType {
			return "", facet.Failf("outcome", "%s: dynamic argument without AllowDynamicType: expected DynamicPseudoType, got %#v", what, r.ty)
		}
		return label, nil
	}
	if r.err != nil {
		return "", facet.Failf("outcome", "%s: the Type callback accepted, got %s", what, describeErr(r.err))
	}
	if !r.ty.Equals(pl.Rcty) {
		return "", facet.Failf("rettype", "%s returned %#v, the Type callback returned %s", what, r.ty, pl.R)
	}
	return "type", nil
}

func checkMarks(pl *plan, what string, res cty.Value, extra map[string]bool) *facet.Failure {
	got := marksOf(res)
	for m := range pl.M {
		if !got[m] {
			return facet.Failf("marks-lost", "%s: result %#v lacks mark %q of an argument whose parameter is not AllowMarked (expected at least %s)", what, res, m, markList(pl.M))
		}
	}
	for m := range got {
		if !pl.all[m] && !extra[m] {
			return facet.Failf("marks-invented", "%s: result carries mark %q that no argument and no Impl result carries", what, m)
		}
	}
	return nil
}

// judgeShort checks a short-circuit result: unknown of type R (DynamicVal when
// R is dynamic), all marks of M, declared refinement.
func judgeShort(pl *plan, f Func, what string, r callResult, ty cty.Type) *facet.Failure {
	if r.err != nil {
		return facet.Failf("outcome", "%s: expected an unknown result of type %#v, got %s", what, ty, describeErr(r.err))
	}
	if r.val == cty.NilVal {
		return facet.Failf("outcome", "%s: nil error with NilVal result", what)
	}
	if fl := wf.Check(r.val); fl != nil {
		return fl
	}
	if fl := checkMarks(pl, what, r.val, nil); fl != nil {
		return fl
	}
	u := strip(r.val)
	if !u.Type().Equals(ty) {
		return facet.Failf("short-type", "%s: short-circuit result %#v has type %#v, the checked return type is %#v", what, u, u.Type(), ty)
	}
	ref := f.Refine
	if ty == cty.DynamicPseudoType {
		ref = nil
	}
	if ref == nil || !collapsible(ref) {
		if u.IsKnown() {
			return facet.Failf("short-known", "%s: expected an unknown result, got %#v", what, u)
		}
	}
	if fl := refineVisible(ref, u); fl != nil {
		fl.Msg = what + " (short-circuit): " + fl.Msg
		return fl
	}
	if ref != nil {
		if ref.Null == "notnull" && u.IsKnown() && u.IsNull() {
			return facet.Failf("refine-missing/notnull", "%s: null result under a declared NotNull refinement", what)
		}
		want, ok := applyRefine(ref, cty.UnknownVal(ty))
		if ok && !sameVal(u, want) {
			return facet.Failf("refine-differs", "%s: short-circuit result %#v is not the refined unknown %#v", what, u, want)
		}
	}
	return nil
}

// judgeCall checks one Function.Call against the model. unpredictable=true
// means f was wrapped by function.Unpredictable (the spy Impl must never run
// and the Impl stage yields an unknown of the checked type).
func judgeCall(pl *plan, f Func, rec *recorder, what string, r callResult, unpredictable bool) (string, *facet.Failure) {
	done, label, fl := judgeArgPhase(pl, f, rec, what, r, true)
	if fl != nil {
		return "", fl
	}
	_, impls := rec.split()
	if unpredictable && len(impls) > 0 {
		return "", facet.Failf("unpredictable-ran-impl", "%s: the wrapped function's Impl ran", what)
	}
	if done {
		if strings.HasPrefix(label, "dynamic") {
			if fl := judgeShort(pl, Func{}, what, r, cty.DynamicPseudoType); fl != nil {
				return "", fl
			}
		}
		if r.err != nil && r.val != cty.NilVal {
			return "", facet.Failf("value-with-error", "%s returned both an error and the value %#v", what, r.val)
		}
		return label, nil
	}
	if len(pl.U) > 0 {
		if len(impls) > 0 {
			return "", facet.Failf("impl-ran", "%s: Impl ran although arguments %s are unknown and AllowUnknown is off", what, ints(pl.U))
		}
		if fl := judgeShort(pl, f, what, r, pl.Rcty); fl != nil {
			return "", fl
		}
		return "unknown-shortcircuit", nil
	}
	if unpredictable {
		if fl := judgeShort(pl, f, what, r, pl.Rcty); fl != nil {
			return "", fl
		}
		return "unpredictable-unknown", nil
	}
	if len(impls) == 0 {
		return "", facet.Failf("impl-not-run", "%s: every argument satisfies its contract and Type accepted, but Impl did not run (got %#v, %s)", what, r.val, describeErr(r.err))
	}
	if len(impls) > 1 {
		return "", facet.Failf("impl-twice", "%s: Impl ran %d times", what, len(impls))
	}
	ie := impls[0]
	if same, why := argsEqual(ie.args, pl.cbArgs); !same {
		return "", facet.Failf("impl-args", "%s: Impl arguments differ from the call's arguments with marks stripped where AllowMarked is off: %s", what, why)
	}
	if !ie.retType.Equals(pl.Rcty) {
		return "", facet.Failf("impl-rettype", "%s: Impl received retType %#v, the Type callback returned %s", what, ie.retType, pl.R)
	}
	switch pl.impl.outcome {
	case "error":
		if r.err != errImpl {
			return "", facet.Failf("outcome", "%s: Impl failed, expected its error, got %#v / %s", what, r.val, describeErr(r.err))
		}
		if r.val != cty.NilVal {
			return "", facet.Failf("value-with-error", "%s returned both an error and the value %#v", what, r.val)
		}
		return "impl-error", nil
	case "panic":
		pe, ok := asPanicError(r.err)
		if !ok || pe.Value != any(panicImpl) {
			return "", facet.Failf("outcome", "%s: Impl panicked, expected a PanicError carrying its value, got %#v / %s", what, r.val, describeErr(r.err))
		}
		if r.val != cty.NilVal {
			return "", facet.Failf("value-with-error", "%s returned both an error and the value %#v", what, r.val)
		}
		return "impl-panic", nil
	case "nonconforming":
		if r.err == nil {
			return "", facet.Failf("nonconforming-returned", "%s: Impl returned %#v, which does not conform to the checked return type %s, and Call returned %#v without an error", what, pl.impl.ret, pl.R, r.val)
		}
		if r.val != cty.NilVal {
			return "", facet.Failf("value-with-error", "%s returned both an error and the value %#v", what, r.val)
		}
		return "impl-nonconforming", nil
	}
	// a conforming value
	if r.err != nil {
		return "", facet.Failf("outcome", "%s: Impl returned the conforming value %#v, got %s", what, pl.impl.ret, describeErr(r.err))
	}
	if r.val == cty.NilVal {
		return "", facet.Failf("outcome", "%s: nil error with NilVal result", what)
	}
	if fl := wf.Check(r.val); fl != nil {
		return "", fl
	}
	if fl := checkMarks(pl, what, r.val, marksOf(pl.impl.ret)); fl != nil {
		return "", fl
	}
	for m := range marksOf(pl.impl.ret) {
		if !marksOf(r.val)[m] {
			return "", facet.Failf("marks-lost", "%s: result lacks mark %q that the Impl result carried", what, m)
		}
	}
	u := strip(r.val)
	if errs := spec.FromCty(u.Type()).Conforms(pl.R); !errs {
		return "", facet.Failf("nonconforming-returned", "%s: result type %#v does not conform to the checked return type %s", what, u.Type(), pl.R)
	}
	want, ok := applyRefine(f.Refine, strip(pl.impl.ret))
	if ok && !sameVal(u, want) {
		return "", facet.Failf("value-differs", "%s: result %#v differs from the Impl result (refined) %#v", what, u, want)
	}
	if f.Refine != nil && !u.IsKnown() {
		if fl := refineVisible(f.Refine, u); fl != nil {
			fl.Msg = what + " (Impl result): " + fl.Msg
			return "", fl
		}
	}
	if !u.IsKnown() {
		return "value-unknown", nil
	}
	return "value", nil
}
