package c03

import (
	"bytes"
	"fmt"
	"strings"

	"github.com/zclconf/go-cty/cty"
	"pgregory.net/rapid"

	"verif/harness/facet"
	"verif/harness/spec"
	"verif/harness/wf"
)

// element types of the set facets; the compound ones carry numbers so that
// the collision families reach the hash of a compound member
var elemTypes = []spec.T{
	spec.Number, spec.Number, spec.Number, spec.String, spec.String, spec.Bool,
	spec.Tuple(spec.Number), spec.Tuple(spec.Number), spec.Tuple(spec.Number, spec.String), spec.List(spec.Number), spec.List(spec.Number),
	spec.Object(spec.Attr{Name: "a", T: spec.Number}), spec.Map(spec.Number), spec.Set(spec.Number), spec.Tuple(spec.Set(spec.Number)),
	spec.Tuple(spec.String, spec.Bool), spec.List(spec.String), spec.Set(spec.String), spec.Set(spec.Tuple(spec.Number)),
	spec.CapsuleT("A"), spec.CapsuleT("B"), spec.Tuple(spec.CapsuleT("B"), spec.Number),
}

// drawPool draws n same-typed element specs, dense in equal and colliding members.
func drawPool(t *rapid.T, minN, maxN int, unk bool) (spec.T, []spec.V) {
	ety := rapid.SampledFrom(elemTypes).Draw(t, "ety")
	fam := rapid.IntRange(0, nFamilies-2).Draw(t, "family") // not the extreme-exponent family: formatting them dominates the run time
	if rapid.IntRange(0, 3).Draw(t, "onebucket") == 0 {
		fam = 1 // whole numbers with one 10-digit prefix: every member lands in one bucket
	}
	n := rapid.IntRange(minN, maxN).Draw(t, "npool")
	if minN >= 3 {
		n = maxN + minN - n // rapid favours small values; the stateful facets want large pools
	}
	o := valOpts{Null: true, Unknown: unk, Fam: fam, Max: 2}
	var pool []spec.V
	for len(pool) < n {
		k := rapid.IntRange(0, 4).Draw(t, "how")
		switch {
		case k <= 2 || len(pool) == 0:
			pool = append(pool, drawVal(t, ety, o))
		case k == 3:
			pool = append(pool, reroute(t, pool[rapid.IntRange(0, len(pool)-1).Draw(t, "src")]))
		default:
			p, _ := perturb(t, pool[rapid.IntRange(0, len(pool)-1).Draw(t, "src")])
			pool = append(pool, p)
		}
	}
	return ety, pool
}

// sameTyped checks that every pool member really has the element type.
func sameTyped(ety spec.T, pm *poolModel) bool {
	want := ety.Cty()
	for _, v := range pm.vals {
		if !v.Type().Equals(want) || v.ContainsMarked() {
			return false
		}
	}
	return true
}

// hashes of the pool members (classification and diagnosis only)
func poolHashes(pm *poolModel) []int {
	hs := make([]int, len(pm.vals))
	for i, v := range pm.vals {
		hs[i], _ = safeHash(v)
	}
	return hs
}

// ---------------------------------------------------------------- model sets

// mset is the model of one set: the model identities of its members, in
// insertion order (wholly-known members at most once, others as often as added).
type mset struct{ keys []string }

func (m mset) clone() mset { return mset{append([]string(nil), m.keys...)} }
func (m mset) has(k string) bool {
	for _, x := range m.keys {
		if x == k {
			return true
		}
	}
	return false
}
func (m *mset) add(k string, unknownish bool) bool {
	if !unknownish && m.has(k) {
		return false
	}
	m.keys = append(m.keys, k)
	return true
}
func (m *mset) remove(k string) bool {
	for i, x := range m.keys {
		if x == k {
			m.keys = append(append([]string(nil), m.keys[:i]...), m.keys[i+1:]...)
			return true
		}
	}
	return false
}
func (m mset) hasUnknownish() bool {
	for _, k := range m.keys {
		if strings.HasPrefix(k, "u:") {
			return true
		}
	}
	return false
}

func mUnion(a, b mset) mset {
	out := a.clone()
	for _, k := range b.keys {
		if !out.has(k) {
			out.keys = append(out.keys, k)
		}
	}
	return out
}
func mInter(a, b mset) mset {
	var out mset
	for _, k := range a.keys {
		if b.has(k) {
			out.keys = append(out.keys, k)
		}
	}
	return out
}
func mSub(a, b mset) mset {
	var out mset
	for _, k := range a.keys {
		if !b.has(k) {
			out.keys = append(out.keys, k)
		}
	}
	return out
}
func mSym(a, b mset) mset { return mUnion(mSub(a, b), mSub(b, a)) }

// verifyMembers compares observed members with a model set.
func (pm *poolModel) verifyMembers(what string, vals []cty.Value, length int, want mset) *facet.Failure {
	if length != len(want.keys) {
		return facet.Failf("set-length", "%s: length %d, model has %d members %s", what, length, len(want.keys), showCounts(countKeys(want.keys))).With("what", what)
	}
	var got []string
	for _, v := range vals {
		k, ok := pm.keyOfValue(v)
		if !ok {
			return facet.Failf("set-foreign-member", "%s: holds %#v, which is none of the values it was given", what, v).With("what", what)
		}
		got = append(got, k)
	}
	gc, wc := countKeys(got), countKeys(want.keys)
	if !sameCounts(gc, wc) {
		kind := "set-members"
		for k, n := range gc {
			if n > 1 && strings.HasPrefix(k, "c") {
				kind = "set-duplicate"
			}
		}
		return facet.Failf(kind, "%s: members %s, model %s (classes are indices of the first equal pool member)", what, showCounts(gc), showCounts(wc)).With("what", what)
	}
	return nil
}

func (pm *poolModel) verifyValueSet(what string, s cty.ValueSet, want mset) *facet.Failure {
	if f := pm.verifyMembers(what, s.Values(), s.Length(), want); f != nil {
		return f
	}
	for i, v := range pm.vals {
		exp := !pm.unknownish(i) && want.has(pm.keyOfIndex(i))
		if got := s.Has(v); got != exp {
			return facet.Failf("set-has", "%s: Has(pool[%d] = %#v) = %t, model %t (model members %s)", what, i, v, got, exp, showCounts(countKeys(want.keys))).With("what", what)
		}
	}
	return nil
}

func (pm *poolModel) verifySetValue(what string, v cty.Value, ety cty.Type, want mset, deep bool) *facet.Failure {
	if deep {
		if f := wf.Check(v); f != nil {
			return f
		}
	}
	if !v.Type().Equals(cty.Set(ety)) || !v.IsKnown() || v.IsNull() {
		return facet.Failf("set-value-type", "%s: not a known set of the element type: %#v", what, v)
	}
	if f := pm.verifyMembers(what, members(v), v.LengthInt(), want); f != nil {
		return f
	}
	if want.hasUnknownish() || !deep {
		return nil
	}
	for i, e := range pm.vals {
		if pm.unknownish(i) {
			continue
		}
		r := v.HasElement(e)
		exp := want.has(pm.keyOfIndex(i))
		if !r.IsKnown() || r.IsNull() || r.True() != exp {
			return facet.Failf("set-haselement", "%s: HasElement(pool[%d] = %#v) = %#v, model %t", what, i, e, r, exp).With("what", what)
		}
	}
	return nil
}

// ---------------------------------------------------------------- set/history

// Step is one call in a history.
type Step struct {
	Op  string `json:"op"`
	R   int    `json:"r"`
	R2  int    `json:"r2,omitempty"`
	Dst int    `json:"dst,omitempty"`
	E   int    `json:"e,omitempty"`
}

// History is the input of set/history.
type History struct {
	ElemT spec.T   `json:"elem_t"`
	Pool  []spec.V `json:"pool"`
	Steps []Step   `json:"steps"`
}

const nRegs = 3

var stepOps = []string{"add", "add", "add", "add", "add", "add", "add", "remove", "remove-member", "remove-member", "has", "copy", "copy",
	"union", "intersection", "subtract", "symdiff", "wrap", "wrap", "unwrap"}

func genHistory(t *rapid.T) History {
	unk := rapid.IntRange(0, 5).Draw(t, "unknowns") == 0
	ety, pool := drawPool(t, 3, 8, unk)
	n := rapid.IntRange(4, 28).Draw(t, "nsteps")
	h := History{ElemT: ety, Pool: pool}
	for i := 0; i < n; i++ {
		s := Step{Op: rapid.SampledFrom(stepOps).Draw(t, "op"), R: rapid.IntRange(0, nRegs-1).Draw(t, "r")}
		switch s.Op {
		case "add", "remove", "has":
			s.E = rapid.IntRange(0, len(pool)-1).Draw(t, "e")
		case "remove-member":
			// remove the E-th current member (in model order), named through
			// the last pool member of its class (often another representative)
			s.E = rapid.IntRange(0, 7).Draw(t, "k")
		case "copy":
			s.Dst = rapid.IntRange(0, nRegs-1).Draw(t, "dst")
		case "union", "intersection", "subtract", "symdiff":
			s.R2 = rapid.IntRange(0, nRegs-1).Draw(t, "r2")
			s.Dst = rapid.IntRange(0, nRegs-1).Draw(t, "dst")
		case "unwrap":
			s.E = rapid.IntRange(0, 3).Draw(t, "w")
			s.Dst = rapid.IntRange(0, nRegs-1).Draw(t, "dst")
		}
		h.Steps = append(h.Steps, s)
		if s.Op == "copy" && s.Dst != s.R && rapid.IntRange(0, 3).Draw(t, "diverge") > 0 {
			// copy, then let the two sets diverge: alternate insertions into both
			// ("add-fresh" inserts the E-th pool member that the set does not hold yet)
			for k := rapid.IntRange(1, 3).Draw(t, "burst"); k > 0; k-- {
				h.Steps = append(h.Steps,
					Step{Op: "add-fresh", R: s.Dst, E: rapid.IntRange(0, 2).Draw(t, "e1")},
					Step{Op: "add-fresh", R: s.R, E: rapid.IntRange(0, 2).Draw(t, "e2")})
			}
		}
	}
	return h
}

type wrapped struct {
	v    cty.Value
	want mset
	at   int
}

func checkHistory(c *facet.Ctx, h History, independentCopy bool) (ret error) {
	pm, err := newPoolModel(h.Pool)
	if err != nil || len(h.Pool) == 0 || !sameTyped(h.ElemT, pm) {
		c.Skip()
		return nil
	}
	ety := h.ElemT.Cty()
	hs := poolHashes(pm)
	c.Label("ety=" + h.ElemT.String())
	regs := make([]cty.ValueSet, nRegs)
	models := make([]mset, nRegs)
	for i := range regs {
		regs[i] = cty.NewValueSet(ety)
	}
	var wraps []wrapped
	sameBucket, removes, algebra, copies := 0, 0, 0, 0
	stepNo := 0
	defer func() {
		if r := recover(); r != nil {
			ret = facet.Failf("set-op-panic", "step %d (%+v) panicked: %v", stepNo, h.Steps[stepNo], r)
		}
	}()
	for i, s := range h.Steps {
		stepNo = i
		if s.R < 0 || s.R >= nRegs || s.R2 < 0 || s.R2 >= nRegs || s.Dst < 0 || s.Dst >= nRegs || s.E < 0 {
			continue
		}
		if s.Op == "add-fresh" {
			s.Op = "add"
			var fresh []int
			for j := range pm.vals {
				if !pm.unknownish(j) && !models[s.R].has(pm.keyOfIndex(j)) {
					dup := false
					for _, f := range fresh {
						if pm.keyOfIndex(f) == pm.keyOfIndex(j) {
							dup = true
						}
					}
					if !dup {
						fresh = append(fresh, j)
					}
				}
			}
			if len(fresh) == 0 {
				continue
			}
			s.E = fresh[s.E%len(fresh)]
		}
		if s.Op == "remove-member" {
			s.Op = "remove"
			var known []string
			for _, k := range models[s.R].keys {
				if !strings.HasPrefix(k, "u:") {
					known = append(known, k)
				}
			}
			if len(known) == 0 {
				continue
			}
			k := known[s.E%len(known)]
			for j := len(pm.vals) - 1; j >= 0; j-- {
				if pm.keyOfIndex(j) == k {
					s.E = j
					break
				}
			}
		}
		switch s.Op {
		case "add", "remove", "has":
			if s.E >= len(pm.vals) {
				continue
			}
			k, u := pm.keyOfIndex(s.E), pm.unknownish(s.E)
			switch s.Op {
			case "add":
				for j := range pm.vals {
					if models[s.R].has(pm.keyOfIndex(j)) && hs[j] == hs[s.E] {
						sameBucket++
						break
					}
				}
				regs[s.R].Add(pm.vals[s.E])
				models[s.R].add(k, u)
			case "remove":
				regs[s.R].Remove(pm.vals[s.E])
				if !u && models[s.R].remove(k) {
					removes++
				}
			case "has":
				// checked for every pool member after every step
			}
		case "copy":
			if independentCopy {
				// diagnosis only: a copy that shares nothing with its source
				nv := cty.NewValueSet(ety)
				for _, x := range regs[s.R].Values() {
					nv.Add(x)
				}
				regs[s.Dst] = nv
			} else {
				regs[s.Dst] = regs[s.R].Copy()
			}
			models[s.Dst] = models[s.R].clone()
			copies++
		case "union", "intersection", "subtract", "symdiff":
			a, b := models[s.R], models[s.R2]
			if a.hasUnknownish() || b.hasUnknownish() {
				c.Label("algebra-skipped-unknown-members")
				continue
			}
			var rs cty.ValueSet
			var rm mset
			switch s.Op {
			case "union":
				rs, rm = regs[s.R].Union(regs[s.R2]), mUnion(a, b)
			case "intersection":
				rs, rm = regs[s.R].Intersection(regs[s.R2]), mInter(a, b)
			case "subtract":
				rs, rm = regs[s.R].Subtract(regs[s.R2]), mSub(a, b)
			default:
				rs, rm = regs[s.R].SymmetricDifference(regs[s.R2]), mSym(a, b)
			}
			regs[s.Dst], models[s.Dst] = rs, rm
			algebra++
		case "wrap":
			wraps = append(wraps, wrapped{v: cty.SetValFromValueSet(regs[s.R]), want: models[s.R].clone(), at: i})
		case "unwrap":
			if len(wraps) == 0 {
				continue
			}
			w := wraps[s.E%len(wraps)]
			if w.want.hasUnknownish() {
				// AsValueSet re-adds the members; unknown members stay distinct
			}
			regs[s.Dst] = w.v.AsValueSet()
			models[s.Dst] = w.want.clone()
		default:
			continue
		}
		for r := range regs {
			if f := pm.verifyValueSet(fmt.Sprintf("after step %d (%s): register %d", i, s.Op, r), regs[r], models[r]); f != nil {
				return f.With("step", s.Op).With("copies", fmt.Sprint(copies))
			}
		}
		for wi, w := range wraps {
			if f := pm.verifySetValue(fmt.Sprintf("after step %d (%s): set value %d wrapped at step %d", i, s.Op, wi, w.at), w.v, ety, w.want, w.at == i || i == len(h.Steps)-1); f != nil {
				return f.With("step", s.Op).With("copies", fmt.Sprint(copies)).With("wrapped", "true")
			}
		}
	}
	if sameBucket > 0 {
		c.Label("same-bucket-insertion")
	}
	if removes > 0 {
		c.Label("effective-remove")
	}
	if algebra > 0 {
		c.Label("algebra")
	}
	if copies > 0 {
		c.Label("copy")
	}
	if len(wraps) > 0 {
		c.Label("wrap")
	}
	if sameBucket > 0 && removes > 0 && algebra > 0 {
		c.NonTrivial()
	}
	return nil
}

// ---------------------------------------------------------------- set/permutation

// PermCase is the input of set/permutation.
type PermCase struct {
	ElemT spec.T   `json:"elem_t"`
	Elems []spec.V `json:"elems"`
}

func permutations(n int) [][]int {
	var out [][]int
	cur := make([]int, 0, n)
	used := make([]bool, n)
	var rec func()
	rec = func() {
		if len(cur) == n {
			out = append(out, append([]int(nil), cur...))
			return
		}
		for i := 0; i < n; i++ {
			if !used[i] {
				used[i] = true
				cur = append(cur, i)
				rec()
				cur = cur[:len(cur)-1]
				used[i] = false
			}
		}
	}
	rec()
	return out
}

func keySeq(pm *poolModel, v cty.Value) ([]string, *facet.Failure) {
	out, _, f := keySeqSig(pm, v)
	return out, f
}

// keySeqSig also returns the exact identity of the iteration sequence (which
// representative of each class, in which order).
func keySeqSig(pm *poolModel, v cty.Value) ([]string, string, *facet.Failure) {
	var out []string
	var sig strings.Builder
	for _, e := range members(v) {
		f := fp(e)
		idx := -1
		for i, x := range pm.fps {
			if x == f {
				idx = i
				break
			}
		}
		if idx < 0 {
			return nil, "", facet.Failf("set-foreign-member", "set holds %#v, which is none of the values it was built from", e)
		}
		out = append(out, pm.keyOfIndex(idx))
		fmt.Fprintf(&sig, "%d,", idx)
	}
	return out, sig.String(), nil
}

// seqSame compares two iteration sequences (model keys). Members that are not
// wholly known have no reference class; two of them count as the same member
// when they are RawEqual (sets inside compared as sets), e.g. when they differ
// only in the precision of a number.
func seqSame(seq, refSeq []string, v, ref cty.Value) bool {
	if len(seq) != len(refSeq) {
		return false
	}
	var mv, mr []cty.Value
	for i := range seq {
		if seq[i] == refSeq[i] {
			continue
		}
		if !strings.HasPrefix(seq[i], "u:") || !strings.HasPrefix(refSeq[i], "u:") {
			return false
		}
		if mv == nil {
			mv, mr = members(v), members(ref)
		}
		if !eqModOrder(mv[i], mr[i]) {
			return false
		}
	}
	return true
}

func orderFailure(kind, msg string, ref, v cty.Value, specs []spec.V) *facet.Failure {
	f := facet.Failf(kind, "%s\nfirst  = %#v\nsecond = %#v", msg, ref, v)
	return withOrderData(f, ref, v, specs...)
}

func checkPermutations(c *facet.Ctx, pc PermCase) error {
	if len(pc.Elems) == 0 || len(pc.Elems) > 5 {
		c.Skip()
		return nil
	}
	pm, err := newPoolModel(pc.Elems)
	if err != nil || !sameTyped(pc.ElemT, pm) {
		c.Skip()
		return nil
	}
	c.Label("ety=" + pc.ElemT.String())
	c.Labelf("n=%d", len(pc.Elems))
	ety := pc.ElemT.Cty()
	capsuleFree := !pc.ElemT.HasCapsule()
	var want mset
	allKnown := true
	for i := range pm.vals {
		want.add(pm.keyOfIndex(i), pm.unknownish(i))
		if pm.unknownish(i) {
			allKnown = false
		}
	}
	hs := poolHashes(pm)
	collide := false
	for i := range hs {
		for j := 0; j < i; j++ {
			if hs[i] == hs[j] {
				collide = true
			}
		}
	}
	var ref cty.Value
	var refSeq []string
	var refHash int
	seenSig := map[string]bool{}
	perms := permutations(len(pc.Elems))
	nPerms := len(perms)
	for pi, perm := range perms {
		vals := make([]cty.Value, len(perm))
		for i, j := range perm {
			vals[i] = pm.vals[j]
		}
		var v cty.Value
		if pi%2 == 0 {
			v = cty.SetVal(vals)
		} else {
			vs := cty.NewValueSet(ety)
			for _, x := range vals {
				vs.Add(x)
			}
			v = cty.SetValFromValueSet(vs)
		}
		what := fmt.Sprintf("set built from input order %v", perm)
		if pi == 0 || pi == nPerms-1 {
			if f := pm.verifySetValue(what, v, ety, want, true); f != nil {
				return f
			}
		}
		seq, sig, f := keySeqSig(pm, v)
		if f != nil {
			return f
		}
		if n := v.LengthInt(); n != len(want.keys) || !sameCounts(countKeys(seq), countKeys(want.keys)) {
			return facet.Failf("set-members", "%s: LengthInt %d, members %s, model %s", what, n, showCounts(countKeys(seq)), showCounts(countKeys(want.keys)))
		}
		if pi == 0 {
			ref, refSeq = v, seq
			refHash, _ = safeHash(ref)
			seenSig[sig] = true
			continue
		}
		// A permutation that yields exactly the members (same representatives)
		// in exactly the order of an earlier permutation is the same set value
		// as far as Equals / RawEquals / Hash can tell: compare once per
		// distinct outcome (those calls dominate the run time).
		if seenSig[sig] && pi != nPerms-1 {
			continue
		}
		seenSig[sig] = true
		c.Label("distinct-outcome")
		// equality of the two set values (operand order alternates)
		x, y := ref, v
		if pi%4 >= 2 {
			x, y = v, ref
		}
		eq, pan := safeEquals(x, y)
		if pan != nil {
			return facet.Failf("equals-panic", "Equals of two sets panicked: %v", pan)
		}
		if allKnown {
			if !eq.IsKnown() || !eq.True() {
				return orderFailure("perm-not-equal", fmt.Sprintf("sets built from the same members in order %v and in the first order are not Equal (%#v)", perm, eq), ref, v, pc.Elems)
			}
			if h2, _ := safeHash(v); h2 != refHash {
				return orderFailure("perm-hash", fmt.Sprintf("equal sets built in order %v and in the first order hash differently", perm), ref, v, pc.Elems)
			}
		}
		if !capsuleFree {
			continue
		}
		if !seqSame(seq, refSeq, v, ref) {
			return orderFailure("perm-order", fmt.Sprintf("iteration order depends on insertion order: built in order %v iterates %v, built in the first order iterates %v", perm, seq, refSeq), ref, v, pc.Elems)
		}
		if r, _ := safeRawEquals(x, y); !r {
			return orderFailure("perm-rawequals", fmt.Sprintf("sets built from the same members in order %v and in the first order are not RawEqual", perm), ref, v, pc.Elems)
		}
	}
	dup := len(want.keys) < len(pc.Elems)
	if dup {
		c.Label("equal-inputs")
	}
	if collide {
		c.Label("hash-collision")
	}
	if !allKnown {
		c.Label("unknown-members")
	}
	if len(pc.Elems) >= 3 && (dup || collide) {
		c.NonTrivial()
	}
	return nil
}

// ---------------------------------------------------------------- set/algebra

// AlgebraCase is the input of set/algebra.
type AlgebraCase struct {
	ElemT spec.T   `json:"elem_t"`
	Pool  []spec.V `json:"pool"`
	A     []int    `json:"a"`
	B     []int    `json:"b"`
	Via   int      `json:"via"`
}

func buildVia(pm *poolModel, ety cty.Type, idx []int, via int) (cty.ValueSet, mset) {
	var m mset
	for _, i := range idx {
		m.add(pm.keyOfIndex(i), false)
	}
	switch {
	case via == 1 && len(idx) > 0:
		vals := make([]cty.Value, len(idx))
		for i, j := range idx {
			vals[i] = pm.vals[j]
		}
		return cty.SetVal(vals).AsValueSet(), m
	case via == 2:
		s := cty.NewValueSet(ety)
		for _, v := range pm.vals {
			s.Add(v)
		}
		for i, v := range pm.vals {
			if !m.has(pm.keyOfIndex(i)) {
				s.Remove(v)
			}
		}
		return s, m
	}
	s := cty.NewValueSet(ety)
	for _, i := range idx {
		s.Add(pm.vals[i])
	}
	return s, m
}

func checkAlgebra(c *facet.Ctx, ac AlgebraCase) (ret error) {
	pm, err := newPoolModel(ac.Pool)
	if err != nil || len(ac.Pool) == 0 || !sameTyped(ac.ElemT, pm) {
		c.Skip()
		return nil
	}
	for i := range pm.vals {
		if pm.unknownish(i) {
			c.Skip()
			return nil
		}
	}
	for _, i := range append(append([]int(nil), ac.A...), ac.B...) {
		if i < 0 || i >= len(pm.vals) {
			c.Skip()
			return nil
		}
	}
	defer func() {
		if r := recover(); r != nil {
			ret = facet.Failf("set-op-panic", "set algebra panicked: %v", r)
		}
	}()
	ety := ac.ElemT.Cty()
	c.Label("ety=" + ac.ElemT.String())
	c.Labelf("via=%d", ac.Via)
	sa, ma := buildVia(pm, ety, ac.A, ac.Via)
	sb, mb := buildVia(pm, ety, ac.B, (ac.Via+1)%3)
	if f := pm.verifyValueSet("operand a", sa, ma); f != nil {
		return f
	}
	if f := pm.verifyValueSet("operand b", sb, mb); f != nil {
		return f
	}
	type opr struct {
		name string
		got  cty.ValueSet
		want mset
	}
	ops := []opr{
		{"a.Union(b)", sa.Union(sb), mUnion(ma, mb)},
		{"b.Union(a)", sb.Union(sa), mUnion(mb, ma)},
		{"a.Intersection(b)", sa.Intersection(sb), mInter(ma, mb)},
		{"b.Intersection(a)", sb.Intersection(sa), mInter(mb, ma)},
		{"a.Subtract(b)", sa.Subtract(sb), mSub(ma, mb)},
		{"b.Subtract(a)", sb.Subtract(sa), mSub(mb, ma)},
		{"a.SymmetricDifference(b)", sa.SymmetricDifference(sb), mSym(ma, mb)},
		{"b.SymmetricDifference(a)", sb.SymmetricDifference(sa), mSym(mb, ma)},
		{"a.Union(a)", sa.Union(sa), ma},
		{"a.Intersection(a)", sa.Intersection(sa), ma},
		{"a.Subtract(a)", sa.Subtract(sa), mset{}},
		{"a.SymmetricDifference(a)", sa.SymmetricDifference(sa), mset{}},
	}
	for oi, o := range ops {
		if f := pm.verifyValueSet(o.name, o.got, o.want); f != nil {
			return f.With("op", o.name)
		}
		if f := pm.verifySetValue(o.name+" wrapped", cty.SetValFromValueSet(o.got), ety, o.want, oi < 8 && oi%2 == 0); f != nil {
			return f.With("op", o.name)
		}
	}
	// commutative results are equal set values
	for _, pr := range [][2]int{{0, 1}, {2, 3}, {6, 7}} {
		x, y := cty.SetValFromValueSet(ops[pr[0]].got), cty.SetValFromValueSet(ops[pr[1]].got)
		if eq := x.Equals(y); !eq.IsKnown() || !eq.True() {
			return facet.Failf("algebra-commutative", "%s and %s are not Equal: %#v / %#v", ops[pr[0]].name, ops[pr[1]].name, x, y)
		}
		hx, _ := safeHash(x)
		hy, _ := safeHash(y)
		if hx != hy {
			return orderFailure("algebra-hash", fmt.Sprintf("%s and %s are Equal but hash differently", ops[pr[0]].name, ops[pr[1]].name), x, y, ac.Pool)
		}
	}
	// the operands are untouched
	if f := pm.verifyValueSet("operand a after the operations", sa, ma); f != nil {
		return f
	}
	if f := pm.verifyValueSet("operand b after the operations", sb, mb); f != nil {
		return f
	}
	inter, onlyA, onlyB := len(mInter(ma, mb).keys), len(mSub(ma, mb).keys), len(mSub(mb, ma).keys)
	if inter > 0 {
		c.Label("overlap")
	}
	if onlyA > 0 && onlyB > 0 {
		c.Label("neither-contains-the-other")
	}
	c.Labelf("classes=%d", len(mUnion(ma, mb).keys))
	hs := poolHashes(pm)
	dense := false
	for i := range hs {
		for j := 0; j < i; j++ {
			if hs[i] == hs[j] {
				dense = true
			}
		}
	}
	if dense {
		c.Label("equal-or-colliding-pool")
	}
	if inter > 0 && onlyA > 0 && onlyB > 0 && dense {
		c.NonTrivial()
	}
	return nil
}

// ---------------------------------------------------------------- set/iteration-order

// OrderCase is the input of set/iteration-order.
type OrderCase struct {
	ElemT  spec.T   `json:"elem_t"`
	Pool   []spec.V `json:"pool"`
	Final  []int    `json:"final"`
	Perm   []int    `json:"perm"` // another order of Final (positions)
	Extras []int    `json:"extras"`
	Split  int      `json:"split"`
}

func checkOrder(c *facet.Ctx, oc OrderCase) (ret error) {
	pm, err := newPoolModel(oc.Pool)
	if err != nil || len(oc.Pool) == 0 || !sameTyped(oc.ElemT, pm) || len(oc.Perm) != len(oc.Final) {
		c.Skip()
		return nil
	}
	seen := map[int]bool{}
	for _, p := range oc.Perm {
		if p < 0 || p >= len(oc.Final) || seen[p] {
			c.Skip()
			return nil
		}
		seen[p] = true
	}
	for _, i := range append(append([]int(nil), oc.Final...), oc.Extras...) {
		if i < 0 || i >= len(pm.vals) {
			c.Skip()
			return nil
		}
	}
	defer func() {
		if r := recover(); r != nil {
			ret = facet.Failf("set-op-panic", "building a set panicked: %v", r)
		}
	}()
	ety := oc.ElemT.Cty()
	c.Label("ety=" + oc.ElemT.String())
	var want mset
	allKnown := true
	for _, i := range oc.Final {
		want.add(pm.keyOfIndex(i), pm.unknownish(i))
		if pm.unknownish(i) {
			allKnown = false
		}
	}
	finalVals := func(order []int) []cty.Value {
		out := make([]cty.Value, len(order))
		for i, p := range order {
			out[i] = pm.vals[oc.Final[p]]
		}
		return out
	}
	ident := make([]int, len(oc.Final))
	for i := range ident {
		ident[i] = i
	}
	type route struct {
		name string
		v    cty.Value
	}
	var routes []route
	mk := func(vals []cty.Value) cty.Value {
		if len(vals) == 0 {
			return cty.SetValEmpty(ety)
		}
		return cty.SetVal(vals)
	}
	routes = append(routes, route{"SetVal(members)", mk(finalVals(ident))})
	routes = append(routes, route{"SetVal(members in another order)", mk(finalVals(oc.Perm))})
	{
		// add extras first, then the members in the other order, then remove the extras again
		s := cty.NewValueSet(ety)
		for _, e := range oc.Extras {
			if !pm.unknownish(e) {
				s.Add(pm.vals[e])
			}
		}
		for _, v := range finalVals(oc.Perm) {
			s.Add(v)
		}
		for _, e := range oc.Extras {
			if !pm.unknownish(e) && !want.has(pm.keyOfIndex(e)) {
				s.Remove(pm.vals[e])
			}
		}
		routes = append(routes, route{"ValueSet add extras / add members / remove extras", cty.SetValFromValueSet(s)})
	}
	if allKnown {
		split := oc.Split
		if split < 0 || split > len(oc.Final) {
			split = 0
		}
		s1, s2 := cty.NewValueSet(ety), cty.NewValueSet(ety)
		for i, v := range finalVals(oc.Perm) {
			if i < split {
				s1.Add(v)
			} else {
				s2.Add(v)
			}
		}
		routes = append(routes, route{"union of two parts", cty.SetValFromValueSet(s2.Union(s1))})
	}
	routes = append(routes, route{"AsValueSet().Copy() wrapped again", cty.SetValFromValueSet(routes[1].v.AsValueSet().Copy())})

	capsuleFree := !oc.ElemT.HasCapsule()
	var refSeq []string
	for ri, r := range routes {
		if f := pm.verifySetValue(r.name, r.v, ety, want, true); f != nil {
			// with unknown members the extras route may legitimately differ in which unknowns it holds: it does not, extras are known
			return f.With("route", r.name)
		}
		seq, f := keySeq(pm, r.v)
		if f != nil {
			return f
		}
		// the three ways of iterating one value agree
		var viaSlice, viaEach []string
		if r.v.LengthInt() > 0 {
			for _, e := range r.v.AsValueSlice() {
				viaSlice = append(viaSlice, fp(e))
			}
		}
		r.v.ForEachElement(func(k, e cty.Value) bool {
			viaEach = append(viaEach, fp(e))
			return false
		})
		var viaIter []string
		for _, e := range members(r.v) {
			viaIter = append(viaIter, fp(e))
		}
		if strings.Join(viaSlice, "|") != strings.Join(viaIter, "|") || strings.Join(viaEach, "|") != strings.Join(viaIter, "|") {
			return facet.Failf("order-accessors", "%s: ElementIterator, ForEachElement and AsValueSlice disagree on the order of %#v", r.name, r.v)
		}
		if !capsuleFree {
			continue
		}
		if f := docOrder(oc.ElemT, r.v); f != nil {
			return f.With("route", r.name)
		}
		if ri == 0 {
			refSeq = seq
			continue
		}
		if !seqSame(seq, refSeq, r.v, routes[0].v) {
			return orderFailure("order-depends-on-route", fmt.Sprintf("the same members iterate in another order when the set is built by %q: %v, by %q: %v", r.name, seq, routes[0].name, refSeq), routes[0].v, r.v, oc.Pool)
		}
		if r1, _ := safeRawEquals(routes[0].v, r.v); !r1 {
			return orderFailure("order-rawequals", fmt.Sprintf("sets with the same members built by %q and by %q are not RawEqual", routes[0].name, r.name), routes[0].v, r.v, oc.Pool)
		}
	}
	if !allKnown {
		c.Label("unknown-members")
	}
	if !capsuleFree {
		c.Label("capsule-members")
	}
	moved := false
	for i, p := range oc.Perm {
		if p != i {
			moved = true
		}
	}
	if len(want.keys) >= 3 && moved && capsuleFree {
		c.NonTrivial()
	}
	return nil
}

// docOrder checks the documented order of sets of primitive values: strings
// lexicographically, numbers ascending, false before true; unknown values
// after known ones and null last.
func docOrder(ety spec.T, v cty.Value) *facet.Failure {
	if !ety.IsPrim() {
		return nil
	}
	ms := members(v)
	rank := func(x cty.Value) int {
		switch {
		case x.IsNull():
			return 2
		case !x.IsKnown():
			return 1
		}
		return 0
	}
	for i := 1; i < len(ms); i++ {
		a, b := ms[i-1], ms[i]
		ra, rb := rank(a), rank(b)
		if ra > rb {
			return facet.Failf("doc-order", "set of %s iterates a null/unknown before a known value: %#v", ety, v)
		}
		if ra != 0 || rb != 0 {
			continue
		}
		ok := true
		switch ety.K {
		case spec.KString:
			ok = bytes.Compare([]byte(a.AsString()), []byte(b.AsString())) < 0
		case spec.KNumber:
			// not strict: two members can be numerically identical without
			// being equal (one value at two precisions)
			ok = a.AsBigFloat().Cmp(b.AsBigFloat()) <= 0
		case spec.KBool:
			ok = a.False() && b.True()
		}
		if !ok {
			return facet.Failf("doc-order", "set of %s does not iterate in the documented order (members %d and %d): %#v", ety, i-1, i, v)
		}
	}
	return nil
}

func genOrder(t *rapid.T) OrderCase {
	unk := rapid.IntRange(0, 7).Draw(t, "unknowns") == 0
	ety, pool := drawPool(t, 3, 8, unk)
	idx := make([]int, len(pool))
	for i := range idx {
		idx[i] = i
	}
	sh := rapid.Permutation(idx).Draw(t, "shuffle")
	nf := rapid.IntRange(0, len(pool)).Draw(t, "nfinal")
	oc := OrderCase{ElemT: ety, Pool: pool, Final: append([]int(nil), sh[:nf]...)}
	pos := make([]int, nf)
	for i := range pos {
		pos[i] = i
	}
	if nf > 0 {
		oc.Perm = rapid.Permutation(pos).Draw(t, "perm")
	} else {
		oc.Perm = []int{}
	}
	ne := rapid.IntRange(0, len(pool)-nf).Draw(t, "nextras")
	oc.Extras = append([]int{}, sh[nf:nf+ne]...)
	oc.Split = rapid.IntRange(0, nf).Draw(t, "split")
	return oc
}

func init() {
	facet.Register(facet.F[History]{
		Prop: "C03", Name: "set/history",
		Rule:  "history of 4-28 calls (Add, Remove, Has, Copy then diverge, Union, Intersection, Subtract, SymmetricDifference, wrap as set value, unwrap) on three ValueSets over a pool of 3-8 same-typed members dense in equal and hash-colliding values, checked after every call against model sets kept under the reference equality (Length, Values, Has of every pool member; every wrapped set value re-checked after every later call); non-trivial when the history has an insertion into an occupied bucket, an effective Remove and an algebra call; distinct = hash of pool + step list",
		Quick: 6000, Thorough: 8000,
		Gen: genHistory,
		Check: func(c *facet.Ctx, h History) error {
			err := checkHistory(c, h, false)
			if err != nil {
				// differential diagnosis for the known-finding predicate: does the
				// same history pass when Copy is replaced by a copy that shares no
				// storage with its source?
				err2 := checkHistory(&facet.Ctx{}, h, true)
				facet.AsFailure(err).With("passes-with-independent-copy", fmt.Sprint(err2 == nil))
			}
			return annotate(err, h.Pool)
		},
	})
	facet.Register(facet.F[PermCase]{
		Prop: "C03", Name: "set/permutation",
		Rule:  "1-5 same-typed constructor inputs dense in equal and hash-colliding values; EVERY permutation of the inputs (exhaustive, <= 120) is built (alternating SetVal and ValueSet+SetValFromValueSet) and compared with the first: members = distinct inputs, LengthInt, HasElement, Equals both ways, equal Hash, and for capsule-free members the same iteration order and RawEquals; non-trivial when >= 3 inputs of which two are equal or collide in Hash; distinct = hash of the inputs",
		Quick: 3500, Thorough: 4000,
		Gen: func(t *rapid.T) PermCase {
			unk := rapid.IntRange(0, 7).Draw(t, "unknowns") == 0
			ety, pool := drawPool(t, 1, 5, unk)
			return PermCase{ElemT: ety, Elems: pool}
		},
		Check: func(c *facet.Ctx, pc PermCase) error { return annotate(checkPermutations(c, pc), pc.Elems) },
	})
	facet.Register(facet.F[AlgebraCase]{
		Prop: "C03", Name: "set/algebra",
		Rule:  "two sets over a pool of 3-8 wholly-known same-typed members dense in equal and colliding values, built three ways (Add, SetVal+AsValueSet, add-all-then-remove); union, intersection, difference and symmetric difference in both operand orders and with a set itself are compared with the mathematical result over reference-equality classes (Length, Values, Has, HasElement on the wrapped result), commutative results must be Equal with equal Hash, operands must stay untouched; non-trivial when the sets overlap, neither contains the other and the pool has equal or colliding members; distinct = hash of the case",
		Quick: 5000, Thorough: 6000,
		Gen: func(t *rapid.T) AlgebraCase {
			ety, pool := drawPool(t, 3, 8, false)
			idx := make([]int, len(pool))
			for i := range idx {
				idx[i] = i
			}
			// every pool member goes to a only, b only, both or neither; the
			// insertion orders are independent shuffles
			where := rapid.SliceOfN(rapid.IntRange(0, 3), len(pool), len(pool)).Draw(t, "where")
			pick := func(l string, in func(w int) bool) []int {
				out := []int{}
				for _, i := range rapid.Permutation(idx).Draw(t, l) {
					if in(where[i]) {
						out = append(out, i)
					}
				}
				return out
			}
			a := pick("a", func(w int) bool { return w == 0 || w == 2 })
			b := pick("b", func(w int) bool { return w == 1 || w == 2 })
			return AlgebraCase{ElemT: ety, Pool: pool, A: a, B: b, Via: rapid.IntRange(0, 2).Draw(t, "via")}
		},
		Check: func(c *facet.Ctx, ac AlgebraCase) error { return annotate(checkAlgebra(c, ac), ac.Pool) },
	})
	facet.Register(facet.F[OrderCase]{
		Prop: "C03", Name: "set/iteration-order",
		Rule:  "one membership (0-8 members from a pool dense in equal and colliding values) built by five routes (SetVal in two orders, ValueSet with extra members added first and removed last, union of two parts, AsValueSet+Copy); every route must hold the same members and, for capsule-free members, iterate them in the same order (ElementIterator = ForEachElement = AsValueSlice) and be RawEqual; sets of primitives must follow the documented order (strings lexicographic, numbers ascending, false<true, unknown after known, null last); non-trivial when >= 3 distinct members in a changed insertion order; distinct = hash of the case",
		Quick: 6000, Thorough: 8000,
		Gen:   genOrder,
		Check: func(c *facet.Ctx, oc OrderCase) error { return annotate(checkOrder(c, oc), oc.Pool) },
	})
}
